//! Extensions of the specification beyond the listed properties: UnionFind / KeyedUnionFind (UnionFindM.tla) and
//! top_sort (TopSort.tla). They serve C12 (column grouping), C11 (ordering of the pivot result), C18/C01 (circle counting).
use crate::util::*;
use rand::Rng;
use serde_json::json;
use yui::algo::top_sort;
use yui::{KeyedUnionFind, UnionFind};

fn roots(u: &UnionFind) -> Vec<usize> { (0..u.size()).map(|i| u.root(i)).collect() }

/// spec -> impl: replay union sequences, compare the partition (through is_same on all pairs, root, group) with TLC's
pub fn uf_replay(a: &Args) {
    let lines = read_ndjson(a.inp.as_ref().expect("--in"));
    let (mut n_ok, mut bad) = (0usize, 0usize);
    for ln in lines.iter() {
        let n = ln["n"].as_u64().unwrap() as usize;
        let unions: Vec<(usize, usize)> = ln["unions"].as_array().unwrap().iter().map(|p| (p[0].as_u64().unwrap() as usize, p[1].as_u64().unwrap() as usize)).collect();
        let classes: Vec<Vec<usize>> = ln["classes"].as_array().unwrap().iter().map(|c| c.as_array().unwrap().iter().map(|x| x.as_u64().unwrap() as usize).collect()).collect();
        let r = guarded(|| {
            let mut u = UnionFind::new(n);
            let mut k = KeyedUnionFind::<String>::new();
            let keys: Vec<String> = (0..n).map(|i| format!("k{}", i)).collect();
            for x in keys.iter() { k.insert(x.clone()); }
            for &(i, j) in unions.iter() { u.union(i, j); k.union(&keys[i], &keys[j]); }
            let mut ok = true;
            for i in 0..n { for j in 0..n { let same = classes[i].contains(&j); if u.is_same(i, j) != same || k.is_same(&keys[i], &keys[j]) != same { ok = false; } } }
            for i in 0..n { if !classes[i].contains(&u.root(i)) { ok = false; } }
            let mut g: Vec<Vec<usize>> = u.group(); g.iter_mut().for_each(|c| c.sort()); g.sort();
            let mut e: Vec<Vec<usize>> = classes.clone(); e.sort(); e.dedup();
            if g != e { ok = false; }
            let mut gk: Vec<Vec<String>> = k.group().into_iter().map(|c| { let mut c: Vec<String> = c.into_iter().cloned().collect(); c.sort(); c }).collect(); gk.sort();
            let mut ek: Vec<Vec<String>> = e.iter().map(|c| { let mut c: Vec<String> = c.iter().map(|i| keys[*i].clone()).collect(); c.sort(); c }).collect(); ek.sort();
            if gk != ek { ok = false; }
            (ok, g)
        });
        match r { Ok((true, _)) => n_ok += 1, Ok((false, g)) => { bad += 1; mismatch(json!({"case": ln, "got_groups": g})); } Err(m) => { bad += 1; mismatch(json!({"case": ln, "panic": m})); } }
    }
    summary("replay", json!({"histories": lines.len(), "ok": n_ok, "mismatches": bad}));
}

/// impl -> spec: random histories on the real structure (extend / union / is_same / roots / group)
pub fn uf_record(a: &Args) {
    let mut t = Tracer::create(&a.out);
    let nh = if a.thorough() { 200 } else { 25 };
    for h in 0..nh {
        let mut rng = a.rng(500 + h);
        let n0 = rng.gen_range(0..8usize);
        let mut u = UnionFind::new(n0);
        t.emit(&json!({"op":"new","res":"ok","n":n0}));
        for _ in 0..rng.gen_range(5..40) {
            let n = u.size();
            match rng.gen_range(0..10) {
                0 => { let l = rng.gen_range(0..3usize); u.extend(l); t.emit(&json!({"op":"extend","res":"ok","l":l})); }
                1..=5 if n > 0 => { let (i, j) = (rng.gen_range(0..n), rng.gen_range(0..n)); let r = guarded(|| u.union(i, j)); t.emit(&json!({"op":"union","res": if r.is_ok() { "ok" } else { "panic" },"i":i,"j":j})); }
                6 | 7 if n > 0 => { let (i, j) = (rng.gen_range(0..n), rng.gen_range(0..n)); t.emit(&json!({"op":"is_same","res":"ok","i":i,"j":j,"out":u.is_same(i, j)})); }
                8 => t.emit(&json!({"op":"roots","res":"ok","out":roots(&u)})),
                _ => t.emit(&json!({"op":"group","res":"ok","out":u.group()})),
            }
        }
        t.emit(&json!({"op":"roots","res":"ok","out":roots(&u)})); t.emit(&json!({"op":"group","res":"ok","out":u.group()}));
    }
    let n = t.finish();
    summary("record", json!({"events": n, "histories": nh}));
}

/// spec -> impl inputs, impl -> spec validation: top_sort on TLC-enumerated digraphs and on random DAGs / cyclic graphs
pub fn topsort_record(a: &Args) {
    let mut t = Tracer::create(&a.out);
    let run = |keys: Vec<usize>, succ: Vec<Vec<usize>>, t: &mut Tracer| {
        let input: Vec<(usize, Vec<usize>)> = keys.iter().cloned().zip(succ.iter().cloned()).collect();
        let mut e = json!({"op":"top_sort","keys":keys,"succ":succ});
        match guarded(|| top_sort(input)) { Ok(Ok(order)) => { e["res"] = json!("ok"); e["ok"] = json!(true); e["order"] = json!(order); }
            Ok(Err(_)) => { e["res"] = json!("ok"); e["ok"] = json!(false); e["order"] = json!([]); }
            Err(m) => { e["res"] = json!("panic"); e["panic"] = json!(m); } }
        t.emit(&e);
    };
    let mut n_enum = 0;
    if let Some(p) = &a.inp { for ln in read_ndjson(p) { n_enum += 1;
        let keys: Vec<usize> = ln["keys"].as_array().unwrap().iter().map(|x| x.as_u64().unwrap() as usize).collect();
        let succ: Vec<Vec<usize>> = ln["succ"].as_array().unwrap().iter().map(|c| c.as_array().unwrap().iter().map(|x| x.as_u64().unwrap() as usize).collect()).collect();
        run(keys, succ, &mut t); } }
    let mut rng = a.rng(600);
    for _ in 0..(if a.thorough() { 600 } else { 60 }) {
        let n = rng.gen_range(0..9usize);
        let mut keys: Vec<usize> = (0..n).map(|i| i * 3 + 1).collect(); { use rand::seq::SliceRandom; keys.shuffle(&mut rng); }
        // a DAG along the shuffled order, sometimes with one back edge or an unknown vertex
        let mut succ: Vec<Vec<usize>> = (0..n).map(|i| (i + 1..n).filter(|_| rng.gen_bool(0.35)).map(|j| keys[j]).collect()).collect();
        match rng.gen_range(0..4) { 0 if n >= 2 => { let (i, j) = (rng.gen_range(1..n), rng.gen_range(0..n)); if j < i { succ[i].push(keys[j]); } }
                                    1 if n >= 1 => { let i = rng.gen_range(0..n); succ[i].push(1000); } _ => {} }
        run(keys, succ, &mut t);
    }
    let n = t.finish();
    summary("record", json!({"events": n, "tlc_enumerated_graphs": n_enum}));
}
