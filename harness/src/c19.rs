//! C19 — involutive Khovanov homology (yui_kh::khi) vs spec/sys/KhICone.tla, SSIRelations.tla.
//!
//! replay (spec -> impl): TLC-evaluated tables (dimension of the homology of the mapping cone of 1 + tau in every
//!   degree, bigraded refinement, ordinary Khovanov ranks of the cube) for table diagrams, their mirror images and
//!   their second symmetric numbering; each is compared with the library under several listings of the crossings
//!   and every builder variant (KhIComplex::new, SymTngBuilder without preprocessing / without automatic
//!   delooping / without automatic elimination; SymTngBuilder::build_kh_complex and the ordinary KhComplex).
//! record (impl -> spec): histories on the whole built-in table (+ the 9_46 code of the library's tests):
//!   load, re-list the crossings, mirror, second symmetric numbering; after every move the complexes over F2 and
//!   F2[H] with ALL their matrices, their homology, the bigraded table, and the pair of s-type invariants.
//! The diagram surgery used to generate inputs (re-listing, relabelling) is the harness' own code on plain PD data.
use crate::c18::{data_json, data_of, Data};
use crate::util::*;
use num_traits::Zero;
use rand::rngs::StdRng;
use rand::seq::SliceRandom;
use rand::Rng;
use serde_json::{json, Value};
use std::collections::BTreeMap;
use yui::poly::{HPoly, Mono, Poly};
use yui::{EucRing, EucRingOps, Ring, RingOps, FF2};
use yui_homology::{ChainComplex, ChainComplexTrait, GridTrait, SummandTrait};
use yui_kh::kh::KhComplex;
use yui_kh::khi::internal::v2::builder::SymTngBuilder;
use yui_kh::khi::{ssi_invariants, KhIComplex};
use yui_link::InvLink;
use yui_matrix::MatTrait;

pub type Pd = Vec<[usize; 4]>;
type PH = Poly<'H', FF2>;
type HH = HPoly<'H', FF2>;

pub const TABLE: [&str; 23] = ["3_1", "4_1", "5_1", "5_2a", "5_2b", "6_1a", "6_1b", "6_2a", "6_2b", "6_3", "7_1", "7_2a", "7_2b", "7_3a", "7_3b",
    "7_4a", "7_4b", "7_5a", "7_5b", "7_6a", "7_6b", "7_7a", "7_7b"];
const K9_46: [[usize; 4]; 9] = [[18, 8, 1, 7], [13, 6, 14, 7], [12, 2, 13, 1], [8, 18, 9, 17], [5, 14, 6, 15], [2, 12, 3, 11], [16, 10, 17, 9], [15, 4, 16, 5], [10, 4, 11, 3]];

/// the code of a table entry, read back from the library's loader
pub fn table_code(name: &str) -> Pd {
    if name == "9_46" { return K9_46.to_vec(); }
    InvLink::load(name).expect("table name").link().data().iter().map(|c| *c.edges()).collect()
}
pub fn inv_of(pd: &Pd, mir: bool) -> InvLink { let l = InvLink::sinv_knot_from_code(pd.iter().cloned()); if mir { l.mirror() } else { l } }
fn reorder(pd: &Pd, pi: &[usize]) -> Pd { pi.iter().map(|i| pd[i - 1]).collect() }
fn rotate(pd: &Pd) -> Pd { let n = pd.len(); pd.iter().map(|x| x.map(|e| (e + n - 1) % (2 * n) + 1)).collect() }

// ------------------------------------------------------------------ projections (library -> JSON)
pub trait Exps { fn exps(&self) -> Vec<usize>; }
impl Exps for FF2 { fn exps(&self) -> Vec<usize> { if self.is_zero() { vec![] } else { vec![0] } } }
impl Exps for PH { fn exps(&self) -> Vec<usize> { let mut v: Vec<usize> = self.iter().filter(|(_, c)| !c.is_zero()).map(|(x, _)| x.deg()).collect(); v.sort(); v } }
impl Exps for HH { fn exps(&self) -> Vec<usize> { if self.is_zero() { vec![] } else { vec![self.deg()] } } }

/// [lo, dims, mats]: every differential as a list of [row, col, exponents]
fn cx_json<X, R>(c: &ChainComplex<X, R>) -> Value
where X: yui::lc::Gen, R: Ring + Exps, for<'x> &'x R: RingOps<R> {
    let sup: Vec<isize> = c.support().collect();
    assert!(!sup.is_empty(), "empty support");
    for w in sup.windows(2) { assert_eq!(w[0] + 1, w[1], "support not contiguous"); }
    let dims: Vec<usize> = sup.iter().map(|&i| c[i].rank()).collect();
    let mut mats = vec![];
    for (k, &i) in sup.iter().enumerate().take(sup.len() - 1) {
        let m = c.d_matrix(i);
        assert_eq!(m.shape(), (dims[k + 1], dims[k]), "shape of d[{}]", i);
        let mut es: Vec<(usize, usize, Vec<usize>)> = m.iter().filter(|(_, _, a)| !a.is_zero()).map(|(r, cc, a)| (r, cc, a.exps())).collect();
        es.sort();
        mats.push(json!(es.into_iter().map(|(r, cc, e)| json!([r, cc, e])).collect::<Vec<_>>()));
    }
    json!({"lo": sup[0], "dims": dims, "mats": mats})
}
fn hom_json<H, R>(h: &H, sup: &[isize]) -> Value
where H: std::ops::Index<isize>, H::Output: SummandTrait<R = R>, R: Ring + Exps, for<'x> &'x R: RingOps<R> {
    json!(sup.iter().map(|&i| { let s = &h[i]; json!([s.rank(), s.tors().iter().map(|a| a.exps()).collect::<Vec<_>>()]) }).collect::<Vec<_>>())
}
fn ranks_of(hom: &Value, lo: i64) -> Vec<[i64; 2]> {
    hom.as_array().unwrap().iter().enumerate().map(|(k, x)| [lo + k as i64, x[0].as_i64().unwrap()]).filter(|r| r[1] > 0).collect()
}

pub const KHI_VARIANTS: [&str; 4] = ["new", "nopre", "nodeloop", "noelim"];
pub const KH_ROUTES: [&str; 5] = ["sym", "sym_nopre", "sym_nodeloop", "sym_noelim", "ord"];

fn builder<R>(l: &InvLink, h: &R, t: &R, red: bool, variant: &str) -> SymTngBuilder<R>
where R: Ring, for<'x> &'x R: RingOps<R> {
    let mut b = SymTngBuilder::new(l, h, t, red);
    match variant {
        "nopre" => {}
        "nodeloop" => { b.auto_deloop = false; b.preprocess(); }
        "noelim" => { b.auto_elim = false; b.preprocess(); }
        _ => { b.preprocess(); }
    }
    b.process_all();
    b.finalize();
    b
}
pub fn khi_complex<R>(l: &InvLink, h: &R, t: &R, red: bool, variant: &str) -> KhIComplex<R>
where R: Ring, for<'x> &'x R: RingOps<R> {
    if variant == "new" { KhIComplex::new(l, h, t, red) } else { builder(l, h, t, red, variant).into_khi_complex() }
}
pub fn kh_complex<R>(l: &InvLink, h: &R, t: &R, red: bool, route: &str) -> KhComplex<R>
where R: Ring, for<'x> &'x R: RingOps<R> {
    match route {
        "ord" => KhComplex::new(l.link(), h, t, red),
        "sym" => SymTngBuilder::build_kh_complex(l, h, t, red),
        r => builder(l, h, t, red, &r[4..]).into_kh_complex(),
    }
}
/// (cx, hom) of the involutive complex
fn khi_dump<R>(l: &InvLink, h: &R, t: &R, red: bool, variant: &str) -> (Value, Value)
where R: EucRing + Exps, for<'x> &'x R: EucRingOps<R> {
    let c = khi_complex(l, h, t, red, variant);
    let sup: Vec<isize> = c.support().collect();
    let cx = cx_json(c.inner());
    let hm = c.homology();
    (cx, hom_json(&hm, &sup))
}
fn kh_dump<R>(l: &InvLink, h: &R, t: &R, red: bool, route: &str) -> (Value, Value)
where R: EucRing + Exps, for<'x> &'x R: EucRingOps<R> {
    let c = kh_complex(l, h, t, red, route);
    let sup: Vec<isize> = c.inner().support().collect();
    let cx = cx_json(c.inner());
    let hm = c.homology();
    (cx, hom_json(&hm, &sup))
}
fn khi_bigraded(l: &InvLink, red: bool, variant: &str) -> Value {
    let z = FF2::zero();
    let c = khi_complex(l, &z, &z, red, variant).into_bigraded();
    let h = c.homology();
    let mut rows: Vec<[i64; 3]> = vec![];
    for idx in h.support() { let r = h[idx].rank(); if r > 0 { rows.push([idx.0 as i64, idx.1 as i64, r as i64]); } }
    rows.sort();
    json!(rows)
}
fn ssi(l: &InvLink, ring: &str, red: bool) -> Value {
    let p = if ring == "HP" { ssi_invariants(l, &HH::variable(), red) } else { ssi_invariants(l, &PH::variable(), red) };
    json!([p.0, p.1])
}

// ------------------------------------------------------------------ record (impl -> spec)
struct Rec<'a> { t: &'a mut Tracer, pd: Pd, mir: bool, cur: Option<InvLink>, panics: usize, complexes: usize, pairs: usize, tables: usize }
impl<'a> Rec<'a> {
    fn d(&self) -> Value { match &self.cur { Some(l) => data_json(&data_of(l.link())), None => json!([]) } }
    fn emit(&mut self, mut e: Value, r: Result<(), String>) {
        match r { Ok(()) => { e["res"] = json!("ok"); } Err(m) => { e["res"] = json!("panic"); e["panic"] = json!(m); self.panics += 1; } }
        e["d"] = self.d();
        self.t.emit(&e);
    }
    fn set(&mut self, e: Value, pd: Pd, mir: bool, f: impl FnOnce() -> InvLink) {
        match guarded(f) { Ok(l) => { self.cur = Some(l); self.pd = pd; self.mir = mir; self.emit(e, Ok(())) } Err(m) => self.emit(e, Err(m)) }
    }
    fn load(&mut self, name: &str, pd: Pd, mir: bool) { let p = pd.clone(); self.set(json!({"op": "iload", "name": name, "pd": pd, "mir": mir}), pd.clone(), mir, move || inv_of(&p, mir)); }
    fn reorder(&mut self, rng: &mut StdRng) {
        let mut pi: Vec<usize> = (1..=self.pd.len()).collect(); pi.shuffle(rng);
        let (pd, mir) = (reorder(&self.pd, &pi), self.mir); let p = pd.clone();
        self.set(json!({"op": "ireorder", "pi": pi}), pd, mir, move || inv_of(&p, mir));
    }
    fn mirror(&mut self) { let l = self.cur.clone().unwrap(); let (pd, mir) = (self.pd.clone(), !self.mir); self.set(json!({"op": "imirror"}), pd, mir, move || l.mirror()); }
    fn rotate(&mut self) { let (pd, mir) = (rotate(&self.pd), self.mir); let p = pd.clone(); self.set(json!({"op": "irotate"}), pd, mir, move || inv_of(&p, mir)); }
    fn cx_event(&mut self, mut e: Value, f: impl FnOnce(&InvLink) -> (Value, Value)) {
        let l = self.cur.clone().unwrap();
        match guarded(|| f(&l)) {
            Ok((cx, hom)) => { e["cx"] = cx; e["hom"] = hom; self.complexes += 1; self.emit(e, Ok(())) }
            Err(m) => { e["cx"] = json!({"lo": 0, "dims": [0], "mats": []}); e["hom"] = json!([[0, []]]); self.emit(e, Err(m)) }
        }
    }
    fn khi(&mut self, h: u8, t: u8, red: bool, variant: &str) {
        let (hh, tt) = (FF2::from(h), FF2::from(t)); let v = variant.to_string();
        self.cx_event(json!({"op": "khi", "h": h, "t": t, "red": red, "variant": variant}), move |l| khi_dump(l, &hh, &tt, red, &v));
    }
    fn khih(&mut self, red: bool, variant: &str) {
        let v = variant.to_string();
        self.cx_event(json!({"op": "khih", "red": red, "variant": variant}), move |l| khi_dump(l, &PH::variable(), &PH::zero(), red, &v));
    }
    fn kh(&mut self, h: u8, t: u8, red: bool, route: &str) {
        let (hh, tt) = (FF2::from(h), FF2::from(t)); let v = route.to_string();
        self.cx_event(json!({"op": "kh", "h": h, "t": t, "red": red, "route": route}), move |l| kh_dump(l, &hh, &tt, red, &v));
    }
    fn khibi(&mut self, red: bool, variant: &str) {
        let l = self.cur.clone().unwrap(); let v = variant.to_string();
        match guarded(|| khi_bigraded(&l, red, &v)) {
            Ok(tab) => { self.tables += 1; self.emit(json!({"op": "khibi", "red": red, "variant": variant, "tab": tab}), Ok(())) }
            Err(m) => self.emit(json!({"op": "khibi", "red": red, "variant": variant, "tab": []}), Err(m)),
        }
    }
    fn ssi(&mut self, ring: &str, red: bool) {
        let l = self.cur.clone().unwrap(); let r = ring.to_string();
        match guarded(|| ssi(&l, &r, red)) {
            Ok(p) => { self.pairs += 1; self.emit(json!({"op": "ssi", "ring": ring, "red": red, "pair": p}), Ok(())) }
            Err(m) => self.emit(json!({"op": "ssi", "ring": ring, "red": red, "pair": [0, 0]}), Err(m)),
        }
    }
    /// level 2: every configuration, every variant; level 1: every configuration by KhIComplex::new + one random variant; level 0: pairs only
    fn observe(&mut self, level: usize, rng: &mut StdRng) {
        let n = self.pd.len();
        if level >= 1 {
            for (h, t, red) in CFGS {
                let vs: Vec<&str> = if level >= 2 { KHI_VARIANTS.to_vec() } else { vec!["new", KHI_VARIANTS[rng.gen_range(1..4)]] };
                for v in vs { if v == "noelim" && n > 4 { continue; } self.khi(h, t, red, v); }
                let rs: Vec<&str> = if level >= 2 { KH_ROUTES.to_vec() } else { vec!["sym", "ord"] };
                for r in rs { if r == "sym_noelim" && n > 4 { continue; } self.kh(h, t, red, r); }
            }
            for red in [false, true] {
                let vs: Vec<&str> = if level >= 2 { KHI_VARIANTS.to_vec() } else { vec!["new", KHI_VARIANTS[rng.gen_range(1..3)]] };
                for v in vs { if v == "noelim" && n > 4 { continue; } self.khih(red, v); }
                self.khibi(red, "new");
                if level >= 2 { self.khibi(red, "nopre"); }
            }
        }
        for ring in ["HP", "P"] { for red in [false, true] { self.ssi(ring, red); } }
    }
}
pub const CFGS: [(u8, u8, bool); 6] = [(0, 0, false), (1, 0, false), (0, 1, false), (1, 1, false), (0, 0, true), (1, 0, true)];

pub fn record(a: &Args) {
    let th = a.thorough();
    let mut t = Tracer::create(&a.out);
    let mut rng = a.rng(19);
    let mut names: Vec<String> = TABLE.iter().map(|s| s.to_string()).collect();
    names.push("9_46".into());
    let picked: Vec<String> = if th { names.clone() } else {
        // quick: the small ones, 9_46 (the only pair with s0 < s1), and a seeded sample of the rest
        let mut v: Vec<String> = ["3_1", "4_1", "5_2a", "6_2a", "7_1", "9_46"].iter().map(|s| s.to_string()).collect();
        let mut rest: Vec<String> = names.iter().filter(|s| !v.contains(s)).cloned().collect(); rest.shuffle(&mut rng);
        v.extend(rest.into_iter().take(4)); v };
    let (mut hist, mut panics, mut complexes, mut pairs, mut tables, mut max_n, mut sweeps) = (0usize, 0usize, 0usize, 0usize, 0usize, 0usize, 0usize);
    for name in picked.iter() {
        let pd = table_code(name); let n = pd.len(); max_n = max_n.max(n);
        // history 1: load, observe everything, re-list, observe, mirror, observe, re-list, pairs
        // history 2: load mirrored, second numbering, observe, re-list, pairs
        for variant in 0..2 {
            t.emit(&json!({"op": "reset", "res": "ok", "d": []}));
            let mut r = Rec { t: &mut t, pd: vec![], mir: false, cur: None, panics: 0, complexes: 0, pairs: 0, tables: 0 };
            let full = if n <= 6 || th { 2 } else { 1 };
            if variant == 0 {
                r.load(name, pd.clone(), false);
                if r.cur.is_some() {
                    r.observe(full, &mut rng);
                    r.reorder(&mut rng); r.observe(1, &mut rng);
                    r.mirror(); r.observe(1, &mut rng);
                    r.reorder(&mut rng); r.observe(if th { 1 } else { 0 }, &mut rng);
                    r.mirror(); r.observe(0, &mut rng);
                }
            } else {
                r.load(name, pd.clone(), rng.gen_bool(0.5));
                if r.cur.is_some() {
                    r.observe(0, &mut rng);
                    r.rotate(); r.observe(1, &mut rng);
                    r.reorder(&mut rng); r.observe(if th { 1 } else { 0 }, &mut rng);
                    r.mirror(); r.observe(0, &mut rng);
                }
            }
            panics += r.panics; complexes += r.complexes; pairs += r.pairs; tables += r.tables; hist += 1;
        }
        // history 3 (listing sweep): the half of the diagram the symmetric builder works on is chosen from the order in
        // which the crossings are listed; with >= 3 off-axis crossings per side that choice has many cases, so the pair is
        // observed under many listings (one ring, cheap) - a call that panics is an event the specification cannot explain
        if n >= 7 {
            t.emit(&json!({"op": "reset", "res": "ok", "d": []}));
            let mut r = Rec { t: &mut t, pd: vec![], mir: false, cur: None, panics: 0, complexes: 0, pairs: 0, tables: 0 };
            r.load(name, pd.clone(), false);
            if r.cur.is_some() {
                r.ssi("P", false);
                for k in 0..(if th { 40 } else { 24 }) { r.reorder(&mut rng); r.ssi("P", k % 2 == 1); sweeps += 1; }
            }
            panics += r.panics; pairs += r.pairs; hist += 1;
        }
    }
    let n = t.finish();
    summary("record", json!({"events": n, "histories": hist, "knots": picked.len(), "complexes": complexes, "pairs": pairs, "bigraded_tables": tables, "max_crossings": max_n, "panics": panics, "listing_sweep_orders": sweeps}));
}

// ------------------------------------------------------------------ replay (spec -> impl)
fn data_from(v: &Value) -> Data { crate::c18::data_from_json(v) }

/// Input lines: {"kind":"khi","name":..,"d":[{t,e}..],"rot":bool,"tab":[{"f":"khi"|"kh"|"khibi","h":0|1,"t":0|1,"red":bool,"ranks":[[..]..]}..]}
pub fn replay(a: &Args) {
    let lines = read_ndjson(a.inp.as_ref().expect("--in"));
    let nperm: usize = a.flag("--perms").and_then(|s| s.parse().ok()).unwrap_or(2);
    let mut t = Tracer::create(&a.out);
    let mut rng = a.rng(119);
    let (mut cases, mut checks, mut bad, mut panics) = (0usize, 0usize, 0usize, 0usize);
    let report = |t: &mut Tracer, what: &str, ln: &Value, row: &Value, pi: &[usize], variant: &str, got: Value| {
        let v = json!({"what": what, "name": ln["name"], "d": ln["d"], "rot": ln["rot"], "row": row, "pi": pi, "variant": variant, "got": got});
        mismatch(v.clone()); t.emit(&v);
    };
    for ln in lines.iter() {
        if ln["kind"] != "khi" { continue; }
        cases += 1;
        let d = data_from(&ln["d"]);
        let mir = d.iter().all(|(ty, _)| ty == "Xm");
        let pd: Pd = d.iter().map(|(_, e)| *e).collect();
        let n = pd.len();
        let name = ln["name"].as_str().unwrap_or("");
        // the table of KhITable.tla is the library's table
        if !ln["rot"].as_bool().unwrap_or(false) {
            checks += 1;
            let lib = guarded(|| table_code(name));
            if lib.as_ref().ok() != Some(&pd) { bad += 1; report(&mut t, "table", ln, &json!(null), &[], "", json!(lib.unwrap_or_default())); }
        }
        let mut perms: Vec<Vec<usize>> = vec![(1..=n).collect()];
        for _ in 0..nperm { let mut p: Vec<usize> = (1..=n).collect(); p.shuffle(&mut rng); perms.push(p); }
        for (pk, pi) in perms.iter().enumerate() {
            let l = match guarded(|| inv_of(&reorder(&pd, pi), mir)) { Ok(l) => l, Err(m) => { bad += 1; panics += 1; report(&mut t, "load", ln, &json!(null), pi, "", json!({"panic": m})); continue; } };
            for row in ln["tab"].as_array().unwrap().iter() {
                let f = row["f"].as_str().unwrap();
                let (h, tt, red) = (row["h"].as_u64().unwrap() as u8, row["t"].as_u64().unwrap() as u8, row["red"].as_bool().unwrap());
                let (hh, tv) = (FF2::from(h), FF2::from(tt));
                let mut exp2: Vec<Vec<i64>> = row["ranks"].as_array().unwrap().iter().map(|x| x.as_array().unwrap().iter().map(|y| y.as_i64().unwrap()).collect()).collect();
                exp2.sort();
                let want = json!(exp2);
                // the identity listing gets every variant, the others the main entry points and one seeded variant
                let variants: Vec<&str> = match f {
                    "khi" => if pk == 0 { KHI_VARIANTS.to_vec() } else { vec!["new", KHI_VARIANTS[rng.gen_range(1..4)]] },
                    "kh" => if pk == 0 { KH_ROUTES.to_vec() } else { vec!["sym", "ord", KH_ROUTES[rng.gen_range(1..4)]] },
                    _ => if pk == 0 { vec!["new", "nopre"] } else { vec!["new"] },
                };
                for v in variants {
                    if v.ends_with("noelim") && n > 7 { continue; }
                    checks += 1;
                    let got = guarded(|| match f {
                        "khi" => { let c = khi_complex(&l, &hh, &tv, red, v); let sup: Vec<isize> = c.support().collect(); let hm = c.homology(); json!(ranks_of(&hom_json(&hm, &sup), sup[0] as i64)) }
                        "kh" => { let c = kh_complex(&l, &hh, &tv, red, v); let sup: Vec<isize> = c.inner().support().collect(); let hm = c.homology(); json!(ranks_of(&hom_json(&hm, &sup), sup[0] as i64)) }
                        _ => khi_bigraded(&l, red, v),
                    });
                    match got {
                        Ok(g) => if g != want { bad += 1; report(&mut t, f, ln, row, pi, v, g); },
                        Err(m) => { bad += 1; panics += 1; report(&mut t, f, ln, row, pi, v, json!({"panic": m})); }
                    }
                }
            }
        }
    }
    t.finish();
    let _ = BTreeMap::<u8, u8>::new();
    summary("replay", json!({"cases": cases, "checks": checks, "mismatches": bad, "panics": panics, "listings_per_case": nperm + 1}));
}
