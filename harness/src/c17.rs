//! C17 — BitSeq vs the list-of-booleans machine of spec/sys/BitSeq.tla.
use crate::util::*;
use rand::rngs::StdRng;
use rand::Rng;
use serde_json::{json, Value};
use std::str::FromStr;
use yui::bitseq::{Bit, BitSeq};

pub const NREG: usize = 3;

/// Projection of a BitSeq to the abstract state: bits read from the public (as_u64, len) pair.
fn bits_of(b: &BitSeq) -> Vec<u8> {
    let v = b.as_u64();
    (0..b.len()).map(|i| if i < 64 { ((v >> i) & 1) as u8 } else { 0 }).collect()
}
fn word_bits(v: u64) -> Vec<u8> { (0..64).map(|i| ((v >> i) & 1) as u8).collect() }
fn word_of(bits: &[u8]) -> u64 { bits.iter().enumerate().fold(0u64, |a, (i, b)| if *b == 1 && i < 64 { a | (1u64 << i) } else { a }) }
fn bit(b: u8) -> Bit { if b == 1 { Bit::Bit1 } else { Bit::Bit0 } }
fn regs_json(regs: &[BitSeq; NREG]) -> Value { json!(regs.iter().map(bits_of).collect::<Vec<_>>()) }

/// Execute one event on the register file. Returns (res, out).
pub fn exec(regs: &mut [BitSeq; NREG], e: &Value) -> (String, Value) {
    let op = e["op"].as_str().unwrap();
    let r = e["r"].as_u64().unwrap_or(0) as usize;
    let r2 = e["r2"].as_u64().unwrap_or(0) as usize;
    let form = e["form"].as_u64().unwrap_or(0);
    let none = json!("-");
    // constructors / mutators: compute the new value of register r (None = Err result)
    let put = |regs: &mut [BitSeq; NREG], f: &dyn Fn(&[BitSeq; NREG]) -> Option<BitSeq>| -> (String, Value) {
        let snapshot = *regs;
        match guarded(|| f(&snapshot)) {
            Ok(Some(v)) => { regs[r] = v; ("ok".into(), json!("-")) }
            _ => ("rej".into(), json!("-")),
        }
    };
    let obs = |f: &dyn Fn() -> Value| -> (String, Value) {
        match guarded(f) { Ok(v) => ("ok".into(), v), Err(_) => ("rej".into(), json!("-")) }
    };
    match op {
        "new" => { let w = word_of(&u8s_of(&e["word"])); let n = usize_of(e, "len"); put(regs, &|_| Some(BitSeq::new(w, n))) }
        "new_rev" => { let w = word_of(&u8s_of(&e["word"])); let n = usize_of(e, "len"); put(regs, &|_| Some(BitSeq::new_rev(w, n))) }
        "empty" => put(regs, &|_| Some(BitSeq::empty())),
        "zeros" => { let n = usize_of(e, "n"); put(regs, &|_| Some(BitSeq::zeros(n))) }
        "ones" => { let n = usize_of(e, "n"); put(regs, &|_| Some(BitSeq::ones(n))) }
        "from_iter" => {
            let b = u8s_of(&e["bits"]);
            match form % 3 {
                0 => put(regs, &|_| Some(BitSeq::from_iter(b.iter().map(|x| bit(*x))))),
                1 => put(regs, &|_| Some(BitSeq::from_iter(b.iter().map(|x| *x == 1)))),
                _ => put(regs, &|_| Some(BitSeq::from_iter(b.iter().map(|x| *x as i32)))),
            }
        }
        "from_bit" => { let b = usize_of(e, "b") as u8; put(regs, &|_| Some(if form % 2 == 0 { BitSeq::from(bit(b)) } else { BitSeq::from(b) })) }
        "parse" => {
            let s: String = u8s_of(&e["chars"]).iter().map(|c| match c { 0 => '0', 1 => '1', _ => 'x' }).collect();
            put(regs, &|_| BitSeq::from_str(&s).ok())
        }
        "copy" => put(regs, &|g| Some(g[r2])),
        "push" => {
            let b = bit(usize_of(e, "b") as u8);
            put(regs, &|g| { let mut x = g[r]; match form % 4 {
                0 => x.push(b),
                1 => if b.is_one() { x.push_1() } else { x.push_0() },
                2 => x += b,
                _ => x = x + b,
            }; Some(x) })
        }
        "append" => put(regs, &|g| { let mut x = g[r]; let y = g[r2]; match form % 4 {
                0 => x.append(y),
                1 => x += &y,
                2 => x = x + &y,
                _ => x = &x + &y,
            }; Some(x) }),
        "insert" => { let i = usize_of(e, "i"); let b = bit(usize_of(e, "b") as u8);
            put(regs, &|g| { let mut x = g[r]; match form % 2 { 0 => x.insert(i, b), _ => if b.is_one() { x.insert_1(i) } else { x.insert_0(i) } }; Some(x) }) }
        "remove" => { let i = usize_of(e, "i"); put(regs, &|g| { let mut x = g[r]; x.remove(i); Some(x) }) }
        "set" => { let i = usize_of(e, "i"); let b = bit(usize_of(e, "b") as u8);
            put(regs, &|g| { let mut x = g[r]; match form % 2 { 0 => x.set(i, b), _ => if b.is_one() { x.set_1(i) } else { x.set_0(i) } }; Some(x) }) }
        "sub" => { let l = usize_of(e, "l"); put(regs, &|g| Some(g[r2].sub(l))) }
        "edit" => {
            let kind = e["kind"].as_str().unwrap().to_string(); let i = usize_of(e, "i"); let b = bit(usize_of(e, "b") as u8);
            put(regs, &|g| Some(g[r2].edit(|x| match kind.as_str() {
                "push" => x.push(b), "insert" => x.insert(i, b), "remove" => x.remove(i), _ => x.set(i, b) })))
        }
        "len" => { let x = regs[r]; obs(&|| json!(x.len())) }
        "is_empty" => { let x = regs[r]; obs(&|| json!(x.is_empty())) }
        "as_u64" => { let x = regs[r]; obs(&|| json!(word_bits(x.as_u64()))) }
        "weight" => { let x = regs[r]; obs(&|| json!(x.weight())) }
        "iter" => { let x = regs[r]; obs(&|| json!(x.iter().map(|b| b.as_u64()).collect::<Vec<_>>())) }
        "display" => { let x = regs[r]; obs(&|| {
            let s = if form % 2 == 0 { format!("{}", x) } else { format!("{:?}", x) };
            json!(s.chars().map(|c| match c { '0' => 0, '1' => 1, _ => 2 }).collect::<Vec<u8>>()) }) }
        "index" => { let x = regs[r]; let i = usize_of(e, "i"); obs(&|| json!(x[i].as_u64())) }
        "is_sub" => { let (x, y) = (regs[r], regs[r2]); obs(&|| json!(x.is_sub(&y))) }
        "cmp" => { let (x, y) = (regs[r], regs[r2]); obs(&|| {
            let o = if form % 2 == 0 { x.cmp(&y) } else { x.partial_cmp(&y).unwrap() };
            // the derived comparison operators must agree with cmp
            let lt = x < y; let gt = x > y;
            let s = match o { std::cmp::Ordering::Less => "LT", std::cmp::Ordering::Equal => "EQ", std::cmp::Ordering::Greater => "GT" };
            if (s == "LT") != lt || (s == "GT") != gt { json!("INCONSISTENT") } else { json!(s) } }) }
        "eq" => { let (x, y) = (regs[r], regs[r2]); obs(&|| json!(x == y)) }
        "generate" => { let n = usize_of(e, "n"); let k = usize_of(e, "k");
            obs(&|| json!(BitSeq::generate(n).take(k).map(|b| bits_of(&b)).collect::<Vec<_>>())) }
        _ => { let _ = none; panic!("unknown op {}", op) }
    }
}

// ------------------------------------------------------------------ record (impl -> spec)

fn pick_len(rng: &mut StdRng) -> usize {
    match rng.gen_range(0..10) { 0..=3 => rng.gen_range(56..=64), 4..=5 => rng.gen_range(0..=3), 6 => 64, 7 => *[31usize, 32, 33, 63].get(rng.gen_range(0..4)).unwrap(), _ => rng.gen_range(0..=64) }
}
fn rand_bits(rng: &mut StdRng, n: usize) -> Vec<u8> {
    match rng.gen_range(0..6) { 0 => vec![0; n], 1 => vec![1; n], _ => (0..n).map(|_| rng.gen_range(0..2u8)).collect() }
}
fn pick_idx(rng: &mut StdRng, len: usize, incl: bool) -> Option<usize> {
    let hi = if incl { len + 1 } else { len };
    if hi == 0 { return None; }
    Some(match rng.gen_range(0..5) { 0 => 0, 1 => hi - 1, 2 => hi / 2, _ => rng.gen_range(0..hi) })
}

fn gen_event(rng: &mut StdRng, regs: &[BitSeq; NREG]) -> Value {
    let r = rng.gen_range(0..NREG); let r2 = rng.gen_range(0..NREG);
    let form = rng.gen_range(0..12u64);
    let len = regs[r].len();
    let b = rng.gen_range(0..2u8);
    loop {
        let e = match rng.gen_range(0..40) {
            0 => { let n = pick_len(rng); let mut w = rand_bits(rng, n); w.resize(64, 0); json!({"op":"new","r":r,"word":w,"len":n}) }
            1 => { let n = if rng.gen_range(0..8) == 0 { 65 + rng.gen_range(0..3) } else { pick_len(rng) };
                   let w: Vec<u8> = if rng.gen_bool(0.5) { let mut w = rand_bits(rng, n.min(64)); w.resize(64, 0); w } else { rand_bits(rng, 64) };
                   if n > 64 { json!({"op":"new","r":r,"word":word_bits(0),"len":n}) } else { json!({"op":"new_rev","r":r,"word":w,"len":n}) } }
            2 => json!({"op":"empty","r":r}),
            3 => { let n = if rng.gen_range(0..8) == 0 { 65 } else { pick_len(rng) }; json!({"op":"zeros","r":r,"n":n}) }
            4 => { let n = if rng.gen_range(0..8) == 0 { 65 } else { pick_len(rng) }; json!({"op":"ones","r":r,"n":n}) }
            5 | 6 => { let n = if rng.gen_range(0..10) == 0 { 65 } else { pick_len(rng) }; json!({"op":"from_iter","r":r,"bits":rand_bits(rng, n),"form":form}) }
            7 => json!({"op":"from_bit","r":r,"b":b,"form":form}),
            8 => { let n = if rng.gen_range(0..10) == 0 { 65 } else { pick_len(rng) }; let mut c = rand_bits(rng, n);
                   if n > 0 && rng.gen_range(0..5) == 0 { let i = rng.gen_range(0..n); c[i] = 2; }
                   json!({"op":"parse","r":r,"chars":c}) }
            9 => json!({"op":"copy","r":r,"r2":r2}),
            10..=13 => json!({"op":"push","r":r,"b":b,"form":form}),
            14..=16 => json!({"op":"append","r":r,"r2":r2,"form":form}),
            17..=19 => match pick_idx(rng, len, true) { Some(i) => json!({"op":"insert","r":r,"i":i,"b":b,"form":form}), None => continue },
            20..=22 => match pick_idx(rng, len, false) { Some(i) => json!({"op":"remove","r":r,"i":i}), None => continue },
            23..=24 => match pick_idx(rng, len, false) { Some(i) => json!({"op":"set","r":r,"i":i,"b":b,"form":form}), None => continue },
            25..=26 => match pick_idx(rng, regs[r2].len(), true) { Some(l) => json!({"op":"sub","r":r,"r2":r2,"l":l}), None => continue },
            27 => { let l2 = regs[r2].len();
                    let (kind, i) = match rng.gen_range(0..4) {
                        0 => ("push", Some(0)), 1 => ("insert", pick_idx(rng, l2, true)), 2 => ("remove", pick_idx(rng, l2, false)), _ => ("set", pick_idx(rng, l2, false)) };
                    match i { Some(i) => json!({"op":"edit","r":r,"r2":r2,"kind":kind,"i":i,"b":b}), None => continue } }
            28 => json!({"op":"len","r":r}),
            29 => json!({"op":"is_empty","r":r}),
            30 | 31 => json!({"op":"as_u64","r":r}),
            32 => json!({"op":"weight","r":r}),
            33 => json!({"op":"iter","r":r}),
            34 => json!({"op":"display","r":r,"form":form}),
            35 => match pick_idx(rng, len, false) { Some(i) => json!({"op":"index","r":r,"i":i}), None => continue },
            36 => json!({"op":"is_sub","r":r,"r2":r2}),
            37 => json!({"op":"cmp","r":r,"r2":r2,"form":form}),
            38 => json!({"op":"eq","r":r,"r2":r2}),
            _ => { let n = match rng.gen_range(0..6) { 0 => 64, 1 => 63, 2 => 65, _ => rng.gen_range(0..5) }; json!({"op":"generate","n":n,"k":rng.gen_range(0..5)}) }
        };
        return e;
    }
}

/// Related operands make is_sub / cmp / eq non-trivially true: derive r2 from r.
fn relate(rng: &mut StdRng, regs: &[BitSeq; NREG]) -> Value {
    let r = rng.gen_range(0..NREG); let r2 = (r + 1 + rng.gen_range(0..NREG - 1)) % NREG;
    let l = regs[r].len();
    match rng.gen_range(0..3) {
        0 => json!({"op":"copy","r":r2,"r2":r}),
        1 => json!({"op":"sub","r":r2,"r2":r,"l": if l == 0 { 0 } else { rng.gen_range(0..=l) }}),
        _ => { let mut b = bits_of(&regs[r]); if !b.is_empty() { let i = rng.gen_range(0..b.len()); let j = rng.gen_range(0..b.len()); b.swap(i, j); }
               json!({"op":"from_iter","r":r2,"bits":b,"form":0}) }
    }
}

pub fn record(a: &Args) {
    let (nhist, hlen) = if a.thorough() { (600, 300) } else { (40, 250) };
    let mut t = Tracer::create(&a.out);
    let mut rejected = 0usize;
    let mut maxlen = 0usize;
    let mut at64 = 0usize;
    for h in 0..nhist {
        let mut rng = a.rng(h as u64);
        let mut regs = [BitSeq::default(); NREG];
        // every history starts from known registers (constructors do not depend on the past)
        let mut e = json!({"op":"reset","res":"ok","out":"-"}); e["regs"] = regs_json(&regs);
        t.emit(&e);
        for _ in 0..hlen {
            let e = if rng.gen_range(0..8) == 0 { relate(&mut rng, &regs) } else { gen_event(&mut rng, &regs) };
            step(&mut t, &mut regs, e, &mut rejected);
            for r in regs.iter() { maxlen = maxlen.max(r.len()); if r.len() == 64 { at64 += 1; } }
        }
    }
    let n = t.finish();
    summary("record", json!({"events": n, "histories": nhist, "rejected_calls": rejected, "max_len_seen": maxlen, "register_states_at_len_64": at64}));
}

fn step(t: &mut Tracer, regs: &mut [BitSeq; NREG], mut e: Value, rejected: &mut usize) {
    let (res, out) = exec(regs, &e);
    if res == "rej" { *rejected += 1; }
    e["res"] = json!(res); e["out"] = out; e["regs"] = regs_json(regs);
    t.emit(&e);
}

// ------------------------------------------------------------------ replay (spec -> impl)

/// Input: one JSON object per TLC transition {pre:[[bits]..], ev:{op,..}, post:[[bits]..], res, out}.
/// The real BitSeq is put in `pre`, the call is made, and registers, result class and output must match.
pub fn replay(a: &Args) {
    let lines = read_ndjson(a.inp.as_ref().expect("--in"));
    let mut t = Tracer::create(&a.out);
    let (mut n, mut bad) = (0usize, 0usize);
    for ln in lines.iter() {
        n += 1;
        let pre: Vec<Vec<u8>> = ln["pre"].as_array().unwrap().iter().map(u8s_of).collect();
        let built = guarded(|| { let mut regs = [BitSeq::default(); NREG]; for (i, b) in pre.iter().enumerate() { regs[i] = BitSeq::from_iter(b.iter().map(|x| bit(*x))); } regs });
        let mut regs = match built { Ok(r) => r, Err(m) => { bad += 1; let v = json!({"line": n, "why": "cannot construct pre-state", "panic": m, "case": ln}); mismatch(v.clone()); t.emit(&v); continue; } };
        let (res, out) = exec(&mut regs, &ln["ev"]);
        let got = json!({"res": res, "out": out, "post": regs_json(&regs)});
        let exp = json!({"res": ln["res"], "out": ln["out"], "post": ln["post"]});
        if got != exp { bad += 1; let v = json!({"line": n, "case": ln, "got": got}); mismatch(v.clone()); t.emit(&v); }
    }
    t.finish();
    summary("replay", json!({"transitions": n, "mismatches": bad}));
}
