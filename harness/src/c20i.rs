//! Extension of C20 to the sub-commands `khi` and `ckhi` of the `ykh` binary (involutive Khovanov homology / complex
//! of a strongly invertible knot) vs the decision table of spec/sys/CliKhI.tla.
//!
//! Same scheme as c20.rs: the drivers take the option product printed by TLC (Gen_CliKhI: abstract point, demanded
//! outcome, library call), run the freshly built binary at concrete instances, lex stdout (table + the sections that
//! follow it), call the library directly (InvLink::load / sinv_knot_from_code, KhIComplex, KhIHomology, ssi_invariants)
//! for the same parameters and write one `invoke` event per run (validated by Trace_CliKhI).
//!   replay  (A): every point of the product; besides the comparison with the library, the printed table is compared
//!            with the table TLC computed from the definition (mapping cone of 1 + tau, KhICone.tla; `--tables`) where the
//!            diagram is small enough: exactly over the field F2, through universal coefficients over F2[H] / F2[T];
//!   record  (B): seeded random instances: all table names, re-listed / re-numbered / shifted PD codes, catalogue
//!            codes, option spellings and orders, integers and spellings of the -c value.
use crate::c20::{cell, cells_differ, cv_str, elem, euler_differs, int_tok, lex_cell, norm_printed, parse_pd, parse_stdout, pd_json, run_bin, split_sup, strip_ansi, AsciiTracer, Catalogue, RingVars, Table, F2};
use crate::util::*;
use rand::rngs::StdRng;
use rand::seq::SliceRandom;
use rand::Rng;
use rayon::prelude::*;
use serde_json::{json, Value};
use std::collections::{BTreeMap, BTreeSet};
use yui::poly::{Poly, Poly2};
use yui::{EucRing, EucRingOps, Ring, RingOps};
use yui_homology::{GridTrait, SummandTrait};
use yui_kh::khi::{ssi_invariants, KhIComplex};
use yui_link::InvLink;

type Pd = Vec<[usize; 4]>;
static FILE_SEQ: std::sync::atomic::AtomicUsize = std::sync::atomic::AtomicUsize::new(0);

pub const TABLE: [&str; 23] = ["3_1", "4_1", "5_1", "5_2a", "5_2b", "6_1a", "6_1b", "6_2a", "6_2b", "6_3", "7_1", "7_2a", "7_2b", "7_3a", "7_3b",
    "7_4a", "7_4b", "7_5a", "7_5b", "7_6a", "7_6b", "7_7a", "7_7b"];

// ------------------------------------------------------------------ PD codes: the harness' own classifier (PDClass of CliKhI.tla)

pub fn pd_class(pd: &Pd) -> &'static str {
    if pd.is_empty() { return "empty"; }
    let mut cnt: BTreeMap<usize, usize> = BTreeMap::new();
    for x in pd { for e in x { *cnt.entry(*e).or_insert(0) += 1; } }
    if cnt.values().any(|c| *c != 2) { return "badpd"; }
    let n = 2 * pd.len();
    if cnt.keys().cloned().collect::<Vec<_>>() != (1..=n).collect::<Vec<_>>() { return "offpd"; }
    let inv = |e: usize| (n + 1 - e) % n + 1;
    let distinct = pd.iter().collect::<BTreeSet<_>>().len() == pd.len();
    let sym = pd.iter().all(|x| { let im: BTreeSet<usize> = x.iter().map(|e| inv(*e)).collect(); pd.iter().any(|y| im.iter().all(|e| y.contains(e))) });
    if distinct && sym { "sympd" } else { "asympd" }
}

fn table_code(name: &str) -> Pd { InvLink::load(name).expect("table name").link().data().iter().map(|c| *c.edges()).collect() }
fn rot_labels(pd: &Pd) -> Pd { let n = pd.len(); pd.iter().map(|x| x.map(|e| (e + n - 1) % (2 * n) + 1)).collect() }
fn shift_labels(pd: &Pd, k: usize) -> Pd { let n = 2 * pd.len(); pd.iter().map(|x| x.map(|e| (e + k - 1) % n + 1)).collect() }

// ------------------------------------------------------------------ concrete LINK arguments

#[derive(Clone, Debug)]
pub struct IInput { pub arg: String, pub ic: String, pub kind: &'static str, pub name: String, pub pd: Option<Pd>, pub cat: bool }

fn name_in(n: &str, ic: &str, cat: bool) -> IInput { IInput { arg: n.to_string(), ic: ic.to_string(), kind: "name", name: n.to_string(), pd: None, cat } }
fn text_in(s: &str, ic: &str) -> IInput { IInput { arg: s.to_string(), ic: ic.to_string(), kind: "text", name: String::new(), pd: None, cat: false } }
/// a PD-shaped argument: the class is computed
fn pd_in(pd: Pd, spaced: bool) -> IInput {
    let s = if spaced { format!(" {} ", pd_json(&pd).replace(",", ", ")) } else { pd_json(&pd) };
    IInput { arg: s, ic: pd_class(&pd).to_string(), kind: "pd", name: String::new(), pd: Some(pd), cat: false }
}
fn relist(pd: &Pd, k: usize) -> Pd { let mut v = pd.clone(); let n = v.len(); v.rotate_left(k % n); if k % 2 == 1 && n >= 2 { v.swap(0, n - 1); } v }

pub fn fixed_i(cat: &Catalogue, ic: &str) -> Vec<IInput> {
    let only = |v: Vec<IInput>| -> Vec<IInput> { v.into_iter().filter(|x| { assert_eq!(x.ic, ic, "fixed input {:?} is not of class {}", x.arg, ic); true }).collect() };
    match ic {
        // the first entries are the diagrams for which TLC computes the expected table itself
        "sinv" => { let mut v = vec!["3_1", "4_1", "3_1", "4_1", "5_2a", "6_2a", "5_1", "6_1b"]; if cat.thorough { v.extend(["5_2b", "6_1a", "7_4b", "6_3", "7_7a", "7_5b"]); } v.into_iter().map(|n| name_in(n, "sinv", true)).collect() }
        "sympd" => {
            let mut v = vec![pd_in(table_code("3_1"), false), pd_in(relist(&table_code("4_1"), 1), false), pd_in(table_code("4_1"), true), pd_in(relist(&table_code("3_1"), 2), false),
                             pd_in(parse_pd("[[1,4,2,5],[3,6,4,1],[5,2,6,3]]").unwrap(), false),      // the catalogue code of 3_1 happens to be symmetric
                             pd_in(rot_labels(&table_code("5_2a")), false), pd_in(relist(&table_code("6_1a"), 3), true)];
            if cat.thorough { v.push(pd_in(rot_labels(&table_code("6_2b")), false)); v.push(pd_in(cat.pd_of("4_1"), false)); v.push(pd_in(table_code("7_3a"), false)); }
            only(v)
        }
        "noninv" => ["5_2", "6_1", "8_19", "L2a1", "9_46", "7_7", "10_132"].iter().filter(|n| cat.exists(n)).map(|n| name_in(n, "noninv", true)).collect(),
        "unknown" => ["foo", "3_2", "3_1 ", "31", "3_1a", "5_2c", "K3_1", "3_1b"].iter().filter(|n| !cat.exists(n)).map(|n| name_in(n, "unknown", false)).collect(),
        "file" => ["3_1", "4_1"].iter().enumerate().map(|(k, n)| text_in(&cat.file_with(&format!("sinv_file_{}.json", k), &pd_json(&table_code(n))), "file")).collect(),
        "asympd" => only(vec![pd_in(cat.pd_of("5_2"), false), pd_in(shift_labels(&table_code("6_2a"), 1), false),
                              pd_in(parse_pd("[[1,5,2,4],[3,1,4,6],[5,3,6,2],[7,8,8,7]]").unwrap(), false), pd_in(cat.pd_of("6_1"), true), pd_in(shift_labels(&table_code("7_3a"), 3), false),
                              pd_in(parse_pd("[[1,2,3,4],[1,2,3,4]]").unwrap(), false)]),
        "offpd" => only(vec![pd_in(table_code("3_1").iter().map(|x| x.map(|e| e + 1)).collect(), false), pd_in(table_code("4_1").iter().map(|x| x.map(|e| e + 100)).collect(), false),
                             pd_in(table_code("3_1").iter().map(|x| x.map(|e| e - 1)).collect(), false), pd_in(table_code("3_1").iter().map(|x| x.map(|e| 2 * e)).collect(), true)]),
        "empty" => vec!["[]", "[ ]", " []\n"].into_iter().map(|s| IInput { arg: s.to_string(), ic: "empty".into(), kind: "pd", name: String::new(), pd: Some(vec![]), cat: false }).collect(),
        "badpd" => ["[[1,2,3,4]]", "[[1,1,1,2]]", "[[1,4,2,5],[3,6,4,1],[5,2,6,7]]", "[[1,2,3,4],[5,6,7,8]]", "[[1,2,3,3]]", "[[1,4,2,5],[3,6,4,1]]"].iter()
            .map(|s| IInput { arg: s.to_string(), ic: "badpd".into(), kind: "pd", name: String::new(), pd: parse_pd(s), cat: false }).collect(),
        "garbage" => ["[[1,2", "[[1,5,2,4],[3,1,4,6],[5,3,6,2]", "]]", "{", "3_1;4_1", "[[1,5,2,4],[3,1,4,6],[5,3,6,2]]x", "[[1,5,2,4],,[3,1,4,6]]"].iter().map(|s| text_in(s, "garbage")).collect(),
        "notpd" => ["{\"a\":1}", "[1,2,3]", "[[1,2,3]]", "[[1,2,3,4,5]]", "\"3_1\"", "null", "3", "[[1.5,2,3,4]]", "[[-1,2,3,4]]", "[[1,5,2,4],[3,1,4,6],[5,3,6]]", "{\"pd\":[[1,5,2,4],[3,1,4,6],[5,3,6,2]]}"].iter().map(|s| text_in(s, "notpd")).collect(),
        _ => panic!("input class {}", ic),
    }
}

/// A random instance of the class (B).
pub fn random_i(cat: &Catalogue, ic: &str, rng: &mut StdRng) -> IInput {
    let names: &[&str] = if cat.thorough { &TABLE } else { &TABLE[..17] };
    let pick_code = |rng: &mut StdRng| -> Pd {
        let mut pd = table_code(names[rng.gen_range(0..names.len())]);
        if rng.gen_bool(0.5) { pd.shuffle(rng); }
        if rng.gen_bool(0.4) { pd = rot_labels(&pd); }
        pd
    };
    match ic {
        "sinv" => name_in(names[rng.gen_range(0..names.len())], "sinv", true),
        "sympd" => { let pd = pick_code(rng); let x = pd_in(pd, rng.gen_bool(0.3)); assert_eq!(x.ic, "sympd"); x }
        // a cyclic shift of the labels of a symmetric code, or a catalogue code: whatever class it turns out to have is the class of the event
        "asympd" => {
            if rng.gen_bool(0.6) { let pd = pick_code(rng); let k = rng.gen_range(1..2 * pd.len()); pd_in(shift_labels(&pd, k), rng.gen_bool(0.2)) }
            else { loop { let c = rng.gen_range(3..=7usize); let n = format!("{}_{}", c, rng.gen_range(1..=[0, 0, 0, 1, 1, 2, 3, 7][c])); if cat.exists(&n) { let mut pd = cat.pd_of(&n); if rng.gen_bool(0.5) { pd.shuffle(rng); } return pd_in(pd, false); } } }
        }
        "offpd" => { let pd = pick_code(rng); let k = rng.gen_range(1..40usize); pd_in(pd.iter().map(|x| x.map(|e| e + k)).collect(), false) }
        "file" => { let pd = pick_code(rng); text_in(&cat.file_with(&format!("sinv_rand_{}.json", FILE_SEQ.fetch_add(1, std::sync::atomic::Ordering::SeqCst)), &pd_json(&pd)), "file") }
        "noninv" => loop { let c = rng.gen_range(5..=9usize); let n = format!("{}_{}", c, rng.gen_range(1..=[0, 0, 0, 1, 1, 2, 3, 7, 21, 49][c])); if cat.exists(&n) && !TABLE.contains(&n.as_str()) { return name_in(&n, "noninv", true); } },
        _ => { let f = fixed_i(cat, ic); f[rng.gen_range(0..f.len())].clone() }
    }
}

// ------------------------------------------------------------------ the library's answer

pub struct LibAns { sym: String, cells: Vec<Value>, nz: usize, ncyc: usize }

fn tors_of<R: std::fmt::Display>(t: &[R]) -> Vec<String> { t.iter().map(|x| x.to_string()).collect() }

fn lib_khi<R>(l: &InvLink, h: &Value, t: &Value, reduced: bool, bigraded: bool) -> Result<LibAns, String>
where R: EucRing + RingVars, for<'x> &'x R: EucRingOps<R> {
    let (h, t) = (elem::<R>(h)?, elem::<R>(t)?);
    let c = KhIComplex::new(l, &h, &t, reduced);
    let khi = c.homology();
    let nz = khi.support().filter(|i| !khi.get(*i).is_zero()).count();
    let mut cells = vec![];
    if bigraded {
        let g = khi.clone().into_bigraded();
        for idx in g.support() { let s = g.get(idx); if !s.is_zero() { cells.push(cell(idx.0, idx.1, s.rank(), tors_of(s.tors()))); } }
    } else {
        for i in khi.support() { let s = khi.get(i); if !s.is_zero() { cells.push(cell(i, 0, s.rank(), tors_of(s.tors()))); } }
    }
    Ok(LibAns { sym: R::math_symbol(), cells, nz, ncyc: c.canon_cycles().len() })
}

fn lib_ckhi<R>(l: &InvLink, h: &Value, t: &Value, reduced: bool) -> Result<LibAns, String>
where R: Ring + RingVars, for<'x> &'x R: RingOps<R> {
    let (h, t) = (elem::<R>(h)?, elem::<R>(t)?);
    let c = KhIComplex::new(l, &h, &t, reduced);
    let nz = c.support().filter(|i| !c.get(*i).is_zero()).count();
    let g = c.gen_grid();
    let mut cells = vec![];
    for idx in g.support() { let s = g.get(idx); if !s.is_zero() { cells.push(cell(idx.0, idx.1, s.rank(), tors_of(s.tors()))); } }
    Ok(LibAns { sym: R::math_symbol(), cells, nz, ncyc: c.canon_cycles().len() })
}

fn lib_pair<R>(l: &InvLink, h: &Value, reduced: bool) -> Result<(i32, i32), String>
where R: EucRing + RingVars, for<'x> &'x R: EucRingOps<R> {
    let h = elem::<R>(h)?;
    Ok(ssi_invariants(l, &h, reduced))
}

type PH = Poly<'H', F2>;
type PT = Poly<'T', F2>;
type PHT = Poly2<'H', 'T', F2>;

fn lib_call_i(kind: &str, vars: &str, l: &InvLink, h: &Value, t: &Value, reduced: bool) -> Option<Result<LibAns, String>> {
    macro_rules! hom { ($r:ty) => { Some(guarded(|| lib_khi::<$r>(l, h, t, reduced, kind == "Table2D")).and_then(|x| x)) } }
    macro_rules! gen { ($r:ty) => { Some(guarded(|| lib_ckhi::<$r>(l, h, t, reduced)).and_then(|x| x)) } }
    match (kind == "GenTable", vars) {
        (true, "none") => gen!(F2), (true, "H") => gen!(PH), (true, "T") => gen!(PT), (true, "HT") => gen!(PHT),
        (false, "none") => hom!(F2), (false, "H") => hom!(PH), (false, "T") => hom!(PT),
        _ => None,
    }
}
fn lib_pair_i(vars: &str, l: &InvLink, h: &Value, reduced: bool) -> Option<Result<(i32, i32), String>> {
    match vars { "H" => Some(guarded(|| lib_pair::<PH>(l, h, reduced)).and_then(|x| x)), "T" => Some(guarded(|| lib_pair::<PT>(l, h, reduced)).and_then(|x| x)), _ => None }
}

// ------------------------------------------------------------------ lexing stdout: table + sections

#[derive(Clone, Debug, Default)]
pub struct Extra { pub gens: usize, pub alpha: usize, pub ssi: Vec<i64>, pub other: usize }

fn sup_of(n: &str) -> String { n.chars().map(|c| "⁰¹²³⁴⁵⁶⁷⁸⁹".chars().nth(c.to_digit(10).unwrap_or(0) as usize).unwrap()).collect() }

/// A TeX cell in the notation of the unicode cells (fixed transliteration; anything else stays and has no reading in the grammar).
pub fn tex_to_unicode(s: &str) -> String {
    let mut t = s.replace("\\mathbb{F}_2", "F₂").replace("\\mathbb{F}_3", "F₃").replace("\\mathbb{Z}", "Z").replace("\\mathbb{Q}", "Q").replace("[H,T]", "[H, T]").replace(" \\oplus ", " ⊕ ");
    // ^{n} -> superscript digits
    while let Some(p) = t.find("^{") {
        let q = match t[p..].find('}') { Some(q) => p + q, None => break };
        let inner = &t[p + 2..q];
        if inner.is_empty() || !inner.chars().all(|c| c.is_ascii_digit()) { break; }
        t = format!("{}{}{}", &t[..p], sup_of(inner), &t[q + 1..]);
    }
    // ^n (exponent of a letter inside a torsion order) -> superscript digits
    while let Some(p) = t.find('^') {
        let digits: String = t[p + 1..].chars().take_while(|c| c.is_ascii_digit()).collect();
        if digits.is_empty() { break; }
        t = format!("{}{}{}", &t[..p], sup_of(&digits), &t[p + 1 + digits.len()..]);
    }
    t
}

fn parse_sections(lines: &[&str]) -> Extra {
    let mut e = Extra::default();
    let mut in_list = false;
    for ln in lines {
        if ln.trim().is_empty() { continue; }
        if (ln.starts_with("KhI[") || ln.starts_with("C[")) && ln.contains("]: ") { e.gens += 1; in_list = true; }
        else if ln.starts_with("a[") && ln.contains("] in ") { e.alpha += 1; in_list = true; }
        else if ln.starts_with("ss[") && ln.contains("] = ") {
            let v = ln.split("] = ").nth(1).and_then(|r| r.split(' ').next()).and_then(|x| x.parse::<i64>().ok());
            match v { Some(v) => e.ssi.push(v), None => e.other += 1 }
            in_list = false;
        }
        else if ln.starts_with("  ") && in_list { }
        else { e.other += 1; in_list = false; }
    }
    e
}

fn parse_tex(lines: &[&str]) -> Option<Table> {
    let b = lines.iter().position(|l| l.starts_with("\\begin{tabular}"))?;
    let e = lines.iter().position(|l| l.starts_with("\\end{tabular}"))?;
    if lines.first().map(|l| *l != "\\begin{table}").unwrap_or(true) || e < b { return None; }
    let mut t = Table::default();
    let mut body: Vec<Vec<String>> = vec![];
    let mut head: Option<Vec<String>> = None;
    let mut after = false;
    for ln in &lines[b + 1..e] {
        if ln.trim() == "\\hline" { after = true; continue; }
        let row = ln.trim().strip_suffix("\\\\")?.trim();
        let f: Vec<String> = row.split(" & ").map(|x| { let x = x.trim(); x.strip_prefix('$').and_then(|y| y.strip_suffix('$')).unwrap_or(x).to_string() }).collect();
        if after { if head.is_some() { return None; } head = Some(f); } else { body.push(f); }
    }
    let head = head?;
    if head.is_empty() || !head[0].trim().is_empty() { return None; }
    for c in &head[1..] { t.cols.push(c.trim().parse::<i64>().ok()?); }
    for (r, f) in body.iter().enumerate() {
        if f.len() != head.len() { return None; }
        t.rows.push(f[0].trim().parse::<i64>().ok()?);
        for (c, x) in f[1..].iter().enumerate() { if x == "." || x == "0" || x.is_empty() { t.zeros += 1; } else { t.cells.push((c + 1, r + 1, tex_to_unicode(x))); } }
    }
    Some(t)
}

/// stdout class, the table, and the sections after it.
pub fn parse_stdout_i(raw: &str) -> (String, Table, Extra) {
    if raw.trim().is_empty() { return ("none".into(), Table::default(), Extra::default()); }
    let lines: Vec<&str> = raw.lines().collect();
    if lines[0].starts_with("\\begin{table}") {
        let end = match lines.iter().position(|l| l.starts_with("\\end{table}")) { Some(e) => e, None => return ("other".into(), Table::default(), Extra::default()) };
        return match parse_tex(&lines[..=end]) { Some(t) => ("tex".into(), t, parse_sections(&lines[end + 1..])), None => ("other".into(), Table::default(), Extra::default()) };
    }
    let cut = lines.iter().position(|l| l.trim().is_empty()).unwrap_or(lines.len());
    let (class, t) = parse_stdout(&lines[..cut].join("\n"));
    if class == "other" || class == "none" { return ("other".into(), Table::default(), Extra::default()); }
    (class, t, parse_sections(&lines[cut..]))
}

fn table_json_i(t: &Table) -> Value {
    json!({"cols": t.cols, "rows": t.rows, "zeros": t.zeros,
           "cells": t.cells.iter().map(|(c, r, s)| json!({"c": c, "r": r, "tok": lex_cell(s)})).collect::<Vec<_>>()})
}

// ------------------------------------------------------------------ the table TLC computed from the definition

/// key: (sorted crossings of the code, mirrored?) -> rows {f, h, t, red, ranks}
pub struct Oracle { tabs: BTreeMap<(Vec<[usize; 4]>, bool), Vec<Value>> }
impl Oracle {
    pub fn load(path: Option<String>) -> Oracle {
        let mut tabs = BTreeMap::new();
        if let Some(p) = path {
            for o in read_ndjson(&p) {
                if o["rot"].as_bool().unwrap_or(false) { continue; }
                let d = o["d"].as_array().unwrap();
                let mut code: Vec<[usize; 4]> = d.iter().map(|c| { let e: Vec<usize> = c["e"].as_array().unwrap().iter().map(|x| x.as_u64().unwrap() as usize).collect(); [e[0], e[1], e[2], e[3]] }).collect();
                code.sort();
                let mir = d.iter().all(|c| c["t"] == "Xm");
                tabs.insert((code, mir), o["tab"].as_array().unwrap().clone());
            }
        }
        Oracle { tabs }
    }
    pub fn len(&self) -> usize { self.tabs.len() }
    fn ranks(&self, pd: &Pd, mir: bool, f: &str, h: i64, t: i64, red: bool) -> Option<Vec<Vec<i64>>> {
        let mut code = pd.clone(); code.sort();
        let tab = self.tabs.get(&(code, mir))?;
        let row = tab.iter().find(|r| r["f"] == f && r["h"] == h && r["t"] == t && r["red"] == red)?;
        Some(row["ranks"].as_array().unwrap().iter().map(|x| x.as_array().unwrap().iter().map(|y| y.as_i64().unwrap()).collect()).collect())
    }
}

/// value of a -c token at x = c (c in {0,1}) in F2: the letter is x, an integer is its parity
fn tok_at(tok: &Value, c: i64) -> Option<i64> {
    match tok["k"].as_str()? { "int" => Some(tok["v"].as_i64()?.rem_euclid(2)), "var" => Some(c), _ => None }
}
/// a printed torsion order (polynomial over F2 in one letter) evaluated at 0 and at 1
fn poly_at(s: &str, c: i64) -> Option<i64> {
    let terms: Vec<&str> = s.split(" + ").map(|x| x.trim()).collect();
    if terms.iter().any(|x| x.is_empty()) { return None; }
    if c == 1 { Some((terms.len() % 2) as i64) } else { Some(if terms.iter().any(|x| *x == "1") { 1 } else { 0 }) }
}
/// a printed cell -> (rank, torsion orders)
fn read_cell(s: &str) -> Option<(i64, Vec<String>)> {
    let (mut rank, mut tors) = (0i64, vec![]);
    for part in norm_printed(s) {
        let (body, sup) = split_sup(&part);
        let m = sup.unwrap_or(1) as i64;
        if body.starts_with('(') { let inner = body.strip_prefix('(')?.strip_suffix(')')?; let p = inner.find('/')?; for _ in 0..m { tors.push(inner[p + 1..].to_string()); } } else { rank += m; }
    }
    Some((rank, tors))
}

/// Compares the printed table with what the definition (the mapping cone of 1 + tau, evaluated by TLC) says. None = agrees / no oracle.
fn oracle_differs(or: &Oracle, p: &Value, pd: &Pd, t: &Table) -> Option<String> {
    let (mir, red) = (p["mirror"].as_bool().unwrap(), p["reduced"].as_bool().unwrap());
    let vars = p["ring"]["vars"].as_str().unwrap();
    let kind = p["kind"].as_str().unwrap();
    if vars == "HT" { return None; }
    let at = |c: i64| -> Option<(i64, i64)> { Some((tok_at(&p["h"], c)?, tok_at(&p["t"], c)?)) };
    or.ranks(pd, mir, "khi", 0, 0, false)?;     // is there an oracle for this diagram at all?
    let mut cells: BTreeMap<(i64, i64), (i64, Vec<String>)> = BTreeMap::new();
    for (c, r, s) in &t.cells { cells.insert((t.cols[*c - 1], t.rows[*r - 1]), read_cell(s)?); }
    let per_i = |f: &dyn Fn(&(i64, Vec<String>)) -> i64| -> BTreeMap<i64, i64> { let mut m = BTreeMap::new(); for ((i, _), v) in &cells { *m.entry(*i).or_insert(0) += f(v); } m.retain(|_, v| *v != 0); m };
    let as_map = |rk: &Vec<Vec<i64>>| -> BTreeMap<i64, i64> { rk.iter().map(|r| (r[0], r[1])).collect() };
    if kind == "GenTable" {
        // a complex with this homology: at least as many generators as the dimension of the homology over F2 (at x = 0 for a polynomial ring)
        let (h0, t0) = at(0)?;
        let want = as_map(&or.ranks(pd, mir, "khi", h0, t0, red)?);
        let have = per_i(&|v| v.0);
        for (i, w) in &want { if have.get(i).cloned().unwrap_or(0) < *w { return Some(format!("the printed complex has {} generators in degree {}, fewer than the dimension {} of the homology of the mapping cone of 1+tau at (h,t)=({},{})", have.get(i).cloned().unwrap_or(0), i, w, h0, t0)); } }
        let tot_h: i64 = want.values().sum(); let tot_g: i64 = have.values().sum();
        if (tot_g - tot_h) % 2 != 0 { return Some(format!("the printed complex has {} generators, the homology of the cone has dimension {}: the difference is odd", tot_g, tot_h)); }
        return None;
    }
    if vars == "none" {
        let (h, tt) = at(0)?;
        if kind == "Table2D" {
            let want: BTreeMap<(i64, i64), i64> = or.ranks(pd, mir, "khibi", 0, 0, red)?.iter().map(|r| ((r[0], r[1]), r[2])).collect();
            let have: BTreeMap<(i64, i64), i64> = cells.iter().map(|(k, v)| (*k, v.0)).collect();
            if cells.values().any(|v| !v.1.is_empty()) { return Some("torsion over a field".into()); }
            if want != have { return Some(format!("bigraded ranks of the mapping cone of 1+tau (TLC): {:?}, printed: {:?}", want, have)); }
        } else {
            let want = as_map(&or.ranks(pd, mir, "khi", h, tt, red)?);
            let have = per_i(&|v| v.0);
            if want != have { return Some(format!("ranks of the mapping cone of 1+tau at (h,t)=({},{}) (TLC): {:?}, printed: {:?}", h, tt, want, have)); }
        }
        return None;
    }
    // F2[x]: universal coefficients at x = 0 and x = 1
    for c in [0i64, 1] {
        let (hc, tc) = at(c)?;
        let want = as_map(&or.ranks(pd, mir, "khi", hc, tc, red)?);
        let free = per_i(&|v| v.0);
        let mut bad = false;
        let tors = per_i(&|v| v.1.iter().filter(|s| match poly_at(s, c) { Some(x) => x == 0, None => { true } }).count() as i64);
        if cells.values().any(|v| v.1.iter().any(|s| poly_at(s, c).is_none())) { bad = true; }
        if bad { return Some("a torsion order that is no polynomial".into()); }
        let lo = want.keys().chain(free.keys()).chain(tors.keys()).min().cloned().unwrap_or(0) - 1;
        let hi = want.keys().chain(free.keys()).chain(tors.keys()).max().cloned().unwrap_or(0) + 1;
        for i in lo..=hi {
            let have = free.get(&i).cloned().unwrap_or(0) + tors.get(&i).cloned().unwrap_or(0) + tors.get(&(i + 1)).cloned().unwrap_or(0);
            let w = want.get(&i).cloned().unwrap_or(0);
            if have != w { return Some(format!("universal coefficients at {} = {}: degree {} of the printed table gives dimension {} (rank + torsion divisible by {}+{} in degrees {} and {}), the mapping cone of 1+tau at (h,t)=({},{}) has {} (TLC)", vars, c, i, have, vars, c, i, i + 1, hc, tc, w)); }
        }
    }
    None
}

// ------------------------------------------------------------------ command lines

fn ctype_str(ct: &str) -> &str { if ct == "bad" { "F5" } else { ct } }
fn fmt_str(f: &str) -> &str { if f == "bad" { "pdf" } else { f } }

fn argv_plain_i(p: &Value, link: &str, cvs: &str) -> Vec<String> {
    let mut v = vec![p["cmd"].as_str().unwrap().to_string(), link.to_string(), "-t".into(), ctype_str(p["ctype"].as_str().unwrap()).to_string(), format!("-c={}", cvs)];
    if p["mirror"].as_bool().unwrap() { v.push("-m".into()); }
    if p["reduced"].as_bool().unwrap() { v.push("-r".into()); }
    for (k, o) in [("g", "-g"), ("a", "-a"), ("s", "-s"), ("d", "-d")] { if p["fl"][k].as_bool().unwrap() { v.push(o.into()); } }
    let f = p["fl"]["f"].as_str().unwrap();
    if f != "unicode" { v.push("-f".into()); v.push(fmt_str(f).into()); }
    v
}

fn argv_random_i(p: &Value, link: &str, cvs: &str, rng: &mut StdRng) -> Vec<String> {
    let ct = p["ctype"].as_str().unwrap();
    let mut opts: Vec<Vec<String>> = vec![];
    if !(ct == "F2" && rng.gen_bool(0.5)) { let c = ctype_str(ct); opts.push(match rng.gen_range(0..3) { 0 => vec!["-t".into(), c.into()], 1 => vec![format!("--c-type={}", c)], _ => vec!["--c-type".into(), c.into()] }); }
    if !(cvs == "0" && rng.gen_bool(0.5)) {
        let dash = cvs.starts_with('-');
        opts.push(match rng.gen_range(0..4) { 0 if !dash => vec!["-c".into(), cvs.into()], 1 if !dash => vec!["--c-value".into(), cvs.into()], 2 => vec![format!("--c-value={}", cvs)], _ => vec![format!("-c={}", cvs)] });
    }
    let mut shorts: Vec<char> = vec![];
    for (on, short, long) in [(p["mirror"].as_bool().unwrap(), 'm', "--mirror"), (p["reduced"].as_bool().unwrap(), 'r', "--reduced"), (p["fl"]["g"].as_bool().unwrap(), 'g', "--show-gens"),
                              (p["fl"]["a"].as_bool().unwrap(), 'a', "--show-alpha"), (p["fl"]["s"].as_bool().unwrap(), 's', "--show-ssi"), (p["fl"]["d"].as_bool().unwrap(), 'd', "--show-diff")] {
        if !on { continue; }
        match rng.gen_range(0..3) { 0 => opts.push(vec![long.to_string()]), 1 => opts.push(vec![format!("-{}", short)]), _ => shorts.push(short) }
    }
    if !shorts.is_empty() { shorts.shuffle(rng); opts.push(vec![format!("-{}", shorts.iter().collect::<String>())]); }
    let f = p["fl"]["f"].as_str().unwrap();
    if !(f == "unicode" && rng.gen_bool(0.7)) { let x = fmt_str(f); opts.push(match rng.gen_range(0..3) { 0 => vec!["-f".into(), x.into()], 1 => vec![format!("--format={}", x)], _ => vec!["--format".into(), x.into()] }); }
    if rng.gen_bool(0.1) { opts.push(vec!["--log".into(), "0".into()]); }
    opts.shuffle(rng);
    let k = if link.starts_with('-') { 0 } else { rng.gen_range(0..=opts.len()) };
    let mut v = vec![p["cmd"].as_str().unwrap().to_string()];
    for (i, o) in opts.iter().enumerate() { if i == k { v.push(link.to_string()); } v.extend(o.iter().cloned()); }
    if k >= opts.len() { v.push(link.to_string()); }
    v
}

fn why_of_i(stderr: &str) -> &'static str {
    if stderr.contains("is not supported for") || stderr.contains("--features") { "unsupported" } else if stderr.contains("cannot parse") { "parse" }
    else if stderr.contains("Only `-t F2`") { "char2" } else if stderr.contains("must be zero for reduced") { "reduced_t" } else if stderr.contains("to have alpha") { "alpha_t" }
    else if stderr.contains("to compute ss") { "ssi_h" } else if stderr.contains("invalid input link") { "link" } else if stderr.contains("Usage:") || stderr.contains("--help") { "usage" }
    else if stderr.contains("panic") { "internal" } else { "?" }
}

// ------------------------------------------------------------------ one run = one event

pub struct IJob { pub point: Value, pub input: IInput, pub argv: Vec<String>, pub cvs: String }

pub fn execute_i(ykh: &str, job: &IJob, or: &Oracle) -> (Value, Option<String>) {
    let p = &job.point;
    let out = run_bin(ykh, &job.argv);
    let stderr = strip_ansi(&out.stderr);
    let (oclass, table, extra) = parse_stdout_i(&out.stdout);
    let exit = if out.code == 0 { "zero" } else { "nonzero" };
    let msg = !stderr.trim().is_empty() || oclass == "other";
    let exp_class = p["exp"]["class"].as_str().unwrap();
    let kind = p["kind"].as_str().unwrap().to_string();
    let fl = &p["fl"];
    let (reduced, mirror) = (p["reduced"].as_bool().unwrap(), p["mirror"].as_bool().unwrap());
    let vars = p["ring"]["vars"].as_str().unwrap();
    let mut lib = json!({"res": "na", "kind": kind, "ring": p["ring"], "h": p["h"], "t": p["t"], "mirror": mirror, "reduced": reduced, "sym": "", "cells": [],
                         "nz": 0, "ncyc": 0, "knot": false, "pair": [], "code": []});
    let loadable = job.input.ic == "sinv" || job.input.ic == "sympd";
    let want_lib = p["ctype"] == "F2" && p["supported"].as_bool().unwrap() && p["parsed"].as_bool().unwrap() && loadable && (exp_class != "Error" || p["force_lib"].as_bool().unwrap_or(false));
    let mut loaded: Option<Pd> = None;
    if want_lib {
        let link = guarded(|| {
            let l = if job.input.kind == "name" { InvLink::load(&job.input.name).expect("table name") } else { InvLink::sinv_knot_from_code(job.input.pd.clone().unwrap()) };
            if mirror { l.mirror() } else { l } });
        match link {
            Err(e) => { lib["res"] = json!("panic"); lib["panic"] = json!(e.chars().take(200).collect::<String>()); }
            Ok(l) => {
                let code: Pd = l.link().data().iter().map(|c| *c.edges()).collect();
                lib["code"] = json!(code); lib["knot"] = json!(l.link().is_knot());
                loaded = Some(code);
                match lib_call_i(&kind, vars, &l, &p["h"], &p["t"], reduced) {
                    Some(Ok(a)) => {
                        lib["res"] = json!("ok"); lib["sym"] = json!(a.sym); lib["cells"] = json!(a.cells); lib["nz"] = json!(a.nz); lib["ncyc"] = json!(a.ncyc);
                        if fl["s"].as_bool().unwrap() && l.link().is_knot() {
                            match lib_pair_i(vars, &l, &p["h"], reduced) {
                                Some(Ok((a, b))) => { lib["pair"] = json!([a, b]); }
                                Some(Err(e)) => { lib["res"] = json!("panic"); lib["panic"] = json!(format!("ssi_invariants: {}", e.chars().take(160).collect::<String>())); }
                                None => {}
                            }
                        }
                    }
                    Some(Err(e)) => { lib["res"] = json!(if e.contains("with overflow") { "overflow" } else { "panic" }); lib["panic"] = json!(e.chars().take(200).collect::<String>()); }
                    None => {}
                }
            }
        }
    }
    let inp = json!({"kind": job.input.kind, "name": job.input.name, "pd": job.input.pd.clone().unwrap_or_default(), "haspd": job.input.pd.is_some(), "cat": job.input.cat});
    let ev = json!({"op": "invoke", "cmd": p["cmd"], "ctype": p["ctype"], "cv": p["cv"], "mirror": mirror, "reduced": reduced, "fl": fl, "ic": job.input.ic, "inp": inp,
                    "input": job.input.arg, "argv": job.argv, "code": out.code, "exit": exit, "out": oclass, "msg": msg, "overflow": stderr.contains("with overflow"),
                    "why": why_of_i(&stderr), "stderr": stderr.trim().chars().take(160).collect::<String>(), "stdout": out.stdout.chars().take(900).collect::<String>(),
                    "table": table_json_i(&table), "extra": {"gens": extra.gens, "alpha": extra.alpha, "ssi": extra.ssi, "other": extra.other}, "lib": lib});
    let verdict = if p["mutated"].as_bool().unwrap_or(false) { None } else {
        let err_ok = exit == "nonzero" && (oclass == "none" || oclass == "other") && msg;
        if exp_class == "Error" { if err_ok { None } else { Some(format!("the options denote an error ({}), but the command exited {} with stdout class {}", p["exp"]["why"].as_str().unwrap(), out.code, oclass)) } }
        else if ev["lib"]["res"] == "overflow" || (err_ok && stderr.contains("with overflow")) { None }
        else if ev["lib"]["res"] == "panic" { if err_ok { None } else { Some(format!("the library fails on these parameters ({}), but the command exited {} with stdout class {}", ev["lib"]["panic"], out.code, oclass)) } }
        else if ev["lib"]["res"] != "ok" { Some("harness: no library object for a table point".to_string()) }
        else {
            let want = match exp_class { "Seq1D" => "seq1d", "Tex" => "tex", _ => "table2d" };
            let (sym, cells) = (ev["lib"]["sym"].as_str().unwrap(), ev["lib"]["cells"].as_array().unwrap());
            let r = if reduced { 1 } else { 2 };
            let pair: Vec<i64> = ev["lib"]["pair"].as_array().unwrap().iter().map(|x| x.as_i64().unwrap()).collect();
            if exit != "zero" || oclass != want { Some(format!("expected a {} (exit 0), got exit {} with stdout class {}: {}", exp_class, out.code, oclass, stderr.trim().chars().take(120).collect::<String>())) }
            else if let Some(d) = (if kind == "GenTable" && p["mode"] != "exact" { euler_differs(&table, sym, cells, false) } else { cells_differ(&table, sym, cells) }) { Some(format!("printed table differs from the library's result: {}", d)) }
            else if extra.gens != if fl["g"].as_bool().unwrap() { table.cells.iter().map(|c| c.0).collect::<BTreeSet<_>>().len() } else { 0 } { Some(format!("{} generator lists printed, the table has {} degrees with a non-zero group (-g {})", extra.gens, table.cells.iter().map(|c| c.0).collect::<BTreeSet<_>>().len(), fl["g"])) }
            else if extra.alpha != if fl["a"].as_bool().unwrap() { ev["lib"]["ncyc"].as_u64().unwrap() as usize } else { 0 } { Some(format!("{} canonical cycles printed, the library has {} (-a {})", extra.alpha, ev["lib"]["ncyc"], fl["a"])) }
            else if !fl["s"].as_bool().unwrap() && !extra.ssi.is_empty() { Some("s values printed without -s".into()) }
            else if fl["s"].as_bool().unwrap() && extra.ssi.len() != ev["lib"]["ncyc"].as_u64().unwrap() as usize { Some(format!("{} s values printed, the library has {} canonical cycles", extra.ssi.len(), ev["lib"]["ncyc"])) }
            else if fl["s"].as_bool().unwrap() && pair.len() == 2 && !(extra.ssi.len() == 2 * r && (0..r).all(|k| extra.ssi[k] == pair[0] && extra.ssi[r + k] == pair[1])) { Some(format!("printed s values {:?}, ssi_invariants gives {:?}", extra.ssi, pair)) }
            else if !fl["d"].as_bool().unwrap() && extra.other != 0 { Some(format!("{} unexplained lines after the table", extra.other)) }
            else if let (Some(pd), true) = (&loaded, oclass != "none") { oracle_differs(or, p, pd, &table).map(|d| format!("printed table contradicts the definition: {}", d)) }
            else { None }
        } };
    (ev, verdict)
}

fn ykh_path(a: &Args) -> String {
    let p = a.flag("--ykh").expect("--ykh PATH (the freshly built binary)");
    assert!(std::path::Path::new(&p).exists(), "ykh binary {} does not exist", p);
    p
}

fn run_jobs(ykh: &str, jobs: &[IJob], or: &Oracle, threads: usize) -> Vec<(Value, Option<String>)> {
    let pool = rayon::ThreadPoolBuilder::new().num_threads(threads).build().unwrap();
    pool.install(|| jobs.par_iter().map(|j| execute_i(ykh, j, or)).collect())
}

fn fl_str(fl: &Value) -> String {
    let mut s = String::new();
    for k in ["g", "a", "s", "d"] { if fl[k].as_bool().unwrap() { s.push_str(k); } }
    if fl["f"] != "unicode" { s.push_str(&format!(":f={}", fl["f"].as_str().unwrap())); }
    s
}
fn point_key(p: &Value, cvs: &str, ic: &str) -> String {
    format!("{}:{}:c={}{}{}:{}:{}", p["cmd"].as_str().unwrap(), p["ctype"].as_str().unwrap(), cvs, if p["mirror"].as_bool().unwrap() { ":m" } else { "" }, if p["reduced"].as_bool().unwrap() { ":r" } else { "" }, fl_str(&p["fl"]), ic)
}

fn tally(evs: &[(Value, Option<String>)], jobs: &[IJob], or: &Oracle) -> Value {
    let mut by_out: BTreeMap<String, usize> = BTreeMap::new();
    let mut by_why: BTreeMap<String, usize> = BTreeMap::new();
    let mut by_ic: BTreeMap<String, usize> = BTreeMap::new();
    let (mut tables, mut cells, mut libpanic, mut tors, mut ssi, mut oracle, mut secs) = (0usize, 0usize, 0usize, 0usize, 0usize, 0usize, 0usize);
    let mut distinct: BTreeSet<String> = Default::default();
    for ((e, _), j) in evs.iter().zip(jobs) {
        *by_out.entry(e["out"].as_str().unwrap().to_string()).or_insert(0) += 1;
        *by_ic.entry(e["ic"].as_str().unwrap().to_string()).or_insert(0) += 1;
        if e["exit"] == "nonzero" { *by_why.entry(e["why"].as_str().unwrap().to_string()).or_insert(0) += 1; }
        if e["lib"]["res"] == "ok" {
            tables += 1; cells += e["table"]["cells"].as_array().unwrap().len();
            if e["stdout"].as_str().unwrap().contains('/') { tors += 1; }
            if e["lib"]["pair"].as_array().unwrap().len() == 2 { ssi += 1; }
            if e["extra"]["gens"].as_u64().unwrap() + e["extra"]["alpha"].as_u64().unwrap() > 0 { secs += 1; }
            let code: Pd = serde_json::from_value(e["lib"]["code"].clone()).unwrap_or_default();
            if j.point["ring"]["vars"] != "HT" && or.ranks(&code, false, "khi", 0, 0, false).is_some() { oracle += 1; }
            distinct.insert(format!("{}|{}|{}", e["lib"]["kind"], e["lib"]["sym"], e["stdout"]));
        }
        if e["lib"]["res"] == "panic" { libpanic += 1; }
    }
    json!({"by_stdout_class": by_out, "by_input_class": by_ic, "error_messages_by_kind": by_why, "tables_compared": tables, "nonzero_cells_compared": cells, "library_panics": libpanic,
           "tables_with_torsion": tors, "runs_with_pair_compared": ssi, "runs_with_sections": secs, "tables_compared_with_tlc_cone": oracle, "distinct_tables": distinct.len()})
}

fn emit_all(a: &Args, jobs: &[IJob], res: &[(Value, Option<String>)]) -> (usize, usize) {
    let mut t = AsciiTracer::create(&a.out);
    let mut bad = 0usize;
    for (job, (ev, verdict)) in jobs.iter().zip(res.iter()) {
        t.emit(ev);
        if let Some(v) = verdict {
            bad += 1;
            mismatch(json!({"key": point_key(&job.point, &job.cvs, &job.input.ic), "what": v, "argv": job.argv, "input": job.input.arg, "expected": job.point["exp"], "point": job.point, "code": ev["code"], "out": ev["out"],
                            "stderr": ev["stderr"], "stdout": ev["stdout"], "lib": ev["lib"], "extra": ev["extra"]}));
        }
    }
    (t.finish(), bad)
}

const CLASSES: [&str; 11] = ["sinv", "sympd", "noninv", "unknown", "file", "asympd", "offpd", "empty", "badpd", "garbage", "notpd"];

/// A: one run per product point (`--per N`: N concrete inputs per table point).
pub fn replay(a: &Args) {
    let ykh = ykh_path(a);
    let cat = Catalogue::new(a);
    let or = Oracle::load(a.flag("--tables"));
    let per: usize = a.flag("--per").map(|x| x.parse().unwrap()).unwrap_or(1);
    let threads: usize = a.flag("--threads").map(|x| x.parse().unwrap()).unwrap_or(8);
    let points = read_ndjson(a.inp.as_ref().expect("--in"));
    let forced = a.flag("--force-input");
    let fixed: BTreeMap<String, Vec<IInput>> = CLASSES.iter().map(|c| (c.to_string(), fixed_i(&cat, c))).collect();
    let mut counter: BTreeMap<String, usize> = BTreeMap::new();
    let mut jobs = vec![];
    for p in points.iter() {
        let ic = p["ic"].as_str().unwrap();
        let list = &fixed[ic];
        let cvs = cv_str(&p["cv"], None);
        let n = if p["exp"]["class"] != "Error" { per } else { 1 };
        for _ in 0..n {
            // the same (cmd, ctype, cv, reduced, flags) sees the same input with and without -m
            let slot = format!("{}|{}|{}|{}|{}|{}", p["cmd"], p["ctype"], cvs, p["reduced"], p["fl"], ic);
            let mslot = format!("{}|{}", slot, p["mirror"]);
            let k = { let c = counter.entry(mslot).or_insert(0); *c += 1; *c - 1 };
            let base = slot.bytes().fold(0usize, |h, b| h.wrapping_mul(31).wrapping_add(b as usize));
            let input = match &forced { Some(f) => resolve_i(&cat, f), None => list[(base + k) % list.len()].clone() };
            let argv = match p["argv"].as_array() { Some(v) if forced.is_some() => v.iter().map(|x| x.as_str().unwrap().to_string()).collect(), _ => argv_plain_i(p, &input.arg, &cvs) };
            jobs.push(IJob { point: p.clone(), input, argv, cvs: cvs.clone() });
        }
    }
    let res = run_jobs(&ykh, &jobs, &or, threads);
    let (n, bad) = emit_all(a, &jobs, &res);
    let mut s = tally(&res, &jobs, &or);
    s["points"] = json!(points.len()); s["runs"] = json!(n); s["mismatches"] = json!(bad); s["tlc_cone_tables"] = json!(or.len());
    summary("replay", s);
}

/// An explicitly given LINK argument (replaying a stored violation).
pub fn resolve_i(cat: &Catalogue, arg: &str) -> IInput {
    if let Some(pd) = parse_pd(arg) { let mut x = pd_in(pd, false); x.arg = arg.to_string(); return x; }
    if TABLE.contains(&arg) { return name_in(arg, "sinv", true); }
    if cat.exists(arg) && !std::path::Path::new(arg).exists() { return name_in(arg, "noninv", true); }
    if std::path::Path::new(arg).is_file() { return text_in(arg, "file"); }
    if serde_json::from_str::<Value>(arg).is_ok() { return text_in(arg, "notpd"); }
    if arg.contains('[') || arg.contains('{') { return text_in(arg, "garbage"); }
    name_in(arg, "unknown", false)
}

/// B: seeded random instances: a product point is the template; integers of -c, the input and the spelling of argv are randomised.
pub fn record(a: &Args) {
    let ykh = ykh_path(a);
    let cat = Catalogue::new(a);
    let or = Oracle::load(a.flag("--tables"));
    let threads: usize = a.flag("--threads").map(|x| x.parse().unwrap()).unwrap_or(8);
    let points = read_ndjson(a.inp.as_ref().expect("--in (the product printed by Gen_CliKhI)"));
    let n: usize = a.flag("--n").map(|x| x.parse().unwrap()).unwrap_or(if a.thorough() { 12000 } else { 1500 });
    let mut rng = a.rng(201);
    let zero = int_tok(0, true);
    let mut jobs = vec![];
    while jobs.len() < n {
        let mut p = points[rng.gen_range(0..points.len())].clone();
        if p["exp"]["class"] == "Error" && rng.gen_bool(0.7) { continue; }
        let mut mutated = false;
        let mut cv = p["cv"].as_array().unwrap().clone();
        for tok in cv.iter_mut() {
            if tok["k"] == "int" && rng.gen_bool(0.5) { *tok = int_tok(rng.gen_range(-9..=9), !rng.gen_bool(0.25)); mutated = true; }
        }
        // the class of a random PD argument is whatever it turns out to be; then the outcome is TLC's to derive
        let ic = p["ic"].as_str().unwrap().to_string();
        let input = if rng.gen_bool(0.75) { random_i(&cat, &ic, &mut rng) } else { let f = fixed_i(&cat, &ic); f[rng.gen_range(0..f.len())].clone() };
        if input.ic != ic { mutated = true; p["ic"] = json!(input.ic); }
        if mutated {
            p["cv"] = json!(cv);
            let k = cv.len();
            if p["parsed"].as_bool().unwrap() { if k == 1 { p["h"] = cv[0].clone(); p["t"] = zero.clone(); } else if k == 2 { p["h"] = cv[0].clone(); p["t"] = cv[1].clone(); } }
            // the kind of object may change with the integers (h = t = 0 in F2 is the bigraded table): what was printed decides which object is asked for
            p["mutated"] = json!(true);
            p["exp"] = json!({"class": "Error", "why": "?"});
            p["force_lib"] = json!(true);
        }
        let cvs = cv_str(&p["cv"], Some(&mut rng));
        let argv = argv_random_i(&p, &input.arg, &cvs, &mut rng);
        jobs.push(IJob { point: p, input, argv, cvs });
    }
    // mutated khi points: Table2D iff h = t = 0 in F2 or the literal H / 0,T (the trace spec re-derives and checks the kind)
    for j in jobs.iter_mut() {
        if j.point["mutated"].as_bool().unwrap_or(false) && j.point["cmd"] == "khi" && j.point["parsed"].as_bool().unwrap() {
            let z = |t: &Value| t["k"] == "int" && t["v"].as_i64().unwrap().rem_euclid(2) == 0;
            let cv = j.point["cv"].as_array().unwrap();
            let lit = (cv.len() == 1 && cv[0]["k"] == "var" && cv[0]["x"] == "H") || (cv.len() == 2 && cv[0]["k"] == "int" && cv[0]["v"] == 0 && cv[0]["canon"] == true && cv[1]["k"] == "var" && cv[1]["x"] == "T");
            j.point["kind"] = json!(if (z(&j.point["h"]) && z(&j.point["t"])) || lit { "Table2D" } else { "Seq1D" });
        }
    }
    let res = run_jobs(&ykh, &jobs, &or, threads);
    let (nn, bad) = emit_all(a, &jobs, &res);
    let mut s = tally(&res, &jobs, &or);
    s["events"] = json!(nn); s["mutated_points"] = json!(jobs.iter().filter(|j| j.point["mutated"].as_bool().unwrap_or(false)).count()); s["mismatches"] = json!(bad);
    s["distinct_inputs"] = json!(jobs.iter().map(|j| j.input.arg.clone()).collect::<BTreeSet<_>>().len());
    summary("record", s);
}
