//! C01 — Khovanov homology of the library vs the cube-of-resolutions definition (spec/sys/KhCube.tla, KhHomology.tla),
//! the abstract builder (KhBuilder.tla) and the cobordism evaluation (CobEval.tla).
//!
//! replay (spec -> impl):
//!   kind "kh":  TLC's table for (diagram, h, t, base edge | unreduced) over Z with F2 / F3 dimensions (Q = rank).
//!               The library computes it over i64, Ratio<i64>, FF2, FF<3> by
//!                 - the public constructors (KhHomology::new, KhHomologyBigraded::new, KhComplexBigraded::new().homology())
//!                 - TngComplexBuilder with the crossings fed one at a time in every order (n <= 4) / seeded random orders
//!                 - TngComplexBuilder with auto_deloop = auto_elim = false and seeded random deloop / eliminate calls
//!                 - rayon pools of 1, 2 and 16 threads
//!               and every answer is compared with the table up to isomorphism (rank, multiset of prime-power torsion orders).
//!   kind "cob": values of dotted cobordism components over Poly2<'H','T',i64> (CobComp::eval / part_eval).
//! record (impl -> spec): manual-schedule builder runs over Z logged call by call (keys and tangles after every call,
//!   generators and matrices of the final complex) for Trace_KhBuilder.
use crate::c18::{data_from_json, link_of};
use crate::menc::Ent;
use crate::util::*;
use rand::rngs::StdRng;
use rand::seq::SliceRandom;
use rand::Rng;
use serde_json::{json, Value};
use std::collections::BTreeMap;
use num_bigint::BigInt;
use yui::poly::Poly2;
use yui::{EucRing, EucRingOps, Ratio, FF, FF2};
use yui_homology::{ChainComplexTrait, GridTrait, SummandTrait};
use yui_kh::kh::internal::v2::builder::TngComplexBuilder;
use yui_kh::kh::internal::v2::cob::{Bottom, Cob, CobComp, Dot, LcCob, LcCobTrait};
use yui_kh::kh::internal::v2::tng::{Tng, TngComp};
use yui_kh::kh::internal::v2::tng_complex::TngKey;
use yui_kh::kh::{KhComplex, KhComplexBigraded, KhHomology, KhHomologyBigraded};
use yui_link::{Crossing, Link};

// ------------------------------------------------------------------ coefficient rings
pub trait Coef: Ent + EucRing + Send + Sync where for<'x> &'x Self: EucRingOps<Self> {
    const NAME: &'static str;
    const LABEL: &'static str = Self::NAME;
    /// a torsion coefficient as an integer (only Z has any)
    fn tor(&self) -> i64;
}
impl Coef for i64 { const NAME: &'static str = "Z"; fn tor(&self) -> i64 { self.abs() } }
/// Z again, with unbounded integers: used when an i64 computation leaves the machine-integer envelope
impl Coef for BigInt { const NAME: &'static str = "Z"; const LABEL: &'static str = "Z(BigInt)"; fn tor(&self) -> i64 { use num_traits::{Signed, ToPrimitive}; self.abs().to_i64().unwrap_or(i64::MAX) } }
impl Coef for Ratio<i64> { const NAME: &'static str = "Q"; fn tor(&self) -> i64 { -1 } }
impl Coef for FF2 { const NAME: &'static str = "F2"; fn tor(&self) -> i64 { -1 } }
impl Coef for FF<3> { const NAME: &'static str = "F3"; fn tor(&self) -> i64 { -1 } }

// ------------------------------------------------------------------ tables up to isomorphism
/// prime-power decomposition of |n| (n >= 2); for n in {0, 1} or a marker -1 the value itself is kept as a witness
fn prime_powers(n: i64) -> Vec<i64> {
    let mut n = n.abs(); let mut v = vec![];
    if n < 2 { return vec![n]; }
    let mut p = 2;
    while p * p <= n { if n % p == 0 { let mut q = 1; while n % p == 0 { n /= p; q *= p; } v.push(q); } p += 1; }
    if n > 1 { v.push(n); }
    v
}
pub fn elem_divisors(ts: &[i64]) -> Vec<i64> { let mut v: Vec<i64> = ts.iter().filter(|t| **t != 1).flat_map(|t| prime_powers(*t)).collect(); v.sort(); v }
/// (rank, elementary divisors); entries that are the zero group are dropped
pub type Tab1 = BTreeMap<i64, (usize, Vec<i64>)>;
pub type Tab2 = BTreeMap<(i64, i64), (usize, Vec<i64>)>;
fn put1(t: &mut Tab1, i: i64, rank: usize, tors: Vec<i64>) { let ed = elem_divisors(&tors); if rank > 0 || !ed.is_empty() { t.insert(i, (rank, ed)); } }
fn put2(t: &mut Tab2, i: i64, j: i64, rank: usize, tors: Vec<i64>) { let ed = elem_divisors(&tors); if rank > 0 || !ed.is_empty() { t.insert((i, j), (rank, ed)); } }
fn tab1_json(t: &Tab1) -> Value { json!(t.iter().map(|(i, (r, e))| json!([i, r, e])).collect::<Vec<_>>()) }
fn tab2_json(t: &Tab2) -> Value { json!(t.iter().map(|((i, j), (r, e))| json!([i, j, r, e])).collect::<Vec<_>>()) }

pub fn tab_of<R: Coef>(h: &KhHomology<R>) -> Tab1 where for<'x> &'x R: EucRingOps<R> {
    let mut t = Tab1::new();
    for i in h.support() { let s = &h[i]; put1(&mut t, i as i64, s.rank(), s.tors().iter().map(|x| x.tor()).collect()); }
    t
}
pub fn bitab_of<R: Coef>(h: &KhHomologyBigraded<R>) -> Tab2 where for<'x> &'x R: EucRingOps<R> {
    let mut t = Tab2::new();
    for idx in h.support() { let s = &h[(idx.0, idx.1)]; put2(&mut t, idx.0 as i64, idx.1 as i64, s.rank(), s.tors().iter().map(|x| x.tor()).collect()); }
    t
}

/// the expected tables of a generated case for one ring
fn expected<R: Coef>(case: &Value) -> (Tab1, Option<Tab2>) where for<'x> &'x R: EucRingOps<R> {
    let pick = |r: &Value| -> (usize, Vec<i64>) {
        match R::NAME {
            "Z" => (r["rank"].as_u64().unwrap() as usize, r["tors"].as_array().unwrap().iter().map(|x| x.as_i64().unwrap()).collect()),
            "Q" => (r["rank"].as_u64().unwrap() as usize, vec![]),
            "F2" => (r["f2"].as_u64().unwrap() as usize, vec![]),
            _ => (r["f3"].as_u64().unwrap() as usize, vec![]),
        }
    };
    let mut t1 = Tab1::new();
    for r in case["tab"].as_array().unwrap() { let (rk, ts) = pick(r); put1(&mut t1, r["i"].as_i64().unwrap(), rk, ts); }
    let graded = case["h"].as_i64() == Some(0) && case["t"].as_i64() == Some(0);
    let t2 = if graded { let mut t2 = Tab2::new(); for r in case["bi"].as_array().unwrap() { let (rk, ts) = pick(r); put2(&mut t2, r["i"].as_i64().unwrap(), r["j"].as_i64().unwrap(), rk, ts); } Some(t2) } else { None };
    (t1, t2)
}

// ------------------------------------------------------------------ routes through the library
fn finish<R: Coef>(mut b: TngComplexBuilder<R>) -> KhComplex<R> where for<'x> &'x R: EucRingOps<R> { b.finalize(); b.into_kh_complex() }

/// crossings fed one at a time in the given order (indices into the link's crossing list)
pub fn build_ordered<R: Coef>(l: &Link, h: &R, t: &R, base: Option<usize>, order: &[usize]) -> KhComplex<R> where for<'x> &'x R: EucRingOps<R> {
    let mut b = TngComplexBuilder::new(l, h, t, base);
    let xs: Vec<Crossing> = b.crossings().cloned().collect();
    b.set_crossings(Vec::<Crossing>::new());
    for i in order { b.set_crossings([xs[*i].clone()]); b.process_all(); }
    finish(b)
}

#[derive(Clone, Debug)]
pub enum Op { Deloop(TngKey, usize), Elim(TngKey, TngKey) }

/// the manual operations the builder admits now. Circles through the base point are offered only once every crossing
/// is absorbed and no vertex has a free circle left (the library's own finalize does the same: arcs and free circles
/// do not remember the base point, and `is_invertible` would take a cylinder from a based to a free circle for an isomorphism).
pub fn enabled_ops<R: Coef>(b: &TngComplexBuilder<R>, all_absorbed: bool) -> Vec<Op> where for<'x> &'x R: EucRingOps<R> {
    let c = b.complex();
    let mut keys: Vec<TngKey> = c.keys().cloned().collect(); keys.sort();
    let all_absorbed = all_absorbed && c.iter_verts().all(|(_, v)| v.tng().comps().all(|comp| !comp.is_circle() || c.contains_base_pt(comp)));
    let mut ops = vec![];
    for k in keys.iter() {
        let v = c.vertex(k);
        for r in 0..v.tng().ncomps() { let comp = v.tng().comp(r); if comp.is_circle() && (all_absorbed || !c.contains_base_pt(comp)) { ops.push(Op::Deloop(*k, r)); } }
        let mut outs: Vec<TngKey> = c.keys_out_from(k).cloned().collect(); outs.sort();
        for l in outs { if c.edge(k, &l).is_invertible() { ops.push(Op::Elim(*k, l)); } }
    }
    ops
}

fn bits_of(k: &TngKey) -> (Vec<u64>, Vec<u64>) {
    (k.state.iter().map(|b| b.as_u64()).collect(), k.label.iter().map(|x| if x.is_X() { 1 } else { 0 }).collect())
}
fn key_json(k: &TngKey) -> Value { let (st, lab) = bits_of(k); json!({"st": st, "lab": lab}) }
fn keys_json<R: Coef>(b: &TngComplexBuilder<R>) -> Value where for<'x> &'x R: EucRingOps<R> {
    let c = b.complex();
    let mut keys: Vec<TngKey> = c.keys().cloned().collect(); keys.sort();
    json!(keys.iter().map(|k| {
        let v = c.vertex(k); let (st, lab) = bits_of(k);
        let (mut circles, mut arcs) = (vec![], vec![]);
        for comp in v.tng().comps() { if comp.is_circle() { circles.push(json!(comp.path().edges())); } else if let Some((a, z)) = comp.endpts() { arcs.push(json!([a, z])); } }
        json!({"st": st, "lab": lab, "circles": circles, "arcs": arcs})
    }).collect::<Vec<_>>())
}

/// A manual schedule with the automatic simplification switched off: crossings in a seeded random order, between them
/// and afterwards seeded random deloop / eliminate calls among the enabled ones; `style` biases the mix.
/// Every call is reported to `log` (op, arguments, the keys / tangles after it).
pub fn build_manual<R: Coef>(l: &Link, h: &R, t: &R, base: Option<usize>, rng: &mut StdRng, style: u32, mut log: Option<&mut Vec<Value>>) -> KhComplex<R> where for<'x> &'x R: EucRingOps<R> {
    let mut b = TngComplexBuilder::new(l, h, t, base);
    b.auto_deloop = false; b.auto_elim = false;
    let xs: Vec<Crossing> = b.crossings().cloned().collect();
    b.set_crossings(Vec::<Crossing>::new());
    if let Some(lg) = log.as_deref_mut() { lg.push(json!({"keys": keys_json(&b)})); }
    let mut order: Vec<usize> = (0..xs.len()).collect(); order.shuffle(rng);
    let apply = |b: &mut TngComplexBuilder<R>, op: &Op, log: &mut Option<&mut Vec<Value>>| {
        match op {
            Op::Deloop(k, r) => { let circ = json!(b.complex().vertex(k).tng().comp(*r).path().edges()); b.deloop(k, *r);
                                  if let Some(lg) = log.as_deref_mut() { lg.push(json!({"op": "kb_deloop", "k": key_json(k), "circ": circ, "keys": keys_json(b)})); } }
            Op::Elim(k, l2) => { b.eliminate(k, l2);
                                 if let Some(lg) = log.as_deref_mut() { lg.push(json!({"op": "kb_elim", "k": key_json(k), "l": key_json(l2), "keys": keys_json(b)})); } }
        }
    };
    for i in order.iter() {
        b.set_crossings([xs[*i].clone()]); b.process_all();
        if let Some(lg) = log.as_deref_mut() { lg.push(json!({"op": "kb_append", "x": i + 1, "keys": keys_json(&b)})); }
        // style 0: nothing until the end; 1: a few random ops; 2: exhaust ops after every crossing; 3: deloops only; 4: random
        let budget = match style { 0 => 0, 1 => rng.gen_range(0..4), 2 => usize::MAX, 3 => usize::MAX, _ => rng.gen_range(0..12) };
        let mut done = 0;
        while done < budget {
            let mut ops = enabled_ops(&b, false);
            if style == 3 { ops.retain(|o| matches!(o, Op::Deloop(..))); }
            if ops.is_empty() { break; }
            let op = ops.choose(rng).unwrap().clone();
            apply(&mut b, &op, &mut log); done += 1;
        }
    }
    // everything absorbed: deloop every remaining circle (in random order), eliminations mixed in according to style
    loop {
        let ops = enabled_ops(&b, true);
        let deloops: Vec<Op> = ops.iter().filter(|o| matches!(o, Op::Deloop(..))).cloned().collect();
        let elims: Vec<Op> = ops.iter().filter(|o| matches!(o, Op::Elim(..))).cloned().collect();
        let op = if !deloops.is_empty() && (elims.is_empty() || style == 0 || style == 3 || rng.gen_bool(0.6)) { deloops.choose(rng).unwrap().clone() }
                 else if !elims.is_empty() && !deloops.is_empty() { elims.choose(rng).unwrap().clone() }
                 else { break };
        apply(&mut b, &op, &mut log);
    }
    // completely delooped now; a random number of final eliminations (none: the raw delooped cube; all: a minimal complex)
    let final_elims = match style { 0 => 0, 3 => rng.gen_range(0..3), 2 => usize::MAX, _ => rng.gen_range(0..40) };
    let mut done = 0;
    while done < final_elims {
        let ops = enabled_ops(&b, true);
        let elims: Vec<Op> = ops.into_iter().filter(|o| matches!(o, Op::Elim(..))).collect();
        if elims.is_empty() { break; }
        let op = elims.choose(rng).unwrap().clone();
        apply(&mut b, &op, &mut log); done += 1;
    }
    finish(b)
}

fn permutations(n: usize) -> Vec<Vec<usize>> {
    fn rec(cur: &mut Vec<usize>, used: &mut Vec<bool>, n: usize, out: &mut Vec<Vec<usize>>) {
        if cur.len() == n { out.push(cur.clone()); return; }
        for i in 0..n { if !used[i] { used[i] = true; cur.push(i); rec(cur, used, n, out); cur.pop(); used[i] = false; } }
    }
    let mut out = vec![]; rec(&mut vec![], &mut vec![false; n], n, &mut out); out
}

struct Counters { evals: usize, bad: usize, overflow: usize }

/// the complex of a named route: "builder:process_all" | "order:[i,..]" | "pool16:order:[i,..]" | "manual:style<k>:seed<s>"
pub fn route_complex<R: Coef>(l: &Link, h: &R, t: &R, base: Option<usize>, route: &str, log: Option<&mut Vec<Value>>) -> KhComplex<R> where for<'x> &'x R: EucRingOps<R> {
    let parts: Vec<&str> = route.split(':').collect();
    match parts[0] {
        "manual" => {
            let style: u32 = parts[1].trim_start_matches("style").parse().unwrap();
            let seed: u64 = parts[2].trim_start_matches("seed").parse().unwrap();
            let mut r = <StdRng as rand::SeedableRng>::seed_from_u64(seed);
            build_manual(l, h, t, base, &mut r, style, log)
        }
        "order" => { let p: Vec<usize> = serde_json::from_str(parts[1]).unwrap(); build_ordered(l, h, t, base, &p) }
        "pool16" => { let p: Vec<usize> = serde_json::from_str(parts[2]).unwrap(); let pool = rayon::ThreadPoolBuilder::new().num_threads(16).build().unwrap(); pool.install(|| build_ordered(l, h, t, base, &p)) }
        _ => { let mut b = TngComplexBuilder::new(l, h, t, base); b.process_all(); finish(b) }
    }
}
fn both<R: Coef>(c: KhComplex<R>, graded: bool) -> (Tab1, Option<Tab2>) where for<'x> &'x R: EucRingOps<R> {
    let t1 = tab_of(&c.homology()); let t2 = if graded { Some(bitab_of(&c.into_bigraded().homology())) } else { None }; (t1, t2)
}
fn is_overflow(m: &str) -> bool { m.contains("overflow") }
fn redo_bigint(l: &Link, hi: i64, ti: i64, base: Option<usize>, route: &str, graded: bool) -> Result<(Option<Tab1>, Option<Tab2>), String> {
    let (hb, tb) = (BigInt::from(hi), BigInt::from(ti));
    guarded(|| { let (a, b) = both::<BigInt>(route_complex::<BigInt>(l, &hb, &tb, base, route, None), graded); (Some(a), b) })
}

/// all routes for one case and one ring; returns mismatch records
fn check_case<R: Coef>(case: &Value, l: &Link, rng: &mut StdRng, nperm: usize, nsched: usize, cnt: &mut Counters) -> Vec<Value> where for<'x> &'x R: EucRingOps<R> {
    let (hi, ti) = (case["h"].as_i64().unwrap(), case["t"].as_i64().unwrap());
    let (h, t) = (R::of_int(hi), R::of_int(ti));
    let basei = case["base"].as_i64().unwrap();
    let base: Option<usize> = if basei < 0 { None } else { Some(basei as usize) };
    let dflt = case["dflt"].as_bool().unwrap_or(false);
    let n = l.data().len();
    let (e1, e2) = expected::<R>(case);
    let graded = e2.is_some();
    let mut out = vec![];
    let bad = |what: &str, route: &str, exp: Value, got: Value| json!({"what": what, "ring": R::LABEL, "route": route, "expected": exp, "got": got});
    // one evaluation: tables of a route (or a panic)
    let mut judge = |route: &str, got: Result<(Option<Tab1>, Option<Tab2>), String>, cnt: &mut Counters, out: &mut Vec<Value>| {
        match got {
            Ok((t1, t2)) => {
                if let Some(t1) = t1 { cnt.evals += 1; if t1 != e1 { cnt.bad += 1; out.push(bad("kh", route, tab1_json(&e1), tab1_json(&t1))); } }
                if let (Some(t2), Some(e2)) = (t2, &e2) { cnt.evals += 1; if t2 != *e2 { cnt.bad += 1; out.push(bad("kh_bigraded", route, tab2_json(e2), tab2_json(&t2))); } }
            }
            Err(m) => { cnt.evals += 1; cnt.bad += 1; out.push(bad("kh", route, tab1_json(&e1), json!({"panic": m}))); }
        }
    };
    // 1. public constructors (unreduced, or reduced at the library's default base edge), 5. thread pools
    if base.is_none() || dflt {
        let red = base.is_some();
        judge("KhHomology::new", guarded(|| (Some(tab_of(&KhHomology::<R>::new(l, &h, &t, red))), None)), cnt, &mut out);
        if graded {
            judge("KhHomologyBigraded::new", guarded(|| (None, Some(bitab_of(&KhHomologyBigraded::<R>::new(l, &h, &t, red))))), cnt, &mut out);
            judge("KhComplexBigraded::new.homology", guarded(|| (None, Some(bitab_of(&KhComplexBigraded::<R>::new(l, &h, &t, red).homology())))), cnt, &mut out);
        }
        for th in [1usize, 2, 16] {
            let pool = rayon::ThreadPoolBuilder::new().num_threads(th).build().unwrap();
            judge(&format!("pool{}:KhHomology::new", th), guarded(|| pool.install(|| (Some(tab_of(&KhHomology::<R>::new(l, &h, &t, red))), None))), cnt, &mut out);
        }
    }
    // 2. builder with its own order; 3. every / random crossing orders; 4. manual schedules; one order inside a 16-thread pool
    let mut routes: Vec<String> = vec!["builder:process_all".into()];
    let perms: Vec<Vec<usize>> = if n <= 4 { permutations(n) } else { (0..nperm).map(|_| { let mut p: Vec<usize> = (0..n).collect(); p.shuffle(rng); p }).collect() };
    for p in perms.iter() { routes.push(format!("order:{}", serde_json::to_string(p).unwrap())); }
    for s in 0..nsched { let seed: u64 = rng.gen(); routes.push(format!("manual:style{}:seed{}", s % 5, seed)); }
    if n >= 2 { routes.push(format!("pool16:order:{}", serde_json::to_string(&perms[perms.len() / 2]).unwrap())); }
    for route in routes.iter() {
        let got = guarded(|| { let (a, b) = both(route_complex::<R>(l, &h, &t, base, route, None), graded); (Some(a), b) });
        match got {
            // an i64 computation that leaves the machine-integer envelope (the harness is built with overflow checks) is not a
            // verdict about the algorithm: the same route is run again over BigInt and that answer is judged
            Err(m) if is_overflow(&m) && R::LABEL == "Z" => {
                cnt.overflow += 1;
                let got2 = redo_bigint(l, hi, ti, base, route, graded);
                judge(&format!("{} (BigInt after i64 overflow)", route), got2, cnt, &mut out);
            }
            other => judge(route, other, cnt, &mut out),
        }
    }
    out
}

// ------------------------------------------------------------------ cobordism evaluation
type P = Poly2<'H', 'T', i64>;
fn triples(p: &P) -> Vec<[i64; 3]> { use yui::poly::Mono; let mut v: Vec<[i64; 3]> = p.iter().filter(|(_, c)| **c != 0).map(|(x, c)| { let d = x.deg(); [d.0 as i64, d.1 as i64, *c] }).collect(); v.sort(); v }
fn want(v: &Value) -> Vec<[i64; 3]> { let mut w: Vec<[i64; 3]> = v.as_array().unwrap().iter().map(|x| [x[0].as_i64().unwrap(), x[1].as_i64().unwrap(), x[2].as_i64().unwrap()]).collect(); w.sort(); w }
fn check_cob(case: &Value, cnt: &mut Counters) -> Vec<Value> {
    let (g, x, y) = (usize_of(case, "g"), usize_of(case, "x"), usize_of(case, "y"));
    let (hh, tt) = (P::variable(0), P::variable(1));
    let mut out = vec![];
    let mut cmp = |what: &str, exp: Vec<[i64; 3]>, got: Result<Vec<[i64; 3]>, String>, out: &mut Vec<Value>| {
        cnt.evals += 1;
        let ok = matches!(&got, Ok(v) if *v == exp);
        if !ok { cnt.bad += 1; out.push(json!({"what": what, "expected": exp, "got": match got { Ok(v) => json!(v), Err(m) => json!({"panic": m}) }})); }
    };
    // closed component: eval and part_eval
    cmp("cob_closed_eval", want(&case["closed"]), guarded(|| triples(&CobComp::new(Tng::empty(), Tng::empty(), g, (x, y)).eval(&hh, &tt))), &mut out);
    cmp("cob_closed_part_eval", want(&case["closed"]), guarded(|| {
        let lc: LcCob<P> = CobComp::new(Tng::empty(), Tng::empty(), g, (x, y)).part_eval(&hh, &tt);
        assert!(lc.iter().all(|(c, _)| c.is_empty()), "a closed component did not evaluate to a scalar");
        triples(&lc.eval(&hh, &tt))
    }), &mut out);
    // component with one boundary circle, as a cup (circle in the target) and as a cap (circle in the source):
    // part_eval, then closed off with a plain / an X-dotted disc: epsilon(v) and epsilon(Xv)
    for side in [Bottom::Tgt, Bottom::Src] {
        let circ = TngComp::circ([0]);
        let mk = || -> LcCob<P> {
            let comp = match side { Bottom::Tgt => CobComp::new(Tng::empty(), Tng::from(circ.clone()), g, (x, y)), Bottom::Src => CobComp::new(Tng::from(circ.clone()), Tng::empty(), g, (x, y)) };
            LcCob::from(Cob::from(comp)).part_eval(&hh, &tt)
        };
        let name = match side { Bottom::Tgt => "cup", Bottom::Src => "cap" };
        cmp(&format!("cob_{}_eps", name), want(&case["b"]), guarded(|| triples(&mk().cap_off(side, &circ, Dot::None).part_eval(&hh, &tt).eval(&hh, &tt))), &mut out);
        cmp(&format!("cob_{}_xeps", name), want(&case["xeps"]), guarded(|| triples(&mk().cap_off(side, &circ, Dot::X).part_eval(&hh, &tt).eval(&hh, &tt))), &mut out);
        // the other order: close the component off first (a closed component with genus and dots inside a Cob), evaluate afterwards
        let raw = || -> LcCob<P> {
            let comp = match side { Bottom::Tgt => CobComp::new(Tng::empty(), Tng::from(circ.clone()), g, (x, y)), Bottom::Src => CobComp::new(Tng::from(circ.clone()), Tng::empty(), g, (x, y)) };
            LcCob::from(Cob::from(comp))
        };
        cmp(&format!("cob_{}_closed_first_eps", name), want(&case["b"]), guarded(|| triples(&raw().cap_off(side, &circ, Dot::None).part_eval(&hh, &tt).eval(&hh, &tt))), &mut out);
        cmp(&format!("cob_{}_closed_first_xeps", name), want(&case["xeps"]), guarded(|| triples(&raw().cap_off(side, &circ, Dot::X).part_eval(&hh, &tt).eval(&hh, &tt))), &mut out);
        cmp(&format!("cob_{}_closed_first_eval", name), want(&case["b"]), guarded(|| triples(&raw().cap_off(side, &circ, Dot::None).eval(&hh, &tt))), &mut out);
        // next to a second, identity component (connect = horizontal composition keeps the value of the closed part)
        cmp(&format!("cob_{}_beside_identity", name), want(&case["b"]), guarded(|| {
            let arc = TngComp::arc([7, 8]);
            let lc = raw().cap_off(side, &circ, Dot::None).connected(&Cob::id(&Tng::from(arc.clone()))).part_eval(&hh, &tt);
            // every term is (polynomial) x identity on the arc: read the coefficient
            assert!(lc.iter().all(|(c, _)| c.ncomps() == 1 && c.comp(0).is_id()), "closed part not evaluated away");
            let mut v: Vec<[i64; 3]> = vec![]; for (_, r) in lc.iter() { v.extend(triples(r)); } v.sort(); v
        }), &mut out);
        // the normal form has at most one dot and no genus per term
        cmp(&format!("cob_{}_normal", name), vec![], guarded(|| { let lc = mk(); assert!(lc.iter().all(|(c, _)| c.comps().all(|k| k.genus() == 0 && k.ndots() <= 1)), "part_eval left a reducible component"); vec![] }), &mut out);
    }
    out
}

/// Input lines: {"kind":"kh", name, d, n, h, t, base, dflt, tab:[{i,rank,tors,f2,f3}], bi:[{i,j,..}]} | {"kind":"cob", g, x, y, closed, a, b, xeps}
pub fn replay(a: &Args) {
    let lines = read_ndjson(a.inp.as_ref().expect("--in"));
    let mut t = Tracer::create(&a.out);
    let nperm: usize = a.flag("--perms").and_then(|s| s.parse().ok()).unwrap_or(24);
    let nsched: usize = a.flag("--sched").and_then(|s| s.parse().ok()).unwrap_or(10);
    let par: usize = a.flag("--par").and_then(|s| s.parse().ok()).unwrap_or(6);
    let (mut cases, mut cobs) = (0usize, 0usize);
    // cases are independent: spread over `par` OS threads (each case seeds its own rng from its position)
    let results: Vec<(usize, Vec<Value>, usize, usize, usize)> = {
        let chunks: Vec<Vec<(usize, &Value)>> = { let mut c: Vec<Vec<(usize, &Value)>> = (0..par).map(|_| vec![]).collect(); for (i, ln) in lines.iter().enumerate() { c[i % par].push((i, ln)); } c };
        std::thread::scope(|s| {
            let hs: Vec<_> = chunks.into_iter().map(|ch| s.spawn(move || {
                let mut res = vec![];
                for (i, ln) in ch {
                    let mut cnt = Counters { evals: 0, bad: 0, overflow: 0 };
                    let mut rng = a.rng(1000 + i as u64);
                    let mm = if ln["kind"] == "kh" {
                        let l = link_of(&data_from_json(&ln["d"]));
                        let mut m = check_case::<i64>(ln, &l, &mut rng, nperm, nsched, &mut cnt);
                        m.extend(check_case::<Ratio<i64>>(ln, &l, &mut rng, nperm.min(6), nsched.min(3), &mut cnt));
                        m.extend(check_case::<FF2>(ln, &l, &mut rng, nperm.min(6), nsched.min(3), &mut cnt));
                        m.extend(check_case::<FF<3>>(ln, &l, &mut rng, nperm.min(6), nsched.min(3), &mut cnt));
                        m
                    } else if ln["kind"] == "cob" { check_cob(ln, &mut cnt) } else { vec![] };
                    res.push((i, mm, cnt.evals, cnt.bad, cnt.overflow));
                }
                res
            })).collect();
            let mut all: Vec<(usize, Vec<Value>, usize, usize, usize)> = hs.into_iter().flat_map(|h| h.join().unwrap()).collect();
            all.sort_by_key(|r| r.0);
            all
        })
    };
    let (mut evals, mut bad, mut bad_cases, mut overflow) = (0usize, 0usize, 0usize, 0usize);
    for (i, mm, e, b, o) in results {
        overflow += o;
        let ln = &lines[i];
        if ln["kind"] == "kh" { cases += 1 } else if ln["kind"] == "cob" { cobs += 1 }
        evals += e; bad += b;
        if !mm.is_empty() { bad_cases += 1; }
        // per case: report the first mismatches (a wrong table usually fails on every route)
        for m in mm.iter().take(3) { let mut v = m.clone(); v["case"] = ln.clone(); v["routes_failed"] = json!(mm.len()); mismatch(v.clone()); t.emit(&v); }
    }
    t.finish();
    summary("replay", json!({"kh_cases": cases, "cob_cases": cobs, "evaluations": evals, "mismatching_evaluations": bad, "mismatching_cases": bad_cases, "i64_overflows_redone_over_bigint": overflow}));
}

/// Re-run one route of one case over Z with the call log printed (used by `bin/check C01 --replay`).
/// --in: a file with one "kh" case; --route: the route string of a mismatch record.
pub fn route(a: &Args) {
    let lines = read_ndjson(a.inp.as_ref().expect("--in"));
    let case = &lines[0];
    let route = a.flag("--route").unwrap_or_else(|| "builder:process_all".into());
    let l = link_of(&data_from_json(&case["d"]));
    let (h, t) = (case["h"].as_i64().unwrap(), case["t"].as_i64().unwrap());
    let basei = case["base"].as_i64().unwrap();
    let base: Option<usize> = if basei < 0 { None } else { Some(basei as usize) };
    let (e1, _) = expected::<i64>(case);
    println!("expected {}", tab1_json(&e1));
    let mut log = vec![];
    let got = if route.starts_with("KhHomology") || route.starts_with("pool1:") || route.starts_with("pool2:") || route.starts_with("pool16:Kh") { guarded(|| tab_of(&KhHomology::<i64>::new(&l, &h, &t, base.is_some()))) }
              else { guarded(|| tab_of(&route_complex::<i64>(&l, &h, &t, base, &route, Some(&mut log)).homology())) };
    for e in log.iter() { println!("{}", e); }
    let got = match got { Err(m) if is_overflow(&m) => { println!("i64 overflow ({}); the route is run again over BigInt", m); redo_bigint(&l, h, t, base, &route, false).map(|(a, _)| a.unwrap()) } other => other };
    match got { Ok(g) => { println!("got      {}", tab1_json(&g)); if g != e1 { mismatch(json!({"what": "kh", "route": route, "expected": tab1_json(&e1), "got": tab1_json(&g)})); } }
                Err(m) => { println!("panic {}", m); mismatch(json!({"what": "kh", "route": route, "got": {"panic": m}})); } }
}

// ------------------------------------------------------------------ record (impl -> spec)
fn final_json(c: &KhComplex<i64>, n: usize) -> (Value, Value) {
    let h0 = c.deg_shift().0;
    let mut gens = vec![]; let mut mats = vec![];
    for w in 0..=n {
        let i = h0 + w as isize;
        let gs: Vec<Value> = c[i].raw_gens().iter().map(|x| { let k = TngKey::from(x); let (st, lab) = bits_of(&k); json!({"st": st, "lab": lab, "h": x.h_deg(), "q": x.q_deg()}) }).collect();
        gens.push(json!(gs));
        if w < n {
            let m = c.d_matrix(i); let (r, cc) = { use yui_matrix::MatTrait; m.shape() };
            let mut d = vec![vec![0i64; cc]; r];
            for (a, b, x) in m.iter() { d[a][b] += *x; }
            mats.push(json!(d));
        }
    }
    (json!(gens), json!(mats))
}

pub fn record(a: &Args) {
    let th = a.thorough();
    let mut t = Tracer::create(&a.out);
    let mut rng = a.rng(1);
    let pds: Vec<(&str, Vec<[usize; 4]>)> = vec![
        ("empty", vec![]),
        ("u1a", vec![[0, 0, 1, 1]]), ("u1b", vec![[0, 1, 1, 0]]), ("u1c", vec![[1, 1, 0, 0]]), ("u1d", vec![[1, 0, 0, 1]]),
        ("hopf", vec![[4, 1, 3, 2], [2, 3, 1, 4]]), ("unlink_r2", vec![[1, 2, 3, 4], [3, 2, 1, 4]]), ("unlink_over", vec![[0, 2, 3, 1], [3, 2, 0, 1]]),
        ("unknot_r2", vec![[1, 4, 2, 1], [2, 4, 3, 3]]), ("u1_u1", vec![[0, 0, 1, 1], [2, 3, 3, 2]]),
        ("3_1", vec![[1, 4, 2, 5], [3, 6, 4, 1], [5, 2, 6, 3]]), ("3_1_kink", vec![[1, 4, 2, 5], [3, 6, 4, 1], [5, 2, 6, 7], [7, 8, 8, 3]]),
        ("4_1", vec![[4, 2, 5, 1], [8, 6, 1, 5], [6, 3, 7, 4], [2, 7, 3, 8]]), ("L4a1", vec![[6, 1, 7, 2], [8, 3, 5, 4], [2, 5, 3, 6], [4, 7, 1, 8]]),
        ("hopf_u1", vec![[4, 1, 3, 2], [2, 3, 1, 4], [6, 5, 5, 6]]),
        ("5_1", vec![[1, 6, 2, 7], [3, 8, 4, 9], [5, 10, 6, 1], [7, 2, 8, 3], [9, 4, 10, 5]]), ("5_2", vec![[1, 4, 2, 5], [3, 8, 4, 9], [5, 10, 6, 1], [9, 6, 10, 7], [7, 2, 8, 3]]),
        ("L5a1", vec![[6, 1, 7, 2], [10, 7, 5, 8], [4, 5, 1, 6], [2, 10, 3, 9], [8, 4, 9, 3]]),
    ];
    let hts: Vec<(i64, i64)> = vec![(0, 0), (0, 0), (1, 0), (0, 1), (1, 1), (2, 0), (2, 3), (-1, 2)];
    let max_n = if th { 5 } else { 4 };
    let reps = if th { 6 } else { 2 };
    let (mut hist, mut panics, mut events, mut max_keys) = (0usize, 0usize, 0usize, 0usize);
    for (name, pd) in pds.iter().filter(|(_, pd)| pd.len() <= max_n) {
        let n = pd.len();
        let l = Link::from_pd_code(pd.clone());
        let mut edges: Vec<usize> = pd.iter().flat_map(|c| c.iter().cloned()).collect(); edges.sort(); edges.dedup();
        let nrep = if n >= 5 { 1 } else { reps };
        for rep in 0..nrep {
            for style in 0..5u32 {
                if n >= 5 && style != (rep as u32 + 2) % 5 && style != 2 { continue; }
                let (h, tt) = *hts.choose(&mut rng).unwrap();
                // reduced (t = 0) about every third history, at a random edge
                let base: Option<usize> = if tt == 0 && n > 0 && rng.gen_range(0..3) == 0 { Some(*edges.choose(&mut rng).unwrap()) } else { None };
                let seed: u64 = rng.gen();
                let mut log: Vec<Value> = vec![];
                let r = guarded(|| { let mut r2 = <StdRng as rand::SeedableRng>::seed_from_u64(seed); build_manual::<i64>(&l, &h, &tt, base, &mut r2, style, Some(&mut log)) });
                // first entry of the log is the state after TngComplexBuilder::new
                let first_keys = log.first().map(|v| v["keys"].clone()).unwrap_or(json!([]));
                t.emit(&json!({"op": "kb_begin", "res": "ok", "name": name, "pd": pd, "h": h, "t": tt, "base": base.map(|b| b as i64).unwrap_or(-1), "style": style, "seed": seed.to_string(), "keys": first_keys}));
                for e in log.iter().skip(1) { let mut e = e.clone(); e["res"] = json!("ok"); max_keys = max_keys.max(e["keys"].as_array().map(|k| k.len()).unwrap_or(0)); t.emit(&e); }
                match r {
                    Ok(c) => { let (gens, mats) = final_json(&c, n); t.emit(&json!({"op": "kb_final", "res": "ok", "gens": gens, "mats": mats})); }
                    Err(m) => { panics += 1; t.emit(&json!({"op": "kb_final", "res": "panic", "panic": m, "gens": [], "mats": []})); }
                }
                hist += 1;
            }
        }
    }
    events += t.n;
    t.finish();
    summary("record", json!({"events": events, "histories": hist, "panics": panics, "max_vertices": max_keys, "max_crossings": max_n}));
}
