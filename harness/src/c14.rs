//! C14 — scalar types as exact commutative rings (spec/sys/Scalars.tla).
use crate::enc::*;
use crate::util::*;
use num_bigint::{BigInt, Sign};
use num_traits::{Signed, Zero};
use rand::rngs::StdRng;
use rand::Rng;
use serde_json::{json, Value};
use yui::{EisenInt, GaussInt, Ratio, Ring, RingOps, FF, FF2};

pub const NREG: usize = 6;

pub fn rand_big(rng: &mut StdRng, maxbits: u64) -> BigInt {
    let special = [0i128, 1, -1, 2, -2, 3, 1 << 31, (1 << 31) - 1, -(1 << 31), (1 << 53) + 1, (1 << 53) - 1, 1 << 53, -((1 << 53) + 1),
        (1i128 << 63) - 1, -(1i128 << 63) + 1, 1i128 << 62, (1i128 << 64) + 1, i128::MAX, -i128::MAX, (1i128 << 100) + 7];
    let v = match rng.gen_range(0..10) {
        0..=2 => BigInt::from(special[rng.gen_range(0..special.len())]),
        3..=5 => BigInt::from(rng.gen_range(-12i64..=12)),
        _ => { let bits = rng.gen_range(0..=maxbits).max(1); let nb = ((bits + 7) / 8) as usize;
               let mut bytes: Vec<u8> = (0..nb).map(|_| rng.gen::<u8>()).collect();
               let extra = (nb as u64) * 8 - bits; if extra > 0 { let l = bytes.len(); bytes[l - 1] &= 0xffu8 >> extra; }
               BigInt::from_bytes_le(if rng.gen_bool(0.5) { Sign::Plus } else { Sign::Minus }, &bytes) }
    };
    if v.bits() > maxbits { BigInt::from(rng.gen_range(-5i64..=5)) } else { v }
}

pub trait Scalar: Ring + Enc where for<'a> &'a Self: RingOps<Self> {
    fn ring() -> Value;
    fn name() -> String;
    /// number of bits operands may have when freshly loaded
    fn load_bits(big: u64) -> u64;
    fn load(rng: &mut StdRng, bits: u64) -> Option<(Self, Value)>;
    /// a value carrying the type's large planted factor in the numerator (which = 1) or in the denominator (which = 2); rationals only
    fn load_planted(rng: &mut StdRng, bits: u64, _which: u64) -> Option<(Self, Value)> { Self::load(rng, bits) }
    fn from_int(b: &BigInt) -> Option<Self>;
    fn witness(&self) -> Value { json!([]) }
    fn parts(&self) -> Vec<BigInt>;
    /// machine-integer envelope: is the operation guaranteed representable (result and cross products)?
    fn safe(op: &str, a: &Self, b: &Self) -> bool;
    fn cmp3(_a: &Self, _b: &Self) -> Option<i32> { None }
    /// construct from the spec's JSON form (small values only; used by the spec->impl replay)
    fn decode(v: &Value) -> Self;
}

pub fn small_of(v: &Value) -> i64 {
    let s = v["s"].as_i64().unwrap();
    s * v["m"].as_array().unwrap().iter().rev().fold(0i64, |a, l| a * 1000 + l.as_i64().unwrap())
}

fn fits(v: &BigInt, bits: Option<u32>) -> bool { match bits { None => true, Some(n) => v.bits() < (n - 1) as u64 } }

macro_rules! impl_scalar_int { ($t:ty, $name:expr) => {
    impl Scalar for $t {
        fn ring() -> Value { json!({"k":"Z"}) }
        fn name() -> String { $name.into() }
        fn load_bits(big: u64) -> u64 { match <$t as ToBig>::bits() { Some(n) => (n - 2) as u64, None => big } }
        fn load(rng: &mut StdRng, bits: u64) -> Option<(Self, Value)> { let b = rand_big(rng, bits); let v = <$t as ToBig>::from_big(&b)?; Some((v, big_json(&b))) }
        fn from_int(b: &BigInt) -> Option<Self> { <$t as ToBig>::from_big(b) }
        fn parts(&self) -> Vec<BigInt> { vec![self.to_big()] }
        fn decode(v: &Value) -> Self { <$t as ToBig>::from_big(&BigInt::from(small_of(v))).unwrap() }
        fn safe(op: &str, a: &Self, b: &Self) -> bool {
            let (x, y) = (a.to_big(), b.to_big());
            let r = match op { "add" => &x + &y, "sub" => &x - &y, _ => &x * &y };
            fits(&r, <$t as ToBig>::bits())
        }
        fn cmp3(a: &Self, b: &Self) -> Option<i32> { Some(match a.cmp(b) { std::cmp::Ordering::Less => -1, std::cmp::Ordering::Equal => 0, _ => 1 }) }
    }
}}
impl_scalar_int!(i32, "i32");
impl_scalar_int!(i64, "i64");
impl_scalar_int!(i128, "i128");
impl_scalar_int!(BigInt, "BigInt");

macro_rules! impl_scalar_ratio { ($t:ty, $name:expr) => {
    impl Scalar for Ratio<$t> {
        fn ring() -> Value { json!({"k":"Q"}) }
        fn name() -> String { format!("Ratio<{}>", $name) }
        fn load_bits(big: u64) -> u64 { match <$t as ToBig>::bits() { Some(n) => (n / 2 - 2) as u64, None => big } }
        fn load(rng: &mut StdRng, bits: u64) -> Option<(Self, Value)> {
            // operands straddling 2^53 (exactly representable in the machine type, not in f64) are included on purpose
            let nb = if rng.gen_range(0..4) == 0 { bits.max(56).min(<$t as ToBig>::bits().map(|n| (n - 3) as u64).unwrap_or(bits.max(56))) } else { bits };
            let n = rand_big(rng, nb);
            let d = if rng.gen_range(0..3) == 0 || nb > bits { BigInt::from(rng.gen_range(1..4)) } else { let mut d = rand_big(rng, bits); if d.is_zero() { d = BigInt::from(1); } d };
            let (nn, dd) = (<$t as ToBig>::from_big(&n)?, <$t as ToBig>::from_big(&d)?);
            let v = match rng.gen_range(0..3) { 0 => Ratio::from((nn, dd)), _ => Ratio::new(nn, dd) };
            Some((v, json!({"n": big_json(&n), "d": big_json(&d)})))
        }
        // K s1 / s2 or s1 / (K s2) with K = 2^h + 1 just below the machine range and small s1, s2: the product of one of each kind has
        // a small reduced result although the unreduced cross products leave the machine range
        fn load_planted(rng: &mut StdRng, bits: u64, which: u64) -> Option<(Self, Value)> {
            let h = match <$t as ToBig>::bits() { Some(n) => (n - 18) as usize, None => bits as usize };
            let k = num_traits::pow(BigInt::from(2), h) + 1;
            let sb = match <$t as ToBig>::bits() { Some(_) => 10, None => bits / 4 };
            // s1, s2 of full length sb (top bit set), so that K s1 s3 is beyond the machine range for machine types
            let top = num_traits::pow(BigInt::from(2), (sb - 1) as usize);
            let full = |rng: &mut StdRng| -> BigInt { &top + (rand_big(rng, sb - 1).abs() % &top) };
            let (s1, s2) = (if rng.gen_bool(0.5) { full(rng) } else { -full(rng) }, full(rng));
            let (n, d) = if which == 1 { (&k * &s1, s2) } else { (s1, &k * &s2) };
            let (nn, dd) = (<$t as ToBig>::from_big(&n)?, <$t as ToBig>::from_big(&d)?);
            Some((Ratio::new(nn, dd), json!({"n": big_json(&n), "d": big_json(&d)})))
        }
        fn from_int(b: &BigInt) -> Option<Self> { Some(Ratio::from(<$t as ToBig>::from_big(b)?)) }
        fn witness(&self) -> Value { bezout_witness(&self.numer().to_big(), &self.denom().to_big()) }
        fn parts(&self) -> Vec<BigInt> { vec![self.numer().to_big(), self.denom().to_big()] }
        fn decode(v: &Value) -> Self { Ratio::new(<$t as Scalar>::decode(&v["n"]), <$t as Scalar>::decode(&v["d"])) }
        fn safe(op: &str, x: &Self, y: &Self) -> bool {
            let (a, b, c, d) = (x.numer().to_big().abs(), x.denom().to_big().abs(), y.numer().to_big().abs(), y.denom().to_big().abs());
            let bits = <$t as ToBig>::bits();
            // multiplication cross-reduces before it multiplies: it is exact whenever the reduced result is representable
            let g = |p: &BigInt, q: &BigInt| -> BigInt { let (mut p, mut q) = (p.clone(), q.clone()); while !q.is_zero() { let r = &p % &q; p = q; q = r; } if p.is_zero() { BigInt::from(1) } else { p } };
            match op { "mul" => { let (k, l) = (g(&a, &d), g(&b, &c)); fits(&((&a / &k) * (&c / &l)), bits) && fits(&((&b / &l) * (&d / &k)), bits) }
                       _ => fits(&(&a * &d + &c * &b), bits) && fits(&(&b * &d), bits) }
        }
        fn cmp3(a: &Self, b: &Self) -> Option<i32> {
            let o = a.cmp(b);
            // the derived operators must agree with cmp
            let ok = (a < b) == (o == std::cmp::Ordering::Less) && (a > b) == (o == std::cmp::Ordering::Greater) && a.partial_cmp(b) == Some(o);
            if !ok { return Some(99); }
            Some(match o { std::cmp::Ordering::Less => -1, std::cmp::Ordering::Equal => 0, _ => 1 })
        }
    }
}}
impl_scalar_ratio!(i64, "i64");
impl_scalar_ratio!(i128, "i128");
impl_scalar_ratio!(BigInt, "BigInt");

impl<const P: i32> Scalar for FF<P> {
    fn ring() -> Value { json!({"k":"F","p":P}) }
    fn name() -> String { format!("FF<{}>", P) }
    fn load_bits(_: u64) -> u64 { 30 }
    fn load(rng: &mut StdRng, bits: u64) -> Option<(Self, Value)> { let b = rand_big(rng, bits); let a = i32::from_big(&b)?; Some((FF::new(a), json!((a as i64).rem_euclid(P as i64)))) }
    fn from_int(b: &BigInt) -> Option<Self> { Some(FF::from(i32::from_big(b)?)) }
    fn parts(&self) -> Vec<BigInt> { vec![BigInt::from(*self.rep())] }
    fn decode(v: &Value) -> Self { FF::new(v.as_i64().unwrap() as i32) }
    fn safe(_: &str, _: &Self, _: &Self) -> bool { true }
}
impl Scalar for FF2 {
    fn ring() -> Value { json!({"k":"F","p":2}) }
    fn name() -> String { "FF2".into() }
    fn load_bits(_: u64) -> u64 { 30 }
    fn load(rng: &mut StdRng, bits: u64) -> Option<(Self, Value)> { let b = rand_big(rng, bits); let a = i32::from_big(&b)?; Some((FF2::from(a), json!((a as i64).rem_euclid(2)))) }
    fn from_int(b: &BigInt) -> Option<Self> { Some(FF2::from(i64::from_big(b)?)) }
    fn parts(&self) -> Vec<BigInt> { vec![] }
    fn decode(v: &Value) -> Self { FF2::from(v.as_i64().unwrap()) }
    fn safe(_: &str, _: &Self, _: &Self) -> bool { true }
}

macro_rules! impl_scalar_quad { ($q:ident, $t:ty, $k:expr, $name:expr) => {
    impl Scalar for $q<$t> {
        fn ring() -> Value { json!({"k": $k}) }
        fn name() -> String { format!("{}<{}>", stringify!($q), $name) }
        fn load_bits(big: u64) -> u64 { match <$t as ToBig>::bits() { Some(n) => (n / 2 - 3) as u64, None => big } }
        fn load(rng: &mut StdRng, bits: u64) -> Option<(Self, Value)> {
            let a = rand_big(rng, bits); let b = if rng.gen_range(0..4) == 0 { BigInt::zero() } else { rand_big(rng, bits) };
            let v = $q::new(<$t as ToBig>::from_big(&a)?, <$t as ToBig>::from_big(&b)?);
            Some((v, json!({"a": big_json(&a), "b": big_json(&b)})))
        }
        fn from_int(b: &BigInt) -> Option<Self> { Some($q::from(<$t as ToBig>::from_big(b)?)) }
        fn parts(&self) -> Vec<BigInt> { vec![self.left().to_big(), self.right().to_big()] }
        fn decode(v: &Value) -> Self { $q::new(<$t as Scalar>::decode(&v["a"]), <$t as Scalar>::decode(&v["b"])) }
        fn safe(op: &str, x: &Self, y: &Self) -> bool {
            let m = x.parts().into_iter().chain(y.parts()).map(|v| v.abs()).max().unwrap();
            let bits = <$t as ToBig>::bits();
            match op { "mul" => fits(&(&m * &m * BigInt::from(4)), bits), _ => fits(&(&m * BigInt::from(2)), bits) }
        }
    }
}}
impl_scalar_quad!(GaussInt, i64, "G", "i64");
impl_scalar_quad!(GaussInt, BigInt, "G", "BigInt");
impl_scalar_quad!(GaussInt, i128, "G", "i128");
impl_scalar_quad!(EisenInt, i128, "E", "i128");
impl_scalar_quad!(EisenInt, i64, "E", "i64");
impl_scalar_quad!(EisenInt, BigInt, "E", "BigInt");

pub fn apply_bin<T: Scalar>(op: &str, form: u64, a: &T, b: &T) -> T where for<'a> &'a T: RingOps<T> {
    macro_rules! forms { ($o:tt, $oa:tt) => { match form % 6 {
        0 => a.clone() $o b.clone(),
        1 => a.clone() $o b,
        2 => a $o b.clone(),
        3 => a $o b,
        4 => { let mut t = a.clone(); t $oa b.clone(); t }
        _ => { let mut t = a.clone(); t $oa b; t }
    } } }
    match op { "add" => forms!(+, +=), "sub" => forms!(-, -=), _ => forms!(*, *=) }
}

fn history<T: Scalar>(a: &Args, h: u64, t: &mut Tracer, len: usize, bigbits: u64, stats: &mut Stats) where for<'a> &'a T: RingOps<T> {
    let mut rng = a.rng(h.wrapping_mul(7919).wrapping_add(T::name().len() as u64));
    let mut regs: Vec<T> = vec![T::zero(); NREG];
    t.emit(&json!({"op":"reset","res":"ok","ring":T::ring(),"type":T::name(),"vals": regs.iter().map(|x| x.enc()).collect::<Vec<_>>()}));
    let bits = T::load_bits(bigbits);
    let mut n = 0;
    // start from loaded operands
    let mut pending: Vec<Value> = (0..NREG).map(|d| json!({"op":"load","d":d})).collect();
    while n < len {
        let e = if let Some(e) = pending.pop() { e } else {
            let (d, x, y) = (rng.gen_range(0..NREG), rng.gen_range(0..NREG), rng.gen_range(0..NREG));
            match rng.gen_range(0..100) {
                0..=9 => json!({"op":"load","d":d}),
                10..=12 => json!({"op":"from_int","d":d}),
                13..=69 => json!({"op": (["add","sub","mul","mul"][rng.gen_range(0..4)]), "form": rng.gen_range(0..6u64), "d":d,"x":x,"y":y}),
                70..=73 => json!({"op":"neg","d":d,"x":x,"form":rng.gen_range(0..2u64)}),
                74 => json!({"op":"zero","d":d}),
                75 => json!({"op":"one","d":d}),
                76..=79 => { // round trip: (x - y) + y must compare equal to x
                    let d2 = (x + 1 + rng.gen_range(0..NREG - 1)) % NREG;
                    pending.push(json!({"op":"eq","x":d2,"y":x}));
                    pending.push(json!({"op":"add","form":rng.gen_range(0..6u64),"d":d2,"x":d2,"y":y}));
                    json!({"op":"sub","form":rng.gen_range(0..6u64),"d":d2,"x":x,"y":y}) }
                80..=81 => { // cross-reduction: (K s1 / s2) * (s3 / (K s4)) in both orders, then the two products must compare equal
                    let x2 = (x + 1) % NREG; let d2 = (x + 2) % NREG; let d3 = (x + 3) % NREG;
                    pending.push(json!({"op":"eq","x":d2,"y":d3}));
                    pending.push(json!({"op":"mul","form":rng.gen_range(0..6u64),"d":d3,"x":x2,"y":x}));
                    pending.push(json!({"op":"mul","form":rng.gen_range(0..6u64),"d":d2,"x":x,"y":x2}));
                    pending.push(json!({"op":"load","d":x2,"plant":2}));
                    json!({"op":"load","d":x,"plant":1}) }
                82..=87 => json!({"op":"eq","x":x,"y":y}),
                88..=90 => json!({"op":"is_zero","x":x}),
                91..=93 => json!({"op":"is_one","x":x}),
                _ => json!({"op":"cmp","x":x,"y":y}),
            }
        };
        if step::<T>(&mut rng, &mut regs, e, t, bits, stats) { n += 1; }
        // keep BigInt operands bounded: reload registers that outgrew the budget
        for d in 0..NREG { if regs[d].parts().iter().any(|p| p.bits() > bigbits) { pending.push(json!({"op":"load","d":d})); } }
    }
}

#[derive(Default)]
pub struct Stats { pub events: usize, pub panics: usize, pub maxbits: u64, pub eq_true: usize, pub skipped_unsafe: usize }

fn step<T: Scalar>(rng: &mut StdRng, regs: &mut Vec<T>, mut e: Value, t: &mut Tracer, bits: u64, st: &mut Stats) -> bool where for<'a> &'a T: RingOps<T> {
    let op = e["op"].as_str().unwrap().to_string();
    let (d, x, y) = (e["d"].as_u64().unwrap_or(0) as usize, e["x"].as_u64().unwrap_or(0) as usize, e["y"].as_u64().unwrap_or(0) as usize);
    let form = e["form"].as_u64().unwrap_or(0);
    let store = |regs: &mut Vec<T>, e: &mut Value, r: Result<T, String>| -> bool {
        match r { Ok(v) => { e["res"] = json!("ok"); e["v"] = v.enc(); e["w"] = v.witness(); regs[d] = v; true }
                  Err(m) => { e["res"] = json!("panic"); e["panic"] = json!(m); e["v"] = json!("PANIC"); e["w"] = json!([]); true } }
    };
    let emitted = match op.as_str() {
        "load" => {
            let mut r2 = rng.clone();
            let plant = e["plant"].as_u64().unwrap_or(0);
            let got = guarded(|| if plant > 0 { T::load_planted(&mut r2, bits, plant) } else { T::load(&mut r2, bits) });
            *rng = r2;
            match got { Ok(None) => false, Ok(Some((v, raw))) => { e["raw"] = raw; store(regs, &mut e, Ok(v)) }
                        Err(m) => { e["raw"] = json!("?"); store(regs, &mut e, Err(m)) } } }
        "from_int" => { let b = rand_big(rng, bits.min(30)); e["n"] = big_json(&b);
            match guarded(|| T::from_int(&b)) { Ok(None) => false, Ok(Some(v)) => store(regs, &mut e, Ok(v)), Err(m) => store(regs, &mut e, Err(m)) } }
        "add" | "sub" | "mul" => {
            if !T::safe(&op, &regs[x], &regs[y]) { st.skipped_unsafe += 1; false } else {
                let (a, b) = (regs[x].clone(), regs[y].clone());
                let r = guarded(|| apply_bin::<T>(&op, form, &a, &b)); store(regs, &mut e, r) } }
        "neg" => { let a = regs[x].clone(); let r = guarded(|| if form == 0 { -a.clone() } else { -&a }); store(regs, &mut e, r) }
        "zero" => store(regs, &mut e, guarded(|| T::zero())),
        "one" => store(regs, &mut e, guarded(|| T::one())),
        "eq" => { let (a, b) = (regs[x].clone(), regs[y].clone()); let r = guarded(|| a == b && !(a != b)); if let Ok(true) = r { st.eq_true += 1; } e["out"] = r.map(|b| json!(b)).unwrap_or(json!("PANIC")); true }
        "is_zero" => { let a = regs[x].clone(); e["out"] = guarded(|| a.is_zero()).map(|b| json!(b)).unwrap_or(json!("PANIC")); true }
        "is_one" => { let a = regs[x].clone(); e["out"] = guarded(|| a.is_one()).map(|b| json!(b)).unwrap_or(json!("PANIC")); true }
        "cmp" => { let (a, b) = (regs[x].clone(), regs[y].clone()); match guarded(|| T::cmp3(&a, &b)) { Ok(None) => false, Ok(Some(c)) => { e["out"] = json!(c); true } Err(_) => { e["out"] = json!("PANIC"); true } } }
        _ => panic!("op {}", op),
    };
    if emitted {
        if e.get("res").is_none() { e["res"] = json!(if e["out"] == json!("PANIC") { "panic" } else { "ok" }); }
        if e["res"] == json!("panic") { st.panics += 1; }
        st.events += 1;
        for p in regs[d].parts() { st.maxbits = st.maxbits.max(p.bits()); }
        t.emit(&e);
    }
    emitted
}

pub fn record(a: &Args) {
    let mut t = Tracer::create(&a.out);
    let mut st = Stats::default();
    let (nh, len, big) = if a.thorough() { (12u64, 160usize, 2000u64) } else { (2u64, 120usize, 1000u64) };
    let mut types: Vec<String> = vec![];
    macro_rules! run { ($t:ty, $big:expr) => {{ types.push(<$t as Scalar>::name()); for h in 0..nh { history::<$t>(a, h, &mut t, len, $big, &mut st); } }} }
    run!(i32, 30); run!(i64, 62); run!(i128, 126); run!(BigInt, big);
    run!(Ratio<i64>, 60); run!(Ratio<i128>, 120); run!(Ratio<BigInt>, big / 2);
    run!(FF2, 30); run!(FF<3>, 30); run!(FF<5>, 30); run!(FF<7>, 30); run!(FF<46337>, 30); run!(FF<65537>, 30); run!(FF<1000003>, 30); run!(FF<1073741827>, 31); run!(FF<2147483647>, 31);
    run!(GaussInt<i64>, 28); run!(GaussInt<BigInt>, big / 2); run!(EisenInt<i64>, 28); run!(EisenInt<BigInt>, big / 2);
    let n = t.finish();
    summary("record", json!({"events": n, "histories": types.len() as u64 * nh, "types": types, "panics": st.panics, "max_bits_seen": st.maxbits, "eq_true": st.eq_true, "ops_skipped_outside_machine_envelope": st.skipped_unsafe}));
}

// ------------------------------------------------------------------ replay (spec -> impl)

fn replay_one<T: Scalar>(ln: &Value, n: &mut usize, bad: &mut Vec<Value>) where for<'a> &'a T: RingOps<T> {
    let op = ln["op"].as_str().unwrap();
    let r = guarded(|| {
        let (a, b) = (T::decode(&ln["a"]), T::decode(&ln["b"]));
        let mut got: Vec<Value> = vec![];
        match op {
            "add" | "sub" | "mul" => for f in 0..6 { got.push(apply_bin::<T>(op, f, &a, &b).enc()); },
            "neg" => { got.push((-a.clone()).enc()); got.push((-&a).enc()); }
            "eq" => got.push(json!(a == b && !(a != b))),
            "is_zero" => got.push(json!(a.is_zero())),
            "is_one" => got.push(json!(a.is_one())),
            "cmp" => if let Some(c) = T::cmp3(&a, &b) { got.push(json!(c)) },
            _ => panic!("op"),
        }
        got
    });
    *n += 1;
    match r {
        Ok(got) => for (f, g) in got.iter().enumerate() { if *g != ln["v"] { bad.push(json!({"type": T::name(), "form": f, "case": ln, "got": g})); } },
        Err(m) => bad.push(json!({"type": T::name(), "case": ln, "panic": m})),
    }
}

pub fn replay(a: &Args) {
    let lines = read_ndjson(a.inp.as_ref().expect("--in"));
    let (mut n, mut bad) = (0usize, vec![]);
    for ln in lines.iter() {
        let k = ln["ring"]["k"].as_str().unwrap();
        let p = ln["ring"]["p"].as_i64().unwrap_or(0);
        match (k, p) {
            ("Z", _) => { replay_one::<i32>(ln, &mut n, &mut bad); replay_one::<i64>(ln, &mut n, &mut bad); replay_one::<i128>(ln, &mut n, &mut bad); replay_one::<BigInt>(ln, &mut n, &mut bad); }
            ("Q", _) => { replay_one::<Ratio<i64>>(ln, &mut n, &mut bad); replay_one::<Ratio<i128>>(ln, &mut n, &mut bad); replay_one::<Ratio<BigInt>>(ln, &mut n, &mut bad); }
            ("F", 2) => { replay_one::<FF2>(ln, &mut n, &mut bad); replay_one::<FF<2>>(ln, &mut n, &mut bad); }
            ("F", 3) => replay_one::<FF<3>>(ln, &mut n, &mut bad),
            ("F", 5) => replay_one::<FF<5>>(ln, &mut n, &mut bad),
            ("F", 7) => replay_one::<FF<7>>(ln, &mut n, &mut bad),
            ("G", _) => { replay_one::<GaussInt<i64>>(ln, &mut n, &mut bad); replay_one::<GaussInt<BigInt>>(ln, &mut n, &mut bad); }
            ("E", _) => { replay_one::<EisenInt<i64>>(ln, &mut n, &mut bad); replay_one::<EisenInt<BigInt>>(ln, &mut n, &mut bad); }
            _ => panic!("ring {}", ln["ring"]),
        }
    }
    for b in bad.iter().take(200) { mismatch(b.clone()); }
    summary("replay", json!({"cases": lines.len(), "executions": n, "mismatches": bad.len()}));
}
