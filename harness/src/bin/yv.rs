use yv::util::{quiet_panics, Args};

fn main() {
    let a: Vec<String> = std::env::args().skip(1).collect();
    if a.len() < 2 { eprintln!("usage: yv <prop> <record|replay> [--seed S] [--tier T] [--in F] [--out F]"); std::process::exit(2); }
    let args = Args::parse(&a[2..]);
    quiet_panics();
    match (a[0].as_str(), a[1].as_str()) {
        ("c17", "record") => yv::c17::record(&args),
        ("c17", "replay") => yv::c17::replay(&args),
        ("c14", "record") => yv::c14::record(&args),
        ("c14", "replay") => yv::c14::replay(&args),
        ("c15", "record") => yv::c15::record(&args),
        ("c13", "record") => yv::c13::record(&args),
        ("c12", "record") => yv::c12::record(&args),
        ("c11", "record") => yv::c11::record(&args),
        ("c09", "record") => yv::c09::record(&args),
        ("c10", "record") => yv::c10::record(&args),
        ("c10", "steps") => yv::c10::steps(&args),
        ("c07", "record") => yv::c07::record(&args),
        ("c08", "record") => yv::c08::record(&args),
        ("uf", "replay") => yv::cx::uf_replay(&args),
        ("uf", "record") => yv::cx::uf_record(&args),
        ("topsort", "record") => yv::cx::topsort_record(&args),
        ("c20", "record") => yv::c20::record(&args),
        ("c20", "replay") => yv::c20::replay(&args),
        ("c20i", "record") => yv::c20i::record(&args),
        ("c20i", "replay") => yv::c20i::replay(&args),
        ("c04", "record") => yv::c04::record(&args),
        ("c04", "replay") => yv::c04::replay(&args),
        ("c01", "record") => yv::c01::record(&args),
        ("c01", "replay") => yv::c01::replay(&args),
        ("c01", "route") => yv::c01::route(&args),
        ("c06", "record") => yv::c06::record(&args),
        ("c06", "replay") => yv::c06::replay(&args),
        ("c02", "record") => yv::c02::record(&args),
        ("c02", "replay") => yv::c02::replay(&args),
        ("c18", "record") => yv::c18::record(&args),
        ("c19", "record") => yv::c19::record(&args),
        ("c19", "replay") => yv::c19::replay(&args),
        ("c18", "replay") => yv::c18::replay(&args),
        ("c16", "record") => yv::c16::record(&args),
        ("c16", "replay") => yv::c16::replay(&args),
        ("c03", "record") => yv::c03::record(&args),
        ("c05", "record") => yv::c05::record(&args),
        // extension machines of cy.rs: indexlist | grid | path | fmt | tng  x  record | replay
        (c, m) => if !yv::cy::dispatch(c, m, &args) { eprintln!("unknown command {:?}", &a[..2]); std::process::exit(2); }
    }
}
