use yv::util::{quiet_panics, Args};

fn main() {
    let a: Vec<String> = std::env::args().skip(1).collect();
    if a.len() < 2 { eprintln!("usage: yv <prop> <record|replay> [--seed S] [--tier T] [--in F] [--out F]"); std::process::exit(2); }
    let args = Args::parse(&a[2..]);
    quiet_panics();
    match (a[0].as_str(), a[1].as_str()) {
        ("c17", "record") => yv::c17::record(&args),
        ("c17", "replay") => yv::c17::replay(&args),
        ("c14", "record") => yv::c14::record(&args),
        ("c14", "replay") => yv::c14::replay(&args),
        ("c15", "record") => yv::c15::record(&args),
        ("c13", "record") => yv::c13::record(&args),
        ("c12", "record") => yv::c12::record(&args),
        ("c11", "record") => yv::c11::record(&args),
        ("c09", "record") => yv::c09::record(&args),
        ("c10", "record") => yv::c10::record(&args),
        ("c20", "record") => yv::c20::record(&args),
        ("c20", "replay") => yv::c20::replay(&args),
        ("c04", "record") => yv::c04::record(&args),
        ("c04", "replay") => yv::c04::replay(&args),
        ("c06", "record") => yv::c06::record(&args),
        ("c06", "replay") => yv::c06::replay(&args),
        ("c02", "record") => yv::c02::record(&args),
        ("c02", "replay") => yv::c02::replay(&args),
        ("c18", "record") => yv::c18::record(&args),
        ("c18", "replay") => yv::c18::replay(&args),
        _ => { eprintln!("unknown command {:?}", &a[..2]); std::process::exit(2); }
    }
}
