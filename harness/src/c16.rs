//! C16 — polynomial and linear-combination types as the free algebra / free module they denote
//! (spec/sys/PolyAlg.tla, spec/sys/MonoOrd.tla, spec/lib/Polys.tla).
//!
//! `record`: seeded, cancellation-heavy histories on every polynomial type x coefficient ring and on
//! `Lc<Free<i64>, R>`; after every call the *stored* term list (as the implementation iterates it), nterms,
//! is_zero, is_one, is_const, const_term, lead_term, lead_deg and `==` against every register are logged.
//! `replay`: TLC-enumerated transitions (Gen_PolyAlg) are executed on every implementation type of the
//! ring in every operator form and the complete observation is compared with TLC's.
use crate::c14::Scalar;
use crate::enc::*;
use crate::util::*;
use num_bigint::BigInt;
use num_traits::{One, Pow, Signed, Zero};
use rand::rngs::StdRng;
use rand::seq::SliceRandom;
use rand::Rng;
use serde_json::{json, Value};
use std::cmp::Ordering;
use yui::lc::{Free, Lc};
use yui::poly::{HPoly, Mono, MultiVar, PolyBase, Var, Var2, Var3};
use yui::{AddMon, GaussInt, Mon, Ratio, Ring, RingOps, FF};

pub const NREG: usize = 4;
/// number of variables the multivariate types are driven with (indices 0..NVN-1)
pub const NVN: usize = 4;

type V1u = Var<'x', usize>;
type V1i = Var<'x', isize>;
type V2u = Var2<'x', 'y', usize>;
type V2i = Var2<'x', 'y', isize>;
type V3u = Var3<'x', 'y', 'z', usize>;
type V3i = Var3<'x', 'y', 'z', isize>;
type VNu = MultiVar<'x', usize>;
type VNi = MultiVar<'x', isize>;
type P<X, R> = PolyBase<X, R>;
type G = Free<i64>;
type L<R> = Lc<G, R>;

// ------------------------------------------------------------------------------------------ monomial types

pub trait MonoK: Mono + Clone {
    const NV: usize;
    const LAU: bool;
    const SP: bool;
    fn tname() -> &'static str;
    /// construct through the public constructors from dense exponents (`style` varies the constructor)
    fn mk(e: &[i64], style: u32) -> Self;
    /// the exponent(s) as the type stores / exposes them
    fn stored(&self) -> Value;
    fn deg_json(d: &Self::Deg) -> Value;
    fn total(&self) -> Option<i64>;
    fn mul_forms(a: &Self, b: &Self) -> Vec<Self>;
    fn div_forms(a: &Self, b: &Self) -> Vec<Self>;
    fn len() -> usize { Self::NV.max(1) }
    /// `variable` has a different signature per monomial type (i is 0-based)
    fn variable<R: Scalar>(i: usize) -> P<Self, R> where for<'a> &'a R: RingOps<R>;
    /// `lead_term_for` exists for the multivariate types only
    fn lead_for<R: Scalar>(_f: &P<Self, R>, _k: usize) -> Option<Value> where for<'a> &'a R: RingOps<R> { None }
}

macro_rules! op_forms { ($a:ident, $b:ident, $o:tt, $oa:tt) => { vec![
    $a.clone() $o $b.clone(), $a.clone() $o $b, $a $o $b.clone(), $a $o $b,
    { let mut t = $a.clone(); t $oa $b.clone(); t }, { let mut t = $a.clone(); t $oa $b; t } ] } }

macro_rules! monok_var { ($t:ty, $i:ty, $lau:expr, $name:expr) => {
    impl MonoK for $t {
        const NV: usize = 0; const LAU: bool = $lau; const SP: bool = false;
        fn tname() -> &'static str { $name }
        fn mk(e: &[i64], _s: u32) -> Self { <$t>::from(e[0] as $i) }
        fn stored(&self) -> Value { json!(self.deg() as i64) }
        fn deg_json(d: &Self::Deg) -> Value { json!(*d as i64) }
        fn total(&self) -> Option<i64> { None }
        fn variable<R: Scalar>(_i: usize) -> P<Self, R> where for<'a> &'a R: RingOps<R> { P::<Self, R>::variable() }
        fn mul_forms(a: &Self, b: &Self) -> Vec<Self> { op_forms!(a, b, *, *=) }
        fn div_forms(a: &Self, b: &Self) -> Vec<Self> { op_forms!(a, b, /, /=) }
    }
}}
monok_var!(V1u, usize, false, "Poly");
monok_var!(V1i, isize, true, "LPoly");

macro_rules! monok_var2 { ($t:ty, $i:ty, $lau:expr, $name:expr) => {
    impl MonoK for $t {
        const NV: usize = 2; const LAU: bool = $lau; const SP: bool = false;
        fn tname() -> &'static str { $name }
        fn mk(e: &[i64], _s: u32) -> Self { <$t>::from((e[0] as $i, e[1] as $i)) }
        fn stored(&self) -> Value { json!([self.deg_for(0) as i64, self.deg_for(1) as i64]) }
        fn deg_json(d: &Self::Deg) -> Value { json!([d.0 as i64, d.1 as i64]) }
        fn total(&self) -> Option<i64> { Some(self.total_deg() as i64) }
        fn variable<R: Scalar>(i: usize) -> P<Self, R> where for<'a> &'a R: RingOps<R> { P::<Self, R>::variable(i) }
        fn mul_forms(a: &Self, b: &Self) -> Vec<Self> { op_forms!(a, b, *, *=) }
        fn div_forms(a: &Self, b: &Self) -> Vec<Self> { op_forms!(a, b, /, /=) }
    }
}}
monok_var2!(V2u, usize, false, "Poly2");
monok_var2!(V2i, isize, true, "LPoly2");

macro_rules! monok_var3 { ($t:ty, $i:ty, $lau:expr, $name:expr) => {
    impl MonoK for $t {
        const NV: usize = 3; const LAU: bool = $lau; const SP: bool = false;
        fn tname() -> &'static str { $name }
        fn mk(e: &[i64], _s: u32) -> Self { <$t>::from((e[0] as $i, e[1] as $i, e[2] as $i)) }
        fn stored(&self) -> Value { json!([self.deg_for(0) as i64, self.deg_for(1) as i64, self.deg_for(2) as i64]) }
        fn deg_json(d: &Self::Deg) -> Value { json!([d.0 as i64, d.1 as i64, d.2 as i64]) }
        fn total(&self) -> Option<i64> { Some(self.total_deg() as i64) }
        fn variable<R: Scalar>(i: usize) -> P<Self, R> where for<'a> &'a R: RingOps<R> { P::<Self, R>::variable(i) }
        fn mul_forms(a: &Self, b: &Self) -> Vec<Self> { op_forms!(a, b, *, *=) }
        fn div_forms(a: &Self, b: &Self) -> Vec<Self> { op_forms!(a, b, /, /=) }
    }
}}
monok_var3!(V3u, usize, false, "Poly3");
monok_var3!(V3i, isize, true, "LPoly3");

macro_rules! monok_mvar { ($t:ty, $i:ty, $lau:expr, $name:expr) => {
    impl MonoK for $t {
        const NV: usize = NVN; const LAU: bool = $lau; const SP: bool = true;
        fn tname() -> &'static str { $name }
        fn mk(e: &[i64], style: u32) -> Self {
            match style % 4 {
                0 => <$t>::from([e[0] as $i, e[1] as $i, e[2] as $i, e[3] as $i]),
                1 => <$t>::from_iter(e.iter().enumerate().filter(|(_, &d)| d != 0).map(|(i, &d)| (i, d as $i))),
                2 => <$t>::from_iter(e.iter().enumerate().map(|(i, &d)| (i, d as $i))),            // zero entries handed in
                _ => e.iter().enumerate().fold(<$t>::one(), |m, (i, &d)| m * <$t>::from((i, d as $i))), // product of x_i^d (d may be 0)
            }
        }
        fn stored(&self) -> Value { Self::deg_json(&self.deg()) }
        fn deg_json(d: &Self::Deg) -> Value { Value::Array(d.iter().map(|(&i, &x)| json!([i, x as i64])).collect()) }
        fn lead_for<R: Scalar>(f: &P<Self, R>, k: usize) -> Option<Value> where for<'a> &'a R: RingOps<R> { f.lead_term_for(k).map(|(x, c)| json!([x.stored(), c.enc()])) }
        fn total(&self) -> Option<i64> { Some(self.total_deg() as i64) }
        fn variable<R: Scalar>(i: usize) -> P<Self, R> where for<'a> &'a R: RingOps<R> { P::<Self, R>::variable(i) }
        fn mul_forms(a: &Self, b: &Self) -> Vec<Self> { op_forms!(a, b, *, *=) }
        fn div_forms(a: &Self, b: &Self) -> Vec<Self> { op_forms!(a, b, /, /=) }
    }
}}
monok_mvar!(VNu, usize, false, "PolyN");
monok_mvar!(VNi, isize, true, "LPolyN");

// ------------------------------------------------------------------------------------------ coefficients

fn big(n: i64) -> Value { big_json(&BigInt::from(n)) }

/// the element n/d (Q), n + b i (Z[i]), n (Z, F_p) of the coefficient ring, built through the ring's constructors
pub fn mk_coef<R: Scalar>(n: i64, d: i64, b: i64) -> R where for<'a> &'a R: RingOps<R> {
    let ring = R::ring();
    match ring["k"].as_str().unwrap() {
        "Z" => R::decode(&big(n)),
        "Q" => R::decode(&json!({"n": big(n), "d": big(d.max(1))})),
        "F" => R::decode(&json!(n.rem_euclid(ring["p"].as_i64().unwrap()))),
        "G" => R::decode(&json!({"a": big(n), "b": big(b)})),
        k => panic!("ring kind {}", k),
    }
}

fn rand_coef<R: Scalar>(rng: &mut StdRng, allow_zero: bool) -> R where for<'a> &'a R: RingOps<R> {
    loop {
        let n: i64 = match rng.gen_range(0..20) { 0..=1 => 0, 2..=9 => *[1i64, -1].choose(rng).unwrap(), 10..=15 => rng.gen_range(-3..=3), 16..=18 => rng.gen_range(-12..=12), _ => *[1000i64, -999, 46341].choose(rng).unwrap() };
        let d: i64 = *[1i64, 1, 1, 2, 2, 3, 4, 6].choose(rng).unwrap();
        let b: i64 = if rng.gen_bool(0.5) { 0 } else { rng.gen_range(-2..=2) };
        let c = mk_coef::<R>(n, d, b);
        if allow_zero || !c.is_zero() { return c; }
    }
}

/// a unit of the coefficient ring, different from 1 where the ring has one
fn unit_coef<R: Scalar>(rng: &mut StdRng) -> R where for<'a> &'a R: RingOps<R> {
    match R::ring()["k"].as_str().unwrap() {
        "Z" => mk_coef::<R>(*[1i64, -1].choose(rng).unwrap(), 1, 0),
        "Q" => mk_coef::<R>(*[2i64, -3, 1, -1].choose(rng).unwrap(), *[3i64, 1, 2].choose(rng).unwrap(), 0),
        "F" => mk_coef::<R>(rng.gen_range(1..R::ring()["p"].as_i64().unwrap()), 1, 0),
        _ => { let (a, b) = *[(0i64, 1i64), (0, -1), (-1, 0), (1, 0)].choose(rng).unwrap(); mk_coef::<R>(a, 1, b) }
    }
}

/// (height, denominator) of a coefficient: max |part|, and the denominator for Q (1 otherwise)
fn height<R: Scalar>(c: &R) -> (BigInt, BigInt) where for<'a> &'a R: RingOps<R> {
    let p = c.parts();
    let h = p.iter().map(|x| x.abs()).max().unwrap_or_else(BigInt::one).max(BigInt::one());
    let l = if R::ring()["k"] == json!("Q") { p[1].abs() } else { BigInt::one() };
    (h, l)
}

/// size summary of an operand, used only to decide whether an operation is issued on a machine coefficient type
#[derive(Clone)]
struct Size { h: BigInt, l: BigInt, nt: usize }
fn size_of<'a, R: Scalar + 'a>(it: impl Iterator<Item = &'a R>) -> Size where for<'b> &'b R: RingOps<R> {
    use num_integer::Integer;
    let mut s = Size { h: BigInt::one(), l: BigInt::one(), nt: 0 };
    for c in it { let (h, l) = height(c); if h > s.h { s.h = h; } s.l = s.l.lcm(&l); s.nt += 1; }
    s
}
fn is_machine<R: Scalar>() -> bool where for<'a> &'a R: RingOps<R> { let n = R::name(); n.contains("i64") }
fn is_ff<R: Scalar>() -> bool where for<'a> &'a R: RingOps<R> { R::ring()["k"] == json!("F") }
fn fits(b: &BigInt) -> bool { b.bits() <= 58 }
/// envelope of a polynomial product / sum on machine coefficients: every intermediate numerator, denominator and
/// cross product of the chain (products of pairs, then sums of at most k of them) stays below 2^58
fn safe_bin<R: Scalar>(op: &str, a: &Size, b: &Size) -> bool where for<'x> &'x R: RingOps<R> {
    if is_ff::<R>() { return true; }
    if !is_machine::<R>() { return true; }
    let k = BigInt::from(a.nt.min(b.nt).max(1));
    let l = &a.l * &b.l;
    match op {
        "mul" => fits(&(BigInt::from(8) * k * &a.h * &b.h * &l * &l)),
        _ => fits(&(BigInt::from(4) * &a.h * &b.h * &l)),
    }
}
fn safe_pow<R: Scalar>(a: &Size, n: u32) -> bool where for<'x> &'x R: RingOps<R> {
    if is_ff::<R>() || !is_machine::<R>() { return true; }
    let base = BigInt::from(4) * BigInt::from(a.nt.max(1)) * &a.h * &a.l * &a.l;
    fits(&Pow::pow(base, n.max(1)))
}

// ------------------------------------------------------------------------------------------ observations

fn term_json<X: MonoK, R: Scalar>(x: &X, c: &R) -> Value where for<'a> &'a R: RingOps<R> { json!([x.stored(), c.enc(), c.witness()]) }

/// everything the public API shows of register d (the *stored* term list in iteration order first)
fn obs_poly<X: MonoK, R: Scalar>(regs: &[P<X, R>], d: usize) -> Value where for<'a> &'a R: RingOps<R> {
    let f = &regs[d];
    let terms: Vec<Value> = f.iter().map(|(x, c)| term_json(x, c)).collect();
    let (lx, lc) = f.lead_term();
    json!({"terms": terms, "nterms": f.nterms(), "is_zero": f.is_zero(), "is_one": f.is_one(), "is_const": f.is_const(),
           "is_mono": f.is_mono(), "ct": f.const_term().enc(), "lead": [lx.stored(), lc.enc()], "lead_coeff": f.lead_coeff().enc(),
           "lead_deg": X::deg_json(&f.lead_deg()),
           "eqs": regs.iter().map(|g| (f == g) && !(f != g) && (g == f)).collect::<Vec<bool>>()})
}
fn obs_lc<R: Scalar>(regs: &[L<R>], d: usize) -> Value where for<'a> &'a R: RingOps<R> {
    let f = &regs[d];
    let terms: Vec<Value> = f.iter().map(|(x, c)| json!([x.0, c.enc(), c.witness()])).collect();
    json!({"terms": terms, "nterms": f.nterms(), "is_zero": f.is_zero(), "is_mono": f.is_gen(),
           "eqs": regs.iter().map(|g| (f == g) && !(f != g) && (g == f)).collect::<Vec<bool>>()})
}

#[derive(Default)]
pub struct Stats {
    pub events: usize, pub panics: usize, pub skipped: usize, pub zero_results: usize, pub max_terms: usize,
    pub mul_branch: [usize; 4], pub cancel_scripts: usize, pub histories: usize, pub products_terms_max: usize,
}

// ------------------------------------------------------------------------------------------ operator forms

macro_rules! bin_forms { ($a:expr, $b:expr, $form:expr, $o:tt, $oa:tt) => {{ let (a, b) = ($a, $b); match $form % 6 {
    0 => a.clone() $o b.clone(),
    1 => a.clone() $o b,
    2 => a $o b.clone(),
    3 => a $o b,
    4 => { let mut t = a.clone(); t $oa b.clone(); t }
    _ => { let mut t = a.clone(); t $oa b; t }
} }} }

fn poly_bin<X: MonoK, R: Scalar>(op: &str, form: u64, a: &P<X, R>, b: &P<X, R>) -> P<X, R> where for<'a> &'a R: RingOps<R> {
    match op { "add" => bin_forms!(a, b, form, +, +=), "sub" => bin_forms!(a, b, form, -, -=), _ => bin_forms!(a, b, form, *, *=) }
}
fn poly_scale<X: MonoK, R: Scalar>(form: u64, a: &P<X, R>, c: &R) -> P<X, R> where for<'a> &'a R: RingOps<R> {
    match form % 7 { 6 => a.map_coeffs(|r| r * c), f => bin_forms!(a, c, f, *, *=) }
}
fn poly_pow<X: MonoK, R: Scalar>(form: u64, a: &P<X, R>, n: i64) -> P<X, R> where for<'a> &'a R: RingOps<R> {
    match form % 6 { 0 => a.pow(n as u32), 1 => a.pow(n as u64), 2 => a.pow(n as usize), 3 => a.pow(n as i32), 4 => a.pow(n), _ => a.pow(n as isize) }
}
fn poly_neg<X: MonoK, R: Scalar>(form: u64, a: &P<X, R>) -> P<X, R> where for<'a> &'a R: RingOps<R> { if form % 2 == 0 { -a.clone() } else { -a } }
fn lc_bin<R: Scalar>(op: &str, form: u64, a: &L<R>, b: &L<R>) -> L<R> where for<'a> &'a R: RingOps<R> {
    match op { "add" => bin_forms!(a, b, form, +, +=), _ => bin_forms!(a, b, form, -, -=) }
}
fn lc_scale<R: Scalar>(form: u64, a: &L<R>, c: &R) -> L<R> where for<'a> &'a R: RingOps<R> {
    match form % 7 { 6 => a.map_coeffs(|r| r * c), f => bin_forms!(a, c, f, *, *=) }
}

/// the branch `*=` takes, read off the operands through the public predicates (statistics only)
fn mul_branch<X: MonoK, R: Scalar>(a: &P<X, R>, b: &P<X, R>) -> usize where for<'a> &'a R: RingOps<R> {
    if b.is_one() { 0 } else if b.is_const() { 1 } else if a.is_const() { 2 } else { 3 }
}

// ------------------------------------------------------------------------------------------ generators of arguments

fn rand_exps<X: MonoK>(rng: &mut StdRng, spread: i64) -> Vec<i64> {
    let n = X::len();
    (0..n).map(|_| {
        if n > 1 && rng.gen_bool(if X::SP { 0.6 } else { 0.35 }) { 0 }
        else if X::LAU { rng.gen_range(-spread..=spread) } else { rng.gen_range(0..=spread) }
    }).collect()
}

/// a raw term list with repeated monomials, zero coefficients and planted cancelling pairs
fn rand_terms<X: MonoK, R: Scalar>(rng: &mut StdRng, n: usize, spread: i64) -> Vec<(Vec<i64>, R)> where for<'a> &'a R: RingOps<R> {
    let pool: Vec<Vec<i64>> = (0..(n * 3 / 4).max(1)).map(|_| rand_exps::<X>(rng, spread)).collect();
    let mut ts: Vec<(Vec<i64>, R)> = vec![];
    while ts.len() < n {
        let e = pool.choose(rng).unwrap().clone();
        let c = rand_coef::<R>(rng, true);
        if rng.gen_range(0..6) == 0 && ts.len() + 1 < n { ts.push((e.clone(), -c.clone())); }   // planted cancellation
        ts.push((e, c));
    }
    ts.shuffle(rng);
    ts
}

fn raw_json<X: MonoK, R: Scalar>(ts: &[(X, R)]) -> Value where for<'a> &'a R: RingOps<R> {
    Value::Array(ts.iter().map(|(x, c)| json!([x.stored(), c.enc()])).collect())
}

// ------------------------------------------------------------------------------------------ polynomial histories

pub type EvalFn<X, R> = fn(&P<X, R>, &[R]) -> R;

struct PolyH<'t, X: MonoK, R: Scalar> where for<'a> &'a R: RingOps<R> {
    regs: Vec<P<X, R>>, t: &'t mut Tracer, st: &'t mut Stats, rng: StdRng, maxterms: usize, spread: i64, eval: Option<EvalFn<X, R>>,
}

impl<'t, X: MonoK, R: Scalar> PolyH<'t, X, R> where for<'a> &'a R: RingOps<R> {
    fn ring() -> Value { json!({"k": "P", "b": R::ring(), "nv": X::NV, "lau": X::LAU, "sp": X::SP, "lc": false, "hp": false}) }
    fn size(&self, x: usize) -> Size { size_of(self.regs[x].iter().map(|(_, c)| c)) }

    fn emit(&mut self, mut e: Value, ok: bool, panic: Option<String>) {
        e["res"] = json!(if ok { "ok" } else { "panic" });
        if let Some(m) = panic { e["panic"] = json!(m); self.st.panics += 1; }
        self.st.events += 1;
        self.t.emit(&e);
    }
    /// store the result of a mutating call into register d and log the observation of d
    fn put(&mut self, mut e: Value, d: usize, r: Result<P<X, R>, String>) {
        match r {
            Ok(v) => {
                self.regs[d] = v;
                let regs = &self.regs;
                match guarded(|| obs_poly(regs, d)) {
                    Ok(o) => { if self.regs[d].is_zero() { self.st.zero_results += 1; } self.st.max_terms = self.st.max_terms.max(self.regs[d].nterms()); e["o"] = o; self.emit(e, true, None) }
                    Err(m) => self.emit(e, false, Some(m)),
                }
            }
            Err(m) => self.emit(e, false, Some(m)),
        }
    }
    fn mono(&mut self, e: &[i64]) -> X { let s = self.rng.gen_range(0..4); X::mk(e, s) }

    fn from_terms(&mut self, d: usize, ts: Vec<(Vec<i64>, R)>) {
        let terms: Vec<(X, R)> = ts.iter().map(|(e, c)| (self.mono(e), c.clone())).collect();
        let e = json!({"op": "from_terms", "d": d, "ts": raw_json(&terms)});
        let r = guarded(|| P::<X, R>::from_iter(terms.clone()));
        self.put(e, d, r);
    }
    fn load(&mut self, d: usize) {
        let n = match self.rng.gen_range(0..10) { 0 => 0, 1..=4 => self.rng.gen_range(1..=4), 5..=7 => self.rng.gen_range(4..=12), _ => self.rng.gen_range(12..=self.maxterms) };
        let ts = rand_terms::<X, R>(&mut self.rng, n, self.spread);
        self.from_terms(d, ts);
    }
    /// the same polynomial as register x, rebuilt from its own terms, shuffled, some coefficients split in two
    fn rebuild(&mut self, d: usize, x: usize) {
        let mut ts: Vec<(X, R)> = vec![];
        for (m, c) in self.regs[x].iter() {
            if self.rng.gen_bool(0.3) && safe_bin::<R>("add", &size_of([c].into_iter()), &size_of([c].into_iter())) {
                let u = rand_coef::<R>(&mut self.rng, true);
                if safe_bin::<R>("add", &size_of([c].into_iter()), &size_of([&u].into_iter())) { ts.push((m.clone(), c - &u)); ts.push((m.clone(), u)); continue; }
            }
            ts.push((m.clone(), c.clone()));
        }
        ts.shuffle(&mut self.rng);
        let e = json!({"op": "from_terms", "d": d, "ts": raw_json(&ts)});
        let r = guarded(|| P::<X, R>::from_iter(ts.clone()));
        self.put(e, d, r);
    }
    fn bin(&mut self, op: &str, d: usize, x: usize, y: usize) -> bool {
        let (sa, sb) = (self.size(x), self.size(y));
        if !safe_bin::<R>(op, &sa, &sb) { self.st.skipped += 1; return false; }
        if op == "mul" && sa.nt * sb.nt > 30 * self.maxterms { self.st.skipped += 1; return false; }
        let form = self.rng.gen_range(0..6u64);
        let (a, b) = (self.regs[x].clone(), self.regs[y].clone());
        if op == "mul" { self.st.mul_branch[mul_branch(&a, &b)] += 1; self.st.products_terms_max = self.st.products_terms_max.max(sa.nt * sb.nt); }
        let r = guarded(|| poly_bin(op, form, &a, &b));
        self.put(json!({"op": op, "form": form, "d": d, "x": x, "y": y}), d, r);
        true
    }
    fn neg(&mut self, d: usize, x: usize) {
        let form = self.rng.gen_range(0..2u64);
        let a = self.regs[x].clone();
        let r = guarded(|| poly_neg(form, &a));
        self.put(json!({"op": "neg", "form": form, "d": d, "x": x}), d, r);
    }
    fn scale(&mut self, d: usize, x: usize, c: R) {
        let sa = self.size(x);
        if !safe_bin::<R>("mul", &sa, &size_of([&c].into_iter())) { self.st.skipped += 1; return; }
        let form = self.rng.gen_range(0..7u64);
        let a = self.regs[x].clone();
        let cc = c.clone();
        let r = guarded(|| poly_scale(form, &a, &cc));
        self.put(json!({"op": "scale", "form": form, "d": d, "x": x, "c": c.enc()}), d, r);
    }
    fn constant(&mut self, d: usize, c: R) {
        let cc = c.clone();
        let r = guarded(|| P::<X, R>::from_const(cc));
        self.put(json!({"op": "const", "d": d, "c": c.enc()}), d, r);
    }
    fn term(&mut self, d: usize, e: &[i64], c: R) {
        let m = self.mono(e);
        let ev = json!({"op": "term", "d": d, "x": m.stored(), "c": c.enc()});
        let (mm, cc) = (m.clone(), c.clone());
        let r = if c.is_one() && self.rng.gen_bool(0.5) { guarded(|| P::<X, R>::from(mm)) } else { guarded(|| P::<X, R>::from((mm, cc))) };
        self.put(ev, d, r);
    }
    fn pow(&mut self, d: usize, x: usize, n: i64) {
        let sa = self.size(x);
        if !safe_pow::<R>(&sa, n as u32) || sa.nt.pow(n.max(1) as u32) > 20 * self.maxterms { self.st.skipped += 1; return; }
        let form = self.rng.gen_range(0..6u64);
        let a = self.regs[x].clone();
        let r = guarded(|| poly_pow(form, &a, n));
        self.put(json!({"op": "pow", "form": form, "d": d, "x": x, "n": n}), d, r);
    }
    fn inv(&mut self, d: usize, x: usize) {
        let a = self.regs[x].clone();
        let unit = guarded(|| a.is_unit());
        match guarded(|| a.inv()) {
            Ok(Some(g)) => self.put(json!({"op": "inv", "d": d, "x": x, "some": true, "is_unit": unit.clone().unwrap_or(false)}), d, Ok(g)),
            Ok(None) => self.emit(json!({"op": "inv", "d": d, "x": x, "some": false, "o": {}}), true, None),
            Err(m) => self.emit(json!({"op": "inv", "d": d, "x": x}), false, Some(m)),
        }
        match unit { Ok(u) => self.emit(json!({"op": "is_unit", "x": x, "out": u}), true, None), Err(m) => self.emit(json!({"op": "is_unit", "x": x}), false, Some(m)) }
    }
    fn negpow(&mut self, d: usize, x: usize, n: i64) {
        let a = self.regs[x].clone();
        if !a.is_unit() || !safe_pow::<R>(&self.size(x), n as u32) { self.st.skipped += 1; return; }
        let form = self.rng.gen_range(0..3u64);
        let r = guarded(|| match form { 0 => a.pow(-(n as i32)), 1 => a.pow(-n), _ => a.pow(-(n as isize)) });
        self.put(json!({"op": "negpow", "form": form, "d": d, "x": x, "n": n}), d, r);
    }
    fn sum(&mut self, d: usize, xs: Vec<usize>) {
        let mut acc = Size { h: BigInt::zero(), l: BigInt::one(), nt: 1 };
        for &x in &xs { let s = self.size(x); acc.h = &acc.h + &s.h; acc.l = &acc.l * &s.l; }
        if !safe_bin::<R>("add", &acc, &acc) { self.st.skipped += 1; return; }
        let ps: Vec<P<X, R>> = xs.iter().map(|&x| self.regs[x].clone()).collect();
        let byref = self.rng.gen_bool(0.5);
        let r = guarded(|| if byref { P::<X, R>::sum(ps.iter()) } else { P::<X, R>::sum(ps.clone()) });
        self.put(json!({"op": "sum", "d": d, "xs": xs, "byref": byref}), d, r);
    }
    fn product(&mut self, d: usize, x: usize, y: usize) {
        let (sa, sb) = (self.size(x), self.size(y));
        if !safe_bin::<R>("mul", &sa, &sb) || sa.nt * sb.nt > 30 * self.maxterms { self.st.skipped += 1; return; }
        let ps = vec![self.regs[x].clone(), self.regs[y].clone()];
        let byref = self.rng.gen_bool(0.5);
        let r = guarded(|| if byref { P::<X, R>::product(ps.iter()) } else { P::<X, R>::product(ps.clone()) });
        self.put(json!({"op": "product", "d": d, "xs": [x, y], "byref": byref}), d, r);
    }
    fn copy(&mut self, d: usize, x: usize) { let a = self.regs[x].clone(); self.put(json!({"op": "copy", "d": d, "x": x}), d, Ok(a)); }
    fn var(&mut self, d: usize, i: usize) {
        // i is 0-based in the library, 1-based in the specification
        let r = guarded(|| X::variable::<R>(i));
        self.put(json!({"op": "var", "d": d, "i": i + 1}), d, r);
    }
    fn coeff(&mut self, x: usize) {
        // half of the probes hit the support
        let f = self.regs[x].clone();
        let m = if !f.is_zero() && self.rng.gen_bool(0.6) { let k = self.rng.gen_range(0..f.nterms()); f.iter().nth(k).unwrap().0.clone() } else { let e = rand_exps::<X>(&mut self.rng, self.spread); self.mono(&e) };
        let by_deg = self.rng.gen_bool(0.3);
        let mm = m.clone();
        match guarded(|| if by_deg { f.coeff_for(mm.deg()).clone() } else { f.coeff(&mm).clone() }) {
            Ok(v) => self.emit(json!({"op": "coeff", "x": x, "e": m.stored(), "v": v.enc(), "by_deg": by_deg}), true, None),
            Err(msg) => self.emit(json!({"op": "coeff", "x": x}), false, Some(msg)),
        }
    }
    fn look(&mut self, x: usize) {
        let regs = &self.regs;
        match guarded(|| obs_poly(regs, x)) { Ok(o) => self.emit(json!({"op": "look", "x": x, "o": o}), true, None), Err(m) => self.emit(json!({"op": "look", "x": x}), false, Some(m)) }
    }
    fn eval(&mut self, x: usize) {
        let Some(ef) = self.eval else { return };
        let f = self.regs[x].clone();
        let pt: Vec<R> = (0..X::len()).map(|_| mk_coef::<R>(*[0i64, 1, -1, 2, -2, 3, -3, 10].choose(&mut self.rng).unwrap(), 1, 0)).collect();
        if is_machine::<R>() {
            // |f(pt)| <= nterms * H * max|pt|^(sum of exponents); issued only if that fits
            let s = self.size(x);
            let m = pt.iter().map(|p| height(p).0).max().unwrap();
            let deg = f.iter().map(|(mono, _)| mono_abs_deg(mono)).max().unwrap_or(0);
            if !fits(&(BigInt::from(4 * s.nt.max(1)) * &s.h * Pow::pow(m, deg as u32))) { self.st.skipped += 1; return; }
        }
        let p2 = pt.clone();
        match guarded(|| ef(&f, &p2)) {
            Ok(v) => self.emit(json!({"op": "eval", "x": x, "pt": pt.iter().map(|p| p.enc()).collect::<Vec<_>>(), "v": v.enc()}), true, None),
            Err(m) => self.emit(json!({"op": "eval", "x": x, "pt": pt.iter().map(|p| p.enc()).collect::<Vec<_>>()}), false, Some(m)),
        }
    }
    fn mono_ops(&mut self) {
        let (ea, eb) = (rand_exps::<X>(&mut self.rng, self.spread), rand_exps::<X>(&mut self.rng, self.spread));
        let eb = match self.rng.gen_range(0..6) { 0 => ea.clone(), 1 => ea.iter().map(|&v| if X::LAU { -v } else { v }).collect(), _ => eb };
        let (a, b) = (self.mono(&ea), self.mono(&eb));
        let c3 = |o: Ordering| match o { Ordering::Less => -1, Ordering::Equal => 0, Ordering::Greater => 1 };
        for kind in ["lex", "grlex"] {
            let (aa, bb) = (a.clone(), b.clone());
            match guarded(|| if kind == "lex" { aa.cmp_lex(&bb) } else { aa.cmp_grlex(&bb) }) {
                Ok(o) => self.emit(json!({"op": "mcmp", "kind": kind, "a": a.stored(), "b": b.stored(), "out": c3(o)}), true, None),
                Err(m) => self.emit(json!({"op": "mcmp", "kind": kind, "a": a.stored(), "b": b.stored()}), false, Some(m)),
            }
        }
        let (aa, bb) = (a.clone(), b.clone());
        match guarded(|| X::mul_forms(&aa, &bb)) {
            Ok(vs) => for v in vs { self.emit(json!({"op": "mmul", "a": a.stored(), "b": b.stored(), "v": v.stored()}), true, None); },
            Err(m) => self.emit(json!({"op": "mmul", "a": a.stored(), "b": b.stored()}), false, Some(m)),
        }
        let (aa, bb) = (a.clone(), b.clone());
        match guarded(|| aa.divides(&bb)) {
            Ok(dv) => {
                self.emit(json!({"op": "mdivides", "a": a.stored(), "b": b.stored(), "out": dv}), true, None);
                // b / a is issued only when a divides b in the monomial type (no negative exponent for usize)
                if X::LAU || ea.iter().zip(eb.iter()).all(|(p, q)| p <= q) {
                    let (aa, bb) = (a.clone(), b.clone());
                    match guarded(|| X::div_forms(&bb, &aa)) {
                        Ok(vs) => for v in vs { self.emit(json!({"op": "mdiv", "a": b.stored(), "b": a.stored(), "v": v.stored()}), true, None); },
                        Err(m) => self.emit(json!({"op": "mdiv", "a": b.stored(), "b": a.stored()}), false, Some(m)),
                    }
                }
            }
            Err(m) => self.emit(json!({"op": "mdivides", "a": a.stored(), "b": b.stored()}), false, Some(m)),
        }
        let aa = a.clone();
        match guarded(|| (aa.inv(), Mono::is_unit(&aa))) {
            Ok((iv, u)) => self.emit(json!({"op": "minv", "a": a.stored(), "some": iv.is_some(), "unit": u, "v": iv.map(|m| m.stored()).unwrap_or(json!([]))}), true, None),
            Err(m) => self.emit(json!({"op": "minv", "a": a.stored()}), false, Some(m)),
        }
        if let Some(tot) = a.total() { self.emit(json!({"op": "mtotal", "a": a.stored(), "out": tot}), true, None); }
    }
    fn lead_for(&mut self, x: usize) {
        if !X::SP { return; }
        let k = self.rng.gen_range(0..NVN);
        let f = self.regs[x].clone();
        match guarded(|| X::lead_for::<R>(&f, k)) {
            Ok(Some(t)) => self.emit(json!({"op": "lead_for", "x": x, "k": k + 1, "some": true, "t": t}), true, None),
            Ok(None) => self.emit(json!({"op": "lead_for", "x": x, "k": k + 1, "some": false, "t": []}), true, None),
            Err(m) => self.emit(json!({"op": "lead_for", "x": x, "k": k + 1}), false, Some(m)),
        }
    }

    // -------------------------------------------------------------- cancellation scripts (registers 0,1 = f,g; 2,3 scratch)
    fn script(&mut self, k: u32) {
        self.st.cancel_scripts += 1;
        let (f, g) = (self.rng.gen_range(0..2usize), self.rng.gen_range(0..2usize));
        match k {
            0 => { self.neg(2, f); self.bin("add", 3, f, 2); self.bin("add", 2, 2, f); }                         // f + (-f), (-f) + f
            1 => { // g' = g rebuilt; z = g - g' = 0; f * z, z * f, z * z
                self.rebuild(2, g); self.bin("sub", 2, g, 2); self.bin("mul", 3, f, 2); self.bin("mul", 3, 2, f); self.bin("mul", 3, 2, 2); }
            2 => { self.constant(2, R::zero()); self.bin("mul", 3, f, 2); self.bin("mul", 3, 2, f); self.constant(2, R::one()); self.bin("mul", 3, f, 2); self.bin("mul", 3, 2, f); }
            3 => { self.scale(2, f, R::zero()); self.scale(3, f, R::one()); self.scale(2, f, -R::one()); self.bin("add", 2, 2, f); }
            4 => { // x^e * x^-e = 1 (Laurent), f * x^e * x^-e = f
                let e = rand_exps::<X>(&mut self.rng, self.spread);
                let ne: Vec<i64> = e.iter().map(|v| -v).collect();
                let u = unit_coef::<R>(&mut self.rng);
                if X::LAU { self.term(2, &e, R::one()); self.term(3, &ne, R::one()); self.bin("mul", 3, 2, 3); self.bin("mul", 3, f, 2); self.term(2, &ne, R::one()); self.bin("mul", 3, 3, 2); self.bin("sub", 3, 3, f);
                            // u x^e is a unit: inv, the product with its inverse, a negative power
                            self.term(2, &e, u); self.inv(3, 2); self.bin("mul", 3, 3, 2); self.negpow(3, 2, 2); }
                else { self.term(2, &e, R::one()); self.bin("mul", 3, f, 2); self.bin("mul", 2, 2, f); self.bin("sub", 3, 3, 2);
                       self.constant(2, u); self.inv(3, 2); self.bin("mul", 3, 3, 2); self.negpow(3, 2, 2); } }
            5 => { // (f+g)(f-g) - f^2 + g^2 = 0
                self.bin("add", 2, f, g); self.bin("sub", 3, f, g); if self.bin("mul", 2, 2, 3) { self.bin("mul", 3, f, f); self.bin("sub", 2, 2, 3); self.bin("mul", 3, g, g); self.bin("add", 2, 2, 3); } }
            6 => { // characteristic p: f added p times; other rings: f + f - 2f
                let p = R::ring()["p"].as_i64().unwrap_or(0);
                if p > 0 { self.copy(2, f); for _ in 1..p { self.bin("add", 2, 2, f); } self.scale(3, f, mk_coef::<R>(p, 1, 0)); }
                else { self.bin("add", 2, f, f); self.scale(3, f, mk_coef::<R>(2, 1, 0)); self.bin("sub", 2, 2, 3); } }
            7 => { self.neg(2, f); self.sum(3, vec![f, g, 2]); self.sum(2, vec![f, 2]); }
            8 => { // pow against repeated products
                self.pow(2, f, 2); if self.bin("mul", 3, f, f) { self.bin("sub", 2, 2, 3); } self.pow(3, f, 0); self.pow(3, f, 1); }
            _ => { // a term list whose every monomial cancels
                let n = self.rng.gen_range(1..8);
                let mut ts = rand_terms::<X, R>(&mut self.rng, n, self.spread);
                let neg: Vec<(Vec<i64>, R)> = ts.iter().map(|(e, c)| (e.clone(), -c.clone())).collect();
                ts.extend(neg); ts.shuffle(&mut self.rng);
                self.from_terms(2, ts); }
        }
    }

    fn run(&mut self, len: usize) {
        let regs = &self.regs;
        let os: Vec<Value> = (0..NREG).map(|d| obs_poly(regs, d)).collect();
        self.emit(json!({"op": "reset", "ring": Self::ring(), "type": format!("{}<{}>", X::tname(), R::name()), "os": os}), true, None);
        self.load(0); self.load(1);
        let start = self.st.events;
        while self.st.events - start < len {
            let (d, mut x, mut y) = (self.rng.gen_range(0..NREG), self.rng.gen_range(0..NREG), self.rng.gen_range(0..NREG));
            // zero operands are frequent after the cancellation scripts; prefer non-zero ones two times out of three
            for _ in 0..2 { if self.regs[x].is_zero() && self.rng.gen_bool(0.66) { x = self.rng.gen_range(0..NREG); } if self.regs[y].is_zero() && self.rng.gen_bool(0.66) { y = self.rng.gen_range(0..NREG); } }
            if self.regs[0].is_zero() && self.regs[1].is_zero() { self.load(0); }
            match self.rng.gen_range(0..100) {
                0..=7 => self.load(d),
                8..=9 => { let c = rand_coef::<R>(&mut self.rng, true); self.constant(d, c) }
                10 => self.put(json!({"op": "zero", "d": d}), d, guarded(|| P::<X, R>::zero())),
                11 => self.put(json!({"op": "one", "d": d}), d, guarded(|| P::<X, R>::one())),
                12..=13 => { let i = self.rng.gen_range(0..X::len()); self.var(d, i) }
                14..=17 => { let e = rand_exps::<X>(&mut self.rng, self.spread); let c = rand_coef::<R>(&mut self.rng, true); self.term(d, &e, c) }
                18..=27 => { self.bin("add", d, x, y); }
                28..=35 => { self.bin("sub", d, x, y); }
                36..=47 => { self.bin("mul", d, x, y); }
                48..=50 => self.neg(d, x),
                51..=55 => { let c = rand_coef::<R>(&mut self.rng, true); self.scale(d, x, c) }
                56..=57 => { let n = self.rng.gen_range(0..4); self.pow(d, x, n) }
                58..=59 => self.inv(d, x),
                60 => { let n = self.rng.gen_range(1..3); self.negpow(d, x, n) }
                61..=62 => self.sum(d, vec![x, y, x]),
                63 => self.product(d, x, y),
                64..=66 => self.coeff(x),
                67..=71 => if X::SP { self.lead_for(x) } else { self.eval(x) },
                72 => self.look(x),
                73..=76 => self.mono_ops(),
                77 => self.copy(d, x),
                78..=83 => { self.bin("mul", d, x, y); }
                _ => { let k = self.rng.gen_range(0..10); self.script(k) }
            }
            // keep the operands of the next steps small: reload what outgrew the budget
            for r in 0..NREG {
                let s = self.size(r);
                if s.nt > 2 * self.maxterms || s.h.bits() > if is_machine::<R>() { 24 } else { 90 } || s.l.bits() > 10 { self.load(r); }
            }
        }
        self.st.histories += 1;
    }
}

fn mono_abs_deg<X: MonoK>(m: &X) -> i64 {
    // sum of |exponents| read from the stored form (harness-side bound for the i64 evaluation envelope only)
    fn walk(v: &Value) -> i64 { match v { Value::Number(n) => n.as_i64().unwrap_or(0).abs(), Value::Array(a) => a.iter().map(walk).sum(), _ => 0 } }
    if X::SP { m.stored().as_array().map(|a| a.iter().map(|p| p[1].as_i64().unwrap_or(0).abs()).sum()).unwrap_or(0) } else { walk(&m.stored()) }
}


// ------------------------------------------------------------------------------------------ Lc histories

struct LcH<'t, R: Scalar> where for<'a> &'a R: RingOps<R> { regs: Vec<L<R>>, t: &'t mut Tracer, st: &'t mut Stats, rng: StdRng, maxterms: usize }

fn lc_map_fn(kind: &str, g: i64) -> i64 { match kind { "div2" => g.div_euclid(2), "mod3" => g.rem_euclid(3), "const" => 0, "neg" => -g, "abs" => g.abs(), _ => g + 1 } }
fn lc_pred(kind: &str, g: i64) -> bool { match kind { "even" => g.rem_euclid(2) == 0, "pos" => g > 0, "none" => false, "all" => true, _ => g.rem_euclid(3) == 1 } }
fn lc_key(km: &str, a: i64, b: i64) -> i64 { match km { "add" => a + b, "min" => a.min(b), "left" => a, _ => 0 } }

impl<'t, R: Scalar> LcH<'t, R> where for<'a> &'a R: RingOps<R> {
    fn ring() -> Value { json!({"k": "P", "b": R::ring(), "nv": 0, "lau": true, "sp": false, "lc": true, "hp": false}) }
    fn size(&self, x: usize) -> Size { size_of(self.regs[x].iter().map(|(_, c)| c)) }
    fn emit(&mut self, mut e: Value, ok: bool, panic: Option<String>) {
        e["res"] = json!(if ok { "ok" } else { "panic" });
        if let Some(m) = panic { e["panic"] = json!(m); self.st.panics += 1; }
        self.st.events += 1;
        self.t.emit(&e);
    }
    fn put(&mut self, mut e: Value, d: usize, r: Result<L<R>, String>) {
        match r {
            Ok(v) => {
                self.regs[d] = v;
                let regs = &self.regs;
                match guarded(|| obs_lc(regs, d)) {
                    Ok(o) => { if self.regs[d].is_zero() { self.st.zero_results += 1; } self.st.max_terms = self.st.max_terms.max(self.regs[d].nterms()); e["o"] = o; self.emit(e, true, None) }
                    Err(m) => self.emit(e, false, Some(m)),
                }
            }
            Err(m) => self.emit(e, false, Some(m)),
        }
    }
    fn rand_raw(&mut self, n: usize) -> Vec<(i64, R)> {
        let mut ts = vec![];
        while ts.len() < n {
            let g = self.rng.gen_range(-6..=6i64);
            let c = rand_coef::<R>(&mut self.rng, true);
            if self.rng.gen_range(0..6) == 0 { ts.push((g, -c.clone())); }
            ts.push((g, c));
        }
        ts.shuffle(&mut self.rng);
        ts
    }
    fn raw_json(ts: &[(i64, R)]) -> Value { Value::Array(ts.iter().map(|(g, c)| json!([g, c.enc()])).collect()) }
    fn from_terms(&mut self, d: usize, ts: Vec<(i64, R)>) {
        let e = json!({"op": "from_terms", "d": d, "ts": Self::raw_json(&ts)});
        let how = self.rng.gen_range(0..3);
        let r = guarded(|| match how {
            0 => L::<R>::from_iter(ts.iter().map(|(g, c)| (Free(*g), c.clone()))),
            1 => { let mut z = L::<R>::zero(); for (g, c) in ts.iter() { z.add_pair((Free(*g), c.clone())); } z.clean(); z }      // documented: clean after add_pair
            _ => { let mut z = L::<R>::new(); for (g, c) in ts.iter() { z.add_pair_ref((&Free(*g), c)); } z.clean(); z }
        });
        self.put(e, d, r);
    }
    fn load(&mut self, d: usize) {
        let n = match self.rng.gen_range(0..10) { 0 => 0, 1..=5 => self.rng.gen_range(1..=5), _ => self.rng.gen_range(5..=self.maxterms) };
        let ts = self.rand_raw(n);
        self.from_terms(d, ts);
    }
    fn bin(&mut self, op: &str, d: usize, x: usize, y: usize) {
        if !safe_bin::<R>(op, &self.size(x), &self.size(y)) { self.st.skipped += 1; return; }
        let form = self.rng.gen_range(0..6u64);
        let (a, b) = (self.regs[x].clone(), self.regs[y].clone());
        let r = guarded(|| lc_bin(op, form, &a, &b));
        self.put(json!({"op": op, "form": form, "d": d, "x": x, "y": y}), d, r);
    }
    fn neg(&mut self, d: usize, x: usize) {
        let form = self.rng.gen_range(0..2u64);
        let a = self.regs[x].clone();
        self.put(json!({"op": "neg", "form": form, "d": d, "x": x}), d, guarded(|| if form == 0 { -a.clone() } else { -&a }));
    }
    fn scale(&mut self, d: usize, x: usize, c: R) {
        if !safe_bin::<R>("mul", &self.size(x), &size_of([&c].into_iter())) { self.st.skipped += 1; return; }
        let form = self.rng.gen_range(0..7u64);
        let (a, cc) = (self.regs[x].clone(), c.clone());
        self.put(json!({"op": "scale", "form": form, "d": d, "x": x, "c": c.enc()}), d, guarded(|| lc_scale(form, &a, &cc)));
    }
    fn map_gens(&mut self, d: usize, x: usize) {
        let kind = *["div2", "mod3", "const", "neg", "abs", "inc"].choose(&mut self.rng).unwrap();
        let a = self.regs[x].clone();
        let s = self.size(x);
        let tot = Size { h: &s.h * BigInt::from(s.nt.max(1)), l: s.l.clone(), nt: 1 };
        if !safe_bin::<R>("add", &tot, &tot) { self.st.skipped += 1; return; }
        let phi: Vec<Value> = a.gens().map(|g| json!([g.0, lc_map_fn(kind, g.0)])).collect();
        let how = self.rng.gen_range(0..3);
        let r = guarded(|| match how { 0 => a.map_gens(|g| Free(lc_map_fn(kind, g.0))), 1 => a.clone().into_map_gens(|g| Free(lc_map_fn(kind, g.0))),
                                       _ => a.map(|g, c| (Free(lc_map_fn(kind, g.0)), c.clone())) });
        self.put(json!({"op": "map_gens", "d": d, "x": x, "phi": phi, "kind": kind, "how": how}), d, r);
    }
    fn filter_gens(&mut self, d: usize, x: usize) {
        let kind = *["even", "pos", "none", "all", "mod3"].choose(&mut self.rng).unwrap();
        let a = self.regs[x].clone();
        // the predicate, tabulated over the keys of the operand and a fixed range around 0
        let mut keep: Vec<i64> = (-8..=8i64).chain(a.gens().map(|g| g.0)).filter(|&g| lc_pred(kind, g)).collect();
        keep.sort(); keep.dedup();
        let into = self.rng.gen_bool(0.5);
        let r = guarded(|| if into { a.clone().into_filter_gens(|g| lc_pred(kind, g.0)) } else { a.filter_gens(|g| lc_pred(kind, g.0)) });
        self.put(json!({"op": "filter_gens", "d": d, "x": x, "keep": keep, "kind": kind, "into": into}), d, r);
    }
    fn apply(&mut self, d: usize, x: usize) {
        // F(g) = u*<g> + v*<g+1> - u*<g>  (+ w*<0>): images overlap and partly cancel
        let a = self.regs[x].clone();
        let (u, v, w) = (rand_coef::<R>(&mut self.rng, false), rand_coef::<R>(&mut self.rng, true), rand_coef::<R>(&mut self.rng, true));
        let cancel = self.rng.gen_bool(0.5);
        let s = self.size(x);
        let fs = size_of([&u, &v, &w].into_iter());
        let tot = Size { h: &s.h * &fs.h * BigInt::from(4 * s.nt.max(1)), l: &s.l * &fs.l, nt: 1 };
        if !safe_bin::<R>("mul", &tot, &tot) { self.st.skipped += 1; return; }
        let img = |g: i64| -> Vec<(i64, R)> { let mut t = vec![(g, u.clone()), (g + 1, v.clone())]; if cancel { t.push((g, -u.clone())); } t.push((0, w.clone())); t };
        let tab: Vec<Value> = a.gens().map(|g| json!([g.0, Self::raw_json(&img(g.0))])).collect();
        let r = guarded(|| a.apply(|g| L::<R>::from_iter(img(g.0).into_iter().map(|(k, c)| (Free(k), c)))));
        self.put(json!({"op": "apply", "d": d, "x": x, "F": tab}), d, r);
    }
    fn combine(&mut self, d: usize, x: usize, y: usize) {
        let km = *["add", "min", "left", "zero"].choose(&mut self.rng).unwrap();
        let (sa, sb) = (self.size(x), self.size(y));
        let k = Size { h: sa.h.clone(), l: sa.l.clone(), nt: sa.nt.max(sb.nt) * sa.nt.max(sb.nt) };
        if !safe_bin::<R>("mul", &k, &Size { h: sb.h.clone(), l: sb.l.clone(), nt: k.nt }) || sa.nt * sb.nt > 30 * self.maxterms { self.st.skipped += 1; return; }
        let (a, b) = (self.regs[x].clone(), self.regs[y].clone());
        let r = guarded(|| a.combine(&b, |p, q| Free(lc_key(km, p.0, q.0))));
        self.put(json!({"op": "combine", "d": d, "x": x, "y": y, "km": km}), d, r);
    }
    fn sum(&mut self, d: usize, xs: Vec<usize>) {
        let mut acc = Size { h: BigInt::zero(), l: BigInt::one(), nt: 1 };
        for &x in &xs { let s = self.size(x); acc.h = &acc.h + &s.h; acc.l = &acc.l * &s.l; }
        if !safe_bin::<R>("add", &acc, &acc) { self.st.skipped += 1; return; }
        let ps: Vec<L<R>> = xs.iter().map(|&x| self.regs[x].clone()).collect();
        let byref = self.rng.gen_bool(0.5);
        let r = guarded(|| if byref { L::<R>::sum(ps.iter()) } else { L::<R>::sum(ps.clone()) });
        self.put(json!({"op": "sum", "d": d, "xs": xs, "byref": byref}), d, r);
    }
    fn coeff(&mut self, x: usize) {
        let g = self.rng.gen_range(-7..=7i64);
        let a = self.regs[x].clone();
        match guarded(|| a.coeff(&Free(g)).clone()) { Ok(v) => self.emit(json!({"op": "coeff", "x": x, "e": g, "v": v.enc()}), true, None), Err(m) => self.emit(json!({"op": "coeff", "x": x}), false, Some(m)) }
    }
    fn run(&mut self, len: usize) {
        let regs = &self.regs;
        let os: Vec<Value> = (0..NREG).map(|d| obs_lc(regs, d)).collect();
        self.emit(json!({"op": "reset", "ring": Self::ring(), "type": format!("Lc<Free<i64>,{}>", R::name()), "os": os}), true, None);
        self.load(0); self.load(1);
        let start = self.st.events;
        while self.st.events - start < len {
            let (d, x, y) = (self.rng.gen_range(0..NREG), self.rng.gen_range(0..NREG), self.rng.gen_range(0..NREG));
            match self.rng.gen_range(0..100) {
                0..=9 => self.load(d),
                10 => self.put(json!({"op": "zero", "d": d}), d, guarded(|| L::<R>::zero())),
                11..=13 => { let g = self.rng.gen_range(-6..=6i64); let c = rand_coef::<R>(&mut self.rng, true);
                             let r = if c.is_one() { guarded(|| L::<R>::from(Free(g))) } else { let cc = c.clone(); guarded(|| L::<R>::from((Free(g), cc))) };
                             self.put(json!({"op": "term", "d": d, "x": g, "c": c.enc()}), d, r) }
                14..=25 => self.bin("add", d, x, y),
                26..=35 => self.bin("sub", d, x, y),
                36..=39 => self.neg(d, x),
                40..=47 => { let c = rand_coef::<R>(&mut self.rng, true); self.scale(d, x, c) }
                48..=59 => self.map_gens(d, x),
                60..=66 => self.filter_gens(d, x),
                67..=73 => self.apply(d, x),
                74..=83 => self.combine(d, x, y),
                84..=86 => self.sum(d, vec![x, y, x]),
                87..=89 => self.coeff(x),
                90 => { let a = self.regs[x].clone(); self.put(json!({"op": "copy", "d": d, "x": x}), d, Ok(a)) }
                _ => { self.st.cancel_scripts += 1; match self.rng.gen_range(0..4) {
                        0 => { self.neg(2, 0); self.bin("add", 3, 0, 2); }
                        1 => { self.scale(2, 0, R::zero()); self.scale(3, 1, -R::one()); self.bin("add", 3, 3, 1); }
                        2 => { self.neg(2, 1); self.sum(3, vec![0, 1, 2]); self.bin("sub", 3, 3, 0); }
                        _ => { let mut ts = self.rand_raw(5); let ng: Vec<(i64, R)> = ts.iter().map(|(g, c)| (*g, -c.clone())).collect(); ts.extend(ng); ts.shuffle(&mut self.rng); self.from_terms(2, ts); } } }
            }
            for r in 0..NREG {
                let s = self.size(r);
                if s.nt > 2 * self.maxterms || s.h.bits() > if is_machine::<R>() { 24 } else { 90 } || s.l.bits() > 10 { self.load(r); }
            }
        }
        self.st.histories += 1;
    }
}

// ------------------------------------------------------------------------------------------ HPoly histories

type H<R> = HPoly<'x', R>;
fn obs_h<R: Scalar>(regs: &[H<R>], d: usize) -> Value where for<'a> &'a R: RingOps<R> {
    let f = &regs[d];
    json!({"deg": f.deg(), "coeff": f.coeff().enc(), "w": f.coeff().witness(), "is_zero": f.is_zero(), "is_one": f.is_one(),
           "eqs": regs.iter().map(|g| (f == g) && !(f != g) && (g == f)).collect::<Vec<bool>>()})
}
fn h_bin<R: Scalar>(op: &str, form: u64, a: &H<R>, b: &H<R>) -> H<R> where for<'a> &'a R: RingOps<R> {
    match op { "h_add" => bin_forms!(a, b, form, +, +=), "h_sub" => bin_forms!(a, b, form, -, -=), _ => bin_forms!(a, b, form, *, *=) }
}
fn hp_history<R: Scalar>(a: &Args, salt: u64, t: &mut Tracer, st: &mut Stats, len: usize) where for<'x> &'x R: RingOps<R> {
    let mut rng = a.rng(salt);
    let mut regs: Vec<H<R>> = vec![H::<R>::zero(); NREG];
    let emit = |t: &mut Tracer, st: &mut Stats, mut e: Value, ok: bool, m: Option<String>| { e["res"] = json!(if ok { "ok" } else { "panic" }); if let Some(m) = m { e["panic"] = json!(m); st.panics += 1; } st.events += 1; t.emit(&e); };
    let os: Vec<Value> = (0..NREG).map(|d| obs_h(&regs, d)).collect();
    emit(t, st, json!({"op": "h_reset", "ring": {"k": "P", "b": R::ring(), "nv": 0, "lau": false, "sp": false, "lc": false, "hp": true}, "type": format!("HPoly<{}>", R::name()), "os": os}), true, None);
    let start = st.events;
    let mut pending: Vec<Value> = (0..NREG).rev().map(|d| json!({"op": "h_new", "d": d})).collect();
    while st.events - start < len {
        let e = pending.pop().unwrap_or_else(|| {
            let (d, x, y) = (rng.gen_range(0..NREG), rng.gen_range(0..NREG), rng.gen_range(0..NREG));
            match rng.gen_range(0..100) {
                0..=17 => json!({"op": "h_new", "d": d}),
                18..=37 => json!({"op": "h_add", "d": d, "x": x, "y": y}),
                38..=52 => json!({"op": "h_sub", "d": d, "x": x, "y": y}),
                53..=77 => json!({"op": "h_mul", "d": d, "x": x, "y": y}),
                78..=83 => json!({"op": "h_neg", "d": d, "x": x}),
                84..=92 => json!({"op": "h_scale", "d": d, "x": x}),
                _ => json!({"op": "h_inv", "d": d, "x": x}),
            }
        });
        let op = e["op"].as_str().unwrap().to_string();
        let (d, x, y) = (e["d"].as_u64().unwrap_or(0) as usize, e["x"].as_u64().unwrap_or(0) as usize, e["y"].as_u64().unwrap_or(0) as usize);
        let mut e = e;
        let size = |f: &H<R>| size_of([f.coeff()].into_iter());
        let r: Result<Option<H<R>>, String> = match op.as_str() {
            "h_new" => {
                let n = rng.gen_range(0..5usize);
                let c = rand_coef::<R>(&mut rng, true);
                let how = rng.gen_range(0..5);
                let (n, c) = match how { 1 => (0, c), 2 => (1, R::one()), 3 => (0, R::zero()), 4 => (0, R::one()), _ => (n, c) };
                e["n"] = json!(n); e["c"] = c.enc(); e["how"] = json!(how);
                guarded(|| Some(match how { 1 => H::<R>::from_const(c.clone()), 2 => H::<R>::variable(), 3 => H::<R>::zero(), 4 => H::<R>::one(), _ => H::<R>::new(n, c.clone()) }))
            }
            "h_add" | "h_sub" | "h_mul" => {
                let (fa, fb) = (regs[x].clone(), regs[y].clone());
                // sums of homogeneous polynomials are defined when an operand is zero or the degrees agree
                let defined = op == "h_mul" || fa.is_zero() || fb.is_zero() || fa.deg() == fb.deg();
                if !defined || !safe_bin::<R>(if op == "h_mul" { "mul" } else { "add" }, &size(&fa), &size(&fb)) { st.skipped += 1; Ok(None) }
                else { let form = rng.gen_range(0..6u64); e["form"] = json!(form); guarded(|| Some(h_bin(&op, form, &fa, &fb))) }
            }
            "h_neg" => { let fa = regs[x].clone(); let form = rng.gen_range(0..2); guarded(|| Some(if form == 0 { -fa.clone() } else { -&fa })) }
            "h_scale" => {
                let fa = regs[x].clone();
                let c = rand_coef::<R>(&mut rng, true);
                if !safe_bin::<R>("mul", &size(&fa), &size_of([&c].into_iter())) { st.skipped += 1; Ok(None) }
                else { e["c"] = c.enc(); let form = rng.gen_range(0..6u64); guarded(|| Some(bin_forms!(&fa, &c, form, *, *=))) }
            }
            _ => {
                let fa = regs[x].clone();
                match guarded(|| (fa.inv(), fa.is_unit())) {
                    Ok((Some(g), u)) => { e["some"] = json!(u); Ok(Some(g)) }       // `some` is what is_unit says; the spec requires it to be true here
                    Ok((None, u)) => { e["some"] = json!(u); e["o"] = json!({}); emit(t, st, e.clone(), true, None); Ok(None) }
                    Err(m) => Err(m),
                }
            }
        };
        match r {
            Ok(Some(v)) => { regs[d] = v; if regs[d].is_zero() { st.zero_results += 1; }
                             match guarded(|| obs_h(&regs, d)) { Ok(o) => { e["o"] = o; emit(t, st, e, true, None) } Err(m) => emit(t, st, e, false, Some(m)) }
                             if size(&regs[d]).h.bits() > 24 { pending.push(json!({"op": "h_new", "d": d})); } }
            Ok(None) => {}
            Err(m) => emit(t, st, e, false, Some(m)),
        }
    }
    st.histories += 1;
}

// ------------------------------------------------------------------------------------------ record

fn poly_history<X: MonoK, R: Scalar>(a: &Args, salt: u64, t: &mut Tracer, st: &mut Stats, len: usize, maxterms: usize, eval: Option<EvalFn<X, R>>) where for<'x> &'x R: RingOps<R> {
    let rng = a.rng(salt);
    let spread = if X::NV == 0 { 9 } else { 3 };
    let mut h = PolyH::<X, R> { regs: vec![P::<X, R>::zero(); NREG], t, st, rng, maxterms, spread, eval };
    h.run(len);
}
fn lc_history<R: Scalar>(a: &Args, salt: u64, t: &mut Tracer, st: &mut Stats, len: usize, maxterms: usize) where for<'x> &'x R: RingOps<R> {
    let rng = a.rng(salt);
    let mut h = LcH::<R> { regs: vec![L::<R>::zero(); NREG], t, st, rng, maxterms };
    h.run(len);
}

fn ev1<R>(f: &P<V1u, R>, p: &[R]) -> R where R: Scalar, for<'a> &'a R: RingOps<R>, for<'a, 'b> &'a R: Pow<&'b usize, Output = R> { f.eval(&p[0]) }
fn ev2<R>(f: &P<V2u, R>, p: &[R]) -> R where R: Scalar, for<'a> &'a R: RingOps<R>, for<'a, 'b> &'a R: Pow<&'b usize, Output = R> { f.eval(&p[0], &p[1]) }
fn ev3<R>(f: &P<V3u, R>, p: &[R]) -> R where R: Scalar, for<'a> &'a R: RingOps<R>, for<'a, 'b> &'a R: Pow<&'b usize, Output = R> { f.eval(&p[0], &p[1], &p[2]) }

pub fn record(a: &Args) {
    let th = a.thorough();
    // --part k/n: only the histories with index = k mod n (the check validates the parts in parallel)
    let (part, nparts) = a.flag("--part").map(|s| { let v: Vec<u64> = s.split('/').map(|x| x.parse().unwrap()).collect(); (v[0], v[1]) }).unwrap_or((0, 1));
    let mut t = Tracer::create(&a.out);
    let mut st = Stats::default();
    let (nh, len, maxterms) = if th { (8u64, 200usize, 40usize) } else { (1u64, 260usize, 24usize) };
    let mut types: Vec<String> = vec![];
    let mut idx = 0u64;
    macro_rules! poly { ($x:ty, $r:ty, $ev:expr, $quick:expr) => {{
        if th || $quick { for h in 0..nh { if idx % nparts == part { poly_history::<$x, $r>(a, 1000 + idx * 17 + h, &mut t, &mut st, len, maxterms, $ev); if h == 0 { types.push(format!("{}<{}>", <$x>::tname(), <$r as Scalar>::name())); } } idx += 1; } }
    }} }
    macro_rules! lc { ($r:ty) => {{ for h in 0..nh { if idx % nparts == part { lc_history::<$r>(a, 5000 + idx * 17 + h, &mut t, &mut st, len, maxterms); if h == 0 { types.push(format!("Lc<{}>", <$r as Scalar>::name())); } } idx += 1; } }} }
    type Q = Ratio<i64>; type F3 = FF<3>; type F5 = FF<5>; type Gi = GaussInt<i64>;
    poly!(V1u, i64, Some(ev1::<i64>), true); poly!(V1u, BigInt, Some(ev1::<BigInt>), true); poly!(V1u, Q, None, false); poly!(V1u, F3, None, true); poly!(V1u, F5, None, false); poly!(V1u, Gi, None, false);
    poly!(V1i, i64, None, false); poly!(V1i, BigInt, None, false); poly!(V1i, Q, None, true); poly!(V1i, F3, None, false); poly!(V1i, F5, None, false); poly!(V1i, Gi, None, true);
    poly!(V2u, i64, Some(ev2::<i64>), true); poly!(V2u, BigInt, Some(ev2::<BigInt>), true); poly!(V2u, Q, None, false); poly!(V2u, F3, None, false); poly!(V2u, F5, None, true); poly!(V2u, Gi, None, false);
    poly!(V2i, i64, None, true); poly!(V2i, BigInt, None, false); poly!(V2i, Q, None, true); poly!(V2i, F3, None, false); poly!(V2i, F5, None, false); poly!(V2i, Gi, None, false);
    poly!(V3u, i64, Some(ev3::<i64>), true); poly!(V3u, BigInt, Some(ev3::<BigInt>), false); poly!(V3u, Q, None, false); poly!(V3u, F3, None, false); poly!(V3u, F5, None, false); poly!(V3u, Gi, None, true);
    poly!(V3i, i64, None, false); poly!(V3i, BigInt, None, true); poly!(V3i, Q, None, false); poly!(V3i, F3, None, true); poly!(V3i, F5, None, false); poly!(V3i, Gi, None, false);
    poly!(VNu, i64, None, true); poly!(VNu, BigInt, None, false); poly!(VNu, Q, None, true); poly!(VNu, F3, None, false); poly!(VNu, F5, None, true); poly!(VNu, Gi, None, false);
    poly!(VNi, i64, None, false); poly!(VNi, BigInt, None, true); poly!(VNi, Q, None, false); poly!(VNi, F3, None, true); poly!(VNi, F5, None, false); poly!(VNi, Gi, None, true);
    lc!(i64); lc!(Q); lc!(F3); lc!(Gi); if th { lc!(BigInt); lc!(F5); }
    macro_rules! hp { ($r:ty) => {{ for h in 0..nh { if idx % nparts == part { hp_history::<$r>(a, 9000 + idx * 17 + h, &mut t, &mut st, len); if h == 0 { types.push(format!("HPoly<{}>", <$r as Scalar>::name())); } } idx += 1; } }} }
    hp!(i64); hp!(Q); hp!(F3); if th { hp!(Gi); hp!(BigInt); }
    let n = t.finish();
    summary("record", json!({"events": n, "histories": st.histories, "types": types, "panics": st.panics, "ops_skipped_outside_machine_envelope": st.skipped,
        "results_equal_to_zero": st.zero_results, "max_terms_in_a_register": st.max_terms, "max_term_pairs_in_a_product": st.products_terms_max,
        "mul_assign_branches": {"rhs_one": st.mul_branch[0], "rhs_const": st.mul_branch[1], "lhs_const": st.mul_branch[2], "general": st.mul_branch[3]},
        "cancellation_scripts": st.cancel_scripts, "part": format!("{}/{}", part, nparts)}));
}

// ------------------------------------------------------------------------------------------ replay (spec -> impl)

/// dense exponents of the specification -> dense exponents of the type (the multivariate types receive the
/// variables at the indices `emb`)
fn to_exps<X: MonoK>(e: &Value, emb: &[usize]) -> Vec<i64> {
    let dense: Vec<i64> = match e { Value::Array(a) => a.iter().map(|v| v.as_i64().unwrap()).collect(), v => vec![v.as_i64().unwrap()] };
    if X::SP { let mut out = vec![0i64; NVN]; for (i, d) in dense.iter().enumerate() { out[emb[i]] = *d; } out } else { dense }
}
/// the stored form a correct implementation shows for the specification's exponent e
fn want_exp<X: MonoK>(e: &Value, emb: &[usize]) -> Value {
    if !X::SP { return e.clone(); }
    let d = to_exps::<X>(e, emb);
    Value::Array(d.iter().enumerate().filter(|(_, &v)| v != 0).map(|(i, &v)| json!([i, v])).collect())
}
fn sorted(mut v: Vec<Value>) -> Vec<Value> { v.sort_by_key(|x| x.to_string()); v }

fn want_obs<X: MonoK>(o: &Value, emb: &[usize], lc: bool) -> Value {
    let terms = sorted(o["terms"].as_array().unwrap().iter().map(|t| json!([if lc { t[0].clone() } else { want_exp::<X>(&t[0], emb) }, t[1]])).collect());
    if lc { json!({"terms": terms, "nterms": o["nterms"], "is_zero": o["is_zero"], "is_mono": o["is_mono"], "eqs": o["eqs"]}) }
    else { json!({"terms": terms, "nterms": o["nterms"], "is_zero": o["is_zero"], "is_one": o["is_one"], "is_const": o["is_const"], "is_mono": o["is_mono"],
                  "ct": o["ct"], "lead": [want_exp::<X>(&o["lead"][0], emb), o["lead"][1]], "lead_coeff": o["lead"][1], "lead_deg": want_exp::<X>(&o["lead_deg"], emb), "eqs": o["eqs"]}) }
}
fn got_obs(mut o: Value) -> Value {
    let terms = sorted(o["terms"].as_array().unwrap().iter().map(|t| json!([t[0], t[1]])).collect());
    o["terms"] = Value::Array(terms);
    o
}

#[derive(Default)]
struct Replay { cases: usize, executions: usize, bad: Vec<Value>, per_type: std::collections::BTreeMap<String, usize> }

fn replay_poly<X: MonoK, R: Scalar>(ln: &Value, emb: &[usize], rp: &mut Replay) where for<'a> &'a R: RingOps<R> {
    let ev = &ln["ev"];
    let op = ev["op"].as_str().unwrap();
    let tname = format!("{}<{}>", X::tname(), R::name());
    let build = |ts: &Value, style: u32| -> P<X, R> { P::<X, R>::from_iter(ts.as_array().unwrap().iter().map(|t| (X::mk(&to_exps::<X>(&t[0], emb), style), R::decode(&t[1])))) };
    let r = guarded(|| {
        let (a, b) = (build(&ln["pre"][0], 0), build(&ln["pre"][1], 1));
        let c = if ev.get("c").is_some() { Some(R::decode(&ev["c"])) } else { None };
        let n = ev["n"].as_i64().unwrap_or(0);
        let res: Vec<P<X, R>> = match op {
            "add" | "sub" | "mul" => (0..6).map(|f| poly_bin(op, f, &a, &b)).collect(),
            "product" => vec![P::<X, R>::product([a.clone(), b.clone()]), P::<X, R>::product([&a, &b])],
            "sum" => vec![P::<X, R>::sum([a.clone(), b.clone(), a.clone()]), P::<X, R>::sum([&a, &b, &a])],
            "neg" => (0..2).map(|f| poly_neg(f, &a)).collect(),
            "copy" => vec![a.clone()],
            "scale" => (0..7).map(|f| poly_scale(f, &a, c.as_ref().unwrap())).collect(),
            "pow" => (0..6).map(|f| poly_pow(f, &a, n)).collect(),
            "const" => vec![P::<X, R>::from_const(c.clone().unwrap())],
            "from_terms" => (0..4).map(|style| P::<X, R>::from_iter(ev["ts"].as_array().unwrap().iter().map(|t| (X::mk(&to_exps::<X>(&t[0], emb), style), R::decode(&t[1]))))).collect(),
            "inv" => {
                let some = ev["some"].as_bool().unwrap();
                let mut v = vec![];
                match a.inv() { Some(g) => { if !some { panic!("inv returned Some for a non-unit") } v.push(g); } None => if some { panic!("inv returned None for a unit") } }
                if some { v.push(a.pow(-1i32)); v.push(a.pow(-1i64)); v.push(a.pow(-1isize)); }
                if a.is_unit() != some { panic!("is_unit disagrees with the specification") }
                if !some { return vec![]; }
                v }
            o => panic!("op {}", o),
        };
        res.into_iter().map(|v| got_obs(obs_poly(&[v, b.clone()], 0))).collect::<Vec<Value>>()
    });
    if op == "inv" && ev["some"] == json!(false) {
        *rp.per_type.entry(tname.clone()).or_insert(0) += 1; rp.executions += 1;
        if let Err(m) = r { rp.bad.push(json!({"type": tname, "case": ln, "panic": m, "want": "None"})); }
        return;
    }
    let want = want_obs::<X>(&ev["o"], emb, false);
    *rp.per_type.entry(tname.clone()).or_insert(0) += 1;
    match r {
        Ok(gots) => for (f, g) in gots.iter().enumerate() { rp.executions += 1; if *g != want { rp.bad.push(json!({"type": tname, "form": f, "case": ln, "got": g, "want": want})); } },
        Err(m) => { rp.executions += 1; rp.bad.push(json!({"type": tname, "case": ln, "panic": m, "want": want})) }
    }
}

fn replay_lc<R: Scalar>(ln: &Value, rp: &mut Replay) where for<'a> &'a R: RingOps<R> {
    let ev = &ln["ev"];
    let op = ev["op"].as_str().unwrap();
    let tname = format!("Lc<Free<i64>,{}>", R::name());
    let build = |ts: &Value| -> L<R> { L::<R>::from_iter(ts.as_array().unwrap().iter().map(|t| (Free(t[0].as_i64().unwrap()), R::decode(&t[1])))) };
    let r = guarded(|| {
        let (a, b) = (build(&ln["pre"][0]), build(&ln["pre"][1]));
        let c = if ev.get("c").is_some() { Some(R::decode(&ev["c"])) } else { None };
        let res: Vec<L<R>> = match op {
            "add" | "sub" => (0..6).map(|f| lc_bin(op, f, &a, &b)).collect(),
            "sum" => vec![L::<R>::sum([a.clone(), b.clone(), a.clone()]), L::<R>::sum([&a, &b, &a])],
            "neg" => vec![-a.clone(), -&a],
            "copy" => vec![a.clone()],
            "scale" => (0..7).map(|f| lc_scale(f, &a, c.as_ref().unwrap())).collect(),
            "from_terms" => vec![L::<R>::from_iter(ev["ts"].as_array().unwrap().iter().map(|t| (Free(t[0].as_i64().unwrap()), R::decode(&t[1]))))],
            "combine" => { let km = ev["km"].as_str().unwrap(); vec![a.combine(&b, |p, q| Free(lc_key(km, p.0, q.0)))] }
            "map_gens" => { let m = ev["m"].as_i64().unwrap(); vec![a.map_gens(|g| Free(g.0.div_euclid(m))), a.clone().into_map_gens(|g| Free(g.0.div_euclid(m))), a.map(|g, r| (Free(g.0.div_euclid(m)), r.clone()))] }
            "filter_gens" => { let keep: Vec<i64> = ev["keep"].as_array().unwrap().iter().map(|v| v.as_i64().unwrap()).collect();
                               vec![a.filter_gens(|g| keep.contains(&g.0)), a.clone().into_filter_gens(|g| keep.contains(&g.0))] }
            o => panic!("op {}", o),
        };
        res.into_iter().map(|v| got_obs(obs_lc(&[v, b.clone()], 0))).collect::<Vec<Value>>()
    });
    let want = want_obs::<V1i>(&ev["o"], &[], true);
    *rp.per_type.entry(tname.clone()).or_insert(0) += 1;
    match r {
        Ok(gots) => for (f, g) in gots.iter().enumerate() { rp.executions += 1; if *g != want { rp.bad.push(json!({"type": tname, "form": f, "case": ln, "got": g, "want": want})); } },
        Err(m) => { rp.executions += 1; rp.bad.push(json!({"type": tname, "case": ln, "panic": m, "want": want})) }
    }
}

fn replay_is_unit<X: MonoK, R: Scalar>(ln: &Value, emb: &[usize], rp: &mut Replay) where for<'a> &'a R: RingOps<R> {
    let tname = format!("{}<{}>", X::tname(), R::name());
    let r = guarded(|| P::<X, R>::from_iter(ln["pre"][0].as_array().unwrap().iter().map(|t| (X::mk(&to_exps::<X>(&t[0], emb), 1), R::decode(&t[1])))).is_unit());
    rp.executions += 1; *rp.per_type.entry(tname.clone()).or_insert(0) += 1;
    match r { Ok(u) => if json!(u) != ln["ev"]["out"] { rp.bad.push(json!({"type": tname, "case": ln, "got": u, "want": ln["ev"]["out"]})) }, Err(m) => rp.bad.push(json!({"type": tname, "case": ln, "panic": m})) }
}
fn replay_eval<X: MonoK, R: Scalar>(ln: &Value, ef: EvalFn<X, R>, rp: &mut Replay) where for<'a> &'a R: RingOps<R> {
    let tname = format!("{}<{}>", X::tname(), R::name());
    let r = guarded(|| {
        let a = P::<X, R>::from_iter(ln["pre"][0].as_array().unwrap().iter().map(|t| (X::mk(&to_exps::<X>(&t[0], &[]), 0), R::decode(&t[1]))));
        let pt: Vec<R> = ln["ev"]["pt"].as_array().unwrap().iter().map(|v| R::decode(v)).collect();
        ef(&a, &pt).enc()
    });
    rp.executions += 1; *rp.per_type.entry(tname.clone()).or_insert(0) += 1;
    match r { Ok(v) => if v != ln["ev"]["v"] { rp.bad.push(json!({"type": tname, "case": ln, "got": v, "want": ln["ev"]["v"]})) }, Err(m) => rp.bad.push(json!({"type": tname, "case": ln, "panic": m})) }
}
fn replay_eval_z<R>(ln: &Value, rp: &mut Replay) where R: Scalar, for<'a> &'a R: RingOps<R>, for<'a, 'b> &'a R: Pow<&'b usize, Output = R> {
    match ln["ring"]["nv"].as_u64().unwrap() { 0 => replay_eval::<V1u, R>(ln, ev1::<R>, rp), 2 => replay_eval::<V2u, R>(ln, ev2::<R>, rp), _ => replay_eval::<V3u, R>(ln, ev3::<R>, rp) }
}

fn replay_ring<R: Scalar>(ln: &Value, rp: &mut Replay) where for<'a> &'a R: RingOps<R> {
    let ring = &ln["ring"];
    if ln["ev"]["op"] == json!("eval") { return; }          // handled by replay_eval_z (needs the Pow bound of the coefficient type)
    if ln["ev"]["op"] == json!("is_unit") {
        let (nv, lau) = (ring["nv"].as_u64().unwrap(), ring["lau"].as_bool().unwrap());
        match (nv, lau) {
            (0, false) => replay_is_unit::<V1u, R>(ln, &[], rp),
            (0, true) => replay_is_unit::<V1i, R>(ln, &[], rp),
            (2, false) => { replay_is_unit::<V2u, R>(ln, &[], rp); replay_is_unit::<VNu, R>(ln, &[1, 3], rp); }
            (2, true) => { replay_is_unit::<V2i, R>(ln, &[], rp); replay_is_unit::<VNi, R>(ln, &[1, 3], rp); }
            (3, false) => { replay_is_unit::<V3u, R>(ln, &[], rp); replay_is_unit::<VNu, R>(ln, &[0, 2, 3], rp); }
            _ => { replay_is_unit::<V3i, R>(ln, &[], rp); replay_is_unit::<VNi, R>(ln, &[0, 2, 3], rp); }
        }
        return;
    }
    // over a non-Laurent ring the isize types still hold the same polynomials, but 1/x exists there: inv / is_unit are type-specific
    let only_exact = ln["ev"]["op"] == json!("inv");
    let (nv, lau, lc) = (ring["nv"].as_u64().unwrap(), ring["lau"].as_bool().unwrap(), ring["lc"].as_bool().unwrap());
    if lc { return replay_lc::<R>(ln, rp); }
    if only_exact {
        match (nv, lau) {
            (0, false) => replay_poly::<V1u, R>(ln, &[], rp),
            (0, true) => replay_poly::<V1i, R>(ln, &[], rp),
            (2, false) => { replay_poly::<V2u, R>(ln, &[], rp); replay_poly::<VNu, R>(ln, &[1, 3], rp); }
            (2, true) => { replay_poly::<V2i, R>(ln, &[], rp); replay_poly::<VNi, R>(ln, &[1, 3], rp); }
            (3, false) => { replay_poly::<V3u, R>(ln, &[], rp); replay_poly::<VNu, R>(ln, &[0, 2, 3], rp); }
            _ => { replay_poly::<V3i, R>(ln, &[], rp); replay_poly::<VNi, R>(ln, &[0, 2, 3], rp); }
        }
        return;
    }
    match (nv, lau) {
        (0, false) => { replay_poly::<V1u, R>(ln, &[], rp); replay_poly::<V1i, R>(ln, &[], rp); }
        (0, true) => replay_poly::<V1i, R>(ln, &[], rp),
        (2, false) => { replay_poly::<V2u, R>(ln, &[], rp); replay_poly::<V2i, R>(ln, &[], rp); replay_poly::<VNu, R>(ln, &[1, 3], rp); replay_poly::<VNi, R>(ln, &[0, 1], rp); }
        (2, true) => { replay_poly::<V2i, R>(ln, &[], rp); replay_poly::<VNi, R>(ln, &[1, 3], rp); }
        (3, false) => { replay_poly::<V3u, R>(ln, &[], rp); replay_poly::<V3i, R>(ln, &[], rp); replay_poly::<VNu, R>(ln, &[0, 2, 3], rp); replay_poly::<VNi, R>(ln, &[1, 2, 3], rp); }
        (3, true) => { replay_poly::<V3i, R>(ln, &[], rp); replay_poly::<VNi, R>(ln, &[0, 2, 3], rp); }
        _ => panic!("ring {}", ring),
    }
}

pub fn replay(a: &Args) {
    let lines = read_ndjson(a.inp.as_ref().expect("--in"));
    let mut rp = Replay::default();
    if a.extra.iter().any(|x| x == "--mono") { return replay_mono(&lines); }
    for ln in lines.iter() {
        rp.cases += 1;
        let b = &ln["ring"]["b"];
        match (b["k"].as_str().unwrap(), b["p"].as_i64().unwrap_or(0)) {
            ("Z", _) => { if ln["ev"]["op"] == json!("eval") { replay_eval_z::<i64>(ln, &mut rp); replay_eval_z::<BigInt>(ln, &mut rp); }
                          replay_ring::<i64>(ln, &mut rp); replay_ring::<BigInt>(ln, &mut rp); }
            ("Q", _) => replay_ring::<Ratio<i64>>(ln, &mut rp),
            ("F", 3) => replay_ring::<FF<3>>(ln, &mut rp),
            ("F", 5) => replay_ring::<FF<5>>(ln, &mut rp),
            ("G", _) => replay_ring::<GaussInt<i64>>(ln, &mut rp),
            _ => panic!("ring {}", ln["ring"]),
        }
    }
    for b in rp.bad.iter().take(200) { mismatch(b.clone()); }
    summary("replay", json!({"transitions": rp.cases, "executions": rp.executions, "mismatches": rp.bad.len(), "replays_per_type": rp.per_type}));
}

// ------------------------------------------------------------------------------------------ replay of the monomial orders

fn dense(v: &Value) -> Vec<i64> { match v { Value::Array(a) => a.iter().map(|x| x.as_i64().unwrap()).collect(), x => vec![x.as_i64().unwrap()] } }

fn mono_case<X: MonoK>(ln: &Value, emb: &[usize], n: &mut usize, bad: &mut Vec<Value>) {
    let c3 = |o: Ordering| match o { Ordering::Less => -1, Ordering::Equal => 0, Ordering::Greater => 1 };
    let ea = dense(&ln["a"]);
    if !X::LAU && ea.iter().any(|&v| v < 0) { return; }
    let mut style = 0u32;
    let mut fail = |what: &str, row: &Value, got: Value, want: Value| bad.push(json!({"type": X::tname(), "what": what, "a": ln["a"], "row": row, "got": got, "want": want}));
    let r = guarded(|| {
        let a = X::mk(&to_exps::<X>(&ln["a"], emb), 3);
        let mut out: Vec<(String, Value, Value, Value)> = vec![];
        match a.inv() { Some(m) => out.push(("inv".into(), json!(null), m.stored(), if X::LAU { want_exp::<X>(&ln["inv"], emb) } else { want_exp::<X>(&(if X::NV == 0 { json!(0) } else { json!(vec![0; ea.len()]) }), emb) })),
                        None => out.push(("inv".into(), json!(null), json!("None"), if X::LAU || ea.iter().all(|&v| v == 0) { json!("Some") } else { json!("None") })) }
        out.push(("is_unit".into(), json!(null), json!(Mono::is_unit(&a)), json!(X::LAU || ea.iter().all(|&v| v == 0))));
        if let Some(t) = a.total() { out.push(("total_deg".into(), json!(null), json!(t), ln["total"].clone())); }
        for row in ln["rows"].as_array().unwrap() {
            let eb = dense(&row["b"]);
            if !X::LAU && eb.iter().any(|&v| v < 0) { continue; }
            style += 1;
            let b = X::mk(&to_exps::<X>(&row["b"], emb), style);
            out.push(("cmp_lex".into(), row["b"].clone(), json!(c3(a.cmp_lex(&b))), row["lex"].clone()));
            out.push(("cmp_grlex".into(), row["b"].clone(), json!(c3(a.cmp_grlex(&b))), row["grlex"].clone()));
            out.push(("eq".into(), row["b"].clone(), json!(a == b), json!(ea == eb)));
            for m in X::mul_forms(&a, &b) { out.push(("mul".into(), row["b"].clone(), m.stored(), want_exp::<X>(&row["mul"], emb))); }
            out.push(("divides".into(), row["b"].clone(), json!(a.divides(&b)), if X::LAU { json!(true) } else { row["divides"].clone() }));
            if X::LAU || ea.iter().zip(eb.iter()).all(|(p, q)| p >= q) { for m in X::div_forms(&a, &b) { out.push(("div".into(), row["b"].clone(), m.stored(), want_exp::<X>(&row["div"], emb))); } }
        }
        out
    });
    match r {
        Ok(out) => for (what, row, got, want) in out { *n += 1; if got != want { fail(&what, &row, got, want); } },
        Err(m) => { *n += 1; fail("panic", &json!(null), json!(m), json!("no panic")); }
    }
}

fn replay_mono(lines: &[Value]) {
    let (mut n, mut bad) = (0usize, vec![]);
    for ln in lines {
        match ln["nv"].as_u64().unwrap() {
            0 => { mono_case::<V1u>(ln, &[], &mut n, &mut bad); mono_case::<V1i>(ln, &[], &mut n, &mut bad); }
            2 => { mono_case::<V2u>(ln, &[], &mut n, &mut bad); mono_case::<V2i>(ln, &[], &mut n, &mut bad); mono_case::<VNu>(ln, &[1, 3], &mut n, &mut bad); mono_case::<VNi>(ln, &[0, 2], &mut n, &mut bad); }
            _ => { mono_case::<V3u>(ln, &[], &mut n, &mut bad); mono_case::<V3i>(ln, &[], &mut n, &mut bad); mono_case::<VNu>(ln, &[0, 2, 3], &mut n, &mut bad); mono_case::<VNi>(ln, &[1, 2, 3], &mut n, &mut bad); }
        }
    }
    for b in bad.iter().take(200) { mismatch(b.clone()); }
    let pairs: usize = lines.iter().map(|l| l["rows"].as_array().unwrap().len()).sum();
    summary("replay", json!({"monomial_pairs": pairs, "executions": n, "mismatches": bad.len()}));
}
