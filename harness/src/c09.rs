//! C09 — Smith normal form vs spec/sys/SNF.tla.
use crate::menc::*;
use crate::util::*;
use num_bigint::BigInt;
use rand::rngs::StdRng;
use rand::Rng;
use serde_json::json;
use yui::poly::Poly;
use yui::{EisenInt, EucRing, EucRingOps, GaussInt, Ratio, RingOps, FF};
use yui_matrix::dense::snf::snf;
use yui_matrix::dense::Mat;
use yui_matrix::MatTrait;

#[derive(Default)]
pub struct Stats { pub events: usize, pub cases: usize, pub panics: usize, pub timeouts: usize, pub outside: usize, pub maxdigits: usize, pub zero_dim: usize, pub rank_deficient: usize }

fn dense_of<R: Ent>(d: &[Vec<R>], m: usize, n: usize) -> Mat<R> where for<'x> &'x R: RingOps<R> { Mat::from_data((m, n), d.iter().flatten().cloned()) }
fn mul<R: Ent>(a: &Mat<R>, b: &Mat<R>) -> Mat<R> where for<'x> &'x R: RingOps<R> { a * b }

/// random unimodular matrix: product of a few elementary operations
fn unimodular<R: Ent>(rng: &mut StdRng, n: usize, steps: usize, mag: i64) -> Mat<R> where for<'x> &'x R: RingOps<R> {
    let mut u = Mat::<R>::id(n);
    if n < 2 { if n == 1 && rng.gen_bool(0.5) { let x = R::rnd_unit(rng); u.mul_row(0, &x); } return u; }
    for _ in 0..steps { let (i, j) = (rng.gen_range(0..n), rng.gen_range(0..n)); if i == j { let x = R::rnd_unit(rng); u.mul_row(i, &x); continue; }
        match rng.gen_range(0..3) { 0 => u.swap_rows(i, j), _ => { let x = R::rnd(rng, mag); u.add_row_to(i, j, &x); } } }
    u
}

pub trait BigEnt: Ent where for<'x> &'x Self: RingOps<Self> { fn big(_rng: &mut StdRng, _digits: usize) -> Option<Self> { None } }
fn big_int(rng: &mut StdRng, digits: usize) -> BigInt { let s: String = (0..digits).map(|i| char::from(b'0' + if i == 0 { rng.gen_range(1..10) } else { rng.gen_range(0..10) })).collect(); let v: BigInt = s.parse().unwrap(); if rng.gen_bool(0.5) { -v } else { v } }
impl BigEnt for i64 {} impl BigEnt for Ratio<i64> {} impl<const P: i32> BigEnt for FF<P> {} impl BigEnt for GaussInt<i64> {} impl BigEnt for EisenInt<i64> {}
impl BigEnt for Poly<'x', FF<3>> {} impl BigEnt for Poly<'x', Ratio<i64>> {} impl BigEnt for Poly<'x', FF<5>> {}
impl BigEnt for BigInt { fn big(rng: &mut StdRng, d: usize) -> Option<Self> { Some(big_int(rng, d)) } }
impl BigEnt for GaussInt<BigInt> { fn big(rng: &mut StdRng, d: usize) -> Option<Self> { Some(GaussInt::new(big_int(rng, d), big_int(rng, d / 2 + 1))) } }
impl BigEnt for EisenInt<BigInt> { fn big(rng: &mut StdRng, d: usize) -> Option<Self> { Some(EisenInt::new(big_int(rng, d), big_int(rng, d / 2 + 1))) } }

fn digits<R: Ent>(a: &Mat<R>) -> usize where for<'x> &'x R: RingOps<R> { a.iter().map(|(_, _, x)| x.to_string().len()).max().unwrap_or(0) }

fn case<R: BigEnt + EucRing>(rng: &mut StdRng, t: &mut Tracer, st: &mut Stats, cid: usize, maxd: usize, bigdigits: usize, machine: bool) where for<'x> &'x R: EucRingOps<R> {
    st.cases += 1;
    let (m, n) = (rng.gen_range(0..=maxd), rng.gen_range(0..=maxd));
    if m == 0 || n == 0 { st.zero_dim += 1; }
    let k = m.min(n);
    let kind = rng.gen_range(0..6);
    let a: Mat<R> = match kind {
        0 => { let dens = [0.3, 0.7, 1.0][rng.gen_range(0..3)]; dense_of(&rand_dense::<R>(rng, m, n, dens, 4), m, n) }
        1 => Mat::zero((m, n)),
        _ => { // planted invariant factors (coprime pairs, repeated, zero = rank deficient), U diag V
            let r = if k == 0 { 0 } else { rng.gen_range(0..=k) }; if r < k { st.rank_deficient += 1; }
            let big = kind == 5 && bigdigits > 0;
            let mut d = vec![vec![<R as num_traits::Zero>::zero(); n]; m];
            // ring elements that are not rational integers (non-real Gaussian / Eisenstein numbers, polynomials) are planted half of the time
            for i in 0..r { d[i][i] = if big { R::big(rng, bigdigits).unwrap_or_else(|| R::of_int([2, 3, 4, 6, 9, 5][rng.gen_range(0..6)])) } else { let x = [1, 2, 3, 4, 6, 9, 5, -2, 12][rng.gen_range(0..9)]; let y = R::rnd(rng, 5); if rng.gen_bool(0.5) && !num_traits::Zero::is_zero(&y) { y } else { R::of_int(x) } }; }
            { use rand::seq::SliceRandom; let mut idx: Vec<usize> = (0..k).collect(); idx.shuffle(rng); let dd = d.clone(); for (a0, b0) in idx.iter().enumerate() { if a0 < k && *b0 < k { d[a0][a0] = dd[*b0][*b0].clone(); } } }
            // a third of the planted cases stay diagonal (only the diagonal fix-up and the unit normalisation run)
            let steps = if rng.gen_range(0..3) == 0 { 0 } else if big { 2 } else { 4 };
            let (u, v) = (unimodular::<R>(rng, m, steps, 2), unimodular::<R>(rng, n, steps, 2));
            mul(&mul(&u, &dense_of(&d, m, n)), &v) }
    };
    run_matrix::<R>(rng, t, st, cid, &a, machine);
}

fn run_matrix<R: BigEnt + EucRing>(rng: &mut StdRng, t: &mut Tracer, st: &mut Stats, cid: usize, a: &Mat<R>, machine: bool) where for<'x> &'x R: EucRingOps<R> {
    let (m, n) = a.shape();
    let a = a.clone();
    st.maxdigits = st.maxdigits.max(digits(&a));
    t.emit(&json!({"op":"newcase","res":"ok","ring":R::ring(),"case":cid})); st.events += 1;
    let subsets: Vec<[bool; 4]> = { let mut v = vec![[true; 4], [false; 4]]; for _ in 0..3 { v.push([rng.gen(), rng.gen(), rng.gen(), rng.gen()]); } v.push([false, true, false, true]); v.push([true, false, true, false]); v };
    let small_int = R::ring()["k"] == "I" && m.max(n) <= 4 && m.min(n) <= 3;
    for has in subsets {
        let a2 = a.clone();
        let out = with_deadline(30, move || { let r = snf(&a2, has); let (d, tr) = r.destruct(); (d, tr) });
        let mut e = json!({"op":"snf","ring":R::ring(),"type":R::tname(),"a":mat_json(&a),"has":has,"id":"snf","minors":small_int,"case":cid});
        match out {
            None => { e["res"] = json!("timeout"); st.timeouts += 1; }
            Some(Err(msg)) if machine && msg.contains("overflow") => { st.outside += 1; continue; }
            Some(Err(msg)) => { e["res"] = json!("panic"); e["panic"] = json!(msg); st.panics += 1; }
            Some(Ok((d, tr))) => {
                e["res"] = json!("ok"); e["d"] = mat_json(&d);
                let z = json!({"m":0,"n":0,"a":[]});
                let names = ["p", "pinv", "q", "qinv"];
                let mut consistent = true;
                for (x, nm) in names.iter().enumerate() { match &tr[x] { Some(mx) => { e[*nm] = mat_json(mx); if !has[x] { consistent = false; } } None => { e[*nm] = z.clone(); if has[x] { consistent = false; } } } }
                if !consistent { e["res"] = json!("transform-flags-not-honoured"); }
                // cofactors of the divisibility chain, computed with the library's own division and re-multiplied by TLC
                let kk = m.min(n); let mut ch = vec![];
                for i in 0..kk.saturating_sub(1) { let (x, y) = (&d[(i, i)], &d[(i + 1, i + 1)]); ch.push(if num_traits::Zero::is_zero(x) || num_traits::Zero::is_zero(y) { R::of_int(0).ent() } else { match guarded(|| y / x) { Ok(q) => q.ent(), Err(_) => R::of_int(0).ent() } }); }
                e["ch"] = json!(ch);
            }
        }
        t.emit(&e); st.events += 1;
    }
}

/// The complete family of 2x2 diagonal matrices diag(x, y) with x, y of coordinates 0..=c (first quadrant / sector): coprime non-real
/// pairs make the diagonal fix-up produce products that must be re-normalised by a non-real unit.
fn diag_family<R: BigEnt + EucRing>(a: &Args, salt: u64, t: &mut Tracer, st: &mut Stats, cid: &mut usize, mk: &dyn Fn(i64, i64) -> R, c: i64, picks: usize) where for<'x> &'x R: EucRingOps<R> {
    let mut rng = a.rng(salt);
    let mut all = vec![];
    for a0 in 0..=c { for b0 in 0..=c { for a1 in 0..=c { for b1 in 0..=c { if (a0, b0) != (0, 0) && (a1, b1) != (0, 0) { all.push((a0, b0, a1, b1)); } } } } }
    { use rand::seq::SliceRandom; all.shuffle(&mut rng); }
    for (a0, b0, a1, b1) in all.into_iter().take(picks) {
        *cid += 1; st.cases += 1;
        let m = Mat::from_data((2, 2), [mk(a0, b0), R::of_int(0), R::of_int(0), mk(a1, b1)]);
        run_matrix::<R>(&mut rng, t, st, *cid, &m, true);
    }
}

pub fn record(a: &Args) {
    let mut t = Tracer::create(&a.out);
    let mut st = Stats::default();
    let (nc, maxd, big) = if a.thorough() { (60, 6, 300) } else { (10, 4, 100) };
    let mut cid = 0;
    macro_rules! run { ($t:ty, $salt:expr, $maxd:expr, $big:expr, $machine:expr) => {{ let mut rng = a.rng($salt); for _ in 0..nc { cid += 1; case::<$t>(&mut rng, &mut t, &mut st, cid, $maxd, $big, $machine); } }} }
    run!(i64, 1, maxd, 0, true); run!(BigInt, 2, maxd.min(4), big, false); run!(Ratio<i64>, 3, maxd.min(4), 0, true); run!(FF<3>, 4, maxd, 0, false); run!(FF<5>, 5, maxd, 0, false);
    run!(GaussInt<i64>, 6, maxd.min(4), 0, true); run!(GaussInt<BigInt>, 7, 3, big / 2, false); run!(EisenInt<i64>, 8, maxd.min(4), 0, true); run!(EisenInt<BigInt>, 9, 3, big / 2, false);
    run!(Poly<'x', FF<3>>, 10, 3, 0, false); run!(Poly<'x', Ratio<i64>>, 11, 3, 0, true);
    // spec -> impl: TLC-enumerated small integer matrices, over Z (with the gcd-of-minors definition), Z[i] and F3
    if let Some(pth) = &a.inp {
        let mut rng = a.rng(31);
        for ln in read_ndjson(pth) {
            let (m, n) = (ln["m"].as_u64().unwrap() as usize, ln["n"].as_u64().unwrap() as usize);
            let vals: Vec<i64> = ln["a"].as_array().unwrap().iter().flat_map(|r| r.as_array().unwrap().iter().map(|x| x.as_i64().unwrap())).collect();
            cid += 1; st.cases += 1; run_matrix::<i64>(&mut rng, &mut t, &mut st, cid, &Mat::from_data((m, n), vals.iter().cloned()), true);
            if cid % 5 == 0 { cid += 1; st.cases += 1; run_matrix::<GaussInt<i64>>(&mut rng, &mut t, &mut st, cid, &Mat::from_data((m, n), vals.iter().map(|x| <GaussInt<i64> as Ent>::of_int(*x))), true); }
            if cid % 7 == 0 { cid += 1; st.cases += 1; run_matrix::<FF<3>>(&mut rng, &mut t, &mut st, cid, &Mat::from_data((m, n), vals.iter().map(|x| <FF<3> as Ent>::of_int(*x))), false); }
        }
    }
    let picks = if a.thorough() { 3000 } else { 40 };
    diag_family::<GaussInt<i64>>(a, 21, &mut t, &mut st, &mut cid, &|x, y| GaussInt::new(x, y), 4, picks);
    diag_family::<EisenInt<i64>>(a, 22, &mut t, &mut st, &mut cid, &|x, y| EisenInt::new(x, y), 4, picks);
    // small dense matrices over Z[i] and Z[w] with every entry drawn from the box -2..2 (both coordinates): pivots and the entries
    // they meet are associates / proper divisors of each other up to non-real units, where the 2x2 elimination steps depend on the
    // normalisation of the gcd they are handed; and monomial columns / rows over Q[x], F5[x] (c x^e: proper divisors with unit cofactors)
    {
        let mut rng = a.rng(24);
        let picks = if a.thorough() { 2500 } else { 260 };
        for k in 0..picks {
            let (m, n) = [(3, 2), (2, 3), (3, 1), (1, 3), (2, 2), (3, 3)][k % 6];
            cid += 1; st.cases += 1;
            let mut c = || -> (i64, i64) { (rng.gen_range(-2..=2), rng.gen_range(-2..=2)) };
            if k % 2 == 0 { let d: Vec<GaussInt<i64>> = (0..m * n).map(|_| { let (x, y) = c(); GaussInt::new(x, y) }).collect();
                let mut r2 = a.rng(2400 + k as u64); run_matrix::<GaussInt<i64>>(&mut r2, &mut t, &mut st, cid, &Mat::from_data((m, n), d), true); }
            else { let d: Vec<EisenInt<i64>> = (0..m * n).map(|_| { let (x, y) = c(); EisenInt::new(x, y) }).collect();
                let mut r2 = a.rng(2400 + k as u64); run_matrix::<EisenInt<i64>>(&mut r2, &mut t, &mut st, cid, &Mat::from_data((m, n), d), true); }
        }
        let mpicks = if a.thorough() { 600 } else { 90 };
        for k in 0..mpicks {
            let (m, n) = [(3, 1), (1, 3), (2, 2), (3, 2)][k % 4];
            cid += 1; st.cases += 1;
            let mut mono = || -> (usize, i64) { (rng.gen_range(0..3usize), [1, 2, 4, -1, 3, 0, -2][rng.gen_range(0..7)]) };
            if k % 2 == 0 { let d: Vec<Poly<'x', Ratio<i64>>> = (0..m * n).map(|_| { let (e, c) = mono(); Poly::from_iter([(yui::poly::Var::from(e), Ratio::from(c))]) }).collect();
                let mut r2 = a.rng(2500 + k as u64); run_matrix::<Poly<'x', Ratio<i64>>>(&mut r2, &mut t, &mut st, cid, &Mat::from_data((m, n), d), true); }
            else { let d: Vec<Poly<'x', FF<5>>> = (0..m * n).map(|_| { let (e, c) = mono(); Poly::from_iter([(yui::poly::Var::from(e), FF::<5>::new(c as i32))]) }).collect();
                let mut r2 = a.rng(2500 + k as u64); run_matrix::<Poly<'x', FF<5>>>(&mut r2, &mut t, &mut st, cid, &Mat::from_data((m, n), d), false); }
        }
    }
    // diagonal (and permuted-diagonal) integer matrices with three or four small composite entries: the diagonal fix-up has to
    // merge several mutually non-dividing neighbours in one sweep; rectangular by a zero row / column half of the time
    {
        let mut rng = a.rng(23);
        let pl: [i64; 8] = [2, 3, 4, 5, 6, 9, 10, 12];
        let mut all = vec![];
        for x in pl { for y in pl { for z in pl { all.push(vec![x, y, z]); } } }
        for x in pl { for y in pl { all.push(vec![x, y, 4, 9]); all.push(vec![6, x, y, 10]); } }
        { use rand::seq::SliceRandom; all.shuffle(&mut rng); }
        let picks = if a.thorough() { all.len() } else { 70 };
        for (k, d) in all.into_iter().take(picks).enumerate() {
            cid += 1; st.cases += 1;
            let r = d.len();
            let (m, n) = match k % 4 { 0 => (r, r), 1 => (r + 1, r), 2 => (r, r + 1), _ => (r, r) };
            let (pr, pc) = if k % 3 == 0 { ((0..m).collect::<Vec<_>>(), (0..n).collect::<Vec<_>>()) } else { (rand_perm(&mut rng, m), rand_perm(&mut rng, n)) };
            let mut data = vec![0i64; m * n];
            for i in 0..r { data[pr[i] * n + pc[i]] = if (k + i) % 5 == 0 { -d[i] } else { d[i] }; }
            if k % 2 == 0 { run_matrix::<i64>(&mut rng, &mut t, &mut st, cid, &Mat::from_data((m, n), data.iter().cloned()), true); }
            else { run_matrix::<BigInt>(&mut rng, &mut t, &mut st, cid, &Mat::from_data((m, n), data.iter().map(|x| BigInt::from(*x))), false); }
        }
    }
    let n = t.finish();
    summary("record", json!({"events": n, "cases": st.cases, "panics": st.panics, "timeouts": st.timeouts, "machine_overflows_outside_envelope": st.outside, "max_entry_digits": st.maxdigits,
        "zero_dimensional_cases": st.zero_dim, "rank_deficient_cases": st.rank_deficient, "types": ["i64","BigInt","Ratio<i64>","FF<3>","FF<5>","GaussInt<i64>","GaussInt<BigInt>","EisenInt<i64>","EisenInt<BigInt>","Poly<x,FF<3>>","Poly<x,Ratio<i64>>"]}));
    std::process::exit(0);
}
