//! C07 — homology of a chain complex over a Euclidean domain vs spec/sys/HomCalc.tla.
use crate::menc::*;
use crate::util::*;
use num_bigint::BigInt;
use rand::rngs::StdRng;
use rand::Rng;
use serde_json::{json, Value};
use yui::poly::Poly;
use yui::{EisenInt, EucRing, EucRingOps, GaussInt, Ratio, RingOps, FF};
use yui_homology::utils::HomologyCalc;
use yui_homology::{GenericChainComplex, SummandTrait};
use yui_matrix::dense::Mat;
use yui_matrix::sparse::SpMat;
use yui_matrix::MatTrait;

#[derive(Default)]
pub struct Stats { pub events: usize, pub cases: usize, pub panics: usize, pub outside: usize, pub with_torsion: usize, pub zero_dim: usize, pub multi_torsion: usize }

fn dense_of<R: Ent>(d: &[Vec<R>], m: usize, n: usize) -> Mat<R> where for<'x> &'x R: RingOps<R> { Mat::from_data((m, n), d.iter().flatten().cloned()) }

/// random invertible matrix with its inverse (product of elementary operations)
fn unimodular_pair<R: Ent>(rng: &mut StdRng, n: usize, steps: usize) -> (Mat<R>, Mat<R>) where for<'x> &'x R: RingOps<R> {
    let (mut u, mut ui) = (Mat::<R>::id(n), Mat::<R>::id(n));
    if n < 2 { return (u, ui); }
    for _ in 0..steps { let (i, j) = (rng.gen_range(0..n), rng.gen_range(0..n)); if i == j { continue; }
        if rng.gen_range(0..3) == 0 { u.swap_rows(i, j); ui.swap_cols(i, j); } else { let x = R::rnd(rng, 2); u.add_row_to(i, j, &x); let nx = -x; ui.add_col_to(j, i, &nx); } }
    (u, ui)
}

/// d1 (n x a), d2 (b x n) with d2 d1 = 0, planted ranks and torsion
fn planted<R: Ent>(rng: &mut StdRng, maxd: usize, tors_pool: &[i64], st: &mut Stats) -> (usize, Mat<R>, Mat<R>) where for<'x> &'x R: RingOps<R> {
    let lo = if rng.gen_range(0..4) == 0 { 0 } else { 2.min(maxd) }; let n = rng.gen_range(lo..=maxd); let a = rng.gen_range(lo..=maxd); let b = rng.gen_range(0..=maxd);
    if n == 0 || a == 0 || b == 0 { st.zero_dim += 1; }
    let r1 = rng.gen_range(0..=n.min(a)); let r2 = rng.gen_range(0..=(n - r1).min(b));
    let mut s1 = vec![vec![<R as num_traits::Zero>::zero(); a]; n];
    let mut planted_t = 0;
    for i in 0..r1 { let x = if tors_pool.is_empty() || rng.gen_bool(0.3) { R::rnd_unit(rng) } else { planted_t += 1; R::of_int(tors_pool[rng.gen_range(0..tors_pool.len())]) }; s1[i][i] = x; }
    if planted_t > 0 { st.with_torsion += 1; } if planted_t > 1 { st.multi_torsion += 1; }
    let mut s2 = vec![vec![<R as num_traits::Zero>::zero(); n]; b];
    for i in 0..r2 { s2[i][r1 + i] = if rng.gen_bool(0.5) { R::rnd_unit(rng) } else { let x = R::rnd(rng, 3); if num_traits::Zero::is_zero(&x) { R::rnd_unit(rng) } else { x } }; }
    let steps = if rng.gen_range(0..4) == 0 { 0 } else { 3 };
    let (u, ui) = unimodular_pair::<R>(rng, n, steps);
    let (v1, _) = unimodular_pair::<R>(rng, a, steps); let (w, _) = unimodular_pair::<R>(rng, b, steps);
    let d1 = &(&u * &dense_of(&s1, n, a)) * &v1;
    let d2 = &(&w * &dense_of(&s2, b, n)) * &ui;
    (n, d1, d2)
}

fn emit_hom<R: Ent + EucRing>(t: &mut Tracer, st: &mut Stats, n: usize, d1: &SpMat<R>, d2: &SpMat<R>, rank: usize, tors: &[R], tr: Option<(SpMat<R>, SpMat<R>)>, src: &str) where for<'x> &'x R: EucRingOps<R> {
    let z = json!({"m":0,"n":0,"a":[]});
    let mut e = json!({"op":"hom","res":"ok","ring":R::ring(),"type":R::tname(),"n":n,"d1":sp_json(d1),"d2":sp_json(d2),"rank":rank,"tors":tors.iter().map(|x| x.ent()).collect::<Vec<_>>(),"src":src});
    match tr {
        None => { e["withtr"] = json!(false); e["p"] = z.clone(); e["q"] = z; e["wit"] = json!([]); }
        Some((p, q)) => {
            e["withtr"] = json!(true); e["p"] = sp_json(&p); e["q"] = sp_json(&q);
            // witnesses for "boundary coordinates vanish modulo the torsion orders": (P d1)[r+k] / tors[k] by the library's own division
            let b = sp_dense(&(&p * d1)); let mut wit: Vec<Vec<Value>> = vec![];
            for (k, tk) in tors.iter().enumerate() { let row = b.get(rank + k).cloned().unwrap_or_default(); wit.push(row.iter().map(|x| guarded(|| x / tk).map(|q| q.ent()).unwrap_or(R::of_int(0).ent())).collect()); }
            e["wit"] = json!(wit);
        }
    }
    t.emit(&e); st.events += 1;
}

/// both routes on one given pair
fn run_pair<R: Ent + EucRing>(t: &mut Tracer, st: &mut Stats, n: usize, s1: &SpMat<R>, s2: &SpMat<R>, machine: bool) where for<'x> &'x R: EucRingOps<R> {
    for with in [true, false] {
        let (x1, x2) = (s1.clone(), s2.clone());
        match guarded(|| HomologyCalc::calculate(x1, x2, with)) {
            Ok((rank, tors, tr)) => { let tr = tr.map(|t| (t.forward_mat(), t.backward_mat())); emit_hom(t, st, n, s1, s2, rank, &tors, tr, "HomologyCalc"); }
            Err(m) if machine && m.contains("overflow") => { st.outside += 1; }
            Err(m) => { t.emit(&json!({"op":"hom","res":"panic","panic":m,"ring":R::ring(),"type":R::tname(),"d1":sp_json(s1),"d2":sp_json(s2)})); st.events += 1; st.panics += 1; }
        }
    }
}

fn case<R: Ent + EucRing>(rng: &mut StdRng, t: &mut Tracer, st: &mut Stats, maxd: usize, tors_pool: &[i64], machine: bool) where for<'x> &'x R: EucRingOps<R> {
    st.cases += 1;
    let (n, d1, d2) = planted::<R>(rng, maxd, tors_pool, st);
    let (s1, s2) = (d1.clone().into_sparse(), d2.clone().into_sparse());
    // route 1: HomologyCalc::calculate, with and without the coordinate maps
    for with in [true, false] {
        let (x1, x2) = (s1.clone(), s2.clone());
        match guarded(|| HomologyCalc::calculate(x1, x2, with)) {
            Ok((rank, tors, tr)) => { let tr = tr.map(|t| (t.forward_mat(), t.backward_mat())); if tr.is_some() != with { t.emit(&json!({"op":"hom","res":"trans-flag-not-honoured","ring":R::ring()})); st.events += 1; } else { emit_hom(t, st, n, &s1, &s2, rank, &tors, tr, "HomologyCalc"); } }
            Err(m) if machine && m.contains("overflow") => { st.outside += 1; }
            Err(m) => { t.emit(&json!({"op":"hom","res":"panic","panic":m,"ring":R::ring(),"type":R::tname(),"d1":sp_json(&s1),"d2":sp_json(&s2)})); st.events += 1; st.panics += 1; }
        }
    }
    // route 2: a three-term complex 0 <- C3 <- C2 <- C1 <- 0 built with GenericChainComplex (cohomological degrees 0,1,2), homology() per degree
    let (m1, m2) = (s1.clone(), s2.clone());
    let (a, b) = (s1.ncols(), s2.nrows());
    let res = guarded(move || {
        let c = GenericChainComplex::<R>::generate(0..=2, 1, |i| match i { 0 => m1.clone(), 1 => m2.clone(), _ => SpMat::zero((0, b)) });
        let h = c.homology();
        let mid = &h[1];
        (mid.rank(), mid.tors().to_vec(), mid.trans().forward_mat(), mid.trans().backward_mat(), h[0].rank(), h[2].rank(), h[0].tors().len())
    });
    match res {
        Ok((rank, tors, p, q, _r0, _r2, _t0)) => emit_hom(t, st, n, &s1, &s2, rank, &tors, Some((p, q)), "GenericChainComplex::homology"),
        Err(m) if machine && m.contains("overflow") => { st.outside += 1; }
        Err(m) => { t.emit(&json!({"op":"hom","res":"panic","panic":m,"ring":R::ring(),"type":R::tname(),"src":"complex","a":a})); st.events += 1; st.panics += 1; }
    }
    // route 3: the same complex through compute_homology_at / compute_homology without coordinate maps (rank and torsion only)
    let (m1, m2) = (s1.clone(), s2.clone());
    let res = guarded(move || {
        use yui_homology::ComputeHomology;
        let c = GenericChainComplex::<R>::generate(0..=2, 1, |i| match i { 0 => m1.clone(), 1 => m2.clone(), _ => SpMat::zero((0, b)) });
        let mid = c.compute_homology_at(1, false);
        let all = c.compute_homology(false);
        (mid.rank(), mid.tors().to_vec(), all[1].rank(), all[1].tors().to_vec())
    });
    match res {
        Ok((rank, tors, rank2, tors2)) => { emit_hom(t, st, n, &s1, &s2, rank, &tors, None, "compute_homology_at(.., false)"); emit_hom(t, st, n, &s1, &s2, rank2, &tors2, None, "compute_homology(false)"); }
        Err(m) if machine && m.contains("overflow") => { st.outside += 1; }
        Err(m) => { t.emit(&json!({"op":"hom","res":"panic","panic":m,"ring":R::ring(),"type":R::tname(),"src":"complex-without-trans","a":a})); st.events += 1; st.panics += 1; }
    }
}

pub fn record(a: &Args) {
    let mut t = Tracer::create(&a.out);
    let mut st = Stats::default();
    let (nc, maxd) = if a.thorough() { (800, 7) } else { (24, 5) };
    macro_rules! run { ($t:ty, $salt:expr, $maxd:expr, $pool:expr, $machine:expr) => {{ let mut rng = a.rng($salt); for _ in 0..nc { case::<$t>(&mut rng, &mut t, &mut st, $maxd, $pool, $machine); } }} }
    // spec -> impl: TLC-enumerated pairs with d2 d1 = 0, over Z, F3 and Z[i]
    if let Some(pth) = &a.inp {
        for (k, ln) in read_ndjson(pth).iter().enumerate() {
            let g = |v: &Value| -> Vec<Vec<i64>> { v.as_array().unwrap().iter().map(|r| r.as_array().unwrap().iter().map(|x| x.as_i64().unwrap()).collect()).collect() };
            let (a1, a2) = (g(&ln["d1"]), g(&ln["d2"]));
            st.cases += 1;
            run_pair::<i64>(&mut t, &mut st, 2, &sp_from_dense(&a1, 2, 2, &|_, _| false), &sp_from_dense(&a2, a2.len(), 2, &|_, _| false), true);
            if k % 4 == 0 { let m = |d: &Vec<Vec<i64>>| -> Vec<Vec<FF<3>>> { d.iter().map(|r| r.iter().map(|x| <FF<3> as Ent>::of_int(*x)).collect()).collect() };
                // over F3 the product is still zero
                run_pair::<FF<3>>(&mut t, &mut st, 2, &sp_from_dense(&m(&a1), 2, 2, &|_, _| false), &sp_from_dense(&m(&a2), a2.len(), 2, &|_, _| false), false); }
            if k % 4 == 2 { let m = |d: &Vec<Vec<i64>>| -> Vec<Vec<GaussInt<i64>>> { d.iter().map(|r| r.iter().map(|x| <GaussInt<i64> as Ent>::of_int(*x)).collect()).collect() };
                run_pair::<GaussInt<i64>>(&mut t, &mut st, 2, &sp_from_dense(&m(&a1), 2, 2, &|_, _| false), &sp_from_dense(&m(&a2), a2.len(), 2, &|_, _| false), true); }
        }
    }
    // the family d1 = diag(x, y) / antidiag(x, y) over Z[i] and Z[w] with x, y of coordinates 0..3 (coprime non-real pairs make the
    // Smith form merge two pivots and re-normalise by a non-real unit), d2 = 0
    {
        let mut rng = a.rng(57);
        let mut all = vec![];
        for a0 in 0..=3i64 { for b0 in 0..=3i64 { for a1 in 0..=3i64 { for b1 in 0..=3i64 { if (a0, b0) != (0, 0) && (a1, b1) != (0, 0) { all.push((a0, b0, a1, b1)); } } } } }
        { use rand::seq::SliceRandom; all.shuffle(&mut rng); }
        let picks = if a.thorough() { 2000 } else { 60 };
        for (k, (a0, b0, a1, b1)) in all.into_iter().take(picks).enumerate() {
            st.cases += 1;
            let anti = k % 2 == 0;
            let z2 = SpMat::<GaussInt<i64>>::zero((1, 2));
            let g = |x: GaussInt<i64>, y: GaussInt<i64>| if anti { SpMat::from_entries((2, 2), [(0, 1, x), (1, 0, y)]) } else { SpMat::from_entries((2, 2), [(0, 0, x), (1, 1, y)]) };
            run_pair::<GaussInt<i64>>(&mut t, &mut st, 2, &g(GaussInt::new(a0, b0), GaussInt::new(a1, b1)), &z2, true);
            let ze = SpMat::<EisenInt<i64>>::zero((1, 2));
            let e = |x: EisenInt<i64>, y: EisenInt<i64>| if anti { SpMat::from_entries((2, 2), [(0, 1, x), (1, 0, y)]) } else { SpMat::from_entries((2, 2), [(0, 0, x), (1, 1, y)]) };
            run_pair::<EisenInt<i64>>(&mut t, &mut st, 2, &e(EisenInt::new(a0, b0), EisenInt::new(a1, b1)), &ze, true);
        }
    }
    // the family d1 = diag(x, y, z) over Z with x, y, z from a pool of small composites, rows and columns permuted, d2 = 0:
    // the diagonal handed to the Smith normalisation is then far from a divisibility chain (two or three gcd / lcm merges
    // in one sweep), the torsion of H is Z/x + Z/y + Z/z and must be reported by its invariant factors
    {
        let mut rng = a.rng(58);
        let pl: [i64; 8] = [2, 3, 4, 5, 6, 9, 10, 12];
        let mut all = vec![];
        for x in pl { for y in pl { for z in pl { all.push(vec![x, y, z]); } } }
        for x in pl { for y in pl { all.push(vec![x, y, 4, 9]); all.push(vec![6, x, y, 10]); } }
        { use rand::seq::SliceRandom; all.shuffle(&mut rng); }
        let picks = if a.thorough() { all.len() } else { 100 };
        for (k, d) in all.into_iter().take(picks).enumerate() {
            st.cases += 1;
            let n = d.len();
            let (pr, pc) = if k % 3 == 0 { ((0..n).collect::<Vec<_>>(), (0..n).collect::<Vec<_>>()) } else { (rand_perm(&mut rng, n), rand_perm(&mut rng, n)) };
            if k % 2 == 0 {
                let s1 = SpMat::<i64>::from_entries((n, n), (0..n).map(|i| (pr[i], pc[i], d[i])));
                run_pair::<i64>(&mut t, &mut st, n, &s1, &SpMat::zero((1, n)), true);
            } else {
                let s1 = SpMat::<BigInt>::from_entries((n, n), (0..n).map(|i| (pr[i], pc[i], BigInt::from(d[i]))));
                run_pair::<BigInt>(&mut t, &mut st, n, &s1, &SpMat::zero((1, n)), false);
            }
        }
    }
    let pool: &[i64] = &[2, 3, 4, 6, 9, 2, 5, 12];
    run!(i64, 1, maxd, pool, true); run!(BigInt, 2, maxd, pool, false); run!(Ratio<i64>, 3, maxd, &[2, 3], true);
    run!(FF<3>, 4, maxd, &[], false); run!(FF<5>, 5, maxd, &[], false);
    run!(GaussInt<i64>, 6, 4, &[2, 3, 5], true); run!(EisenInt<i64>, 7, 4, &[2, 3], true);
    run!(Poly<'x', FF<3>>, 8, 3, &[], false); run!(Poly<'x', Ratio<i64>>, 9, 3, &[], true);
    let n = t.finish();
    summary("record", json!({"events": n, "cases": st.cases, "panics": st.panics, "machine_overflows_outside_envelope": st.outside, "cases_with_planted_torsion": st.with_torsion,
        "cases_with_two_or_more_torsion_summands": st.multi_torsion, "zero_dimensional_cases": st.zero_dim, "types": ["i64","BigInt","Ratio<i64>","FF<3>","FF<5>","GaussInt<i64>","EisenInt<i64>","Poly<x,FF<3>>","Poly<x,Ratio<i64>>"]}));
}
