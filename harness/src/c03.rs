//! C03 — bigraded Khovanov tables over Z (i64 / i128 / BigInt), Q, F2, F3, through the two library routes
//! (total homology then `into_bigraded` vs homology of the bigraded pieces), reduced and unreduced,
//! recorded for spec/sys/UCT.tla.
//!
//! record (impl -> spec): per link one history `link, table, table, ...`; the first table of every
//!   (link, reduced?) is the reference of UCT.tla: ring Z64 through the bigraded pieces.
use crate::c18::{data_of, link_of, load_pd, Data};
use crate::util::*;
use num_bigint::BigInt;
use num_traits::ToPrimitive;
use rand::seq::SliceRandom;
use serde_json::{json, Value};
use yui::{EucRing, EucRingOps, Ratio, FF, FF2};
use yui_homology::{GridTrait, SummandTrait};
use yui_kh::kh::{KhComplexBigraded, KhHomologyBigraded};
use yui_link::{Braid, Generator, Link};

/// torsion orders as the spec reads them: integers (signed, as stored); anything a field type reports is passed as a string
pub trait TorsEnc { fn tenc(&self) -> Value; }
impl TorsEnc for i64 { fn tenc(&self) -> Value { json!(*self) } }
impl TorsEnc for i128 { fn tenc(&self) -> Value { match self.to_i64() { Some(x) => json!(x), None => json!(self.to_string()) } } }
impl TorsEnc for BigInt { fn tenc(&self) -> Value { match self.to_i64() { Some(x) => json!(x), None => json!(self.to_string()) } } }
impl TorsEnc for Ratio<i64> { fn tenc(&self) -> Value { json!(self.to_string()) } }
impl TorsEnc for FF2 { fn tenc(&self) -> Value { json!(self.to_string()) } }
impl<const P: i32> TorsEnc for FF<P> { fn tenc(&self) -> Value { json!(self.to_string()) } }

pub const ROUTES: [&str; 2] = ["total", "pieces"];
pub const RINGS: [&str; 6] = ["Z64", "Z128", "ZBig", "Q", "F2", "F3"];

/// the non-zero cells [i, j, rank, [torsion...]] of the bigraded table, sorted
pub fn table<R>(l: &Link, route: &str, red: bool) -> Value
where R: EucRing + TorsEnc, for<'x> &'x R: EucRingOps<R> {
    let z = R::zero();
    let mut rows: Vec<(isize, isize, usize, Vec<Value>)> = vec![];
    if route == "total" {
        let h = KhHomologyBigraded::<R>::new(l, &z, &z, red);
        for idx in h.support() { let s = &h[(idx.0, idx.1)]; if s.rank() > 0 || !s.tors().is_empty() { rows.push((idx.0, idx.1, s.rank(), s.tors().iter().map(|t| t.tenc()).collect())); } }
    } else {
        let h = KhComplexBigraded::<R>::new(l, &z, &z, red).homology();
        for idx in h.support() { let s = &h[(idx.0, idx.1)]; if s.rank() > 0 || !s.tors().is_empty() { rows.push((idx.0, idx.1, s.rank(), s.tors().iter().map(|t| t.tenc()).collect())); } }
    }
    rows.sort_by_key(|r| (r.0, r.1));
    json!(rows.into_iter().map(|(i, j, r, t)| json!([i, j, r, t])).collect::<Vec<_>>())
}
pub fn table_of(ring: &str, l: &Link, route: &str, red: bool) -> Value {
    match ring {
        "Z64" => table::<i64>(l, route, red),
        "Z128" => table::<i128>(l, route, red),
        "ZBig" => table::<BigInt>(l, route, red),
        "Q" => table::<Ratio<i64>>(l, route, red),
        "F2" => table::<FF2>(l, route, red),
        "F3" => table::<FF<3>>(l, route, red),
        _ => panic!("ring {}", ring),
    }
}

pub fn torus(p: usize, q: usize) -> Link {
    let w: Vec<Generator> = (0..q).flat_map(|_| (1..p as i32).map(Generator::from)).collect();
    Braid::new(p, w).closure()
}
fn shifted(d: &Data, k: usize) -> Data { d.iter().map(|(t, e)| (t.clone(), e.map(|x| x + k))).collect() }
fn mirror_data(d: &Data) -> Data { d.iter().map(|(t, e)| ((match t.as_str() { "X" => "Xm", "Xm" => "X", o => o }).to_string(), *e)).collect() }
fn pd_data(name: &str) -> Data { load_pd(name).into_iter().map(|e| ("X".to_string(), e)).collect() }
/// split union: the second diagram with all labels shifted by +1000
pub fn split_union(a: &Link, b: &Data) -> Link { let mut d = data_of(a); d.extend(shifted(b, 1000)); link_of(&d) }

/// the named inputs beyond the catalogue
pub fn named(name: &str) -> Link {
    match name {
        "T(3,4)" => torus(3, 4), "T(3,5)" => torus(3, 5), "T(4,5)" => torus(4, 5), "T(5,6)" => torus(5, 6),
        "T(3,4)+3_1" => split_union(&torus(3, 4), &pd_data("3_1")),
        "3_1+4_1" => split_union(&Link::from_pd_code(load_pd("3_1")), &pd_data("4_1")),
        "3_1+m3_1" => split_union(&Link::from_pd_code(load_pd("3_1")), &mirror_data(&pd_data("3_1"))),
        "L2a1+5_2" => split_union(&Link::from_pd_code(load_pd("L2a1")), &pd_data("5_2")),
        "T(5,6)+3_1" => split_union(&torus(5, 6), &pd_data("3_1")),
        "T(5,6)+4_1" => split_union(&torus(5, 6), &pd_data("4_1")),
        "T(5,6)+m5_1" => split_union(&torus(5, 6), &mirror_data(&pd_data("5_1"))),
        "T(5,6)+L2a1" => split_union(&torus(5, 6), &pd_data("L2a1")),
        _ => if let Some(n) = name.strip_prefix('m') { Link::from_pd_code(load_pd(n)).mirror() } else { Link::from_pd_code(load_pd(name)) },
    }
}

struct Job { ring: &'static str, route: &'static str, red: bool }

/// all tables of one link, the reference first; `par` > 1 computes them on that many threads (large inputs)
fn tables_of(l: &Link, jobs: &[Job], par: usize) -> Vec<Result<Value, String>> {
    if par <= 1 { return jobs.iter().map(|j| guarded(|| table_of(j.ring, l, j.route, j.red))).collect(); }
    let next = std::sync::atomic::AtomicUsize::new(0);
    let out: Vec<std::sync::Mutex<Option<Result<Value, String>>>> = jobs.iter().map(|_| std::sync::Mutex::new(None)).collect();
    std::thread::scope(|s| {
        for _ in 0..par.min(jobs.len()) {
            s.spawn(|| loop {
                let k = next.fetch_add(1, std::sync::atomic::Ordering::SeqCst);
                if k >= jobs.len() { break; }
                let j = &jobs[k];
                let r = guarded(|| table_of(j.ring, l, j.route, j.red));
                *out[k].lock().unwrap() = Some(r);
            });
        }
    });
    out.into_iter().map(|m| m.into_inner().unwrap().unwrap()).collect()
}

fn jobs_full() -> Vec<Job> {
    let mut v = vec![];
    for red in [false, true] {
        v.push(Job { ring: "Z64", route: "pieces", red });
        for ring in RINGS { for route in ROUTES { if !(ring == "Z64" && route == "pieces") { v.push(Job { ring, route, red }); } } }
    }
    v
}
/// the selection used for the 24..28-crossing inputs (each table costs seconds there)
fn jobs_big() -> Vec<Job> {
    let mut v = vec![Job { ring: "Z64", route: "pieces", red: false }, Job { ring: "Z64", route: "total", red: false },
        Job { ring: "Z128", route: "total", red: false }, Job { ring: "ZBig", route: "total", red: false },
        Job { ring: "Q", route: "total", red: false }, Job { ring: "Q", route: "pieces", red: false },
        Job { ring: "F2", route: "total", red: false }, Job { ring: "F2", route: "pieces", red: false },
        Job { ring: "F3", route: "total", red: false }, Job { ring: "F3", route: "pieces", red: false }];
    v.extend([Job { ring: "Z64", route: "pieces", red: true }, Job { ring: "Z64", route: "total", red: true },
        Job { ring: "F2", route: "total", red: true }, Job { ring: "F3", route: "pieces", red: true }, Job { ring: "Q", route: "total", red: true }]);
    v
}

pub fn record(a: &Args) {
    let th = a.thorough();
    let mut t = Tracer::create(&a.out);
    let mut rng = a.rng(3);
    let only: Option<Vec<String>> = a.flag("--only").map(|s| s.split(';').map(|x| x.to_string()).collect());
    let names = crate::c18::catalogue();
    let size = |n: &String| load_pd(n).len();
    let (kmax, lmax) = if th { (10, 9) } else { (8, 8) };
    let mut small: Vec<String> = names.iter().filter(|n| { let s = size(n); if n.starts_with('L') { s <= lmax } else { s <= kmax } }).cloned().collect();
    // mirrors move the torsion to the other side of the table
    let mut mirrors: Vec<String> = small.iter().filter(|n| size(n) <= if th { 9 } else { 6 }).map(|n| format!("m{}", n)).collect();
    mirrors.shuffle(&mut rng);
    mirrors.truncate(if th { 120 } else { 8 });
    small.extend(mirrors);
    let mut extra: Vec<&str> = vec!["T(3,4)", "T(3,5)", "T(4,5)", "T(3,4)+3_1", "3_1+4_1", "3_1+m3_1", "L2a1+5_2"];
    // quick tier: one of the two inputs of the known finding, with the two integer routes only (a few seconds)
    let big: Vec<&str> = if th { vec!["T(5,6)", "T(5,6)+3_1", "T(5,6)+4_1", "T(5,6)+m5_1", "T(5,6)+L2a1"] } else { vec!["T(5,6)+4_1"] };
    if th { let more: Vec<String> = names.iter().filter(|n| size(n) == 11).cloned().collect::<Vec<_>>().choose_multiple(&mut rng, 60).cloned().collect(); small.extend(more); }
    let mut all: Vec<(String, bool)> = small.into_iter().map(|n| (n, false)).collect();
    all.extend(extra.drain(..).map(|n| (n.to_string(), false)));
    all.extend(big.into_iter().map(|n| (n.to_string(), true)));
    if let Some(o) = &only { all = o.iter().map(|n| (n.clone(), n.starts_with("T(5,6)"))).collect(); }

    let (mut links, mut tables, mut panics, mut max_n, mut with_tors, mut cells) = (0usize, 0usize, 0usize, 0usize, 0usize, 0usize);
    let mut overflows: Vec<String> = vec![];
    for (name, is_big) in all.iter() {
        let l = match guarded(|| named(name)) { Ok(l) => l, Err(m) => { t.emit(&json!({"op": "link", "name": name, "n": 0, "res": "panic", "panic": m})); panics += 1; continue; } };
        let n = l.crossing_num();
        max_n = max_n.max(n);
        links += 1;
        t.emit(&json!({"op": "link", "name": name, "n": n, "comps": l.components().len(), "res": "ok"}));
        let jobs = if *is_big && !th && only.is_none() { vec![Job { ring: "Z64", route: "pieces", red: false }, Job { ring: "Z64", route: "total", red: false }] }
                   else if *is_big { jobs_big() } else { jobs_full() };
        let res = tables_of(&l, &jobs, if *is_big { 5 } else { 1 });
        let mut tors_here = false;
        let ref_overflow: Vec<bool> = [false, true].iter().map(|red| jobs.iter().zip(res.iter()).any(|(j, r)| j.ring == "Z64" && j.route == "pieces" && j.red == *red && matches!(r, Err(m) if m.contains("overflow")))).collect();
        for (j, r) in jobs.iter().zip(res.into_iter()) {
            if ref_overflow[j.red as usize] && !(j.ring == "Z64" && j.route == "pieces") { continue; }
            let mut e = json!({"op": "table", "name": name, "ring": j.ring, "route": j.route, "red": j.red});
            match r {
                Ok(tab) => { cells += tab.as_array().unwrap().len(); if tab.as_array().unwrap().iter().any(|c| !c[3].as_array().unwrap().is_empty()) { tors_here = true; }
                             e["tab"] = tab; e["res"] = json!("ok"); tables += 1; }
                // a machine-integer type that leaves its range (the harness is built with overflow checks; a plain release
                // build wraps silently) is outside the envelope the property speaks about: recorded, not judged
                Err(m) if m.contains("overflow") && (j.ring == "Z64" || j.ring == "Z128") => { e["tab"] = json!([]); e["res"] = json!("overflow"); e["panic"] = json!(m); overflows.push(format!("{}:{}:{}:{}", name, j.ring, j.route, if j.red { "red" } else { "unred" })); }
                Err(m) => { e["tab"] = json!([]); e["res"] = json!("panic"); e["panic"] = json!(m); panics += 1; }
            }
            t.emit(&e);
        }
        if tors_here { with_tors += 1; }
    }
    let n = t.finish();
    summary("record", json!({"events": n, "links": links, "tables": tables, "cells": cells, "links_with_torsion": with_tors, "max_crossings": max_n, "panics": panics, "machine_integer_overflows": overflows}));
}
