//! C05 — every complex returned by KhComplex::<R>::new is a graded chain complex; the complex built with
//! polynomial parameters (H,T) specialises to the complex built directly with (h,t).  Recorded for spec/sys/ChainCx.tla.
//!
//! record (impl -> spec): per link one history
//!   link, cx(polynomial rings, parameters H / T / 0) ..., cx(numeric rings, (0,0)) ..., cx(numeric rings, grid points) ...
//! A `cx` event carries the whole complex as the public API shows it: per homological degree the generators
//! (h_deg, q_deg of every raw generator), d_matrix(i) as entry list, the same differential obtained by applying
//! d(i, .) to every generator, d_deg, rank(i), h_range and the parameters.
use crate::c03::named;
use crate::enc::Enc;
use crate::util::*;
use serde_json::{json, Value};
use yui::poly::{Poly, Poly2};
use yui::{Ratio, Ring, RingOps, FF, FF2};
use yui_homology::{ChainComplexTrait, GridTrait, SummandTrait};
use yui_kh::kh::KhComplex;
use yui_link::Link;

type ZH = Poly<'H', i64>;
type ZT = Poly<'T', i64>;
type ZHT = Poly2<'H', 'T', i64>;
type QH = Poly<'H', Ratio<i64>>;
type F2H = Poly<'H', FF2>;

/// coefficient encodings for spec/lib/Rings.tla: i64 as TLC integer (kind "I"), Q as BigNum pair, F_p as integer,
/// polynomials as term lists [{e, c}] (e an integer for one variable, a pair for two)
pub trait CxEnc: Ring where for<'x> &'x Self: RingOps<Self> { fn cenc(&self) -> Value; }
impl CxEnc for i64 { fn cenc(&self) -> Value { json!(*self) } }
impl CxEnc for Ratio<i64> { fn cenc(&self) -> Value { self.enc() } }
impl CxEnc for FF2 { fn cenc(&self) -> Value { self.enc() } }
impl CxEnc for FF<3> { fn cenc(&self) -> Value { self.enc() } }
impl CxEnc for ZH { fn cenc(&self) -> Value { json!(self.iter().filter(|(_, c)| **c != 0).map(|(x, c)| json!({"e": yui::poly::Mono::deg(x), "c": c})).collect::<Vec<_>>()) } }
impl CxEnc for ZT { fn cenc(&self) -> Value { json!(self.iter().filter(|(_, c)| **c != 0).map(|(x, c)| json!({"e": yui::poly::Mono::deg(x), "c": c})).collect::<Vec<_>>()) } }
impl CxEnc for ZHT { fn cenc(&self) -> Value { json!(self.iter().filter(|(_, c)| **c != 0).map(|(x, c)| json!({"e": [x.deg_for(0), x.deg_for(1)], "c": c})).collect::<Vec<_>>()) } }
impl CxEnc for QH { fn cenc(&self) -> Value { json!(self.iter().filter(|(_, c)| !num_traits::Zero::is_zero(*c)).map(|(x, c)| json!({"e": yui::poly::Mono::deg(x), "c": c.enc()})).collect::<Vec<_>>()) } }
impl CxEnc for F2H { fn cenc(&self) -> Value { json!(self.iter().filter(|(_, c)| !num_traits::Zero::is_zero(*c)).map(|(x, c)| json!({"e": yui::poly::Mono::deg(x), "c": c.enc()})).collect::<Vec<_>>()) } }

/// the complex as seen through the public API
pub fn cx_json<R: CxEnc>(l: &Link, h: &R, t: &R, red: bool) -> Value where for<'x> &'x R: RingOps<R> {
    let c = KhComplex::<R>::new(l, h, t, red);
    let rng = c.h_range();
    let (i0, i1) = (*rng.start(), *rng.end());
    let sup: Vec<isize> = c.support().collect();
    let mut gens = vec![]; let mut ds = vec![]; let mut dz = vec![]; let mut dzp = vec![]; let mut ranks = vec![];
    for i in i0..=i1 {
        let s = &c[i];
        gens.push(s.raw_gens().iter().map(|x| json!([x.h_deg(), x.q_deg()])).collect::<Vec<_>>());
        ranks.push(c.rank(i));
        let m = c.d_matrix(i);
        let (rows, cols) = yui_matrix::MatTrait::shape(&m);
        let mut es: Vec<(usize, usize, Value)> = m.iter().filter(|(_, _, a)| !a.is_zero()).map(|(y, x, a)| (y + 1, x + 1, a.cenc())).collect();
        es.sort_by_key(|e| (e.1, e.0));
        ds.push(json!({"m": rows, "n": cols, "e": es.into_iter().map(|(y, x, a)| json!([y, x, a])).collect::<Vec<_>>()}));
        // the same map through d(i, generator): coordinates read off the raw generators of C_{i+1}
        let tgt = &c[i + 1];
        let mut ez: Vec<(usize, usize, Value)> = vec![];
        let mut plain = true;
        for x in 0..s.rank() {
            let z = s.gen(x);
            if !(z.is_gen() && s.raw_gens().index_of(&z.as_gen().unwrap()) == Some(x)) { plain = false; break; }
            let w = c.d(i, &z);
            for (g, a) in w.iter() {
                if a.is_zero() { continue; }
                match tgt.raw_gens().index_of(g) { Some(y) => ez.push((y + 1, x + 1, a.cenc())), None => ez.push((0, x + 1, a.cenc())) }   // row 0: not a generator of C_{i+1}
            }
        }
        ez.sort_by_key(|e| (e.1, e.0));
        dzp.push(plain);
        dz.push(if plain { json!(ez.into_iter().map(|(y, x, a)| json!([y, x, a])).collect::<Vec<_>>()) } else { json!([]) });
    }
    json!({"i0": i0, "sup": sup, "ddeg": c.d_deg(), "ranks": ranks, "g": gens, "d": ds, "dz": dz, "dzp": dzp})
}

#[derive(Clone, Copy, PartialEq)]
enum P { Zero, Var, Num(i64) }
fn pj(p: P, var: &str, poly: bool) -> Value { match p { P::Zero => if poly { json!("0") } else { json!(0) }, P::Var => json!(var), P::Num(x) => json!(x) } }

fn cx_of(ring: &str, l: &Link, h: P, t: P, red: bool) -> Value {
    let num = |p: P| match p { P::Num(x) => x, P::Zero => 0, P::Var => panic!("variable in a numeric ring") };
    match ring {
        "Z" => cx_json::<i64>(l, &num(h), &num(t), red),
        "Q" => cx_json::<Ratio<i64>>(l, &Ratio::from(num(h)), &Ratio::from(num(t)), red),
        "F2" => cx_json::<FF2>(l, &FF2::from(num(h).rem_euclid(2)), &FF2::from(num(t).rem_euclid(2)), red),
        "F3" => cx_json::<FF<3>>(l, &FF::<3>::new(num(h).rem_euclid(3) as i32), &FF::<3>::new(num(t).rem_euclid(3) as i32), red),
        "ZH" => { let z = ZH::from_const(0); cx_json::<ZH>(l, &(if h == P::Var { ZH::variable() } else { z.clone() }), &z, red) }
        "ZT" => { let z = ZT::from_const(0); cx_json::<ZT>(l, &z, &(if t == P::Var { ZT::variable() } else { z.clone() }), red) }
        "ZHT" => { let z = ZHT::from_const(0); cx_json::<ZHT>(l, &(if h == P::Var { ZHT::variable(0) } else { z.clone() }), &(if t == P::Var { ZHT::variable(1) } else { z.clone() }), red) }
        "QH" => { let z = QH::from_const(Ratio::from(0)); cx_json::<QH>(l, &(if h == P::Var { QH::variable() } else { z.clone() }), &z, red) }
        "F2H" => { let z = F2H::from_const(FF2::from(0)); cx_json::<F2H>(l, &(if h == P::Var { F2H::variable() } else { z.clone() }), &z, red) }
        _ => panic!("ring {}", ring),
    }
}


/// KhComplexBigraded over Z at numeric parameters, by both constructors: either the request is refused (res "rej") or what is returned
/// really is a bigraded complex: every term of d x for x in C[i,j] lies in C[i+1,j], d.d = 0, the matrices can be assembled.
fn bigr_event(name: &str, l: &Link, h: i64, t: i64, red: bool, route: &str) -> Value {
    use yui_homology::{isize2, ChainComplexTrait, GridTrait, SummandTrait};
    let mut e = json!({"op": "bigr", "name": name, "ring": "Z", "red": red, "h": h, "t": t, "route": route, "homog": false, "dd0": false});
    let built = guarded(|| if route == "new" { yui_kh::kh::KhComplexBigraded::<i64>::new(l, &h, &t, red) } else { KhComplex::<i64>::new(l, &h, &t, red).into_bigraded() });
    match built {
        Err(m) => { e["res"] = json!("rej"); e["panic"] = json!(m); }
        Ok(c) => {
            e["res"] = json!("ok");
            let chk = guarded(|| {
                let (mut homog, mut dd0) = (c.d_deg() == isize2(1, 0), true);
                for idx in c.support() {
                    let isize2(i, j) = idx;
                    for k in 0..c[(i, j)].rank() {
                        let x = c[(i, j)].gen(k);
                        let dx = c.d(idx, &x);
                        for y in dx.gens() { if (y.h_deg(), y.q_deg()) != (i + 1, j) { homog = false; } }
                        if homog && !num_traits::Zero::is_zero(&c.d(isize2(i + 1, j), &dx)) { dd0 = false; }
                    }
                    if homog { let _ = c.d_matrix(idx); }
                }
                (homog, dd0)
            });
            if let Ok((a, b)) = chk { e["homog"] = json!(a); e["dd0"] = json!(b); }
        }
    }
    e
}

pub fn record(a: &Args) {
    let th = a.thorough();
    let mut t = Tracer::create(&a.out);
    let only: Option<Vec<String>> = a.flag("--only").map(|s| s.split(';').map(|x| x.to_string()).collect());
    let names = crate::c18::catalogue();
    let nmax = if th { 9 } else { 7 };
    let mut all: Vec<String> = vec!["empty".into(), "unknot".into()];
    all.extend(names.iter().filter(|n| crate::c18::load_pd(n).len() <= nmax).cloned());
    all.extend(["m3_1", "m5_2", "T(3,4)", "3_1+4_1", "3_1+m3_1"].iter().map(|s| s.to_string()));
    if th { all.extend(["T(3,5)", "T(4,5)", "T(3,4)+3_1", "L2a1+5_2", "m7_7", "m9_42"].iter().map(|s| s.to_string())); }
    // probes: non-alternating knots with 9 / 10 crossings, where a genus-1 cobordism is neck-cut and dotted again before it is closed
    // (the evaluation rules for several dots on an open component are only reached there); the builder's elimination order is seeded
    // by the process' hash state, so each probe is built several times; only the Lee-type points (t != 0) and the polynomial complexes
    let probes: Vec<String> = ["9_42", "10_132", "m10_132", "10_124", "m10_140"].iter().map(|s| s.to_string()).collect();
    let reps = if th { 6 } else { 3 };
    for _ in 0..reps { all.extend(probes.iter().cloned()); }
    if let Some(o) = only { all = o; }
    // the evaluation grid
    let zpts: Vec<(i64, i64)> = if th { let mut v: Vec<(i64, i64)> = (-2..=2).flat_map(|x| (-2..=2).map(move |y| (x, y))).filter(|p| *p != (0, 0)).collect(); v.extend([(3, 0), (2, 3), (3, -2), (0, 3), (4, 1)]); v }
                               else { vec![(1, 0), (0, 1), (1, 1), (2, 0), (0, 2), (-1, 0), (2, 3), (-1, 2), (3, -2)] };
    let f2pts = [(1, 0), (0, 1), (1, 1)];
    let f3pts: Vec<(i64, i64)> = if th { vec![(1, 0), (2, 0), (0, 1), (0, 2), (1, 1), (1, 2), (2, 1), (2, 2)] } else { vec![(1, 0), (2, 0), (0, 1), (1, 2)] };
    let qpts: Vec<(i64, i64)> = if th { vec![(1, 0), (0, 1), (2, 3), (-1, 2), (2, 0)] } else { vec![(1, 0), (0, 1), (2, 3)] };

    let mut overflows = 0usize;
    let mut bigr = 0usize;
    let mut probe_np = 0usize;
    let (mut links, mut cxs, mut panics, mut entries, mut maxrank, mut polys, mut directs) = (0usize, 0usize, 0usize, 0usize, 0usize, 0usize, 0usize);
    for name in all.iter() {
        let l = match guarded(|| match name.as_str() { "empty" => Link::empty(), "unknot" => Link::unknot(), n => named(n) }) {
            Ok(l) => l, Err(m) => { t.emit(&json!({"op": "link", "name": name, "res": "panic", "panic": m})); panics += 1; continue; } };
        links += 1;
        t.emit(&json!({"op": "link", "name": name, "n": l.crossing_num(), "comps": l.components().len(), "res": "ok"}));
        // bigraded complexes at numeric points (small diagrams): refused, or really bigraded
        if l.crossing_num() <= 5 && !probes.contains(name) {
            for (h, tt) in [(0i64, 0i64), (1, 0), (2, 0), (0, 1), (-1, 2)] { for red in [false, true] { if red && (l.is_empty() || tt != 0) { continue; }
                for route in ["new", "into"] { t.emit(&bigr_event(name, &l, h, tt, red, route)); bigr += 1; } } }
        }
        let probe = probes.contains(name);
        for red in [false, true] {
            if red && (l.is_empty() || probe) { continue; }
            let mut jobs: Vec<(&str, P, P)> = vec![];
            if !red { jobs.push(("ZHT", P::Var, P::Var)); jobs.push(("ZT", P::Zero, P::Var)); }
            jobs.extend([("ZHT", P::Var, P::Zero), ("ZH", P::Var, P::Zero), ("QH", P::Var, P::Zero), ("F2H", P::Var, P::Zero)]);
            let npoly = jobs.len();
            for r in ["Z", "Q", "F2", "F3"] { jobs.push((r, P::Zero, P::Zero)); }
            let ok = |p: &(i64, i64)| !red || p.1 == 0;
            for p in zpts.iter().filter(|p| ok(p)) { jobs.push(("Z", P::Num(p.0), P::Num(p.1))); }
            for p in f2pts.iter().filter(|p| ok(p)) { jobs.push(("F2", P::Num(p.0), P::Num(p.1))); }
            for p in f3pts.iter().filter(|p| ok(p)) { jobs.push(("F3", P::Num(p.0), P::Num(p.1))); }
            for p in qpts.iter().filter(|p| ok(p)) { jobs.push(("Q", P::Num(p.0), P::Num(p.1))); }
            if probe { let keep: Vec<(&str, P, P)> = jobs.iter().enumerate().filter(|(k, j)| if *k < npoly { j.2 == P::Var } else { matches!(j.2, P::Num(_)) && j.2 != P::Num(0) && matches!(j.1, P::Num(0) | P::Num(1)) }).map(|(_, j)| *j).collect();
                let np = keep.iter().filter(|j| j.2 == P::Var).count(); jobs = keep; probe_np = np; }
            let npoly = if probe { probe_np } else { npoly };
            for (k, (ring, h, tt)) in jobs.iter().enumerate() {
                let mut e = json!({"op": "cx", "name": name, "ring": ring, "red": red, "h": pj(*h, "H", k < npoly), "t": pj(*tt, "T", k < npoly)});
                match guarded(|| cx_of(ring, &l, *h, *tt, red)) {
                    Ok(c) => {
                        entries += c["d"].as_array().unwrap().iter().map(|d| d["e"].as_array().unwrap().len()).sum::<usize>();
                        maxrank = maxrank.max(c["ranks"].as_array().unwrap().iter().map(|r| r.as_u64().unwrap() as usize).max().unwrap_or(0));
                        e["c"] = c; e["res"] = json!("ok"); cxs += 1;
                        if k < npoly { polys += 1; } else if *h != P::Zero || *tt != P::Zero { directs += 1; }
                    }
                    // i64 coefficients leaving their range (overflow checks are on in the harness): outside the machine-integer envelope
                    Err(m) if m.contains("overflow") && ["Z", "ZH", "ZT", "ZHT"].contains(ring) => { e["c"] = json!({}); e["res"] = json!("overflow"); e["panic"] = json!(m); overflows += 1; }
                    Err(m) => { e["c"] = json!({}); e["res"] = json!("panic"); e["panic"] = json!(m); panics += 1; }
                }
                t.emit(&e);
            }
        }
    }
    let n = t.finish();
    summary("record", json!({"events": n, "links": links, "complexes": cxs, "polynomial_complexes": polys, "direct_complexes_at_nonzero_points": directs,
        "matrix_entries": entries, "max_rank": maxrank, "panics": panics, "machine_integer_overflows": overflows, "bigraded_requests_at_numeric_points": bigr}));
}
