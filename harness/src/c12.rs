//! C12 — sparse kernels (triangular solve, Schur complement, direct-sum decomposition) vs spec/sys/Kernels.tla.
use crate::menc::*;
use crate::util::*;
use rand::rngs::StdRng;
use rand::Rng;
use serde_json::{json, Value};
use yui::{GaussInt, Ratio, RingOps, FF};
use yui_matrix::sparse::decomp::dir_sum_decomp;
use yui_matrix::sparse::schur::Schur;
use yui_matrix::sparse::triang::{inv_triangular, solve_triangular, solve_triangular_left, solve_triangular_vec, TriangularType};
use yui_matrix::sparse::SpMat;
use yui_matrix::MatTrait;

#[derive(Default)]
pub struct Stats { pub events: usize, pub panics: usize, pub cases: usize, pub r_extreme: usize, pub nonunit_diag: usize }

fn pool(n: usize) -> rayon::ThreadPool { rayon::ThreadPoolBuilder::new().num_threads(n).build().unwrap() }

fn emit<R: Ent>(t: &mut Tracer, st: &mut Stats, op: &str, mut fields: Value, f: impl FnOnce(&mut Value)) where for<'x> &'x R: RingOps<R> {
    fields["op"] = json!(op); fields["ring"] = R::ring(); fields["type"] = json!(R::tname());
    let mut out = fields.clone();
    match guarded(|| { let mut x = out.clone(); f(&mut x); x }) {
        Ok(v) => { out = v; out["res"] = json!("ok"); }
        Err(m) => { out["res"] = json!("panic"); out["panic"] = json!(m); st.panics += 1; }
    }
    st.events += 1;
    t.emit(&out);
}

/// Random triangular matrix with unit diagonal entries (units other than 1 where the ring has them) and explicit zeros.
fn rand_triang<R: Ent>(rng: &mut StdRng, n: usize, upper: bool, dens: f64, st: &mut Stats) -> SpMat<R> where for<'x> &'x R: RingOps<R> {
    let mut d = vec![vec![<R as num_traits::Zero>::zero(); n]; n];
    for i in 0..n { for j in 0..n {
        if i == j { d[i][j] = R::rnd_unit(rng); if !num_traits::One::is_one(&d[i][j]) { st.nonunit_diag += 1; } }
        else if (upper && i < j) || (!upper && i > j) { if rng.gen_bool(dens) { d[i][j] = R::rnd(rng, 3); } }
    } }
    let pat: Vec<Vec<bool>> = (0..n).map(|_| (0..n).map(|_| rng.gen_bool(0.15)).collect()).collect();
    // explicit zeros: inside the triangle only in half of the cases, anywhere off the diagonal in the other half (a stored zero on the
    // far side of the diagonal is still a triangular matrix - `is_triang` looks at values - and arises from sparse arithmetic)
    let anywhere = rng.gen_bool(0.5);
    sp_from_dense(&d, n, n, &|i, j| pat[i][j] && i != j && (anywhere || (upper && i < j) || (!upper && i > j)))
}

fn tname(t: TriangularType) -> &'static str { if t.is_upper() { "upper" } else { "lower" } }

fn schur_events<R: Ent>(t: &mut Tracer, st: &mut Stats, tt: TriangularType, full: &SpMat<R>, r: usize, pools: &[(usize, rayon::ThreadPool)], withs: &[bool], id: &str) where for<'x> &'x R: RingOps<R> {
    for (nt, p) in pools.iter() {
        for &with in withs.iter() {
            emit::<R>(t, st, "schur", json!({"t": tname(tt), "m": sp_json(full), "r": r, "id": id, "threads": nt}), |e| {
                let (s, ts, tg, x) = p.install(|| {
                    let sch = Schur::from_partial_triangular(tt, full, r, with);
                    let [a, b, _, _] = full.divide4((r, r));
                    let x = solve_triangular(tt, &a, &b);
                    let (s, ts, tg) = sch.disassemble(); (s, ts, tg, x) });
                e["s"] = sp_json(&s); e["x"] = sp_json(&x);
                let z = json!({"m": 0, "n": 0, "a": []});
                e["tr"] = match (ts, tg) {
                    (Some(ts), Some(tg)) => json!({"with": true, "fsrc": sp_json(&ts.forward_mat()), "bsrc": sp_json(&ts.backward_mat()), "ftgt": sp_json(&tg.forward_mat()), "btgt": sp_json(&tg.backward_mat())}),
                    (None, None) => json!({"with": false, "fsrc": z, "bsrc": z, "ftgt": z, "btgt": z}),
                    _ => json!("INCONSISTENT") };
                if with != e["tr"]["with"].as_bool().unwrap_or(!with) { e["tr"] = json!("TRANS-FLAG-IGNORED"); }
            });
        }
    }
}

fn case<R: Ent>(rng: &mut StdRng, t: &mut Tracer, st: &mut Stats, cid: usize, maxn: usize) where for<'x> &'x R: RingOps<R> {
    st.cases += 1;
    t.emit(&json!({"op": "newcase", "res": "ok", "ring": R::ring(), "case": cid}));
    st.events += 1;
    let pools: Vec<(usize, rayon::ThreadPool)> = [1usize, 2, 16].iter().map(|&k| (k, pool(k))).collect();
    // ---------------- triangular solve
    let n = rng.gen_range(0..=maxn); let k = rng.gen_range(0..=maxn);
    let upper = rng.gen_bool(0.5); let tt = if upper { TriangularType::Upper } else { TriangularType::Lower };
    let dens = [0.2, 0.6, 1.0][rng.gen_range(0..3)];
    let a = rand_triang::<R>(rng, n, upper, dens, st);
    let y = rand_sp::<R>(rng, n, k, 0.5, 4, 0.2);
    let yl = rand_sp::<R>(rng, k, n, 0.5, 4, 0.2);
    for (nt, p) in pools.iter() {
        for rep in 0..2 { // repeated calls on the same worker threads
            emit::<R>(t, st, "solve", json!({"t": tname(tt), "a": sp_json(&a), "y": sp_json(&y), "left": false, "id": "solve", "threads": nt, "rep": rep}), |e| { e["x"] = sp_json(&p.install(|| solve_triangular(tt, &a, &y))); });
        }
        emit::<R>(t, st, "solve", json!({"t": tname(tt), "a": sp_json(&a), "y": sp_json(&yl), "left": true, "id": "solve_left", "threads": nt}), |e| { e["x"] = sp_json(&p.install(|| solve_triangular_left(tt, &a, &yl))); });
        emit::<R>(t, st, "inv", json!({"t": tname(tt), "a": sp_json(&a), "id": "inv", "threads": nt}), |e| { e["x"] = sp_json(&p.install(|| inv_triangular(tt, &a))); });
    }
    if k > 0 { let b = y.col_vec(0); emit::<R>(t, st, "solve", json!({"t": tname(tt), "a": sp_json(&a), "y": vec_json(&b), "left": false, "id": "solve_vec"}), |e| { e["x"] = vec_json(&solve_triangular_vec(tt, &a, &b)); }); }
    // ---------------- Schur complement
    let (m, n2) = (rng.gen_range(0..=maxn), rng.gen_range(0..=maxn));
    let r = match rng.gen_range(0..4) { 0 => 0, 1 => m.min(n2), _ => rng.gen_range(0..=m.min(n2)) };
    if r == 0 || r == m.min(n2) { st.r_extreme += 1; }
    let ta = rand_triang::<R>(rng, r, upper, 0.6, st);
    let full = SpMat::combine_blocks([&ta, &rand_sp::<R>(rng, r, n2 - r, 0.5, 3, 0.2), &rand_sp::<R>(rng, m - r, r, 0.5, 3, 0.2), &rand_sp::<R>(rng, m - r, n2 - r, 0.5, 3, 0.2)]);
    // combine_blocks drops explicit zeros; re-introduce some through a raw constructor
    let full = { let d = sp_dense(&full); let pat: Vec<Vec<bool>> = (0..m).map(|_| (0..n2).map(|_| rng.gen_bool(0.1)).collect()).collect();
                 sp_from_dense(&d, m, n2, &|i, j| pat[i][j] && !(i < r && j < r && ((upper && i > j) || (!upper && i < j)))) };
    schur_events::<R>(t, st, tt, &full, r, &pools, &[false, true], "schur");
    // one of the three off-pivot blocks entirely zero (D = 0: the complement is -C A^-1 B alone; B = 0 or C = 0: one transfer map
    // degenerates to a projection / inclusion while the other one does not), the other blocks dense
    for which in 1..=3usize {
        let (r, p, q) = (rng.gen_range(1..=3usize), rng.gen_range(1..=3usize), rng.gen_range(1..=3usize));
        let ta = rand_triang::<R>(rng, r, upper, 0.6, st);
        let mut blk = |mm: usize, nn: usize, w: usize| if w == which { SpMat::<R>::zero((mm, nn)) } else { rand_sp::<R>(rng, mm, nn, 0.85, 3, 0.0) };
        let (bb, cc, dd) = (blk(r, q, 1), blk(p, r, 2), blk(p, q, 3));
        let full = SpMat::combine_blocks([&ta, &bb, &cc, &dd]);
        schur_events::<R>(t, st, tt, &full, r, &pools[0..1], &[true], &format!("schur_zero_block_{}", which));
    }
    // ---------------- direct-sum decomposition: a permuted block-diagonal matrix plus zero rows / columns
    let nb = rng.gen_range(0..4usize);
    let bmax = if rng.gen_bool(0.5) { 3 } else { 6 };
    let mut shapes: Vec<(usize, usize)> = (0..nb).map(|_| (rng.gen_range(1..=bmax), rng.gen_range(1..=bmax))).collect();
    let (zr, zc) = (rng.gen_range(0..3usize), rng.gen_range(0..3usize));
    let (mm, nn) = (shapes.iter().map(|s| s.0).sum::<usize>() + zr, shapes.iter().map(|s| s.1).sum::<usize>() + zc);
    let mut d = vec![vec![<R as num_traits::Zero>::zero(); nn]; mm];
    let (mut i0, mut j0) = (0, 0);
    // block density: dense blocks, or sparse ones whose column-intersection graph is a long path / tree (columns meet pairwise in single rows)
    let bdens = if rng.gen_bool(0.5) { 0.6 } else { 0.25 };
    for (bm, bn) in shapes.drain(..) { for i in 0..bm { for j in 0..bn { if rng.gen_bool(bdens) { let mut x = R::rnd(rng, 3); if num_traits::Zero::is_zero(&x) { x = R::rnd_unit(rng); } d[i0 + i][j0 + j] = x; } } } i0 += bm; j0 += bn; }
    let (pp, qq) = (rand_perm(rng, mm), rand_perm(rng, nn));
    let mut dperm = vec![vec![<R as num_traits::Zero>::zero(); nn]; mm];
    for i in 0..mm { for j in 0..nn { dperm[pp[i]][qq[j]] = d[i][j].clone(); } }
    let with_zeros = rng.gen_range(0..4) == 0;
    let zp: Vec<Vec<bool>> = (0..mm).map(|_| (0..nn).map(|_| with_zeros && rng.gen_bool(0.15)).collect()).collect();
    let am = sp_from_dense(&dperm, mm, nn, &|i, j| zp[i][j]);
    let pattern = |x: &SpMat<R>| -> Value { let (m, n) = x.shape(); let mut z = vec![vec![0u8; n]; m]; for (i, j, _) in x.iter() { z[i][j] = 1; } json!({"m": m, "n": n, "a": z}) };
    for (nt, p) in [(1usize, &pools[0].1), (16usize, &pools[2].1)] {
        emit::<R>(t, st, "dirsum", json!({"a": sp_json(&am), "z": pattern(&am), "threads": nt, "explicit_zeros": with_zeros}), |e| {
            let (p1, q1, blocks) = p.install(|| dir_sum_decomp(am.clone()));
            e["p"] = json!((0..mm).map(|i| p1.view().at(i)).collect::<Vec<_>>()); e["q"] = json!((0..nn).map(|j| q1.view().at(j)).collect::<Vec<_>>());
            e["blocks"] = json!(blocks.iter().map(sp_json).collect::<Vec<_>>()); e["zblocks"] = json!(blocks.iter().map(|b| pattern(b)).collect::<Vec<_>>());
        });
    }
}

/// spec -> impl: TLC-enumerated unit-triangular matrices (upper as given, lower by transposition) with a right-hand side
fn enumerated(t: &mut Tracer, st: &mut Stats, cid: &mut usize, cases: &[Value]) {
    let p2 = pool(2);
    let p1 = pool(1); let p16 = pool(16);
    for c in cases {
        if let Some(pat) = c.get("pat") {
            // a 0/1 pattern for the direct-sum routine
            *cid += 1; st.cases += 1;
            let d: Vec<Vec<i64>> = pat.as_array().unwrap().iter().map(|r| r.as_array().unwrap().iter().map(|x| x.as_i64().unwrap()).collect()).collect();
            let (mm, nn) = (d.len(), d[0].len());
            let am = sp_from_dense(&d, mm, nn, &|_, _| false);
            let pattern = |x: &SpMat<i64>| -> Value { let (m, n) = x.shape(); let mut z = vec![vec![0u8; n]; m]; for (i, j, _) in x.iter() { z[i][j] = 1; } json!({"m": m, "n": n, "a": z}) };
            for (nt, p) in [(1usize, &p1), (16usize, &p16)] {
                emit::<i64>(t, st, "dirsum", json!({"a": sp_json(&am), "z": pattern(&am), "threads": nt, "explicit_zeros": false}), |e| {
                    let (pp, qq, blocks) = p.install(|| dir_sum_decomp(am.clone()));
                    e["p"] = json!((0..mm).map(|i| pp.view().at(i)).collect::<Vec<_>>()); e["q"] = json!((0..nn).map(|j| qq.view().at(j)).collect::<Vec<_>>());
                    e["blocks"] = json!(blocks.iter().map(sp_json).collect::<Vec<_>>()); e["zblocks"] = json!(blocks.iter().map(|b| pattern(b)).collect::<Vec<_>>());
                });
            }
            continue;
        }
        *cid += 1; st.cases += 1;
        t.emit(&json!({"op": "newcase", "res": "ok", "ring": <i64 as Ent>::ring(), "case": *cid})); st.events += 1;
        let d: Vec<Vec<i64>> = c["a"].as_array().unwrap().iter().map(|r| r.as_array().unwrap().iter().map(|x| x.as_i64().unwrap()).collect()).collect();
        let yv: Vec<i64> = c["y"].as_array().unwrap().iter().map(|x| x.as_i64().unwrap()).collect();
        let up = sp_from_dense(&d, 3, 3, &|_, _| false);
        let y = SpMat::from_dense_data((3, 2), yv.iter().flat_map(|x| [*x, 1 - *x]));
        for (tt, a) in [(TriangularType::Upper, up.clone()), (TriangularType::Lower, up.transpose())] {
            emit::<i64>(t, st, "solve", json!({"t": tname(tt), "a": sp_json(&a), "y": sp_json(&y), "left": false, "id": format!("s{}", tname(tt)), "threads": 2}), |e| { e["x"] = sp_json(&p2.install(|| solve_triangular(tt, &a, &y))); });
            emit::<i64>(t, st, "solve", json!({"t": tname(tt), "a": sp_json(&a), "y": sp_json(&y.transpose()), "left": true, "id": format!("l{}", tname(tt)), "threads": 2}), |e| { e["x"] = sp_json(&p2.install(|| solve_triangular_left(tt, &a, &y.transpose()))); });
            emit::<i64>(t, st, "inv", json!({"t": tname(tt), "a": sp_json(&a), "id": format!("i{}", tname(tt)), "threads": 2}), |e| { e["x"] = sp_json(&p2.install(|| inv_triangular(tt, &a))); });
            // the same matrix as [A B; C D] with r = 2 (its leading block is unit triangular)
            emit::<i64>(t, st, "schur", json!({"t": tname(tt), "m": sp_json(&a), "r": 2, "id": format!("c{}", tname(tt)), "threads": 2}), |e| {
                let sch = Schur::from_partial_triangular(tt, &a, 2, true);
                let [a0, b0, _, _] = a.divide4((2, 2));
                let x = solve_triangular(tt, &a0, &b0);
                let (s, ts, tg) = sch.disassemble(); let (ts, tg) = (ts.unwrap(), tg.unwrap());
                e["s"] = sp_json(&s); e["x"] = sp_json(&x);
                e["tr"] = json!({"with": true, "fsrc": sp_json(&ts.forward_mat()), "bsrc": sp_json(&ts.backward_mat()), "ftgt": sp_json(&tg.forward_mat()), "btgt": sp_json(&tg.backward_mat())});
            });
        }
    }
}

pub fn record(a: &Args) {
    let mut t = Tracer::create(&a.out);
    let mut st = Stats::default();
    let (ncases, maxn) = if a.thorough() { (80, 9) } else { (10, 5) };
    let mut cid = 0;
    let en: Vec<Value> = a.inp.as_ref().map(|p| read_ndjson(p)).unwrap_or_default();
    let step = if a.thorough() { 1 } else { 9 };
    let picked: Vec<Value> = en.into_iter().enumerate().filter(|(i, c)| c.get("pat").is_some() || i % step == 0).map(|(_, c)| c).collect();
    enumerated(&mut t, &mut st, &mut cid, &picked);
    macro_rules! run { ($t:ty, $salt:expr) => {{ let mut rng = a.rng($salt); for _ in 0..ncases { cid += 1; case::<$t>(&mut rng, &mut t, &mut st, cid, maxn); } }} }
    run!(i64, 1); run!(Ratio<i64>, 2); run!(FF<5>, 3); run!(GaussInt<i64>, 4);
    let n = t.finish();
    summary("record", json!({"events": n, "cases": st.cases, "panics": st.panics, "schur_with_r_0_or_max": st.r_extreme, "diagonal_units_other_than_1": st.nonunit_diag, "thread_pools": [1, 2, 16], "types": ["i64", "Ratio<i64>", "FF<5>", "GaussInt<i64>"]}));
}
