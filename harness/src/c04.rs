//! C04 — jones_polynomial and the graded Euler characteristic of Khovanov homology vs spec/sys/Jones.tla.
//!
//! record (impl -> spec): histories on catalogue diagrams and braid closures: the library's polynomial, the free
//!   ranks of its bigraded Khovanov homology (two routes), then isotopy moves (R1 kinks, renumber, reorder,
//!   braid relations / Markov moves on the word), mirror, disjoint union, with polynomial and table after each.
//! replay (spec -> impl): TLC-computed state-sum polynomials for the small family of Gen_Jones.
use crate::c18::{data_from_json, data_json, data_of, disjoint, kink, link_of, load_pd, Data};
use crate::util::*;
use rand::rngs::StdRng;
use rand::seq::SliceRandom;
use rand::Rng;
use serde_json::{json, Value};
use std::collections::{BTreeMap, BTreeSet};
use yui::poly::Mono;
use yui_homology::{GridTrait, SummandTrait};
use yui_kh::kh::{KhComplexBigraded, KhHomologyBigraded};
use yui_link::util::jones_polynomial;
use yui_link::{Braid, Generator, Link};

pub fn jones_pairs(l: &Link) -> Value {
    let p = jones_polynomial(l);
    let m: BTreeMap<i64, i64> = p.iter().map(|(x, c)| (x.deg() as i64, *c as i64)).filter(|(_, c)| *c != 0).collect();
    json!(m.into_iter().map(|(k, c)| [k, c]).collect::<Vec<_>>())
}
/// free ranks per bidegree of Kh over Z; route 0: KhHomologyBigraded::new (total homology split by degree),
/// route 1: KhComplexBigraded::new(..).homology() (homology of the bigraded complex)
pub fn kh_table(l: &Link, route: u64) -> Value {
    let mut rows: Vec<[i64; 3]> = vec![];
    if route == 0 {
        let h = KhHomologyBigraded::<i64>::new(l, &0, &0, false);
        for idx in h.support() { let r = h[(idx.0, idx.1)].rank(); if r > 0 { rows.push([idx.0 as i64, idx.1 as i64, r as i64]); } }
    } else {
        let h = KhComplexBigraded::<i64>::new(l, &0, &0, false).homology();
        for idx in h.support() { let r = h[(idx.0, idx.1)].rank(); if r > 0 { rows.push([idx.0 as i64, idx.1 as i64, r as i64]); } }
    }
    rows.sort();
    json!(rows)
}

struct Rec<'a> { t: &'a mut Tracer, cur: Link, panics: usize, tables: usize, polys: usize }
impl<'a> Rec<'a> {
    fn emit(&mut self, mut e: Value, ok: Result<(), String>) {
        match ok { Ok(()) => { e["res"] = json!("ok"); } Err(m) => { e["res"] = json!("panic"); e["panic"] = json!(m); self.panics += 1; } }
        e["d"] = data_json(&data_of(&self.cur));
        self.t.emit(&e);
    }
    /// replace the object by f() and record the library's polynomial of the new object under key "p"
    fn set(&mut self, mut e: Value, f: impl FnOnce() -> Link) {
        match guarded(|| { let l = f(); let p = jones_pairs(&l); (l, p) }) {
            Ok((l, p)) => { self.cur = l; e["p"] = p; self.polys += 1; self.emit(e, Ok(())) }
            Err(m) => { e["p"] = json!([]); self.emit(e, Err(m)) }
        }
    }
    fn kh(&mut self, route: u64) {
        let l = self.cur.clone();
        match guarded(|| kh_table(&l, route)) {
            Ok(t) => { self.tables += 1; self.emit(json!({"op": "kh", "route": route, "tab": t}), Ok(())) }
            Err(m) => self.emit(json!({"op": "kh", "route": route, "tab": []}), Err(m)),
        }
    }
    fn again(&mut self) {
        let l = self.cur.clone();
        match guarded(|| jones_pairs(&l)) { Ok(p) => { self.polys += 1; self.emit(json!({"op": "jagain", "p": p}), Ok(())) } Err(m) => self.emit(json!({"op": "jagain", "p": []}), Err(m)) }
    }
}

fn mk(v: Vec<[usize; 4]>) -> Data { v.into_iter().map(|e| ("X".to_string(), e)).collect() }
fn summands() -> Vec<Data> {
    vec![mk(vec![[1, 1, 2, 2]]), mk(vec![[1, 2, 2, 1]]), mk(vec![[4, 1, 3, 2], [2, 3, 1, 4]]), mk(vec![[1, 4, 2, 5], [3, 6, 4, 1], [5, 2, 6, 3]]), mk(vec![[0, 2, 3, 1], [3, 2, 0, 1]])]
}
fn edges_of(d: &Data) -> Vec<usize> { let s: BTreeSet<usize> = d.iter().flat_map(|(_, e)| e.iter().cloned()).collect(); s.into_iter().collect() }

fn diagram_move(r: &mut Rec, rng: &mut StdRng, max_cross: usize) {
    let d = data_of(&r.cur); let n = d.len(); let es = edges_of(&d);
    if n == 0 { return; }
    match rng.gen_range(0..8) {
        0 | 1 => { let l = r.cur.clone(); r.set(json!({"op": "jmirror"}), move || l.mirror()); }
        2 => {
            let mut new: Vec<usize> = if rng.gen_bool(0.5) { (0..es.len()).collect() } else { (0..es.len()).map(|i| 500 + 3 * i).collect() };
            new.shuffle(rng);
            let f: BTreeMap<usize, usize> = es.iter().cloned().zip(new.into_iter()).collect();
            let nd: Data = d.iter().map(|(t, e)| (t.clone(), e.map(|x| f[&x]))).collect();
            let pairs: Vec<[usize; 2]> = f.iter().map(|(a, b)| [*a, *b]).collect();
            r.set(json!({"op": "jrenumber", "f": pairs}), move || link_of(&nd));
        }
        3 => {
            let mut pi: Vec<usize> = (1..=n).collect(); pi.shuffle(rng);
            let nd: Data = pi.iter().map(|i| d[i - 1].clone()).collect();
            r.set(json!({"op": "jreorder", "pi": pi}), move || link_of(&nd));
        }
        4 | 5 | 6 if n < max_cross => {
            let x = *es.choose(rng).unwrap(); let kind = ["u-", "u+", "o-", "o+"][rng.gen_range(0..4)];
            let nd = kink(&d, x, kind);
            r.set(json!({"op": "jkink", "x": x, "kind": kind}), move || link_of(&nd));
        }
        7 => {
            let s = summands(); let s = s.choose(rng).unwrap().clone();
            if n + s.len() > max_cross { return; }
            let p2 = match guarded(|| jones_pairs(&link_of(&s))) { Ok(p) => p, Err(_) => return };
            let nd = disjoint(&d, &s);
            let pd: Vec<Vec<usize>> = s.iter().map(|(_, e)| e.to_vec()).collect();
            r.set(json!({"op": "jdisjoint", "pd": pd, "p2": p2}), move || link_of(&nd));
        }
        _ => {}
    }
}

fn no_free_loop(n: usize, w: &[i32]) -> bool { (1..=n).all(|i| w.iter().any(|g| { let a = g.unsigned_abs() as usize; a == i || a + 1 == i })) }
fn closure_of(n: usize, w: &[i32]) -> Link { Braid::new(n, w.iter().map(|g| Generator::from(*g)).collect()).closure() }

/// one isotopy move on the braid word (the harness' own rewriting; TLC re-checks that it is an instance of the move)
fn word_move(rng: &mut StdRng, n: usize, w: &[i32], max_len: usize) -> Option<(Value, usize, Vec<i32>)> {
    let len = w.len();
    let sg = |x: i32| if x > 0 { 1 } else { -1 };
    for _ in 0..20 {
        match rng.gen_range(0..6) {
            0 if len > 0 => { let mut v = w[1..].to_vec(); v.push(w[0]); return Some((json!({"kind": "conj"}), n, v)); }
            1 if len < max_len && n < 9 => { let s = if rng.gen_bool(0.5) { 1 } else { -1 }; let mut v = w.to_vec(); v.push(s * n as i32); return Some((json!({"kind": "stab", "s": s}), n + 1, v)); }
            2 if len + 2 <= max_len => { let k = rng.gen_range(0..=len); let g = rng.gen_range(1..n) as i32 * if rng.gen_bool(0.5) { 1 } else { -1 };
                let mut v = w[..k].to_vec(); v.push(g); v.push(-g); v.extend_from_slice(&w[k..]); return Some((json!({"kind": "pair", "k": k, "g": g}), n, v)); }
            3 => { let ks: Vec<usize> = (1..len).filter(|k| (w[k - 1].abs() - w[*k].abs()).abs() >= 2).collect();
                if let Some(k) = ks.choose(rng) { let mut v = w.to_vec(); v.swap(k - 1, *k); return Some((json!({"kind": "comm", "k": k}), n, v)); } }
            _ => { let ks: Vec<usize> = (1..len.saturating_sub(1)).filter(|k| { let (a, b, c) = (w[k - 1], w[*k], w[k + 1]);
                        a.abs() == c.abs() && (a.abs() - b.abs()).abs() == 1 && (sg(a) == sg(b) || sg(b) == sg(c)) }).collect();
                if let Some(k) = ks.choose(rng) { let (a, b, c) = (w[k - 1], w[*k], w[k + 1]);
                    let mut v = w.to_vec(); v[k - 1] = sg(c) * b.abs(); v[*k] = sg(b) * a.abs(); v[k + 1] = sg(a) * b.abs();
                    return Some((json!({"kind": "braid", "k": k}), n, v)); } }
        }
    }
    None
}

fn random_word(rng: &mut StdRng, n: usize, len: usize) -> Vec<i32> {
    loop {
        let mut w: Vec<i32> = vec![];
        while w.len() < len {
            let g = rng.gen_range(1..n) as i32 * if rng.gen_bool(0.5) { 1 } else { -1 };
            w.push(g);
            // seed braid-relation patterns a b a
            if rng.gen_range(0..3) == 0 && w.len() + 2 <= len { let b = if (g.abs() as usize) + 1 < n && rng.gen_bool(0.5) { g.abs() + 1 } else if g.abs() > 1 { g.abs() - 1 } else { g.abs() + 1 };
                if (b as usize) < n { w.push(b * g.signum()); w.push(g); } }
        }
        w.truncate(len);
        if no_free_loop(n, &w) { return w; }
    }
}

pub fn record(a: &Args) {
    let th = a.thorough();
    let abs_n: usize = a.flag("--abs-n").and_then(|s| s.parse().ok()).unwrap_or(8);
    let mut t = Tracer::create(&a.out);
    let mut rng = a.rng(4);
    let (mut hist, mut panics, mut tables, mut polys, mut max_n, mut abs_checked) = (0usize, 0usize, 0usize, 0usize, 0usize, 0usize);
    let names = crate::c18::catalogue();
    let size: BTreeMap<String, usize> = names.iter().map(|n| (n.clone(), load_pd(n).len())).collect();
    let mut small: Vec<String> = names.iter().filter(|n| size[*n] <= abs_n).cloned().collect();
    let mut big: Vec<String> = names.iter().filter(|n| size[*n] > abs_n).cloned().collect();
    small.shuffle(&mut rng); big.shuffle(&mut rng);
    let picked: Vec<String> = if th { small.iter().cloned().chain(big.iter().filter(|n| size[*n] <= 10).cloned()).chain(big.iter().filter(|n| size[*n] > 10).take(150).cloned()).collect() }
                              else { let mut v: Vec<String> = ["3_1", "4_1", "5_1", "5_2", "L2a1", "L4a1", "L5a1", "L6a4", "L6n1"].iter().map(|s| s.to_string()).filter(|s| names.contains(s)).collect();
                                     let keep = v.clone();
                                     v.extend(small.iter().filter(|s| !keep.contains(s)).take(20).cloned()); v.extend(big.iter().take(25).cloned()); v };
    let mut run = |t: &mut Tracer, first: Value, mk0: Box<dyn FnOnce() -> Link>, rng: &mut StdRng, word: Option<(usize, Vec<i32>)>, nmoves: usize, max_cross: usize| {
        t.emit(&json!({"op": "reset", "res": "ok", "d": []}));
        let mut r = Rec { t, cur: Link::empty(), panics: 0, tables: 0, polys: 0 };
        let is_closure = first["op"] == "jclosure";
        match guarded(|| { let l = mk0(); let p = jones_pairs(&l); (l, p) }) {
            Ok((l, p)) => {
                r.cur = l; r.polys += 1;
                let mut e = first; e["p"] = p;
                if is_closure { e["pd"] = json!(data_of(&r.cur).iter().map(|(_, e)| e.to_vec()).collect::<Vec<_>>()); }
                let n0 = r.cur.data().len(); max_n = max_n.max(n0); if n0 <= abs_n { abs_checked += 1; }
                r.emit(e, Ok(()));
                r.kh(0);
                if n0 <= 10 || rng.gen_range(0..4) == 0 { r.kh(1); }
                if rng.gen_range(0..4) == 0 { r.again(); }
                let mut w = word;
                for _ in 0..nmoves {
                    let use_word = w.is_some() && rng.gen_range(0..3) != 0;
                    if use_word {
                        let (n, ww) = w.clone().unwrap();
                        if let Some((mv, n2, w2)) = word_move(rng, n, &ww, max_cross) {
                            if !no_free_loop(n2, &w2) { continue; }
                            let (nn, wv) = (n2, w2.clone());
                            let before = r.panics;
                            // the closure's code is part of the event: filled after the call
                            let l = guarded(move || closure_of(nn, &wv));
                            match l { Ok(l) => { let pd = json!(data_of(&l).iter().map(|(_, e)| e.to_vec()).collect::<Vec<_>>());
                                                 r.set(json!({"op": "jword", "mv": mv, "n": n2, "word": w2, "pd": pd}), move || l); }
                                      Err(m) => { r.emit(json!({"op": "jword", "mv": mv, "n": n2, "word": w2, "pd": [], "p": []}), Err(m)); } }
                            if r.panics == before { w = Some((n2, w2)); }
                        }
                    } else {
                        let before = r.t.n;
                        diagram_move(&mut r, rng, max_cross);
                        if r.t.n != before { w = None; }
                    }
                    if rng.gen_range(0..2) == 0 { r.kh(rng.gen_range(0..2)); }
                }
                r.kh(0);
            }
            Err(m) => { let mut e = first; e["p"] = json!([]); if is_closure { e["pd"] = json!([]); } r.emit(e, Err(m)); }
        }
        panics += r.panics; tables += r.tables; polys += r.polys; hist += 1;
    };
    // special small codes
    let special: Vec<Vec<[usize; 4]>> = vec![vec![[0, 0, 1, 1]], vec![[0, 1, 1, 0]], vec![[4, 1, 3, 2], [2, 3, 1, 4]], vec![[1, 2, 3, 4], [3, 2, 1, 4]],
        vec![[1, 5, 2, 8], [5, 3, 6, 2], [3, 7, 4, 6], [7, 1, 8, 4]], vec![[0, 2, 3, 1], [3, 2, 0, 1]], vec![[0, 0, 1, 1], [2, 3, 3, 2], [10, 11, 11, 10]]];
    for pd in special.iter() { let p = pd.clone(); run(&mut t, json!({"op": "jload", "pd": pd}), Box::new(move || Link::from_pd_code(p)), &mut rng, None, 4, 6); }
    for name in picked.iter() {
        let pd = load_pd(name); let n = pd.len(); let p = pd.clone();
        run(&mut t, json!({"op": "jload", "pd": pd, "name": name}), Box::new(move || Link::from_pd_code(p)), &mut rng, None, if n <= abs_n { 3 } else { 2 }, n + 2);
    }
    // braid closures
    let mut words: Vec<(usize, Vec<i32>)> = vec![(2, vec![1]), (2, vec![1, -1]), (2, vec![1, 1, 1]), (3, vec![1, 2, 1]), (3, vec![1, -2, 1, -2]), (3, vec![1, 2, -1, -2]),
        (4, vec![1, 3, 2]), (4, vec![1, 2, 1, 3, 2, 1]), (5, vec![1, 2, 3, 4]), (3, vec![1, 2, 1, 2, 1, 2])];
    let nrand = if th { 250 } else { 30 };
    for _ in 0..nrand { let n: usize = rng.gen_range(2..=if th { 6 } else { 5 }); let len = rng.gen_range((n + 1) / 2..=if th { 10 } else { 8 }); words.push((n, random_word(&mut rng, n, len.max(n - 1)))); }
    for (n, w) in words.iter() {
        let (nn, ww) = (*n, w.clone());
        run(&mut t, json!({"op": "jclosure", "n": n, "word": w}), Box::new(move || closure_of(nn, &ww)), &mut rng, Some((*n, w.clone())), 4, w.len() + 3);
    }
    let n = t.finish();
    summary("record", json!({"events": n, "histories": hist, "catalogue_diagrams": picked.len(), "braid_words": words.len(), "special_codes": special.len(),
        "polynomials": polys, "kh_tables": tables, "roots_within_abs_bound": abs_checked, "abs_n": abs_n, "max_crossings": max_n, "panics": panics}));
}

/// Input lines: {"kind":"jones", "d":[{t,e}..], "p":[[k,c]..]}
pub fn replay(a: &Args) {
    let lines = read_ndjson(a.inp.as_ref().expect("--in"));
    let mut t = Tracer::create(&a.out);
    let (mut n, mut bad) = (0usize, 0usize);
    for ln in lines.iter() {
        if ln["kind"] != "jones" { continue; }
        n += 1;
        let d = data_from_json(&ln["d"]);
        let mut exp: Vec<[i64; 2]> = ln["p"].as_array().unwrap().iter().map(|x| [x[0].as_i64().unwrap(), x[1].as_i64().unwrap()]).collect();
        exp.sort();
        let got = guarded(|| jones_pairs(&link_of(&d)));
        let ok = match &got { Ok(p) => *p == json!(exp), Err(_) => false };
        if !ok { bad += 1; let v = json!({"what": "jones", "case": ln, "got": match got { Ok(p) => p, Err(m) => json!({"panic": m}) }}); mismatch(v.clone()); t.emit(&v); }
    }
    t.finish();
    summary("replay", json!({"cases": n, "mismatches": bad}));
}
