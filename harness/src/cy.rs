//! Further extensions of the specification beyond the listed properties (second batch):
//!   * yui::IndexList                         <-> spec/sys/IndexListM.tla   (run inside C07)
//!   * yui_homology::Grid / GridDeg           <-> spec/sys/GridM.tla        (run inside C07)
//!   * yui_link::Path                         <-> spec/sys/PathM.tla        (run inside C18)
//!   * yui::Sign, util::format::{subscript, superscript, paren_expr, lc}  <-> spec/sys/SignFmt.tla (run inside C16)
//!   * yui_kh Tng / TngComp                   <-> spec/sys/TngM.tla         (run inside C18)
//! Every driver has the two directions of the framework: `*_replay` (TLC-generated behaviours with expected
//! answers replayed on the real type) and `*_record` (seeded histories of the real type, one ndjson event per call,
//! validated by the trace spec).  Panics are events.
use crate::util::*;
use rand::rngs::StdRng;
use rand::seq::SliceRandom;
use rand::Rng;
use serde_json::{json, Value};
use yui::IndexList;

fn i64s(v: &Value) -> Vec<i64> { v.as_array().map(|a| a.iter().map(|x| x.as_i64().unwrap()).collect()).unwrap_or_default() }
fn res_of<T>(r: &Result<T, String>) -> &'static str { if r.is_ok() { "ok" } else { "panic" } }
/// event with `res` and, when the call returned, `out` (no nulls in the trace)
fn ev<T: serde::Serialize>(mut e: Value, r: Result<T, String>) -> Value { e["res"] = json!(res_of(&r)); if let Ok(v) = r { e["out"] = json!(v); } e }

// =====================================================================================================================
// IndexList
// =====================================================================================================================

/// The list under test over two element types (i64 and String keys "s<n>"): every answer is projected back to i64.
enum IL { I(IndexList<i64>), S(IndexList<String>) }
fn skey(x: i64) -> String { format!("s{}", x) }
fn sval(s: &str) -> i64 { s[1..].parse().unwrap() }
impl IL {
    fn from_iter(xs: &[i64], strings: bool) -> IL { if strings { IL::S(xs.iter().map(|x| skey(*x)).collect()) } else { IL::I(xs.iter().cloned().collect()) } }
    fn new(strings: bool) -> IL { if strings { IL::S(IndexList::new()) } else { IL::I(IndexList::new()) } }
    fn len(&self) -> usize { match self { IL::I(l) => l.len(), IL::S(l) => l.len() } }
    fn is_empty(&self) -> bool { match self { IL::I(l) => l.is_empty(), IL::S(l) => l.is_empty() } }
    fn contains(&self, x: i64) -> bool { match self { IL::I(l) => l.contains(&x), IL::S(l) => l.contains(&skey(x)) } }
    fn index_of(&self, x: i64) -> i64 { match self { IL::I(l) => l.index_of(&x), IL::S(l) => l.index_of(&skey(x)) }.map(|i| i as i64).unwrap_or(-1) }
    fn iter(&self) -> Vec<i64> { match self { IL::I(l) => l.iter().cloned().collect(), IL::S(l) => l.iter().map(|s| sval(s)).collect() } }
    fn at(&self, i: usize) -> i64 { match self { IL::I(l) => l[i], IL::S(l) => sval(&l[i]) } }
    fn into_iter_of_clone(&self) -> Vec<i64> { match self { IL::I(l) => l.clone().into_iter().collect(), IL::S(l) => l.clone().into_iter().map(|s| sval(&s)).collect() } }
    fn eq_to(&self, ys: &[i64]) -> bool { match self { IL::I(l) => *l == ys.iter().cloned().collect::<IndexList<i64>>(), IL::S(l) => *l == ys.iter().map(|x| skey(*x)).collect::<IndexList<String>>() } }
    fn debug(&self) -> String { match self { IL::I(l) => format!("{:?}", l), IL::S(l) => format!("{:?}", l) } }
}

/// spec -> impl: TLC's expected answers for every small argument of from_iter.
pub fn indexlist_replay(a: &Args) {
    let lines = read_ndjson(a.inp.as_ref().expect("--in"));
    let (mut checks, mut bad, mut dups) = (0usize, 0usize, 0usize);
    let mut dup_obs: std::collections::BTreeMap<String, usize> = Default::default();
    for ln in lines.iter() {
        let xs = i64s(&ln["xs"]);
        for strings in [false, true] {
            if ln["dup"].as_bool().unwrap() {
                // no contract: record what happens (len, whether iteration survives)
                dups += 1;
                let l = IL::from_iter(&xs, strings);
                let n = guarded(|| l.len());
                let it = guarded(|| l.iter());
                let distinct = { let mut s = xs.clone(); s.sort(); s.dedup(); s.len() };
                let k = format!("len={} iter={}", match n { Ok(n) if n == distinct => "number of distinct elements", Ok(n) if n == xs.len() => "length of the input", Ok(_) => "other", Err(_) => "panic" },
                                match &it { Ok(v) if v.len() == distinct => "distinct elements", Ok(_) => "other", Err(_) => "panic" });
                *dup_obs.entry(k).or_insert(0) += 1;
                continue;
            }
            let mut diff: Vec<Value> = vec![];
            let mut cmp = |what: &str, got: Result<Value, String>, want: Value| {
                checks += 1;
                match got { Ok(g) if g == want => {}, Ok(g) => diff.push(json!({"what": what, "got": g, "want": want})), Err(m) => diff.push(json!({"what": what, "panic": m, "want": want})) }
            };
            let l = IL::from_iter(&xs, strings);
            cmp("len", guarded(|| json!(l.len())), ln["len"].clone());
            cmp("is_empty", guarded(|| json!(l.is_empty())), json!(xs.is_empty()));
            cmp("iter", guarded(|| json!(l.iter())), ln["xs"].clone());
            cmp("into_iter", guarded(|| json!(l.into_iter_of_clone())), ln["xs"].clone());
            cmp("debug", guarded(|| json!(l.debug())), json!(if strings { format!("{:?}", xs.iter().map(|x| skey(*x)).collect::<Vec<_>>()) } else { format!("{:?}", xs) }));
            for (k, want) in ln["index_of"].as_array().unwrap().iter().enumerate() {
                let x = k as i64 + 1;
                cmp(&format!("index_of({})", x), guarded(|| json!(l.index_of(x))), want.clone());
                cmp(&format!("contains({})", x), guarded(|| json!(l.contains(x))), json!(want.as_i64().unwrap() >= 0));
            }
            for (i, want) in ln["at"].as_array().unwrap().iter().enumerate() {
                let r = guarded(|| l.at(i));
                checks += 1;
                let w = want.as_i64().unwrap();
                match (r, w) { (Ok(g), w) if w >= 0 && g == w => {}, (Err(_), -1) => {},
                    (r, _) => diff.push(json!({"what": format!("list[{}]", i), "got": r.ok(), "want": want})) }
            }
            if !diff.is_empty() { bad += 1; mismatch(json!({"case": ln, "strings": strings, "diff": diff})); }
        }
    }
    summary("replay", json!({"lists": lines.len(), "checks": checks, "mismatches": bad, "lists_with_repetition_observed": dups, "repetition_observations": dup_obs}));
}

/// impl -> spec: seeded histories (lists of up to 40 elements, negative elements, both element types).
pub fn indexlist_record(a: &Args) {
    let mut t = Tracer::create(&a.out);
    let nh = if a.thorough() { 400 } else { 60 };
    let (mut panics, mut dup_hist) = (0usize, 0usize);
    for h in 0..nh {
        let mut rng = a.rng(7100 + h);
        let strings = h % 2 == 1;
        t.emit(&json!({"op":"reset","res":"ok","strings":strings}));
        let mut l = IL::new(strings);
        let range = *[3i64, 8, 60].choose(&mut rng).unwrap();
        let pick = |rng: &mut StdRng| if strings { rng.gen_range(0..=range) } else { rng.gen_range(-range..=range) };
        let nops = rng.gen_range(8..30);
        for k in 0..nops {
            let op = if k == 0 { 0 } else { rng.gen_range(0..12) };
            match op {
                0 | 1 => {
                    // mostly without repetition (a shuffled sample); one history in ten hands over a repeated element
                    let n = rng.gen_range(0..=(2 * range as usize + 1).min(40));
                    let mut pool: Vec<i64> = if strings { (0..=range).collect() } else { (-range..=range).collect() };
                    pool.shuffle(&mut rng);
                    let mut xs: Vec<i64> = pool.into_iter().take(n).collect();
                    if h % 10 == 9 && xs.len() >= 2 && k > 0 { let j = rng.gen_range(1..xs.len()); xs[j] = xs[0]; dup_hist += 1; }
                    if xs.is_empty() && rng.gen_bool(0.5) { l = IL::new(strings); t.emit(&json!({"op":"new","res":"ok"})); }
                    else { l = IL::from_iter(&xs, strings); t.emit(&json!({"op":"from_iter","res":"ok","xs":xs})); }
                }
                2 => { let r = guarded(|| l.len()); t.emit(&ev(json!({"op":"len"}), r)); }
                3 => { let r = guarded(|| l.is_empty()); t.emit(&ev(json!({"op":"is_empty"}), r)); }
                4 => { let x = pick(&mut rng); let r = guarded(|| l.contains(x)); t.emit(&ev(json!({"op":"contains","x":x}), r)); }
                5 | 6 => { let x = pick(&mut rng); let r = guarded(|| l.index_of(x)); t.emit(&ev(json!({"op":"index_of","x":x}), r)); }
                7 => { let r = guarded(|| l.iter()); if r.is_err() { panics += 1; } t.emit(&ev(json!({"op":"iter"}), r)); }
                8 | 9 => { let n = guarded(|| l.len()).unwrap_or(0); let i = rng.gen_range(0..n + 2); let r = guarded(|| l.at(i)); if r.is_err() { panics += 1; }
                           t.emit(&ev(json!({"op":"index","i":i}), r)); }
                10 => { let r = guarded(|| l.into_iter_of_clone()); if r.is_err() { panics += 1; } t.emit(&ev(json!({"op":"into_iter"}), r)); }
                _ => {
                    // compare with a second list: the same sequence, a rotation of it, or one element changed
                    let mut ys = guarded(|| l.iter()).unwrap_or_default();
                    match rng.gen_range(0..3) { 0 => {}, 1 => { if ys.len() > 1 { ys.rotate_left(1); } }, _ => { if !ys.is_empty() { ys.pop(); } } }
                    let r = guarded(|| l.eq_to(&ys)); t.emit(&ev(json!({"op":"eq","ys":ys}), r));
                }
            }
        }
    }
    let n = t.finish();
    summary("record", json!({"events": n, "histories": nh, "histories_with_repetition": dup_hist, "panics": panics}));
}

// =====================================================================================================================
// Grid / GridDeg
// =====================================================================================================================
use std::collections::{BTreeMap, BTreeSet};
use yui_homology::{isize2, isize3, usize2, usize3, Grid, GridDeg, GridTrait};

/// Degree types under test, projected to / built from integer vectors.
trait DegX: GridDeg + std::fmt::Debug {
    const DIM: usize;
    const UNSIGNED: bool;
    fn of(v: &[i64]) -> Self;
    fn to(&self) -> Vec<i64>;
    /// (From<tuple> projected, Into<tuple> projected)
    fn tuple_roundtrip(v: &[i64]) -> (Vec<i64>, Vec<i64>);
    fn truncated(_g: &Grid<Self, i64>, _lo: i64, _hi: i64) -> Option<Grid<Self, i64>> { None }
    /// g[i] through the tuple index sugar where the type has one
    fn index_sugar(g: &Grid<Self, i64>, i: Self) -> i64 { g[i] }
}
impl DegX for isize { const DIM: usize = 1; const UNSIGNED: bool = false;
    fn of(v: &[i64]) -> Self { v[0] as isize } fn to(&self) -> Vec<i64> { vec![*self as i64] }
    fn tuple_roundtrip(v: &[i64]) -> (Vec<i64>, Vec<i64>) { (v.to_vec(), v.to_vec()) }
    fn truncated(g: &Grid<Self, i64>, lo: i64, hi: i64) -> Option<Grid<Self, i64>> { Some(g.truncated(lo as isize..=hi as isize)) } }
impl DegX for usize { const DIM: usize = 1; const UNSIGNED: bool = true;
    fn of(v: &[i64]) -> Self { v[0] as usize } fn to(&self) -> Vec<i64> { vec![*self as i64] }
    fn tuple_roundtrip(v: &[i64]) -> (Vec<i64>, Vec<i64>) { (v.to_vec(), v.to_vec()) } }
impl DegX for isize2 { const DIM: usize = 2; const UNSIGNED: bool = false;
    fn of(v: &[i64]) -> Self { isize2(v[0] as isize, v[1] as isize) } fn to(&self) -> Vec<i64> { vec![self.0 as i64, self.1 as i64] }
    fn tuple_roundtrip(v: &[i64]) -> (Vec<i64>, Vec<i64>) { let d: isize2 = (v[0] as isize, v[1] as isize).into(); let t: (isize, isize) = Self::of(v).into(); (d.to(), vec![t.0 as i64, t.1 as i64]) }
    fn index_sugar(g: &Grid<Self, i64>, i: Self) -> i64 { g[(i.0, i.1)] } }
impl DegX for usize2 { const DIM: usize = 2; const UNSIGNED: bool = true;
    fn of(v: &[i64]) -> Self { usize2(v[0] as usize, v[1] as usize) } fn to(&self) -> Vec<i64> { vec![self.0 as i64, self.1 as i64] }
    fn tuple_roundtrip(v: &[i64]) -> (Vec<i64>, Vec<i64>) { let d: usize2 = (v[0] as usize, v[1] as usize).into(); let t: (usize, usize) = Self::of(v).into(); (d.to(), vec![t.0 as i64, t.1 as i64]) }
    fn index_sugar(g: &Grid<Self, i64>, i: Self) -> i64 { g[(i.0, i.1)] } }
impl DegX for isize3 { const DIM: usize = 3; const UNSIGNED: bool = false;
    fn of(v: &[i64]) -> Self { isize3(v[0] as isize, v[1] as isize, v[2] as isize) } fn to(&self) -> Vec<i64> { vec![self.0 as i64, self.1 as i64, self.2 as i64] }
    fn tuple_roundtrip(v: &[i64]) -> (Vec<i64>, Vec<i64>) { let d: isize3 = (v[0] as isize, v[1] as isize, v[2] as isize).into(); let t: (isize, isize, isize) = Self::of(v).into(); (d.to(), vec![t.0 as i64, t.1 as i64, t.2 as i64]) }
    fn index_sugar(g: &Grid<Self, i64>, i: Self) -> i64 { g[(i.0, i.1, i.2)] } }
impl DegX for usize3 { const DIM: usize = 3; const UNSIGNED: bool = true;
    fn of(v: &[i64]) -> Self { usize3(v[0] as usize, v[1] as usize, v[2] as usize) } fn to(&self) -> Vec<i64> { vec![self.0 as i64, self.1 as i64, self.2 as i64] }
    fn tuple_roundtrip(v: &[i64]) -> (Vec<i64>, Vec<i64>) { let d: usize3 = (v[0] as usize, v[1] as usize, v[2] as usize).into(); let t: (usize, usize, usize) = Self::of(v).into(); (d.to(), vec![t.0 as i64, t.1 as i64, t.2 as i64]) }
    fn index_sugar(g: &Grid<Self, i64>, i: Self) -> i64 { g[(i.0, i.1, i.2)] } }

fn degs_of(v: &Value) -> Vec<Vec<i64>> { v.as_array().map(|a| a.iter().map(i64s).collect()).unwrap_or_default() }
fn iter_json<I: DegX>(it: impl Iterator<Item = (I, i64)>) -> Value { json!(it.map(|(i, e)| json!({"i": i.to(), "e": e})).collect::<Vec<_>>()) }
fn build_grid<I: DegX>(supp: &[Vec<i64>], table: &BTreeMap<Vec<i64>, i64>, dflt: i64, with_default: bool) -> Grid<I, i64> {
    let s: Vec<I> = supp.iter().map(|d| I::of(d)).collect();
    let f = |i: I| *table.get(&i.to()).expect("entry map asked outside the support");
    if with_default { Grid::generate_with_default(s, f, dflt) } else { Grid::generate(s, f) }
}

/// One generated transition on the real Grid<I, i64>: build the pre-state, apply the operation, compare every observer.
fn grid_replay_case<I: DegX>(ln: &Value, checks: &mut usize) -> Vec<Value> {
    let mut diff: Vec<Value> = vec![];
    let last = &ln["last"]; let pre = &last["pre"];
    let supp = degs_of(&pre["supp"]); let dom = degs_of(&pre["dom"]); let vals = i64s(&pre["vals"]); let dflt = pre["dflt"].as_i64().unwrap();
    let stored: BTreeMap<Vec<i64>, i64> = dom.iter().cloned().zip(vals.iter().cloned()).collect();
    // canonical construction of the pre-state: generate on the listed support, remove what is listed but not stored, insert what is stored but not listed
    let mut table = stored.clone();
    for d in supp.iter() { table.entry(d.clone()).or_insert(dflt); }
    let r = guarded(|| {
        let mut g: Grid<I, i64> = build_grid(&supp, &table, dflt, dflt != 0 || supp.len() % 2 == 0);
        for d in supp.iter() { if !stored.contains_key(d) { g.remove(I::of(d)); } }
        for (d, v) in stored.iter() { if !supp.contains(d) { g.insert(I::of(d), *v); } }
        let mut opres = json!({});
        match last["op"].as_str().unwrap() {
            "observe" => {}
            "insert" => g.insert(I::of(&i64s(&last["i"])), last["e"].as_i64().unwrap()),
            "remove" => { let o = g.remove(I::of(&i64s(&last["i"]))); opres = json!({"found": o.is_some(), "out": o.unwrap_or(ln["dflt"].as_i64().unwrap())}); }
            "get_mut_set" => { let e = last["e"].as_i64().unwrap(); let f = match g.get_mut(I::of(&i64s(&last["i"]))) { Some(v) => { *v = e; true } None => false }; opres = json!({"found": f}); }
            "map" => { let (a, b) = (last["a"].as_i64().unwrap(), last["b"].as_i64().unwrap()); g = g.map(|x| a * x + b); }
            "truncated" => { g = I::truncated(&g, last["lo"].as_i64().unwrap(), last["hi"].as_i64().unwrap()).expect("truncated is a Grid1 operation"); }
            o => panic!("unknown op {}", o),
        }
        let degs = degs_of(&ln["degs"]);
        let get: Vec<i64> = degs.iter().map(|d| *g.get(I::of(d))).collect();
        let idx: Vec<i64> = degs.iter().map(|d| g[I::of(d)]).collect();
        let sugar: Vec<i64> = degs.iter().map(|d| I::index_sugar(&g, I::of(d))).collect();
        let sup: Vec<bool> = degs.iter().map(|d| g.is_supported(I::of(d))).collect();
        let support: Vec<Vec<i64>> = g.support().map(|i| i.to()).collect();
        let iter = iter_json(g.iter().map(|(i, e)| (i, *e)));
        let d = *g.get_default();
        let into = iter_json(g.into_iter());
        (opres, get, idx, sugar, sup, support, iter, into, d)
    });
    match r {
        Err(m) => diff.push(json!({"what": "panic", "panic": m})),
        Ok((opres, get, idx, sugar, sup, support, iter, into, d)) => {
            let mut cmp = |what: &str, got: Value, want: &Value| { *checks += 1; if &got != want { diff.push(json!({"what": what, "got": got, "want": want})); } };
            if last["op"] == "remove" { cmp("remove.found", opres["found"].clone(), &last["found"]); if last["found"] == json!(true) { cmp("remove.out", opres["out"].clone(), &last["out"]); } }
            if last["op"] == "get_mut_set" { cmp("get_mut.found", opres["found"].clone(), &last["found"]); }
            cmp("get", json!(get), &ln["get"]); cmp("index", json!(idx), &ln["get"]); cmp("tuple index", json!(sugar), &ln["get"]);
            cmp("is_supported", json!(sup), &ln["sup"]); cmp("get_default", json!(d), &ln["dflt"]);
            if ln["regular"] == json!(true) { cmp("support", json!(support), &ln["support"]); cmp("iter", iter, &ln["iter"]); cmp("into_iter", into, &ln["iter"]); }
        }
    }
    diff
}

pub fn grid_replay(a: &Args) {
    let lines = read_ndjson(a.inp.as_ref().expect("--in"));
    let (mut checks, mut bad, mut irregular) = (0usize, 0usize, 0usize);
    let mut ops: BTreeMap<String, usize> = BTreeMap::new();
    for ln in lines.iter() {
        *ops.entry(ln["last"]["op"].as_str().unwrap().to_string()).or_insert(0) += 1;
        if ln["regular"] != json!(true) { irregular += 1; }
        let diff = match ln["dim"].as_u64().unwrap() { 1 => grid_replay_case::<isize>(ln, &mut checks), 2 => grid_replay_case::<isize2>(ln, &mut checks), _ => grid_replay_case::<isize3>(ln, &mut checks) };
        if !diff.is_empty() { bad += 1; mismatch(json!({"case": ln, "diff": diff})); }
    }
    summary("replay", json!({"transitions": lines.len(), "checks": checks, "mismatches": bad, "irregular_post_states": irregular, "ops": ops}));
}

#[derive(Default)]
struct GridCounters { irregular_ops: usize, listing_observed_irregular: BTreeMap<String, usize> }

fn grid_history<I: DegX>(rng: &mut StdRng, t: &mut Tracer, cnt: &mut GridCounters) {
    let lo = if I::UNSIGNED { 0 } else { -4 };
    let deg = |rng: &mut StdRng| -> Vec<i64> { (0..I::DIM).map(|_| rng.gen_range(lo..=4)).collect() };
    let dj = |d: &Vec<i64>| json!(d);
    t.emit(&json!({"op":"reset","res":"ok","dim":I::DIM,"unsigned":I::UNSIGNED}));
    let mut g: Grid<I, i64> = Grid::default();
    // the driver's own book-keeping (only to choose operations): listed degrees and stored degrees
    let mut listed: Vec<Vec<i64>> = vec![]; let mut stored: BTreeSet<Vec<i64>> = BTreeSet::new();
    let irregular_ok = rng.gen_bool(0.5);       // half of the histories stay in the regular fragment
    for k in 0..rng.gen_range(10..40) {
        let regular = { let s: BTreeSet<_> = listed.iter().cloned().collect(); s.len() == listed.len() && s == stored };
        let op = if k == 0 { rng.gen_range(0..3) } else { rng.gen_range(0..22) };
        match op {
            0 | 1 | 2 => {
                // a box or a random sample as support; an affine entry map; rarely a repeated degree
                let mut supp: Vec<Vec<i64>> = if rng.gen_bool(0.5) {
                    let (a, b) = (rng.gen_range(lo..=2), rng.gen_range(0..4));
                    let mut v = vec![vec![]];
                    for _ in 0..I::DIM { v = v.into_iter().flat_map(|p: Vec<i64>| (a..a + b).map(move |x| { let mut q = p.clone(); q.push(x); q })).collect(); }
                    v.truncate(12); v
                } else { let n = rng.gen_range(0..8); let mut s: Vec<Vec<i64>> = vec![]; for _ in 0..n { let d = deg(rng); if !s.contains(&d) { s.push(d); } } s };
                supp.shuffle(rng);
                if irregular_ok && supp.len() >= 2 && rng.gen_bool(0.15) { let d = supp[0].clone(); supp.push(d); cnt.irregular_ops += 1; }
                let (c0, c1) = (rng.gen_range(-9..10), rng.gen_range(-3..4));
                let table: BTreeMap<Vec<i64>, i64> = supp.iter().map(|d| (d.clone(), c0 + c1 * d.iter().enumerate().map(|(k, x)| (k as i64 + 1) * x).sum::<i64>())).collect();
                let vals: Vec<i64> = supp.iter().map(|d| table[d]).collect();
                match op {
                    0 => { g = build_grid(&supp, &table, 0, false); t.emit(&json!({"op":"generate","res":"ok","supp":supp,"vals":vals,"dflt":0,"with_default":false})); }
                    1 => { let d = rng.gen_range(-5..6); g = build_grid(&supp, &table, d, true); t.emit(&json!({"op":"generate","res":"ok","supp":supp,"vals":vals,"dflt":d,"with_default":true})); }
                    _ => { g = supp.iter().map(|d| (I::of(d), table[d])).collect(); t.emit(&json!({"op":"from_pairs","res":"ok","supp":supp,"vals":vals})); }
                }
                stored = supp.iter().cloned().collect(); listed = supp;
            }
            3 | 4 => {
                // insert: at a listed degree, or (irregular histories) anywhere
                let i = if !listed.is_empty() && (!irregular_ok || rng.gen_bool(0.6)) { listed.choose(rng).unwrap().clone() } else if irregular_ok { deg(rng) } else { continue };
                if !stored.contains(&i) && !irregular_ok { continue; }
                if !listed.contains(&i) { cnt.irregular_ops += 1; }
                let e = rng.gen_range(-20..20);
                g.insert(I::of(&i), e); stored.insert(i.clone());
                t.emit(&json!({"op":"insert","res":"ok","i":dj(&i),"e":e}));
            }
            5 => {
                if !irregular_ok { continue; }
                let i = if !listed.is_empty() && rng.gen_bool(0.7) { listed.choose(rng).unwrap().clone() } else { deg(rng) };
                let o = g.remove(I::of(&i)); if o.is_some() { cnt.irregular_ops += 1; } stored.remove(&i);
                t.emit(&json!({"op":"remove","res":"ok","i":dj(&i),"found":o.is_some(),"out":o.unwrap_or(0)}));
            }
            6 => {
                let i = if !listed.is_empty() && rng.gen_bool(0.7) { listed.choose(rng).unwrap().clone() } else { deg(rng) };
                let e = rng.gen_range(-20..20);
                let f = match g.get_mut(I::of(&i)) { Some(v) => { *v = e; true } None => false };
                t.emit(&json!({"op":"get_mut_set","res":"ok","i":dj(&i),"e":e,"out":f}));
            }
            7 | 8 | 9 => { let i = if !listed.is_empty() && rng.gen_bool(0.6) { listed.choose(rng).unwrap().clone() } else { deg(rng) };
                       let r = guarded(|| match op { 7 => *g.get(I::of(&i)), 8 => g[I::of(&i)], _ => I::index_sugar(&g, I::of(&i)) });
                       t.emit(&ev(json!({"op": if op == 7 { "get" } else { "index" },"i":dj(&i)}), r)); }
            10 => { let r = guarded(|| *g.get_default()); t.emit(&ev(json!({"op":"get_default"}), r)); }
            11 | 12 => { let i = if !listed.is_empty() && rng.gen_bool(0.5) { listed.choose(rng).unwrap().clone() } else { deg(rng) };
                    let r = guarded(|| g.is_supported(I::of(&i))); t.emit(&ev(json!({"op":"is_supported","i":dj(&i)}), r)); }
            13 | 14 | 15 => {
                let name = ["support", "iter", "into_iter"][op - 13];
                let r = guarded(|| match op { 13 => json!(g.support().map(|i| i.to()).collect::<Vec<_>>()), 14 => iter_json(g.iter().map(|(i, e)| (i, *e))), _ => iter_json(g.clone().into_iter()) });
                if !regular { if let Ok(v) = &r {
                    // no contract here: remember how the listing relates to the listed / stored degrees
                    let n = v.as_array().unwrap().len();
                    let k = format!("{}: {}", name, if n == listed.len() { "one item per listed degree" } else if n == stored.len() { "one item per stored degree" } else { "other" });
                    *cnt.listing_observed_irregular.entry(k).or_insert(0) += 1; } }
                t.emit(&ev(json!({"op":name}), r));
            }
            16 | 17 => { if !regular { continue; } let (a, b) = (rng.gen_range(-2..3), rng.gen_range(-3..4)); g = g.map(|x| a * x + b); t.emit(&json!({"op":"map","res":"ok","a":a,"b":b}));
                         t.emit(&json!({"op":"iter","res":"ok","out":iter_json(g.iter().map(|(i, e)| (i, *e)))})); t.emit(&json!({"op":"get_default","res":"ok","out":*g.get_default()})); }
            18 | 19 => { if !regular || I::DIM != 1 || I::UNSIGNED { continue; } let lo = rng.gen_range(-5..4); let hi = rng.gen_range(lo - 1..6);
                    if let Some(h) = I::truncated(&g, lo, hi) { g = h; listed.retain(|d| lo <= d[0] && d[0] <= hi); stored = listed.iter().cloned().collect(); t.emit(&json!({"op":"truncated","res":"ok","lo":lo,"hi":hi}));
                        // the listing right after (the range ends are the interesting degrees)
                        t.emit(&json!({"op":"support","res":"ok","out":g.support().map(|i| i.to()).collect::<Vec<_>>()})); t.emit(&ev(json!({"op":"is_supported","i":[hi]}), guarded(|| g.is_supported(I::of(&[hi]))))); } }
            _ => {
                // degree arithmetic (for the unsigned types only differences that exist)
                let (x, y) = (deg(rng), deg(rng));
                match rng.gen_range(0..6) {
                    0 => { let r = guarded(|| (I::of(&x) + I::of(&y)).to()); t.emit(&ev(json!({"op":"deg_add","a":x,"b":y}), r)); }
                    1 => { let (x, y) = if I::UNSIGNED { (x.iter().zip(y.iter()).map(|(p, q)| p + q).collect::<Vec<_>>(), y) } else { (x, y) };
                           let r = guarded(|| (I::of(&x) - I::of(&y)).to()); t.emit(&ev(json!({"op":"deg_sub","a":x,"b":y}), r)); }
                    2 => { let r = guarded(|| <I as num_traits::Zero>::zero().to()); t.emit(&ev(json!({"op":"deg_zero","n":I::DIM,"default":I::default().to()}), r)); }
                    3 => { let x = if rng.gen_bool(0.3) { vec![0; I::DIM] } else if rng.gen_bool(0.3) { let mut z = vec![0; I::DIM]; z[rng.gen_range(0..I::DIM)] = 1; z } else { x };
                           let r = guarded(|| num_traits::Zero::is_zero(&I::of(&x))); t.emit(&ev(json!({"op":"deg_is_zero","a":x}), r)); }
                    4 => { let y = if rng.gen_bool(0.3) { x.clone() } else if rng.gen_bool(0.5) { let mut z = x.clone(); let k = rng.gen_range(0..I::DIM); z[k] = (z[k] + 1).min(4); z } else { y };
                           let r = guarded(|| match I::of(&x).cmp(&I::of(&y)) { std::cmp::Ordering::Less => -1, std::cmp::Ordering::Equal => 0, _ => 1 });
                           t.emit(&ev(json!({"op":"deg_cmp","a":x,"b":y,"eq": I::of(&x) == I::of(&y)}), r)); }
                    _ => { let r = guarded(|| I::of(&x).to_string()); t.emit(&ev(json!({"op":"deg_show","a":x}), r));
                           let (f, i) = I::tuple_roundtrip(&x); t.emit(&json!({"op":"deg_tuple","res":"ok","a":x,"from":f,"into":i})); }
                }
            }
        }
    }
}

pub fn grid_record(a: &Args) {
    let mut t = Tracer::create(&a.out);
    let nh = if a.thorough() { 600 } else { 90 };
    let mut cnt = GridCounters::default();
    for h in 0..nh {
        let mut rng = a.rng(7300 + h);
        match h % 6 { 0 => grid_history::<isize>(&mut rng, &mut t, &mut cnt), 1 => grid_history::<isize2>(&mut rng, &mut t, &mut cnt), 2 => grid_history::<isize3>(&mut rng, &mut t, &mut cnt),
                      3 => grid_history::<usize>(&mut rng, &mut t, &mut cnt), 4 => grid_history::<usize2>(&mut rng, &mut t, &mut cnt), _ => grid_history::<usize3>(&mut rng, &mut t, &mut cnt) }
    }
    let n = t.finish();
    summary("record", json!({"events": n, "histories": nh, "operations_leaving_the_regular_fragment": cnt.irregular_ops, "listings_observed_on_irregular_grids": cnt.listing_observed_irregular}));
}

// =====================================================================================================================
// Path
// =====================================================================================================================
use yui::bitseq::Bit;
use yui_link::{Braid, Generator, Link, Path, State};

fn codes(s: &str) -> Vec<u32> { s.chars().map(|c| c as u32).collect() }
fn usizes(v: &Value) -> Vec<usize> { v.as_array().map(|a| a.iter().map(|x| x.as_u64().unwrap() as usize).collect()).unwrap_or_default() }
fn path_json(p: &Path) -> Value { json!({"edges": p.edges(), "closed": p.is_circle()}) }
fn path_of(v: &Value) -> Path { Path::new(usizes(&v["edges"]), v["closed"].as_bool().unwrap()) }
/// unoriented / unbased equality computed by the harness only to compare a cycle returned by connect with TLC's
fn same_cycle(a: &[usize], b: &[usize]) -> bool {
    let n = a.len(); if n != b.len() { return false; } if n == 0 { return true; }
    (0..n).any(|r| (0..n).all(|i| a[i] == b[(i + r) % n]) || (0..n).all(|i| a[i] == b[(r + n - i) % n]))
}

/// spec -> impl: every ordered pair of small simple paths with TLC's answers.
pub fn path_replay(a: &Args) {
    let lines = read_ndjson(a.inp.as_ref().expect("--in"));
    let (mut checks, mut bad, mut connects, mut closing, mut panics_expected, mut nonsimple, mut nonsimple_disagree) = (0usize, 0usize, 0usize, 0usize, 0usize, 0usize, 0usize);
    let mut nonsimple_example: Option<Value> = None;
    for ln in lines.iter() {
        let (p, q) = (path_of(&ln["p"]), path_of(&ln["q"]));
        if ln["simple"] != json!(true) {
            // outside the specified domain (a label repeated inside a path): record whether unori_eq still decides cyclic / reversal equality
            nonsimple += 1;
            if let Ok(g) = guarded(|| p.unori_eq(&q)) { if json!(g) != ln["unori_eq"] { nonsimple_disagree += 1; if nonsimple_example.is_none() { nonsimple_example = Some(json!({"p": ln["p"], "q": ln["q"], "unori_eq": g})); } } }
            continue;
        }
        let mut diff: Vec<Value> = vec![];
        {
            let mut cmp = |what: &str, got: Result<Value, String>, want: &Value| { checks += 1;
                match got { Ok(g) if &g == want => {}, Ok(g) => diff.push(json!({"what": what, "got": g, "want": want})), Err(m) => diff.push(json!({"what": what, "panic": m, "want": want})) } };
            cmp("unori_eq", guarded(|| json!(p.unori_eq(&q))), &ln["unori_eq"]);
            cmp("unori_eq (swapped)", guarded(|| json!(q.unori_eq(&p))), &ln["unori_eq"]);
            cmp("is_connectable", guarded(|| json!(p.is_connectable(&q))), &ln["connectable"]);
            cmp("is_connectable_bothends", guarded(|| json!(p.is_connectable_bothends(&q))), &ln["bothends"]);
            cmp("min_edge", guarded(|| json!(p.min_edge())), &ln["min_edge"]);
            cmp("ends", guarded(|| json!(p.ends().map(|(x, y)| vec![x, y]).unwrap_or_default())), &ln["ends"]);
            cmp("len", guarded(|| json!(p.len())), &json!(usizes(&ln["p"]["edges"]).len()));
            cmp("is_arc/is_circle", guarded(|| json!([p.is_arc(), p.is_circle()])), &json!([ln["p"]["closed"] == json!(false), ln["p"]["closed"] == json!(true)]));
            cmp("contains", guarded(|| json!((1..=ln["k"].as_u64().unwrap() as usize + 1).map(|e| p.contains(e)).collect::<Vec<_>>())), &ln["contains"]);
            cmp("reduce", guarded(|| { let mut r = p.clone(); r.reduce(); path_json(&r) }), &ln["reduced"]);
            cmp("display", guarded(|| json!(codes(&p.to_string()))), &ln["shown"]);
        }
        // connect: panic exactly when not connectable; inside the gluing domain the result as specified
        let r = guarded(|| { let mut r = p.clone(); r.connect(q.clone()); r });
        match ln["connect"]["kind"].as_str().unwrap() {
            "panic" => { checks += 1; panics_expected += 1; if let Ok(g) = &r { diff.push(json!({"what": "connect of paths that are not connectable returned", "got": path_json(g)})); } }
            "glued" => { checks += 1; connects += 1;
                let want = &ln["connect"]["out"];
                match &r { Err(m) => diff.push(json!({"what": "connect", "panic": m, "want": want})),
                    Ok(g) => { let ok = if want["closed"] == json!(true) { closing += 1; g.is_circle() && same_cycle(g.edges(), &usizes(&want["edges"])) } else { &path_json(g) == want };
                               if !ok { diff.push(json!({"what": "connect", "got": path_json(g), "want": want})); } } } }
            _ => {}      // connectable but the union is not a simple path: no contract
        }
        if !diff.is_empty() { bad += 1; mismatch(json!({"case": ln, "diff": diff})); }
    }
    summary("replay", json!({"pairs": lines.len(), "checks": checks, "mismatches": bad, "connects": connects, "connects_closing_a_cycle": closing, "connect_panics_expected": panics_expected,
        "pairs_with_repeated_labels_observed": nonsimple, "of_which_unori_eq_differs_from_cyclic_equality": nonsimple_disagree, "example": nonsimple_example}));
}

/// closure of a random braid word in which every strand is touched (so the closure has no free loop and must exist);
/// Err(description) when the library panics on it - the callers record that as an event the specification cannot explain
fn random_braid_link(rng: &mut StdRng) -> Result<(Link, Value), Value> {
    let n = rng.gen_range(2..5usize); let len = rng.gen_range(n - 1..n + 5);
    let mut w: Vec<i32> = (1..n as i32).collect();        // every strand is touched: no free loop
    while w.len() < len { w.push(rng.gen_range(1..n as i32)); }
    w.shuffle(rng);
    let w: Vec<i32> = w.into_iter().map(|g| if rng.gen_bool(0.5) { g } else { -g }).collect();
    let desc = json!({"strands": n, "word": w});
    match guarded(|| Braid::new(n, w.iter().map(|g| Generator::from(*g)).collect()).closure()) { Ok(l) => Ok((l, desc)), Err(m) => Err(json!({"strands": n, "word": w, "panic": m})) }
}

/// impl -> spec: histories on the two registers (long arcs grown by connect until they close up, reduce, rotated / reflected
/// copies for unori_eq) and adjacency of resolution circles / Seifert circles / components of random braid closures.
pub fn path_record(a: &Args) {
    let mut t = Tracer::create(&a.out);
    let nh = if a.thorough() { 500 } else { 70 };
    let (mut panics, mut closed_up, mut adj_calls, mut adj_true) = (0usize, 0usize, 0usize, 0usize);
    for h in 0..nh {
        let mut rng = a.rng(7500 + h);
        t.emit(&json!({"op":"reset","res":"ok"}));
        // a pool of distinct labels in random order: consecutive slices are simple arcs with disjoint interiors
        let mut pool: Vec<usize> = (0..rng.gen_range(6..40usize)).map(|x| x * 3 + rng.gen_range(0..3)).collect(); pool.shuffle(&mut rng);
        let mut at = rng.gen_range(1..4.min(pool.len()));
        let mut p = Path::new(pool[0..at].to_vec(), false);
        t.emit(&json!({"op":"new_p","res":"ok","edges":p.edges(),"closed":false}));
        let mut q = Path::new(vec![pool[0]], rng.gen_bool(0.3));
        t.emit(&json!({"op":"new_q","res":"ok","edges":q.edges(),"closed":q.is_circle()}));
        for _ in 0..rng.gen_range(8..30) {
            match rng.gen_range(0..16) {
                0 | 1 | 2 | 3 => {
                    // next arc: continues p at its tail or head (either direction), sometimes closes it, sometimes unrelated
                    if p.is_circle() || at >= pool.len() { continue; }
                    let (e0, e1) = p.ends().unwrap();
                    let n = rng.gen_range(0..3.min(pool.len() - at) + 1);
                    let mut es: Vec<usize> = pool[at..at + n].to_vec(); at += n;
                    match rng.gen_range(0..6) { 0 | 1 => es.insert(0, e1), 2 => es.insert(0, e0), 3 => { es.insert(0, e1); if e0 != e1 { es.push(e0); } }, 4 => { if es.is_empty() { es.push(e1); } }, _ => { es.insert(0, e0); es.reverse(); } }
                    if es.is_empty() { continue; }
                    if rng.gen_bool(0.4) { es.reverse(); }
                    if es.len() == 1 && p.len() == 1 { continue; }
                    match guarded(|| Path::new(es.clone(), false)) { Ok(x) => { q = x; t.emit(&json!({"op":"new_q","res":"ok","edges":es,"closed":false})); } Err(_) => { t.emit(&json!({"op":"new_q","res":"panic","edges":es})); } }
                    let r = guarded(|| (p.is_connectable(&q), p.is_connectable_bothends(&q)));
                    match r { Ok((c, b)) => t.emit(&json!({"op":"connectable","res":"ok","out":c,"both":b})), Err(_) => t.emit(&json!({"op":"connectable","res":"panic"})) }
                    let r = guarded(|| { let mut x = p.clone(); x.connect(q.clone()); x });
                    match r { Ok(x) => { if x.is_circle() { closed_up += 1; } t.emit(&json!({"op":"connect","res":"ok","out":path_json(&x)})); p = x; }
                              Err(_) => { panics += 1; t.emit(&json!({"op":"connect","res":"panic"})); } }
                }
                4 => { let es: Vec<usize> = vec![]; let r = guarded(|| Path::new(es.clone(), rng.gen_bool(0.5))); if r.is_err() { panics += 1; }
                       t.emit(&json!({"op":"new_q","res":res_of(&r),"edges":es,"closed":false})); if let Ok(x) = r { q = x; } }
                5 => { std::mem::swap(&mut p, &mut q); t.emit(&json!({"op":"swap","res":"ok"})); }
                6 => {
                    // q := a copy of p, rotated / reflected / with two labels exchanged
                    let mut es = p.edges().clone(); let n = es.len();
                    match rng.gen_range(0..5) { 0 => {}, 1 => es.reverse(), 2 => { if n > 0 { es.rotate_left(rng.gen_range(0..n)); } }, 3 => { es.reverse(); if n > 0 { es.rotate_left(rng.gen_range(0..n)); } }, _ => { if n >= 3 { es.swap(0, 2); } } }
                    let c = if rng.gen_bool(0.9) { p.is_circle() } else { !p.is_circle() };
                    q = Path::new(es.clone(), c); t.emit(&json!({"op":"new_q","res":"ok","edges":es,"closed":c}));
                    let r = guarded(|| p.unori_eq(&q)); t.emit(&ev(json!({"op":"unori_eq"}), r));
                }
                7 => { let r = guarded(|| p.unori_eq(&q)); t.emit(&ev(json!({"op":"unori_eq"}), r)); }
                8 => { let r = guarded(|| { let mut x = p.clone(); x.reduce(); x }); match r { Ok(x) => { t.emit(&json!({"op":"reduce","res":"ok","out":path_json(&x)})); if rng.gen_bool(0.3) { p = x; } else { t.emit(&json!({"op":"new_p","res":"ok","edges":p.edges(),"closed":p.is_circle()})); } } Err(_) => { t.emit(&json!({"op":"reduce","res":"panic"})); } } }
                9 => { let r = guarded(|| p.len()); t.emit(&ev(json!({"op":"len"}), r)); }
                10 => { t.emit(&json!({"op":"edges","res":"ok","out":p.edges(),"closed":p.is_circle()})); t.emit(&json!({"op":"kind","res":"ok","arc":p.is_arc(),"circ":p.is_circle()})); }
                11 => { let e = if rng.gen_bool(0.5) { *p.edges().choose(&mut rng).unwrap() } else { rng.gen_range(0..130) }; let r = guarded(|| p.contains(e)); t.emit(&ev(json!({"op":"contains","e":e}), r)); }
                12 => { let r = guarded(|| p.min_edge()); t.emit(&ev(json!({"op":"min_edge"}), r)); }
                13 => { let r = guarded(|| p.ends().map(|(x, y)| vec![x, y]).unwrap_or_default()); t.emit(&ev(json!({"op":"ends"}), r)); }
                14 => { let r = guarded(|| codes(&p.to_string())); t.emit(&ev(json!({"op":"show"}), r)); }
                _ => { let r = guarded(|| (p.is_connectable(&q), p.is_connectable_bothends(&q))); if let Ok((c, b)) = r { t.emit(&json!({"op":"connectable","res":"ok","out":c,"both":b})); } }
            }
        }
        // adjacency on a real diagram: circles of a random resolution, Seifert circles, components
        let (l, desc) = match random_braid_link(&mut rng) { Ok(x) => x, Err(d) => { panics += 1; t.emit(&json!({"op":"braid_closure","res":"panic","link":d})); continue; } };
        let cross: Vec<Vec<usize>> = l.data().iter().map(|x| x.edges().to_vec()).collect();
        // the circle families of the diagram: a panic of the library on a valid diagram is recorded as an event (which the
        // specification cannot explain), it does not take the harness down
        let st0 = State::from_iter((0..l.data().len()).map(|_| if rng.gen_bool(0.5) { Bit::Bit1 } else { Bit::Bit0 }));
        let fams: Vec<(&str, Vec<Path>)> = match guarded(|| vec![("state", l.resolved_by(&st0).components()), ("seifert", l.seifert_circles()), ("components", l.components())]) {
            Ok(f) => f,
            Err(m) => { panics += 1; t.emit(&json!({"op":"circle_families","res":"panic","panic":m,"link":desc})); continue; } };
        for (fam, ps) in fams.iter() { for i in 0..ps.len() { for j in 0..ps.len() {
            if ps.len() > 4 && rng.gen_bool(0.5) { continue; }
            let r = guarded(|| ps[i].is_adj(&ps[j], &l)); adj_calls += 1; if r == Ok(true) { adj_true += 1; }
            t.emit(&ev(json!({"op":"is_adj","family":fam,"link":desc,"cross":cross,"a":path_json(&ps[i]),"b":path_json(&ps[j])}), r));
        } } }
    }
    let n = t.finish();
    summary("record", json!({"events": n, "histories": nh, "panics": panics, "arcs_closed_into_circles": closed_up, "is_adj_calls": adj_calls, "is_adj_true": adj_true}));
}

// =====================================================================================================================
// Sign and the format helpers
// =====================================================================================================================
use yui::util::format::{lc, paren_expr, subscript, superscript};
use yui::{GetSign, Sign};

fn sgn(s: Sign) -> i32 { i32::from(s) }
fn sign_of_int(v: i64) -> Sign { if v == 1 { Sign::Pos } else { Sign::Neg } }

/// spec -> impl: TLC's strings for every integer of a range.
pub fn fmt_replay(a: &Args) {
    let lines = read_ndjson(a.inp.as_ref().expect("--in"));
    let (mut checks, mut bad) = (0usize, 0usize);
    for ln in lines.iter() {
        let mut diff: Vec<Value> = vec![];
        {
            let mut cmp = |what: &str, got: Result<Value, String>, want: &Value| { checks += 1;
                match got { Ok(g) if &g == want => {}, Ok(g) => diff.push(json!({"what": what, "got": g, "want": want})), Err(m) => diff.push(json!({"what": what, "panic": m, "want": want})) } };
            match ln["kind"].as_str().unwrap() {
                "int" => {
                    let n = ln["n"].as_i64().unwrap();
                    cmp("subscript(isize)", guarded(|| json!(codes(&subscript(n as isize)))), &ln["sub"]);
                    cmp("subscript(i32)", guarded(|| json!(codes(&subscript(n as i32)))), &ln["sub"]);
                    cmp("superscript(isize)", guarded(|| json!(codes(&superscript(n as isize)))), &ln["sup"]);
                    cmp("superscript(i64)", guarded(|| json!(codes(&superscript(n)))), &ln["sup"]);
                    if n >= 0 { cmp("subscript(usize)", guarded(|| json!(codes(&subscript(n as usize)))), &ln["sub"]); cmp("superscript(usize)", guarded(|| json!(codes(&superscript(n as usize)))), &ln["sup"]); }
                    cmp("from_parity(i64)", guarded(|| json!(sgn(Sign::from_parity(n)))), &ln["parity"]);
                    cmp("from_parity(i32)", guarded(|| json!(sgn(Sign::from_parity(n as i32)))), &ln["parity"]);
                    if n >= 0 { cmp("from_parity(u64)", guarded(|| json!(sgn(Sign::from_parity(n as u64)))), &ln["parity"]); }
                    if n != 0 { cmp("sign()", guarded(|| json!(sgn(n.sign()))), &ln["sign"]); cmp("sign() i32", guarded(|| json!(sgn((n as i32).sign()))), &ln["sign"]); }
                    let from = guarded(|| sgn(Sign::from(n)));
                    let from8 = if (-128..128).contains(&n) { guarded(|| sgn(Sign::from(n as i8))) } else { from.clone() };
                    checks += 2;
                    for (w, f) in [("Sign::from(i64)", &from), ("Sign::from(i8)", &from8)] {
                        match (ln["from_ok"] == json!(true), f) { (true, Ok(v)) if *v as i64 == n => {}, (false, Err(_)) => {},
                            (_, f) => diff.push(json!({"what": w, "got": f.clone().ok(), "want_ok": ln["from_ok"]})) } }
                }
                "lc" => {
                    let terms: Vec<(String, String)> = ln["terms"].as_array().unwrap().iter().map(|t| (t["xs"].as_str().unwrap().to_string(), t["rs"].as_str().unwrap().to_string())).collect();
                    cmp("lc", guarded(|| json!(codes(&lc(terms.iter().map(|(x, r)| (x.clone(), r.clone())))))), &ln["out"]);
                }
                "paren" => { let s = ln["ss"].as_str().unwrap().to_string(); cmp("paren_expr", guarded(|| json!(codes(&paren_expr(&s)))), &ln["out"]); }
                k => panic!("kind {}", k),
            }
        }
        if !diff.is_empty() { bad += 1; mismatch(json!({"case": ln, "diff": diff})); }
    }
    summary("replay", json!({"cases": lines.len(), "checks": checks, "mismatches": bad}));
}

/// impl -> spec: calls on wide arguments (up to the 32-bit range TLC computes in) and on strings produced by the real coefficient types.
pub fn fmt_record(a: &Args) {
    use yui::{GaussInt, Ratio};
    let mut t = Tracer::create(&a.out);
    let mut rng = a.rng(7700);
    let n_calls = if a.thorough() { 6000 } else { 900 };
    let mut panics = 0usize;
    t.emit(&json!({"op":"reset","res":"ok"}));
    let wide = |rng: &mut StdRng| -> i64 { match rng.gen_range(0..6) { 0 => rng.gen_range(-12..13), 1 => rng.gen_range(-1200..1200), 2 => *[0i64, 9, 10, 11, 99, 100, 101, 999, 1000, 1001, 123456789, 1234567890, 2147483647].choose(rng).unwrap() * if rng.gen_bool(0.5) { 1 } else { -1 },
                                                                      3 => 10i64.pow(rng.gen_range(0..10)) * if rng.gen_bool(0.5) { 1 } else { -1 }, _ => rng.gen_range(-2147483647i64..2147483648) } };
    for _ in 0..n_calls {
        match rng.gen_range(0..14) {
            0 => { let v = *[1i64, -1, 0, 2, -2, 3, 127, -128].choose(&mut rng).unwrap();
                   let r = match rng.gen_range(0..5) { 0 => guarded(|| sgn(Sign::from(v as i8))), 1 => guarded(|| sgn(Sign::from(v as i16))), 2 => guarded(|| sgn(Sign::from(v as i32))), 3 => guarded(|| sgn(Sign::from(v))), _ => guarded(|| sgn(Sign::from(v as isize))) };
                   if r.is_err() { panics += 1; } t.emit(&ev(json!({"op":"sign_from","v":v}), r)); }
            1 => { let s = *[1i64, -1].choose(&mut rng).unwrap(); let r = guarded(|| sgn(-sign_of_int(s))); t.emit(&ev(json!({"op":"sign_neg","s":s}), r));
                   let x = sign_of_int(s); t.emit(&json!({"op":"sign_is","res":"ok","s":s,"pos":x.is_positive(),"neg":x.is_negative()}));
                   let back: (i8, i16, i32, i64, isize) = (x.into(), x.into(), x.into(), x.into(), x.into());
                   t.emit(&json!({"op":"sign_from","res":"ok","v":s,"out":back.0})); t.emit(&json!({"op":"sign_from","res":"ok","v":s,"out":back.1})); t.emit(&json!({"op":"sign_from","res":"ok","v":s,"out":back.2}));
                   t.emit(&json!({"op":"sign_from","res":"ok","v":s,"out":back.3})); t.emit(&json!({"op":"sign_from","res":"ok","v":s,"out":back.4})); }
            2 => { let n = wide(&mut rng); let r = match rng.gen_range(0..3) { 0 => guarded(|| sgn(Sign::from_parity(n))), 1 => guarded(|| sgn(Sign::from_parity(n as i32))), _ => guarded(|| sgn(Sign::from_parity(n as i16 as i64 as i16))) }; t.emit(&ev(json!({"op":"sign_parity","n":n}), r)); }
            3 => { let x = wide(&mut rng); let r = guarded(|| sgn(x.sign())); t.emit(&ev(json!({"op":"sign_of","x":x}), r)); }
            4 => { let (p, q) = (*[1i64, -1].choose(&mut rng).unwrap(), *[1i64, -1].choose(&mut rng).unwrap());
                   let r = guarded(|| match sign_of_int(p).cmp(&sign_of_int(q)) { std::cmp::Ordering::Less => -1, std::cmp::Ordering::Equal => 0, _ => 1 }); t.emit(&ev(json!({"op":"sign_cmp","a":p,"b":q}), r)); }
            5 => { let s = *[1i64, -1].choose(&mut rng).unwrap(); let r = guarded(|| codes(&sign_of_int(s).to_string())); t.emit(&ev(json!({"op":"sign_show","s":s,"dbg":codes(&format!("{:?}", sign_of_int(s)))}), r));
                   t.emit(&json!({"op":"sign_default","res":"ok","out":sgn(Sign::default())})); }
            6 | 7 => { let n = wide(&mut rng); let r = guarded(|| codes(&subscript(n))); if r.is_err() { panics += 1; } t.emit(&ev(json!({"op":"subscript","n":n}), r)); }
            8 | 9 => { let n = wide(&mut rng); let r = guarded(|| codes(&superscript(n as isize))); if r.is_err() { panics += 1; } t.emit(&ev(json!({"op":"superscript","n":n}), r)); }
            10 => { let s = match rng.gen_range(0..5) { 0 => format!("{}", rng.gen_range(-30..30)), 1 => format!("{}", GaussInt::<i64>::new(rng.gen_range(-3..4), rng.gen_range(-3..4))),
                                                         2 => format!("{}", Ratio::<i64>::new(rng.gen_range(-6..7), rng.gen_range(1..5))), 3 => "a + b".to_string(), _ => String::new() };
                    let r = guarded(|| codes(&paren_expr(&s))); t.emit(&ev(json!({"op":"paren_expr","s":codes(&s),"text":s}), r)); }
            _ => {
                // a linear combination printed from the real Display of the coefficient types
                let n = rng.gen_range(0..5);
                let kind = rng.gen_range(0..3);
                let terms: Vec<(String, String)> = (0..n).map(|k| {
                    let x = match rng.gen_range(0..5) { 0 => "1".to_string(), 1 => "x".to_string(), 2 => format!("x{}", subscript(k as isize)), 3 => format!("y{}", superscript(rng.gen_range(-3..12) as isize)), _ => "<e, f>".to_string() };
                    let r = match kind { 0 => format!("{}", rng.gen_range(-3..4)), 1 => format!("{}", GaussInt::<i64>::new(rng.gen_range(-2..3), rng.gen_range(-2..3))), _ => format!("{}", Ratio::<i64>::new(rng.gen_range(-4..5), rng.gen_range(1..4))) };
                    (x, r) }).collect();
                let r = guarded(|| codes(&lc(terms.iter().map(|(x, r)| (x.clone(), r.clone())))));
                t.emit(&ev(json!({"op":"lc","terms":terms.iter().map(|(x, r)| json!({"x":codes(x),"r":codes(r)})).collect::<Vec<_>>(),"text":terms}), r));
            }
        }
    }
    let n = t.finish();
    summary("record", json!({"events": n, "panics": panics}));
}

// =====================================================================================================================
// Tng / TngComp
// =====================================================================================================================
use yui_kh::kh::internal::v2::tng::{Tng, TngComp};
use yui_link::{Crossing, CrossingType};

fn comp_of(v: &Value) -> TngComp { TngComp::from(path_of(v)) }
fn comp_json(c: &TngComp) -> Value { path_json(c.path()) }
fn tng_json(t: &Tng) -> Value { json!(t.comps().map(comp_json).collect::<Vec<_>>()) }
fn tng_of(v: &Value) -> Tng { Tng::new(v.as_array().unwrap().iter().map(comp_of)) }
/// componentwise equality up to orientation (the harness' own comparison of a listing with TLC's)
fn same_listing(got: &Value, want: &Value) -> bool {
    let (g, w) = (got.as_array().unwrap(), want.as_array().unwrap());
    g.len() == w.len() && g.iter().zip(w.iter()).all(|(a, b)| { let (ea, eb) = (usizes(&a["edges"]), usizes(&b["edges"]));
        a["closed"] == b["closed"] && if a["closed"] == json!(true) { same_cycle(&ea, &eb) } else { ea == eb || ea.iter().rev().cloned().collect::<Vec<_>>() == eb } })
}
fn idx_json(i: Option<usize>) -> i64 { i.map(|x| x as i64).unwrap_or(-1) }
fn resolved_crossing(kind: &str, e: &[usize]) -> Crossing { Crossing::new(if kind == "V" { CrossingType::V } else { CrossingType::H }, [e[0], e[1], e[2], e[3]]) }

/// spec -> impl: every small tangle x one operation.
pub fn tng_replay(a: &Args) {
    let lines = read_ndjson(a.inp.as_ref().expect("--in"));
    let (mut checks, mut bad) = (0usize, 0usize);
    let mut ops: BTreeMap<String, usize> = BTreeMap::new();
    for ln in lines.iter() {
        let last = &ln["last"]; let op = last["op"].as_str().unwrap();
        *ops.entry(op.to_string()).or_insert(0) += 1;
        let mut diff: Vec<Value> = vec![];
        let r = guarded(|| {
            let mut t = tng_of(&last["pre"]);
            let mut extra = json!({});
            match op {
                "observe" => {}
                "append_arc" => t.append_arc(comp_of(&last["arc"])),
                "connect" => { let o = tng_of(&last["other"]); let c = t.connected(&o); t.connect(o); extra = json!({"connected": tng_json(&c)}); }
                "remove_at" => { let c = t.remove_at(last["i"].as_u64().unwrap() as usize); extra = json!({"comp": comp_json(&c)}); }
                "convert_edges" => { let (m, b) = (last["mul"].as_i64().unwrap(), last["add"].as_i64().unwrap()); t = t.convert_edges(|e| (b + m * e as i64) as usize); }
                "from_resolved" => { t = Tng::from_resolved(&resolved_crossing(last["kind"].as_str().unwrap(), &usizes(&last["edges"]))); }
                o => panic!("op {}", o),
            }
            let k = ln["k"].as_u64().unwrap() as usize;
            let mut ends: Vec<usize> = t.endpts().into_iter().collect(); ends.sort();
            let probe: Vec<Value> = ln["probe"].as_array().unwrap().iter().map(|p| { let c = comp_of(&p["c"]);
                json!({"c": p["c"], "idx": idx_json(t.index_of(&c)), "conn": idx_json(t.find_comp(|d| d.is_connectable(&c))), "has": t.contains(&c)}) }).collect();
            json!({"out": tng_json(&t), "n": t.ncomps(), "empty": t.is_empty(), "closed": t.is_closed(), "hascirc": t.contains_circle(), "euler": t.euler_num(), "endpts": ends,
                   "find_circle": idx_json(t.find_comp(|c| c.is_circle())), "find_label": (1..=k + 1).map(|e| idx_json(t.find_comp(|c| c.contains(e)))).collect::<Vec<_>>(),
                   "comp": (0..t.ncomps()).map(|i| comp_json(t.comp(i))).collect::<Vec<_>>(), "probe": probe, "extra": extra})
        });
        match r {
            Err(m) => diff.push(json!({"what": "panic", "panic": m})),
            Ok(g) => {
                checks += 1; if !same_listing(&g["out"], &ln["out"]) { diff.push(json!({"what": "components", "got": g["out"], "want": ln["out"]})); }
                if op == "remove_at" { checks += 1; if !same_listing(&json!([g["extra"]["comp"]]), &json!([last["comp"]])) { diff.push(json!({"what": "remove_at result", "got": g["extra"]["comp"], "want": last["comp"]})); } }
                if op == "connect" { checks += 1; if !same_listing(&g["extra"]["connected"], &ln["out"]) { diff.push(json!({"what": "connected", "got": g["extra"]["connected"], "want": ln["out"]})); } }
                let mut cmp = |what: &str, got: &Value, want: &Value| { checks += 1; if got != want { diff.push(json!({"what": what, "got": got, "want": want})); } };
                cmp("comp(i) listing", &g["comp"], &g["out"]);
                for f in ["n", "closed", "hascirc", "euler", "endpts", "find_circle", "find_label"] { cmp(f, &g[f], &ln[f]); }
                cmp("is_empty", &g["empty"], &json!(ln["n"] == json!(0)));
                for (pg, pw) in g["probe"].as_array().unwrap().iter().zip(ln["probe"].as_array().unwrap().iter()) {
                    cmp("index_of", &pg["idx"], &pw["idx"]); cmp("find_comp(connectable)", &pg["conn"], &pw["conn"]); cmp("contains", &pg["has"], &json!(pw["idx"] != json!(-1))); }
            }
        }
        if !diff.is_empty() { bad += 1; mismatch(json!({"case": ln, "diff": diff})); }
    }
    summary("replay", json!({"transitions": lines.len(), "checks": checks, "mismatches": bad, "ops": ops}));
}

fn tng_observe(t: &Tng, tr: &mut Tracer, rng: &mut StdRng) {
    match rng.gen_range(0..7) {
        0 => tr.emit(&json!({"op":"comps","res":"ok","out":tng_json(t)})),
        1 => tr.emit(&json!({"op":"counts","res":"ok","n":t.ncomps(),"empty":t.is_empty(),"closed":t.is_closed(),"hascirc":t.contains_circle(),"euler":t.euler_num()})),
        2 => { let mut e: Vec<usize> = t.endpts().into_iter().collect(); e.shuffle(rng); tr.emit(&json!({"op":"endpts","res":"ok","out":e})); }
        3 => { let i = rng.gen_range(0..t.ncomps() + 2); let r = guarded(|| comp_json(t.comp(i))); tr.emit(&ev(json!({"op":"comp","i":i}), r)); }
        4 => { if t.ncomps() == 0 { return; } let c = t.comp(rng.gen_range(0..t.ncomps())); let mut es = c.path().edges().clone();
               match rng.gen_range(0..4) { 0 => {}, 1 => es.reverse(), 2 => { let n = es.len(); if c.is_circle() { es.rotate_left(rng.gen_range(0..n)); } else { es.reverse(); } }, _ => { if es.len() >= 3 { es.swap(0, 1); } else { es[0] += 1000; } } }
               let d = TngComp::from(Path::new(es, c.is_circle()));
               tr.emit(&json!({"op":"index_of","res":"ok","c":comp_json(&d),"has":t.contains(&d),"out":idx_json(t.index_of(&d))})); }
        5 => tr.emit(&json!({"op":"find_circle","res":"ok","out":idx_json(t.find_comp(|c| c.is_circle()))})),
        _ => { let e = rng.gen_range(0..60); tr.emit(&json!({"op":"find_label","res":"ok","e":e,"out":idx_json(t.find_comp(|c| c.contains(e)))})); }
    }
}

/// impl -> spec: (1) the builder's use: the resolved crossings of a random resolution of a random braid closure glued one by one
/// (the result must be closed); (2) free histories: arcs on fresh labels attached to open ends, circles, remove_at, relabelling.
pub fn tng_record(a: &Args) {
    let mut tr = Tracer::create(&a.out);
    let nh = if a.thorough() { 400 } else { 60 };
    let (mut panics, mut glued_crossings, mut closed_tangles, mut merges3) = (0usize, 0usize, 0usize, 0usize);
    for h in 0..nh {
        let mut rng = a.rng(7900 + h);
        tr.emit(&json!({"op":"reset","res":"ok"}));
        let mut t = Tng::empty();
        if h % 2 == 0 {
            let (l, desc) = match random_braid_link(&mut rng) { Ok(x) => x, Err(d) => { tr.emit(&json!({"op":"braid_closure","res":"panic","link":d})); continue; } };
            let s = State::from_iter((0..l.data().len()).map(|_| if rng.gen_bool(0.5) { Bit::Bit1 } else { Bit::Bit0 }));
            let r = l.resolved_by(&s);
            let mut xs: Vec<&Crossing> = r.data().iter().collect(); xs.shuffle(&mut rng);
            for x in xs {
                let kind = x.ctype().to_string();
                let tx = Tng::from_resolved(x);
                tr.emit(&json!({"op":"from_resolved","res":"ok","kind":kind,"edges":x.edges(),"out":tng_json(&tx),"link":desc}));
                let before = t.ncomps();
                t.connect(tx.clone()); glued_crossings += 1;
                if t.ncomps() + 1 < before + tx.ncomps() && before >= 2 { merges3 += 1; }
                tr.emit(&json!({"op":"connect","res":"ok","other":tng_json(&tx),"out":tng_json(&t)}));
                if rng.gen_bool(0.3) { tng_observe(&t, &mut tr, &mut rng); }
            }
            if t.is_closed() { closed_tangles += 1; }
            tr.emit(&json!({"op":"counts","res":"ok","n":t.ncomps(),"empty":t.is_empty(),"closed":t.is_closed(),"hascirc":t.contains_circle(),"euler":t.euler_num()}));
        } else {
            let mut fresh = 1usize;
            fn take_labels(fresh: &mut usize, n: usize, rng: &mut StdRng) -> Vec<usize> { let mut v = vec![]; for _ in 0..n { *fresh += rng.gen_range(1..3); v.push(*fresh); } v }
            for _ in 0..rng.gen_range(8..30) {
                match rng.gen_range(0..12) {
                    0..=5 => {
                        // an arc on fresh labels, attached at none / one / two open ends (two ends of one component close it up)
                        let mut ends: Vec<usize> = t.endpts().into_iter().collect(); ends.sort(); ends.shuffle(&mut rng);
                        let k = rng.gen_range(0..3usize).min(ends.len());
                        let mut es = take_labels(&mut fresh, rng.gen_range(if k == 2 { 0 } else { 2 - k.min(1) }..3), &mut rng);
                        if k >= 1 { es.insert(0, ends[0]); } if k == 2 { es.push(ends[1]); }
                        if es.len() < 2 { continue; }
                        if rng.gen_bool(0.5) { es.reverse(); }
                        let arc = TngComp::arc(es.clone());
                        let before = t.ncomps();
                        if rng.gen_bool(0.7) { t.append_arc(arc.clone()); if t.ncomps() + 1 == before { merges3 += 1; } tr.emit(&json!({"op":"append_arc","res":"ok","arc":comp_json(&arc),"out":tng_json(&t)})); }
                        else { let o = Tng::from(arc.clone()); t.connect(o.clone()); tr.emit(&json!({"op":"connect","res":"ok","other":tng_json(&o),"out":tng_json(&t)})); }
                    }
                    6 => { let c = TngComp::circ(take_labels(&mut fresh, rng.gen_range(1..4), &mut rng)); let arc = TngComp::arc(take_labels(&mut fresh, 2, &mut rng));
                           let o = Tng::new(vec![c, arc]); t.connect(o.clone()); tr.emit(&json!({"op":"connect","res":"ok","other":tng_json(&o),"out":tng_json(&t)})); }
                    7 => { let c = TngComp::circ(take_labels(&mut fresh, 1, &mut rng)); let r = guarded(|| { let mut u = t.clone(); u.append_arc(c.clone()); u }); if r.is_err() { panics += 1; }
                           tr.emit(&json!({"op":"append_arc","res":res_of(&r),"arc":comp_json(&c)})); }
                    8 => { let i = rng.gen_range(0..t.ncomps() + 1); let r = guarded(|| { let mut u = t.clone(); let c = u.remove_at(i); (u, c) });
                           match r { Ok((u, c)) => { t = u; tr.emit(&json!({"op":"remove_at","res":"ok","i":i,"comp":comp_json(&c),"out":tng_json(&t)})); } Err(_) => { panics += 1; tr.emit(&json!({"op":"remove_at","res":"panic","i":i})); } } }
                    9 => { let (m, b) = if rng.gen_bool(0.5) { (1i64, rng.gen_range(0..50i64)) } else { (-1i64, fresh as i64 + rng.gen_range(1..50i64)) };
                           t = t.convert_edges(|e| (b + m * e as i64) as usize); if m == -1 { fresh = b as usize + 1; } else { fresh += b as usize; }
                           tr.emit(&json!({"op":"convert_edges","res":"ok","mul":m,"add":b,"out":tng_json(&t)})); }
                    10 => { let cs: Vec<TngComp> = vec![TngComp::arc(take_labels(&mut fresh, 2, &mut rng)), TngComp::circ(take_labels(&mut fresh, 2, &mut rng)), TngComp::arc(take_labels(&mut fresh, 3, &mut rng))]; let mut sh = cs.clone(); sh.shuffle(&mut rng);
                            t = Tng::new(sh.clone()); tr.emit(&json!({"op":"new","res":"ok","comps":sh.iter().map(comp_json).collect::<Vec<_>>(),"out":tng_json(&t)})); }
                    _ => { let mut ends: Vec<usize> = t.endpts().into_iter().collect(); ends.sort(); if ends.is_empty() { continue; }
                           let arc = TngComp::arc(vec![*ends.choose(&mut rng).unwrap(), 100000]); tr.emit(&json!({"op":"find_conn","res":"ok","arc":comp_json(&arc),"out":idx_json(t.find_comp(|c| c.is_connectable(&arc)))})); }
                }
                tng_observe(&t, &mut tr, &mut rng);
            }
        }
    }
    // outside the machine's domain (recorded as an observation): a tangle made by Tng::new from arcs that still share an end label
    let probe = guarded(|| { let mut u = Tng::new(vec![TngComp::arc([1, 2]), TngComp::arc([2, 3])]); u.append_arc(TngComp::arc([3, 4])); tng_json(&u) });
    let n = tr.finish();
    summary("record", json!({"events": n, "histories": nh, "panics": panics, "resolved_crossings_glued": glued_crossings, "tangles_closed_at_the_end": closed_tangles, "gluings_joining_two_components": merges3,
        "probe_append_to_unglued_tangle": match probe { Ok(v) => json!({"returned": v}), Err(m) => json!({"panic": m}) }}));
}

/// command dispatch for the `yv` binary: `yv <component> <record|replay> ...`
pub fn dispatch(comp: &str, cmd: &str, a: &Args) -> bool {
    match (comp, cmd) {
        ("indexlist", "replay") => indexlist_replay(a), ("indexlist", "record") => indexlist_record(a),
        ("grid", "replay") => grid_replay(a), ("grid", "record") => grid_record(a),
        ("path", "replay") => path_replay(a), ("path", "record") => path_record(a),
        ("fmt", "replay") => fmt_replay(a), ("fmt", "record") => fmt_record(a),
        ("tng", "replay") => tng_replay(a), ("tng", "record") => tng_record(a),
        _ => return false,
    }
    true
}
