//! C11 — parallel pivot search: the real worker threads are driven through the `yui_verif` gate hooks by a
//! controller that realises a given schedule (from TLC) or a seeded random one; every event of the critical
//! sections is recorded and validated against spec/sys/Pivot.tla by Trace_Pivot.
use crate::menc::*;
use crate::util::*;
use rand::rngs::StdRng;
use rand::Rng;
use serde_json::{json, Value};
use std::collections::{HashMap, HashSet};
use std::sync::{Arc, Condvar, Mutex};
use std::time::{Duration, Instant};
use yui::poly::Poly;
use yui::{Ratio, RingOps, FF};
use yui_matrix::sparse::pivot::{find_pivots, perms_by_pivots, PivotCondition, PivotType};
use yui_matrix::sparse::SpMat;
use yui_matrix::verif::{clear_hook, set_hook, Event};
use yui_matrix::MatTrait;

#[derive(Default)]
struct SState {
    parked: HashMap<usize, &'static str>, // row -> gate kind
    permits: HashSet<usize>,
    events: Vec<Value>,
    done_rows: HashSet<usize>,
    tasks: Vec<usize>,
    gating: bool,
    changes: u64,
}
struct Sched { st: Mutex<SState>, cv: Condvar }

impl Sched {
    fn new(gating: bool) -> Arc<Sched> { Arc::new(Sched { st: Mutex::new(SState { gating, ..Default::default() }), cv: Condvar::new() }) }
    fn push(&self, v: Value) { let mut s = self.st.lock().unwrap(); s.events.push(v); s.changes += 1; self.cv.notify_all(); }
    fn park(&self, row: usize, kind: &'static str) {
        let mut s = self.st.lock().unwrap();
        if !s.gating { return; }
        s.parked.insert(row, kind); s.changes += 1; self.cv.notify_all();
        while !s.permits.remove(&row) { s = self.cv.wait(s).unwrap(); }
        s.parked.remove(&row); s.changes += 1; self.cv.notify_all();
    }
    fn on_event(&self, e: &Event) {
        match e {
            Event::Init { pivots, remain_rows } => { let mut s = self.st.lock().unwrap(); s.tasks = remain_rows.clone();
                s.events.push(json!({"op":"init0","piv0": pivots.iter().map(|(i, j)| json!([i + 1, j + 1])).collect::<Vec<_>>(), "tasks": remain_rows.iter().map(|r| r + 1).collect::<Vec<_>>()})); s.changes += 1; self.cv.notify_all(); }
            Event::GateTaskStart { row } => self.park(*row, "start"),
            Event::GateBeforeLock { row, cand } => { self.push(json!({"op":"chosen","row": row + 1,"cand": cand + 1})); self.park(*row, "lock"); }
            Event::Started { row, seen } => self.push(json!({"op":"started","row": row + 1,"seen": seen})),
            Event::NoCand { row } => { let mut s = self.st.lock().unwrap(); s.done_rows.insert(*row); s.events.push(json!({"op":"nocand","row": row + 1})); s.changes += 1; self.cv.notify_all(); }
            Event::Retry { row, seen } => self.push(json!({"op":"retry","row": row + 1,"seen": seen})),
            Event::Commit { row, col, index } => { let mut s = self.st.lock().unwrap(); s.done_rows.insert(*row); s.events.push(json!({"op":"commit","row": row + 1,"col": col + 1,"index": index})); s.changes += 1; self.cv.notify_all(); }
        }
    }
}

pub enum Policy { Free, Random(u64), StartsFirst(u64), Schedule(Vec<(usize, String)>) }

pub struct RunOut { pub events: Vec<Value>, pub result: Result<Vec<(usize, usize)>, String>, pub steps_forced: usize, pub steps_skipped: usize, pub timed_out: bool }

/// Run find_pivots on a dedicated pool while a controller releases one gate at a time.
pub fn controlled_run<R: Ent>(a: &SpMat<R>, pt: PivotType, pc: PivotCondition, threads: usize, policy: Policy) -> RunOut where for<'x> &'x R: RingOps<R> {
    let gating = !matches!(policy, Policy::Free);
    let sched = Sched::new(gating);
    let s2 = sched.clone();
    set_hook(Arc::new(move |e: &Event| s2.on_event(e)));
    let pool = rayon::ThreadPoolBuilder::new().num_threads(threads).build().unwrap();
    let a2 = a.clone();
    let handle = std::thread::spawn(move || guarded(|| pool.install(|| find_pivots(&a2, pt, pc))));
    let (mut forced, mut skipped, mut timed_out) = (0usize, 0usize, false);
    if gating {
        let mut rng: StdRng = rand::SeedableRng::seed_from_u64(match &policy { Policy::Random(s) | Policy::StartsFirst(s) => *s, _ => 0 });
        let mut sched_list: Vec<(usize, String)> = match &policy { Policy::Schedule(v) => v.clone(), _ => vec![] };
        sched_list.reverse();
        let t0 = Instant::now();
        let mut st = sched.st.lock().unwrap();
        loop {
            if handle.is_finished() { break; }
            if t0.elapsed() > Duration::from_secs(60) { timed_out = true; // the property claims termination: release everything and report
                let rows: Vec<usize> = st.parked.keys().cloned().collect(); for r in rows { st.permits.insert(r); } sched.cv.notify_all();
                let (g, _) = sched.cv.wait_timeout(st, Duration::from_millis(200)).unwrap(); st = g; if t0.elapsed() > Duration::from_secs(90) { break; } continue; }
            // quiescence: every live task parked, or nothing changed for a while
            let live: Vec<usize> = st.tasks.iter().filter(|r| !st.done_rows.contains(r)).cloned().collect();
            let all_parked = !st.tasks.is_empty() && live.iter().all(|r| st.parked.contains_key(r)) && st.permits.is_empty();
            if !all_parked {
                let before = st.changes;
                let (g, to) = sched.cv.wait_timeout(st, Duration::from_millis(15)).unwrap(); st = g;
                if !(to.timed_out() && st.changes == before && !st.parked.is_empty() && st.permits.is_empty()) { continue; }
            }
            if st.parked.is_empty() { let (g, _) = sched.cv.wait_timeout(st, Duration::from_millis(5)).unwrap(); st = g; continue; }
            // choose the next critical section to let through
            let mut pick: Option<usize> = None;
            while let Some((r, kind)) = sched_list.pop() {
                if st.parked.get(&r).map(|k| *k == kind.as_str()).unwrap_or(false) { pick = Some(r); forced += 1; break; } else { skipped += 1; }
            }
            let row = pick.unwrap_or_else(|| { let mut rows: Vec<usize> = st.parked.keys().cloned().collect(); rows.sort();
                match policy { Policy::Random(_) => { // PCT-like: prefer letting "start" gates pile up commits before a parked "lock" proceeds
                        let starts: Vec<usize> = rows.iter().filter(|r| st.parked[r] == "start").cloned().collect();
                        if !starts.is_empty() && rng.gen_bool(0.6) { starts[rng.gen_range(0..starts.len())] } else { rows[rng.gen_range(0..rows.len())] } }
                    // every task takes its snapshot first; then the write-lock sections run one by one in a random order,
                    // so every commit after the first is checked against a stale snapshot
                    Policy::StartsFirst(_) => { let starts: Vec<usize> = rows.iter().filter(|r| st.parked[r] == "start").cloned().collect();
                        if !starts.is_empty() { starts[0] } else { rows[rng.gen_range(0..rows.len())] } }
                    _ => rows[0] } });
            st.permits.insert(row); sched.cv.notify_all();
            // wait until that thread has passed the gate and reached its next stop
            let before = st.changes;
            while st.changes == before || st.permits.contains(&row) { let (g, to) = sched.cv.wait_timeout(st, Duration::from_millis(50)).unwrap(); st = g; if to.timed_out() { break; } }
        }
        drop(st);
    }
    let result = handle.join().unwrap_or_else(|_| Err("join".into()));
    clear_hook();
    let events = std::mem::take(&mut sched.st.lock().unwrap().events);
    RunOut { events, result, steps_forced: forced, steps_skipped: skipped, timed_out }
}

fn is_cand<R: Ent>(x: &R, pc: PivotCondition) -> bool where for<'x> &'x R: RingOps<R> {
    match pc { PivotCondition::One => x.is_pm_one(), PivotCondition::AnyUnit => x.is_unit(), PivotCondition::Weight(w) => x.is_unit() && x.c_weight() <= w }
}

/// Emit the trace of one run in pivot orientation (rows = search direction), 1-based.
fn emit_run<R: Ent>(t: &mut Tracer, a: &SpMat<R>, pt: PivotType, pc: PivotCondition, out: &RunOut, meta: Value, st: &mut Stats) where for<'x> &'x R: RingOps<R> {
    let rows_type = pt == PivotType::Rows;
    let (m, n) = if rows_type { a.shape() } else { (a.ncols(), a.nrows()) };
    let (mut ent, mut cand) = (vec![], vec![]);
    for (i, j, x) in a.iter() { if num_traits::Zero::is_zero(x) { continue; } let (r, c) = if rows_type { (i, j) } else { (j, i) };
        ent.push(json!([r + 1, c + 1])); if is_cand(x, pc) { cand.push(json!([r + 1, c + 1])); } }
    let init0 = out.events.iter().find(|e| e["op"] == "init0");
    let mut init = json!({"op":"init","rows": m,"cols": n,"ent": ent,"cand": cand,"meta": meta, "type": R::tname()});
    match (init0, &out.result) {
        (Some(i0), _) => { init["piv0"] = i0["piv0"].clone(); init["tasks"] = i0["tasks"].clone(); }
        (None, Ok(res)) => { // the parallel phase was not entered (zero matrix): the whole result is the initial table
            init["piv0"] = json!(res.iter().map(|(i, j)| if rows_type { json!([i + 1, j + 1]) } else { json!([j + 1, i + 1]) }).collect::<Vec<_>>()); init["tasks"] = json!([]); }
        (None, Err(_)) => { init["piv0"] = json!([]); init["tasks"] = json!([]); }
    }
    t.emit(&init); st.events += 1;
    for e in out.events.iter() { if e["op"] == "init0" { continue; } t.emit(e); st.events += 1; if e["op"] == "retry" { st.retries += 1; } if e["op"] == "commit" { st.commits += 1; } }
    match &out.result {
        Ok(res) if !out.timed_out => {
            // the permutations derived from the list must put the pivots on the diagonal of a triangular leading block (checked by TLC on the list;
            // here the library's own perms_by_pivots + permute are applied and the diagonal positions compared)
            let (p, q) = perms_by_pivots(a, res);
            let b = sp_dense(&a.permute(p.view(), q.view()));
            let diag_ok = (0..res.len()).all(|k| !num_traits::Zero::is_zero(&b[k][k]) && is_cand(&b[k][k], pc));
            let tri_ok = (0..res.len()).all(|k| (0..k).all(|l| if rows_type { num_traits::Zero::is_zero(&b[k][l]) } else { num_traits::Zero::is_zero(&b[l][k]) }));
            t.emit(&json!({"op":"result","res": if diag_ok && tri_ok { "ok" } else { "permuted-block-not-triangular" },
                           "pivots": res.iter().map(|(i, j)| if rows_type { json!([i + 1, j + 1]) } else { json!([j + 1, i + 1]) }).collect::<Vec<_>>()}));
        }
        Ok(_) => { t.emit(&json!({"op":"result","res":"timeout","pivots":[]})); st.panics += 1; }
        Err(m) => { t.emit(&json!({"op":"result","res":"panic","panic": m,"pivots":[]})); st.panics += 1; }
    }
    st.events += 1; st.runs += 1;
}

#[derive(Default)]
pub struct Stats { pub events: usize, pub runs: usize, pub retries: usize, pub commits: usize, pub panics: usize, pub forced: usize, pub skipped: usize }

/// Embed a pattern so that its rows survive the two sequential pre-passes: row 0 is all ones (its pivot
/// at column 0 makes every column "occupied" for the pre-pass), every pattern row gets a private
/// non-candidate head entry, and no pattern row touches column 0 (so row 0 is never reached).
fn embed<R: Ent>(pat: &[(usize, usize)], m: usize, n: usize, noncand: &R) -> SpMat<R> where for<'x> &'x R: RingOps<R> { embed_c(pat, &pat.iter().cloned().collect(), m, n, noncand) }
fn embed_c<R: Ent>(pat: &[(usize, usize)], cands: &HashSet<(usize, usize)>, m: usize, n: usize, noncand: &R) -> SpMat<R> where for<'x> &'x R: RingOps<R> {
    let cols = 1 + m + n;
    let mut es: Vec<(usize, usize, R)> = (0..cols).map(|j| (0, j, R::one())).collect();
    for r in 0..m { es.push((1 + r, 1 + r, noncand.clone())); }
    for &(r, c) in pat { es.push((1 + r, 1 + m + c, if cands.contains(&(r, c)) { R::one() } else { noncand.clone() })); }
    SpMat::from_entries((1 + m, cols), es)
}

fn rand_sparse<R: Ent>(rng: &mut StdRng, m: usize, n: usize, dens: f64) -> SpMat<R> where for<'x> &'x R: RingOps<R> {
    let mut es = vec![];
    for i in 0..m { for j in 0..n { if rng.gen_bool(dens) { let x = if rng.gen_bool(0.7) { R::rnd_unit(rng) } else { R::rnd(rng, 3) }; if !num_traits::Zero::is_zero(&x) { es.push((i, j, x)); } } } }
    SpMat::from_entries((m, n), es)
}

fn run_type<R: Ent>(a: &Args, salt: u64, t: &mut Tracer, st: &mut Stats, schedules: &[Value], noncand: R) where for<'x> &'x R: RingOps<R> {
    let mut rng = a.rng(salt);
    // A: TLC behaviours (pattern + schedule) forced on the real threads
    for s in schedules {
        let pat: Vec<(usize, usize)> = s["ent"].as_array().unwrap().iter().map(|p| (p[0].as_u64().unwrap() as usize - 1, p[1].as_u64().unwrap() as usize - 1)).collect();
        let cands: HashSet<(usize, usize)> = s["cand"].as_array().unwrap().iter().map(|p| (p[0].as_u64().unwrap() as usize - 1, p[1].as_u64().unwrap() as usize - 1)).collect();
        let (m, n) = (s["m"].as_u64().unwrap() as usize, s["n"].as_u64().unwrap() as usize);
        let mat = embed_c::<R>(&pat, &cands, m, n, &noncand);
        let sch: Vec<(usize, String)> = s["hist"].as_array().unwrap().iter().map(|h| (h[0].as_u64().unwrap() as usize, h[1].as_str().unwrap().to_string())).collect(); // pattern row r is matrix row r (0-based r+1-1 .. +1 for the dense row)
        let out = controlled_run(&mat, PivotType::Rows, PivotCondition::One, 8, Policy::Schedule(sch));
        st.forced += out.steps_forced; st.skipped += out.steps_skipped;
        emit_run(t, &mat, PivotType::Rows, PivotCondition::One, &out, json!({"kind":"tlc-schedule"}), st);
    }
    // B: seeded random matrices and schedules
    let n_runs = if a.thorough() { 240 } else { 36 };
    for k in 0..n_runs {
        let pt = if rng.gen_bool(0.7) { PivotType::Rows } else { PivotType::Cols };
        let pc = match rng.gen_range(0..4) { 0 => PivotCondition::AnyUnit, 1 => PivotCondition::Weight(1.5), _ => PivotCondition::One };
        let mat: SpMat<R> = if k % 2 == 0 {
            // many rows for the parallel phase: sparse pattern embedded behind a dense row
            let (m, n) = (rng.gen_range(2..if a.thorough() { 14 } else { 9 }), rng.gen_range(2..if a.thorough() { 12 } else { 8 }));
            let mut pat = vec![]; let pd = [0.25, 0.4, 0.6][rng.gen_range(0..3)]; for r in 0..m { for c in 0..n { if rng.gen_bool(pd) { pat.push((r, c)); } } }
            let e = embed::<R>(&pat, m, n, &noncand);
            // sprinkle non-candidate and unit entries inside the pattern block
            let mut d = sp_dense(&e); for r in 1..=m { for c in (1 + m)..(1 + m + n) { if !num_traits::Zero::is_zero(&d[r][c]) { if rng.gen_bool(0.4) { d[r][c] = noncand.clone(); } else { d[r][c] = R::rnd_unit(&mut rng); } } } }
            let e = sp_from_dense(&d, 1 + m, 1 + m + n, &|_, _| false);
            if pt == PivotType::Cols { e.transpose() } else { e }
        } else { let (m, n) = (rng.gen_range(1..if a.thorough() { 30 } else { 12 }), rng.gen_range(1..if a.thorough() { 36 } else { 14 })); let dens = [0.08, 0.2, 0.4][rng.gen_range(0..3)]; rand_sparse::<R>(&mut rng, m, n, dens) };
        let (policy, threads, kind) = match k % 6 { 0 => (Policy::Free, [1usize, 2, 3, 8, 16][rng.gen_range(0..5)], "free"),
            1 | 3 => (Policy::Random(rng.gen()), [2usize, 3, 8, 16][rng.gen_range(0..4)], "random-gates"),
            _ => (Policy::StartsFirst(rng.gen()), 16, "all-snapshots-first") };
        let out = controlled_run(&mat, pt, pc, threads, policy);
        emit_run(t, &mat, pt, pc, &out, json!({"kind": kind, "threads": threads, "pt": format!("{:?}", pt), "pc": format!("{:?}", pc)}), st);
    }
}

pub fn record(a: &Args) {
    let mut t = Tracer::create(&a.out);
    let mut st = Stats::default();
    let scheds: Vec<Value> = a.inp.as_ref().map(|p| read_ndjson(p)).unwrap_or_default();
    run_type::<i64>(a, 1, &mut t, &mut st, &scheds, 2);
    run_type::<Ratio<i64>>(a, 2, &mut t, &mut st, &[], Ratio::from(0) + Ratio::from(2));
    run_type::<FF<5>>(a, 3, &mut t, &mut st, &[], FF::new(2));
    run_type::<Poly<'H', i64>>(a, 4, &mut t, &mut st, &[], Poly::variable());
    let n = t.finish();
    summary("record", json!({"events": n, "runs": st.runs, "retries_observed": st.retries, "commits": st.commits, "panics_or_timeouts": st.panics,
        "tlc_schedule_steps_forced": st.forced, "tlc_schedule_steps_not_applicable": st.skipped, "types": ["i64", "Ratio<i64>", "FF<5>", "Poly<H,i64>"]}));
}
