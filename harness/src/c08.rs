//! C08 — chain reduction is a homotopy equivalence with correct transfer maps (spec/sys/ChainRed.tla).
use crate::menc::*;
use crate::util::*;
use rand::rngs::StdRng;
use rand::Rng;
use serde_json::{json, Value};
use yui::poly::Poly;
use yui::{Ratio, RingOps, FF, FF2};
use yui_homology::utils::ChainReducer;
use yui_homology::GenericChainComplex;
use yui_matrix::dense::Mat;
use yui_matrix::sparse::pivot::{PivotCondition, PivotType};
use yui_matrix::sparse::{SpMat, SpVec};
use yui_matrix::MatTrait;

#[derive(Default)]
pub struct Stats { pub events: usize, pub cases: usize, pub panics: usize, pub steps: usize, pub with_units: usize, pub without_units: usize }

fn dense_of<R: Ent>(d: &[Vec<R>], m: usize, n: usize) -> Mat<R> where for<'x> &'x R: RingOps<R> { Mat::from_data((m, n), d.iter().flatten().cloned()) }
fn unimodular_pair<R: Ent>(rng: &mut StdRng, n: usize, steps: usize) -> (Mat<R>, Mat<R>) where for<'x> &'x R: RingOps<R> {
    let (mut u, mut ui) = (Mat::<R>::id(n), Mat::<R>::id(n));
    if n < 2 { return (u, ui); }
    for _ in 0..steps { let (i, j) = (rng.gen_range(0..n), rng.gen_range(0..n)); if i == j { continue; }
        if rng.gen_range(0..3) == 0 { u.swap_rows(i, j); ui.swap_cols(i, j); } else { let x = R::rnd_unit(rng); u.add_row_to(i, j, &x); let nx = -x; ui.add_col_to(j, i, &nx); } }
    (u, ui)
}

struct Planted<R> { d: Vec<SpMat<R>>, cycles: Vec<Vec<SpVec<R>>> }

/// complex C[0] -> ... -> C[len] with planted acyclic part (unit or non-unit diagonal) and free homology
fn planted<R: Ent>(rng: &mut StdRng, len: usize, maxr: usize, nonunits: &dyn Fn(&mut StdRng) -> R, unit_prob: f64, st: &mut Stats) -> Planted<R> where for<'x> &'x R: RingOps<R> {
    let a: Vec<usize> = (0..=len).map(|i| if i == len { 0 } else { rng.gen_range(0..=maxr / 2) }).collect();
    let h: Vec<usize> = (0..=len).map(|_| rng.gen_range(0..=(maxr / 3).max(1))).collect();
    let b: Vec<usize> = (0..=len).map(|i| if i == 0 { 0 } else { a[i - 1] }).collect();
    let n: Vec<usize> = (0..=len).map(|i| a[i] + b[i] + h[i]).collect();
    let steps = if rng.gen_range(0..4) == 0 { 0 } else { 3 };
    let us: Vec<(Mat<R>, Mat<R>)> = (0..=len).map(|i| unimodular_pair::<R>(rng, n[i], steps)).collect();
    let mut any_unit = false;
    let mut d = vec![];
    for i in 0..len {
        let mut s = vec![vec![<R as num_traits::Zero>::zero(); n[i]]; n[i + 1]];
        for k in 0..a[i] { let x = if rng.gen_bool(unit_prob) { any_unit = true; R::rnd_unit(rng) } else { nonunits(rng) }; s[a[i + 1] + k][k] = x; }
        let m = &(&us[i + 1].0 * &dense_of(&s, n[i + 1], n[i])) * &us[i].1;
        d.push(m.into_sparse());
    }
    if any_unit { st.with_units += 1; } else { st.without_units += 1; }
    let cycles = (0..=len).map(|i| { let k = rng.gen_range(0..3); (0..k).map(|_| { let w: Vec<R> = (0..n[i]).map(|c| if c >= a[i] && rng.gen_bool(0.6) { R::rnd(rng, 2) } else { <R as num_traits::Zero>::zero() }).collect();
        let col = Mat::from_data((n[i], 1), w); let v = &us[i].0 * &col; SpVec::from((0..n[i]).map(|r| v[(r, 0)].clone()).collect::<Vec<_>>()) }).collect() }).collect();
    Planted { d, cycles }
}

fn state_json<R: Ent>(r: &ChainReducer<isize, R>, len: usize, withmaps: bool) -> Value where for<'x> &'x R: RingOps<R> {
    let mats: Vec<Value> = (0..len as isize).map(|i| sp_json(r.matrix(i).unwrap())).collect();
    let z = json!({"m":0,"n":0,"a":[]});
    let (f, b): (Vec<Value>, Vec<Value>) = (0..=len as isize).map(|i| match (withmaps, r.trans(i)) { (true, Some(t)) => (sp_json(&t.forward_mat()), sp_json(&t.backward_mat())), _ => (z.clone(), z.clone()) }).unzip();
    let vecs: Vec<Value> = (0..=len as isize).map(|i| json!(r.vecs(i).map(|vs| vs.iter().map(vec_json).collect::<Vec<_>>()).unwrap_or_default())).collect();
    json!({"mats": mats, "f": f, "b": b, "vecs": vecs, "withmaps": withmaps})
}

fn case<R: Ent>(rng: &mut StdRng, t: &mut Tracer, st: &mut Stats, maxlen: usize, maxr: usize, nonunits: &dyn Fn(&mut StdRng) -> R, conds: &[PivotCondition]) where for<'x> &'x R: RingOps<R> {
    st.cases += 1;
    let len = rng.gen_range(1..=maxlen);
    let unit_prob = [1.0, 0.6, 0.0][rng.gen_range(0..3)];
    let pl = planted::<R>(rng, len, maxr, nonunits, unit_prob, st);
    let dl = pl.d.clone();
    let last_n = if len > 0 { dl[len - 1].nrows() } else { 0 };
    let c = GenericChainComplex::<R>::generate(0..=(len as isize), 1, move |i| if (i as usize) < dl.len() { dl[i as usize].clone() } else { SpMat::zero((0, last_n)) });
    let withmaps = rng.gen_range(0..5) != 0;
    let threads = [1usize, 2, 16][rng.gen_range(0..3)];
    let pool = rayon::ThreadPoolBuilder::new().num_threads(threads).build().unwrap();
    t.emit(&json!({"op":"cr_start","res":"ok","ring":R::ring(),"type":R::tname(),"lo":0,"hi":len as isize - 1,"d":pl.d.iter().map(sp_json).collect::<Vec<_>>(),
        "vecs": pl.cycles.iter().map(|vs| json!(vs.iter().map(vec_json).collect::<Vec<_>>())).collect::<Vec<_>>(), "threads": threads}));
    st.events += 1;
    let mode = rng.gen_range(0..4);
    let mut red = ChainReducer::<isize, R>::from(&c, withmaps);
    for (i, vs) in pl.cycles.iter().enumerate() { for v in vs { red.add_vec(i as isize, v.clone()); } }
    let nsteps = if mode == 0 { 1 } else { rng.gen_range(1..=2 * len + 1) };
    for _ in 0..nsteps {
        let i = rng.gen_range(0..len as isize);
        let (pt, pc) = (if rng.gen_bool(0.5) { PivotType::Rows } else { PivotType::Cols }, conds[rng.gen_range(0..conds.len())]);
        let what = match mode { 0 => "reduce_all shallow+deep".to_string(), 1 => format!("reduce_at({i}, deep)"), _ => format!("reduce_at_spec({i}, {:?}, {:?})", pt, pc) };
        let res = guarded(|| pool.install(|| match mode { 0 => { red.reduce_all(false); red.reduce_all(true); } 1 => red.reduce_at(i, rng.gen_bool(0.5)), _ => { red.reduce_at_spec(i, pt, pc); } }));
        let mut e = match res { Ok(()) => { let mut e = state_json(&red, len, withmaps); e["res"] = json!("ok"); e } Err(m) => json!({"res":"panic","panic":m}) };
        e["op"] = json!("cr_reduce"); e["call"] = json!(what); e["deep"] = json!(mode == 0);
        t.emit(&e); st.events += 1; st.steps += 1;
        if e["res"] != "ok" { st.panics += 1; break; }
    }
}

/// spec -> impl: one TLC-generated sequence of reducer calls replayed on a planted complex
fn scheduled<R: Ent>(rng: &mut StdRng, t: &mut Tracer, st: &mut Stats, calls: &[Value], len: usize, nonunits: &dyn Fn(&mut StdRng) -> R) where for<'x> &'x R: RingOps<R> {
    st.cases += 1;
    let pl = planted::<R>(rng, len, 5, nonunits, 0.6, st);
    let dl = pl.d.clone();
    let last_n = dl[len - 1].nrows();
    let c = GenericChainComplex::<R>::generate(0..=(len as isize), 1, move |i| if (i as usize) < dl.len() { dl[i as usize].clone() } else { SpMat::zero((0, last_n)) });
    t.emit(&json!({"op":"cr_start","res":"ok","ring":R::ring(),"type":R::tname(),"lo":0,"hi":len as isize - 1,"d":pl.d.iter().map(sp_json).collect::<Vec<_>>(),
        "vecs": pl.cycles.iter().map(|vs| json!(vs.iter().map(vec_json).collect::<Vec<_>>())).collect::<Vec<_>>(), "kind": "tlc-schedule"}));
    st.events += 1;
    let mut red = ChainReducer::<isize, R>::from(&c, true);
    for (i, vs) in pl.cycles.iter().enumerate() { for v in vs { red.add_vec(i as isize, v.clone()); } }
    for call in calls {
        let i = call["i"].as_i64().unwrap() as isize; if i as usize >= len { continue; }
        let pt = if call["pt"] == "Rows" { PivotType::Rows } else { PivotType::Cols };
        let pc = match call["pc"].as_str().unwrap() { "One" => PivotCondition::One, "AnyUnit" => PivotCondition::AnyUnit, _ => PivotCondition::Weight(2.0) };
        let res = guarded(|| { red.reduce_at_spec(i, pt, pc); });
        let mut e = match res { Ok(()) => { let mut e = state_json(&red, len, true); e["res"] = json!("ok"); e } Err(m) => json!({"res":"panic","panic":m}) };
        e["op"] = json!("cr_reduce"); e["call"] = call.clone(); e["deep"] = json!(false);
        t.emit(&e); st.events += 1; st.steps += 1;
        if e["res"] != "ok" { st.panics += 1; break; }
    }
}

pub fn record(a: &Args) {
    let mut t = Tracer::create(&a.out);
    let mut st = Stats::default();
    if let Some(pth) = &a.inp {
        let mut rng = a.rng(91);
        for (k, ln) in read_ndjson(pth).iter().enumerate() {
            let calls = ln["calls"].as_array().unwrap();
            let len = 1 + calls.iter().map(|c| c["i"].as_u64().unwrap() as usize).max().unwrap_or(0).max(k % 2);
            match k % 3 { 0 => scheduled::<i64>(&mut rng, &mut t, &mut st, calls, len, &|r: &mut StdRng| [2i64, 3, -2][r.gen_range(0..3)]),
                          1 => scheduled::<Ratio<i64>>(&mut rng, &mut t, &mut st, calls, len, &|r: &mut StdRng| Ratio::new([2i64, 3, -3][r.gen_range(0..3)], [1i64, 2][r.gen_range(0..2)])),
                          _ => scheduled::<FF<3>>(&mut rng, &mut t, &mut st, calls, len, &|r: &mut StdRng| FF::new(r.gen_range(1..3))) }
        }
    }
    let (nc, maxlen, maxr) = if a.thorough() { (80, 6, 8) } else { (12, 4, 6) };
    let all = [PivotCondition::One, PivotCondition::AnyUnit, PivotCondition::Weight(2.0)];
    macro_rules! run { ($t:ty, $salt:expr, $maxlen:expr, $maxr:expr, $nu:expr) => {{ let mut rng = a.rng($salt); for _ in 0..nc { case::<$t>(&mut rng, &mut t, &mut st, $maxlen, $maxr, $nu, &all); } }} }
    run!(i64, 1, maxlen, maxr, &|r: &mut StdRng| [2i64, 3, 4, 6, -2][r.gen_range(0..5)]);
    run!(Ratio<i64>, 2, maxlen.min(3), 4, &|r: &mut StdRng| Ratio::new([2i64, 3, -3, 1][r.gen_range(0..4)], [1i64, 2, 3][r.gen_range(0..3)]));
    run!(FF2, 3, maxlen, maxr, &|_r: &mut StdRng| FF2::from(1i64));
    run!(FF<3>, 4, maxlen, maxr, &|r: &mut StdRng| FF::new(r.gen_range(1..3)));
    run!(Poly<'H', i64>, 5, maxlen.min(3), 3, &|r: &mut StdRng| { let h = Poly::<'H', i64>::variable(); match r.gen_range(0..4) { 0 => h, 1 => Poly::from_const(2), 2 => &h + &Poly::from_const(1), _ => &h * &h } });
    let n = t.finish();
    summary("record", json!({"events": n, "cases": st.cases, "reduction_calls": st.steps, "panics": st.panics, "complexes_with_unit_entries": st.with_units, "complexes_without_unit_entries": st.without_units,
        "thread_pools": [1, 2, 16], "types": ["i64","Ratio<i64>","FF2","FF<3>","Poly<H,i64>"]}));
}
