//! C13 — matrix containers and coordinate transforms vs spec/sys/MatAlg.tla.
use crate::menc::*;
use crate::util::*;
use rand::rngs::StdRng;
use rand::Rng;
use serde_json::{json, Value};
use sprs::PermOwned;
use yui::{Ratio, RingOps, FF};
use yui_matrix::dense::Mat;
use yui_matrix::sparse::{SpMat, SpVec, Trans};
use yui_matrix::MatTrait;

#[derive(Default)]
pub struct Stats { pub events: usize, pub panics: usize, pub zero_dim: usize, pub stored_zero_operands: usize, pub trans_histories: usize }

fn emit<R: Ent>(t: &mut Tracer, st: &mut Stats, op: &str, mut fields: Value, f: impl FnOnce() -> Value) where for<'x> &'x R: RingOps<R> {
    fields["op"] = json!(op); fields["ring"] = R::ring(); fields["type"] = json!(R::tname());
    match guarded(f) {
        Ok(v) => { fields["res"] = json!("ok"); fields["out"] = v; }
        Err(m) => { fields["res"] = json!("panic"); fields["panic"] = json!(m); st.panics += 1; }
    }
    st.events += 1;
    t.emit(&fields);
}

fn perm(p: &[usize]) -> PermOwned { PermOwned::new(p.to_vec()) }

/// All container operations on operands A, B (m x n) and C (n x k).
fn case<R: Ent>(rng: &mut StdRng, t: &mut Tracer, st: &mut Stats, a: &SpMat<R>, b: &SpMat<R>, c: &SpMat<R>) where for<'x> &'x R: RingOps<R> {
    let (m, n) = a.shape(); let k = c.ncols();
    if m == 0 || n == 0 || k == 0 { st.zero_dim += 1; }
    if a.iter().any(|e| num_traits::Zero::is_zero(e.2)) { st.stored_zero_operands += 1; }
    let (ja, jb, jc) = (sp_json(a), sp_json(b), sp_json(c));
    // ---- constructors from the dense values of A
    let da = sp_dense(a);
    let mut es: Vec<(usize, usize, R)> = vec![];
    for i in 0..m { for j in 0..n { if !num_traits::Zero::is_zero(&da[i][j]) || rng.gen_bool(0.2) { es.push((i, j, da[i][j].clone())); } } }
    { use rand::seq::SliceRandom; es.shuffle(rng); }
    let jes = json!(es.iter().map(|(i, j, x)| json!([i, j, x.ent()])).collect::<Vec<_>>());
    emit::<R>(t, st, "from_entries", json!({"m": m, "n": n, "es": jes}), || sp_json(&SpMat::from_entries((m, n), es.clone())));
    let data: Vec<R> = da.iter().flatten().cloned().collect();
    emit::<R>(t, st, "from_dense_data", json!({"m": m, "n": n, "data": data.iter().map(|x| x.ent()).collect::<Vec<_>>()}), || sp_json(&SpMat::from_dense_data((m, n), data.clone())));
    emit::<R>(t, st, "from_dense_data", json!({"m": m, "n": n, "data": data.iter().map(|x| x.ent()).collect::<Vec<_>>(), "kind": "dense"}), || mat_json(&Mat::from_data((m, n), data.clone())));
    let cols: Vec<SpVec<R>> = (0..n).map(|j| a.col_vec(j)).collect();
    emit::<R>(t, st, "from_col_vecs", json!({"m": m, "cols": cols.iter().map(vec_json).collect::<Vec<_>>()}), || sp_json(&SpMat::from_col_vecs(m, cols.clone())));
    for j in 0..n.min(3) { emit::<R>(t, st, "col_vec", json!({"a": ja, "j": j}), || vec_json(&a.col_vec(j))); }
    // ---- conversions
    emit::<R>(t, st, "convert", json!({"a": ja, "how": "into_dense"}), || mat_json(&a.clone().into_dense()));
    emit::<R>(t, st, "convert", json!({"a": ja, "how": "dense_into_sparse"}), || sp_json(&a.clone().into_dense().into_sparse()));
    emit::<R>(t, st, "convert", json!({"a": ja, "how": "transpose_twice"}), || sp_json(&a.transpose().transpose()));
    // ---- algebra, sparse and dense, all operator forms must agree
    let (ma, mb, mc) = (a.clone().into_dense(), b.clone().into_dense(), c.clone().into_dense());
    emit::<R>(t, st, "add", json!({"a": ja, "b": jb}), || { let r = a + b; let r2 = a.clone() + b.clone(); let r3 = a.clone() + b; let r4 = a + b.clone(); if sp_dense(&r) != sp_dense(&r2) || sp_dense(&r) != sp_dense(&r3) || sp_dense(&r) != sp_dense(&r4) { json!("FORMS-DISAGREE") } else { sp_json(&r) } });
    emit::<R>(t, st, "sub", json!({"a": ja, "b": jb}), || { let r = a - b; let r2 = a.clone() - b.clone(); if sp_dense(&r) != sp_dense(&r2) { json!("FORMS-DISAGREE") } else { sp_json(&r) } });
    emit::<R>(t, st, "mul", json!({"a": ja, "b": jc}), || { let r = a * c; let r2 = a.clone() * c.clone(); if sp_dense(&r) != sp_dense(&r2) { json!("FORMS-DISAGREE") } else { sp_json(&r) } });
    emit::<R>(t, st, "neg", json!({"a": ja}), || { let r = -a; let r2 = -(a.clone()); if sp_dense(&r) != sp_dense(&r2) { json!("FORMS-DISAGREE") } else { sp_json(&r) } });
    emit::<R>(t, st, "sub", json!({"a": ja, "b": ja, "note": "a - a keeps explicit zeros"}), || sp_json(&(a - a)));
    emit::<R>(t, st, "mul", json!({"a": sp_json(&(a - a)), "b": jc, "note": "operand with explicit zeros"}), || sp_json(&(&(a - a) * c)));
    emit::<R>(t, st, "add", json!({"a": ja, "b": jb, "kind": "dense"}), || { let mut r = ma.clone(); r += &mb; mat_json(&r) });
    emit::<R>(t, st, "sub", json!({"a": ja, "b": jb, "kind": "dense"}), || { let mut r = ma.clone(); r -= &mb; mat_json(&r) });
    emit::<R>(t, st, "mul", json!({"a": ja, "b": jc, "kind": "dense"}), || mat_json(&(&ma * &mc)));
    emit::<R>(t, st, "neg", json!({"a": ja, "kind": "dense"}), || mat_json(&(-&ma)));
    emit::<R>(t, st, "transpose", json!({"a": ja}), || sp_json(&a.transpose()));
    // ---- matrix * vector
    let v = rand_sp::<R>(rng, n, 1, 0.6, 3, 0.3);
    let sv = v.col_vec(0);
    emit::<R>(t, st, "mul", json!({"a": ja, "b": vec_json(&sv), "kind": "matvec"}), || vec_json(&(a * &sv)));
    // ---- predicates
    emit::<R>(t, st, "is_zero", json!({"a": ja}), || json!(a.is_zero()));
    emit::<R>(t, st, "is_zero", json!({"a": sp_json(&(a - a))}), || json!((a - a).is_zero()));
    emit::<R>(t, st, "is_id", json!({"a": ja}), || json!(a.is_id()));
    if m == n { let id = SpMat::<R>::id(n); let idz = &id + &(a - a); emit::<R>(t, st, "is_id", json!({"a": sp_json(&idz)}), || json!(idz.is_id()));
                emit::<R>(t, st, "is_id", json!({"a": sp_json(&idz), "kind": "dense"}), || json!(idz.clone().into_dense().is_id())); }
    // ---- rearrangement
    let (p, q) = (rand_perm(rng, m), rand_perm(rng, n));
    emit::<R>(t, st, "permute", json!({"a": ja, "p": p, "q": q}), || sp_json(&a.permute(perm(&p).view(), perm(&q).view())));
    emit::<R>(t, st, "permute", json!({"a": ja, "p": p, "q": (0..n).collect::<Vec<_>>(), "how": "rows"}), || sp_json(&a.permute_rows(perm(&p).view())));
    emit::<R>(t, st, "permute", json!({"a": ja, "p": (0..m).collect::<Vec<_>>(), "q": q, "how": "cols"}), || sp_json(&a.permute_cols(perm(&q).view())));
    emit::<R>(t, st, "row_perm", json!({"p": p}), || sp_json(&SpMat::<R>::from_row_perm(perm(&p).view())));
    emit::<R>(t, st, "col_perm", json!({"p": q}), || sp_json(&SpMat::<R>::from_col_perm(perm(&q).view())));
    emit::<R>(t, st, "mul", json!({"a": sp_json(&SpMat::<R>::from_row_perm(perm(&p).view())), "b": ja, "note": "row_perm(p) * A"}), || sp_json(&(&SpMat::<R>::from_row_perm(perm(&p).view()) * a)));
    let (i0, j0) = (rng.gen_range(0..=m), rng.gen_range(0..=n));
    let (i1, j1) = (rng.gen_range(i0..=m), rng.gen_range(j0..=n));
    emit::<R>(t, st, "submat", json!({"a": ja, "i0": i0, "i1": i1, "j0": j0, "j1": j1}), || sp_json(&a.submat(i0..i1, j0..j1)));
    emit::<R>(t, st, "submat", json!({"a": ja, "i0": i0, "i1": i1, "j0": j0, "j1": j1, "kind": "dense"}), || mat_json(&ma.submat(i0..i1, j0..j1)));
    emit::<R>(t, st, "submat", json!({"a": ja, "i0": i0, "i1": i1, "j0": 0, "j1": n, "how": "rows"}), || sp_json(&a.submat_rows(i0..i1)));
    emit::<R>(t, st, "submat", json!({"a": ja, "i0": 0, "i1": m, "j0": j0, "j1": j1, "how": "cols"}), || sp_json(&a.submat_cols(j0..j1)));
    emit::<R>(t, st, "submat", json!({"a": ja, "i0": i0, "i1": i1, "j0": 0, "j1": n, "how": "rows", "kind": "dense"}), || mat_json(&ma.submat_rows(i0..i1)));
    emit::<R>(t, st, "submat", json!({"a": ja, "i0": 0, "i1": m, "j0": j0, "j1": j1, "how": "cols", "kind": "dense"}), || mat_json(&ma.submat_cols(j0..j1)));
    emit::<R>(t, st, "divide4", json!({"a": ja, "k": i0, "l": j0}), || json!(a.divide4((i0, j0)).iter().map(sp_json).collect::<Vec<_>>()));
    let bl = a.divide4((i0, j0));
    emit::<R>(t, st, "combine_blocks", json!({"blocks": bl.iter().map(sp_json).collect::<Vec<_>>()}), || sp_json(&SpMat::combine_blocks([&bl[0], &bl[1], &bl[2], &bl[3]])));
    // blocks of independent operands (shapes compatible): [A B; A' B'] with stored zeros
    let a2 = rand_sp::<R>(rng, k, n, 0.5, 3, 0.3); let b2 = rand_sp::<R>(rng, k, n, 0.5, 3, 0.3);
    emit::<R>(t, st, "combine_blocks", json!({"blocks": [ja.clone(), jb.clone(), sp_json(&a2), sp_json(&b2)]}), || sp_json(&SpMat::combine_blocks([a, b, &a2, &b2])));
    emit::<R>(t, st, "concat", json!({"a": ja, "b": jb}), || sp_json(&a.concat(b)));
    emit::<R>(t, st, "stack", json!({"a": ja, "b": sp_json(&a2)}), || sp_json(&a.stack(&a2)));
    emit::<R>(t, st, "concat", json!({"a": ja, "b": jb, "how": "extend_cols"}), || { let mut x = a.clone(); x.extend_cols(b.clone()); sp_json(&x) });
    let z = SpMat::<R>::zero((m, k)); let az = a - a;
    emit::<R>(t, st, "concat", json!({"a": ja, "b": sp_json(&z), "how": "extend_cols by a zero block"}), || { let mut x = a.clone(); x.extend_cols(z.clone()); sp_json(&x) });
    emit::<R>(t, st, "concat", json!({"a": ja, "b": sp_json(&az), "how": "extend_cols by explicit zeros"}), || { let mut x = a.clone(); x.extend_cols(az.clone()); sp_json(&x) });
    emit::<R>(t, st, "concat", json!({"a": sp_json(&SpMat::<R>::zero((m, 0))), "b": ja, "how": "extend_cols of an empty matrix"}), || { let mut x = SpMat::<R>::zero((m, 0)); x.extend_cols(a.clone()); sp_json(&x) });
    // ---- sparse vectors
    let w = rand_sp::<R>(rng, n, 1, 0.6, 3, 0.3).col_vec(0);
    let wz = &sv - &sv; // explicit zeros
    let ves: Vec<(usize, R)> = sv.iter().map(|(i, x)| (i, x.clone())).collect();
    emit::<R>(t, st, "v_from_entries", json!({"m": n, "es": ves.iter().map(|(i, x)| json!([i, x.ent()])).collect::<Vec<_>>()}), || vec_json(&SpVec::from_entries(n, ves.clone())));
    emit::<R>(t, st, "convert", json!({"a": vec_json(&sv), "how": "from_sorted_entries"}), || vec_json(&SpVec::from_sorted_entries(n, ves.clone())));
    emit::<R>(t, st, "convert", json!({"a": vec_json(&sv), "how": "to_dense/from vec"}), || vec_json(&SpVec::from(sv.to_dense())));
    emit::<R>(t, st, "convert", json!({"a": vec_json(&sv), "how": "into_vec"}), || vec_json(&SpVec::from(sv.clone().into_vec())));
    emit::<R>(t, st, "add", json!({"a": vec_json(&sv), "b": vec_json(&w), "kind": "vec"}), || vec_json(&(&sv + &w)));
    emit::<R>(t, st, "sub", json!({"a": vec_json(&sv), "b": vec_json(&w), "kind": "vec"}), || vec_json(&(&sv - &w)));
    emit::<R>(t, st, "neg", json!({"a": vec_json(&sv), "kind": "vec"}), || vec_json(&(-&sv)));
    emit::<R>(t, st, "stack", json!({"a": vec_json(&sv), "b": vec_json(&wz), "kind": "vec"}), || vec_json(&sv.stack(&wz)));
    emit::<R>(t, st, "stack_vecs", json!({"vs": [vec_json(&sv), vec_json(&wz), vec_json(&w)]}), || vec_json(&SpVec::stack_vecs([sv.clone(), wz.clone(), w.clone()])));
    let at = rng.gen_range(0..=n);
    emit::<R>(t, st, "split", json!({"a": vec_json(&sv), "at": at}), || { let (x, y) = sv.split(at); json!([vec_json(&x), vec_json(&y)]) });
    let (s0, s1) = (rng.gen_range(0..=n), n); let s0 = s0.min(s1);
    emit::<R>(t, st, "submat", json!({"a": vec_json(&sv), "i0": s0, "i1": s1, "j0": 0, "j1": 1, "kind": "vec"}), || vec_json(&sv.subvec(s0..s1)));
    emit::<R>(t, st, "submat", json!({"a": vec_json(&sv), "i0": 0, "i1": at, "j0": 0, "j1": 1, "kind": "vec"}), || vec_json(&sv.subvec(0..at)));
    emit::<R>(t, st, "permute", json!({"a": vec_json(&sv), "p": q, "q": [0], "kind": "vec"}), || vec_json(&sv.permute(perm(&q).view())));
    emit::<R>(t, st, "is_zero", json!({"a": vec_json(&wz), "kind": "vec"}), || json!(wz.is_zero()));
    // ---- dense elementary operations
    if m >= 2 && n >= 2 {
        let (i, k2) = (rng.gen_range(0..m), rng.gen_range(0..m)); let (j, l2) = (rng.gen_range(0..n), rng.gen_range(0..n));
        let x = R::rnd(rng, 3);
        emit::<R>(t, st, "swap_rows", json!({"a": ja, "i": i, "k": k2}), || { let mut r = ma.clone(); r.swap_rows(i, k2); mat_json(&r) });
        emit::<R>(t, st, "swap_cols", json!({"a": ja, "i": j, "k": l2}), || { let mut r = ma.clone(); r.swap_cols(j, l2); mat_json(&r) });
        emit::<R>(t, st, "mul_row", json!({"a": ja, "i": i, "x": x.ent()}), || { let mut r = ma.clone(); r.mul_row(i, &x); mat_json(&r) });
        emit::<R>(t, st, "mul_col", json!({"a": ja, "i": j, "x": x.ent()}), || { let mut r = ma.clone(); r.mul_col(j, &x); mat_json(&r) });
        if i != k2 { emit::<R>(t, st, "add_row_to", json!({"a": ja, "i": i, "k": k2, "x": x.ent()}), || { let mut r = ma.clone(); r.add_row_to(i, k2, &x); mat_json(&r) }); }
        if j != l2 { emit::<R>(t, st, "add_col_to", json!({"a": ja, "i": j, "k": l2, "x": x.ent()}), || { let mut r = ma.clone(); r.add_col_to(j, l2, &x); mat_json(&r) }); }
        let cs: Vec<R> = (0..4).map(|_| R::rnd(rng, 2)).collect();
        let jcs = json!(cs.iter().map(|x| x.ent()).collect::<Vec<_>>());
        if i != k2 { emit::<R>(t, st, "left_elem", json!({"a": ja, "i": i, "k": k2, "c": jcs}), || { let mut r = ma.clone(); r.left_elementary([&cs[0], &cs[1], &cs[2], &cs[3]], i, k2); mat_json(&r) }); }
        if j != l2 { emit::<R>(t, st, "right_elem", json!({"a": ja, "i": j, "k": l2, "c": jcs}), || { let mut r = ma.clone(); r.right_elementary([&cs[0], &cs[1], &cs[2], &cs[3]], j, l2); mat_json(&r) }); }
    }
}

/// A history on a composed coordinate transform.
fn trans_history<R: Ent>(rng: &mut StdRng, t: &mut Tracer, st: &mut Stats, len: usize) where for<'x> &'x R: RingOps<R> {
    st.trans_histories += 1;
    let n0 = rng.gen_range(0..5usize);
    let mut tr = Trans::<R>::id(n0);
    emit::<R>(t, st, "t_new", json!({"n": n0}), || json!("-"));
    let observe = |tr: &Trans<R>, rng: &mut StdRng, t: &mut Tracer, st: &mut Stats| {
        let v = rand_sp::<R>(rng, tr.src_dim(), 1, 0.7, 3, 0.2).col_vec(0);
        let w = rand_sp::<R>(rng, tr.tgt_dim(), 1, 0.7, 3, 0.2).col_vec(0);
        let mut o = json!({"v": vec_json(&v), "w": vec_json(&w)});
        let r = guarded(|| json!({"src": tr.src_dim(), "tgt": tr.tgt_dim(), "is_id": tr.is_id(), "fmat": sp_json(&tr.forward_mat()), "bmat": sp_json(&tr.backward_mat()),
                                   "fv": vec_json(&tr.forward(&v)), "bw": vec_json(&tr.backward(&w))}));
        let mut e = json!({"op": "t_observe", "ring": R::ring(), "type": R::tname()});
        match r { Ok(x) => { for (k, val) in x.as_object().unwrap() { o[k] = val.clone(); } e["res"] = json!("ok"); e["o"] = o; }
                  Err(m) => { e["res"] = json!("panic"); e["panic"] = json!(m); st.panics += 1; } }
        st.events += 1; t.emit(&e);
    };
    observe(&tr, rng, t, st);
    for _ in 0..len {
        let tgt = tr.tgt_dim();
        match rng.gen_range(0..10) {
            0..=3 => { let m = rng.gen_range(0..5usize); let f = rand_sp::<R>(rng, m, tgt, 0.5, 2, 0.2); let b = rand_sp::<R>(rng, tgt, m, 0.5, 2, 0.2);
                       emit::<R>(t, st, "t_append", json!({"f": sp_json(&f), "b": sp_json(&b)}), || { tr.append(f.clone(), b.clone()); json!("-") }); }
            4 => { let p = rand_perm(rng, tgt); emit::<R>(t, st, "t_append_perm", json!({"p": p}), || { tr.append_perm(PermOwned::new(p.clone()).view()); json!("-") }); }
            5..=6 => { // merge with another transform built from 0..2 factors
                let mut o = Trans::<R>::id(tgt); let mut dim = tgt;
                let (mut fo, mut bo) = (sp_dense(&SpMat::<R>::id(tgt)), sp_dense(&SpMat::<R>::id(tgt)));
                let nf = rng.gen_range(0..3);
                for _ in 0..nf { let m = rng.gen_range(0..4usize); let f = rand_sp::<R>(rng, m, dim, 0.5, 2, 0.2); let b = rand_sp::<R>(rng, dim, m, 0.5, 2, 0.2);
                    // dense products maintained by the harness only to *describe* the operand; TLC recomputes nothing from them but the merge
                    fo = sp_dense(&(&f * &sp_from_dense(&fo, dim, tgt, &|_, _| false))); bo = sp_dense(&(&sp_from_dense(&bo, tgt, dim, &|_, _| false) * &b));
                    o.append(f, b); dim = m; }
                let jo = json!({"src": tgt, "tgt": dim, "k": nf, "F": dense_json(dim, tgt, &fo), "B": dense_json(tgt, dim, &bo)});
                let how = rng.gen_bool(0.5);
                emit::<R>(t, st, "t_merge", json!({"o": jo, "how": if how { "merge" } else { "merged" }}), || { if how { tr.merge(o.clone()); } else { tr = tr.merged(&o); } json!("-") }); }
            7 => emit::<R>(t, st, "t_reduce", json!({}), || { tr.reduce(); json!("-") }),
            _ => { let cnt = if tgt == 0 { 0 } else { rng.gen_range(0..=tgt) }; let mut idx = rand_perm(rng, tgt); idx.truncate(cnt);
                   emit::<R>(t, st, "t_sub", json!({"idx": idx}), || { tr = tr.sub(&idx); json!("-") }); }
        }
        observe(&tr, rng, t, st);
    }
}

fn run<R: Ent>(a: &Args, salt: u64, t: &mut Tracer, st: &mut Stats, enumerated: &[Value]) where for<'x> &'x R: RingOps<R> {
    let mut rng = a.rng(salt);
    // spec -> impl: every pair of TLC-enumerated small matrices, without and with all zeros stored explicitly
    let mats: Vec<(usize, usize, Vec<Vec<R>>)> = enumerated.iter().map(|v| {
        let (m, n) = (v["m"].as_u64().unwrap() as usize, v["n"].as_u64().unwrap() as usize);
        (m, n, v["a"].as_array().unwrap().iter().map(|r| r.as_array().unwrap().iter().map(|x| R::of_int(x.as_i64().unwrap())).collect()).collect()) }).collect();
    for (i, (m, n, da)) in mats.iter().enumerate() {
        let same: Vec<&(usize, usize, Vec<Vec<R>>)> = mats.iter().filter(|x| x.0 == *m && x.1 == *n).collect();
        let cands: Vec<&(usize, usize, Vec<Vec<R>>)> = mats.iter().filter(|x| x.0 == *n).collect();
        if cands.is_empty() { continue; }
        let picks = if a.thorough() { 8 } else { 2 };
        for s in 0..picks {
            let db = &same[(i * 7 + s * 13 + 3) % same.len()].2;
            let c = cands[(i * 31 + s * 17) % cands.len()];
            let stored = (i + s) % 2 == 1;
            let (sa, sb, sc) = (sp_from_dense(da, *m, *n, &|_, _| stored), sp_from_dense(db, *m, *n, &|_, _| !stored), sp_from_dense(&c.2, c.0, c.1, &|_, _| stored));
            case::<R>(&mut rng, t, st, &sa, &sb, &sc);
        }
    }
    let ncases = if a.thorough() { 1000 } else { 12 };
    let maxd = if a.thorough() { 7 } else { 5 };
    for _ in 0..ncases {
        let (m, n, k) = (rng.gen_range(0..=maxd), rng.gen_range(0..=maxd), rng.gen_range(0..=maxd));
        let dens = [0.2, 0.5, 0.9][rng.gen_range(0..3)];
        let (sa, sb, sc) = (rand_sp::<R>(&mut rng, m, n, dens, 4, 0.25), rand_sp::<R>(&mut rng, m, n, dens, 4, 0.25), rand_sp::<R>(&mut rng, n, k, dens, 4, 0.25));
        case::<R>(&mut rng, t, st, &sa, &sb, &sc);
    }
    let nh = if a.thorough() { 400 } else { 6 };
    for _ in 0..nh { let len = rng.gen_range(0..7); trans_history::<R>(&mut rng, t, st, len); }
}

pub fn record(a: &Args) {
    let mut t = Tracer::create(&a.out);
    let mut st = Stats::default();
    let en: Vec<Value> = a.inp.as_ref().map(|p| read_ndjson(p)).unwrap_or_default();
    run::<i64>(a, 1, &mut t, &mut st, &en);
    run::<Ratio<i64>>(a, 2, &mut t, &mut st, &[]);
    run::<FF<5>>(a, 3, &mut t, &mut st, &[]);
    run::<FF<3>>(a, 4, &mut t, &mut st, &en);
    let n = t.finish();
    summary("record", json!({"events": n, "panics": st.panics, "cases_with_zero_dimension": st.zero_dim, "operands_with_stored_zeros": st.stored_zero_operands, "trans_histories": st.trans_histories, "types": ["i64", "Ratio<i64>", "FF<5>", "FF<3>"]}));
}
