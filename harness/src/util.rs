use rand::rngs::StdRng;
use rand::SeedableRng;
use serde_json::{json, Value};
use std::fs::File;
use std::io::{BufRead, BufReader, BufWriter, Write};
use std::panic::{catch_unwind, AssertUnwindSafe};

pub struct Args {
    pub seed: u64,
    pub tier: String,
    pub out: String,
    pub inp: Option<String>,
    pub extra: Vec<String>,
}

impl Args {
    pub fn parse(a: &[String]) -> Args {
        let mut r = Args { seed: 0, tier: "quick".into(), out: "/dev/stdout".into(), inp: None, extra: vec![] };
        let mut i = 0;
        while i < a.len() {
            match a[i].as_str() {
                "--seed" => { r.seed = a[i + 1].parse().expect("seed"); i += 2; }
                "--tier" => { r.tier = a[i + 1].clone(); i += 2; }
                "--out" => { r.out = a[i + 1].clone(); i += 2; }
                "--in" => { r.inp = Some(a[i + 1].clone()); i += 2; }
                _ => { r.extra.push(a[i].clone()); i += 1; }
            }
        }
        r
    }
    pub fn thorough(&self) -> bool { self.tier == "thorough" }
    pub fn rng(&self, salt: u64) -> StdRng { StdRng::seed_from_u64(self.seed.wrapping_mul(0x9E3779B97F4A7C15).wrapping_add(salt)) }
    pub fn flag(&self, name: &str) -> Option<String> {
        let mut it = self.extra.iter();
        while let Some(x) = it.next() { if x == name { return it.next().cloned(); } }
        None
    }
}

/// ndjson writer; one event per line.
pub struct Tracer { w: BufWriter<File>, pub n: usize }
impl Tracer {
    pub fn create(path: &str) -> Tracer { Tracer { w: BufWriter::new(File::create(path).expect("create trace")), n: 0 } }
    pub fn emit(&mut self, v: &Value) { writeln!(self.w, "{}", v).unwrap(); self.n += 1; }
    pub fn finish(mut self) -> usize { self.w.flush().unwrap(); self.n }
}

pub fn read_ndjson(path: &str) -> Vec<Value> {
    BufReader::new(File::open(path).expect("open input")).lines()
        .map(|l| l.unwrap()).filter(|l| !l.trim().is_empty())
        .map(|l| serde_json::from_str(&l).expect("json line")).collect()
}

/// Run code under test; a panic is data, not a crash of the harness.
pub fn guarded<T>(f: impl FnOnce() -> T) -> Result<T, String> {
    catch_unwind(AssertUnwindSafe(f)).map_err(|e| {
        if let Some(s) = e.downcast_ref::<&str>() { s.to_string() }
        else if let Some(s) = e.downcast_ref::<String>() { s.clone() }
        else { "panic".to_string() }
    })
}

pub fn quiet_panics() { if std::env::var("YV_LOUD_PANICS").is_err() { std::panic::set_hook(Box::new(|_| {})); } }

pub fn summary(kind: &str, v: Value) { println!("YV-SUMMARY {} {}", kind, v); }
pub fn mismatch(v: Value) { println!("YV-MISMATCH {}", v); }
pub fn usize_of(v: &Value, k: &str) -> usize { v[k].as_u64().unwrap_or_else(|| panic!("field {} in {}", k, v)) as usize }
pub fn u8s_of(v: &Value) -> Vec<u8> { v.as_array().map(|a| a.iter().map(|x| x.as_u64().unwrap() as u8).collect()).unwrap_or_default() }
pub fn jbits(b: &[u8]) -> Value { json!(b) }
