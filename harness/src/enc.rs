//! JSON encodings of library values in the form spec/lib/Rings.tla understands.
use num_bigint::{BigInt, Sign};
use serde_json::{json, Value};
use yui::{EisenInt, GaussInt, Ratio, FF, FF2};

pub fn big_json(x: &BigInt) -> Value {
    let s = match x.sign() { Sign::Minus => -1, Sign::NoSign => 0, Sign::Plus => 1 };
    let dec = x.magnitude().to_string();
    let mut m: Vec<u32> = vec![];
    if s != 0 {
        let b = dec.as_bytes();
        let mut end = b.len();
        while end > 0 { let start = end.saturating_sub(3); m.push(std::str::from_utf8(&b[start..end]).unwrap().parse().unwrap()); end = start; }
    }
    json!({"s": s, "m": m})
}

pub trait Enc { fn enc(&self) -> Value; }
impl Enc for i32 { fn enc(&self) -> Value { big_json(&BigInt::from(*self)) } }
impl Enc for i64 { fn enc(&self) -> Value { big_json(&BigInt::from(*self)) } }
impl Enc for i128 { fn enc(&self) -> Value { big_json(&BigInt::from(*self)) } }
impl Enc for BigInt { fn enc(&self) -> Value { big_json(self) } }
impl<T: Enc> Enc for Ratio<T> { fn enc(&self) -> Value { json!({"n": self.numer().enc(), "d": self.denom().enc()}) } }
impl<const P: i32> Enc for FF<P> { fn enc(&self) -> Value { json!(*self.rep()) } }
impl Enc for FF2 { fn enc(&self) -> Value { json!(if num_traits::Zero::is_zero(self) { 0 } else { 1 }) } }
impl<I> Enc for GaussInt<I> where I: Enc + yui::Integer, for<'x> &'x I: yui::IntOps<I> { fn enc(&self) -> Value { json!({"a": self.left().enc(), "b": self.right().enc()}) } }
impl<I> Enc for EisenInt<I> where I: Enc + yui::Integer, for<'x> &'x I: yui::IntOps<I> { fn enc(&self) -> Value { json!({"a": self.left().enc(), "b": self.right().enc()}) } }

/// Conversion of machine / big integers to BigInt (harness-side exact arithmetic for envelopes and witnesses).
pub trait ToBig { fn to_big(&self) -> BigInt; fn from_big(b: &BigInt) -> Option<Self> where Self: Sized; fn bits() -> Option<u32>; }
impl ToBig for i32 { fn to_big(&self) -> BigInt { BigInt::from(*self) } fn from_big(b: &BigInt) -> Option<Self> { i32::try_from(b.clone()).ok() } fn bits() -> Option<u32> { Some(32) } }
impl ToBig for i64 { fn to_big(&self) -> BigInt { BigInt::from(*self) } fn from_big(b: &BigInt) -> Option<Self> { i64::try_from(b.clone()).ok() } fn bits() -> Option<u32> { Some(64) } }
impl ToBig for i128 { fn to_big(&self) -> BigInt { BigInt::from(*self) } fn from_big(b: &BigInt) -> Option<Self> { i128::try_from(b.clone()).ok() } fn bits() -> Option<u32> { Some(128) } }
impl ToBig for BigInt { fn to_big(&self) -> BigInt { self.clone() } fn from_big(b: &BigInt) -> Option<Self> { Some(b.clone()) } fn bits() -> Option<u32> { None } }

/// Bezout witness (s,t) with s*n + t*d = 1 when gcd(n,d) = 1; empty otherwise (TLC then rejects the value).
pub fn bezout_witness(n: &BigInt, d: &BigInt) -> Value {
    use num_integer::Integer;
    let e = n.extended_gcd(d);
    if e.gcd == BigInt::from(1) { json!([big_json(&e.x), big_json(&e.y)]) } else { json!([big_json(&BigInt::from(0)), big_json(&BigInt::from(0))]) }
}
