//! C20 — the `ykh` binary (sub-commands kh, ckh) vs the decision table and cell grammar of spec/sys/Cli.tla.
//!
//! Both drivers take the option product that TLC printed (`--in`, one JSON object per abstract point with the
//! demanded outcome and the library call ring/h/t), run the freshly built binary (`--ykh PATH`) at concrete
//! instances of each point, lex stdout into a table of token sequences, call the library directly for the same
//! parameters and write one `invoke` event per run (validated by Trace_Cli).
//!   replay  (A, spec -> impl): every point of the product, deterministic choice of concrete link inputs, Rust-side
//!            comparison reported as YV-MISMATCH in addition to the event trace;
//!   record  (B, impl -> spec): seeded random instances beyond the product: other integers and spellings, other
//!            catalogue links, relabelled PD codes, option spellings/orders and omitted defaults.
use crate::util::*;
use rand::rngs::StdRng;
use rand::seq::SliceRandom;
use rand::Rng;
use rayon::prelude::*;
use serde_json::{json, Value};
use std::collections::BTreeMap;
use std::process::{Command, Stdio};
use yui::poly::{Poly, Poly2};
use yui::{EucRing, EucRingOps, Ratio, Ring, RingOps, FF};
use yui_homology::{GridTrait, SummandTrait};
use yui_kh::kh::{KhComplex, KhHomology};
use yui_link::Link;

static FILE_SEQ: std::sync::atomic::AtomicUsize = std::sync::atomic::AtomicUsize::new(0);   // unique names of generated input files
const RES_DIR_DEFAULT: &str = "/repo/yui-link/resources/links";

// ------------------------------------------------------------------ ring elements from spec tokens

/// The letters a coefficient ring knows.
pub trait RingVars: Sized { fn var(_name: &str) -> Option<Self> { None } }
impl RingVars for i64 {}
impl RingVars for Ratio<i64> {}
impl RingVars for FF<2> {}
impl RingVars for FF<3> {}
macro_rules! impl_vars1 { ($x:literal, $($r:ty),*) => {$(
    impl RingVars for Poly<$x, $r> { fn var(name: &str) -> Option<Self> { if name.len() == 1 && name.starts_with($x) { Some(Self::variable()) } else { None } } }
)*}}
impl_vars1!('H', i64, Ratio<i64>, FF<2>, FF<3>);
impl_vars1!('T', i64, Ratio<i64>, FF<2>, FF<3>);
macro_rules! impl_vars2 { ($($r:ty),*) => {$(
    impl RingVars for Poly2<'H', 'T', $r> { fn var(name: &str) -> Option<Self> { match name { "H" => Some(Self::variable(0)), "T" => Some(Self::variable(1)), _ => None } } }
)*}}
impl_vars2!(i64, Ratio<i64>, FF<2>, FF<3>);

fn int_in<R>(n: i64) -> R where R: Ring, for<'x> &'x R: RingOps<R> {
    let mut x = R::zero();
    for _ in 0..n.unsigned_abs() { x = x + R::one(); }
    if n < 0 { -x } else { x }
}

/// Value of a spec token in R, built by ring arithmetic only (never through the string parsers under test).
pub(crate) fn elem<R>(tok: &Value) -> Result<R, String> where R: Ring + RingVars, for<'x> &'x R: RingOps<R> {
    match tok["k"].as_str().unwrap_or("") {
        "int" => Ok(int_in::<R>(tok["v"].as_i64().unwrap())),
        "rat" => { let d = int_in::<R>(tok["d"].as_i64().unwrap()); let di = d.inv().ok_or("denominator not invertible")?; Ok(int_in::<R>(tok["v"].as_i64().unwrap()) * di) }
        "var" => R::var(tok["x"].as_str().unwrap()).ok_or_else(|| "no such variable".to_string()),
        k => Err(format!("token kind {}", k)),
    }
}

// ------------------------------------------------------------------ the library's answer

pub(crate) fn cell(i: isize, j: isize, rank: usize, tors: Vec<String>) -> Value { json!({"i": i, "j": j, "rank": rank, "tors": tors}) }

fn lib_kh<R>(l: &Link, h: &Value, t: &Value, reduced: bool, bigraded: bool) -> Result<(String, Vec<Value>), String>
where R: EucRing + RingVars, for<'x> &'x R: EucRingOps<R> {
    let (h, t) = (elem::<R>(h)?, elem::<R>(t)?);
    let kh = KhHomology::new(l, &h, &t, reduced);
    let mut cells = vec![];
    if bigraded {
        // the bigraded table is projected from the h-graded homology here, not taken from into_bigraded (which the binary itself
        // uses): generator k of Kh^i goes to the cell (i, q-degree of the generator), a torsion generator with its own order
        use yui_kh::kh::KhChainExt;
        let mut tab: BTreeMap<(isize, isize), (usize, Vec<String>)> = BTreeMap::new();
        for i in kh.support() {
            let s = kh.get(i);
            let (r, tors) = (s.rank(), s.tors().to_vec());
            for k in 0..r + tors.len() {
                let q = s.gen(k).q_deg();
                let e = tab.entry((i, q)).or_insert((0, vec![]));
                if k < r { e.0 += 1; } else { e.1.push(tors[k - r].to_string()); }
            }
        }
        for ((i, j), (rank, tors)) in tab.into_iter() { cells.push(cell(i, j, rank, tors)); }
    } else {
        for i in kh.support() {
            let s = kh.get(i);
            if !s.is_zero() { cells.push(cell(i, 0, s.rank(), s.tors().iter().map(|x| x.to_string()).collect())); }
        }
    }
    Ok((R::math_symbol(), cells))
}

fn lib_ckh<R>(l: &Link, h: &Value, t: &Value, reduced: bool) -> Result<(String, Vec<Value>), String>
where R: Ring + RingVars, for<'x> &'x R: RingOps<R> {
    let (h, t) = (elem::<R>(h)?, elem::<R>(t)?);
    let c = KhComplex::new(l, &h, &t, reduced);
    let g = c.gen_grid();
    let mut cells = vec![];
    for idx in g.support() {
        let s = g.get(idx);
        if !s.is_zero() { cells.push(cell(idx.0, idx.1, s.rank(), s.tors().iter().map(|x| x.to_string()).collect())); }
    }
    Ok((R::math_symbol(), cells))
}

type Q = Ratio<i64>;
pub(crate) type F2 = FF<2>;
type F3 = FF<3>;

/// kind: "Table2D" | "Seq1D" (homology) | "GenTable" (complex). None = no such library object (kh over a non-Euclidean ring).
fn lib_call(kind: &str, base: &str, vars: &str, l: &Link, h: &Value, t: &Value, reduced: bool) -> Option<Result<(String, Vec<Value>), String>> {
    macro_rules! hom { ($r:ty) => { Some(guarded(|| lib_kh::<$r>(l, h, t, reduced, kind == "Table2D")).and_then(|x| x)) } }
    macro_rules! gen { ($r:ty) => { Some(guarded(|| lib_ckh::<$r>(l, h, t, reduced)).and_then(|x| x)) } }
    if kind == "GenTable" {
        match (base, vars) {
            ("Z", "none") => gen!(i64), ("Q", "none") => gen!(Q), ("F2", "none") => gen!(F2), ("F3", "none") => gen!(F3),
            ("Z", "H") => gen!(Poly<'H', i64>), ("Q", "H") => gen!(Poly<'H', Q>), ("F2", "H") => gen!(Poly<'H', F2>), ("F3", "H") => gen!(Poly<'H', F3>),
            ("Z", "T") => gen!(Poly<'T', i64>), ("Q", "T") => gen!(Poly<'T', Q>), ("F2", "T") => gen!(Poly<'T', F2>), ("F3", "T") => gen!(Poly<'T', F3>),
            ("Z", "HT") => gen!(Poly2<'H', 'T', i64>), ("Q", "HT") => gen!(Poly2<'H', 'T', Q>), ("F2", "HT") => gen!(Poly2<'H', 'T', F2>), ("F3", "HT") => gen!(Poly2<'H', 'T', F3>),
            _ => None,
        }
    } else {
        match (base, vars) {
            ("Z", "none") => hom!(i64), ("Q", "none") => hom!(Q), ("F2", "none") => hom!(F2), ("F3", "none") => hom!(F3),
            ("Q", "H") => hom!(Poly<'H', Q>), ("F2", "H") => hom!(Poly<'H', F2>), ("F3", "H") => hom!(Poly<'H', F3>),
            ("Q", "T") => hom!(Poly<'T', Q>), ("F2", "T") => hom!(Poly<'T', F2>), ("F3", "T") => hom!(Poly<'T', F3>),
            _ => None,
        }
    }
}

// ------------------------------------------------------------------ concrete inputs

#[derive(Clone, Debug)]
pub struct Input { pub arg: String, pub pd: Option<Vec<[usize; 4]>> }   // pd: what the harness hands to the library (None = no diagram)

pub struct Catalogue { pub(crate) res: String, pub(crate) work: String, pub(crate) thorough: bool }

pub(crate) fn pd_json(pd: &[[usize; 4]]) -> String { serde_json::to_string(pd).unwrap() }
pub(crate) fn parse_pd(s: &str) -> Option<Vec<[usize; 4]>> { serde_json::from_str::<Vec<[usize; 4]>>(s).ok() }

impl Catalogue {
    pub fn new(a: &Args) -> Catalogue {
        let work = a.flag("--work").unwrap_or_else(|| std::env::temp_dir().join("yv_c20").to_string_lossy().to_string());
        std::fs::create_dir_all(&work).expect("work dir");
        Catalogue { res: a.flag("--resources").unwrap_or_else(|| RES_DIR_DEFAULT.to_string()), work, thorough: a.thorough() }
    }
    pub(crate) fn pd_of(&self, name: &str) -> Vec<[usize; 4]> {
        let s = std::fs::read_to_string(format!("{}/{}.json", self.res, name)).unwrap_or_else(|_| panic!("catalogue entry {}", name));
        parse_pd(&s).expect("catalogue PD")
    }
    pub(crate) fn named(&self, name: &str) -> Input { Input { arg: name.to_string(), pd: Some(self.pd_of(name)) } }
    pub(crate) fn exists(&self, name: &str) -> bool { std::path::Path::new(&format!("{}/{}.json", self.res, name)).exists() || std::path::Path::new(name).exists() }
    pub(crate) fn file_with(&self, name: &str, content: &str) -> String {
        let p = format!("{}/{}", self.work, name);
        std::fs::write(&p, content).expect("write input file");
        p
    }
    /// An explicitly given LINK argument (replaying a stored violation): the diagram the harness hands to the library.
    pub fn resolve(&self, arg: &str) -> Input {
        let pd = parse_pd(arg)
            .or_else(|| if Link::is_valid_name(arg) { std::fs::read_to_string(format!("{}/{}.json", self.res, arg)).ok().and_then(|s| parse_pd(&s)) } else { None })
            .or_else(|| std::fs::read_to_string(arg).ok().and_then(|s| parse_pd(&s)));
        Input { arg: arg.to_string(), pd }
    }
    /// The fixed instances of an input class (first ones are the most telling: chiral knots, torsion squares, direct sums).
    pub fn fixed(&self, ic: &str) -> Vec<Input> {
        let lit = |s: &str| Input { arg: s.to_string(), pd: parse_pd(s) };
        let none = |s: &str| Input { arg: s.to_string(), pd: None };
        match ic {
            "knot" => { let mut v = vec!["3_1", "5_2", "4_1", "7_3", "6_2", "5_1", "6_1", "7_7"]; if self.thorough { v.extend(["8_19", "8_20", "9_42", "10_132", "10_124"]); } v.into_iter().map(|n| self.named(n)).collect() }
            "link" => { let mut v = vec!["L2a1", "L6a4", "L4a1", "L6n1", "L5a1"]; if self.thorough { v.extend(["L7n1", "L6a1", "L7a1"]); } v.into_iter().filter(|n| self.exists(n)).map(|n| self.named(n)).collect() }
            "pd" => {
                let shift = |pd: Vec<[usize; 4]>, k: usize| pd.into_iter().map(|x| [x[0] + k, x[1] + k, x[2] + k, x[3] + k]).collect::<Vec<_>>();
                let mut v = vec![
                    lit("[[1,4,2,5],[3,6,4,1],[5,2,6,3]]"),
                    lit("[[1,4,2,5],[3,6,4,1],[5,2,6,3],[7,8,8,7]]"),         // split: trefoil + kinked unknot (cells with Z + Z/2)
                    lit(" [[4, 1, 3, 2],\t[2, 3, 1, 4]] "),                   // Hopf link, JSON white space
                    Input { arg: pd_json(&shift(self.pd_of("4_1"), 100)), pd: Some(shift(self.pd_of("4_1"), 100)) },
                    lit("[[1,2,2,1]]"),                                        // unknot with one kink
                    Input { arg: pd_json(&shift(self.pd_of("7_3"), 7)), pd: Some(shift(self.pd_of("7_3"), 7)) },
                ];
                if self.thorough { for n in ["6_3", "L6a4", "8_19"] { v.push(Input { arg: pd_json(&self.pd_of(n)), pd: Some(self.pd_of(n)) }); } }
                v
            }
            "file" => ["5_2", "4_1", "L2a1"].iter().enumerate().map(|(k, n)| {
                let pd = self.pd_of(n);
                Input { arg: self.file_with(&format!("pd_file_{}.json", k), &pd_json(&pd)), pd: Some(pd) } }).collect(),
            "empty" => vec![lit("[]"), lit("[ ]"), lit(" []\n")],
            "unknown" => ["foo", "3_2", "10_166", "11_1", "K11a9999", "3_1 ", "31", "L2a7", "knot.json"].iter().filter(|n| !self.exists(n)).map(|n| none(n)).collect(),
            "garbage" => ["[[1,2", "[[1,4,2,5],[3,6,4,1],[5,2,6,3]", "]]", "{", "", "3_1;4_1", "[[1,4,2,5],[3,6,4,1],[5,2,6,3]]x", "[[1,4,2,5],,[3,6,4,1]]"].iter().map(|n| none(n)).collect(),
            "notpd" => ["{\"a\":1}", "[1,2,3]", "[[1,2,3]]", "[[1,2,3,4,5]]", "\"3_1\"", "[[\"a\",\"b\",\"c\",\"d\"]]", "null", "3", "[[1.5,2,3,4]]", "[[-1,2,3,4]]", "[[1,4,2,5],[3,6,4,1],[5,2,6]]", "{\"pd\":[[1,4,2,5],[3,6,4,1],[5,2,6,3]]}"].iter().map(|n| none(n)).collect(),
            "badfile" => vec![none(&self.file_with("bad_1.json", "hello")), none(&self.file_with("bad_2.json", "{\"pd\":[[1,4,2,5]]}")), none(&self.work), none(&self.file_with("bad_3.json", ""))],
            "badpd" => ["[[1,2,3,4]]", "[[1,1,1,2]]", "[[1,4,2,5],[3,6,4,1],[5,2,6,7]]", "[[1,2,3,4],[5,6,7,8]]", "[[1,2,3,3]]", "[[1,4,2,5],[3,6,4,1]]"].iter().map(|n| none(n)).collect(),
            _ => panic!("input class {}", ic),
        }
    }
    /// A random instance of the class (B): catalogue links, relabelled / reordered PD codes.
    pub fn random(&self, ic: &str, rng: &mut StdRng) -> Input {
        let maxc = if self.thorough { 9 } else { 7 };
        match ic {
            "knot" => loop {
                let c = rng.gen_range(3..=maxc);
                let n = format!("{}_{}", c, rng.gen_range(1..=[0, 0, 0, 1, 1, 2, 3, 7, 21, 49][c]));
                if self.exists(&n) { return self.named(&n); }
            },
            "link" => { let all = ["L2a1", "L4a1", "L5a1", "L6a1", "L6a2", "L6a3", "L6a4", "L6a5", "L6n1", "L7a1", "L7a2", "L7n1", "L7n2"];
                        loop { let n = all[rng.gen_range(0..all.len())]; if self.exists(n) { return self.named(n); } } }
            "pd" | "file" => {
                let base = if rng.gen_bool(0.3) { self.random("link", rng) } else { self.random("knot", rng) };
                let mut pd = base.pd.unwrap();
                // relabel the edges injectively and shuffle the crossings: still a PD code of the same diagram
                let mut labels: Vec<usize> = pd.iter().flatten().cloned().collect(); labels.sort(); labels.dedup();
                let off = rng.gen_range(0..50); let mul = rng.gen_range(1..4);
                let mut img: Vec<usize> = (0..labels.len()).map(|i| off + mul * i).collect();
                if rng.gen_bool(0.5) { img.shuffle(rng); }
                let map: BTreeMap<usize, usize> = labels.iter().cloned().zip(img).collect();
                for x in pd.iter_mut() { for e in x.iter_mut() { *e = map[e]; } }
                pd.shuffle(rng);
                let s = if rng.gen_bool(0.3) { pd_json(&pd).replace(",", ", ") } else { pd_json(&pd) };
                if ic == "file" { Input { arg: self.file_with(&format!("pd_rand_{}.json", FILE_SEQ.fetch_add(1, std::sync::atomic::Ordering::SeqCst)), &s), pd: Some(pd) } } else { Input { arg: s, pd: Some(pd) } }
            }
            _ => { let f = self.fixed(ic); f[rng.gen_range(0..f.len())].clone() }
        }
    }
}

// ------------------------------------------------------------------ the command line of a point

pub(crate) fn tok_str(tok: &Value, rng: Option<&mut StdRng>) -> String {
    match tok["k"].as_str().unwrap() {
        "int" => { let v = tok["v"].as_i64().unwrap();
            if tok["canon"].as_bool().unwrap() { v.to_string() }
            else { // a non-canonical spelling of the same integer
                let forms: Vec<String> = if v < 0 { vec![format!("-0{}", -v), format!("-00{}", -v)] } else { vec![format!("0{}", v), format!("+{}", v), format!("00{}", v)] };
                let forms = if v == 0 { vec!["00".to_string(), "+0".to_string(), "-0".to_string(), "000".to_string()] } else { forms };
                match rng { Some(r) => forms[r.gen_range(0..forms.len())].clone(), None => forms[0].clone() } } }
        "rat" => format!("{}/{}", tok["v"].as_i64().unwrap(), tok["d"].as_i64().unwrap()),
        "var" => tok["x"].as_str().unwrap().to_string(),
        _ => match rng { Some(r) => ["x", "", "h", "t", "Z", "1.5", "--", "a/b", " 1", "1 ", "0x10", "1e3", "١"][r.gen_range(0..13)].to_string(), None => "x".to_string() },
    }
}
pub(crate) fn cv_str(cv: &Value, mut rng: Option<&mut StdRng>) -> String {
    cv.as_array().unwrap().iter().map(|t| tok_str(t, rng.as_deref_mut())).collect::<Vec<_>>().join(",")
}

/// argv in the plain form `<cmd> <link> -t <T> -c=<V> [-m] [-r]`.
fn argv_plain(p: &Value, link: &str, cvs: &str) -> Vec<String> {
    let mut v = vec![p["cmd"].as_str().unwrap().to_string(), link.to_string(), "-t".into(), p["ctype"].as_str().unwrap().to_string(), format!("-c={}", cvs)];
    if p["mirror"].as_bool().unwrap() { v.push("-m".into()); }
    if p["reduced"].as_bool().unwrap() { v.push("-r".into()); }
    v
}
/// A random spelling of the same invocation: long options, option order, omitted defaults, combined flags.
fn argv_random(p: &Value, link: &str, cvs: &str, rng: &mut StdRng) -> Vec<String> {
    let ct = p["ctype"].as_str().unwrap();
    let (m, r) = (p["mirror"].as_bool().unwrap(), p["reduced"].as_bool().unwrap());
    let mut opts: Vec<Vec<String>> = vec![];
    if !(ct == "Z" && rng.gen_bool(0.5)) { opts.push(match rng.gen_range(0..3) { 0 => vec!["-t".into(), ct.into()], 1 => vec![format!("--c-type={}", ct)], _ => vec!["--c-type".into(), ct.into()] }); }
    if !(cvs == "0" && rng.gen_bool(0.5)) {
        let dash = cvs.starts_with('-');
        opts.push(match rng.gen_range(0..4) { 0 if !dash => vec!["-c".into(), cvs.into()], 1 if !dash => vec!["--c-value".into(), cvs.into()], 2 => vec![format!("--c-value={}", cvs)], _ => vec![format!("-c={}", cvs)] });
    }
    if m && r && rng.gen_bool(0.3) { opts.push(vec![if rng.gen_bool(0.5) { "-mr".into() } else { "-rm".into() }]); }
    else {
        if m { opts.push(vec![if rng.gen_bool(0.5) { "-m".into() } else { "--mirror".into() }]); }
        if r { opts.push(vec![if rng.gen_bool(0.5) { "-r".into() } else { "--reduced".into() }]); }
    }
    opts.shuffle(rng);
    let k = if link.starts_with('-') { 0 } else { rng.gen_range(0..=opts.len()) };   // position of the LINK argument among the options
    let mut v = vec![p["cmd"].as_str().unwrap().to_string()];
    for (i, o) in opts.iter().enumerate() { if i == k { v.push(link.to_string()); } v.extend(o.iter().cloned()); }
    if k >= opts.len() { v.push(link.to_string()); }
    v
}

// ------------------------------------------------------------------ running the binary, lexing stdout

pub struct RunOut { pub code: i32, pub stdout: String, pub stderr: String }

pub(crate) fn run_bin(ykh: &str, argv: &[String]) -> RunOut {
    let o = Command::new("timeout").arg("60").arg(ykh).args(argv).env("RUST_BACKTRACE", "0").stdin(Stdio::null()).output().expect("spawn ykh");
    RunOut { code: o.status.code().unwrap_or(-1), stdout: String::from_utf8_lossy(&o.stdout).to_string(), stderr: String::from_utf8_lossy(&o.stderr).to_string() }
}

pub(crate) fn strip_ansi(s: &str) -> String {
    let mut out = String::new(); let mut it = s.chars().peekable();
    while let Some(c) = it.next() { if c == '\u{1b}' { for d in it.by_ref() { if d.is_ascii_alphabetic() { break; } } } else { out.push(c); } }
    out
}

fn sup_digit(c: char) -> Option<u32> { "⁰¹²³⁴⁵⁶⁷⁸⁹".chars().position(|x| x == c).map(|p| p as u32) }
fn tk(k: &str, s: &str, n: u64) -> Value { json!({"k": k, "s": s, "n": n}) }

/// A trailing superscript number, if any: "Z²" -> ("Z", Some(2)).
pub(crate) fn split_sup(s: &str) -> (String, Option<u64>) {
    let ch: Vec<char> = s.chars().collect();
    let mut i = ch.len();
    while i > 0 && sup_digit(ch[i - 1]).is_some() { i -= 1; }
    if i == ch.len() { return (s.to_string(), None); }
    let n = ch[i..].iter().fold(0u64, |a, c| a * 10 + sup_digit(*c).unwrap() as u64);
    (ch[..i].iter().collect(), Some(n))
}

/// Tokens of one printed cell (see Cli.tla). Anything the lexer cannot read becomes a `bad` token (no reading in the grammar).
pub fn lex_cell(s: &str) -> Vec<Value> {
    let mut out = vec![];
    for (k, part) in s.split(" ⊕ ").enumerate() {
        if k > 0 { out.push(tk("op", "", 0)); }
        let (body, sup) = split_sup(part);
        if body.starts_with('(') {
            if !body.ends_with(')') || body.chars().count() < 5 { return vec![tk("bad", s, 0)]; }
            let inner: String = { let c: Vec<char> = body.chars().collect(); c[1..c.len() - 1].iter().collect() };
            match inner.find('/') {
                Some(p) if p > 0 && p + 1 < inner.len() => { out.push(tk("lp", "", 0)); out.push(tk("sym", &inner[..p], 0)); out.push(tk("slash", "", 0)); out.push(tk("tor", &inner[p + 1..], 0)); out.push(tk("rp", "", 0)); }
                _ => return vec![tk("bad", s, 0)],
            }
        } else {
            if body.is_empty() || body.contains('(') || body.contains(')') || body.contains('/') || body.contains('⊕') { return vec![tk("bad", s, 0)]; }
            out.push(tk("sym", &body, 0));
        }
        if let Some(n) = sup { out.push(tk("sup", "", n)); }
    }
    out
}

#[derive(Clone, Debug, Default)]
pub struct Table { pub cols: Vec<i64>, pub rows: Vec<i64>, pub cells: Vec<(usize, usize, String)>, pub zeros: usize }

fn tok_starts(line: &[char]) -> Vec<(usize, String)> {
    let mut v = vec![]; let mut i = 0;
    while i < line.len() { if line[i] == ' ' { i += 1; continue; } let s = i; while i < line.len() && line[i] != ' ' { i += 1; } v.push((s, line[s..i].iter().collect())); }
    v
}

/// stdout class and, for a table, its cells. Cells are located by the column offsets of the header line
/// (prettytable pads every column to a common width); falls back to splitting at runs of >= 2 blanks.
pub fn parse_stdout(raw: &str) -> (String, Table) {
    if raw.trim().is_empty() { return ("none".into(), Table::default()); }
    let lines: Vec<&str> = raw.lines().collect();
    let lines: Vec<&str> = { let mut l = lines; while l.last().map(|x| x.trim().is_empty()).unwrap_or(false) { l.pop(); } l };
    let head_raw = lines[0];
    let head: Vec<char> = if head_raw.starts_with(' ') { head_raw.chars().collect() } else { std::iter::once(' ').chain(head_raw.chars()).collect() };
    let ht = tok_starts(&head);
    if ht.is_empty() { return ("other".into(), Table::default()); }
    let class = match ht[0].1.as_str() { "j\\i" => "table2d", "i" => "seq1d", _ => return ("other".into(), Table::default()) };
    let mut t = Table::default();
    for (_, s) in &ht[1..] { match s.parse::<i64>() { Ok(v) => t.cols.push(v), Err(_) => return ("other".into(), Table::default()) } }
    let starts: Vec<usize> = ht.iter().map(|x| x.0).collect();
    let ncol = t.cols.len();
    if (class == "seq1d" && lines.len() != 2) || lines.len() < 2 { return ("other".into(), Table::default()); }
    for (r, ln) in lines[1..].iter().enumerate() {
        let ch: Vec<char> = ln.chars().collect();
        // positional
        let mut fields: Option<Vec<String>> = Some(vec![]);
        if ch.iter().take(starts[0].min(ch.len())).any(|c| *c != ' ') { fields = None; }
        if let Some(f) = fields.as_mut() {
            for k in 0..=ncol {
                let a = starts[k].min(ch.len());
                let b = if k < ncol { starts[k + 1].min(ch.len()) } else { ch.len() };
                if k > 0 && a < ch.len() && ch[a - 1] != ' ' { fields = None; break; }   // a cell runs into the next column
                f.push(ch[a..b].iter().collect::<String>().trim().to_string());
            }
        }
        let fields = match fields { Some(f) => f, None => {
            // fallback: >= 2 blanks separate cells
            let mut parts: Vec<String> = vec![]; let mut cur = String::new(); let mut sp = 0;
            for c in ln.trim().chars() { if c == ' ' { sp += 1; } else { if sp >= 2 && !cur.is_empty() { parts.push(cur.clone()); cur.clear(); } else if sp == 1 { cur.push(' '); } sp = 0; cur.push(c); } }
            if !cur.is_empty() { parts.push(cur); }
            if class == "seq1d" { parts.insert(0, String::new()); }
            if parts.len() != ncol + 1 { return ("other".into(), Table::default()); }
            parts } };
        if class == "seq1d" { if !fields[0].is_empty() { return ("other".into(), Table::default()); } t.rows.push(0); }
        else { match fields[0].parse::<i64>() { Ok(v) => t.rows.push(v), Err(_) => return ("other".into(), Table::default()) } }
        for (c, f) in fields[1..].iter().enumerate() {
            if f.is_empty() || f == "." || f == "0" { t.zeros += 1; } else { t.cells.push((c + 1, r + 1, f.clone())); }
        }
    }
    (class.into(), t)
}

pub(crate) fn table_json(t: &Table) -> Value {
    json!({"cols": t.cols, "rows": t.rows, "zeros": t.zeros,
           "cells": t.cells.iter().map(|(c, r, s)| json!({"c": c, "r": r, "tok": lex_cell(s)})).collect::<Vec<_>>()})
}

/// Independent rendering of a group for the Rust-side comparison: summands as a sorted list of strings.
fn norm_expected(sym: &str, rank: u64, tors: &[String]) -> Vec<String> {
    let sup = |n: u64| -> String { n.to_string().chars().map(|c| "⁰¹²³⁴⁵⁶⁷⁸⁹".chars().nth(c.to_digit(10).unwrap() as usize).unwrap()).collect() };
    let mut v = vec![];
    if rank == 1 { v.push(sym.to_string()); } else if rank > 1 { v.push(format!("{}{}", sym, sup(rank))); }
    let mut m: BTreeMap<&String, u64> = BTreeMap::new();
    for t in tors { *m.entry(t).or_insert(0) += 1; }
    for (t, k) in m { v.push(if k > 1 { format!("({}/{}){}", sym, t, sup(k)) } else { format!("({}/{})", sym, t) }); }
    v.sort(); v
}
pub(crate) fn norm_printed(s: &str) -> Vec<String> { let mut v: Vec<String> = s.split(" ⊕ ").map(|x| x.to_string()).collect(); v.sort(); v }

/// Rust-side comparison of a printed table with the library's cells; None = equal.
pub(crate) fn cells_differ(t: &Table, sym: &str, lib: &[Value]) -> Option<String> {
    let mut printed: BTreeMap<(i64, i64), Vec<String>> = BTreeMap::new();
    for (c, r, s) in &t.cells {
        if printed.insert((t.cols[*c - 1], t.rows[*r - 1]), norm_printed(s)).is_some() { return Some(format!("two printed cells at ({}, {})", t.cols[*c - 1], t.rows[*r - 1])); }
    }
    let mut expected: BTreeMap<(i64, i64), Vec<String>> = BTreeMap::new();
    for g in lib {
        let tors: Vec<String> = g["tors"].as_array().unwrap().iter().map(|x| x.as_str().unwrap().to_string()).collect();
        expected.insert((g["i"].as_i64().unwrap(), g["j"].as_i64().unwrap()), norm_expected(sym, g["rank"].as_u64().unwrap(), &tors));
    }
    if t.cells.len() + t.zeros != t.cols.len() * t.rows.len() { return Some("ragged table".into()); }
    if printed == expected { return None; }
    for (k, v) in &expected { match printed.get(k) { None => return Some(format!("library has {:?} at (i,j)={:?}, the table has nothing there", v, k)), Some(w) if w != v => return Some(format!("at (i,j)={:?} library has {:?}, the table shows {:?}", k, v, w)), _ => {} } }
    for (k, w) in &printed { if !expected.contains_key(k) { return Some(format!("the table shows {:?} at (i,j)={:?} where the library has the zero group", w, k)); } }
    Some("tables differ".into())
}

/// ckh where the simplified complex is not determined by the parameters (elimination order): only well-formedness,
/// the ring symbol and the Euler characteristic (per quantum degree j when `per_q`) are compared.
pub(crate) fn euler_differs(t: &Table, sym: &str, lib: &[Value], per_q: bool) -> Option<String> {
    if t.cells.len() + t.zeros != t.cols.len() * t.rows.len() { return Some("ragged table".into()); }
    let sgn = |i: i64| if i.rem_euclid(2) == 0 { 1i64 } else { -1 };
    let mut chi_p: BTreeMap<i64, i64> = BTreeMap::new();
    let mut chi_l: BTreeMap<i64, i64> = BTreeMap::new();
    for (c, r, s) in &t.cells {
        let (body, sup) = split_sup(s);
        if body != sym || sup == Some(0) || sup == Some(1) { return Some(format!("cell {:?} is not a free module over {}", s, sym)); }
        *chi_p.entry(if per_q { t.rows[*r - 1] } else { 0 }).or_insert(0) += sgn(t.cols[*c - 1]) * sup.unwrap_or(1) as i64;
    }
    for g in lib { *chi_l.entry(if per_q { g["j"].as_i64().unwrap() } else { 0 }).or_insert(0) += sgn(g["i"].as_i64().unwrap()) * g["rank"].as_i64().unwrap(); }
    chi_p.retain(|_, v| *v != 0); chi_l.retain(|_, v| *v != 0);
    if chi_p != chi_l { Some(format!("Euler characteristic{} of the printed table is {:?}, of the library's complex {:?}", if per_q { " per quantum degree" } else { "" }, chi_p, chi_l)) } else { None }
}

fn why_of(stderr: &str) -> &'static str {
    if stderr.contains("is not supported") { "unsupported" } else if stderr.contains("cannot parse") { "parse" } else if stderr.contains("panic") { "internal" }
    else if stderr.contains("must be zero for reduced") { "reduced_t" } else if stderr.contains("invalid input link") { "link" } else if stderr.contains("Usage:") || stderr.contains("--help") { "usage" } else { "?" }
}

// ------------------------------------------------------------------ one run = one event

pub struct Job { pub point: Value, pub input: Input, pub argv: Vec<String>, pub cvs: String }

/// Runs the binary, calls the library, builds the event and (for A) the Rust-side verdict.
pub fn execute(ykh: &str, job: &Job) -> (Value, Option<String>) {
    let p = &job.point;
    let out = run_bin(ykh, &job.argv);
    let stderr = strip_ansi(&out.stderr);
    let (oclass, table) = parse_stdout(&out.stdout);
    let exit = if out.code == 0 { "zero" } else { "nonzero" };
    let msg = !stderr.trim().is_empty() || oclass == "other";
    // the library, asked for the ring / (h,t) the spec derived from the options. The kind of object follows the spec's
    // demanded class when it is a table, otherwise (B, mutated integers) the kind that was printed.
    let exp_class = p["exp"]["class"].as_str().unwrap();
    let kind = if exp_class != "Error" { exp_class.to_string() } else if p["cmd"] == "ckh" { "GenTable".to_string() } else if oclass == "table2d" { "Table2D".to_string() } else { "Seq1D".to_string() };   // plain homology when nothing was printed
    let (reduced, mirror) = (p["reduced"].as_bool().unwrap(), p["mirror"].as_bool().unwrap());
    let mut lib = json!({"res": "na", "kind": kind, "ring": p["ring"], "h": p["h"], "t": p["t"], "mirror": mirror, "reduced": reduced, "sym": "", "cells": []});
    let want_lib = p["supported"].as_bool().unwrap() && p["parsed"].as_bool().unwrap() && job.input.pd.is_some() && (exp_class != "Error" || p["force_lib"].as_bool().unwrap_or(false));
    if want_lib {
        let pd = job.input.pd.clone().unwrap();
        let link = guarded(|| { let l = Link::from_pd_code(pd); if mirror { l.mirror() } else { l } });
        let r = match link { Ok(l) => lib_call(&kind, p["ring"]["base"].as_str().unwrap(), p["ring"]["vars"].as_str().unwrap(), &l, &p["h"], &p["t"], reduced), Err(e) => Some(Err(e)) };
        match r {
            Some(Ok((sym, cells))) => { lib["res"] = json!("ok"); lib["sym"] = json!(sym); lib["cells"] = json!(cells); }
            // an arithmetic overflow of the machine-integer build depends on the elimination order, which the parameters do not determine
            Some(Err(e)) => { lib["res"] = json!(if e.contains("with overflow") { "overflow" } else { "panic" }); lib["panic"] = json!(e.chars().take(200).collect::<String>()); }
            None => {}
        }
    }
    let ev = json!({"op": "invoke", "cmd": p["cmd"], "ctype": p["ctype"], "cv": p["cv"], "mirror": mirror, "reduced": reduced, "ic": p["ic"],
                    "input": job.input.arg, "argv": job.argv, "code": out.code, "exit": exit, "out": oclass, "msg": msg, "overflow": stderr.contains("with overflow"),
                    "why": why_of(&stderr), "stderr": stderr.trim().chars().take(160).collect::<String>(), "stdout": out.stdout.chars().take(700).collect::<String>(),
                    "table": table_json(&table), "lib": lib});
    // Rust-side verdict against the outcome TLC printed (only meaningful when the point was not mutated)
    let verdict = if p["mutated"].as_bool().unwrap_or(false) { None } else {
        let err_ok = exit == "nonzero" && (oclass == "none" || oclass == "other") && msg;
        if exp_class == "Error" { if err_ok { None } else { Some(format!("the options denote an error ({}), but the command exited {} with stdout class {}", p["exp"]["why"].as_str().unwrap(), out.code, oclass)) } }
        else if ev["lib"]["res"] == "overflow" || (err_ok && stderr.contains("with overflow")) { None }   // machine-integer envelope exceeded in one of the two processes: nothing to compare
        else if ev["lib"]["res"] == "panic" { if err_ok { None } else { Some(format!("the library fails on these parameters ({}), but the command exited {} with stdout class {}", ev["lib"]["panic"], out.code, oclass)) } }
        else if ev["lib"]["res"] != "ok" { Some("harness: no library object for a table point".to_string()) }
        else {
            let want = if exp_class == "Seq1D" { "seq1d" } else { "table2d" };
            if exit != "zero" || oclass != want { Some(format!("expected a {} (exit 0), got exit {} with stdout class {}: {}", exp_class, out.code, oclass, stderr.trim().chars().take(120).collect::<String>())) }
            else if exp_class == "GenTable" && p["mode"] != "exact" { euler_differs(&table, ev["lib"]["sym"].as_str().unwrap(), ev["lib"]["cells"].as_array().unwrap(), p["mode"] == "euler_q").map(|d| format!("printed generator table is incompatible with the library's complex: {}", d)) }
            else { cells_differ(&table, ev["lib"]["sym"].as_str().unwrap(), ev["lib"]["cells"].as_array().unwrap()).map(|d| format!("printed table differs from the library's result: {}", d)) }
        } };
    (ev, verdict)
}

fn ykh_path(a: &Args) -> String {
    let p = a.flag("--ykh").expect("--ykh PATH (the freshly built binary)");
    assert!(std::path::Path::new(&p).exists(), "ykh binary {} does not exist", p);
    p
}

fn run_jobs(ykh: &str, jobs: &[Job], threads: usize) -> Vec<(Value, Option<String>)> {
    let pool = rayon::ThreadPoolBuilder::new().num_threads(threads).build().unwrap();
    pool.install(|| jobs.par_iter().map(|j| execute(ykh, j)).collect())
}

fn point_key(p: &Value, cvs: &str) -> String {
    format!("{}:{}:c={}{}{}:{}", p["cmd"].as_str().unwrap(), p["ctype"].as_str().unwrap(), cvs, if p["mirror"].as_bool().unwrap() { ":m" } else { "" }, if p["reduced"].as_bool().unwrap() { ":r" } else { "" }, p["ic"].as_str().unwrap())
}

fn tally(evs: &[(Value, Option<String>)]) -> Value {
    let mut by_out: BTreeMap<String, usize> = BTreeMap::new();
    let mut by_why: BTreeMap<String, usize> = BTreeMap::new();
    let (mut tables, mut cells, mut libpanic, mut sums, mut sq, mut overflow) = (0usize, 0usize, 0usize, 0usize, 0usize, 0usize);
    let mut distinct: std::collections::BTreeSet<String> = Default::default();
    for (e, _) in evs {
        *by_out.entry(e["out"].as_str().unwrap().to_string()).or_insert(0) += 1;
        if e["exit"] == "nonzero" { *by_why.entry(e["why"].as_str().unwrap().to_string()).or_insert(0) += 1; }
        if e["lib"]["res"] == "ok" { tables += 1; let n = e["table"]["cells"].as_array().unwrap().len(); cells += n;
            let so = e["stdout"].as_str().unwrap(); if so.contains('⊕') { sums += 1; } if so.contains(")²") || so.contains(")³") { sq += 1; }
            distinct.insert(format!("{}|{}|{}", e["lib"]["kind"], e["lib"]["sym"], e["stdout"])); }
        if e["lib"]["res"] == "panic" { libpanic += 1; }
        if e["lib"]["res"] == "overflow" || e["overflow"] == true { overflow += 1; }
    }
    json!({"by_stdout_class": by_out, "error_messages_by_kind": by_why, "tables_compared": tables, "nonzero_cells_compared": cells, "library_panics": libpanic, "runs_with_integer_overflow": overflow,
           "tables_with_direct_sum_cells": sums, "tables_with_torsion_multiplicity": sq, "distinct_tables": distinct.len()})
}

/// ndjson writer with every non-ASCII character written as a \uXXXX escape: TLC's JSON reader decodes the file with the
/// platform charset, and "F₂", "²", "⊕" must reach the spec as themselves.
pub struct AsciiTracer { w: std::io::BufWriter<std::fs::File>, pub n: usize }
impl AsciiTracer {
    pub fn create(path: &str) -> AsciiTracer { AsciiTracer { w: std::io::BufWriter::new(std::fs::File::create(path).expect("create trace")), n: 0 } }
    pub fn emit(&mut self, v: &Value) {
        use std::io::Write;
        let s = v.to_string();
        let mut out = String::with_capacity(s.len() + 16);
        for c in s.chars() { if c.is_ascii() { out.push(c); } else { let mut b = [0u16; 2]; for u in c.encode_utf16(&mut b) { out.push_str(&format!("\\u{:04x}", u)); } } }
        writeln!(self.w, "{}", out).unwrap(); self.n += 1;
    }
    pub fn finish(mut self) -> usize { use std::io::Write; self.w.flush().unwrap(); self.n }
}

// ------------------------------------------------------------------ replay (A)

/// One run per product point (`--per N`: N different concrete inputs per point for the loadable classes).
pub fn replay(a: &Args) {
    let ykh = ykh_path(a);
    let cat = Catalogue::new(a);
    let per: usize = a.flag("--per").map(|x| x.parse().unwrap()).unwrap_or(1);
    let threads: usize = a.flag("--threads").map(|x| x.parse().unwrap()).unwrap_or(8);
    let points = read_ndjson(a.inp.as_ref().expect("--in"));
    let forced = a.flag("--force-input");
    let fixed: BTreeMap<String, Vec<Input>> = ["knot", "link", "pd", "file", "empty", "unknown", "garbage", "notpd", "badfile", "badpd"].iter().map(|c| (c.to_string(), cat.fixed(c))).collect();
    let mut counter: BTreeMap<String, usize> = BTreeMap::new();
    let mut jobs = vec![];
    for p in points.iter() {
        let ic = p["ic"].as_str().unwrap();
        let list = &fixed[ic];
        let cvs = cv_str(&p["cv"], None);
        let n = if p["exp"]["class"] != "Error" { per } else { 1 };
        for _ in 0..n {
            // the same (cmd, ctype, cv, reduced) sees the same input with and without -m: a dropped or doubled mirror shows
            let slot = format!("{}|{}|{}|{}|{}", p["cmd"], p["ctype"], cvs, p["reduced"], ic);
            let mslot = format!("{}|{}", slot, p["mirror"]);
            let k = { let c = counter.entry(mslot).or_insert(0); *c += 1; *c - 1 };
            let base = slot.bytes().fold(0usize, |h, b| h.wrapping_mul(31).wrapping_add(b as usize));
            let input = match &forced { Some(f) => cat.resolve(f), None => list[(base + k) % list.len()].clone() };
            let argv = match p["argv"].as_array() { Some(v) if forced.is_some() => v.iter().map(|x| x.as_str().unwrap().to_string()).collect(), _ => argv_plain(p, &input.arg, &cvs) };
            jobs.push(Job { point: p.clone(), input, argv, cvs: cvs.clone() });
        }
    }
    let res = run_jobs(&ykh, &jobs, threads);
    let mut t = AsciiTracer::create(&a.out);
    let mut bad = 0usize;
    for (job, (ev, verdict)) in jobs.iter().zip(res.iter()) {
        t.emit(ev);
        if let Some(v) = verdict {
            bad += 1;
            mismatch(json!({"key": point_key(&job.point, &job.cvs), "what": v, "argv": job.argv, "input": job.input.arg, "expected": job.point["exp"], "point": job.point, "code": ev["code"], "out": ev["out"],
                            "stderr": ev["stderr"], "stdout": ev["stdout"], "lib": ev["lib"]}));
        }
    }
    let n = t.finish();
    let mut s = tally(&res);
    s["points"] = json!(points.len()); s["runs"] = json!(n); s["mismatches"] = json!(bad);
    summary("replay", s);
}

// ------------------------------------------------------------------ record (B)

pub(crate) fn int_tok(v: i64, canon: bool) -> Value { json!({"k": "int", "v": v, "d": 1, "x": "", "canon": canon}) }

/// Seeded random instances: a product point is taken as a template; its integer literals are replaced by other
/// integers / spellings, its input by a random member of the class, its argv by a random spelling.
pub fn record(a: &Args) {
    let ykh = ykh_path(a);
    let cat = Catalogue::new(a);
    let threads: usize = a.flag("--threads").map(|x| x.parse().unwrap()).unwrap_or(8);
    let points = read_ndjson(a.inp.as_ref().expect("--in (the product printed by Gen_Cli)"));
    let n: usize = a.flag("--n").map(|x| x.parse().unwrap()).unwrap_or(if a.thorough() { 30000 } else { 2500 });
    let mut rng = a.rng(20);
    let zero = int_tok(0, true);
    let mut jobs = vec![];
    while jobs.len() < n {
        let mut p = points[rng.gen_range(0..points.len())].clone();
        // bias towards points that print something
        if p["exp"]["class"] == "Error" && rng.gen_bool(0.6) { continue; }
        let mut mutated = false;
        let mut cv = p["cv"].as_array().unwrap().clone();
        for tok in cv.iter_mut() {
            if tok["k"] == "int" && rng.gen_bool(0.6) {
                let v: i64 = match rng.gen_range(0..10) { 0 | 1 => 0, 2 => *[2i64, 4, -2, 8, 10].choose(&mut rng).unwrap(), 3 => *[3i64, -3, 9, 6, -6, 12].choose(&mut rng).unwrap(), 4 => *[1i64, -1, 5, 7, -5].choose(&mut rng).unwrap(), _ => rng.gen_range(-12..=12) };
                *tok = int_tok(v, !rng.gen_bool(0.25));
                mutated = true;
            }
        }
        if mutated {
            p["cv"] = json!(cv);
            let k = cv.len();
            // (h, t) of the mutated value: one part -> (part, 0), two parts -> (part1, part2); TLC re-derives and compares
            if p["parsed"].as_bool().unwrap() { if k == 1 { p["h"] = cv[0].clone(); p["t"] = zero.clone(); } else if k == 2 { p["h"] = cv[0].clone(); p["t"] = cv[1].clone(); } }
            p["mutated"] = json!(true);
            p["exp"] = json!({"class": "Error", "why": "?"});   // unknown to the harness: decided by TLC from the event
            p["force_lib"] = json!(true);
        }
        let input = if rng.gen_bool(0.7) { cat.random(p["ic"].as_str().unwrap(), &mut rng) } else { let f = cat.fixed(p["ic"].as_str().unwrap()); f[rng.gen_range(0..f.len())].clone() };
        let cvs = cv_str(&p["cv"], Some(&mut rng));
        let argv = argv_random(&p, &input.arg, &cvs, &mut rng);
        jobs.push(Job { point: p, input, argv, cvs });
    }
    // probes: knots whose homology has torsion summands of different orders inside one homological degree (over F2[H]: H and H^2;
    // the bigraded table has to put each order into the cell of its own generator), at the points kh -t F2|F3|Z -c H
    for name in ["10_154", "10_152", "10_132", "9_42"] {
        if !cat.exists(name) { continue; }
        for p in points.iter().filter(|p| p["cmd"] == "kh" && p["ic"] == "knot" && p["exp"]["class"] == "Table2D" && p["ring"]["vars"] == "H" && ["F2", "F3", "Z"].contains(&p["ring"]["base"].as_str().unwrap_or("")) && p["cv"].as_array().map(|c| c.len()).unwrap_or(0) == 1) {
            if p["mirror"] == true && p["reduced"] == true { continue; }
            let input = cat.named(name);
            let cvs = cv_str(&p["cv"], Some(&mut rng));
            let argv = argv_random(p, &input.arg, &cvs, &mut rng);
            jobs.push(Job { point: p.clone(), input, argv, cvs });
        }
    }
    let res = run_jobs(&ykh, &jobs, threads);
    let mut t = AsciiTracer::create(&a.out);
    let mut bad = 0usize;
    for (job, (ev, verdict)) in jobs.iter().zip(res.iter()) {
        t.emit(ev);
        if let Some(v) = verdict { bad += 1; mismatch(json!({"key": point_key(&job.point, &job.cvs), "what": v, "argv": job.argv, "input": job.input.arg, "expected": job.point["exp"], "point": job.point, "code": ev["code"], "out": ev["out"], "stderr": ev["stderr"], "stdout": ev["stdout"], "lib": ev["lib"]})); }
    }
    let nn = t.finish();
    let mut s = tally(&res);
    s["events"] = json!(nn); s["mutated_points"] = json!(jobs.iter().filter(|j| j.point["mutated"].as_bool().unwrap_or(false)).count()); s["mismatches"] = json!(bad);
    s["distinct_inputs"] = json!(jobs.iter().map(|j| j.input.arg.clone()).collect::<std::collections::BTreeSet<_>>().len());
    summary("record", s);
}
