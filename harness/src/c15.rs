//! C15 — Euclidean-domain operations vs the relational contracts of spec/sys/EucOps.tla.
use crate::c14::{rand_big, Scalar};
use crate::enc::*;
use crate::util::*;
use num_bigint::BigInt;
use num_traits::{One, Signed, Zero};
use rand::rngs::StdRng;
use rand::Rng;
use serde_json::{json, Value};
use yui::poly::{Mono, Poly, Var};
use yui::{DivRound, EisenInt, EucRing, EucRingOps, GaussInt, Ratio, Ring, FF, FF2};

/// A Euclidean type under test.
pub trait Euc: EucRing + Enc where for<'a> &'a Self: EucRingOps<Self> {
    fn ring() -> Value;
    fn name() -> String;
    fn gen(rng: &mut StdRng, bits: u64) -> Option<Self>;
    /// default magnitude (bits) of random operands, and of "large" operands
    fn bits(big: u64) -> (u64, u64);
    /// is it safe (machine envelope) to run op on (a, b)?
    fn safe(_op: &str, _a: &Self, _b: &Self) -> bool { true }
    fn div_round(_a: &Self, _b: &Self) -> Option<Self> { None }
    fn units() -> Vec<Self>;
    fn small(parts: &[i64]) -> Option<Self>;
    /// machine integers: values at and around the ends of the type's range (division and nearest-integer division
    /// are total there except MIN / -1, so the exact answer is demanded on the whole range)
    fn extremes(_rng: &mut StdRng) -> Vec<Self> { vec![] }
}

fn mag<T: Scalar>(x: &T) -> BigInt where for<'a> &'a T: yui::RingOps<T> { x.parts().into_iter().map(|p| p.abs()).max().unwrap_or_else(BigInt::zero) }
fn fits(v: &BigInt, bits: Option<u32>) -> bool { match bits { None => true, Some(n) => v.bits() < (n - 2) as u64 } }

macro_rules! impl_euc_int { ($t:ty) => {
    impl Euc for $t {
        fn ring() -> Value { json!({"k":"Z"}) }
        fn name() -> String { <$t as Scalar>::name() }
        fn gen(rng: &mut StdRng, bits: u64) -> Option<Self> { <$t as ToBig>::from_big(&rand_big(rng, bits)) }
        fn bits(big: u64) -> (u64, u64) { match <$t as ToBig>::bits() { Some(n) => ((n - 2) as u64, (n - 2) as u64), None => (big / 2, big) } }
        fn safe(op: &str, a: &Self, b: &Self) -> bool { match op { "lcm" | "gcdx" | "mul" => fits(&(a.to_big() * b.to_big()), <$t as ToBig>::bits()), _ => fits(&a.to_big(), <$t as ToBig>::bits()) && fits(&b.to_big(), <$t as ToBig>::bits()) } }
        fn div_round(a: &Self, b: &Self) -> Option<Self> { Some(DivRound::div_round(a, b)) }
        fn units() -> Vec<Self> { vec![<$t>::one(), -<$t>::one()] }
        fn small(p: &[i64]) -> Option<Self> { <$t as ToBig>::from_big(&BigInt::from(p[0])) }
        fn extremes(rng: &mut StdRng) -> Vec<Self> {
            let Some(n) = <$t as ToBig>::bits() else { return vec![] };
            let two = BigInt::from(2);
            let p = |k: u32| num_traits::pow(two.clone(), k as usize);
            let mut v: Vec<BigInt> = vec![-p(n - 1), -p(n - 1) + 1, p(n - 1) - 1, p(n - 1) - 2, p(n - 2), p(n - 2) + 1, p(n - 2) - 1, -p(n - 2), -p(n - 2) - 1,
                p(n - 3) * 3, -p(n - 3) * 3, p(n - 4) * 5, p(n - 4) * 6, -p(n - 4) * 5, -p(n - 4) * 7, p(n - 3) * 3 + 1, BigInt::from(1), BigInt::from(-1), BigInt::from(2), BigInt::from(-3)];
            for _ in 0..6 { let x = rand_big(rng, (n - 1) as u64); v.push(x); }
            v.iter().filter_map(|x| <$t as ToBig>::from_big(x)).collect()
        }
    }
}}
impl_euc_int!(i32); impl_euc_int!(i64); impl_euc_int!(i128); impl_euc_int!(BigInt);

macro_rules! impl_euc_quad { ($q:ident, $t:ty, $k:expr) => {
    impl Euc for $q<$t> {
        fn ring() -> Value { json!({"k": $k}) }
        fn name() -> String { <$q<$t> as Scalar>::name() }
        fn gen(rng: &mut StdRng, bits: u64) -> Option<Self> {
            let a = rand_big(rng, bits); let b = if rng.gen_range(0..5) == 0 { BigInt::zero() } else { rand_big(rng, bits) };
            Some($q::new(<$t as ToBig>::from_big(&a)?, <$t as ToBig>::from_big(&b)?))
        }
        // division multiplies by the conjugate and by the norm: operands of a machine type stay below a quarter of the width
        fn bits(big: u64) -> (u64, u64) { match <$t as ToBig>::bits() { Some(n) => ((n / 4 - 2) as u64, (n / 4 - 2) as u64), None => (big / 4, big / 2) } }
        fn safe(_op: &str, a: &Self, b: &Self) -> bool { let m = mag(a).max(mag(b)); fits(&(&m * &m * &m * &m * BigInt::from(16)), <$t as ToBig>::bits()) }
        fn div_round(a: &Self, b: &Self) -> Option<Self> { Some(DivRound::div_round(a, b)) }
        fn units() -> Vec<Self> {
            let (o, z) = (<$t>::one(), <$t>::zero());
            let mut u = vec![$q::new(o.clone(), z.clone()), $q::new(-o.clone(), z.clone()), $q::new(z.clone(), o.clone()), $q::new(z.clone(), -o.clone())];
            if $k == "E" { u.push($q::new(o.clone(), -o.clone())); u.push($q::new(-o.clone(), o.clone())); }
            u
        }
        fn small(p: &[i64]) -> Option<Self> { Some($q::new(<$t as ToBig>::from_big(&BigInt::from(p[0]))?, <$t as ToBig>::from_big(&BigInt::from(p[1]))?)) }
    }
}}
impl_euc_quad!(GaussInt, i64, "G"); impl_euc_quad!(GaussInt, i128, "G"); impl_euc_quad!(GaussInt, BigInt, "G");
impl_euc_quad!(EisenInt, i64, "E"); impl_euc_quad!(EisenInt, i128, "E"); impl_euc_quad!(EisenInt, BigInt, "E");


macro_rules! impl_euc_ratio { ($t:ty) => {
    impl Euc for Ratio<$t> {
        fn ring() -> Value { json!({"k":"Q"}) }
        fn name() -> String { <Ratio<$t> as Scalar>::name() }
        fn gen(rng: &mut StdRng, bits: u64) -> Option<Self> { <Ratio<$t> as Scalar>::load(rng, bits).map(|x| x.0) }
        fn bits(big: u64) -> (u64, u64) { match <$t as ToBig>::bits() { Some(n) => ((n / 4 - 2) as u64, (n / 4 - 2) as u64), None => (big / 4, big / 2) } }
        fn safe(_op: &str, a: &Self, b: &Self) -> bool { let m = mag(a).max(mag(b)); fits(&(&m * &m * &m * BigInt::from(4)), <$t as ToBig>::bits()) }
        fn units() -> Vec<Self> { vec![Self::one(), -Self::one(), Ratio::new(<$t>::one() + <$t>::one(), <$t>::one()), Ratio::new(-<$t>::one(), <$t>::one() + <$t>::one() + <$t>::one())] }
        fn small(p: &[i64]) -> Option<Self> { Some(Ratio::new(<$t as ToBig>::from_big(&BigInt::from(p[0]))?, <$t as ToBig>::from_big(&BigInt::from(p[1]))?)) }
    }
}}
impl_euc_ratio!(i64); impl_euc_ratio!(BigInt);

impl<const P: i32> Euc for FF<P> {
    fn ring() -> Value { json!({"k":"F","p":P}) }
    fn name() -> String { format!("FF<{}>", P) }
    fn gen(rng: &mut StdRng, _: u64) -> Option<Self> {
        // unreduced and negative arguments of FF::new where they fit an i32; for moduli near 2^31 any i32
        if P < (1 << 29) { Some(FF::new(rng.gen_range(-2 * P..3 * P))) } else { Some(FF::new(if rng.gen_bool(0.5) { rng.gen_range(-40i32..40) } else { rng.gen::<i32>() })) } }
    fn bits(_: u64) -> (u64, u64) { (8, 8) }
    fn units() -> Vec<Self> { (1..P.min(7)).map(FF::new).collect() }
    fn small(p: &[i64]) -> Option<Self> { Some(FF::new(p[0] as i32)) }
}
impl Euc for FF2 {
    fn ring() -> Value { json!({"k":"F","p":2}) }
    fn name() -> String { "FF2".into() }
    fn gen(rng: &mut StdRng, _: u64) -> Option<Self> { Some(FF2::from(rng.gen_range(0..2i64))) }
    fn bits(_: u64) -> (u64, u64) { (8, 8) }
    fn units() -> Vec<Self> { vec![FF2::one()] }
    fn small(p: &[i64]) -> Option<Self> { Some(FF2::from(p[0])) }
}

// univariate polynomials over a field
impl<const X: char, R> Enc for Poly<X, R> where R: Ring + Enc, for<'x> &'x R: yui::RingOps<R> {
    fn enc(&self) -> Value {
        let mut ts: Vec<(usize, Value)> = self.iter().map(|(x, c)| (x.deg(), c.enc())).collect();
        ts.sort_by_key(|t| t.0);
        json!(ts.into_iter().map(|(e, c)| json!({"e": e, "c": c})).collect::<Vec<_>>())
    }
}
macro_rules! impl_euc_poly { ($r:ty, $base:expr, $cb:expr) => {
    impl Euc for Poly<'x', $r> {
        fn ring() -> Value { json!({"k":"P","b":$base,"nv":0}) }
        fn name() -> String { format!("Poly<x,{}>", <$r as Euc>::name()) }
        fn gen(rng: &mut StdRng, _: u64) -> Option<Self> {
            let n = match rng.gen_range(0..6) { 0 => 0, 1 => 1, _ => rng.gen_range(1..5) };
            let mut ts: Vec<(Var<'x', usize>, $r)> = vec![];
            for _ in 0..n { let e = rng.gen_range(0..6usize); let c = <$r as Euc>::gen(rng, $cb)?; ts.push((Var::from(e), c)); }
            // exponents are not repeated on purpose only through the library's own FromIterator (it must merge them)
            Some(Poly::from_iter(ts))
        }
        fn bits(_: u64) -> (u64, u64) { (4, 4) }
        fn safe(_op: &str, a: &Self, b: &Self) -> bool { a.iter().chain(b.iter()).all(|(_, c)| <$r as Scalar>::parts(c).iter().all(|p| p.bits() <= 40)) }
        fn units() -> Vec<Self> { <$r as Euc>::units().into_iter().map(Poly::from_const).collect() }
        fn small(p: &[i64]) -> Option<Self> { Some(Poly::from_iter(p.iter().enumerate().map(|(e, c)| (Var::from(e), <$r as Euc>::small(&[*c, 1]).unwrap())))) }
    }
}}
impl_euc_poly!(Ratio<i64>, json!({"k":"Q"}), 4);
impl_euc_poly!(Ratio<BigInt>, json!({"k":"Q"}), 6);
impl_euc_poly!(FF<3>, json!({"k":"F","p":3}), 4);
impl_euc_poly!(FF<5>, json!({"k":"F","p":5}), 4);

#[derive(Default)]
pub struct Stats { pub events: usize, pub panics: usize, pub pairs: usize, pub maxbits: u64, pub exact_div: usize, pub ties: usize, pub outside: usize, pub extreme_pairs: usize }

fn ev<T: Euc>(op: &str) -> Value where for<'a> &'a T: EucRingOps<T> { json!({"op": op, "ring": T::ring(), "type": T::name(), "res": "ok"}) }

fn emit_guarded<T: Euc>(t: &mut Tracer, st: &mut Stats, op: &str, a: &T, b: Option<&T>, f: impl FnOnce(&mut Value)) where for<'a> &'a T: EucRingOps<T> {
    let mut e = ev::<T>(op);
    e["a"] = a.enc(); if let Some(b) = b { e["b"] = b.enc(); }
    match guarded(|| { let mut x = e.clone(); f(&mut x); x }) {
        Ok(x) => { t.emit(&x); }
        // an arithmetic overflow of a machine-integer type is outside the representable envelope: not an event
        Err(m) if m.contains("overflow") && ["i32", "i64", "i128"].iter().any(|k| T::name().contains(k)) => { st.outside += 1; return; }
        Err(m) => { e["res"] = json!("panic"); e["panic"] = json!(m); st.panics += 1; t.emit(&e); }
    }
    st.events += 1;
}

/// All operations of the contract on one operand pair.
fn pair<T: Euc>(t: &mut Tracer, st: &mut Stats, a: &T, b: &T) where for<'a> &'a T: EucRingOps<T> {
    st.pairs += 1;
    if !b.is_zero() && T::safe("div", a, b) {
        emit_guarded(t, st, "divrem", a, Some(b), |e| {
            // every operator form must give the same quotient / remainder
            let (q, r) = (a / b, a % b);
            let (q2, r2) = (a.clone() / b.clone(), a.clone() % b.clone());
            let (mut q3, mut r3) = (a.clone(), a.clone()); q3 /= b; r3 %= b;
            let (mut q4, mut r4) = (a.clone(), a.clone()); q4 /= b.clone(); r4 %= b.clone();
            let same = q == q2 && q == q3 && q == q4 && r == r2 && r == r3 && r == r4 && (a.clone() / b) == q && (a / b.clone()) == q;
            e["q"] = if same { q.enc() } else { json!("FORMS-DISAGREE") }; e["r"] = r.enc();
        });
        if let Some(q) = guarded(|| T::div_round(a, b)).unwrap_or_else(|_| { // a panic in div_round is data
            let mut e = ev::<T>("divround"); e["a"] = a.enc(); e["b"] = b.enc(); e["res"] = json!("panic"); t.emit(&e); st.events += 1; st.panics += 1; None }) {
            let mut e = ev::<T>("divround"); e["a"] = a.enc(); e["b"] = b.enc(); e["q"] = q.enc(); t.emit(&e); st.events += 1;
        }
    }
    if T::safe("gcd", a, b) {
        emit_guarded(t, st, "gcd", a, Some(b), |e| {
            let d = T::gcd(a, b); let d2 = T::gcd(b, a);
            let (xa, xb) = if d.is_zero() { (T::zero(), T::zero()) } else { (a / &d, b / &d) };
            e["d"] = d.enc(); e["d2"] = d2.enc(); e["xa"] = xa.enc(); e["xb"] = xb.enc();
        });
    }
    if T::safe("gcdx", a, b) {
        emit_guarded(t, st, "gcdx", a, Some(b), |e| {
            let (d, s, tt) = T::gcdx(a, b);
            let (xa, xb) = if d.is_zero() { (T::zero(), T::zero()) } else { (a / &d, b / &d) };
            e["d"] = d.enc(); e["s"] = s.enc(); e["t"] = tt.enc(); e["xa"] = xa.enc(); e["xb"] = xb.enc();
        });
    }
    if !(a.is_zero() && b.is_zero()) && T::safe("lcm", a, b) {
        emit_guarded(t, st, "lcm", a, Some(b), |e| { let m = T::lcm(a, b); let g = T::gcd(a, b); e["m"] = m.enc(); e["g"] = g.enc(); });
    }
}

/// division and nearest-integer division only (machine integers on their full range)
fn pair_div<T: Euc>(t: &mut Tracer, st: &mut Stats, a: &T, b: &T) where for<'a> &'a T: EucRingOps<T> {
    st.pairs += 1;
    let mut e = ev::<T>("divrem"); e["a"] = a.enc(); e["b"] = b.enc();
    match guarded(|| (a / b, a % b)) {
        Ok((q, r)) => { e["q"] = q.enc(); e["r"] = r.enc(); }
        Err(m) => { e["res"] = json!("panic"); e["panic"] = json!(m); st.panics += 1; }
    }
    t.emit(&e); st.events += 1;
    let mut e = ev::<T>("divround"); e["a"] = a.enc(); e["b"] = b.enc();
    match guarded(|| T::div_round(a, b)) {
        Ok(Some(q)) => { e["q"] = q.enc(); }
        Ok(None) => return,
        Err(m) => { e["res"] = json!("panic"); e["panic"] = json!(m); st.panics += 1; }
    }
    t.emit(&e); st.events += 1;
}

fn single<T: Euc>(t: &mut Tracer, st: &mut Stats, a: &T, rng: &mut StdRng) where for<'a> &'a T: EucRingOps<T> {
    emit_guarded(t, st, "unit", a, None, |e| {
        let inv = a.inv(); e["isu"] = json!(a.is_unit()); e["hasinv"] = json!(inv.is_some()); e["inv"] = inv.unwrap_or_else(T::one).enc();
    });
    emit_guarded(t, st, "normunit", a, None, |e| { let u = a.normalizing_unit(); e["au"] = (a * &u).enc(); e["u"] = u.enc(); });
    let us = T::units();
    if !us.is_empty() {
        let v = us[rng.gen_range(0..us.len())].clone();
        if T::safe("mul", a, &v) {
            let mut e = ev::<T>("normassoc"); e["a"] = a.enc(); e["v"] = v.enc();
            match guarded(|| { let va = &v * a; (a.normalized(), va.normalized(), a.normalized().normalized(), a.clone().into_normalized()) }) {
                Ok((na, nva, nna, ina)) => { e["na"] = na.enc(); e["nva"] = nva.enc(); e["nna"] = if ina == na { nna.enc() } else { json!("INTO-DISAGREES") }; }
                Err(m) => { e["res"] = json!("panic"); e["panic"] = json!(m); st.panics += 1; }
            }
            t.emit(&e); st.events += 1;
        }
    }
}

/// operand generation never takes the process down (an overflow while merging generated terms just skips the operand)
fn gen_g<T: Euc>(rng: &mut StdRng, bits: u64) -> Option<T> where for<'x> &'x T: EucRingOps<T> { let mut r2 = rng.clone(); let v = guarded(|| T::gen(&mut r2, bits)); *rng = r2; v.ok().flatten() }

fn run_type<T: Euc>(a: &Args, salt: u64, t: &mut Tracer, st: &mut Stats, n: usize, big: u64, enumerated: &[Vec<i64>]) where for<'x> &'x T: EucRingOps<T> {
    let mut rng = a.rng(salt);
    // spec -> impl: operand pairs enumerated by TLC
    let vals: Vec<T> = enumerated.iter().filter_map(|p| guarded(|| T::small(p)).ok().flatten()).collect();
    for x in vals.iter() { single(t, st, x, &mut rng); for y in vals.iter() { pair(t, st, x, y); } }
    // machine integers: the ends of the range (the quotient always fits except MIN / -1)
    let ex = T::extremes(&mut rng);
    if let Some(min) = ex.first().cloned() {
        let m1 = -T::one();
        for x in ex.iter() { for y in ex.iter() { if y.is_zero() || (*x == min && *y == m1) { continue } st.extreme_pairs += 1; pair_div(t, st, x, y); } }
    }
    // random operands: mostly of the default magnitude, some large; planted exact divisions q*b + r
    let (dbits, lbits) = T::bits(big);
    for i in 0..n {
        let bits = if i % 4 == 3 { lbits } else { dbits.min(if i % 3 == 0 { 12 } else { dbits }) };
        let (Some(x), Some(y)) = (gen_g::<T>(&mut rng, bits), gen_g::<T>(&mut rng, bits / if i % 5 == 0 { 2 } else { 1 })) else { continue };
        pair(t, st, &x, &y);
        single(t, st, &x, &mut rng);
        if !y.is_zero() {
            // planted quotient: a = q*y (+ small r) exercises the exact-division paths used by SNF / LLL / Ratio::reduce
            if let Some(q) = gen_g::<T>(&mut rng, bits / 2) {
                if T::safe("mul", &q, &y) { if let Ok(p) = guarded(|| &q * &y) { if T::safe("div", &p, &y) { st.exact_div += 1; pair(t, st, &p, &y);
                    // half-way cases for nearest-integer division: 2a = (2q+1) y
                    if let Ok(h) = guarded(|| (&p + &p) + &y) { let two_y = &y + &y; if T::safe("div", &h, &two_y) { st.ties += 1; pair(t, st, &h, &two_y); } } } } }
            }
        }
    }
}

pub fn record(a: &Args) {
    let mut t = Tracer::create(&a.out);
    let mut st = Stats::default();
    // enumerated operand sets printed by TLC (Gen_EucOps): {"ring": "Z"|"G"|..., "vals": [[..],..]}
    let mut en: std::collections::HashMap<String, Vec<Vec<i64>>> = Default::default();
    if let Some(p) = &a.inp { for ln in read_ndjson(p) { let k = ln["ring"].as_str().unwrap().to_string();
        en.insert(k, ln["vals"].as_array().unwrap().iter().map(|v| v.as_array().unwrap().iter().map(|x| x.as_i64().unwrap()).collect()).collect()); } }
    let e = |k: &str| en.get(k).cloned().unwrap_or_default();
    let (n, big) = if a.thorough() { (400usize, 2400u64) } else { (40usize, 1300u64) };
    let mut types: Vec<String> = vec![];
    macro_rules! run { ($t:ty, $k:expr, $i:expr) => {{ types.push(<$t as Euc>::name()); run_type::<$t>(a, $i, &mut t, &mut st, n, big, &e($k)); }} }
    run!(i32, "Z", 1); run!(i64, "Z", 2); run!(i128, "Z", 3); run!(BigInt, "Z", 4);
    run!(GaussInt<i64>, "G", 5); run!(GaussInt<i128>, "G", 6); run!(GaussInt<BigInt>, "G", 7);
    run!(EisenInt<i64>, "E", 8); run!(EisenInt<i128>, "E", 9); run!(EisenInt<BigInt>, "E", 10);
    run!(Ratio<i64>, "Q", 11); run!(Ratio<BigInt>, "Q", 12);
    run!(FF2, "F2", 13); run!(FF<3>, "F3", 14); run!(FF<5>, "F5", 15); run!(FF<7>, "F7", 16); run!(FF<1000003>, "Fbig", 21); run!(FF<2147483647>, "Fbig", 22);
    run!(Poly<'x', Ratio<i64>>, "PQ", 17); run!(Poly<'x', Ratio<BigInt>>, "PQ", 18); run!(Poly<'x', FF<3>>, "PF3", 19); run!(Poly<'x', FF<5>>, "PF5", 20);
    let nev = t.finish();
    summary("record", json!({"events": nev, "operand_pairs": st.pairs, "types": types, "panics": st.panics, "planted_exact_divisions": st.exact_div, "planted_ties": st.ties, "machine_overflows_outside_envelope": st.outside, "full_range_machine_int_pairs": st.extreme_pairs}));
}
