//! Conformance harness binding the TLA+ specification under /verif/spec to the real yui crates.
//! Every property has a module with a `record` driver (impl -> spec: ndjson trace for TLC) and,
//! where the spec generates behaviours, a `replay` driver (spec -> impl).
pub mod util;
pub mod enc;
pub mod c17;
pub mod c14;
pub mod c15;
pub mod menc;
pub mod c13;
pub mod c12;
pub mod c11;
pub mod c09;
pub mod c10;
pub mod c20;
pub mod c18;
pub mod c04;
pub mod c02;
pub mod c06;
