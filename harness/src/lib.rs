//! Conformance harness binding the TLA+ specification under /verif/spec to the real yui crates.
//! Every property has a module with a `record` driver (impl -> spec: ndjson trace for TLC) and,
//! where the spec generates behaviours, a `replay` driver (spec -> impl).
pub mod util;
pub mod enc;
pub mod c17;
pub mod c14;
pub mod c16;
