//! Conformance harness binding the TLA+ specification under /verif/spec to the real yui crates.
//! Every property has a module with a `record` driver (impl -> spec: ndjson trace for TLC) and,
//! where the spec generates behaviours, a `replay` driver (spec -> impl).
pub mod util;
pub mod enc;
pub mod c17;
pub mod c14;
pub mod c15;
pub mod menc;
pub mod c13;
pub mod c12;
pub mod c11;
pub mod c09;
pub mod c10;
pub mod c07;
pub mod c08;
pub mod cx;
pub mod cy;
pub mod c20;
pub mod c20i;
pub mod c18;
pub mod c04;
pub mod c16;
pub mod c19;
pub mod c03;
pub mod c05;
pub mod c01;
pub mod c02;
pub mod c06;
