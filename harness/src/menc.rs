//! Matrix-level encodings shared by the matrix / homology properties (C07-C13).
use crate::enc::*;
use num_bigint::BigInt;
use rand::rngs::StdRng;
use rand::Rng;
use serde_json::{json, Value};
use nalgebra_sparse::CscMatrix;
use yui::{GaussInt, Ratio, Ring, RingOps, FF, FF2};
use yui_matrix::dense::Mat;
use yui_matrix::sparse::{SpMat, SpVec};
use yui_matrix::MatTrait;

/// Entry type of a matrix under test, with its ring descriptor for spec/lib/Rings.tla.
pub trait Ent: Ring + Enc where for<'x> &'x Self: RingOps<Self> {
    fn ring() -> Value;
    fn tname() -> String;
    fn ent(&self) -> Value { self.enc() }
    fn rnd(rng: &mut StdRng, mag: i64) -> Self;
    fn rnd_unit(rng: &mut StdRng) -> Self;
    fn of_int(x: i64) -> Self;
}
/// Properties whose contracts multiply entries many times (Gram determinants) encode i64 entries as exact integers ("Z") instead of TLC integers ("I").
pub static I64_AS_Z: std::sync::atomic::AtomicBool = std::sync::atomic::AtomicBool::new(false);
fn i64_as_z() -> bool { I64_AS_Z.load(std::sync::atomic::Ordering::Relaxed) }
impl Ent for i64 {
    fn ring() -> Value { if i64_as_z() { json!({"k":"Z"}) } else { json!({"k":"I"}) } }
    fn tname() -> String { "i64".into() }
    fn ent(&self) -> Value { if i64_as_z() { self.enc() } else { json!(*self) } }
    fn rnd(rng: &mut StdRng, mag: i64) -> Self { rng.gen_range(-mag..=mag) }
    fn rnd_unit(rng: &mut StdRng) -> Self { if rng.gen_bool(0.5) { 1 } else { -1 } }
    fn of_int(x: i64) -> Self { x }
}
impl Ent for BigInt {
    fn ring() -> Value { json!({"k":"Z"}) }
    fn tname() -> String { "BigInt".into() }
    fn rnd(rng: &mut StdRng, mag: i64) -> Self { BigInt::from(rng.gen_range(-mag..=mag)) }
    fn rnd_unit(rng: &mut StdRng) -> Self { BigInt::from(if rng.gen_bool(0.5) { 1 } else { -1 }) }
    fn of_int(x: i64) -> Self { BigInt::from(x) }
}
impl Ent for Ratio<i64> {
    fn ring() -> Value { json!({"k":"Q"}) }
    fn tname() -> String { "Ratio<i64>".into() }
    fn rnd(rng: &mut StdRng, mag: i64) -> Self { Ratio::new(rng.gen_range(-mag..=mag), rng.gen_range(1..=3)) }
    fn rnd_unit(rng: &mut StdRng) -> Self { let n = [1, -1, 2, -3, 1][rng.gen_range(0..5)]; Ratio::new(n, rng.gen_range(1..=3)) }
    fn of_int(x: i64) -> Self { Ratio::from(x) }
}
impl<const P: i32> Ent for FF<P> {
    fn ring() -> Value { json!({"k":"F","p":P}) }
    fn tname() -> String { format!("FF<{}>", P) }
    fn rnd(rng: &mut StdRng, _: i64) -> Self { if rng.gen_range(0..3) == 0 { FF::new(0) } else { FF::new(rng.gen_range(0..P)) } }
    fn rnd_unit(rng: &mut StdRng) -> Self { FF::new(rng.gen_range(1..P)) }
    fn of_int(x: i64) -> Self { FF::new(x.rem_euclid(P as i64) as i32) }
}
impl Ent for FF2 {
    fn ring() -> Value { json!({"k":"F","p":2}) }
    fn tname() -> String { "FF2".into() }
    fn rnd(rng: &mut StdRng, _: i64) -> Self { FF2::from(rng.gen_range(0..2i64)) }
    fn rnd_unit(_: &mut StdRng) -> Self { FF2::from(1i64) }
    fn of_int(x: i64) -> Self { FF2::from(x.rem_euclid(2)) }
}
impl Ent for GaussInt<i64> {
    fn ring() -> Value { json!({"k":"G"}) }
    fn tname() -> String { "GaussInt<i64>".into() }
    fn rnd(rng: &mut StdRng, mag: i64) -> Self { GaussInt::new(rng.gen_range(-mag..=mag), if rng.gen_bool(0.5) { 0 } else { rng.gen_range(-mag..=mag) }) }
    fn rnd_unit(rng: &mut StdRng) -> Self { [GaussInt::new(1, 0), GaussInt::new(-1, 0), GaussInt::new(0, 1), GaussInt::new(0, -1)][rng.gen_range(0..4)].clone() }
    fn of_int(x: i64) -> Self { GaussInt::new(x, 0) }
}

pub fn dense_json<R: Ent>(m: usize, n: usize, d: &[Vec<R>]) -> Value where for<'x> &'x R: RingOps<R> {
    json!({"m": m, "n": n, "a": d.iter().map(|r| r.iter().map(|x| x.ent()).collect::<Vec<_>>()).collect::<Vec<_>>()})
}
/// Dense projection of a sparse matrix: every stored entry (explicit zeros included) is read.
pub fn sp_dense<R: Ent>(a: &SpMat<R>) -> Vec<Vec<R>> where for<'x> &'x R: RingOps<R> {
    let (m, n) = a.shape();
    let mut d = vec![vec![R::zero(); n]; m];
    for (i, j, x) in a.iter() { let cur = std::mem::replace(&mut d[i][j], R::zero()); d[i][j] = cur + x.clone(); }
    d
}
pub fn sp_json<R: Ent>(a: &SpMat<R>) -> Value where for<'x> &'x R: RingOps<R> { let (m, n) = a.shape(); dense_json(m, n, &sp_dense(a)) }
pub fn vec_json<R: Ent>(v: &SpVec<R>) -> Value where for<'x> &'x R: RingOps<R> {
    let m = v.dim(); let mut d = vec![vec![R::zero(); 1]; m];
    for (i, x) in v.iter() { let cur = std::mem::replace(&mut d[i][0], R::zero()); d[i][0] = cur + x.clone(); }
    dense_json(m, 1, &d)
}
pub fn mat_dense<R: Ent>(a: &Mat<R>) -> Vec<Vec<R>> where for<'x> &'x R: RingOps<R> {
    let (m, n) = a.shape(); (0..m).map(|i| (0..n).map(|j| a[(i, j)].clone()).collect()).collect()
}
pub fn mat_json<R: Ent>(a: &Mat<R>) -> Value where for<'x> &'x R: RingOps<R> { let (m, n) = a.shape(); dense_json(m, n, &mat_dense(a)) }

/// Sparse matrix with the given dense values; `stored` decides which zero positions are stored explicitly.
pub fn sp_from_dense<R: Ent>(d: &[Vec<R>], m: usize, n: usize, stored: &dyn Fn(usize, usize) -> bool) -> SpMat<R> where for<'x> &'x R: RingOps<R> {
    let (mut off, mut rows, mut vals) = (vec![0usize], vec![], vec![]);
    for j in 0..n { for i in 0..m { if !d[i][j].is_zero() || stored(i, j) { rows.push(i); vals.push(d[i][j].clone()); } } off.push(rows.len()); }
    SpMat::from(CscMatrix::try_from_csc_data(m, n, off, rows, vals).unwrap())
}
pub fn rand_dense<R: Ent>(rng: &mut StdRng, m: usize, n: usize, density: f64, mag: i64) -> Vec<Vec<R>> where for<'x> &'x R: RingOps<R> {
    (0..m).map(|_| (0..n).map(|_| if rng.gen_bool(density) { R::rnd(rng, mag) } else { R::zero() }).collect()).collect()
}
pub fn rand_sp<R: Ent>(rng: &mut StdRng, m: usize, n: usize, density: f64, mag: i64, zero_prob: f64) -> SpMat<R> where for<'x> &'x R: RingOps<R> {
    let d = rand_dense::<R>(rng, m, n, density, mag);
    let pat: Vec<Vec<bool>> = (0..m).map(|_| (0..n).map(|_| rng.gen_bool(zero_prob)).collect()).collect();
    sp_from_dense(&d, m, n, &|i, j| pat[i][j])
}
pub fn rand_perm(rng: &mut StdRng, n: usize) -> Vec<usize> { use rand::seq::SliceRandom; let mut p: Vec<usize> = (0..n).collect(); p.shuffle(rng); p }

impl Ent for yui::poly::Poly<'H', i64> {
    fn ring() -> Value { json!({"k":"P","b":{"k":"Z"},"nv":0}) }
    fn tname() -> String { "Poly<H,i64>".into() }
    fn ent(&self) -> Value {
        use yui::poly::Mono;
        let mut ts: Vec<(usize, Value)> = self.iter().map(|(x, c)| (x.deg(), c.enc())).collect(); ts.sort_by_key(|t| t.0);
        json!(ts.into_iter().map(|(e, c)| json!({"e": e, "c": c})).collect::<Vec<_>>())
    }
    fn rnd(rng: &mut StdRng, mag: i64) -> Self {
        use yui::poly::Var;
        let n = rng.gen_range(0..3);
        yui::poly::Poly::from_iter((0..n).map(|_| (Var::from(rng.gen_range(0..3usize)), rng.gen_range(-mag..=mag))))
    }
    fn rnd_unit(rng: &mut StdRng) -> Self { yui::poly::Poly::from_const(if rng.gen_bool(0.5) { 1 } else { -1 }) }
    fn of_int(x: i64) -> Self { yui::poly::Poly::from_const(x) }
}

// ---- further entry types for the dense linear algebra properties (C07, C09, C10)
impl Ent for yui::GaussInt<BigInt> {
    fn ring() -> Value { json!({"k":"G"}) }
    fn tname() -> String { "GaussInt<BigInt>".into() }
    fn rnd(rng: &mut StdRng, mag: i64) -> Self { yui::GaussInt::new(BigInt::from(rng.gen_range(-mag..=mag)), if rng.gen_bool(0.5) { BigInt::from(0) } else { BigInt::from(rng.gen_range(-mag..=mag)) }) }
    fn rnd_unit(rng: &mut StdRng) -> Self { let (o, z) = (BigInt::from(1), BigInt::from(0)); [yui::GaussInt::new(o.clone(), z.clone()), yui::GaussInt::new(-o.clone(), z.clone()), yui::GaussInt::new(z.clone(), o.clone()), yui::GaussInt::new(z, -o)][rng.gen_range(0..4)].clone() }
    fn of_int(x: i64) -> Self { yui::GaussInt::new(BigInt::from(x), BigInt::from(0)) }
}
impl Ent for yui::EisenInt<i64> {
    fn ring() -> Value { json!({"k":"E"}) }
    fn tname() -> String { "EisenInt<i64>".into() }
    fn rnd(rng: &mut StdRng, mag: i64) -> Self { yui::EisenInt::new(rng.gen_range(-mag..=mag), if rng.gen_bool(0.5) { 0 } else { rng.gen_range(-mag..=mag) }) }
    fn rnd_unit(rng: &mut StdRng) -> Self { [yui::EisenInt::new(1, 0), yui::EisenInt::new(-1, 0), yui::EisenInt::new(0, 1), yui::EisenInt::new(0, -1), yui::EisenInt::new(1, -1), yui::EisenInt::new(-1, 1)][rng.gen_range(0..6)].clone() }
    fn of_int(x: i64) -> Self { yui::EisenInt::new(x, 0) }
}
impl Ent for yui::EisenInt<BigInt> {
    fn ring() -> Value { json!({"k":"E"}) }
    fn tname() -> String { "EisenInt<BigInt>".into() }
    fn rnd(rng: &mut StdRng, mag: i64) -> Self { yui::EisenInt::new(BigInt::from(rng.gen_range(-mag..=mag)), if rng.gen_bool(0.5) { BigInt::from(0) } else { BigInt::from(rng.gen_range(-mag..=mag)) }) }
    fn rnd_unit(rng: &mut StdRng) -> Self { let b = |x: i64| BigInt::from(x); [yui::EisenInt::new(b(1), b(0)), yui::EisenInt::new(b(-1), b(0)), yui::EisenInt::new(b(0), b(1)), yui::EisenInt::new(b(0), b(-1)), yui::EisenInt::new(b(1), b(-1)), yui::EisenInt::new(b(-1), b(1))][rng.gen_range(0..6)].clone() }
    fn of_int(x: i64) -> Self { yui::EisenInt::new(BigInt::from(x), BigInt::from(0)) }
}
macro_rules! impl_ent_poly { ($c:ty, $base:expr, $name:expr) => {
    impl Ent for yui::poly::Poly<'x', $c> {
        fn ring() -> Value { json!({"k":"P","b":$base,"nv":0}) }
        fn tname() -> String { format!("Poly<x,{}>", $name) }
        fn ent(&self) -> Value {
            use yui::poly::Mono;
            let mut ts: Vec<(usize, Value)> = self.iter().map(|(x, c)| (x.deg(), <$c as Ent>::ent(c))).collect(); ts.sort_by_key(|t| t.0);
            json!(ts.into_iter().map(|(e, c)| json!({"e": e, "c": c})).collect::<Vec<_>>())
        }
        fn rnd(rng: &mut StdRng, mag: i64) -> Self {
            use yui::poly::Var;
            let n = rng.gen_range(0..3);
            yui::poly::Poly::from_iter((0..n).map(|_| (Var::from(rng.gen_range(0..3usize)), <$c as Ent>::rnd(rng, mag))))
        }
        fn rnd_unit(rng: &mut StdRng) -> Self { yui::poly::Poly::from_const(<$c as Ent>::rnd_unit(rng)) }
        fn of_int(x: i64) -> Self { yui::poly::Poly::from_const(<$c as Ent>::of_int(x)) }
    }
}}
impl_ent_poly!(FF<3>, json!({"k":"F","p":3}), "FF<3>");
impl_ent_poly!(Ratio<i64>, json!({"k":"Q"}), "Ratio<i64>");
impl_ent_poly!(FF<5>, json!({"k":"F","p":5}), "FF<5>");

/// Run `f` on a helper thread and give up after `secs` seconds (the helper is left behind; the process exits at the end).
pub fn with_deadline<T: Send + 'static>(secs: u64, f: impl FnOnce() -> T + Send + 'static) -> Option<Result<T, String>> {
    let (tx, rx) = std::sync::mpsc::channel();
    std::thread::Builder::new().stack_size(64 << 20).spawn(move || { let r = crate::util::guarded(f); let _ = tx.send(r); }).unwrap();
    rx.recv_timeout(std::time::Duration::from_secs(secs)).ok()
}
