//! C18 — yui_link::Link / Braid::closure vs spec/sys/Link.tla, Braid.tla.
//!
//! record (impl -> spec): histories on catalogue diagrams, random braid closures and small special codes:
//!   load/closure, every observer, resolution states, then moves (mirror, renumber, reorder, R1 kinks,
//!   disjoint union, connected sum, resolve) with the observers after every move.
//! replay (spec -> impl): TLC-enumerated diagrams with their expected values, TLC-enumerated braid words
//!   with the expected closure numbers.
//! The diagram surgery used to *generate inputs* (kinks, sums, renumbering) is the harness' own code on plain
//! (type, [e0,e1,e2,e3]) data and does not call the library; TLC re-derives every such diagram itself.
use crate::util::*;
use rand::rngs::StdRng;
use rand::seq::SliceRandom;
use rand::Rng;
use serde_json::{json, Value};
use std::collections::{BTreeMap, BTreeSet};
use yui::bitseq::Bit;
use yui_link::{Braid, Crossing, CrossingType, Generator, Link, Path, State};

pub type Data = Vec<(String, [usize; 4])>;

// ------------------------------------------------------------------ projections (library -> JSON)
pub fn data_of(l: &Link) -> Data { l.data().iter().map(|c| (c.ctype().to_string(), *c.edges())).collect() }
pub fn data_json(d: &Data) -> Value { json!(d.iter().map(|(t, e)| json!({"t": t, "e": e})).collect::<Vec<_>>()) }
pub fn paths_json(ps: &[Path]) -> Value { json!(ps.iter().map(|p| json!({"edges": p.edges(), "closed": p.is_circle()})).collect::<Vec<_>>()) }
fn ctype_of(s: &str) -> CrossingType { match s { "X" => CrossingType::X, "Xm" => CrossingType::Xm, "V" => CrossingType::V, "H" => CrossingType::H, _ => panic!("ctype {}", s) } }
pub fn data_from_json(v: &Value) -> Data {
    v.as_array().unwrap().iter().map(|c| {
        let e: Vec<usize> = c["e"].as_array().unwrap().iter().map(|x| x.as_u64().unwrap() as usize).collect();
        (c["t"].as_str().unwrap().to_string(), [e[0], e[1], e[2], e[3]])
    }).collect()
}
pub fn pd_from_json(v: &Value) -> Vec<[usize; 4]> {
    v.as_array().unwrap().iter().map(|c| { let e: Vec<usize> = c.as_array().unwrap().iter().map(|x| x.as_u64().unwrap() as usize).collect(); [e[0], e[1], e[2], e[3]] }).collect()
}
/// Build the library object. Pure PD data goes through `from_pd_code` (the main entry), typed data through `Link::new`.
pub fn link_of(d: &Data) -> Link {
    if d.iter().all(|(t, _)| t == "X") { Link::from_pd_code(d.iter().map(|(_, e)| *e)) }
    else { Link::new(d.iter().map(|(t, e)| Crossing::new(ctype_of(t), *e)).collect()) }
}
fn state_of(bits: &[u8]) -> State { State::from_iter(bits.iter().map(|b| if *b == 1 { Bit::Bit1 } else { Bit::Bit0 })) }
fn pd_json(d: &Data) -> Value { json!(d.iter().map(|(_, e)| e.to_vec()).collect::<Vec<_>>()) }

// ------------------------------------------------------------------ the harness' own diagram surgery
fn mate(d: &Data, p: (usize, usize)) -> (usize, usize) {
    let e = d[p.0].1[p.1];
    for (i, (_, es)) in d.iter().enumerate() { for j in 0..4 { if es[j] == e && (i, j) != p { return (i, j); } } }
    panic!("edge {} occurs once", e)
}
/// Heads (entry positions) of an admissible orientation of an all-crossing diagram: every 0-2 strand runs 0 -> 2.
/// Components that use 1-3 strands only are oriented from their first position-1 entry.
pub fn heads(d: &Data) -> Option<BTreeSet<(usize, usize)>> {
    let n = d.len();
    let mut seen: BTreeSet<(usize, usize)> = BTreeSet::new(); // positions visited in either role
    let mut hs = BTreeSet::new();
    let walk = |start: (usize, usize)| -> Option<Vec<(usize, usize)>> {
        let mut v = vec![]; let mut p = start;
        loop { if p.1 == 2 { return None; } v.push(p); let q = (p.0, (p.1 + 2) % 4); p = mate(d, q); if p == start { return Some(v); } }
    };
    for j0 in [0usize, 1] { for i in 0..n {
        if seen.contains(&(i, j0)) { continue; }
        let w = walk((i, j0))?;
        for p in w { seen.insert(p); seen.insert((p.0, (p.1 + 2) % 4)); hs.insert(p); }
    } }
    Some(hs)
}
fn edges_of(d: &Data) -> Vec<usize> { let s: BTreeSet<usize> = d.iter().flat_map(|(_, e)| e.iter().cloned()).collect(); s.into_iter().collect() }
fn max_edge(d: &Data) -> usize { edges_of(d).last().cloned().unwrap_or(0) }
fn kink_code(kind: &str, a: usize, b: usize, c: usize) -> [usize; 4] {
    match kind { "u-" => [a, b, b, c], "u+" => [a, c, b, b], "o-" => [b, a, c, b], "o+" => [b, b, c, a], _ => panic!() }
}
pub fn kink(d: &Data, x: usize, kind: &str) -> Data {
    let hs = heads(d).expect("oriented");
    let hd = *hs.iter().find(|p| d[p.0].1[p.1] == x).expect("edge");
    let (b, c) = (max_edge(d) + 1, max_edge(d) + 2);
    let mut r = d.clone();
    r[hd.0].1[hd.1] = c;
    r.push(("X".into(), kink_code(kind, x, b, c)));
    r
}
fn shift(d: &Data, k: usize) -> Data { d.iter().map(|(t, e)| (t.clone(), e.map(|x| x + k))).collect() }
pub fn disjoint(d1: &Data, d2: &Data) -> Data { let mut r = d1.clone(); r.extend(shift(d2, max_edge(d1) + 1)); r }
pub fn connsum(d1: &Data, x: usize, d2: &Data, y: usize) -> Data {
    let k = max_edge(d1) + 1;
    let h1 = *heads(d1).unwrap().iter().find(|p| d1[p.0].1[p.1] == x).unwrap();
    let h2 = *heads(d2).unwrap().iter().find(|p| d2[p.0].1[p.1] == y).unwrap();
    let mut a = d1.clone(); let mut b = shift(d2, k);
    a[h1.0].1[h1.1] = y + k; b[h2.0].1[h2.1] = x;
    a.extend(b); a
}

// ------------------------------------------------------------------ record (impl -> spec)
struct Rec<'a> { t: &'a mut Tracer, cur: Link, panics: usize }
impl<'a> Rec<'a> {
    fn emit(&mut self, mut e: Value, r: Result<Value, String>) {
        match r { Ok(a) => { e["res"] = json!("ok"); if !a.is_null() { e["ans"] = a; } }
                  Err(m) => { e["res"] = json!("panic"); e["panic"] = json!(m); self.panics += 1; } }
        e["d"] = data_json(&data_of(&self.cur));
        self.t.emit(&e);
    }
    fn set(&mut self, e: Value, f: impl FnOnce() -> Link) {
        match guarded(f) { Ok(l) => { self.cur = l; self.emit(e, Ok(Value::Null)) } Err(m) => self.emit(e, Err(m)) }
    }
    fn obs(&mut self, op: &str, f: impl FnOnce(&Link) -> Value) {
        let l = self.cur.clone();
        let r = guarded(|| f(&l));
        self.emit(json!({"op": op}), r);
    }
    fn observers(&mut self, full: bool) {
        self.obs("components", |l| paths_json(&l.components()));
        self.obs("signs", |l| json!(l.crossing_signs().iter().map(|s| if s.is_positive() { 1 } else { -1 }).collect::<Vec<i32>>()));
        self.obs("writhe", |l| json!(l.writhe()));
        if full {
            self.obs("posneg", |l| { let (p, n) = l.signed_crossing_nums(); json!([p, n]) });
            self.obs("crossing_num", |l| json!(l.crossing_num()));
            self.obs("is_knot", |l| json!(l.is_knot()));
        }
        self.obs("seifert", |l| json!({"state": l.ori_pres_state().iter().map(|b| b.as_u64()).collect::<Vec<_>>(), "circles": paths_json(&l.seifert_circles())}));
    }
    fn state(&mut self, bits: Vec<u8>) {
        let l = self.cur.clone(); let b = bits.clone();
        let r = guarded(|| { let r = l.resolved_by(&state_of(&b)); json!({"n": r.crossing_num(), "d": data_json(&data_of(&r)), "comps": paths_json(&r.components())}) });
        self.emit(json!({"op": "state", "s": bits}), r);
    }
    fn states(&mut self, rng: &mut StdRng, k: usize) {
        let n = self.cur.data().len();
        self.state(vec![0; n]); self.state(vec![1; n]);
        for _ in 0..k { self.state((0..n).map(|_| rng.gen_range(0..2u8)).collect()); }
    }
}

fn summands() -> Vec<Data> {
    let mk = |v: Vec<[usize; 4]>| -> Data { v.into_iter().map(|e| ("X".to_string(), e)).collect() };
    vec![mk(vec![[1, 1, 2, 2]]), mk(vec![[1, 2, 2, 1]]), mk(vec![[4, 1, 3, 2], [2, 3, 1, 4]]), mk(vec![[1, 4, 2, 5], [3, 6, 4, 1], [5, 2, 6, 3]]),
         mk(vec![[4, 2, 5, 1], [8, 6, 1, 5], [6, 3, 7, 4], [2, 7, 3, 8]]),
         // closure of s1 s1^-1: two circles, one of them passes over only
         mk(vec![[0, 2, 3, 1], [3, 2, 0, 1]])]
}

fn random_word(rng: &mut StdRng, n: usize, len: usize) -> Vec<i32> {
    // no free loop: every strand meets a letter.  Biased towards cancelling pairs (over-only components).
    loop {
        let mut w: Vec<i32> = vec![];
        while w.len() < len {
            let g = rng.gen_range(1..n) as i32 * if rng.gen_bool(0.5) { 1 } else { -1 };
            w.push(g);
            if rng.gen_range(0..4) == 0 && w.len() < len { w.push(-g); }
        }
        if (1..=n).all(|i| w.iter().any(|g| { let a = g.unsigned_abs() as usize; a == i || a + 1 == i })) { return w; }
    }
}

fn do_move(r: &mut Rec, rng: &mut StdRng, max_cross: usize) {
    let d = data_of(&r.cur);
    let all_x = d.iter().all(|(t, _)| t == "X" || t == "Xm");
    let n = d.len();
    let es = edges_of(&d);
    match rng.gen_range(0..9) {
        0 | 1 => { let l = r.cur.clone(); r.set(json!({"op": "mirror"}), move || l.mirror()); }
        2 | 3 => {
            // renumbering: random injection, sometimes with huge / sparse labels, sometimes using 0
            let mut new: Vec<usize> = match rng.gen_range(0..3) {
                0 => (0..es.len()).collect(),
                1 => (0..es.len()).map(|i| 1000 + 7 * i).collect(),
                _ => (1..=es.len()).collect() };
            new.shuffle(rng);
            let f: BTreeMap<usize, usize> = es.iter().cloned().zip(new.into_iter()).collect();
            let nd: Data = d.iter().map(|(t, e)| (t.clone(), e.map(|x| f[&x]))).collect();
            let pairs: Vec<[usize; 2]> = f.iter().map(|(a, b)| [*a, *b]).collect();
            r.set(json!({"op": "renumber", "f": pairs}), move || link_of(&nd));
        }
        4 => {
            let mut pi: Vec<usize> = (1..=n).collect(); pi.shuffle(rng);
            let nd: Data = pi.iter().map(|i| d[i - 1].clone()).collect();
            r.set(json!({"op": "reorder", "pi": pi}), move || link_of(&nd));
        }
        5 | 6 if all_x && n < max_cross && n > 0 => {
            let x = *es.choose(rng).unwrap(); let kind = ["u-", "u+", "o-", "o+"][rng.gen_range(0..4)];
            let nd = kink(&d, x, kind);
            r.set(json!({"op": "kink", "x": x, "kind": kind}), move || link_of(&nd));
        }
        7 if all_x && n > 0 => {
            let s = summands(); let s = s.choose(rng).unwrap();
            if n + s.len() > max_cross { return; }
            let nd = disjoint(&d, s);
            r.set(json!({"op": "disjoint", "pd": pd_json(s)}), move || link_of(&nd));
        }
        8 if all_x && n > 0 => {
            let s = summands(); let s = s.choose(rng).unwrap();
            if n + s.len() > max_cross { return; }
            let x = *es.choose(rng).unwrap(); let y = *edges_of(s).choose(rng).unwrap();
            let nd = connsum(&d, x, s, y);
            r.set(json!({"op": "connsum", "x": x, "pd": pd_json(s), "y": y}), move || link_of(&nd));
        }
        _ => {}
    }
}

fn history(r: &mut Rec, rng: &mut StdRng, nstates: usize, nmoves: usize, max_cross: usize) {
    r.observers(true);
    r.states(rng, nstates);
    for _ in 0..nmoves {
        let before = r.t.n;
        do_move(r, rng, max_cross);
        if r.t.n == before { continue; }
        r.observers(rng.gen_range(0..3) == 0);
        r.states(rng, 1);
    }
    // finally smooth the object itself: whole state at once, or crossing by crossing
    let d = data_of(&r.cur); let n = d.len();
    if n == 0 { return; }
    if rng.gen_bool(0.5) {
        let bits: Vec<u8> = (0..n).map(|_| rng.gen_range(0..2u8)).collect();
        let l = r.cur.clone(); let b = bits.clone();
        r.set(json!({"op": "resolve", "s": bits}), move || l.resolved_by(&state_of(&b)));
    } else {
        for _ in 0..n {
            let cn = r.cur.crossing_num(); if cn == 0 { break; }
            let k = rng.gen_range(0..cn); let bit = rng.gen_range(0..2u8);
            let l = r.cur.clone();
            r.set(json!({"op": "resolve_at", "k": k, "r": bit}), move || l.resolved_at(k, if bit == 1 { Bit::Bit1 } else { Bit::Bit0 }));
            if rng.gen_range(0..3) == 0 { r.obs("components", |l| paths_json(&l.components())); r.obs("crossing_num", |l| json!(l.crossing_num())); }
        }
    }
    r.obs("components", |l| paths_json(&l.components()));
    r.obs("crossing_num", |l| json!(l.crossing_num()));
    r.obs("is_knot", |l| json!(l.is_knot()));
}

pub fn catalogue() -> Vec<String> {
    let dir = "/repo/yui-link/resources/links";
    let mut v: Vec<String> = std::fs::read_dir(dir).map(|it| it.filter_map(|e| e.ok()).filter_map(|e| e.file_name().to_str().and_then(|s| s.strip_suffix(".json").map(|s| s.to_string()))).collect()).unwrap_or_default();
    v.sort();
    v
}
pub fn load_pd(name: &str) -> Vec<[usize; 4]> {
    let s = std::fs::read_to_string(format!("/repo/yui-link/resources/links/{}.json", name)).expect("catalogue file");
    serde_json::from_str(&s).expect("pd json")
}

pub fn record(a: &Args) {
    let th = a.thorough();
    let mut t = Tracer::create(&a.out);
    let mut rng = a.rng(18);
    let (mut hist, mut panics, mut diagrams, mut max_n, mut braids) = (0usize, 0usize, 0usize, 0usize, 0usize);
    let mut free_comp_cases = 0usize;
    let reset = |t: &mut Tracer| { t.emit(&json!({"op": "reset", "res": "ok", "d": []})); };

    // (1) small special codes: kinks with repeated edges, label 0, big labels, split pieces, over-only circles
    let special: Vec<Vec<[usize; 4]>> = vec![
        vec![[0, 0, 1, 1]], vec![[0, 1, 1, 0]], vec![[1, 0, 0, 1]], vec![[1, 1, 0, 0]],
        vec![[4, 1, 3, 2], [2, 3, 1, 4]], vec![[1, 2, 3, 4], [3, 2, 1, 4]],
        vec![[1, 5, 2, 8], [5, 3, 6, 2], [3, 7, 4, 6], [7, 1, 8, 4]],
        vec![[1, 4, 2, 5], [3, 6, 4, 1], [5, 2, 6, 3]], vec![[4, 2, 5, 1], [8, 6, 1, 5], [6, 3, 7, 4], [2, 7, 3, 8]],
        vec![[1001, 1001, 5, 5], [7, 7, 900, 900]],
        vec![[0, 0, 1, 1], [2, 3, 3, 2], [10, 11, 11, 10]],
    ];
    // (2) catalogue
    let names = catalogue();
    let picked: Vec<String> = if th { names.clone() } else {
        let mut v: Vec<String> = ["3_1", "4_1", "5_2", "L2a1", "L4a1", "L6a4", "L6n1", "L7n1", "8_19", "L8n8"].iter().map(|s| s.to_string()).filter(|s| names.contains(s)).collect();
        let mut rest: Vec<String> = names.iter().filter(|s| !v.contains(s)).cloned().collect();
        rest.shuffle(&mut rng);
        v.extend(rest.into_iter().take(240)); v };
    let (nstates, nmoves) = if th { (14, 3) } else { (4, 3) };
    let mut run = |t: &mut Tracer, first: Value, l0: Result<Link, String>, rng: &mut StdRng, nmoves: usize, max_cross: usize| {
        reset(t);
        let mut r = Rec { t, cur: Link::empty(), panics: 0 };
        match l0 { Ok(l) => { r.cur = l; let mut e = first; if e["op"] == "closure" { e["pd"] = pd_json(&data_of(&r.cur)); } r.emit(e, Ok(Value::Null));
                              max_n = max_n.max(r.cur.data().len());
                              history(&mut r, rng, nstates, nmoves, max_cross); }
                   Err(m) => { let mut e = first; if e["op"] == "closure" { e["pd"] = json!([]); } r.emit(e, Err(m)); } }
        panics += r.panics; hist += 1;
    };
    for pd in special.iter() {
        let p = pd.clone();
        run(&mut t, json!({"op": "load", "pd": pd}), guarded(move || Link::from_pd_code(p)), &mut rng, 4, 6); diagrams += 1;
    }
    for name in picked.iter() {
        let pd = load_pd(name);
        // the library's own loader must give the same object as the file's code
        let nm = name.clone();
        // (names like L10a107 are not accepted by Link::is_valid_name - its pattern has no digit 0 - so those go by path)
        let l = guarded(move || if Link::is_valid_name(&nm) { Link::load(&nm).expect("load") } else { Link::load(&format!("/repo/yui-link/resources/links/{}.json", nm)).expect("load path") });
        let n = pd.len();
        run(&mut t, json!({"op": "load", "pd": pd, "name": name}), l, &mut rng, if n <= 9 { nmoves } else { 1 }, n + 3); diagrams += 1;
    }
    // (3) braid closures: explicit boundary words, then random words on 2..8 strands
    let mut words: Vec<(usize, Vec<i32>)> = vec![
        (2, vec![1]), (2, vec![-1]), (2, vec![1, -1]), (2, vec![-1, 1]), (2, vec![1, 1]), (2, vec![1, 1, 1]),
        (3, vec![1, 2]), (3, vec![1, -2]), (3, vec![1, -1, 2, -2]), (3, vec![2, 1, -2, -1]), (3, vec![1, 2, 1, 2, 1, 2]),
        (4, vec![1, 3]), (4, vec![1, -1, 3, -3, 2]), (4, vec![1, 2, 3]), (4, vec![3, 2, 1, 1, 2, 3]),
        (5, vec![1, 2, 3, 4]), (5, vec![-1, -1, -2, 1, 3, 2, 2, -4, -3, 2, -3, -4]),
        (8, vec![1, 2, 3, 4, 5, 6, 7]), (8, vec![1, -3, 5, -7, 2, -4, 6]), (8, vec![7, -7, 5, -5, 3, -3, 1, -1, 2, 4, 6]),
    ];
    let nrand = if th { 1500 } else { 150 };
    for _ in 0..nrand {
        let n = rng.gen_range(2..=8usize);
        let len = rng.gen_range((n + 1) / 2..=if th { 14 } else { 12 });
        words.push((n, random_word(&mut rng, n, len)));
    }
    for (n, w) in words.iter() {
        let (nn, ww) = (*n, w.clone());
        let l = guarded(move || Braid::new(nn, ww.iter().map(|g| Generator::from(*g)).collect()).closure());
        if w.windows(2).any(|p| p[0] == -p[1]) { free_comp_cases += 1; }
        run(&mut t, json!({"op": "closure", "n": n, "word": w}), l, &mut rng, if w.len() <= 9 { 2 } else { 1 }, w.len() + 2); braids += 1;
    }
    let n = t.finish();
    summary("record", json!({"events": n, "histories": hist, "catalogue_diagrams": picked.len(), "special_codes": special.len(), "braid_words": braids,
        "words_with_cancelling_pair": free_comp_cases, "max_crossings": max_n, "panics": panics, "diagrams": diagrams + braids}));
}

// ------------------------------------------------------------------ replay (spec -> impl)
fn set_of_sets(v: &Value) -> BTreeSet<BTreeSet<u64>> { v.as_array().unwrap().iter().map(|c| c.as_array().unwrap().iter().map(|x| x.as_u64().unwrap()).collect()).collect() }
fn paths_sets(ps: &[Path]) -> (BTreeSet<BTreeSet<u64>>, usize, bool) {
    let s: BTreeSet<BTreeSet<u64>> = ps.iter().map(|p| p.edges().iter().map(|e| *e as u64).collect()).collect();
    (s, ps.iter().map(|p| p.len()).sum(), ps.iter().all(|p| p.is_circle()))
}

/// Input lines: {"kind":"diagram", d, comps, signs, writhe, posneg, mirror, states:[{s,r,circles}], seifert:[{state,circles}]}
///              {"kind":"braid", n, word, ncomp, ncross, writhe}
pub fn replay(a: &Args) {
    let lines = read_ndjson(a.inp.as_ref().expect("--in"));
    let mut t = Tracer::create(&a.out);
    let (mut n, mut bad, mut checks) = (0usize, 0usize, 0usize);
    let fail = |t: &mut Tracer, ln: &Value, what: &str, got: Value| { let v = json!({"what": what, "got": got, "case": ln}); mismatch(v.clone()); t.emit(&v); };
    for ln in lines.iter() {
        n += 1;
        let before = bad;
        if ln["kind"] == "braid" {
            let nn = usize_of(ln, "n"); let w: Vec<i32> = ln["word"].as_array().unwrap().iter().map(|x| x.as_i64().unwrap() as i32).collect();
            let ww = w.clone();
            match guarded(move || { let l = Braid::new(nn, ww.iter().map(|g| Generator::from(*g)).collect()).closure(); (l.components().len(), l.crossing_num(), l.writhe()) }) {
                Ok((c, x, wr)) => { checks += 3;
                    if json!([c, x, wr]) != json!([ln["ncomp"], ln["ncross"], ln["writhe"]]) { bad += 1; fail(&mut t, ln, "closure", json!({"ncomp": c, "ncross": x, "writhe": wr})); } }
                Err(m) => { bad += 1; fail(&mut t, ln, "closure", json!({"panic": m})); }
            }
            // the word built by the library's own FromIterator has the same number of strands only if the top generator occurs
            continue;
        }
        let d = data_from_json(&ln["d"]);
        let l = match guarded(|| link_of(&d)) { Ok(l) => l, Err(m) => { bad += 1; fail(&mut t, ln, "construct", json!({"panic": m})); continue; } };
        // components
        match guarded(|| l.components()) {
            Ok(c) => { checks += 1; let (s, tot, closed) = paths_sets(&c);
                let exp = set_of_sets(&ln["comps"]);
                let ne: usize = exp.iter().map(|k| k.len()).sum();
                if s != exp || tot != ne || !closed || c.len() != exp.len() { bad += 1; fail(&mut t, ln, "components", paths_json(&c)); } }
            Err(m) => { bad += 1; fail(&mut t, ln, "components", json!({"panic": m})); }
        }
        match guarded(|| (l.crossing_num(), l.is_knot())) {
            Ok((x, k)) => { checks += 2; if x != d.len() || k != (ln["comps"].as_array().unwrap().len() == 1) { bad += 1; fail(&mut t, ln, "crossing_num/is_knot", json!([x, k])); } }
            Err(m) => { bad += 1; fail(&mut t, ln, "crossing_num/is_knot", json!({"panic": m})); }
        }
        // signs: one of the admissible sign vectors
        match guarded(|| l.crossing_signs().iter().map(|s| if s.is_positive() { 1 } else { -1 }).collect::<Vec<i32>>()) {
            Ok(sg) => { checks += 1; if !ln["signs"].as_array().unwrap().iter().any(|x| *x == json!(sg)) { bad += 1; fail(&mut t, ln, "signs", json!(sg)); } }
            Err(m) => { bad += 1; fail(&mut t, ln, "signs", json!({"panic": m})); }
        }
        match guarded(|| (l.writhe(), l.signed_crossing_nums())) {
            Ok((w, (p, q))) => { checks += 2; if json!(w) != ln["writhe"] || !ln["posneg"].as_array().unwrap().iter().any(|x| *x == json!([p, q])) { bad += 1; fail(&mut t, ln, "writhe/posneg", json!([w, p, q])); } }
            Err(m) => { bad += 1; fail(&mut t, ln, "writhe/posneg", json!({"panic": m})); }
        }
        match guarded(|| data_of(&l.mirror())) {
            Ok(m) => { checks += 1; if data_json(&m) != ln["mirror"] { bad += 1; fail(&mut t, ln, "mirror", data_json(&m)); } }
            Err(m) => { bad += 1; fail(&mut t, ln, "mirror", json!({"panic": m})); }
        }
        // every state
        for st in ln["states"].as_array().unwrap() {
            let bits = u8s_of(&st["s"]);
            match guarded(|| { let r = l.resolved_by(&state_of(&bits)); (data_of(&r), r.crossing_num(), r.components()) }) {
                Ok((rd, x, c)) => { checks += 1; let (s, tot, closed) = paths_sets(&c); let exp = set_of_sets(&st["circles"]);
                    let ne: usize = exp.iter().map(|k| k.len()).sum();
                    if data_json(&rd) != st["r"] || x != 0 || s != exp || tot != ne || !closed || c.len() != exp.len() {
                        bad += 1; fail(&mut t, ln, "state", json!({"s": bits, "r": data_json(&rd), "n": x, "comps": paths_json(&c)})); } }
                Err(m) => { bad += 1; fail(&mut t, ln, "state", json!({"s": bits, "panic": m})); }
            }
        }
        // Seifert smoothing: one of the admissible (state, circles)
        match guarded(|| (l.ori_pres_state().iter().map(|b| b.as_u64()).collect::<Vec<_>>(), l.seifert_circles())) {
            Ok((s, c)) => { checks += 1; let (cs, _, closed) = paths_sets(&c);
                if !closed || !ln["seifert"].as_array().unwrap().iter().any(|x| x["state"] == json!(s) && set_of_sets(&x["circles"]) == cs && x["circles"].as_array().unwrap().len() == c.len()) {
                    bad += 1; fail(&mut t, ln, "seifert", json!({"state": s, "circles": paths_json(&c)})); } }
            Err(m) => { bad += 1; fail(&mut t, ln, "seifert", json!({"panic": m})); }
        }
        let _ = before;
    }
    t.finish();
    summary("replay", json!({"cases": n, "checks": checks, "mismatches": bad}));
}
