//! C10 — LLL and LLL-based Hermite normal form vs spec/sys/LLL.tla.
use crate::c09::BigEnt;
use crate::menc::*;
use crate::util::*;
use num_bigint::BigInt;
use rand::rngs::StdRng;
use rand::Rng;
use serde_json::json;
use yui::{EisenInt, GaussInt, RingOps};
use yui_matrix::dense::lll::{lll, lll_hnf, LLLRing, LLLRingOps};
use yui_matrix::dense::snf::snf;
use yui_matrix::dense::Mat;

#[derive(Default)]
pub struct Stats { pub events: usize, pub cases: usize, pub panics: usize, pub timeouts: usize, pub outside: usize, pub maxdigits: usize, pub lll_cases: usize, pub rank_deficient: usize }

fn dense_of<R: Ent>(d: &[Vec<R>], m: usize, n: usize) -> Mat<R> where for<'x> &'x R: RingOps<R> { Mat::from_data((m, n), d.iter().flatten().cloned()) }
fn digits<R: Ent>(a: &Mat<R>) -> usize where for<'x> &'x R: RingOps<R> { a.iter().map(|(_, _, x)| x.to_string().len()).max().unwrap_or(0) }

fn case<R: BigEnt + LLLRing>(rng: &mut StdRng, t: &mut Tracer, st: &mut Stats, cid: usize, maxd: usize, bigdigits: usize, machine: bool) where for<'x> &'x R: LLLRingOps<R> {
    st.cases += 1;
    t.emit(&json!({"op":"newcase","res":"ok","ring":R::ring(),"case":cid})); st.events += 1;
    // ---------------- Hermite normal form: any shape, any rank
    let (m, n) = (rng.gen_range(0..=maxd), rng.gen_range(0..=maxd));
    let big = bigdigits > 0 && rng.gen_range(0..4) == 0;
    let (m, n) = if big { (m.min(3), n.min(3)) } else { (m, n) };
    let mut d = rand_dense::<R>(rng, m, n, [0.3, 0.7, 1.0][cid % 3], 9);
    if big { for r in d.iter_mut() { for x in r.iter_mut() { if rng.gen_bool(0.6) { *x = R::big(rng, bigdigits).unwrap(); } } } }
    // rank deficiency: repeat / combine rows
    if m >= 2 && rng.gen_range(0..3) == 0 { st.rank_deficient += 1; let (i, j) = (rng.gen_range(0..m), rng.gen_range(0..m)); if i != j { let c = R::rnd(rng, 3); d[j] = d[i].iter().map(|x| x * &c).collect(); } }
    let a = dense_of(&d, m, n);
    st.maxdigits = st.maxdigits.max(digits(&a));
    for has in [[true, true], [false, false], [true, false], [false, true]] {
        let a2 = a.clone();
        let out = with_deadline(30, move || lll_hnf(&a2, has));
        let mut e = json!({"op":"hnf","ring":R::ring(),"type":R::tname(),"a":mat_json(&a),"has":has,"id":"hnf","case":cid});
        match out {
            None => { e["res"] = json!("timeout"); st.timeouts += 1; }
            Some(Err(msg)) if machine && msg.contains("overflow") => { st.outside += 1; continue; }
            Some(Err(msg)) => { e["res"] = json!("panic"); e["panic"] = json!(msg); st.panics += 1; }
            Some(Ok((h, p, pinv))) => { let z = json!({"m":0,"n":0,"a":[]});
                e["res"] = json!(if p.is_some() == has[0] && pinv.is_some() == has[1] { "ok" } else { "transform-flags-not-honoured" });
                e["h"] = mat_json(&h); e["p"] = p.map(|x| mat_json(&x)).unwrap_or(z.clone()); e["pinv"] = pinv.map(|x| mat_json(&x)).unwrap_or(z); }
        }
        t.emit(&e); st.events += 1;
    }
    // ---------------- LLL: independent rows (checked with the library's own rank via snf on a copy; dependent inputs are skipped)
    let (m, n) = { let m = rng.gen_range(0..=maxd.min(4)); (m, rng.gen_range(m..=maxd.max(m))) };
    let (m, n) = if big { (m.min(3), n.min(3).max(m.min(3))) } else { (m, n) };
    let mut d = rand_dense::<R>(rng, m, n, 0.8, 12);
    if big { for r in d.iter_mut() { for x in r.iter_mut() { if rng.gen_bool(0.6) { *x = R::big(rng, bigdigits / 2 + 1).unwrap(); } } } }
    // skewed bases (a short vector hidden behind long combinations) make the swaps happen
    if m >= 2 && rng.gen_bool(0.5) { for i in 1..m { let c = R::of_int(rng.gen_range(5..40)); d[i] = (0..n).map(|j| &d[i][j] + &(&d[i - 1][j] * &c)).collect(); } }
    let b0 = dense_of(&d, m, n);
    let rank = { let b1 = b0.clone(); match with_deadline(30, move || snf(&b1, [false; 4]).rank()) { Some(Ok(r)) => r, _ => usize::MAX } };
    if rank == m {
        st.lll_cases += 1; st.maxdigits = st.maxdigits.max(digits(&b0));
        for has in [true, false] {
            let b2 = b0.clone();
            let out = with_deadline(30, move || lll(&b2, has));
            let mut e = json!({"op":"lll","ring":R::ring(),"type":R::tname(),"a":mat_json(&b0),"has":has,"case":cid});
            match out {
                None => { e["res"] = json!("timeout"); st.timeouts += 1; }
                Some(Err(msg)) if machine && msg.contains("overflow") => { st.outside += 1; continue; }
                Some(Err(msg)) => { e["res"] = json!("panic"); e["panic"] = json!(msg); st.panics += 1; }
                Some(Ok((b, p))) => { e["res"] = json!(if p.is_some() == has { "ok" } else { "transform-flag-not-honoured" }); e["b"] = mat_json(&b); e["p"] = p.map(|x| mat_json(&x)).unwrap_or(json!({"m":0,"n":0,"a":[]})); }
            }
            t.emit(&e); st.events += 1;
        }
    }
}

/// Step-level recording (hook H2): every state change of the LLL working data over Z, for Trace_LllSteps.
pub fn steps(a: &Args) {
    use std::sync::{Arc, Mutex};
    use yui_matrix::verif::{clear_lll_hook, set_lll_hook, LllStep};
    let mut t = Tracer::create(&a.out);
    let mut rng = a.rng(77);
    let n_cases = if a.thorough() { 150 } else { 45 };
    let (mut cases, mut nsteps, mut swaps) = (0usize, 0usize, 0usize);
    let big = |s: &str| -> serde_json::Value { crate::enc::big_json(&s.parse::<BigInt>().expect("integer")) };
    for c in 0..n_cases {
        let m = rng.gen_range(2..=if a.thorough() { 5 } else { 4 }); let n = rng.gen_range(m..=m + 2);
        // every third case sparse with tiny entries: exact orthogonalities between rows (zero lambda entries at a swap)
        let sparse = c % 3 == 2;
        let mut d = if sparse { rand_dense::<BigInt>(&mut rng, m, n, 0.45, 2) } else { rand_dense::<BigInt>(&mut rng, m, n, 0.8, 9) };
        if c % 2 == 0 && !sparse { for i in 1..m { let f = BigInt::from(rng.gen_range(3..30)); d[i] = (0..n).map(|j| &d[i][j] + &(&d[i - 1][j] * &f)).collect(); } }
        let b0 = dense_of(&d, m, n);
        let rank = { let b1 = b0.clone(); match with_deadline(30, move || snf(&b1, [false; 4]).rank()) { Some(Ok(r)) => r, _ => usize::MAX } };
        if rank != m { continue; }
        let log: Arc<Mutex<Vec<LllStep>>> = Arc::new(Mutex::new(vec![]));
        let l2 = log.clone();
        set_lll_hook(Arc::new(move |e: &LllStep| l2.lock().unwrap().push(e.clone())));
        let r = guarded(|| lll(&b0, rng.gen_bool(0.5)));
        clear_lll_hook();
        cases += 1;
        for e in log.lock().unwrap().iter() {
            nsteps += 1; if e.kind == "swap" { swaps += 1; }
            let (mm, nn) = (e.target.len(), e.target.first().map(|r| r.len()).unwrap_or(0));
            t.emit(&json!({"kind": e.kind, "i": e.i, "k": e.k, "coeff": if e.coeff.is_empty() { big("0") } else { big(&e.coeff) }, "step": e.step,
                "target": {"m": mm, "n": nn, "a": e.target.iter().map(|r| r.iter().map(|x| big(x)).collect::<Vec<_>>()).collect::<Vec<_>>()},
                "det": e.det.iter().map(|x| big(x)).collect::<Vec<_>>(), "lambda": e.lambda.iter().map(|r| r.iter().map(|x| big(x)).collect::<Vec<_>>()).collect::<Vec<_>>(), "case": c}));
        }
        if r.is_err() { t.emit(&json!({"kind": "panic", "case": c})); }
    }
    let n = t.finish();
    summary("steps", json!({"events": n, "lll_runs": cases, "steps": nsteps, "swaps": swaps}));
    std::process::exit(0);
}

/// spec -> impl: one TLC-enumerated integer matrix through lll_hnf (all flag combinations) and, if its rows are independent, lll
fn enumerated<R: BigEnt + LLLRing>(t: &mut Tracer, st: &mut Stats, cid: usize, m: usize, n: usize, vals: &[i64]) where for<'x> &'x R: LLLRingOps<R> {
    st.cases += 1;
    t.emit(&json!({"op":"newcase","res":"ok","ring":R::ring(),"case":cid})); st.events += 1;
    let a = Mat::from_data((m, n), vals.iter().map(|x| R::of_int(*x)));
    for has in [[true, true], [false, false]] {
        let a2 = a.clone();
        let mut e = json!({"op":"hnf","ring":R::ring(),"type":R::tname(),"a":mat_json(&a),"has":has,"id":"hnf","case":cid});
        match guarded(move || lll_hnf(&a2, has)) {
            Err(msg) => { e["res"] = json!("panic"); e["panic"] = json!(msg); st.panics += 1; }
            Ok((h, p, pinv)) => { let z = json!({"m":0,"n":0,"a":[]}); e["res"] = json!("ok"); e["h"] = mat_json(&h); e["p"] = p.map(|x| mat_json(&x)).unwrap_or(z.clone()); e["pinv"] = pinv.map(|x| mat_json(&x)).unwrap_or(z); }
        }
        t.emit(&e); st.events += 1;
    }
    let a1 = a.clone();
    if m <= n && guarded(move || snf(&a1, [false; 4]).rank()).unwrap_or(usize::MAX) == m {
        st.lll_cases += 1;
        let a2 = a.clone();
        let mut e = json!({"op":"lll","ring":R::ring(),"type":R::tname(),"a":mat_json(&a),"has":true,"case":cid});
        match guarded(move || lll(&a2, true)) {
            Err(msg) => { e["res"] = json!("panic"); e["panic"] = json!(msg); st.panics += 1; }
            Ok((b, p)) => { e["res"] = json!("ok"); e["b"] = mat_json(&b); e["p"] = p.map(|x| mat_json(&x)).unwrap_or(json!({"m":0,"n":0,"a":[]})); }
        }
        t.emit(&e); st.events += 1;
    }
}

pub fn record(a: &Args) {
    I64_AS_Z.store(true, std::sync::atomic::Ordering::Relaxed);
    let mut t = Tracer::create(&a.out);
    let mut st = Stats::default();
    if let Some(pth) = &a.inp {
        let mut k = 0usize;
        for ln in read_ndjson(pth) {
            let (m, n) = (ln["m"].as_u64().unwrap() as usize, ln["n"].as_u64().unwrap() as usize);
            let vals: Vec<i64> = ln["a"].as_array().unwrap().iter().flat_map(|r| r.as_array().unwrap().iter().map(|x| x.as_i64().unwrap())).collect();
            k += 1;
            enumerated::<i64>(&mut t, &mut st, 100000 + k, m, n, &vals);
            if k % 6 == 0 { enumerated::<GaussInt<i64>>(&mut t, &mut st, 200000 + k, m, n, &vals); }
            if k % 6 == 3 { enumerated::<EisenInt<i64>>(&mut t, &mut st, 300000 + k, m, n, &vals); }
        }
    }
    let (nc, maxd, big) = if a.thorough() { (80, 6, 300) } else { (12, 4, 60) };
    let mut cid = 0;
    macro_rules! run { ($t:ty, $salt:expr, $maxd:expr, $big:expr, $machine:expr) => {{ let mut rng = a.rng($salt); for _ in 0..nc { cid += 1; case::<$t>(&mut rng, &mut t, &mut st, cid, $maxd, $big, $machine); } }} }
    run!(i64, 1, maxd, 0, true); run!(BigInt, 2, maxd, big, false);
    run!(GaussInt<i64>, 3, maxd.min(4), 0, true); run!(GaussInt<BigInt>, 4, maxd.min(4), big / 2, false);
    run!(EisenInt<i64>, 5, maxd.min(4), 0, true); run!(EisenInt<BigInt>, 6, maxd.min(4), big / 2, false);
    let n = t.finish();
    summary("record", json!({"events": n, "cases": st.cases, "lll_inputs_with_independent_rows": st.lll_cases, "rank_deficient_hnf_inputs": st.rank_deficient, "panics": st.panics, "timeouts": st.timeouts,
        "machine_overflows_outside_envelope": st.outside, "max_entry_digits": st.maxdigits, "types": ["i64","BigInt","GaussInt<i64>","GaussInt<BigInt>","EisenInt<i64>","EisenInt<BigInt>"]}));
    std::process::exit(0);
}
