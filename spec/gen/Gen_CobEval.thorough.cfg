CONSTANTS
  GMax = 5
  DMax = 5
SPECIFICATION GSpec
CHECK_DEADLOCK FALSE
