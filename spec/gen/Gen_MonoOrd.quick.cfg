CONSTANTS
  B1 = 3
  B2 = 2
  B3 = 2
SPECIFICATION GenSpec
INVARIANTS Emit
CHECK_DEADLOCK FALSE
