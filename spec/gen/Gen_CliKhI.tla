----------------------------- MODULE Gen_CliKhI -----------------------------
(* Direction A for the khi / ckhi extension of C20: TLC enumerates the option product of CliKhI.tla and prints, per
   point, the abstract point, the outcome the decision table demands and the library call (ring, h, t, flags, kind of
   object) whose result the table has to show.  The harness runs the real binary at every point on concrete LINK
   arguments of the point's class; for the table diagrams that are small enough the expected cells themselves come
   from TLC as well (Gen_KhICone, cfg Gen_KhICone.cli.cfg: the mapping cone of 1 + tau of KhICone.tla). *)
EXTENDS CliKhI, Json

CONSTANT Tier     \* "quick" | "thorough"

Z0 == IntTok(0)
H  == VarTok("H")
T  == VarTok("T")
ListedQ == {<<Z0>>, <<IntTok(1)>>, <<IntTok(2)>>, <<IntTok(-1)>>, <<H>>, <<T>>, <<JunkTok>>,
            <<Z0, T>>, <<H, T>>, <<Z0, IntTok(1)>>, <<IntTok(1), IntTok(1)>>, <<H, Z0>>, <<IntTok(1), T>>, <<IntTok(1), IntTok(2), IntTok(3)>>}
ListedT == ListedQ \cup {<<IntTok(3)>>, <<IntTokNC(0)>>, <<RatTok(1, 2)>>, <<RatTok(1, 0)>>, <<T, H>>, <<H, IntTok(1)>>, <<T, Z0>>, <<H, H>>,
                         <<IntTok(2), T>>, <<Z0, Z0>>, <<H, IntTok(2)>>, <<Z0, JunkTok>>, <<H, T, Z0>>, <<IntTok(2), IntTok(6)>>, <<T, IntTok(1)>>}
CValues == IF Tier = "thorough" THEN ListedT ELSE ListedQ
FewCV   == {<<Z0>>, <<H>>, <<JunkTok>>}

Fl(g, a, s, d, f) == [g |-> g, a |-> a, s |-> s, d |-> d, f |-> f]
FlagsQ == {NoFlags, Fl(TRUE, FALSE, FALSE, FALSE, "unicode"), Fl(FALSE, TRUE, FALSE, FALSE, "unicode"), Fl(FALSE, FALSE, TRUE, FALSE, "unicode"),
           Fl(FALSE, FALSE, FALSE, TRUE, "unicode"), Fl(FALSE, FALSE, FALSE, FALSE, "tex"), Fl(TRUE, TRUE, TRUE, FALSE, "unicode"),
           Fl(TRUE, TRUE, FALSE, TRUE, "tex"), Fl(FALSE, TRUE, TRUE, FALSE, "tex"), Fl(FALSE, FALSE, FALSE, FALSE, "bad")}
FlagSet == IF Tier = "thorough" THEN Flags ELSE FlagsQ

\* the classes that yield no diagram are errors whatever else is given (theorem IBadInputIsError of MC_CliKhI):
\* one option combination each is enough in the quick tier
Keep(p) == \/ Tier = "thorough"
           \/ p.ic \in ILoadable
           \/ (p.fl \in {NoFlags, Fl(FALSE, TRUE, TRUE, FALSE, "tex")} /\ ~p.mirror)
Combos == ({"F2"} \X CValues \X IInputClasses \X FlagSet)
          \cup ((ICTypes \ {"F2"}) \X FewCV \X {"sinv", "noninv", "sympd"} \X {NoFlags, Fl(FALSE, FALSE, TRUE, FALSE, "unicode"), Fl(FALSE, FALSE, FALSE, FALSE, "tex")})

GenNext == inv = NoInv /\ \E cmd \in ICmds, c \in Combos, m \in BOOLEAN, r \in BOOLEAN :
              LET p == IPoint(cmd, c[1], c[2], m, r, c[4], c[3]) IN
              /\ Keep(p)
              /\ inv' = p /\ fail' = FALSE /\ UNCHANGED ss
              /\ obs' = IF IOutcomeAt(p).class = "Error" THEN [exit |-> "nonzero", out |-> "none", msg |-> TRUE]
                        ELSE [exit |-> "zero", out |-> IStdoutOf(IOutcomeAt(p).class), msg |-> FALSE]
GenSpec == IInit /\ [][GenNext]_ivars

Emit == inv # NoInv =>
    LET o    == IOutcomeAt(inv)
        real == inv.ctype \in CTypes
        ring == IF real THEN RingOf(inv.ctype, inv.cv) ELSE [base |-> inv.ctype, vars |-> "none"]
        p    == IF real THEN ParsePair(inv.cv, ring) ELSE NoPair IN
    PrintT(ToJson([cmd |-> inv.cmd, ctype |-> inv.ctype, cv |-> inv.cv, mirror |-> inv.mirror, reduced |-> inv.reduced,
                   fl |-> inv.fl, ic |-> inv.ic, exp |-> [class |-> o.class, why |-> o.why], obs |-> obs,
                   supported |-> real /\ Supported(ICmdRing(inv.cmd), ring), ring |-> ring, parsed |-> p.ok, h |-> p.h, t |-> p.t,
                   kind |-> IF real THEN IKind(inv.cmd, inv.ctype, inv.cv) ELSE "-",
                   mode |-> IF inv.cmd = "ckhi" /\ real THEN IGenMode(inv.cv) ELSE "exact"]))
=============================================================================
