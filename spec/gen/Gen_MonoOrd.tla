----------------------------- MODULE Gen_MonoOrd -----------------------------
(* Direction A for the monomial part of C16: every pair of monomials with exponents -B..B in one, two
   and three variables with the value of both orders, the product and the quotient; replayed on every
   monomial type (Var, Var2, Var3, MultiVar / MultiDeg with usize and isize exponents). *)
EXTENDS MonoOrd, Polys, Json, TLC
CONSTANTS B1, B2, B3
VARIABLES c, step
Monos(nv) == IF nv = 0 THEN (0-B1)..B1 ELSE IF nv = 2 THEN [1..2 -> (0-B2)..B2] ELSE [1..3 -> (0-B3)..B3]
GenInit == c \in {<<nv, x>> : nv \in {0}, x \in Monos(0)} \cup {<<2, x>> : x \in Monos(2)} \cup {<<3, x>> : x \in Monos(3)} /\ step = 0
GenNext == step = 0 /\ step' = 1 /\ c' = c
GenSpec == GenInit /\ [][GenNext]_<<c, step>>
Emit == step = 1 =>
    LET nv == c[1]  a == c[2] IN
    PrintT(ToJson([nv |-> nv, a |-> a,
                   rows |-> LET bs == SetToSeq(Monos(nv)) IN
                            [i \in 1..Len(bs) |-> [b |-> bs[i], lex |-> MLex(nv, a, bs[i]), grlex |-> MGrlex(nv, a, bs[i]),
                                                   mul |-> EAdd(nv, a, bs[i]), div |-> ESub(nv, a, bs[i]), divides |-> ELeq(nv, a, bs[i])]],
                   inv |-> ENeg(nv, a), total |-> ETotal(nv, a)]))
=============================================================================
