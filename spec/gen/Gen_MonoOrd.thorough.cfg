CONSTANTS
  B1 = 5
  B2 = 3
  B3 = 2
SPECIFICATION GenSpec
INVARIANTS Emit
CHECK_DEADLOCK FALSE
