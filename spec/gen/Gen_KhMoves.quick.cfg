CONSTANTS
  AbsN = 100
  AbsKh = 0
  MaxStrands = 3
  MaxLen = 2
  MaxDepth = 1
  MaxCross = 5
  WithX = FALSE
  Thin = 1
  Seed = 1
  ExtraRoots <- KnotRoots
SPECIFICATION GSpec
INVARIANTS Emit GhostWrithe GhostComps DiagramOK
CHECK_DEADLOCK FALSE
