CONSTANTS
  NR = 2
  NC = 2
  VMax = 3
SPECIFICATION Spec
INVARIANT Emit
CHECK_DEADLOCK FALSE
