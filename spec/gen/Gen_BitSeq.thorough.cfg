CONSTANTS
  MaxLen = 64
  WordLen = 64
  NReg = 3
  Lens = {0, 1, 2, 3, 31, 32, 33, 62, 63, 64}
  Lens2 = {0, 1, 2, 32, 63, 64}
SPECIFICATION GenSpec
INVARIANTS LenOK Emit
CHECK_DEADLOCK FALSE
