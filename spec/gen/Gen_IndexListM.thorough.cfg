CONSTANTS
  K = 5
  L = 5
SPECIFICATION GSpec
INVARIANT Emit
CHECK_DEADLOCK FALSE
