CONSTANTS
  AbsN = 100
  Family = {"3_1", "4_1", "5_1", "5_2a", "5_2b", "6_1a", "6_1b", "6_2a"}
  Mirrors = {FALSE, TRUE}
  MaxDepth = 1
  DeepLevel = 0
  CheckMirror = FALSE
SPECIFICATION GenSpec
INVARIANTS Emit SymOK KTypeOK
VIEW View
CHECK_DEADLOCK FALSE
