CONSTANTS
  K = 5
  AL = 2
SPECIFICATION GSpec
INVARIANT Emit
CHECK_DEADLOCK FALSE
