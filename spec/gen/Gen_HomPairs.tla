---------------------------- MODULE Gen_HomPairs ----------------------------
(* Direction A for C07: every pair (d1: 2 x 2, d2: 1 x 2 or 2 x 2) of integer matrices with entries -VMax..VMax and
   d2 d1 = 0; the real homology routines are run on each pair and validated by Trace_HomCalc. *)
EXTENDS Integers, Sequences, Json, TLC
CONSTANTS VMax, R2
VARIABLES d1, d2
V == -VMax..VMax
Zero(x, y) == \A i \in 1..R2 : \A j \in 1..2 : x[i][1] * y[1][j] + x[i][2] * y[2][j] = 0
Init == d1 \in [1..2 -> [1..2 -> V]] /\ d2 \in [1..R2 -> [1..2 -> V]] /\ Zero(d2, d1)
Next == FALSE /\ UNCHANGED <<d1, d2>>
Spec == Init /\ [][Next]_<<d1, d2>>
Emit == PrintT(ToJson([d1 |-> d1, d2 |-> d2]))
=============================================================================
