CONSTANTS
  Dim = 1
  Pick = 0
  MaxLen = 3
SPECIFICATION GSpec
INVARIANT Emit
CHECK_DEADLOCK FALSE
