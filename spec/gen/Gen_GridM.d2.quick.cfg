CONSTANTS
  Dim = 2
  Pick = 0
  MaxLen = 2
SPECIFICATION GSpec
INVARIANT Emit
CHECK_DEADLOCK FALSE
