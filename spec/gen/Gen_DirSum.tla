----------------------------- MODULE Gen_DirSum -----------------------------
(* Direction A for the block-splitting part of C12: every 0/1 pattern on Rows x Cols; the real direct-sum
   routine is run on each (one thread and many) and the answer validated by Trace_Kernels. *)
EXTENDS Integers, Sequences, Json, TLC
CONSTANTS NR, NC
VARIABLE p
Init == p \in [1..NR -> [1..NC -> {0, 1}]]
Next == FALSE /\ p' = p
Spec == Init /\ [][Next]_p
Emit == PrintT(ToJson([pat |-> p]))
=============================================================================
