------------------------------ MODULE Gen_Link ------------------------------
(* Direction A for C18: TLC enumerates the diagrams of the small family (closures of all short braid words,
   all valid codes with <= 2 crossings, and everything reachable from them by at most MaxDepth moves:
   mirror, renumber, reorder, the four Reidemeister-1 kinks on every edge, disjoint union, connected sum)
   and prints, per diagram, what the definitions of Link.tla give: components, the admissible sign vectors,
   writhe, signed crossing numbers, the mirror, for EVERY state the smoothed diagram and its circles, and the
   admissible Seifert smoothings.  Per braid word it prints the numbers property C18 claims for the closure.
   The harness builds each diagram / word in the library and compares. *)
EXTENDS MC_Link, Json

GenNext == Start \/ Move
GenSpec == MCInit /\ [][GenNext]_mvars

Emit == (depth >= 1 /\ Len(dg) > 0 /\ AllCrossings(dg)) =>
    PrintT(ToJson([kind   |-> "diagram",
                   d      |-> dg,
                   comps  |-> Components(dg),
                   signs  |-> AdmSigns(dg),
                   writhe |-> wr,
                   posneg |-> PosNegSet(dg),
                   mirror |-> Mirror(dg),
                   states |-> {[s |-> s, r |-> Resolve(dg, s), circles |-> CirclesOfState(dg, s)] : s \in States(Len(dg))},
                   seifert |-> {[state |-> SeifertStateOf(sg), circles |-> CirclesOfState(dg, SeifertStateOf(sg))] : sg \in AdmSigns(dg)}]))

ASSUME \A w \in Words :
    PrintT(ToJson([kind |-> "braid", n |-> StrandsOf(w), word |-> w,
                   ncomp |-> CycleCount(StrandsOf(w), w), ncross |-> Len(w), writhe |-> ExpSum(w)]))
=============================================================================
