----------------------------- MODULE Gen_Kernels -----------------------------
(* Direction A for C12: TLC enumerates every unit upper-triangular 3x3 integer matrix with entries -1..1 (and,
   by transposition, the lower ones) with right-hand sides; the harness solves, inverts and takes the Schur
   complement (leading 2x2 block) with the real kernels and the answers are validated by Trace_Kernels. *)
EXTENDS Integers, Sequences, Json, TLC
VARIABLE c
V == {-1, 0, 1}
U == {-1, 1}
Cases == {[d |-> d, o |-> o, y |-> y] : d \in [1..3 -> U], o \in [1..3 -> V], y \in [1..3 -> V]}
Up(x) == [i \in 1..3 |-> [j \in 1..3 |-> IF i = j THEN x.d[i] ELSE IF i < j THEN x.o[IF i = 1 THEN j - 1 ELSE 3] ELSE 0]]
Init == c \in Cases
Next == FALSE /\ c' = c
Spec == Init /\ [][Next]_c
Emit == PrintT(ToJson([a |-> Up(c), y |-> c.y]))
=============================================================================
