CONSTANTS
  Dim = 3
  Pick = 0
  MaxLen = 2
SPECIFICATION GSpec
INVARIANT Emit
CHECK_DEADLOCK FALSE
