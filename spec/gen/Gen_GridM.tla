------------------------------ MODULE Gen_GridM ------------------------------
(* Direction A: every transition of GridM over the small domain of MC_GridM: a pre-state (listed support with repetition,
   stored entries, default - regular or not), one operation, and the expected answers of every observer afterwards.
   The replay builds the pre-state on the real Grid (generate_with_default, then remove / insert for the irregular part),
   applies the operation and compares.  Listing observers are expected only when the post-state is regular. *)
EXTENDS GridM, Json
CONSTANTS Dim, Pick, MaxLen
VARIABLE last
DegSeq == CASE Dim = 1 -> << <<-1>>, <<0>>, <<1>> >>
            [] Dim = 2 -> << <<0, 0>>, <<0, -1>>, <<1, 0>> >>
            [] Dim = 3 -> << <<0, 0, 0>>, <<0, 1, -1>>, <<-1, 0, 1>> >>
Degs  == SetOf(DegSeq)
Vals  == 0..1
Supps == UNION {[1..n -> Degs] : n \in 0..MaxLen}
PFuns == UNION {[D -> Vals] : D \in SUBSET Degs}
DomSeq == SelectSeq(DegSeq, LAMBDA i : i \in DOMAIN data)
Pre   == [supp |-> supp, dom |-> DomSeq, vals |-> [k \in 1..Len(DomSeq) |-> data[DomSeq[k]]], dflt |-> dflt]
\* Pick = 0: every pre-state; Pick = n > 0: a fixed fraction (quick tier)
Hash  == Len(supp) + 3 * Cardinality(DOMAIN data) + 5 * dflt + (IF Len(supp) > 0 THEN supp[1][1] + 1 ELSE 0)
GInit == supp \in Supps /\ data \in PFuns /\ dflt \in Vals /\ last = [op |-> "init"]
         /\ (Pick = 0 \/ Hash % Pick = 0)
GNext == /\ last.op = "init"
         /\ \/ UNCHANGED gvars /\ last' = [op |-> "observe", pre |-> Pre]
            \/ \E i \in Degs, e \in Vals : InsertAt(i, e) /\ last' = [op |-> "insert", i |-> i, e |-> e, pre |-> Pre]
            \/ \E i \in Degs : RemoveAt(i, i \in DOMAIN data, ValueAt(i))
                               /\ last' = [op |-> "remove", i |-> i, found |-> (i \in DOMAIN data), out |-> ValueAt(i), pre |-> Pre]
            \/ \E i \in Degs, e \in Vals : GetMutSet(i, e, i \in DOMAIN data)
                               /\ last' = [op |-> "get_mut_set", i |-> i, e |-> e, found |-> (i \in DOMAIN data), pre |-> Pre]
            \/ MapBy(LAMBDA x : 1 - x) /\ last' = [op |-> "map", a |-> -1, b |-> 1, pre |-> Pre]
            \/ MapBy(LAMBDA x : 1) /\ last' = [op |-> "map", a |-> 0, b |-> 1, pre |-> Pre]
            \/ Dim = 1 /\ \E lo \in -1..1, hi \in -1..1 : Truncated(lo, hi) /\ last' = [op |-> "truncated", lo |-> lo, hi |-> hi, pre |-> Pre]
GSpec == GInit /\ [][GNext]_<<supp, data, dflt, last>>
Emit == last.op # "init" =>
          PrintT(ToJson([last |-> last, dim |-> Dim, degs |-> DegSeq,
                         get |-> [k \in 1..Len(DegSeq) |-> ValueAt(DegSeq[k])],
                         sup |-> [k \in 1..Len(DegSeq) |-> DegSeq[k] \in DOMAIN data],
                         dflt |-> dflt, regular |-> Regular, support |-> supp, iter |-> IterSeq]))
=============================================================================
