CONSTANTS
  AbsN = 100
  Family = {"7_2a", "7_2b", "7_3b", "7_4a", "7_6b", "7_7a", "7_5b", "9_46"}
  Mirrors = {FALSE}
  MaxDepth = 0
  DeepLevel = 0
  CheckMirror = FALSE
SPECIFICATION GenSpec
INVARIANTS Emit SymOK KTypeOK
VIEW View
CHECK_DEADLOCK FALSE
