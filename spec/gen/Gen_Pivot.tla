------------------------------ MODULE Gen_Pivot ------------------------------
(* Direction A for C11: TLC (simulation mode) produces maximal behaviours of Pivot.tla on random
   sparsity patterns; the sequence of critical sections (row, start | lock) of each behaviour is the
   schedule that the harness forces on the real worker threads through the gate hooks. *)
EXTENDS Pivot, Json, TLC, SequencesExt
VARIABLE hist
gvars == <<Ent, CandEnt, piv, pc, seen, cand, marked, hist>>
GInit == Init /\ hist = <<>> /\ Cardinality({r \in Rows : ColsOf(r) # {}}) >= 2
GNext == \E r \in Rows :
            \/ Start(r) /\ hist' = Append(hist, <<r, "start">>)
            \/ Search(r) /\ hist' = hist
            \/ Lock(r) /\ hist' = Append(hist, <<r, "lock">>)
GSpec == GInit /\ [][GNext]_gvars
Emit == Done => PrintT(ToJson([ent |-> SetToSeq(Ent), cand |-> SetToSeq(CandEnt), hist |-> hist, piv |-> piv,
                                m |-> Cardinality(Rows), n |-> Cardinality(Cols)]))
=============================================================================
