CONSTANTS
  NR = 3
  NC = 4
SPECIFICATION Spec
INVARIANT Emit
CHECK_DEADLOCK FALSE
