-------------------------- MODULE Gen_ChainRedSched --------------------------
(* Direction A for C08: TLC enumerates every sequence of reducer calls (degree, pivot type, pivot condition) up to
   length Depth; the harness replays each sequence through ChainReducer::reduce_at_spec on planted complexes and
   the reducer state after every call is validated by Trace_ChainRed. *)
EXTENDS Integers, Sequences, Json, TLC
CONSTANTS Depth, NDeg
VARIABLE hist
Calls == {[i |-> i, pt |-> pt, pc |-> pc] : i \in 0..NDeg-1, pt \in {"Rows", "Cols"}, pc \in {"One", "AnyUnit", "Weight"}}
Init == hist = <<>>
Next == Len(hist) < Depth /\ \E c \in Calls : hist' = Append(hist, c)
Spec == Init /\ [][Next]_hist
Emit == Len(hist) > 0 => PrintT(ToJson([calls |-> hist]))
=============================================================================
