CONSTANTS
  N = 5
  Depth = 4
SPECIFICATION GSpec
INVARIANT Emit
CHECK_DEADLOCK FALSE
