----------------------------- MODULE Gen_MatAlg -----------------------------
(* Direction A for C13: TLC enumerates every matrix with dimensions 0..Dim and entries in Vals
   (zero-dimensional shapes included); the harness runs every container operation on them (each
   once without and once with all zeros stored explicitly) and the results are validated. *)
EXTENDS Integers, Sequences, FiniteSets, Json, TLC
CONSTANTS Dim, VMax
Vals == -VMax..VMax
VARIABLE mat
All == UNION {{[m |-> m, n |-> n, a |-> a] : a \in [1..m -> [1..n -> Vals]]} : m \in 0..Dim, n \in 0..Dim}
Init == mat \in All
Next == FALSE /\ mat' = mat
Spec == Init /\ [][Next]_mat
Emit == PrintT(ToJson(mat))
=============================================================================
