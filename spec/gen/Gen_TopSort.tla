----------------------------- MODULE Gen_TopSort -----------------------------
(* Direction A: every digraph on vertices 1..N (as successor sets, self-loops included) plus graphs that mention
   a vertex N+1 which is not a key; the real top_sort is run on each. *)
EXTENDS Naturals, Sequences, FiniteSets, SequencesExt, Json, TLC
CONSTANT N
VARIABLE g
K == 1..N
Init == g \in [K -> SUBSET (1..N+1)]
Next == FALSE /\ g' = g
Spec == Init /\ [][Next]_g
Emit == PrintT(ToJson([keys |-> SetToSortSeq(K, <), succ |-> [k \in K |-> SetToSortSeq(g[k], <)]]))
=============================================================================
