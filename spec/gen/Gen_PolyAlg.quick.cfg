CONSTANTS
  NReg = 2
  Tier = "quick"
SPECIFICATION GenSpec
INVARIANTS GInv Emit
CHECK_DEADLOCK FALSE
