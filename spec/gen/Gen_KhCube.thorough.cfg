CONSTANTS
  MaxN = 6
  Grid = "thorough"
  NB = 12
SPECIFICATION GSpec
INVARIANTS Emit
VIEW GView
CHECK_DEADLOCK FALSE
