----------------------------- MODULE Gen_BitSeq -----------------------------
(* Direction A for C17: TLC enumerates one transition of BitSeq from every state of the
   boundary family (lengths around 0, 32 and 64; all-zero, all-one, alternating, single-bit
   patterns) with every action and every boundary argument, and prints
   pre-state, event, post-state, result class and output as one JSON object per transition. *)
EXTENDS BitSeqEv, Json, TLC, Integers

CONSTANTS Lens,      \* lengths of the boundary family
          Lens2      \* lengths for the second operand register

VARIABLES ev, pre, step
gvars == <<reg, out, res, ev, pre, step>>

Alt(n)      == [i \in 1..n |-> i % 2]
Alt2(n)     == [i \in 1..n |-> (i+1) % 2]
First1(n)   == [i \in 1..n |-> IF i = 1 THEN 1 ELSE 0]
Last1(n)    == [i \in 1..n |-> IF i = n THEN 1 ELSE 0]
Last0(n)    == [i \in 1..n |-> IF i = n THEN 0 ELSE 1]
Family(L)   == UNION {{Zeros(n), Ones(n), Alt(n), Alt2(n), First1(n), Last1(n), Last0(n)} : n \in L}
Pad(s)      == s \o Zeros(WordLen - Len(s))
IdxOf(s)    == {i \in {0, 1, Len(s) \div 2, Len(s) - 1, Len(s)} : i >= 0}
BigLens     == Lens \cup {MaxLen + 1}

Events ==
    LET a == reg[0]  b == reg[1] IN
       {[op |-> "new", r |-> 0, word |-> Pad(s), len |-> Len(s)] : s \in Family(Lens)}
  \cup {[op |-> "new", r |-> 0, word |-> Zeros(WordLen), len |-> MaxLen + 1]}
  \cup {[op |-> "new_rev", r |-> 0, word |-> Pad(s), len |-> n] : s \in Family(Lens \ {0}), n \in BigLens}
  \cup {[op |-> "empty", r |-> 0]}
  \cup {[op |-> "zeros", r |-> 0, n |-> n] : n \in BigLens}
  \cup {[op |-> "ones", r |-> 0, n |-> n] : n \in BigLens}
  \cup {[op |-> "from_iter", r |-> 0, bits |-> s, form |-> f] : s \in Family(BigLens), f \in 0..2}
  \cup {[op |-> "from_bit", r |-> 0, b |-> x, form |-> f] : x \in Bit, f \in 0..1}
  \cup {[op |-> "parse", r |-> 0, chars |-> s] : s \in Family(BigLens)}
  \cup {[op |-> "parse", r |-> 0, chars |-> [s EXCEPT ![Len(s)] = 2]] : s \in Family(Lens \ {0})}
  \cup {[op |-> "copy", r |-> 0, r2 |-> 1]}
  \cup {[op |-> "push", r |-> 0, b |-> x, form |-> f] : x \in Bit, f \in 0..3}
  \cup {[op |-> "append", r |-> 0, r2 |-> 1, form |-> f] : f \in 0..3}
  \cup {[op |-> "append", r |-> 1, r2 |-> 0, form |-> 0]}
  \cup {[op |-> "insert", r |-> 0, i |-> i, b |-> x, form |-> f] : i \in IdxOf(a), x \in Bit, f \in 0..1}
  \cup {[op |-> "remove", r |-> 0, i |-> i] : i \in {j \in IdxOf(a) : j < Len(a)}}
  \cup {[op |-> "set", r |-> 0, i |-> i, b |-> x, form |-> f] : i \in {j \in IdxOf(a) : j < Len(a)}, x \in Bit, f \in 0..1}
  \cup {[op |-> "sub", r |-> 1, r2 |-> 0, l |-> i] : i \in IdxOf(a)}
  \cup {[op |-> "edit", r |-> 1, r2 |-> 0, kind |-> k, i |-> i, b |-> x] :
            k \in {"push", "insert"}, i \in IdxOf(a), x \in Bit}
  \cup {[op |-> "edit", r |-> 1, r2 |-> 0, kind |-> k, i |-> i, b |-> x] :
            k \in {"remove", "set"}, i \in {j \in IdxOf(a) : j < Len(a)}, x \in Bit}
  \cup {[op |-> o, r |-> 0] : o \in {"len", "is_empty", "as_u64", "weight", "iter"}}
  \cup {[op |-> "display", r |-> 0, form |-> f] : f \in 0..1}
  \cup {[op |-> "index", r |-> 0, i |-> i] : i \in {j \in IdxOf(a) : j < Len(a)}}
  \cup {[op |-> o, r |-> x, r2 |-> 1 - x] : o \in {"is_sub", "eq"}, x \in 0..1}
  \cup {[op |-> "cmp", r |-> x, r2 |-> 1 - x, form |-> f] : x \in 0..1, f \in 0..1}
  \cup {[op |-> "generate", n |-> n, k |-> 3] : n \in BigLens}

GenInit == /\ reg \in {[r \in Regs |-> IF r = 0 THEN a ELSE IF r = 1 THEN b ELSE <<>>] :
                          a \in Family(Lens), b \in Family(Lens2)}
           /\ out = NoOut /\ res = "ok" /\ ev = [op |-> "-"] /\ pre = <<>> /\ step = 0

GenNext == /\ step = 0
           /\ \E e \in Events : Step(e) /\ ev' = e
           /\ pre' = reg
           /\ step' = 1

GenSpec == GenInit /\ [][GenNext]_gvars

AsSeq(f) == [i \in 1..NReg |-> f[i-1]]
Emit == step = 1 =>
          PrintT(ToJson([pre |-> AsSeq(pre), ev |-> ev, post |-> AsSeq(reg), res |-> res, out |-> out]))
=============================================================================
