CONSTANTS
  NR = 3
  NC = 2
  VMax = 1
SPECIFICATION Spec
INVARIANT Emit
CHECK_DEADLOCK FALSE
