------------------------------ MODULE Gen_KhCube -----------------------------
(* Direction A for C01: the definition-level oracle.  For every diagram of a named family (unknot diagrams with
   kinks, both Hopf links, both trefoils, figure-8, split unions, connected sums, unlinks whose components never
   pass under, the empty diagram, crossingless circles, and catalogue diagrams up to MaxN crossings), every (h, t)
   of the grid and every base edge (reduced, t = 0: one per component and the library's default) TLC prints the
   homology of the cube of resolutions: rank and torsion over Z, dimensions over F_2 and F_3 (Q = the rank) in every
   homological degree, and in every bidegree when h = t = 0.  The harness computes the same with yui_kh under every
   crossing order, manual deloop / eliminate schedules and thread pools, and compares up to isomorphism.
   The diagrams are built with the operators of Link.tla (Mirror, Kink, Disjoint, ConnSum), so that they are valid
   by construction of the spec; Valid is evaluated for every one of them.
   States: root -> bucket -> case; the work of a bucket is done by the worker that expands it (parallelism). *)
EXTENDS KhHomology, Json

CONSTANTS MaxN,        \* diagrams with more crossings are skipped
          Grid,        \* "quick" | "thorough": which (h, t) pairs
          NB           \* number of buckets

VARIABLES stage, cs
gvars == <<dg, wr, nc, out, res, stage, cs>>

PD(pd) == FromPD(pd)
TrefoilL == PD(<<<<1, 4, 2, 5>>, <<3, 6, 4, 1>>, <<5, 2, 6, 3>>>>)
Figure8  == PD(<<<<4, 2, 5, 1>>, <<8, 6, 1, 5>>, <<6, 3, 7, 4>>, <<2, 7, 3, 8>>>>)
HopfN    == PD(<<<<4, 1, 3, 2>>, <<2, 3, 1, 4>>>>)
U1(k)    == PD(<<<< <<0, 0, 1, 1>>, <<0, 1, 1, 0>>, <<1, 1, 0, 0>>, <<1, 0, 0, 1>> >>[k]>>)
Circle   == <<[t |-> "H", e |-> <<0, 1, 1, 0>>]>>
HeadsOf(D) == CHOOSE H \in AdmHeadSets(D) : TRUE
KinkOn(D, x, kind) == Kink(D, HeadsOf(D), x, kind)
Sum(D1, x, D2, y) == ConnSum(D1, HeadsOf(D1), x, D2, HeadsOf(D2), y)

Family == <<
    [name |-> "empty",         d |-> <<>>],
    [name |-> "circle",        d |-> Circle],
    [name |-> "two_circles",   d |-> <<[t |-> "V", e |-> <<0, 1, 1, 0>>]>>],
    [name |-> "three_circles", d |-> Circle \o <<[t |-> "V", e |-> <<5, 6, 6, 5>>]>>],
    [name |-> "u1a",           d |-> U1(1)],
    [name |-> "u1b",           d |-> U1(2)],
    [name |-> "u1c",           d |-> U1(3)],
    [name |-> "u1d",           d |-> U1(4)],
    [name |-> "u2_kinks",      d |-> KinkOn(U1(1), 0, "o-")],
    [name |-> "u2_kinks_b",    d |-> KinkOn(U1(2), 1, "u+")],
    [name |-> "u3_kinks",      d |-> KinkOn(KinkOn(U1(1), 1, "u-"), 0, "o+")],
    [name |-> "u4_kinks",      d |-> KinkOn(KinkOn(KinkOn(U1(3), 0, "u+"), 1, "o-"), 3, "u-")],
    [name |-> "unlink2_r2",    d |-> PD(<<<<1, 2, 3, 4>>, <<3, 2, 1, 4>>>>)],
    [name |-> "unlink2_over",  d |-> PD(<<<<0, 2, 3, 1>>, <<3, 2, 0, 1>>>>)],
    [name |-> "unknot_r2",     d |-> PD(<<<<1, 4, 2, 1>>, <<2, 4, 3, 3>>>>)],
    [name |-> "u1_u1",         d |-> Disjoint(U1(1), U1(2))],
    [name |-> "hopf_neg",      d |-> HopfN],
    [name |-> "hopf_pos",      d |-> Mirror(HopfN)],
    [name |-> "hopf_kink",     d |-> KinkOn(HopfN, 1, "o+")],
    [name |-> "hopf_u1",       d |-> Disjoint(HopfN, U1(4))],
    [name |-> "trefoil_l",     d |-> TrefoilL],
    [name |-> "trefoil_r",     d |-> Mirror(TrefoilL)],
    [name |-> "trefoil_kink",  d |-> KinkOn(TrefoilL, 4, "u+")],
    [name |-> "trefoil_r_kink", d |-> KinkOn(Mirror(TrefoilL), 2, "o-")],
    [name |-> "trefoil_u1",    d |-> Disjoint(TrefoilL, U1(1))],
    [name |-> "hopf_hopf",     d |-> Disjoint(HopfN, Mirror(HopfN))],
    [name |-> "hopf_sum_hopf", d |-> Sum(HopfN, 1, HopfN, 3)],
    [name |-> "figure8",       d |-> Figure8],
    [name |-> "figure8_mirror", d |-> Mirror(Figure8)],
    [name |-> "L4a1",          d |-> PD(<<<<6, 1, 7, 2>>, <<8, 3, 5, 4>>, <<2, 5, 3, 6>>, <<4, 7, 1, 8>>>>)],
    [name |-> "figure8_kink",  d |-> KinkOn(Figure8, 5, "u-")],
    [name |-> "trefoil_hopf",  d |-> Disjoint(TrefoilL, Mirror(HopfN))],
    [name |-> "trefoil_sum_hopf", d |-> Sum(TrefoilL, 1, HopfN, 1)],
    [name |-> "5_1",           d |-> PD(<<<<1, 6, 2, 7>>, <<3, 8, 4, 9>>, <<5, 10, 6, 1>>, <<7, 2, 8, 3>>, <<9, 4, 10, 5>>>>)],
    [name |-> "5_2",           d |-> PD(<<<<1, 4, 2, 5>>, <<3, 8, 4, 9>>, <<5, 10, 6, 1>>, <<9, 6, 10, 7>>, <<7, 2, 8, 3>>>>)],
    [name |-> "L5a1",          d |-> PD(<<<<6, 1, 7, 2>>, <<10, 7, 5, 8>>, <<4, 5, 1, 6>>, <<2, 10, 3, 9>>, <<8, 4, 9, 3>>>>)],
    [name |-> "figure8_u1",    d |-> Disjoint(Figure8, U1(2))],
    [name |-> "granny",        d |-> Sum(TrefoilL, 1, TrefoilL, 1)],
    [name |-> "square",        d |-> Sum(TrefoilL, 1, Mirror(TrefoilL), 1)],
    [name |-> "trefoil_trefoil", d |-> Disjoint(TrefoilL, Mirror(TrefoilL))],
    [name |-> "6_1",           d |-> PD(<<<<1, 4, 2, 5>>, <<7, 10, 8, 11>>, <<3, 9, 4, 8>>, <<9, 3, 10, 2>>, <<5, 12, 6, 1>>, <<11, 6, 12, 7>>>>)],
    [name |-> "6_2",           d |-> PD(<<<<1, 4, 2, 5>>, <<5, 10, 6, 11>>, <<3, 9, 4, 8>>, <<9, 3, 10, 2>>, <<7, 12, 8, 1>>, <<11, 6, 12, 7>>>>)],
    [name |-> "6_3",           d |-> PD(<<<<4, 2, 5, 1>>, <<8, 4, 9, 3>>, <<12, 9, 1, 10>>, <<10, 5, 11, 6>>, <<6, 11, 7, 12>>, <<2, 8, 3, 7>>>>)],
    [name |-> "L6a4",          d |-> PD(<<<<6, 1, 7, 2>>, <<12, 8, 9, 7>>, <<4, 12, 1, 11>>, <<10, 5, 11, 6>>, <<8, 4, 5, 3>>, <<2, 9, 3, 10>>>>)],
    [name |-> "L6n1",          d |-> PD(<<<<6, 1, 7, 2>>, <<12, 8, 9, 7>>, <<4, 12, 1, 11>>, <<5, 11, 6, 10>>, <<3, 8, 4, 5>>, <<9, 3, 10, 2>>>>)],
    [name |-> "L6a1",          d |-> PD(<<<<6, 1, 7, 2>>, <<10, 3, 11, 4>>, <<12, 8, 5, 7>>, <<8, 12, 9, 11>>, <<2, 5, 3, 6>>, <<4, 9, 1, 10>>>>)]
>>

HTq == <<<<0, 0>>, <<1, 0>>, <<0, 1>>, <<1, 1>>, <<2, 0>>, <<2, 3>>, <<-1, 2>>>>
HTt == HTq \o <<<<0, 2>>, <<1, 2>>, <<2, 1>>, <<-1, 0>>, <<3, 0>>, <<0, -1>>, <<3, -2>>>>
HTs == IF Grid = "thorough" THEN HTt ELSE HTq
\* bases for the reduced variant: the default one and the least label of every component
BasesFor(D) == IF Len(D) = 0 THEN {} ELSE {DefaultBase(D)} \cup {MinOfSet(K) : K \in Components(D)}
\* probes: two diagrams one crossing above the bound with a small grid (the first diagrams whose cobordisms have a
\* component with two side circles: exercises the genus bookkeeping of the library)
Probes == {"L6n1", "square"}
Picked == SelectSeq([i \in 1..Len(Family) |-> i], LAMBDA i : CrossingNum(Family[i].d) <= MaxN
                                                              \/ (Family[i].name \in Probes /\ CrossingNum(Family[i].d) = MaxN + 1))
CasesOf(i) == LET D == Family[i].d IN
    IF CrossingNum(D) > MaxN
    THEN {<<i, 0, 0, -1>>, <<i, 2, 3, -1>>, <<i, 0, 0, DefaultBase(D)>>}
    ELSE LET G == IF CrossingNum(D) >= 6 THEN HTq ELSE HTs IN          \* the extended grid only up to 5 crossings
         {<<i, p[1], p[2], -1>> : p \in {G[x] : x \in 1..Len(G)}}
         \cup {<<i, p[1], 0, b>> : p \in {G[x] : x \in {y \in 1..Len(G) : G[y][2] = 0}}, b \in BasesFor(D)}
AllCases == SetToSeq(UNION {CasesOf(Picked[x]) : x \in 1..Len(Picked)})

ASSUME FamilyValid == \A x \in 1..Len(Picked) : LET D == Family[Picked[x]].d IN
                         CubeOK(D) /\ WellFormed(D) /\ IncidenceOK(D) /\ Planar(D) /\ (AllCrossings(D) => Oriented(D))

GInit == LinkInit /\ stage = 0 /\ cs = <<>>
GBucket == stage = 0 /\ stage' = 1 /\ (\E b \in 0..(NB - 1) : cs' = <<b>>) /\ UNCHANGED lvars
GCase == /\ stage = 1 /\ stage' = 2
         /\ \E x \in {y \in 1..Len(AllCases) : y % NB = cs[1]} :
               /\ cs' = AllCases[x]
               /\ dg' = Family[AllCases[x][1]].d
         /\ UNCHANGED <<wr, nc, out, res>>
GNext == GBucket \/ GCase
GSpec == GInit /\ [][GNext]_gvars

JRow(r)  == [i |-> r.i, rank |-> r.rank, tors |-> r.tors, f2 |-> r.f2, f3 |-> r.f3]
JBRow(r) == [i |-> r.i, j |-> r.j, rank |-> r.rank, tors |-> r.tors, f2 |-> r.f2, f3 |-> r.f3]
Emit == (stage = 2) =>
    LET h == cs[2]  t == cs[3]  base == cs[4]
        C == CubeOf(dg, base)
        M == KhMats(C, h, t)
        tab == KhTableM(C, M)
        bi  == IF h = 0 /\ t = 0 THEN KhBiTableM(C, M) ELSE <<>>
    IN  PrintT(ToJson([kind |-> "kh", name |-> Family[cs[1]].name, d |-> dg, n |-> CrossingNum(dg), h |-> h, t |-> t, base |-> base,
                       dflt |-> (base >= 0 /\ base = DefaultBase(dg)),
                       comps |-> Cardinality(Components(dg)),
                       tab |-> [k \in 1..Len(tab) |-> JRow(tab[k])],
                       bi |-> [k \in 1..Len(bi) |-> JBRow(bi[k])]]))
GView == <<stage, cs>>
=============================================================================
