--------------------------- MODULE Gen_UnionFindM ---------------------------
(* Direction A: every sequence of up to Depth unions on N elements, with the expected partition after the last
   step, replayed on the real UnionFind and KeyedUnionFind. *)
EXTENDS UnionFindM, Json, TLC, SequencesExt
CONSTANTS N, Depth
VARIABLE hist
GInit == n = N /\ cls = [i \in 0..N-1 |-> {i}] /\ hist = <<>>
GNext == Len(hist) < Depth /\ \E i, j \in 0..N-1 : Union(i, j) /\ hist' = Append(hist, <<i, j>>)
GSpec == GInit /\ [][GNext]_<<n, cls, hist>>
Emit == Len(hist) = Depth => PrintT(ToJson([n |-> N, unions |-> hist, classes |-> [i \in 1..N |-> SetToSortSeq(cls[i-1], <)]]))
=============================================================================
