----------------------------- MODULE Gen_Scalars -----------------------------
(* Direction A for C14 (and the exhaustive model of the Scalars machine): for every ring of
   the table and every pair of operands of a complete small domain, every arithmetic action
   and every comparison is taken once; the canonical expected result is printed and replayed
   on every implementation type of that ring in all six operator forms. *)
EXTENDS ScalarsEv, Json, TLC

VARIABLES ev, step
gvars == <<R, reg, out, ev, step>>

RingsUnderTest == {RZ, RQ, RF(2), RF(3), RF(5), RF(7), RG, RE}

Dom(ring) == CASE ring.k = "Z" -> {BN(x) : x \in -6..6}
               [] ring.k = "Q" -> {QCanonOf(QOfInts(n, d)) : n \in -4..4, d \in 1..4}
               [] ring.k = "F" -> 0 .. ring.p-1
               [] ring.k \in {"G", "E"} -> {ZOf(a, b) : a \in -2..2, b \in -2..2}

\* the canonical representative of a raw result (computable on the small domain)
Canon(ring, raw) == IF ring.k = "Q" THEN QCanonOf(raw) ELSE raw

GenInit == /\ R \in RingsUnderTest
           /\ \E a \in Dom(R), b \in Dom(R) : reg = [r \in Regs |-> IF r = 0 THEN a ELSE b]
           /\ out = "-" /\ ev = [op |-> "-"] /\ step = 0

GenNext ==
    /\ step = 0 /\ step' = 1
    /\ \/ \E op \in {"add", "sub", "mul"} :
             LET v == Canon(R, Exact(op, reg[0], reg[1])) IN
             Bin(op, 0, 0, 1, v, <<>>) /\ ev' = [op |-> op, a |-> reg[0], b |-> reg[1], v |-> v, ring |-> R]
       \/ LET v == Canon(R, RNeg(R, reg[0])) IN
          Neg(0, 0, v, <<>>) /\ ev' = [op |-> "neg", a |-> reg[0], b |-> reg[1], v |-> v, ring |-> R]
       \/ \E b \in BOOLEAN : Eq(0, 1, b) /\ ev' = [op |-> "eq", a |-> reg[0], b |-> reg[1], v |-> b, ring |-> R]
       \/ \E b \in BOOLEAN : IsZero(0, b) /\ ev' = [op |-> "is_zero", a |-> reg[0], b |-> reg[1], v |-> b, ring |-> R]
       \/ \E b \in BOOLEAN : IsOne(0, b) /\ ev' = [op |-> "is_one", a |-> reg[0], b |-> reg[1], v |-> b, ring |-> R]
       \/ \E c \in {-1, 0, 1} : Cmp(0, 1, c) /\ ev' = [op |-> "cmp", a |-> reg[0], b |-> reg[1], v |-> c, ring |-> R]
       \/ \E c \in {-1, 0, 1} : CmpZ(0, 1, c) /\ ev' = [op |-> "cmp", a |-> reg[0], b |-> reg[1], v |-> c, ring |-> R]

GenSpec == GenInit /\ [][GenNext]_gvars

\* the design invariants of the machine hold in every state of the complete small model
Inv  == EqInv /\ (\A r \in Regs : RCanonW(R, reg[r], <<>>))
Emit == step = 1 => PrintT(ToJson(ev))
=============================================================================
