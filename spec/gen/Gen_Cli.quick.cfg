CONSTANTS
  Tier = "quick"
SPECIFICATION GenSpec
INVARIANTS TypeOK ErrorNeverTable TableExitsZero Emit
CHECK_DEADLOCK FALSE
