CONSTANTS
  MaxStrands = 4
  MaxLen = 4
  MaxDepth = 1
  MaxCross = 4
SPECIFICATION GenSpec
INVARIANTS Emit GhostWrithe GhostComps
VIEW View
CHECK_DEADLOCK FALSE
