CONSTANTS
  N = 3000
  T = 3
SPECIFICATION GSpec
INVARIANT Emit
CHECK_DEADLOCK FALSE
