CONSTANTS
  K = 3
  L = 4
  Rep = TRUE
SPECIFICATION GSpec
INVARIANT Emit
CHECK_DEADLOCK FALSE
