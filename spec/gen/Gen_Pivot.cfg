CONSTANTS
  Rows = {1, 2, 3, 4}
  Cols = {1, 2, 3, 4}
  AllCand = TRUE
SPECIFICATION GSpec
INVARIANTS Emit Acyclic
CHECK_DEADLOCK FALSE
