CONSTANTS
  Rows = {1, 2, 3}
  Cols = {1, 2, 3}
  AllCand = FALSE
SPECIFICATION GSpec
INVARIANTS Emit Acyclic
CHECK_DEADLOCK FALSE
