---------------------------- MODULE Gen_SmallMats ----------------------------
(* Direction A for the dense linear-algebra properties (C07, C09, C10): every NR x NC integer matrix with
   entries -VMax..VMax; the real routines are run on each and their answers validated by the trace specs. *)
EXTENDS Integers, Sequences, Json, TLC
CONSTANTS NR, NC, VMax
VARIABLE a
Init == a \in [1..NR -> [1..NC -> -VMax..VMax]]
Next == FALSE /\ a' = a
Spec == Init /\ [][Next]_a
Emit == PrintT(ToJson([m |-> NR, n |-> NC, a |-> a]))
=============================================================================
