------------------------------- MODULE Gen_Cli -------------------------------
(* Direction A for C20: TLC enumerates the option product and prints, per point, the
   abstract point, the outcome the decision table demands and the library call
   (ring, h, t, flags) whose result the table has to show.  The harness runs the real
   binary at every point (choosing concrete link inputs of the point's input class). *)
EXTENDS Cli, Json, TLC

CONSTANT Tier     \* "quick": the listed coefficient values; "thorough": all token sequences of length <= 2 (+ triples)

Z0 == IntTok(0)
H  == VarTok("H")
T  == VarTok("T")
Listed ==
    {<<IntTok(n)>> : n \in {0, 1, 2, 3, -1, -2, 6}}
    \cup {<<H>>, <<T>>, <<JunkTok>>, <<RatTok(1, 2)>>, <<RatTok(0, 1)>>, <<RatTok(1, 0)>>, <<IntTokNC(0)>>}
    \cup {<<Z0, T>>, <<H, T>>, <<T, H>>, <<H, Z0>>, <<Z0, H>>, <<Z0, Z0>>, <<Z0, IntTok(3)>>, <<IntTok(3), Z0>>,
          <<IntTok(2), T>>, <<H, IntTok(2)>>, <<IntTokNC(0), T>>, <<H, H>>, <<RatTok(1, 2), H>>, <<Z0, JunkTok>>,
          <<JunkTok, Z0>>, <<IntTok(2), IntTok(6)>>, <<IntTok(-3), IntTok(-2)>>}
    \cup {<<IntTok(1), IntTok(2), IntTok(3)>>, <<Z0, T, Z0>>, <<H, T, Z0>>}

Ints  == {-3, -2, -1, 0, 1, 2, 3, 6}
Toks  == {IntTok(n) : n \in Ints} \cup {IntTokNC(0)}
         \cup {RatTok(1, 2), RatTok(0, 1), RatTok(1, 0)}
         \cup {H, T, JunkTok}
All   == {<<a>> : a \in Toks} \cup {<<a, b>> : a, b \in Toks} \cup Listed

CValues == IF Tier = "thorough" THEN All ELSE Listed

GenNext == inv = NoInv /\ \E cmd \in Cmds, ct \in CTypes, cv \in CValues, m \in BOOLEAN, r \in BOOLEAN, ic \in InputClasses :
              LET p == Point(cmd, ct, cv, m, r, ic) IN
              inv' = p /\ fail' = FALSE
              /\ obs' = IF OutcomeAt(p).class = "Error" THEN [exit |-> "nonzero", out |-> "none", msg |-> TRUE]
                        ELSE [exit |-> "zero", out |-> StdoutOf(OutcomeAt(p).class), msg |-> FALSE]
GenSpec == Init /\ [][GenNext]_vars

Emit == inv # NoInv =>
    LET o    == OutcomeAt(inv)
        ring == RingOf(inv.ctype, inv.cv)
        p    == ParsePair(inv.cv, ring) IN
    PrintT(ToJson([cmd |-> inv.cmd, ctype |-> inv.ctype, cv |-> inv.cv, mirror |-> inv.mirror, reduced |-> inv.reduced,
                   ic |-> inv.ic, exp |-> o, obs |-> obs,
                   supported |-> Supported(inv.cmd, ring), ring |-> ring, parsed |-> p.ok, h |-> p.h, t |-> p.t,
                   mode |-> IF o.class = "GenTable" THEN GenMode(inv.ctype, inv.cv) ELSE "exact"]))
=============================================================================
