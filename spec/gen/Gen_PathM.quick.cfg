CONSTANTS
  K = 4
  L = 3
  Rep = FALSE
SPECIFICATION GSpec
INVARIANT Emit
CHECK_DEADLOCK FALSE
