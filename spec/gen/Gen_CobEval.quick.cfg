CONSTANTS
  GMax = 3
  DMax = 3
SPECIFICATION GSpec
CHECK_DEADLOCK FALSE
