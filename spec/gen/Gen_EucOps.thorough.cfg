CONSTANTS
  ZMax = 30
  QMax = 4
  PMax = 2
SPECIFICATION Spec
INVARIANT Emit
CHECK_DEADLOCK FALSE
