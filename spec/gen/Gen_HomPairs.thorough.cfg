CONSTANTS
  VMax = 3
  R2 = 1
SPECIFICATION Spec
INVARIANT Emit
CHECK_DEADLOCK FALSE
