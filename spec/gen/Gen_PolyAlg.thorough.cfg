CONSTANTS
  NReg = 2
  Tier = "thorough"
SPECIFICATION GenSpec
INVARIANTS GInv Emit
CHECK_DEADLOCK FALSE
