CONSTANTS
  AbsN = 100
  Family = {"3_1", "4_1"}
  Mirrors = {FALSE, TRUE}
  MaxDepth = 0
  DeepLevel = 0
  CheckMirror = FALSE
SPECIFICATION GenSpec
INVARIANTS Emit SymOK KTypeOK
VIEW View
CHECK_DEADLOCK FALSE
