----------------------------- MODULE Gen_SignFmt -----------------------------
(* Direction A: for every integer of -N..N and a list of boundary values the strings and signs the specification
   assigns (subscript, superscript, parity sign, sign, admissibility of Sign::from); every linear combination of at most
   T terms over the generators "1", "x", "y" with coefficients -2..2 and its printed form; paren_expr on a few strings.
   ASCII texts are handed over both as TLA+ strings (for the call) and as code points (for the specification). *)
EXTENDS SignFmt, Json, TLC
CONSTANTS N, T
VARIABLE item
Extra == {9999, 10000, 10001, 99999, 100000, 123456789, 1234567890, 2147483647, 1000000000, 999999999}
Ints  == (-N..N) \cup Extra \cup {-k : k \in Extra}
Names == {[s |-> "1", c |-> <<49>>], [s |-> "x", c |-> <<120>>], [s |-> "y", c |-> <<121>>]}
Texts == {[s |-> "", c |-> <<>>], [s |-> "a", c |-> <<97>>], [s |-> "a + b", c |-> <<97, 32, 43, 32, 98>>], [s |-> " ", c |-> <<32>>],
          [s |-> "(a + b)", c |-> <<40, 97, 32, 43, 32, 98, 41>>], [s |-> "-1", c |-> <<45, 49>>], [s |-> "a-b", c |-> <<97, 45, 98>>]}
Terms == {[x |-> nm, r |-> r] : nm \in Names, r \in -2..2}
GInit == calls = 0 /\ \/ \E k \in Ints : item = [kind |-> "int", n |-> k]
                      \/ \E ts \in UNION {[1..m -> Terms] : m \in 0..T} : item = [kind |-> "lc", ts |-> ts]
                      \/ \E tx \in Texts : item = [kind |-> "paren", tx |-> tx]
GNext == FALSE /\ UNCHANGED <<item, calls>>
GSpec == GInit /\ [][GNext]_<<item, calls>>
Emit == CASE item.kind = "int" ->
               LET n == item.n IN
               PrintT(ToJson([kind |-> "int", n |-> n, sub |-> Subscript(n), sup |-> Superscript(n), parity |-> SignOfParity(n),
                              sign |-> (IF n > 0 THEN 1 ELSE -1), from_ok |-> FromIntOK(n)]))
          [] item.kind = "lc" ->
               LET ts == item.ts IN
               PrintT(ToJson([kind |-> "lc", terms |-> [k \in 1..Len(ts) |-> [xs |-> ts[k].x.s, rs |-> ToString(ts[k].r)]],
                              out |-> LcShown([k \in 1..Len(ts) |-> [x |-> ts[k].x.c, r |-> DecCodes(ts[k].r)]])]))
          [] item.kind = "paren" -> PrintT(ToJson([kind |-> "paren", ss |-> item.tx.s, out |-> ParenExpr(item.tx.c)]))
=============================================================================
