CONSTANTS
  Dim = 2
  VMax = 1
SPECIFICATION Spec
INVARIANT Emit
CHECK_DEADLOCK FALSE
