---------------------------- MODULE Gen_KhICone ----------------------------
(* Direction A for C19: for every table diagram of Family, its mirror image and the second symmetric numbering of
   both, TLC evaluates the definition (KhICone.tla): dimension of the homology of the mapping cone of 1 + tau in
   every degree, for (h, t) in F2 x F2 unreduced and (h, 0) reduced, the bigraded refinement for h = t = 0, and the
   ordinary Khovanov ranks of the cube.  One JSON object per diagram; the harness loads the same code into the
   library (every listing order of the crossings it tries, every builder variant) and compares. *)
EXTENDS MC_KhICone, Json

GenNext == StartLoad \/ MvRotate
GenSpec == MCInit /\ [][GenNext]_mvars

Emit == Loaded =>
    PrintT(ToJson([kind |-> "khi", name |-> nm[1], d |-> dg, rot |-> (depth = 2),
                   tab |-> {[f |-> k[1], h |-> k[2], t |-> k[3], red |-> k[4], ranks |-> kt[k]] : k \in DOMAIN kt}]))
=============================================================================
