----------------------------- MODULE Gen_PolyAlg -----------------------------
(* Direction A for C16: for every ring of the table and every pair (a, b) of polynomials of a
   complete small domain (at most two terms - three over F3 -, cancelling coefficient pairs c / -c,
   Laurent exponents), every action of PolyAlg is taken once from the register file <<a, b>>.
   One JSON object per TLC transition: ring, pre-state (term lists), event, and the canonical
   observation of the destination register afterwards.  The harness replays the event on every
   implementation type of that ring (dense and sparse monomial types, every operator form) and
   compares the complete observation. *)
EXTENDS PolyAlgEv, Json, TLC

CONSTANT Tier           \* "quick" | "thorough"
VARIABLES ev, pre, step
gvars == <<R, reg, out, ev, pre, step>>

Th == Tier = "thorough"
Q(n, d) == QCanonOf(QOfInts(n, d))

GenRings ==
    { MkRing(RZ, 0, TRUE, FALSE, FALSE), MkRing(RZ, 2, FALSE, FALSE, FALSE), MkRing(RZ, 3, TRUE, FALSE, FALSE),
      MkRing(RF(3), 0, FALSE, FALSE, FALSE), MkRing(RQ, 2, TRUE, FALSE, FALSE), MkRing(RG, 0, TRUE, FALSE, FALSE),
      MkRing(RZ, 0, TRUE, FALSE, TRUE) }
    \cup (IF Th THEN { MkRing(RF(5), 2, FALSE, FALSE, FALSE), MkRing(RQ, 0, FALSE, FALSE, FALSE), MkRing(RG, 3, FALSE, FALSE, FALSE),
                       MkRing(RF(3), 0, TRUE, FALSE, TRUE) } ELSE {})

Exps(r) == IF r.lc THEN {-1, 0, 5}
           ELSE IF r.nv = 0 THEN (IF r.lau THEN (IF r.b.k = "Z" THEN {-1, 0, 1, 2} ELSE {-1, 0, 1}) ELSE {0, 1, 2})
           ELSE IF r.nv = 2 THEN (IF r.lau THEN {<<0,0>>, <<1,-1>>, <<-1,0>>} ELSE {<<0,0>>, <<1,0>>, <<0,2>>, <<1,1>>})
           ELSE (IF r.lau THEN {<<0,0,0>>, <<1,0,-1>>, <<0,1,0>>, <<-1,0,1>>} ELSE {<<0,0,0>>, <<0,0,1>>, <<1,1,0>>})
Coefs(r) == CASE r.b.k = "Z" -> IF Th /\ r.nv = 0 /\ ~r.lc THEN {BN(-2), BN(-1), BN(1), BN(2)} ELSE {BN(-1), BN(1)}
              [] r.b.k = "Q" -> {Q(1, 2), Q(-1, 2)} \cup (IF Th THEN {Q(3, 1)} ELSE {})
              [] r.b.k = "F" -> 1 .. r.b.p-1
              [] r.b.k = "G" -> {ZOf(0, 1), ZOf(0, -1)} \cup (IF Th THEN {ZOf(1, 1)} ELSE {})
MaxT(r) == IF r.b.k = "F" /\ r.nv = 0 THEN 3 ELSE 2
Dom(r) == LET E == Exps(r)  Z == RZero(r.b) IN
          {f \in {PClean(r, E, g) : g \in [E -> Coefs(r) \cup {Z}]} : Cardinality(DOMAIN f) <= MaxT(r)}
Scalars(r) == {RZero(r.b), ROne(r.b)} \cup Coefs(r)

GenInit == /\ R \in GenRings
           /\ \E a \in Dom(R), b \in Dom(R) : reg = [r \in Regs |-> IF r = 0 THEN a ELSE b]
           /\ out = "-" /\ ev = [op |-> "-"] /\ pre = <<>> /\ step = 0

O(raw) == ObsOf(raw, [reg EXCEPT ![0] = raw])
\* the inverse of a unit coefficient (small values)
CInv(c) == CASE R.b.k = "Z" -> c
             [] R.b.k = "Q" -> Q(BToInt(c.d), BToInt(c.n))
             [] R.b.k = "F" -> CHOOSE u \in 1..R.b.p-1 : (u * c) % R.b.p = 1
             [] R.b.k = "G" -> ZMk(c.a, BNeg(c.b))                      \* norm 1: the conjugate
Points == IF R.nv = 0 THEN {<<BN(2)>>, <<BN(-3)>>} ELSE IF R.nv = 2 THEN {<<BN(2), BN(-3)>>} ELSE {<<BN(2), BN(-3), BN(5)>>}
\* Q coefficients of a result in canonical form (the domain is small)
CanonQ(v) == IF R.b.k = "Q" THEN [e \in DOMAIN v |-> QCanonOf(v[e])] ELSE v
E(op, extra, raw) == LET v == CanonQ(raw) IN [op |-> op, d |-> 0, x |-> 0, y |-> 1, res |-> "ok", o |-> O(v)] @@ extra

Cands ==
    LET a == reg[0]  b == reg[1] IN
       {E("add", <<>>, RAdd(R, a, b)), E("sub", <<>>, RSub(R, a, b)), E("neg", <<>>, RNeg(R, a)), E("copy", <<>>, a)}
  \cup {E("sum", [xs |-> <<0, 1, 0>>], RAdd(R, RAdd(R, a, b), a))}
  \cup {E("scale", [c |-> c], PScale(R, c, a)) : c \in Scalars(R)}
  \cup (IF R.lc THEN
           {E("combine", [km |-> km], PCombine(R, a, b, LAMBDA s, t : KeyMap(km, s, t))) : km \in {"add", "min", "left", "zero"}}
      \cup {LET phi == [k \in DOMAIN a |-> k \div m]  ks == SetToSeq(DOMAIN a)
            IN E("map_gens", [phi |-> [i \in 1..Len(ks) |-> <<ks[i], phi[ks[i]]>>], m |-> m], PMapGens(R, a, phi)) : m \in {2, 7}}
      \cup {E("filter_gens", [keep |-> SetToSeq(K)], PFilter(R, a, K)) : K \in {{0}, {-1, 5}}}
        ELSE
           {E("mul", [br |-> MulBranch(a, b)], RMul(R, a, b)), E("product", [xs |-> <<0, 1>>], RMul(R, a, b))}
      \cup {E("pow", [n |-> n], PPow(R, a, n)) : n \in 0..2}
      \cup {E("const", [c |-> c], PConst(R, c)) : c \in Scalars(R)}
      \cup {LET u == PIsUnit(R, a, R.lau)
                 g == IF u THEN LET e == CHOOSE e \in DOMAIN a : TRUE IN PMono(R, ENeg(R.nv, e), CInv(a[e])) ELSE PEmpty
             IN IF u THEN E("inv", [some |-> TRUE], g) ELSE [op |-> "inv", d |-> 0, x |-> 0, res |-> "ok", some |-> FALSE, o |-> [terms |-> <<>>]]}
      \cup {[op |-> "is_unit", x |-> 0, res |-> "ok", out |-> PIsUnit(R, a, R.lau)]}
      \cup (IF R.b.k = "Z" /\ ~R.lau THEN {[op |-> "eval", x |-> 0, res |-> "ok", pt |-> pt, v |-> PEval(R, a, IF R.nv = 0 THEN pt[1] ELSE pt)] : pt \in Points} ELSE {}))
  \cup {LET ts == TermSeq(a) \o TermSeq(b) IN E("from_terms", [ts |-> [i \in 1..Len(ts) |-> <<ts[i][1], ts[i][2]>>]], PFromTerms(R, [i \in 1..Len(ts) |-> <<ts[i][1], ts[i][2]>>]))}

GenNext == /\ step = 0 /\ step' = 1 /\ pre' = reg
           /\ \E e \in Cands : Step(e) /\ ev' = e

GenSpec == GenInit /\ [][GenNext]_gvars

GInv == CanonInv /\ ExpInv
Emit == step = 1 => PrintT(ToJson([ring |-> R, pre |-> <<TermSeq(pre[0]), TermSeq(pre[1])>>, ev |-> ev]))
=============================================================================
