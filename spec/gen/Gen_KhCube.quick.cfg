CONSTANTS
  MaxN = 5
  Grid = "quick"
  NB = 12
SPECIFICATION GSpec
INVARIANTS Emit
VIEW GView
CHECK_DEADLOCK FALSE
