----------------------------- MODULE Gen_KhMoves ----------------------------
(* Direction A for C02: TLC explores the machine of Moves.tla (no tables) from the root braid words and prints
   every history of MaxDepth moves: the root word and, per move, what was done and (for moves on the PD code)
   the diagram the spec derives.  The harness replays each history on the library (Braid::closure for words,
   Link::from_pd_code / Link::new for codes, Link::mirror), computes the bigraded Khovanov tables after every
   move and writes the trace Trace_KhTable validates.  Run exhaustively (all histories of the family) or with
   -simulate (random histories of greater depth). *)
EXTENDS MC_KhTable, Json

CONSTANTS WithX,           \* TRUE: also crossing changes (C06), and only roots that are knots
          Thin, Seed      \* Thin = 1: every move; Thin = k: a pseudo-random 1/k of the moves of every state (seeded, reproducible)
VARIABLES hist, root
gvars == <<dg, wr, nc, out, res, jp, bw, kt, depth, hist, root>>

GInit == MCInit /\ hist = <<>> /\ root = <<0, <<>>>>
Idle  == UNCHANGED <<jp, kt>>
Log(r) == hist' = Append(hist, r) /\ UNCHANGED root /\ Depth(depth + 1) /\ Idle
PairsOf(f) == SetToSeq({<<e, f[e]>> : e \in DOMAIN f})

\* deterministic thinning: a move (identified by an integer code) is explored from the current state iff its hash is 0
StateKey == depth * 1009 + Len(dg) * 13 + SumSeq([i \in 1..Len(dg) |-> dg[i].e[1] + 3 * dg[i].e[2] + 5 * dg[i].e[3] + 7 * dg[i].e[4]]) + 101 * Len(hist)
\* (the number of kinks / R2 moves / pair insertions grows with the diagram: their thinning is scaled by its size)
PickW(code, w) == Thin = 1 \/ ((code * 31 + StateKey * 17 + Seed * 7) % (Thin * w)) = 0
Pick(code)  == PickW(code, 1)
PickN(code) == PickW(code, IF Len(dg) > 1 THEN Len(dg) ELSE 1)
MvCode(mv) == CASE mv.kind = "conj" -> 1 [] mv.kind = "stab" -> 3 + mv.s [] mv.kind = "pair" -> 10 + mv.k * 7 + mv.g
                [] mv.kind = "comm" -> 100 + mv.k [] mv.kind = "braid" -> 200 + mv.k
KK == <<"u-", "u+", "o-", "o+">>
B2I(b) == IF b THEN 1 ELSE 0

GStart == /\ depth = 0 /\ dg = <<>>
          /\ \E r \in {r \in Roots : WithX => CycleCount(r[1], r[2]) = 1} : Fresh2(Closure(r[1], r[2]), ExpSum(r[2]), CycleCount(r[1], r[2]), r) /\ root' = r
          /\ hist' = <<>> /\ Depth(1) /\ Idle
GWord == /\ CanMove /\ bw[1] >= 2
         /\ \E mv \in WordMoves(bw[1], bw[2]) : LET r == ApplyMove(mv, bw[1], bw[2]) IN
               /\ (IF mv.kind \in {"conj", "stab"} THEN Pick(MvCode(mv)) ELSE PickN(MvCode(mv)))
               /\ Len(r[2]) <= MaxCross /\ NoFreeLoop(r[1], r[2])
               /\ MWord(mv, r[1], r[2], ClosureCode(r[1], r[2]))
               /\ Log([op |-> "word", mv |-> mv, n |-> r[1], word |-> r[2]])
GMirror  == CanMove /\ Len(dg) > 0 /\ Pick(300) /\ MMirror /\ Log([op |-> "mirror"])
GReverse == CanMove /\ Len(dg) > 0 /\ Pick(301) /\ MReverse /\ Log([op |-> "reverse", d |-> dg'])
Renumberings(D) == <<[e \in Edges(D) |-> MaxEdge(D) + 7 - e], [e \in Edges(D) |-> 3 * e + 100], [e \in Edges(D) |-> (e + 1) % (MaxEdge(D) + 1)]>>
GRenumber == /\ CanMove /\ Len(dg) > 0
             /\ \E i \in 1..3 : Pick(310 + i) /\ LET f == Renumberings(dg)[i] IN MRenumber(f) /\ Log([op |-> "renumber", f |-> PairsOf(f), d |-> dg'])
Reorderings(n) == <<[i \in 1..n |-> (i % n) + 1], [i \in 1..n |-> n + 1 - i]>>
GReorder == /\ CanMove /\ Len(dg) > 1
            /\ \E j \in 1..2 : Pick(320 + j) /\ LET pi == Reorderings(Len(dg))[j] IN MReorder(pi) /\ Log([op |-> "reorder", pi |-> pi, d |-> dg'])
GKink == /\ CanMove /\ Len(dg) < MaxCross /\ Len(dg) > 0
         /\ \E x \in Edges(dg), ki \in 1..4 : LET k == KK[ki] IN PickN(400 + 4 * x + ki) /\ MKink(x, k) /\ Log([op |-> "kink", x |-> x, kind |-> k, d |-> dg'])
GR2 == /\ CanMove /\ Len(dg) + 2 <= MaxCross /\ Len(dg) > 0
       /\ \E x \in Edges(dg), y \in Edges(dg), sx \in {"L", "R"}, sy \in {"L", "R"}, over \in BOOLEAN :
             PickN(1000 + 64 * x + 8 * y + 4 * B2I(sx = "L") + 2 * B2I(sy = "L") + B2I(over)) /\ MR2(x, sx, y, sy, over) /\ Log([op |-> "r2", x |-> x, sx |-> sx, y |-> y, sy |-> sy, over |-> over, d |-> dg'])

\* crossing changes at every crossing (three encodings)
GXChange == /\ WithX /\ CanMove /\ Len(dg) > 0
            /\ \E k \in 1..Len(dg) : PickN(2000 + k) /\ MXChange(k) /\ Log([op |-> "xchange", k |-> k, d |-> dg'])
GXToggle == /\ WithX /\ CanMove /\ Len(dg) > 0
            /\ \E k \in 1..Len(dg) : PickN(2100 + k) /\ MXToggle(k) /\ Log([op |-> "xtoggle", k |-> k, d |-> dg'])
GXLetter == /\ WithX /\ CanMove /\ bw[1] >= 2
            /\ \E k \in 1..Len(bw[2]) : LET w2 == [bw[2] EXCEPT ![k] = -bw[2][k]] IN
                  PickN(2200 + k) /\ MXLetter(k, ClosureCode(bw[1], w2)) /\ Log([op |-> "xletter", k |-> k, n |-> bw[1], word |-> w2])

GNext == GStart \/ GWord \/ GMirror \/ GReverse \/ GRenumber \/ GReorder \/ GKink \/ GR2 \/ GXChange \/ GXToggle \/ GXLetter
GSpec == GInit /\ [][GNext]_gvars

Emit == (depth = MaxDepth + 1) =>
    PrintT(ToJson([kind |-> "hist", root |-> [n |-> root[1], word |-> root[2]], moves |-> hist]))
=============================================================================
