------------------------------ MODULE Gen_TngM ------------------------------
(* Direction A: every tangle reachable with labels 1..K (explored silently) x one operation, with the component list and the
   observers the specification expects afterwards; plus every resolved crossing over the labels for from_resolved. *)
EXTENDS TngM, Json, TLC
CONSTANTS K, AL
VARIABLE last
Lb == 1..K
RECURSIVE SortInts(_)
SortInts(S) == IF S = {} THEN <<>> ELSE <<MinOf(S)>> \o SortInts(S \ {MinOf(S)})
ArcSeqs == {s \in UNION {[1..n -> Lb] : n \in 1..AL} : NoRep(s)}
Arcs  == {Mk(s, FALSE) : s \in ArcSeqs}
Arcs2 == {x \in Arcs : Len(x.edges) = 2}
Small == {<<a>> : a \in Arcs2} \cup {<<Mk(<<c>>, TRUE)>> : c \in Lb} \cup {<<a, Mk(<<c>>, TRUE)>> : a \in Arcs2, c \in Lb}
GInit == t = <<>> /\ last = [op |-> "init"]
Explore == \/ \E a \in Arcs : AppendArc(a, Appended(t, a))
           \/ \E o \in Small : WellFormed(o) /\ ConnectT(o, ConnectedFrom(t, o, 1))
           \/ \E i \in 0..K : RemoveAt(i, t[i+1], DropIdx(t, i+1))
Tried   == \/ \E a \in Arcs : AppendArc(a, Appended(t, a)) /\ last' = [op |-> "append_arc", arc |-> a, pre |-> t]
           \/ \E o \in Small : WellFormed(o) /\ ConnectT(o, ConnectedFrom(t, o, 1)) /\ last' = [op |-> "connect", other |-> o, pre |-> t]
           \/ \E i \in 0..K : RemoveAt(i, t[i+1], DropIdx(t, i+1)) /\ last' = [op |-> "remove_at", i |-> i, comp |-> t[i+1], pre |-> t]
           \/ ConvertEdges(-1, K + 1, Converted(t, LAMBDA x : K + 1 - x)) /\ last' = [op |-> "convert_edges", mul |-> -1, add |-> K + 1, pre |-> t]
           \/ UNCHANGED t /\ last' = [op |-> "observe", pre |-> t]
           \/ t = <<>> /\ \E kind \in {"V", "H"}, e \in [1..4 -> Lb] :
                  ResolvedOK(kind, e) /\ t' = Resolved(kind, e) /\ last' = [op |-> "from_resolved", kind |-> kind, edges |-> e, pre |-> <<>>]
GNext == last.op = "init" /\ ((Explore /\ UNCHANGED last) \/ Tried)
GSpec == GInit /\ [][GNext]_<<t, last>>
Emit == last.op # "init" =>
        PrintT(ToJson([last |-> last, k |-> K, out |-> t, n |-> Len(t), closed |-> (\A i \in Idx(t) : t[i].closed),
                       hascirc |-> (\E i \in Idx(t) : t[i].closed), euler |-> Cardinality({i \in Idx(t) : IsArc(t[i])}),
                       endpts |-> SortInts(ArcEnds(t)), find_circle |-> FirstIdx(t, LAMBDA d : d.closed),
                       find_label |-> [e \in 1..K+1 |-> FirstIdx(t, LAMBDA d : e \in Labels(d))],
                       probe |-> [a \in 1..K-1 |-> [c |-> Mk(<<a+1, a>>, FALSE), idx |-> FirstIdx(t, LAMBDA d : UnoriEq(d, Mk(<<a+1, a>>, FALSE))),
                                                    conn |-> FirstIdx(t, LAMBDA d : Connectable(d, Mk(<<a+1, a>>, FALSE)))]]]))
=============================================================================
