CONSTANTS
  NR = 3
  NC = 3
  VMax = 1
SPECIFICATION Spec
INVARIANT Emit
CHECK_DEADLOCK FALSE
