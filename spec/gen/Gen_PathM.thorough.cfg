CONSTANTS
  K = 4
  L = 4
  Rep = FALSE
SPECIFICATION GSpec
INVARIANT Emit
CHECK_DEADLOCK FALSE
