----------------------------- MODULE Gen_EucOps -----------------------------
(* Direction A for C15: TLC enumerates the complete small operand domains; the harness runs every
   operation of the contract on every ordered pair of each domain and the recorded answers are
   validated by Trace_EucOps. *)
EXTENDS Integers, Sequences, FiniteSets, SequencesExt, Json, TLC
CONSTANTS ZMax, QMax, PMax
VARIABLE ring
Doms == [ Z   |-> {<<x>> : x \in -ZMax..ZMax},
          G   |-> {<<x, y>> : x \in -QMax..QMax, y \in -QMax..QMax},
          E   |-> {<<x, y>> : x \in -QMax..QMax, y \in -QMax..QMax},
          Q   |-> {<<n, d>> : n \in -3..3, d \in 1..3},
          F2  |-> {<<x>> : x \in 0..1},  F3 |-> {<<x>> : x \in 0..2},
          F5  |-> {<<x>> : x \in 0..4},  F7 |-> {<<x>> : x \in 0..6},
          PF3 |-> {<<a, b, c>> : a \in 0..2, b \in 0..2, c \in 0..PMax},
          PF5 |-> {<<a, b>> : a \in 0..4, b \in 0..4},
          PQ  |-> {<<a, b, c>> : a \in -1..1, b \in -1..2, c \in 0..1} ]
Init == ring \in DOMAIN Doms
Next == FALSE /\ ring' = ring
Spec == Init /\ [][Next]_ring
Emit == PrintT(ToJson([ring |-> ring, vals |-> SetToSeq(Doms[ring])]))
=============================================================================
