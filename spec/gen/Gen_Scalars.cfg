CONSTANTS
  NReg = 2
SPECIFICATION GenSpec
INVARIANTS Inv Emit
CHECK_DEADLOCK FALSE
