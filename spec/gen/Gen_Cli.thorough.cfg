CONSTANTS
  Tier = "thorough"
SPECIFICATION GenSpec
INVARIANTS TypeOK ErrorNeverTable TableExitsZero Emit
CHECK_DEADLOCK FALSE
