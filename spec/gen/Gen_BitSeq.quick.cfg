CONSTANTS
  MaxLen = 64
  WordLen = 64
  NReg = 3
  Lens = {0, 1, 2, 32, 63, 64}
  Lens2 = {0, 1, 64}
SPECIFICATION GenSpec
INVARIANTS LenOK Emit
CHECK_DEADLOCK FALSE
