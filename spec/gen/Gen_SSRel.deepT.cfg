CONSTANTS
  AbsN = 100
  AbsKh = 0
  MaxStrands = 3
  MaxLen = 1
  MaxDepth = 4
  MaxCross = 8
  WithX = TRUE
  Thin = 6
  Seed = 1
  ExtraRoots <- KnotRoots
SPECIFICATION GSpec
INVARIANTS Emit GhostWrithe GhostComps DiagramOK
CHECK_DEADLOCK FALSE
