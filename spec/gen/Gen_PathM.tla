------------------------------ MODULE Gen_PathM ------------------------------
(* Direction A: every ordered pair (p, q) of simple paths with labels 1..K and length <= L, with the answers of PathM for
   every observer of p, the relations between p and q, reduce, and connect (panic / glued result / no contract).
   Rep = TRUE instead emits the pairs of equally long circles / arcs on the same multiset of labels in which a label is
   repeated - outside the specified domain; the replay only records whether unori_eq still agrees with cyclic equality. *)
EXTENDS PathM, Json, TLC
CONSTANTS K, L, Rep
Labels  == 1..K
AllSeqs == UNION {[1..n -> Labels] : n \in 1..L}
Count(s, x) == Cardinality({k \in 1..Len(s) : s[k] = x})
Wanted(a, b) == IF Rep THEN /\ ~(NoRep(a.edges) /\ NoRep(b.edges)) /\ a.closed = b.closed /\ Len(a.edges) = Len(b.edges)
                            /\ \A x \in Labels : Count(a.edges, x) = Count(b.edges, x)
                ELSE NoRep(a.edges) /\ NoRep(b.edges)
GInit == /\ p \in {Mk(s, c) : s \in AllSeqs, c \in BOOLEAN} /\ q \in {Mk(s, c) : s \in AllSeqs, c \in BOOLEAN}
         /\ Wanted(p, q)
GNext == FALSE /\ UNCHANGED pvars
GSpec == GInit /\ [][GNext]_pvars
Emit == IF Rep THEN PrintT(ToJson([p |-> p, q |-> q, simple |-> FALSE, unori_eq |-> UnoriEq(p, q)]))
        ELSE PrintT(ToJson([p |-> p, q |-> q, simple |-> TRUE, k |-> K,
                            unori_eq |-> UnoriEq(p, q), connectable |-> Connectable(p, q), bothends |-> BothEnds(p, q),
                            min_edge |-> MinOf(SetOf(p.edges)), ends |-> (IF IsArc(p) THEN <<First(p), Last(p)>> ELSE <<>>),
                            contains |-> [e \in 1..K+1 |-> e \in SetOf(p.edges)], reduced |-> Reduced(p), shown |-> Shown(p),
                            connect |-> IF ~Connectable(p, q) THEN [kind |-> "panic"]
                                        ELSE IF GlueOK(p, q) THEN [kind |-> "glued", out |-> Glued(p, q)]
                                        ELSE [kind |-> "nocontract"]]))
=============================================================================
