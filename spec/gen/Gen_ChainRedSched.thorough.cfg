CONSTANTS
  Depth = 3
  NDeg = 3
SPECIFICATION Spec
INVARIANT Emit
CHECK_DEADLOCK FALSE
