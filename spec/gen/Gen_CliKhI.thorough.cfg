CONSTANTS
  Tier = "thorough"
SPECIFICATION GenSpec
INVARIANTS ITypeOK IErrorNeverTable ITableExitsZero Emit
CHECK_DEADLOCK FALSE
