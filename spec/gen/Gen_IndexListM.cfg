CONSTANTS
  K = 4
  L = 4
SPECIFICATION GSpec
INVARIANT Emit
CHECK_DEADLOCK FALSE
