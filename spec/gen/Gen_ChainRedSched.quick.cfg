CONSTANTS
  Depth = 2
  NDeg = 2
SPECIFICATION Spec
INVARIANT Emit
CHECK_DEADLOCK FALSE
