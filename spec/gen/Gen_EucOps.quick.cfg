CONSTANTS
  ZMax = 12
  QMax = 2
  PMax = 1
SPECIFICATION Spec
INVARIANT Emit
CHECK_DEADLOCK FALSE
