------------------------------ MODULE Gen_Jones -----------------------------
(* Direction A for C04: for every diagram of the small family of MC_Jones (closures of all short braid words and
   everything reachable by the isotopy moves, mirror, disjoint union, connected sum) TLC prints the state-sum
   polynomial of Jones.tla; the harness builds the diagram in the library and compares jones_polynomial. *)
EXTENDS MC_Jones, Json

Emit == (depth >= 1 /\ Len(dg) > 0) =>
    PrintT(ToJson([kind |-> "jones", d |-> dg, p |-> PairsOfPoly(jp), w |-> wr]))
=============================================================================
