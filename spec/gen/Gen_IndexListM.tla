--------------------------- MODULE Gen_IndexListM ---------------------------
(* Direction A: every sequence of length <= L over 1..K handed to from_iter, with the expected answers of every observer
   (len, iter, index_of / contains for 1..K+1, list[i] for 0..L).  Sequences with repetition are emitted with dup = TRUE
   and no expectation: the replay records what the implementation does with them. *)
EXTENDS IndexListM, Json, TLC
CONSTANTS K, L
Seqs  == UNION {[1..n -> 1..K] : n \in 0..L}
GInit == lst \in Seqs /\ valid = NoRep(lst)
GNext == FALSE /\ UNCHANGED ivars
GSpec == GInit /\ [][GNext]_ivars
Emit == PrintT(ToJson([xs |-> lst, dup |-> ~valid, len |-> Len(lst),
                       index_of |-> [x \in 1..K+1 |-> PosIn(lst, x)],
                       at |-> [i \in 1..L+1 |-> IF i <= Len(lst) THEN lst[i] ELSE -1]]))
=============================================================================
