CONSTANTS
  AbsN = 100
  MaxStrands = 4
  MaxLen = 4
  MaxDepth = 1
  MaxCross = 4
SPECIFICATION MCSpec
INVARIANTS JGhost Emit
VIEW View
CHECK_DEADLOCK FALSE
