CONSTANTS
  N = 4
  Depth = 3
SPECIFICATION GSpec
INVARIANT Emit
CHECK_DEADLOCK FALSE
