CONSTANTS
  NR = 2
  NC = 3
  VMax = 2
SPECIFICATION Spec
INVARIANT Emit
CHECK_DEADLOCK FALSE
