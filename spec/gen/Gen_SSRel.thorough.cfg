CONSTANTS
  AbsN = 100
  AbsKh = 0
  MaxStrands = 3
  MaxLen = 3
  MaxDepth = 1
  MaxCross = 7
  WithX = TRUE
  Thin = 1
  Seed = 1
  ExtraRoots <- KnotRoots
SPECIFICATION GSpec
INVARIANTS Emit GhostWrithe GhostComps DiagramOK
CHECK_DEADLOCK FALSE
