CONSTANTS
  N = 300
  T = 2
SPECIFICATION GSpec
INVARIANT Emit
CHECK_DEADLOCK FALSE
