CONSTANTS
  MaxStrands = 3
  MaxLen = 3
  MaxDepth = 1
  MaxCross = 4
SPECIFICATION GenSpec
INVARIANTS Emit GhostWrithe GhostComps
VIEW View
CHECK_DEADLOCK FALSE
