------------------------------ MODULE Gen_CobEval ----------------------------
(* Direction A for the cobordism evaluation: for every component <<g, x, y>> (genus, X dots, Y dots) up to the bounds,
   closed and with one boundary circle, TLC prints the value the rewriting machine of CobEval.tla preserves:
     closed   epsilon(X^x Y^y (X+Y)^g)  as a polynomial in H, T  (triples <<i, j, c>> = c H^i T^j)
     open     X^x Y^y (X+Y)^g = a + bX  as the pair of polynomials (a, b)
   The harness evaluates CobComp::eval / part_eval of the library over Poly2<'H','T',i64> (for the open case it
   caps the result with a plain and with an X-dotted disc, which reads off epsilon(v) = b and epsilon(Xv) = a + bH,
   printed as xeps) and compares. *)
EXTENDS CobEval, Json

CONSTANTS GMax, DMax
VARIABLE k

GInit == k = 0 /\ cl = FALSE /\ terms = <<>> /\ v0 = FZero(PR)
GNext == FALSE /\ UNCHANGED <<k, cl, terms, v0>>
GSpec == GInit /\ [][GNext]_<<k, cl, terms, v0>>

ASSUME \A g \in 0..GMax, x \in 0..DMax, y \in 0..DMax :
    LET e == ExpectedOpen(g, x, y) IN
    PrintT(ToJson([kind |-> "cob", g |-> g, x |-> x, y |-> y,
                   closed |-> PolyTriples(FEps(PR, e)),
                   a |-> PolyTriples(e[1]), b |-> PolyTriples(e[2]),
                   xeps |-> PolyTriples(FEps(PR, FMul(PR, PH, PT, FX(PR), e)))]))      \* epsilon(X v) = a + bH
=============================================================================
