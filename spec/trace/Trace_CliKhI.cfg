SPECIFICATION TraceSpec
INVARIANTS ITypeOK IErrorNeverTable ITableExitsZero SSOK
POSTCONDITION TraceAccepted
CHECK_DEADLOCK FALSE
