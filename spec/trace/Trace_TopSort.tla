---------------------------- MODULE Trace_TopSort ----------------------------
EXTENDS TopSort, Json, IOUtils, TLC
Rec == ndJsonDeserialize(IOEnv.TRACE)
VARIABLE l
tvars == <<calls, l>>
KeySet(e) == {e.keys[i] : i \in 1..Len(e.keys)}
\* succ arrives as a sequence parallel to keys
SuccFn(e) == [k \in KeySet(e) |-> e.succ[CHOOSE i \in 1..Len(e.keys) : e.keys[i] = k]]
Step(e) == e.res = "ok" /\ e.op = "top_sort" /\ Sorted(KeySet(e), SuccFn(e), e.ok, e.order)
TraceInit == Init /\ l = 1
TraceNext == l <= Len(Rec) /\ Step(Rec[l]) /\ l' = l + 1
TraceSpec == TraceInit /\ [][TraceNext]_tvars
TraceAccepted ==
    LET d == TLCGet("stats").diameter IN
    IF d - 1 = Len(Rec) THEN PrintT(<<"TRACE_ACCEPTED", Len(Rec)>>)
    ELSE PrintT(<<"TRACE_REJECTED", d, ToJson(Rec[d])>>) /\ FALSE
=============================================================================
