SPECIFICATION TraceSpec
INVARIANT Inv
POSTCONDITION TraceAccepted
CHECK_DEADLOCK FALSE
