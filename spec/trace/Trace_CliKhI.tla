---------------------------- MODULE Trace_CliKhI ----------------------------
(* Trace validation for the khi / ckhi extension of C20: every recorded run of the real ykh binary must be the Invoke
   action of CliKhI.tla at the event's abstract point (re-derived from the concrete argument): error points are error
   results and never tables; table points print exactly the library's groups, the sections the flags ask for, and
   pairs of s values that obey SSIRelations over the whole trace. *)
EXTENDS CliKhIEv, Json, IOUtils

Rec == ndJsonDeserialize(IOEnv.TRACE)

VARIABLE l
tvars == <<inv, obs, fail, ss, l>>

TraceInit == IInit /\ l = 1
TraceNext == l <= Len(Rec) /\ IStep(Rec[l]) /\ l' = l + 1
TraceSpec == TraceInit /\ [][TraceNext]_tvars

TraceAccepted ==
    LET d == TLCGet("stats").diameter IN
    IF d - 1 = Len(Rec) THEN PrintT(<<"TRACE_ACCEPTED", Len(Rec)>>)
    ELSE PrintT(<<"TRACE_REJECTED", d, ToJson(Rec[d])>>) /\ FALSE
=============================================================================
