----------------------------- MODULE Trace_Cli -----------------------------
(* Trace validation for C20: every recorded run of the real ykh binary must be the
   Invoke action of Cli.tla at the event's abstract point: error points are error
   results and never tables; table points print exactly the library's groups. *)
EXTENDS CliEv, Json, IOUtils, TLC

Rec == ndJsonDeserialize(IOEnv.TRACE)

VARIABLE l
tvars == <<inv, obs, fail, l>>

TraceInit == Init /\ l = 1
TraceNext == l <= Len(Rec) /\ Step(Rec[l]) /\ l' = l + 1
TraceSpec == TraceInit /\ [][TraceNext]_tvars

TraceAccepted ==
    LET d == TLCGet("stats").diameter IN
    IF d - 1 = Len(Rec) THEN PrintT(<<"TRACE_ACCEPTED", Len(Rec)>>)
    ELSE PrintT(<<"TRACE_REJECTED", d, ToJson(Rec[d])>>) /\ FALSE
=============================================================================
