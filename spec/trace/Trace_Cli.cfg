SPECIFICATION TraceSpec
INVARIANTS TypeOK ErrorNeverTable TableExitsZero
POSTCONDITION TraceAccepted
CHECK_DEADLOCK FALSE
