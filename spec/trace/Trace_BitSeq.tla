---------------------------- MODULE Trace_BitSeq ----------------------------
(* Trace validation for C17: every recorded call of the real BitSeq must be the
   corresponding action of BitSeq.tla; the recorded register file, result class
   and returned value must equal what the action yields. *)
EXTENDS BitSeqEv, Json, IOUtils, TLC, Integers

Rec == ndJsonDeserialize(IOEnv.TRACE)

VARIABLE l
tvars == <<reg, out, res, l>>

TraceInit == Init /\ l = 1

TraceNext ==
    /\ l <= Len(Rec)
    /\ LET e == Rec[l] IN
         /\ Step(e)
         /\ res' = e.res
         /\ reg' = [r \in Regs |-> e.regs[r+1]]
         /\ out' = e.out
    /\ l' = l + 1

TraceSpec == TraceInit /\ [][TraceNext]_tvars

TraceAccepted ==
    LET d == TLCGet("stats").diameter IN
    IF d - 1 = Len(Rec) THEN PrintT(<<"TRACE_ACCEPTED", Len(Rec)>>)
    ELSE PrintT(<<"TRACE_REJECTED", d, ToJson(Rec[d])>>) /\ FALSE
=============================================================================
