----------------------------- MODULE Trace_Link -----------------------------
(* Trace validation for C18: every recorded call on the real yui_link::Link / Braid must be the
   corresponding action of Link.tla (Braid.tla for closures); the recorded data of the link object
   after the call must be the diagram the action yields; every answer must satisfy its contract.
   The ghost invariants are evaluated in every state: the writhe / component count predicted by the
   history of moves (mirror negates, renumbering and reordering keep, a kink adds its sign, a closure
   has the exponent sum and the cycle count) must agree with the first-principles definitions on the
   diagram the implementation holds.
   A driver that issues a call outside its documented precondition sets `bad` (tool error, not a verdict). *)
EXTENDS LinkEv, Json, IOUtils, TLC

Rec == ndJsonDeserialize(IOEnv.TRACE)

VARIABLES l, bad
tvars == <<dg, wr, nc, out, res, l, bad>>

TraceInit == LinkInit /\ l = 1 /\ bad = FALSE

TraceNext ==
    /\ l <= Len(Rec)
    /\ ~bad
    /\ LET e == Rec[l] IN
         IF Pre(e)
         THEN /\ Step(e)
              /\ dg' = e.d
              /\ res' = e.res
              /\ bad' = FALSE
         ELSE /\ bad' = TRUE
              /\ UNCHANGED <<dg, wr, nc, out, res>>
    /\ l' = l + 1

TraceSpec == TraceInit /\ [][TraceNext]_tvars

DriverOK == ~bad

TraceAccepted ==
    LET d == TLCGet("stats").diameter IN
    IF d - 1 = Len(Rec) THEN PrintT(<<"TRACE_ACCEPTED", Len(Rec)>>)
    ELSE PrintT(<<"TRACE_REJECTED", d, ToJson(Rec[d])>>) /\ FALSE

View == <<dg, wr, nc, l, bad>>
=============================================================================
