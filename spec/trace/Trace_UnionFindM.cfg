SPECIFICATION TraceSpec
INVARIANT PartitionOK
POSTCONDITION TraceAccepted
CHECK_DEADLOCK FALSE
