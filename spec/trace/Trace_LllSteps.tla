--------------------------- MODULE Trace_LllSteps ---------------------------
EXTENDS LllSteps, Json, IOUtils, TLC
Rec == ndJsonDeserialize(IOEnv.TRACE)
VARIABLE l
tvars == <<B, step, det, lam, pot, l>>
Same(e) == B' = e.target /\ step' = e.step
Step(e) == CASE e.kind = "setup"      -> Setup(e.target, e.det, e.lambda) /\ e.step = 1
             [] e.kind = "add_row_to" -> AddRowTo(e.i, e.k, e.coeff, e.det, e.lambda) /\ Same(e)
             [] e.kind = "swap"       -> Swap(e.k, e.det, e.lambda) /\ Same(e)
             [] e.kind = "next"       -> Next /\ Same(e)
             [] e.kind = "back"       -> Back /\ Same(e)
             [] OTHER -> FALSE
TraceInit == Init /\ l = 1
TraceNext == l <= Len(Rec) /\ Step(Rec[l]) /\ l' = l + 1
TraceSpec == TraceInit /\ [][TraceNext]_tvars
Inv == DataOK /\ StepOK
TraceAccepted ==
    LET d == TLCGet("stats").diameter IN
    IF d - 1 = Len(Rec) THEN PrintT(<<"TRACE_ACCEPTED", Len(Rec)>>)
    ELSE PrintT(<<"TRACE_REJECTED", d, ToJson(Rec[d])>>) /\ FALSE
=============================================================================
