CONSTANTS
  AbsN = 8
SPECIFICATION TraceSpec
INVARIANTS DriverOK GhostComps
POSTCONDITION TraceAccepted
VIEW View
CHECK_DEADLOCK FALSE
