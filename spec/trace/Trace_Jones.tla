----------------------------- MODULE Trace_Jones ----------------------------
(* Trace validation for C04: every recorded jones_polynomial value and every recorded Khovanov table must be a
   step of Jones.tla: equal to the Kauffman state sum computed here from the PD code (diagrams up to AbsN
   crossings), constant along isotopy moves, inverted by mirroring, and equal to the graded Euler
   characteristic of the table.  JGhost is evaluated in every state. *)
EXTENDS JonesEv, Json, IOUtils, TLC

Rec == ndJsonDeserialize(IOEnv.TRACE)

VARIABLES l, bad
tvars == <<dg, wr, nc, out, res, jp, bw, l, bad>>

TraceInit == JInit /\ l = 1 /\ bad = FALSE

TraceNext ==
    /\ l <= Len(Rec)
    /\ ~bad
    /\ LET e == Rec[l] IN
         IF JPre(e)
         THEN /\ JStep(e)
              /\ dg' = e.d
              /\ res' = e.res
              /\ bad' = FALSE
         ELSE /\ bad' = TRUE
              /\ UNCHANGED <<dg, wr, nc, out, res, jp, bw>>
    /\ l' = l + 1

TraceSpec == TraceInit /\ [][TraceNext]_tvars

DriverOK == ~bad

TraceAccepted ==
    LET d == TLCGet("stats").diameter IN
    IF d - 1 = Len(Rec) THEN PrintT(<<"TRACE_ACCEPTED", Len(Rec)>>)
    ELSE PrintT(<<"TRACE_REJECTED", d, ToJson(Rec[d])>>) /\ FALSE

View == <<dg, jp, bw, l, bad>>
=============================================================================
