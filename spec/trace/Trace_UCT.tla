------------------------------ MODULE Trace_UCT -----------------------------
(* Trace validation for C03: every table the library reports for a link must be a Report step of UCT.tla, i.e.
   consistent (integer types and routes identical, rational ranks, universal coefficients over F2 and F3,
   F2 unreduced = reduced (x) unknot) with the reference table of that link.  On rejection the failing
   relations and bidegrees are printed with the event. *)
EXTENDS UCTEv, Json, IOUtils

Rec == ndJsonDeserialize(IOEnv.TRACE)

VARIABLES l, bad
tvars == <<lk, tabs, l, bad>>

TraceInit == UInit /\ l = 1 /\ bad = FALSE

TraceNext ==
    /\ l <= Len(Rec)
    /\ ~bad
    /\ LET e == Rec[l] IN
         IF UPre(e) THEN UStep(e) /\ bad' = FALSE
         ELSE bad' = TRUE /\ UNCHANGED <<lk, tabs>>
    /\ l' = l + 1

TraceSpec == TraceInit /\ [][TraceNext]_tvars

DriverOK == ~bad

TraceAccepted ==
    LET d == TLCGet("stats").diameter IN
    IF d - 1 = Len(Rec) THEN PrintT(<<"TRACE_ACCEPTED", Len(Rec)>>)
    ELSE PrintT(<<"TRACE_REJECTED", d, ToJson([e |-> Rec[d], why |-> Why(Rec, d)])>>) /\ FALSE
=============================================================================
