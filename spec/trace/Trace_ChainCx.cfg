SPECIFICATION TraceSpec
INVARIANTS DriverOK
POSTCONDITION TraceAccepted
CHECK_DEADLOCK FALSE
