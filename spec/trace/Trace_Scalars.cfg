CONSTANTS
  NReg = 6
SPECIFICATION TraceSpec
INVARIANTS EqInv
POSTCONDITION TraceAccepted
CHECK_DEADLOCK FALSE
