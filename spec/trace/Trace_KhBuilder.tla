---------------------------- MODULE Trace_KhBuilder ---------------------------
(* Trace validation for C01 (impl -> spec): every recorded call on a real TngComplexBuilder (crossings fed one at a
   time in a seeded random order, seeded random deloop / eliminate calls with the automatic simplification switched
   off) must be a step of KhBuilder.tla, the vertices the library holds after each call must be the keys and tangles
   the specification derives, and the complex finally returned must have the homology of the cube of resolutions
   computed here from the PD code.  KeysOK and EulerOK are evaluated in every state. *)
EXTENDS KhBuilderEv, Json, IOUtils

Rec == ndJsonDeserialize(IOEnv.TRACE)

VARIABLES l, bad
tvars == <<dg, wr, nc, out, res, kb, l, bad>>

TraceInit == KbInit /\ l = 1 /\ bad = FALSE

TraceNext ==
    /\ l <= Len(Rec)
    /\ ~bad
    /\ LET e == Rec[l] IN
         IF KbPre(e)
         THEN KbStep(e) /\ bad' = FALSE
         ELSE bad' = TRUE /\ UNCHANGED bvars
    /\ l' = l + 1

TraceSpec == TraceInit /\ [][TraceNext]_tvars

DriverOK == ~bad

TraceAccepted ==
    LET d == TLCGet("stats").diameter IN
    IF d - 1 = Len(Rec) THEN PrintT(<<"TRACE_ACCEPTED", Len(Rec)>>)
    ELSE PrintT(<<"TRACE_REJECTED", d, ToJson(Rec[d])>>) /\ FALSE

View == <<dg, kb, l, bad>>
=============================================================================
