CONSTANTS
  AbsN = 0
  AbsKh = 5
SPECIFICATION TraceSpec
INVARIANTS DriverOK GhostWrithe GhostComps
POSTCONDITION TraceAccepted
VIEW View
CHECK_DEADLOCK FALSE
