CONSTANTS
  MaxLen = 64
  WordLen = 64
  NReg = 3
SPECIFICATION TraceSpec
INVARIANTS LenOK
POSTCONDITION TraceAccepted
CHECK_DEADLOCK FALSE
