CONSTANTS
  AbsN = 5
SPECIFICATION TraceSpec
INVARIANTS DriverOK KTypeOK SSOK
POSTCONDITION TraceAccepted
VIEW View
CHECK_DEADLOCK FALSE
