---------------------------- MODULE Trace_ChainCx ---------------------------
(* Trace validation for C05: every complex KhComplex::<R>::new returned must be a Cx step of ChainCx.tla
   (shape, degree +1, d_matrix = d(i,.), d*d = 0 over the ring, q-homogeneity with deg H = -2, deg T = -4,
   and agreement of its homology with every recorded polynomial complex specialised at its (h,t)). *)
EXTENDS ChainCxEv, Json, IOUtils

Rec == ndJsonDeserialize(IOEnv.TRACE)

VARIABLES l, bad
tvars == <<lk, polys, l, bad>>

TraceInit == CInit /\ l = 1 /\ bad = FALSE

TraceNext ==
    /\ l <= Len(Rec)
    /\ ~bad
    /\ LET e == Rec[l] IN
         IF CPre(e) THEN CStep(e) /\ bad' = FALSE
         ELSE bad' = TRUE /\ UNCHANGED <<lk, polys>>
    /\ l' = l + 1

TraceSpec == TraceInit /\ [][TraceNext]_tvars

DriverOK == ~bad

Brief(e) == [op |-> e.op, name |-> e.name, ring |-> IF e.op = "cx" THEN e.ring ELSE "", red |-> IF e.op = "cx" THEN e.red ELSE FALSE,
             h |-> IF e.op = "cx" THEN ToString(e.h) ELSE "", t |-> IF e.op = "cx" THEN ToString(e.t) ELSE "", res |-> e.res]
TraceAccepted ==
    LET d == TLCGet("stats").diameter IN
    IF d - 1 = Len(Rec) THEN PrintT(<<"TRACE_ACCEPTED", Len(Rec)>>)
    ELSE PrintT(<<"TRACE_REJECTED", d, ToJson([e |-> Brief(Rec[d]), why |-> Why(Rec, d)])>>) /\ FALSE
=============================================================================
