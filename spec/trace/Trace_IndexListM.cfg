SPECIFICATION TraceSpec
INVARIANT Bijection
POSTCONDITION TraceAccepted
CHECK_DEADLOCK FALSE
