----------------------------- MODULE Trace_GridM -----------------------------
EXTENDS GridEv, Json, IOUtils, TLC
Rec == ndJsonDeserialize(IOEnv.TRACE)
VARIABLE l
tvars == <<supp, data, dflt, l>>
TraceInit == Init /\ l = 1
TraceNext == l <= Len(Rec) /\ Step(Rec[l]) /\ l' = l + 1
TraceSpec == TraceInit /\ [][TraceNext]_tvars
TraceAccepted ==
    LET d == TLCGet("stats").diameter IN
    IF d - 1 = Len(Rec) THEN PrintT(<<"TRACE_ACCEPTED", Len(Rec)>>)
    ELSE PrintT(<<"TRACE_REJECTED", d, ToJson(Rec[d])>>) /\ FALSE
=============================================================================
