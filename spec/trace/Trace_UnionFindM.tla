-------------------------- MODULE Trace_UnionFindM --------------------------
EXTENDS UnionFindM, Json, IOUtils, TLC
Rec == ndJsonDeserialize(IOEnv.TRACE)
VARIABLE l
tvars == <<n, cls, l>>
Step(e) == e.res = "ok" /\
    CASE e.op = "new"     -> New(e.n)
      [] e.op = "extend"  -> Extend(e.l)
      [] e.op = "union"   -> Union(e.i, e.j)
      [] e.op = "is_same" -> IsSame(e.i, e.j, e.out)
      [] e.op = "roots"   -> Roots(e.out)
      [] e.op = "group"   -> Group(e.out)
      [] OTHER -> FALSE
TraceInit == Init /\ l = 1
TraceNext == l <= Len(Rec) /\ Step(Rec[l]) /\ l' = l + 1
TraceSpec == TraceInit /\ [][TraceNext]_tvars
TraceAccepted ==
    LET d == TLCGet("stats").diameter IN
    IF d - 1 = Len(Rec) THEN PrintT(<<"TRACE_ACCEPTED", Len(Rec)>>)
    ELSE PrintT(<<"TRACE_REJECTED", d, ToJson(Rec[d])>>) /\ FALSE
=============================================================================
