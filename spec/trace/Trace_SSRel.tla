----------------------------- MODULE Trace_SSRel ----------------------------
(* Trace validation for C06: a recorded history of knot diagrams (isotopy moves, reversal, mirror, crossing
   changes) with the values of ss_invariant after every step must be a behaviour of SSRelations.tla; recorded
   canonical cycles with the differentials around degree 0 must satisfy LeeCanon.tla, recorded Lee / Bar-Natan
   homology must be free of rank 2^components.  Every moved diagram is re-derived from Moves.tla.
   A driver that issues a call outside its documented precondition sets `bad` (tool error, not a verdict). *)
EXTENDS SSRelEv, Json, IOUtils

Rec == ndJsonDeserialize(IOEnv.TRACE)

VARIABLES l, bad
tvars == <<dg, wr, nc, out, res, jp, bw, ssv, l, bad>>

TraceInit == SInit /\ l = 1 /\ bad = FALSE

TraceNext ==
    /\ l <= Len(Rec)
    /\ ~bad
    /\ LET e == Rec[l] IN
         IF SPre(e)
         THEN /\ SStep(e)
              /\ dg' = e.d
              /\ res' = e.res
              /\ bad' = FALSE
         ELSE /\ bad' = TRUE
              /\ UNCHANGED <<dg, wr, nc, out, res, jp, bw, ssv>>
    /\ l' = l + 1

TraceSpec == TraceInit /\ [][TraceNext]_tvars

DriverOK == ~bad

TraceAccepted ==
    LET d == TLCGet("stats").diameter IN
    IF d - 1 = Len(Rec) THEN PrintT(<<"TRACE_ACCEPTED", Len(Rec)>>)
    ELSE PrintT(<<"TRACE_REJECTED", d, ToJson(Rec[d])>>) /\ FALSE

View == <<dg, bw, ssv, l, bad>>
=============================================================================
