SPECIFICATION TraceSpec
INVARIANT DriverOK
POSTCONDITION TraceAccepted
CHECK_DEADLOCK FALSE
