SPECIFICATION TraceSpec
INVARIANTS DriverOK KeysOK EulerOK
POSTCONDITION TraceAccepted
VIEW View
CHECK_DEADLOCK FALSE
