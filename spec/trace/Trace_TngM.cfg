SPECIFICATION TraceSpec
INVARIANT TangleOK
POSTCONDITION TraceAccepted
CHECK_DEADLOCK FALSE
