---------------------------- MODULE Trace_PolyAlg ----------------------------
(* Trace validation for C16: every recorded call of the real polynomial / Lc types must be the
   corresponding action of PolyAlg.tla - the stored term list, the derived observations and every
   returned value must be those of the mathematical polynomial the specification computes. *)
EXTENDS PolyAlgEv, Json, IOUtils, TLC
Rec == ndJsonDeserialize(IOEnv.TRACE)
VARIABLE l
tvars == <<R, reg, out, l>>
TraceInit == Init /\ l = 1
TraceNext == l <= Len(Rec) /\ Step(Rec[l]) /\ l' = l + 1
TraceSpec == TraceInit /\ [][TraceNext]_tvars
TraceAccepted ==
    LET d == TLCGet("stats").diameter IN
    IF d - 1 = Len(Rec) THEN PrintT(<<"TRACE_ACCEPTED", Len(Rec)>>)
    ELSE PrintT(<<"TRACE_REJECTED", d, ToJson(Rec[d])>>) /\ FALSE
=============================================================================
