CONSTANTS
  AbsN = 0
  AbsSS = 7
SPECIFICATION TraceSpec
INVARIANTS DriverOK GhostWrithe GhostComps
POSTCONDITION TraceAccepted
VIEW View
CHECK_DEADLOCK FALSE
