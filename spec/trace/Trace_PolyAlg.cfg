CONSTANTS
  NReg = 4
SPECIFICATION TraceSpec
INVARIANTS CanonInv ExpInv
POSTCONDITION TraceAccepted
CHECK_DEADLOCK FALSE
