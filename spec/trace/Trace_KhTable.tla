---------------------------- MODULE Trace_KhTable ---------------------------
(* Trace validation for C02: a recorded history (load / closure, then moves, the library's bigraded Khovanov
   tables after every step) must be a behaviour of KhTable.tla: every move is re-derived on the PD code
   (kinks, Reidemeister 2, renumbering, reordering, reversal, mirror) or re-checked (word moves and the closure
   contract), every table must equal the one the history predicts (unchanged by isotopies and reversal,
   dualised by mirror), and for diagrams with at most AbsKh crossings the table of the definition.
   A driver that issues a call outside its documented precondition sets `bad` (tool error, not a verdict). *)
EXTENDS KhTableEv, Json, IOUtils

Rec == ndJsonDeserialize(IOEnv.TRACE)

VARIABLES l, bad
tvars == <<dg, wr, nc, out, res, jp, bw, kt, l, bad>>

TraceInit == KInit /\ l = 1 /\ bad = FALSE

TraceNext ==
    /\ l <= Len(Rec)
    /\ ~bad
    /\ LET e == Rec[l] IN
         IF KPre(e)
         THEN /\ KStep(e)
              /\ dg' = e.d
              /\ res' = e.res
              /\ bad' = FALSE
         ELSE /\ bad' = TRUE
              /\ UNCHANGED <<dg, wr, nc, out, res, jp, bw, kt>>
    /\ l' = l + 1

TraceSpec == TraceInit /\ [][TraceNext]_tvars

DriverOK == ~bad

TraceAccepted ==
    LET d == TLCGet("stats").diameter IN
    IF d - 1 = Len(Rec) THEN PrintT(<<"TRACE_ACCEPTED", Len(Rec)>>)
    ELSE PrintT(<<"TRACE_REJECTED", d, ToJson(Rec[d])>>) /\ FALSE

View == <<dg, bw, kt, l, bad>>
=============================================================================
