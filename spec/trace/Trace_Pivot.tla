----------------------------- MODULE Trace_Pivot -----------------------------
(* Trace validation for C11: the events recorded at the schedule / linearization points of the real
   parallel pivot search must be a behaviour of Pivot.tla (candidate choices bound from the log), with
   DistinctRows / DistinctCols / CondOK / Acyclic evaluated after every event, and the returned list
   must satisfy the result contract. *)
EXTENDS Pivot, Json, IOUtils, TLC

Rec == ndJsonDeserialize(IOEnv.TRACE)
VARIABLE l
tvars == <<Ent, CandEnt, piv, pc, seen, cand, marked, l>>

Pairs(s) == {<<s[k][1], s[k][2]>> : k \in 1..Len(s)}
ToSeq(s) == [k \in 1..Len(s) |-> <<s[k][1], s[k][2]>>]
Set(s)   == {s[k] : k \in 1..Len(s)}

TInit(e) == /\ Ent' = Pairs(e.ent) /\ CandEnt' = Pairs(e.cand) /\ piv' = ToSeq(e.piv0)
            /\ pc' = [r \in Rows |-> IF r \in Set(e.tasks) THEN "idle" ELSE "done"]
            /\ seen' = [r \in Rows |-> 0] /\ cand' = [r \in Rows |-> 0] /\ marked' = [r \in Rows |-> {}]
            /\ Pairs(e.cand) \subseteq Pairs(e.ent)
\* the snapshot is read under the read lock but logged just after releasing it: seen <= Len(piv)
TStarted(e) == LET r == e.row IN
            /\ pc[r] = "idle" /\ e.seen <= Len(piv)
            /\ seen' = [seen EXCEPT ![r] = e.seen] /\ pc' = [pc EXCEPT ![r] = "search"]
            /\ UNCHANGED <<piv, cand, marked>> /\ Fixed
TChosen(e) == LET r == e.row  p == Prefix(piv, seen[r]) IN
            /\ pc[r] = "search" /\ e.cand \in Cands(p, r)
            /\ cand' = [cand EXCEPT ![r] = e.cand] /\ marked' = [marked EXCEPT ![r] = Marked(p, r)]
            /\ pc' = [pc EXCEPT ![r] = "chosen"]
            /\ UNCHANGED <<piv, seen>> /\ Fixed
TNoCand(e) == LET r == e.row IN
            /\ pc[r] = "search" /\ Cands(Prefix(piv, seen[r]), r) = {}
            /\ pc' = [pc EXCEPT ![r] = "done"]
            /\ UNCHANGED <<piv, seen, cand, marked>> /\ Fixed
\* a retry needs new pivots (a harmless extra retry is no alarm; an omitted one is caught by TCommit)
TRetry(e) == LET r == e.row IN
            /\ pc[r] = "chosen" /\ Len(piv) > seen[r] /\ e.seen = Len(piv)
            /\ seen' = [seen EXCEPT ![r] = Len(piv)] /\ pc' = [pc EXCEPT ![r] = "search"]
            /\ UNCHANGED <<piv, cand, marked>> /\ Fixed
TCommit(e) == Commit(e.row) /\ e.col = cand[e.row] /\ e.index = Len(piv) + 1
TResult(e) == /\ e.res = "ok"
              /\ \A r \in Rows : pc[r] = "done"
              /\ Set(ToSeq(e.pivots)) = PivSet(piv)
              /\ PivotResult(ToSeq(e.pivots))
              /\ UNCHANGED vars

Step(e) == CASE e.op = "init"    -> TInit(e)
             [] e.op = "started" -> TStarted(e)
             [] e.op = "chosen"  -> TChosen(e)
             [] e.op = "nocand"  -> TNoCand(e)
             [] e.op = "retry"   -> TRetry(e)
             [] e.op = "commit"  -> TCommit(e)
             [] e.op = "result"  -> TResult(e)
             [] OTHER -> FALSE

TraceInit == /\ Ent = {} /\ CandEnt = {} /\ piv = <<>> /\ pc = [r \in Rows |-> "done"] /\ seen = [r \in Rows |-> 0]
             /\ cand = [r \in Rows |-> 0] /\ marked = [r \in Rows |-> {}] /\ l = 1
TraceNext == l <= Len(Rec) /\ Step(Rec[l]) /\ l' = l + 1
TraceSpec == TraceInit /\ [][TraceNext]_tvars
TraceAccepted ==
    LET d == TLCGet("stats").diameter IN
    IF d - 1 = Len(Rec) THEN PrintT(<<"TRACE_ACCEPTED", Len(Rec)>>)
    ELSE PrintT(<<"TRACE_REJECTED", d, ToJson(Rec[d])>>) /\ FALSE
=============================================================================
