---------------------------- MODULE Trace_KhICone ----------------------------
(* Trace validation for C19: every recorded call (loading a symmetric code, re-listing its crossings, mirroring,
   the second symmetric numbering, building the involutive complex over F2 or F2[H] by any builder variant, building
   the ordinary complex by the symmetric or the ordinary builder, the bigraded table, the pair of s-type invariants)
   must be the corresponding action of KhICone.tla / SSIRelations.tla; the recorded data of the link object must be
   the diagram the action yields.  A driver that issues a call outside its documented precondition sets `bad`
   (tool error, not a verdict). *)
EXTENDS KhIConeEv, Json, IOUtils

Rec == ndJsonDeserialize(IOEnv.TRACE)

VARIABLES l, bad
tvars == <<dg, wr, nc, out, res, kt, ss, l, bad>>

TraceInit == KInit /\ l = 1 /\ bad = FALSE

TraceNext ==
    /\ l <= Len(Rec)
    /\ ~bad
    /\ LET e == Rec[l] IN
         IF KPre(e)
         THEN /\ KStep(e)
              /\ dg' = e.d
              /\ res' = e.res
              /\ bad' = FALSE
         ELSE /\ bad' = TRUE
              /\ UNCHANGED <<dg, wr, nc, out, res, kt, ss>>
    /\ l' = l + 1

TraceSpec == TraceInit /\ [][TraceNext]_tvars

DriverOK == ~bad

TraceAccepted ==
    LET d == TLCGet("stats").diameter IN
    IF d - 1 = Len(Rec) THEN PrintT(<<"TRACE_ACCEPTED", Len(Rec)>>)
    ELSE PrintT(<<"TRACE_REJECTED", d, ToJson(Rec[d])>>) /\ FALSE

View == <<dg, kt, ss, l, bad>>
=============================================================================
