----------------------------- MODULE SignFmtEv -----------------------------
(* event -> action map for recorded calls of yui::Sign and the format helpers *)
EXTENDS SignFmt
Step(e) ==
    IF e.res = "ok" THEN
        CASE e.op = "reset"        -> Call(TRUE)
          [] e.op = "sign_from"    -> Call(FromIntOK(e.v) /\ e.out = e.v)
          [] e.op = "sign_neg"     -> Call(e.s \in Signs /\ e.out = SignNeg(e.s))
          [] e.op = "sign_is"      -> Call(e.s \in Signs /\ e.pos = (e.s = 1) /\ e.neg = (e.s = -1))
          [] e.op = "sign_parity"  -> Call(e.out = SignOfParity(e.n))
          [] e.op = "sign_of"      -> Call(GetSignOK(e.x, e.out))
          [] e.op = "sign_cmp"     -> Call(e.out = SignCmp(e.a, e.b))
          [] e.op = "sign_show"    -> Call(e.out = SignShown(e.s) /\ e.dbg = SignShown(e.s))
          [] e.op = "sign_default" -> Call(e.out = 1)
          [] e.op = "subscript"    -> Call(e.out = Subscript(e.n))
          [] e.op = "superscript"  -> Call(e.out = Superscript(e.n))
          [] e.op = "paren_expr"   -> Call(e.out = ParenExpr(e.s))
          [] e.op = "lc"           -> Call(e.out = LcShown(e.terms))
          [] OTHER -> FALSE
    ELSE IF e.res = "panic" THEN
        CASE e.op = "sign_from" -> Call(~FromIntOK(e.v))
          [] OTHER -> FALSE
    ELSE FALSE
=============================================================================
