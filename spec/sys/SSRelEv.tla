------------------------------- MODULE SSRelEv ------------------------------
(* Event view of SSRelations.tla / LeeCanon.tla.  Move events carry res, d (data of the link object after the call) and
   ss: the values ss_invariant returned for that object, a sequence of [c, red, ring, v, ok, ovf].  Observer events:
   "canon" [h, red, n0, zs, hdegs, dm1, d0]   canonical cycles of KhComplex::new(l, h, 0, red) with the two differentials
   "lee"   [ring, h, t, rows]                 ranks / torsion per degree of KhHomology::new(l, h, t, false). *)
EXTENDS SSRelations

SPre(e) == CASE e.op \in MoveOps -> MPre(e) /\ SSPre(e.ss) /\ (Len(e.ss) > 0 => Cardinality(Components(e.d)) = 1)
             [] e.op = "canon"   -> nc = 1 /\ MatShapeOK(e.dm1, e.n0, IF e.n0 = 0 THEN 0 ELSE Len(e.dm1[1]))
                                    /\ \A i \in 1..Len(e.d0) : Len(e.d0[i]) = e.n0
             [] e.op = "lee"     -> <<e.ring, e.h, e.t>> \in LeeParams
             [] OTHER -> TRUE

SStep(e) ==
    /\ e.res = "ok"
    /\ UNCHANGED jp
    /\ CASE e.op = "reset"    -> MReset /\ ssv' = [x \in {} |-> 0]
         [] e.op \in MoveOps  -> \E xs \in {IF MClass(e) = "xch" THEN XSignOf(e) ELSE 0} :
                                    MStep(e) /\ SSObs(e.ss, MClass(e), xs, e.d)
         [] e.op = "canon"    -> UNCHANGED svars /\ CanonOK(e.h, e.red, e.n0, e.zs, e.hdegs, e.dm1, e.d0)
         [] e.op = "lee"      -> UNCHANGED svars /\ LeeRankOK(e.rows, nc)
         [] OTHER -> FALSE
=============================================================================
