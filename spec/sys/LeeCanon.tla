------------------------------- MODULE LeeCanon ------------------------------
(***************************************************************************)
(* C06 (first half).  Canonical (Lee) cycles and the rank of the deformed  *)
(* theories.                                                               *)
(*                                                                         *)
(* Relational contracts on what the library reports for a knot diagram,    *)
(* t = 0, parameter h:                                                     *)
(*   zs    the canonical cycles as coordinate vectors in C^0 (the complex  *)
(*         the library returns, generators of homological degree 0)        *)
(*   d0    the matrix of d : C^0 -> C^1      (rows: generators of C^1)     *)
(*   dm1   the matrix of d : C^-1 -> C^0     (rows: generators of C^0)     *)
(*   CanonOK: every z has all its generators in h-degree 0, d0 z = 0, and  *)
(*   for h # 0 its class is not torsion: no multiple of z is a boundary,   *)
(*   i.e. rank [dm1 | z] = rank dm1 + 1.  There are 2 cycles (1 reduced).  *)
(* For any link: the homology with (h,t) = (1,0) over Z, or (0,1) over Q,  *)
(* is free of total rank 2^components  (LeeRankOK).                        *)
(* SpecCanon gives the canonical cycles in the spec's own cube of          *)
(* resolutions (KhSmall.tla): Seifert circles two-coloured, X on one       *)
(* colour and X - h on the other; MC_SSRel checks the contract on them.    *)
(***************************************************************************)
EXTENDS Moves

\* ---------------------------------------------------------------- linear algebra on recorded matrices
MatVec(A, v)  == [i \in 1..Len(A) |-> SumSeq([j \in 1..Len(v) |-> A[i][j] * v[j]])]
IsZeroVec(v)  == \A i \in 1..Len(v) : v[i] = 0
Augment(A, z) == TLCEval([i \in 1..Len(z) |-> TLCEval(Append(A[i], z[i]))])        \* A has Len(z) rows
NonTorsion(dm1, z) == \E A \in {Augment(dm1, z)} : LA!RankZ(A) = LA!RankZ(dm1) + 1
MatShapeOK(A, m, n) == Len(A) = m /\ \A i \in 1..m : Len(A[i]) = n

\* zs: sequence of vectors of length n0; hdegs[k]: the set (sequence) of h-degrees of the generators of zs[k]
CanonOK(h, red, n0, zs, hdegs, dm1, d0) ==
    /\ Len(zs) = (IF red THEN 1 ELSE 2) /\ Len(hdegs) = Len(zs)
    /\ \A k \in 1..Len(zs) :
          /\ Len(zs[k]) = n0
          /\ \A m \in 1..Len(hdegs[k]) : hdegs[k][m] = 0
          /\ IsZeroVec(MatVec(d0, zs[k]))
          /\ (h # 0) => NonTorsion(dm1, zs[k])

\* rows: sequence of <<i, rank, tors>> (tors: sequence) over the degrees of the support
LeeRankOK(rows, ncomp) ==
    /\ \A k \in 1..Len(rows) : rows[k][2] >= 0 /\ rows[k][3] = <<>>
    /\ SumSeq([k \in 1..Len(rows) |-> rows[k][2]]) = 2 ^ ncomp
LeeParams == {<<"Z", 1, 0>>, <<"Q", 0, 1>>}

\* ---------------------------------------------------------------- the canonical cycles of the definition (knot, t = 0)
\* Seifert state, its circles (sequence), adjacency through crossings, two-colouring by distance from the base circle
SeifertOf(D) == SeifertStateOf(CHOOSE sg \in AdmSigns(D) : TRUE)
CircAdj(D, s, cs) ==
    {<<a, b>> \in (1..Len(cs)) \X (1..Len(cs)) :
        a # b /\ \E i \in 1..Len(D) : \E p1, p2 \in SmoothPairs(D[i], s[i]) : p1 # p2 /\ p1[1] \in cs[a] /\ p2[1] \in cs[b]}
RECURSIVE ColourFrom(_, _, _, _, _)
ColourFrom(adj, done, frontier, c, col) ==
    IF frontier = {} THEN col
    ELSE LET nxt == {p[2] : p \in {p \in adj : p[1] \in frontier}} \ done
         IN  ColourFrom(adj, done \cup nxt, nxt, 1 - c, [x \in (DOMAIN col) \cup nxt |-> IF x \in DOMAIN col THEN col[x] ELSE 1 - c])
\* coefficient of the labelling lab in  (x)_C (X if col[C] = o else X - h)
CanonCoef(h, o, col, lab) ==
    LET f(c) == IF col[c] = o THEN (IF lab[c] = 1 THEN 1 ELSE 0) ELSE (IF lab[c] = 1 THEN 1 ELSE -h)
        RECURSIVE Prod(_)
        Prod(c) == IF c = 0 THEN 1 ELSE f(c) * Prod(c - 1)
    IN  Prod(Len(lab))
\* the cycle number o (0: base circle carries X; 1: base circle carries X - h) as a function on the generators of the cube
SpecCanon(D, cube, h, base, o) ==
    LET s   == SeifertOf(D)
        cs  == cube.circ[s]
        b0  == CHOOSE c \in 1..Len(cs) : base \in cs[c]
        col == ColourFrom(CircAdj(D, s, cs), {b0}, {b0}, 0, [x \in {b0} |-> 0])
    IN  [g \in cube.gens |-> IF g[1] = s THEN CanonCoef(h, o, col, g[2]) ELSE 0]
\* the contract evaluated on the definition: G0, Gm1, G1 the generators of degree 0, -1, 1 (sequences)
SpecCanonOK(D, h, red) ==
    LET base == MinOfSet(Edges(D)) IN
    \E cube \in {Cube(D, h, 0, IF red THEN base ELSE NoBase)} :
    \E G0 \in {SetToSeq({g \in cube.gens : cube.hd[g] = 0})}, Gm \in {SetToSeq({g \in cube.gens : cube.hd[g] = -1})}, G1 \in {SetToSeq({g \in cube.gens : cube.hd[g] = 1})} :
    \E d0 \in {DMat(cube.out, G1, G0)}, dm1 \in {DMat(cube.out, G0, Gm)} :
        LET zf(o) == SpecCanon(D, cube, h, base, o)
            zv(o) == TLCEval([k \in 1..Len(G0) |-> zf(o)[G0[k]]])
            zs    == IF red THEN <<zv(0)>> ELSE <<zv(0), zv(1)>>
        IN  /\ \A o \in {0, 1} : \A g \in cube.gens : zf(o)[g] # 0 => cube.hd[g] = 0
            /\ CanonOK(h, red, Len(G0), zs, [k \in 1..Len(zs) |-> <<0>>], dm1, d0)
            /\ \A k \in 1..Len(zs) : ~IsZeroVec(zs[k])
=============================================================================
