------------------------------- MODULE SnfEv -------------------------------
(* C09: the recorded call snf(A, flags) as an action. *)
EXTENDS SNF, Decode
VARIABLES calls, sig
evars == <<calls, sig>>
SmallDim(A) == A.m <= 4 /\ A.n <= 4
Snf(R, A, has, D, tp, tpi, tq, tqi, ch, id, minors) ==
    /\ D.m = A.m /\ D.n = A.n /\ MShapeOK(D)
    /\ DiagOK(R, D, ch)
    /\ TransOK(R, A, D, has, tp, tpi, tq, tqi)
    /\ SmallDim(A) =>
         /\ RankOf(R, D) = RankByMinors(R, A)
         /\ has[1] => RIsUnit(R, MDet(R, tp))
         /\ has[2] => RIsUnit(R, MDet(R, tpi))
         /\ has[3] => RIsUnit(R, MDet(R, tq))
         /\ has[4] => RIsUnit(R, MDet(R, tqi))
    /\ minors => MinorsOK(A, D)
    \* the same diagonal whatever subset of the transforms was requested
    /\ IF id \in DOMAIN sig THEN MSame(R, sig[id], D) /\ UNCHANGED sig
       ELSE sig' = [x \in DOMAIN sig \cup {id} |-> IF x = id THEN D ELSE sig[x]]
    /\ calls' = calls + 1
Step(e) == e.res = "ok" /\ LET R == e.ring IN
    CASE e.op = "snf" -> Snf(R, DM(R, e.a), e.has, DM(R, e.d), DM(R, e.p), DM(R, e.pinv), DM(R, e.q), DM(R, e.qinv), DS(R, e.ch), e.id, e.minors)
      [] e.op = "newcase" -> calls' = calls /\ sig' = [x \in {} |-> 0]
      [] OTHER -> FALSE
Init == calls = 0 /\ sig = [x \in {} |-> 0]
=============================================================================
