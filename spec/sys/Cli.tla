-------------------------------- MODULE Cli --------------------------------
(***************************************************************************)
(* C20.  The `ykh` command line (sub-commands kh, ckh) as a decision table. *)
(*                                                                         *)
(* One invocation = one action.  Its parameters are the abstract point      *)
(*   (cmd, ctype, cvalue, mirror, reduced, inputClass)                      *)
(* and its observable is (exit status class, stdout class, message?) plus,  *)
(* for a table, the printed cells.  `Outcome` says what the command has to  *)
(* do at a point: report an error, or print the 2-D (i,j) table / the 1-D   *)
(* sequence / the generator table of the library's result for the ring and  *)
(* the pair (h,t) that the options denote.  The second half of the module   *)
(* is the grammar of a printed cell (`Z`, `Z^2`, `(Z/2)`, `(Z/2)^3`, ` (+) `,    *)
(* `.`): `Denote` parses a token sequence into (symbol, rank, bag of        *)
(* torsion orders), `Render` is its inverse, `TableMatches` compares a      *)
(* printed table with the groups the library returned.                      *)
(*                                                                         *)
(* A coefficient value (the string after -c) is a sequence of tokens; the   *)
(* string is the tokens joined by ",".  A token is                          *)
(*   [k |-> "int", v |-> n, d |-> 1, x |-> "", canon |-> B]  integer literal *)
(*        (canon: spelled as the canonical decimal, e.g. "0" and not "00")  *)
(*   [k |-> "rat", v |-> p, d |-> q, ...]                     "p/q"          *)
(*   [k |-> "var", x |-> "H" | "T", ...]                      the letter     *)
(*   [k |-> "junk", ...]                                      anything else  *)
(***************************************************************************)
EXTENDS Integers, Sequences, FiniteSets

Cmds   == {"kh", "ckh"}
CTypes == {"Z", "Q", "F2", "F3"}

\* input classes of the LINK argument
Loadable   == {"knot", "link", "pd", "file", "empty"}   \* a diagram is obtained
Unloadable == {"unknown", "garbage", "notpd", "badfile", "badpd"}  \* no diagram: unknown name, not JSON, JSON that is
                                                                  \* no PD code, unreadable file, PD-shaped code in which
                                                                  \* a label does not occur exactly twice
InputClasses == Loadable \cup Unloadable

IntTok(n)  == [k |-> "int", v |-> n, d |-> 1, x |-> "", canon |-> TRUE]
IntTokNC(n) == [k |-> "int", v |-> n, d |-> 1, x |-> "", canon |-> FALSE]
RatTok(p,q) == [k |-> "rat", v |-> p, d |-> q, x |-> "", canon |-> TRUE]
VarTok(x)  == [k |-> "var", v |-> 0, d |-> 1, x |-> x, canon |-> TRUE]
JunkTok    == [k |-> "junk", v |-> 0, d |-> 1, x |-> "", canon |-> TRUE]
ZeroTok    == IntTok(0)

\* ------------------------------------------------------------ ring selection
HasVar(cv, x) == \E i \in 1..Len(cv) : cv[i].k = "var" /\ cv[i].x = x
PolyVars(cv)  == IF HasVar(cv, "H") THEN (IF HasVar(cv, "T") THEN "HT" ELSE "H")
                 ELSE (IF HasVar(cv, "T") THEN "T" ELSE "none")

\* the coefficient ring: base ring of -t, extended by the letters that occur in -c
RingOf(ctype, cv) == [base |-> ctype, vars |-> PolyVars(cv)]

IsField(base)   == base \in {"Q", "F2", "F3"}
\* homology needs a Euclidean domain: Z, a field, or one variable over a field.
\* Z[H], Z[T] and everything in two variables are not.
Euclidean(ring) == \/ ring.vars = "none"
                   \/ ring.vars \in {"H", "T"} /\ IsField(ring.base)
Supported(cmd, ring) == cmd = "ckh" \/ Euclidean(ring)

VarsOf(ring) == CASE ring.vars = "H"  -> {"H"}
                  [] ring.vars = "T"  -> {"T"}
                  [] ring.vars = "HT" -> {"H", "T"}
                  [] OTHER            -> {}
Char(base) == CASE base = "F2" -> 2 [] base = "F3" -> 3 [] OTHER -> 0

\* ------------------------------------------------------------ parsing -c
\* does the token denote an element of the ring?
TokOK(tok, ring) ==
    CASE tok.k = "int" -> TRUE
      [] tok.k = "rat" -> ring.base = "Q"
      [] tok.k = "var" -> tok.x \in VarsOf(ring)
      [] OTHER         -> FALSE
\* a fraction with denominator 0 is an internal failure of the rational type
TokFails(tok, ring) == tok.k = "rat" /\ ring.base = "Q" /\ tok.d = 0

IsZeroIn(tok, ring) ==
    CASE tok.k = "int" -> IF Char(ring.base) = 0 THEN tok.v = 0 ELSE (tok.v % Char(ring.base)) = 0
      [] tok.k = "rat" -> tok.v = 0
      [] OTHER         -> FALSE

NoPair == [ok |-> FALSE, h |-> ZeroTok, t |-> ZeroTok]
ParsePair(cv, ring) ==
    IF Len(cv) = 1 /\ TokOK(cv[1], ring) THEN [ok |-> TRUE, h |-> cv[1], t |-> ZeroTok]
    ELSE IF Len(cv) = 2 /\ TokOK(cv[1], ring) /\ TokOK(cv[2], ring) THEN [ok |-> TRUE, h |-> cv[1], t |-> cv[2]]
    ELSE NoPair
PairFails(cv, ring) == \E i \in 1..Len(cv) : TokFails(cv[i], ring)

\* the literal strings "H" and "0,T" (documented as the bigraded Bar-Natan theories)
IsLitH(cv)  == Len(cv) = 1 /\ cv[1] = VarTok("H")
IsLit0T(cv) == Len(cv) = 2 /\ cv[1] = IntTok(0) /\ cv[2] = VarTok("T")

Bigraded(cv, p, ring) == \/ IsZeroIn(p.h, ring) /\ IsZeroIn(p.t, ring)
                         \/ IsLitH(cv) \/ IsLit0T(cv)

\* ------------------------------------------------------------ the decision table
Err(why) == [class |-> "Error", why |-> why]
Classes  == {"Error", "Table2D", "Seq1D", "GenTable"}
Whys     == {"unsupported", "parse", "internal", "reduced_t", "link", "-"}

Outcome(cmd, ctype, cv, mirror, reduced, ic) ==
    LET ring == RingOf(ctype, cv) IN
    IF ~Supported(cmd, ring) THEN Err("unsupported")
    ELSE LET p == ParsePair(cv, ring) IN
    IF ~p.ok THEN Err("parse")
    ELSE IF PairFails(cv, ring) THEN Err("internal")
    ELSE IF reduced /\ ~IsZeroIn(p.t, ring) THEN Err("reduced_t")
    ELSE IF ic \notin Loadable THEN Err("link")
    ELSE IF reduced /\ ic = "empty" THEN Err("internal")       \* no base point on the empty diagram
    ELSE [class |-> IF cmd = "ckh" THEN "GenTable"
                    ELSE IF Bigraded(cv, p, ring) THEN "Table2D" ELSE "Seq1D",
          why   |-> "-"]

(* The generator table of ckh.  The complex the library returns is the cube complex simplified by delooping and  *)
(* Gaussian elimination of invertible entries; which entries get eliminated is a free choice (it does vary from  *)
(* run to run).  What the parameters determine:                                                                    *)
(*  "exact"   h and t homogeneous for the quantum grading (each is zero in the ring, or h is the letter H of       *)
(*            degree -2, t the letter T of degree -4) over a field: only scalars are eliminated, each elimination  *)
(*            cancels generators at (i, j) and (i+1, j), and the result is the minimal graded complex, unique up   *)
(*            to isomorphism: the generator table is compared cell by cell.                                        *)
(*  "euler_q" homogeneous over Z: eliminations still preserve j, but which +-1 entries remain depends on the       *)
(*            order (pairs joined by a non-unit may survive): only  sum_i (-1)^i rank(i,j)  is determined, per j.  *)
(*  "euler"   otherwise eliminations cancel generators of different j: only  sum_{i,j} (-1)^i rank(i,j).           *)
Homogeneous(p, ring) == /\ IsZeroIn(p.h, ring) \/ p.h = VarTok("H")
                        /\ IsZeroIn(p.t, ring) \/ p.t = VarTok("T")
GenMode(ctype, cv) == LET ring == RingOf(ctype, cv) IN
                      IF ~Homogeneous(ParsePair(cv, ring), ring) THEN "euler"
                      ELSE IF IsField(ctype) THEN "exact" ELSE "euler_q"

\* what the library has to be asked for at a point that yields a table
LibCall(cmd, ctype, cv, mirror, reduced, ic) ==
    LET ring == RingOf(ctype, cv)
        p    == ParsePair(cv, ring) IN
    [ring |-> ring, h |-> p.h, t |-> p.t, mirror |-> mirror, reduced |-> reduced]

\* ------------------------------------------------------------ observables of one invocation
ExitClasses == {"zero", "nonzero"}
OutClasses  == {"none", "other", "table2d", "seq1d"}       \* stdout: empty / text that is no table / j\i table / i sequence
Observables == [exit : ExitClasses, out : OutClasses, msg : BOOLEAN]

StdoutOf(class) == CASE class = "Table2D" -> "table2d" [] class = "GenTable" -> "table2d" [] class = "Seq1D" -> "seq1d"

\* the property: an error point is an error result and never a table; a table point exits 0 with its kind of table
Conforms(o, obs) ==
    IF o.class = "Error" THEN obs.exit = "nonzero" /\ obs.out \in {"none", "other"} /\ obs.msg
    ELSE obs.exit = "zero" /\ obs.out = StdoutOf(o.class)

\* ------------------------------------------------------------ state machine
\* inv: the last invocation, obs: its observable, fail: the library itself failed (panicked) on the
\* parameters of a table point - an internal failure, decided by the environment, never by the options.
VARIABLES inv, obs, fail
vars == <<inv, obs, fail>>

NoInv == [cmd |-> "-"]
NoObs == [exit |-> "-", out |-> "-", msg |-> FALSE]
Init  == inv = NoInv /\ obs = NoObs /\ fail = FALSE

Point(cmd, ctype, cv, mirror, reduced, ic) ==
    [cmd |-> cmd, ctype |-> ctype, cv |-> cv, mirror |-> mirror, reduced |-> reduced, ic |-> ic]
OutcomeAt(p) == Outcome(p.cmd, p.ctype, p.cv, p.mirror, p.reduced, p.ic)

\* one run of the binary at point p with observable ob
InvokeErr(p, ob)      == OutcomeAt(p).class = "Error" /\ Conforms(OutcomeAt(p), ob) /\ inv' = p /\ obs' = ob /\ fail' = FALSE
InvokeTable(p, ob)    == OutcomeAt(p).class # "Error" /\ Conforms(OutcomeAt(p), ob) /\ inv' = p /\ obs' = ob /\ fail' = FALSE
InvokeInternal(p, ob) == OutcomeAt(p).class # "Error" /\ Conforms(Err("internal"), ob) /\ inv' = p /\ obs' = ob /\ fail' = TRUE

\* "never as a table"
ErrorNeverTable == inv # NoInv /\ (OutcomeAt(inv).class = "Error" \/ fail)
                     => obs.out \notin {"table2d", "seq1d"} /\ obs.exit = "nonzero" /\ obs.msg
TableExitsZero  == inv # NoInv /\ OutcomeAt(inv).class # "Error" /\ ~fail => obs.exit = "zero" /\ obs.out = StdoutOf(OutcomeAt(inv).class)

\* ------------------------------------------------------------ cells
(* A printed cell is lexed (by the harness) into tokens                     *)
(*   sym(s)  the ring symbol          sup(n)  a superscript number          *)
(*   op      " (+) "                    lp slash rp   "(", "/", ")"            *)
(*   tor(s)  the text between "/" and ")"                                    *)
(*   dot     "."        zero  "0"                                            *)
(* every token is [k |-> kind, s |-> string, n |-> number].                  *)
Tk(k, s, n) == [k |-> k, s |-> s, n |-> n]
TSym(s) == Tk("sym", s, 0)
TSup(n) == Tk("sup", "", n)
TOp     == Tk("op", "", 0)
TLp     == Tk("lp", "", 0)
TSlash  == Tk("slash", "", 0)
TTor(s) == Tk("tor", s, 0)
TRp     == Tk("rp", "", 0)
TDot    == Tk("dot", "", 0)
TZero   == Tk("zero", "", 0)

\* the zero group: ".", "0" or a blank cell
IsZeroCell(toks) == toks = <<>> \/ toks = <<TDot>> \/ toks = <<TZero>>

OpIdx(toks) == {i \in 1..Len(toks) : toks[i].k = "op"}
MinOf(S)    == CHOOSE x \in S : \A y \in S : x <= y
RECURSIVE SplitOp(_)
SplitOp(toks) == IF OpIdx(toks) = {} THEN <<toks>>
                 ELSE LET i == MinOf(OpIdx(toks)) IN
                      <<SubSeq(toks, 1, i-1)>> \o SplitOp(SubSeq(toks, i+1, Len(toks)))

Kinds(s) == [i \in 1..Len(s) |-> s[i].k]
BadSummand == [ok |-> FALSE, free |-> FALSE, sym |-> "", t |-> "", n |-> 0]
Summand(s) ==
    CASE Kinds(s) = <<"sym">>                          -> [ok |-> TRUE, free |-> TRUE,  sym |-> s[1].s, t |-> "", n |-> 1]
      [] Kinds(s) = <<"sym", "sup">> /\ s[2].n >= 2     -> [ok |-> TRUE, free |-> TRUE,  sym |-> s[1].s, t |-> "", n |-> s[2].n]
      [] Kinds(s) = <<"lp", "sym", "slash", "tor", "rp">> -> [ok |-> TRUE, free |-> FALSE, sym |-> s[2].s, t |-> s[4].s, n |-> 1]
      [] Kinds(s) = <<"lp", "sym", "slash", "tor", "rp", "sup">> /\ s[6].n >= 2
                                                        -> [ok |-> TRUE, free |-> FALSE, sym |-> s[2].s, t |-> s[4].s, n |-> s[6].n]
      [] OTHER -> BadSummand

\* bags of torsion orders: functions from a finite set of strings to positive multiplicities
EmptyBag == [x \in {} |-> 0]
BagOfSeq(q) == [x \in {q[i] : i \in 1..Len(q)} |-> Cardinality({i \in 1..Len(q) : q[i] = x})]

NoGroup == [ok |-> FALSE, sym |-> "", rank |-> 0, tors |-> EmptyBag]
\* meaning of a non-zero cell: free part first (at most once), then torsion summands with distinct orders
Denote(toks) ==
    LET parts == SplitOp(toks)
        ss    == [i \in 1..Len(parts) |-> Summand(parts[i])]
        n     == Len(ss)
        tix   == {i \in 1..n : ~ss[i].free} IN
    IF /\ n >= 1
       /\ \A i \in 1..n : ss[i].ok /\ ss[i].sym = ss[1].sym
       /\ \A i \in 2..n : ~ss[i].free
       /\ \A i, j \in tix : i # j => ss[i].t # ss[j].t
    THEN [ok |-> TRUE, sym |-> ss[1].sym, rank |-> IF ss[1].free THEN ss[1].n ELSE 0,
          tors |-> [x \in {ss[i].t : i \in tix} |-> LET i == CHOOSE i \in tix : ss[i].t = x IN ss[i].n]]
    ELSE NoGroup

\* inverse: the tokens of the group sym^rank (+) sum of (sym/t)^m, torsion in the order of the sequence `order`
Group(sym, rank, tors) == [ok |-> TRUE, sym |-> sym, rank |-> rank, tors |-> tors]
IsZeroGroup(g) == g.rank = 0 /\ DOMAIN g.tors = {}
FreeToks(sym, r) == IF r = 0 THEN <<>> ELSE IF r = 1 THEN <<TSym(sym)>> ELSE <<TSym(sym), TSup(r)>>
TorToks(sym, t, m) == <<TLp, TSym(sym), TSlash, TTor(t), TRp>> \o (IF m >= 2 THEN <<TSup(m)>> ELSE <<>>)
RECURSIVE JoinOp(_)
JoinOp(parts) == IF Len(parts) = 0 THEN <<>> ELSE IF Len(parts) = 1 THEN parts[1]
                 ELSE parts[1] \o <<TOp>> \o JoinOp(Tail(parts))
SelectSeq2(s, P(_)) == SelectSeq(s, P)
Render(g, order) ==
    LET present == SelectSeq2(order, LAMBDA t : t \in DOMAIN g.tors)
        torParts == [i \in 1..Len(present) |-> TorToks(g.sym, present[i], g.tors[present[i]])]
        parts == (IF g.rank > 0 THEN <<FreeToks(g.sym, g.rank)>> ELSE <<>>) \o torParts IN
    JoinOp(parts)

(* A printed table, as lexed by the harness:                                 *)
(*   cols  the column heads (integers), rows the row heads (<<0>> for the    *)
(*   1-D sequence), cells the non-blank, non-"." , non-"0" cells as          *)
(*   [c |-> column index, r |-> row index, tok |-> tokens], zeros the number *)
(*   of zero cells.                                                           *)
(* The library's answer: sym (symbol of the ring), cells = the non-zero      *)
(*   groups [i, j, rank, tors (sequence of strings, with repetition)].       *)
Distinct(s) == \A a, b \in 1..Len(s) : a # b => s[a] # s[b]
TableMatches(tab, lib) ==
    /\ Distinct(tab.cols) /\ Distinct(tab.rows)
    /\ Len(tab.cells) + tab.zeros = Len(tab.cols) * Len(tab.rows)
    /\ Len(tab.cells) = Len(lib.cells)
    /\ \A a, b \in 1..Len(tab.cells) : a # b => <<tab.cells[a].c, tab.cells[a].r>> # <<tab.cells[b].c, tab.cells[b].r>>
    /\ \A a, b \in 1..Len(lib.cells) : a # b => <<lib.cells[a].i, lib.cells[a].j>> # <<lib.cells[b].i, lib.cells[b].j>>
    /\ \A a \in 1..Len(lib.cells) :
          LET g == lib.cells[a] IN
          /\ g.rank > 0 \/ Len(g.tors) > 0
          /\ \E b \in 1..Len(tab.cells) :
                LET c == tab.cells[b] IN
                /\ c.c \in 1..Len(tab.cols) /\ c.r \in 1..Len(tab.rows)
                /\ tab.cols[c.c] = g.i /\ tab.rows[c.r] = g.j
                /\ Denote(c.tok) = Group(lib.sym, g.rank, BagOfSeq(g.tors))

\* ckh when the generator table is not determined by the parameters: a well-formed table of free groups over the
\* right ring with the library's Euler characteristic (total, or per quantum degree j)
Sign(i) == IF (i % 2) = 0 THEN 1 ELSE -1
RECURSIVE SumSeq(_)
SumSeq(q) == IF Len(q) = 0 THEN 0 ELSE Head(q) + SumSeq(Tail(q))
FreeTable(tab, lib) ==
    /\ Distinct(tab.cols) /\ Distinct(tab.rows)
    /\ Len(tab.cells) + tab.zeros = Len(tab.cols) * Len(tab.rows)
    /\ \A a, b \in 1..Len(tab.cells) : a # b => <<tab.cells[a].c, tab.cells[a].r>> # <<tab.cells[b].c, tab.cells[b].r>>
    /\ \A b \in 1..Len(tab.cells) :
          LET c == tab.cells[b]  g == Denote(c.tok) IN
          /\ c.c \in 1..Len(tab.cols) /\ c.r \in 1..Len(tab.rows)
          /\ g.ok /\ g.sym = lib.sym /\ g.rank > 0 /\ DOMAIN g.tors = {}
    /\ \A a \in 1..Len(lib.cells) : lib.cells[a].rank > 0 /\ Len(lib.cells[a].tors) = 0
\* Euler characteristic of the printed cells / the library's cells that satisfy the row filter P(j)
ChiTab(tab, P(_)) == SumSeq([b \in 1..Len(tab.cells) |-> IF P(tab.rows[tab.cells[b].r])
                                                          THEN Sign(tab.cols[tab.cells[b].c]) * Denote(tab.cells[b].tok).rank ELSE 0])
ChiLib(lib, P(_)) == SumSeq([a \in 1..Len(lib.cells) |-> IF P(lib.cells[a].j) THEN Sign(lib.cells[a].i) * lib.cells[a].rank ELSE 0])
EulerMatches(tab, lib)  == FreeTable(tab, lib) /\ ChiTab(tab, LAMBDA j : TRUE) = ChiLib(lib, LAMBDA j : TRUE)
EulerQMatches(tab, lib) == /\ FreeTable(tab, lib)
                           /\ \A j0 \in {tab.rows[r] : r \in 1..Len(tab.rows)} \cup {lib.cells[a].j : a \in 1..Len(lib.cells)} :
                                 ChiTab(tab, LAMBDA j : j = j0) = ChiLib(lib, LAMBDA j : j = j0)
GenMatches(mode, tab, lib) == CASE mode = "exact"   -> TableMatches(tab, lib)
                                [] mode = "euler_q" -> EulerQMatches(tab, lib)
                                [] mode = "euler"   -> EulerMatches(tab, lib)

TypeOK == /\ inv = NoInv \/ (inv.cmd \in Cmds /\ inv.ctype \in CTypes /\ inv.ic \in InputClasses)
          /\ obs = NoObs \/ obs \in Observables
          /\ fail \in BOOLEAN
=============================================================================
