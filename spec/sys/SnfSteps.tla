------------------------------ MODULE SnfSteps ------------------------------
(* C09, design level: the elementary-operation machine behind the Smith normal form routine. *)
EXTENDS Matrices

\* ---------------------------------------------------------------- (1) step machine
VARIABLES A0, T, P, Pi, Q, Qi
svars == <<A0, T, P, Pi, Q, Qi>>

StepInv(R) == /\ MSame(R, T, MMul(R, MMul(R, P, A0), Q))
              /\ MSame(R, MMul(R, P, Pi), MId(R, A0.m)) /\ MSame(R, MMul(R, Q, Qi), MId(R, A0.n))

SInit(R, A) == A0 = A /\ T = A /\ P = MId(R, A.m) /\ Pi = MId(R, A.m) /\ Q = MId(R, A.n) /\ Qi = MId(R, A.n)
SwapR(i, k)      == /\ T' = MSwapRows(T, i, k) /\ P' = MSwapRows(P, i, k) /\ Pi' = MSwapCols(Pi, i, k) /\ UNCHANGED <<A0, Q, Qi>>
SwapC(j, k)      == /\ T' = MSwapCols(T, j, k) /\ Q' = MSwapCols(Q, j, k) /\ Qi' = MSwapRows(Qi, j, k) /\ UNCHANGED <<A0, P, Pi>>
\* u a unit with inverse ui
MulR(R, i, u, ui) == /\ T' = MMulRow(R, T, i, u) /\ P' = MMulRow(R, P, i, u) /\ Pi' = MMulCol(R, Pi, i, ui) /\ UNCHANGED <<A0, Q, Qi>>
MulC(R, j, u, ui) == /\ T' = MMulCol(R, T, j, u) /\ Q' = MMulCol(R, Q, j, u) /\ Qi' = MMulRow(R, Qi, j, ui) /\ UNCHANGED <<A0, P, Pi>>
\* row k += x * row i
AddR(R, i, k, x) == /\ i # k /\ T' = MAddRowTo(R, T, i, k, x) /\ P' = MAddRowTo(R, P, i, k, x)
                    /\ Pi' = MAddColTo(R, Pi, k, i, RNeg(R, x)) /\ UNCHANGED <<A0, Q, Qi>>
AddC(R, j, k, x) == /\ j # k /\ T' = MAddColTo(R, T, j, k, x) /\ Q' = MAddColTo(R, Q, j, k, x)
                    /\ Qi' = MAddRowTo(R, Qi, k, j, RNeg(R, x)) /\ UNCHANGED <<A0, P, Pi>>
\* rows (i,k) <- [a b; c d](row_i, row_k) with ad - bc = 1; the inverse block is [d -b; -c a]
Rows2(R, M, i, k, a, b, c, d) == Mat(M.m, M.n, LAMBDA r, s :
       IF r = i THEN RAdd(R, RMul(R, a, M.a[i][s]), RMul(R, b, M.a[k][s]))
       ELSE IF r = k THEN RAdd(R, RMul(R, c, M.a[i][s]), RMul(R, d, M.a[k][s])) ELSE M.a[r][s])
Cols2(R, M, i, k, a, b, c, d) == Mat(M.m, M.n, LAMBDA r, s :
       IF s = i THEN RAdd(R, RMul(R, M.a[r][i], a), RMul(R, M.a[r][k], b))
       ELSE IF s = k THEN RAdd(R, RMul(R, M.a[r][i], c), RMul(R, M.a[r][k], d)) ELSE M.a[r][s])
BlockR(R, i, k, a, b, c, d) == /\ i # k /\ RSame(R, RSub(R, RMul(R, a, d), RMul(R, b, c)), ROne(R))
                               /\ T' = Rows2(R, T, i, k, a, b, c, d) /\ P' = Rows2(R, P, i, k, a, b, c, d)
                               /\ Pi' = Cols2(R, Pi, i, k, d, RNeg(R, c), RNeg(R, b), a) /\ UNCHANGED <<A0, Q, Qi>>
BlockC(R, i, k, a, b, c, d) == /\ i # k /\ RSame(R, RSub(R, RMul(R, a, d), RMul(R, b, c)), ROne(R))
                               /\ T' = Cols2(R, T, i, k, a, b, c, d) /\ Q' = Cols2(R, Q, i, k, a, b, c, d)
                               /\ Qi' = Rows2(R, Qi, i, k, d, RNeg(R, c), RNeg(R, b), a) /\ UNCHANGED <<A0, P, Pi>>

=============================================================================
