----------------------------- MODULE ChainRedEv -----------------------------
EXTENDS ChainRed
\* JSON: per-degree sequences indexed from lo; convert to functions over lo..hi (+1)
Fn(l, s) == [i \in l .. l + Len(s) - 1 |-> s[i - l + 1]]
DMs(ring, s) == [k \in 1..Len(s) |-> DM(ring, s[k])]
Vs(ring, l, s) == [i \in l .. l + Len(s) - 1 |-> DMs(ring, s[i - l + 1])]
Step(e) == e.res = "ok" /\
    CASE e.op = "cr_start"  -> Start(e.ring, e.lo, e.hi, Fn(e.lo, DMs(e.ring, e.d)), Vs(e.ring, e.lo, e.vecs))
      [] e.op = "cr_reduce" -> Reduce(Fn(lo, DMs(R, e.mats)), Fn(lo, DMs(R, e.f)), Fn(lo, DMs(R, e.b)), Vs(R, lo, e.vecs), e.withmaps)
      [] OTHER -> FALSE
=============================================================================
