------------------------------ MODULE Scalars ------------------------------
(***************************************************************************)
(* C14.  Register machine over the exact ring R (Rings.tla).  Every        *)
(* arithmetic call of the library on a scalar type is one action; the      *)
(* value v the library produced is a parameter of the action, which is     *)
(* enabled only if v denotes the mathematically exact result and is the    *)
(* canonical representative (lowest terms, positive denominator, residues  *)
(* in 0..p-1).  Comparisons must return the mathematical answer.           *)
(***************************************************************************)
EXTENDS Rings

CONSTANT NReg
VARIABLES R, reg, out
vars == <<R, reg, out>>
Regs == 0 .. NReg-1

Exact(op, a, b) == CASE op = "add" -> RAdd(R, a, b)
                     [] op = "sub" -> RSub(R, a, b)
                     [] op = "mul" -> RMul(R, a, b)

Good(v, w, raw) == RSame(R, v, raw) /\ RCanonW(R, v, w)
Store(d, v)  == reg' = [reg EXCEPT ![d] = v] /\ UNCHANGED R
Observe(o)   == out' = o /\ UNCHANGED <<R, reg>>

\* a new history: ring and register file given; every register must be canonical
Reset(ring, vals) == /\ R' = ring /\ reg' = [r \in Regs |-> vals[r+1]] /\ out' = "-"
                     /\ \A r \in Regs : RCanonW(ring, vals[r+1], <<>>)
\* +, -, * in any of the six operator forms (by value / by reference / assigning)
Bin(op, d, x, y, v, w) == Good(v, w, Exact(op, reg[x], reg[y])) /\ Store(d, v) /\ out' = "-"
Neg(d, x, v, w)        == Good(v, w, RNeg(R, reg[x])) /\ Store(d, v) /\ out' = "-"
Zero(d, v)             == Good(v, <<>>, RZero(R)) /\ Store(d, v) /\ out' = "-"
One(d, v)              == Good(v, <<>>, ROne(R)) /\ Store(d, v) /\ out' = "-"
\* construction from parts: an integer, or numerator/denominator for Q (raw is the
\* representative the arguments denote)
Load(d, raw, v, w)     == Good(v, w, raw) /\ Store(d, v) /\ out' = "-"
FromInt(d, n, v, w)    == Good(v, w, RFromBig(R, n)) /\ Store(d, v) /\ out' = "-"
\* ==, is_zero, is_one, and the order of Q
Eq(x, y, b)     == b = RSame(R, reg[x], reg[y]) /\ Observe(b)
IsZero(x, b)    == b = RIsZero(R, reg[x]) /\ Observe(b)
IsOne(x, b)     == b = RSame(R, reg[x], ROne(R)) /\ Observe(b)
Cmp(x, y, c)    == R.k = "Q" /\ c = QCmp(reg[x], reg[y]) /\ Observe(c)
CmpZ(x, y, c)   == R.k = "Z" /\ c = BCmp(reg[x], reg[y]) /\ Observe(c)

Init == R = RZ /\ reg = [r \in Regs |-> BZero] /\ out = "-"

\* every stored value is canonical, hence structural equality (what the library's derived
\* == compares) coincides with equality of ring elements
CanonInv == \A r \in Regs : RCanonW(R, reg[r], <<>>) \/ R.k = "Q"
EqInv    == \A x, y \in Regs : (reg[x] = reg[y]) <=> RSame(R, reg[x], reg[y])
=============================================================================
