------------------------------ MODULE ChainCxEv -----------------------------
(* Event view of ChainCx.tla.
     {"op":"link", "name":.., "n":.., "comps":.., "res":"ok"}
     {"op":"cx", "name":.., "ring":tag, "red":bool, "h":.., "t":.., "res":"ok"|"panic",
      "c":{"i0":.., "sup":[..], "ddeg":1, "ranks":[..], "g":[[[h,q],..],..], "d":[{"m","n","e":[[y,x,v],..]},..], "dz":[..], "dzp":[bool,..]}}
   Polynomial values are term lists [{"e":exponent(s), "c":coefficient}]. *)
EXTENDS ChainCx

\* what the driver promises: admissible parameters, the event belongs to the current link, and a numeric complex at
\* a non-zero point has at least one polynomial complex to be compared with
\* an i64 computation that left the range of the type (overflow checks are on in the harness): no complex, no claim
IsOverflow(e) == e.op = "cx" /\ e.res = "overflow" /\ e.ring \in {"Z", "ZH", "ZT", "ZHT"}

CPre(e) ==
    CASE e.op = "link" -> TRUE
      [] IsOverflow(e) -> TRUE
      [] e.op = "cx"   -> /\ e.name = lk /\ e.ring \in NumTags \cup PolyTags /\ ParamsOK(e.ring, e.h, e.t)
                          /\ (e.ring \in NumTags /\ (e.h # 0 \/ e.t # 0)) => Relevant(polys, e.ring, e.red, e.h, e.t) # {}
      [] e.op = "bigr" -> e.name = lk /\ e.h \in Int /\ e.t \in Int /\ e.route \in {"new", "into"}
      [] OTHER -> FALSE

CStep(e) ==
    \/ /\ e.res = "ok"
       /\ CASE e.op = "link" -> NewLink(e.name)
            [] e.op = "cx"   -> \E C \in {Dec(e.ring, e.c)} : Cx(e.ring, e.red, e.h, e.t, C)
            \* a bigraded complex over numeric parameters: whatever is handed out splits by (i, j) with a differential of
            \* bidegree (1, 0) (every term of d x lies in C[i+1, j]), d.d = 0 and its matrices can be assembled
            [] e.op = "bigr" -> e.homog = TRUE /\ e.dd0 = TRUE /\ UNCHANGED cvars
            [] OTHER -> FALSE
    \/ IsOverflow(e) /\ UNCHANGED cvars
    \* ... or the request is refused (numeric h, t of degree 0 make d inhomogeneous unless both vanish): never refused at (0, 0)
    \/ e.op = "bigr" /\ e.res = "rej" /\ (e.h # 0 \/ e.t # 0) /\ UNCHANGED cvars

\* ---- diagnosis of a rejected event from the accepted prefix
LastLink(Rec, d) == CHOOSE m \in 1..d : Rec[m].op = "link" /\ \A m2 \in (m + 1)..d : Rec[m2].op # "link"
PolysBefore(Rec, d) ==
    LET s == LastLink(Rec, d)
        M == SelectSeq([m \in 1..(d - 1 - s) |-> s + m], LAMBDA m : Rec[m].ring \in PolyTags)
    IN  [n \in 1..Len(M) |-> [tag |-> Rec[M[n]].ring, red |-> Rec[M[n]].red, h |-> Rec[M[n]].h, t |-> Rec[M[n]].t, C |-> Dec(Rec[M[n]].ring, Rec[M[n]].c)]]
Why(Rec, d) ==
    LET e == Rec[d] IN
    IF e.op # "cx" THEN {<<"op", "">>}
    ELSE IF e.res # "ok" THEN {<<"panic", "">>}
    ELSE Failing(PolysBefore(Rec, d), e.ring, e.red, e.h, e.t, Dec(e.ring, e.c))
=============================================================================
