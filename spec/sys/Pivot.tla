-------------------------------- MODULE Pivot --------------------------------
(***************************************************************************)
(* C11.  The parallel cycle-free pivot search of yui-matrix (after         *)
(* Bouillaguet-Delaplace-Voge), one action per critical section.           *)
(*                                                                         *)
(* Ent is the non-zero pattern in pivot orientation (rows are the search   *)
(* direction), CandEnt the entries that satisfy the pivot condition.       *)
(* `piv` is the shared pivot table in insertion order.  Every remaining    *)
(* row r is a task with a thread-local snapshot that is always a prefix of *)
(* the table (`seen[r]` = its length):                                      *)
(*   Start(r)   read lock:  catch the snapshot up                           *)
(*   Search(r)  no lock:    traverse from r through the snapshot's pivots,  *)
(*                          mark reached columns, pick an unmarked candidate*)
(*   Lock(r)    write lock: if a pivot committed since the snapshot lies in *)
(*                          a marked column -> Retry (catch up, search      *)
(*                          again), otherwise Commit <<r, cand>>.           *)
(* The candidate picked among the admissible ones is a heuristic of the     *)
(* code (lightest column) and is left nondeterministic here.               *)
(***************************************************************************)
EXTENDS Naturals, Sequences, FiniteSets

CONSTANTS Rows, Cols,
          AllCand    \* TRUE: every entry satisfies the pivot condition; FALSE: every subset is explored
VARIABLES Ent,       \* SUBSET (Rows \X Cols), fixed along a behaviour
          CandEnt,   \* SUBSET Ent, fixed along a behaviour
          piv,       \* sequence of <<row, col>>
          pc,        \* task -> "idle" | "search" | "chosen" | "done"
          seen,      \* task -> length of the snapshot
          cand,      \* task -> chosen column (when pc = "chosen")
          marked     \* task -> set of columns the worker has marked (when pc = "chosen")
vars == <<Ent, CandEnt, piv, pc, seen, cand, marked>>

ColsOf(r)     == {c \in Cols : <<r, c>> \in Ent}
PivSet(p)     == {p[k] : k \in 1..Len(p)}
PivCols(p)    == {p[k][2] : k \in 1..Len(p)}
PivRows(p)    == {p[k][1] : k \in 1..Len(p)}
RowFor(p, c)  == (CHOOSE k \in 1..Len(p) : p[k][2] = c)
Prefix(p, n)  == SubSeq(p, 1, n)

\* columns reached from row r through the pivots of table p: the least set S containing the
\* columns of r and, for every pivot <<i2, j>> of p with j in S, the columns of i2
RECURSIVE Reach(_,_)
Reach(p, S) == LET T == S \cup UNION {ColsOf(p[k][1]) : k \in {k \in 1..Len(p) : p[k][2] \in S}}
               IN IF T = S THEN S ELSE Reach(p, T)
Marked(p, r) == Reach(p, ColsOf(r))
\* columns of r that remain candidates: condition holds, not a pivot column, not in a reached pivot row
Occupied(p, r) == UNION {ColsOf(p[k][1]) : k \in {k \in 1..Len(p) : p[k][2] \in Marked(p, r)}}
Cands(p, r)    == {c \in ColsOf(r) : <<r, c>> \in CandEnt /\ c \notin PivCols(p) /\ c \notin Occupied(p, r)}

Tasks == {r \in Rows : ColsOf(r) # {}}

Init == /\ Ent \in SUBSET (Rows \X Cols)
        /\ CandEnt \in (IF AllCand THEN {Ent} ELSE SUBSET Ent)
        /\ piv = <<>>
        /\ pc = [r \in Rows |-> "idle"] /\ seen = [r \in Rows |-> 0]
        /\ cand = [r \in Rows |-> 0] /\ marked = [r \in Rows |-> {}]

Fixed == UNCHANGED <<Ent, CandEnt>>

Start(r) == /\ r \in Tasks /\ pc[r] = "idle"
            /\ seen' = [seen EXCEPT ![r] = Len(piv)]
            /\ pc' = [pc EXCEPT ![r] = "search"]
            /\ UNCHANGED <<piv, cand, marked>> /\ Fixed

Search(r) == /\ pc[r] = "search"
             /\ LET p == Prefix(piv, seen[r])  C == Cands(p, r) IN
                IF C = {} THEN pc' = [pc EXCEPT ![r] = "done"] /\ UNCHANGED <<cand, marked>>
                ELSE /\ \E c \in C : cand' = [cand EXCEPT ![r] = c]
                     /\ marked' = [marked EXCEPT ![r] = Marked(p, r)]
                     /\ pc' = [pc EXCEPT ![r] = "chosen"]
             /\ UNCHANGED <<piv, seen>> /\ Fixed

NewCols(r) == {piv[k][2] : k \in (seen[r] + 1) .. Len(piv)}
MustRetry(r) == NewCols(r) \cap marked[r] # {}

Retry(r) == /\ pc[r] = "chosen" /\ MustRetry(r)
            /\ seen' = [seen EXCEPT ![r] = Len(piv)]
            /\ pc' = [pc EXCEPT ![r] = "search"]
            /\ UNCHANGED <<piv, cand, marked>> /\ Fixed

Commit(r) == /\ pc[r] = "chosen" /\ ~MustRetry(r)
             /\ piv' = Append(piv, <<r, cand[r]>>)
             /\ pc' = [pc EXCEPT ![r] = "done"]
             /\ UNCHANGED <<seen, cand, marked>> /\ Fixed

Lock(r) == Retry(r) \/ Commit(r)

Next == \E r \in Rows : Start(r) \/ Search(r) \/ Lock(r)
Spec == Init /\ [][Next]_vars /\ WF_vars(Next)

\* ---------------------------------------------------------------- properties
DistinctRows == \A k, l \in 1..Len(piv) : k # l => piv[k][1] # piv[l][1]
DistinctCols == \A k, l \in 1..Len(piv) : k # l => piv[k][2] # piv[l][2]
CondOK       == PivSet(piv) \subseteq CandEnt
SnapshotOK   == \A r \in Rows : seen[r] <= Len(piv)

\* dependency graph: pivot k -> pivot l (k # l) when the row of k has an entry in the column of l.
\* Acyclic iff the pivots can be peeled off one at a time, each time taking one without incoming edge
DependsOn(p, k, l) == k # l /\ <<p[k][1], p[l][2]>> \in Ent
RECURSIVE Peel(_,_)
Peel(p, S) == LET free == {k \in S : \A l \in S : ~DependsOn(p, l, k)} IN
              IF free = {} THEN S ELSE Peel(p, S \ free)
AcyclicTable(p) == Peel(p, 1..Len(p)) = {}
Acyclic == AcyclicTable(piv)

\* the relational contract of a returned pivot list (already in an order): rows/cols distinct, condition,
\* and after moving pivot k to position (k,k) the leading block is triangular: the row of pivot k has no
\* entry in the column of an *earlier* pivot (upper triangular), pivots on the diagonal
PivotResult(res) ==
    /\ \A k, l \in 1..Len(res) : k # l => res[k][1] # res[l][1] /\ res[k][2] # res[l][2]
    /\ \A k \in 1..Len(res) : res[k] \in CandEnt
    /\ \A k, l \in 1..Len(res) : l < k => <<res[k][1], res[l][2]>> \notin Ent

Done == \A r \in Tasks : pc[r] = "done"
Terminates == <>Done
\* nothing is stuck: the only states without a successor are the terminal ones
NoDeadlock == Done \/ ENABLED Next
=============================================================================
