------------------------------ MODULE SignFmt ------------------------------
(***************************************************************************)
(* Extension (serves C16 / C04: polynomial and linear-combination printing *)
(* goes through these helpers; crossing signs and cube edge signs are      *)
(* yui::Sign values).                                                      *)
(* yui::Sign and yui::util::format::{subscript, superscript, paren_expr,   *)
(* lc}.  All operations are pure; the machine only counts calls.  A Sign   *)
(* is represented by the integer 1 / -1 it converts to; a string by its    *)
(* sequence of Unicode code points.                                        *)
(***************************************************************************)
EXTENDS Integers, Sequences, Chars

VARIABLE calls
Signs == {1, -1}

\* ---- Sign
FromIntOK(v)      == v \in Signs                               \* From<int> panics on everything else
SignNeg(s)        == -s
SignOfParity(n)   == IF n % 2 = 0 THEN 1 ELSE -1               \* n may be negative
\* GetSign::sign: positive -> Pos, negative -> Neg; zero is not constrained (the library never asks for the sign of 0)
GetSignOK(x, out) == (x > 0 => out = 1) /\ (x < 0 => out = -1) /\ out \in Signs
SignCmp(a, b)     == IF a < b THEN -1 ELSE IF a > b THEN 1 ELSE 0      \* Neg < Pos
SignShown(s)      == IF s = 1 THEN <<43>> ELSE <<45>>                  \* "+" / "-"

\* ---- subscript / superscript of an integer: U+2080.. digits with U+208B minus; superscripts U+2070.. except 1, 2, 3
SubDigit(d) == 8320 + d
SupDigit(d) == IF d = 1 THEN 185 ELSE IF d = 2 THEN 178 ELSE IF d = 3 THEN 179 ELSE 8304 + d
Script(n, D(_), minus) == LET ds == DigitsOf(Absv(n)) IN
                          (IF n < 0 THEN <<minus>> ELSE <<>>) \o [k \in 1..Len(ds) |-> D(ds[k])]
Subscript(n)   == Script(n, SubDigit, 8331)
Superscript(n) == Script(n, SupDigit, 8315)
\* reading a script back (used by the model check: the notation is injective and faithful)
UnSub(c) == c - 8320
UnSup(c) == IF c = 185 THEN 1 ELSE IF c = 178 THEN 2 ELSE IF c = 179 THEN 3 ELSE c - 8304
ReadScript(s, U(_), minus) == IF Len(s) > 0 /\ s[1] = minus THEN -ValueOf([k \in 1..Len(s)-1 |-> U(s[k+1])])
                              ELSE ValueOf([k \in 1..Len(s) |-> U(s[k])])

\* ---- paren_expr: an expression containing a blank is wrapped in parentheses
ParenExpr(s) == IF HasCode(s, 32) THEN <<40>> \o s \o <<41>> ELSE s

\* ---- lc: print  r1 x1 + r2 x2 - ...  from (generator, coefficient) strings
One == <<49>>
FirstTerm(x, r0) == LET r == ParenExpr(r0) IN
                    IF r = One THEN x ELSE IF r = <<45, 49>> THEN <<45>> \o x ELSE IF x = One THEN r ELSE r \o x
RestTerm(x, r0)  == LET r  == ParenExpr(r0)
                        ng == Len(r) > 0 /\ r[1] = 45
                        m  == IF ng THEN Tail(r) ELSE r IN
                    <<(IF ng THEN <<45>> ELSE <<43>>), (IF m = One THEN x ELSE IF x = One THEN m ELSE m \o x)>>
\* terms: sequence of [x |-> codes, r |-> codes]
RECURSIVE RestParts(_, _)
RestParts(terms, k) == IF k > Len(terms) THEN <<>> ELSE RestTerm(terms[k].x, terms[k].r) \o RestParts(terms, k + 1)
LcShown(terms) == IF Len(terms) = 0 THEN <<48>>
                  ELSE JoinCodes(<<FirstTerm(terms[1].x, terms[1].r)>> \o RestParts(terms, 2), <<32>>)

Call(cond) == cond /\ calls' = calls + 1
Init == calls = 0
=============================================================================
