-------------------------------- MODULE KhCube -------------------------------
(***************************************************************************)
(* C01.  The Khovanov cube of resolutions of a link diagram (Link.tla)     *)
(* over the Frobenius algebra A = Z[X]/(X^2 - hX - t) (Frobenius.tla),     *)
(* written from the definition:                                            *)
(*                                                                         *)
(*   vertices    states s : crossings -> {0, 1}                            *)
(*   at s        A^{(x) circles(s)}: a generator is a labelling of the      *)
(*               circles of s by 0 (= 1) or 1 (= X)                        *)
(*   edges       s -> s + e_k (bit k raised); two circles merge (m) or one *)
(*               splits (Delta); sign (-1)^{number of 1s of s before k}    *)
(*   d           sum over the edges leaving s                              *)
(*   bidegree    (|s| - n_-,  sum over circles (1 -> +1, X -> -1)           *)
(*                             + |s| + n_+ - 2 n_-  (+ 1 if reduced))      *)
(*   reduced     base edge b: the circle through b carries X only          *)
(*               (a subcomplex when t = 0)                                 *)
(*                                                                         *)
(* A diagram is either a PD code (all entries crossings) or crossingless   *)
(* (all entries smoothings; a single vertex).                              *)
(* Integers are TLC integers: h, t and the diagrams are small.             *)
(***************************************************************************)
EXTENDS Link, TLC

Fr == INSTANCE Frobenius
KR == [k |-> "I"]               \* the coefficient ring of the cube: TLC integers

\* TLC keeps [x \in S |-> e] as a closure and re-evaluates e at every application; values that are used more than
\* once are forced into explicit tuples / functions
FS(s) == s \o <<>>
FF(f) == f @@ <<>>

CubeOK(D)   == AllCrossings(D) \/ AllResolved(D)
KhPosNeg(D) == IF AllResolved(D) THEN <<0, 0>> ELSE CHOOSE pn \in PosNegSet(D) : TRUE
KhStates(D) == States(CrossingNum(D))
CirclesAt(D, s) == IF AllResolved(D) THEN Components(D) ELSE CirclesOfState(D, s)
\* the circles of a state in a fixed order (by least label)
CircSeq(D, s) == SetToSortSeq(CirclesAt(D, s), LAMBDA a, b : MinOfSet(a) < MinOfSet(b))
OnesBefore(s, k) == Cardinality({j \in 1..(k - 1) : s[j] = 1})
EdgeSign(s, k)   == IF OnesBefore(s, k) % 2 = 0 THEN 1 ELSE -1
\* the base edge the library uses when only "reduced" is asked for: least label of the first entry
DefaultBase(D) == MinOfSet({D[1].e[j] : j \in 1..4})

\* ---------------------------------------------------------------- the combinatorial cube (independent of h, t)
\* base = -1: unreduced.  A generator is <<s, l>>: state and labelling of CircSeq(D, s).
LabelSets(k, fixed) == {l \in [1..k -> {0, 1}] : fixed = 0 \/ l[fixed] = 1}
CubeOf(D, base) ==
    LET n    == CrossingNum(D)
        S    == KhStates(D)
        circ == FF([s \in S |-> CircSeq(D, s)])
        bidx == FF([s \in S |-> IF base < 0 THEN 0 ELSE CHOOSE i \in 1..Len(circ[s]) : base \in circ[s][i]])
        \* edge s -> s + e_k: which circles are touched and where the untouched ones go
        einfo(s, k) ==
            LET s2 == [s EXCEPT ![k] = 1]
                A  == circ[s]
                B  == circ[s2]
                E  == {D[k].e[j] : j \in 1..4}
                ta == {i \in 1..Len(A) : A[i] \cap E # {}}
                tb == {j \in 1..Len(B) : B[j] \cap E # {}}
            IN  [to |-> s2, sign |-> EdgeSign(s, k), ta |-> SetToSortSeq(ta, <), tb |-> SetToSortSeq(tb, <),
                 keep |-> FF([j \in (1..Len(B)) \ tb |-> CHOOSE i \in 1..Len(A) : A[i] = B[j]]), nb |-> Len(B)]
        edges == FF([s \in S |-> LET K == {k \in 1..n : s[k] = 0} IN FF([k \in K |-> einfo(s, k)])])
        gensOf(w) == SetToSeq(UNION {{<<s, l>> : l \in LabelSets(Len(circ[s]), bidx[s])} : s \in {x \in S : SumSeq(x) = w}})
        pn   == KhPosNeg(D)
    IN  [n |-> n, circ |-> circ, bidx |-> bidx, edges |-> edges, gens |-> FF([w \in 0..n |-> gensOf(w)]),
         npos |-> pn[1], nneg |-> pn[2], red |-> base >= 0]

HDeg(C, g) == SumSeq(g[1]) - C.nneg
QDeg(C, g) == LET l == g[2] IN
              SumSeq([i \in 1..Len(l) |-> IF l[i] = 0 THEN 1 ELSE -1]) + SumSeq(g[1]) + C.npos - 2 * C.nneg + (IF C.red THEN 1 ELSE 0)
IsGen(C, g) == LET w == SumSeq(g[1]) IN \E i \in 1..Len(C.gens[w]) : C.gens[w][i] = g

\* ---------------------------------------------------------------- the differential on a generator
\* the terms <<generator, coefficient>> of one edge map applied to g = <<s, l>> (zero coefficients dropped)
EdgeTerms(C, h, t, g, k) ==
    LET s == g[1]
        l == g[2]
        e == C.edges[s][k]
    IN  IF Len(e.ta) = 2
        THEN \* merge: the two touched circles become one
             LET ts == Fr!MulT(KR, h, t, l[e.ta[1]], l[e.ta[2]])
                 j0 == e.tb[1]
                 raw == [x \in 1..Len(ts) |->
                           <<<<e.to, FS([j \in 1..e.nb |-> IF j = j0 THEN ts[x][1] ELSE l[e.keep[j]]])>>, e.sign * ts[x][2]>>]
             IN  SelectSeq(raw, LAMBDA tm : tm[2] # 0)
        ELSE \* split: the touched circle becomes two
             LET ts == Fr!ComulT(KR, h, t, l[e.ta[1]])
                 j1 == e.tb[1]
                 j2 == e.tb[2]
                 raw == [x \in 1..Len(ts) |->
                           <<<<e.to, FS([j \in 1..e.nb |-> IF j = j1 THEN ts[x][1] ELSE IF j = j2 THEN ts[x][2] ELSE l[e.keep[j]]])>>, e.sign * ts[x][3]>>]
             IN  SelectSeq(raw, LAMBDA tm : tm[2] # 0)
DTerms(C, h, t, g) ==
    LET K == SetToSortSeq(DOMAIN C.edges[g[1]], <)
    IN  FoldLeft(LAMBDA acc, k : acc \o EdgeTerms(C, h, t, g, k), <<>>, K)

\* each edge of the cube changes the number of circles by exactly one (diagram on the sphere)
CubeShapeOK(C) == \A s \in DOMAIN C.edges : \A k \in DOMAIN C.edges[s] :
                     LET e == C.edges[s][k] IN <<Len(e.ta), Len(e.tb)>> \in {<<2, 1>>, <<1, 2>>}
\* reduced: d maps the subspace "base circle carries X" into itself (needs t = 0)
ReducedClosed(C, h, t) ==
    \A w \in 0..C.n : \A i \in 1..Len(C.gens[w]) :
       LET ts == DTerms(C, h, t, C.gens[w][i]) IN \A x \in 1..Len(ts) : IsGen(C, ts[x][1])

\* ---------------------------------------------------------------- matrices
\* the matrix of d from weight w to weight w + 1: rows = generators of weight w + 1, columns = of weight w
\* (weights outside 0..n: empty generator lists)
GensW(C, w) == IF w \in 0..C.n THEN C.gens[w] ELSE <<>>
DMat(C, h, t, w) ==
    LET src == GensW(C, w)
        tgt == GensW(C, w + 1)
        m   == Len(tgt)
        idx == FF([g \in {tgt[i] : i \in 1..m} |-> CHOOSE i \in 1..m : tgt[i] = g])
        zero == FS([r \in 1..m |-> 0])
        col(c) == FoldLeft(LAMBDA acc, tm : [acc EXCEPT ![idx[tm[1]]] = @ + tm[2]], zero, DTerms(C, h, t, src[c]))
        cols == FS([c \in 1..Len(src) |-> col(c)])
    IN  FS([r \in 1..m |-> FS([c \in 1..Len(src) |-> cols[c][r]])])
\* the block of a matrix on selected rows / columns (sequences of indices)
SubMat(M, rs, cs) == FS([i \in 1..Len(rs) |-> FS([j \in 1..Len(cs) |-> M[rs[i]][cs[j]]])])
QIdx(C, w, q) == LET G == GensW(C, w) IN SetToSortSeq({i \in 1..Len(G) : QDeg(C, G[i]) = q}, <)
QDegsAt(C, w) == LET G == GensW(C, w) IN {QDeg(C, G[i]) : i \in 1..Len(G)}
QDegsAll(C)   == UNION {QDegsAt(C, w) : w \in 0..C.n}

\* d has bidegree (1, 0) when h = t = 0: every non-zero term keeps the q-degree (the h-degree rises by construction)
BiDegOK(C) == \A w \in 0..C.n : \A i \in 1..Len(C.gens[w]) :
                 LET g == C.gens[w][i]  ts == DTerms(C, 0, 0, g) IN
                 \A x \in 1..Len(ts) : QDeg(C, ts[x][1]) = QDeg(C, g) /\ HDeg(C, ts[x][1]) = HDeg(C, g) + 1
\* in general d is filtered: deg h = -2, deg t = -4, so a term never lowers the q-degree ... it raises it by 0, 2 or 4
FilteredOK(C, h, t) == \A w \in 0..C.n : \A i \in 1..Len(C.gens[w]) :
                 LET g == C.gens[w][i]  ts == DTerms(C, h, t, g) IN
                 \A x \in 1..Len(ts) : (QDeg(C, ts[x][1]) - QDeg(C, g)) \in {0, 2, 4}
=============================================================================
