------------------------------ MODULE JonesEv -------------------------------
(* Event view of Jones.tla.  Every event carries res and d (data of the link object after the call);
   polynomials are lists of <<exponent, coefficient>> pairs. *)
EXTENDS Jones

FnOfPairs(ps) == [x \in {ps[k][1] : k \in 1..Len(ps)} |-> ps[CHOOSE k \in 1..Len(ps) : ps[k][1] = x][2]]
HasPoly(e)    == PairsWellFormed(e.p)

JPre(e) ==
    CASE e.op = "jload"     -> Valid(FromPD(e.pd)) /\ HasPoly(e)
      [] e.op = "jclosure"  -> e.n >= 2 /\ IsWord(e.n, e.word) /\ NoFreeLoop(e.n, e.word) /\ HasPoly(e)
      [] e.op = "jword"     -> e.n >= 2 /\ IsWord(e.n, e.word) /\ NoFreeLoop(e.n, e.word) /\ HasPoly(e)
                               /\ bw[1] >= 2 /\ IsWordMove(e.mv, bw[1], bw[2], e.n, e.word)
      [] e.op = "jrenumber" -> IsRenumbering(dg, FnOfPairs(e.f)) /\ HasPoly(e)
      [] e.op = "jreorder"  -> IsPermOf(e.pi, Len(dg)) /\ HasPoly(e)
      [] e.op = "jkink"     -> AllCrossings(dg) /\ e.x \in Edges(dg) /\ e.kind \in KinkKinds /\ HasPoly(e)
      [] e.op = "jdisjoint" -> AllCrossings(dg) /\ Valid(FromPD(e.pd)) /\ HasPoly(e) /\ PairsWellFormed(e.p2)
      [] e.op \in {"jmirror", "jagain"} -> HasPoly(e)
      [] OTHER -> TRUE

JStep(e) ==
    /\ e.res = "ok"
    /\ CASE e.op = "reset"     -> dg' = <<>> /\ wr' = 0 /\ nc' = 0 /\ out' = NoOut /\ res' = "ok" /\ jp' = POne /\ bw' = NoWord
         [] e.op = "jload"     -> JLoad(e.pd, PolyOfPairs(e.p))
         [] e.op = "jclosure"  -> JClosure(e.n, e.word, e.pd, PolyOfPairs(e.p))
         [] e.op = "jword"     -> JWordMove(e.mv, e.n, e.word, e.pd, PolyOfPairs(e.p))
         [] e.op = "jkink"     -> JKink(e.x, e.kind, PolyOfPairs(e.p))
         [] e.op = "jrenumber" -> JRenumber(FnOfPairs(e.f), PolyOfPairs(e.p))
         [] e.op = "jreorder"  -> JReorder(e.pi, PolyOfPairs(e.p))
         [] e.op = "jmirror"   -> JMirror(PolyOfPairs(e.p))
         [] e.op = "jdisjoint" -> JDisjoint(e.pd, PolyOfPairs(e.p2), PolyOfPairs(e.p))
         [] e.op = "jagain"    -> JAgain(PolyOfPairs(e.p))
         [] e.op = "kh"        -> JEuler(e.tab)
         [] OTHER -> FALSE
=============================================================================
