------------------------------- MODULE BitSeq -------------------------------
(***************************************************************************)
(* C17.  A bit sequence is a sequence over {0,1} of length <= MaxLen.      *)
(* The machine has NReg registers; every public operation of               *)
(* yui::bitseq::BitSeq is one action.  `res` tells whether the call was     *)
(* accepted ("ok") or rejected ("rej": panic or Err) - rejected calls must   *)
(* leave every register unchanged.  `out` is the value the call returned.  *)
(* 64-bit machine words given as arguments (`new`, `new_rev`) are          *)
(* sequences of 64 bits, least significant first.                          *)
(***************************************************************************)
EXTENDS Naturals, Sequences, FiniteSets, SequencesExt

CONSTANTS MaxLen,      \* advertised maximum length (64 in the library)
          WordLen,     \* width of the machine word arguments (64 in the library)
          NReg         \* number of registers of the machine

VARIABLES reg, out, res
vars == <<reg, out, res>>

Bit   == {0, 1}
Regs  == 0 .. NReg-1
NoOut == "-"

\* ---------------------------------------------------------------- meaning
Weight(s)  == FoldLeft(LAMBDA a, b : a + b, 0, s)
Zeros(n)   == [i \in 1..n |-> 0]
Ones(n)    == [i \in 1..n |-> 1]
Prefix(s,l) == SubSeq(s, 1, l)
IsPre(s,t) == Len(s) <= Len(t) /\ \A i \in 1..Len(s) : s[i] = t[i]
InsertAt0(s,i,b) == Prefix(s,i) \o <<b>> \o SubSeq(s, i+1, Len(s))   \* i is 0-based
RemoveAt0(s,i)   == Prefix(s,i) \o SubSeq(s, i+2, Len(s))
SetAt0(s,i,b)    == [s EXCEPT ![i+1] = b]

\* numeric value order on equal-length sequences (bit i has weight 2^i)
MaxOf(S) == CHOOSE x \in S : \A y \in S : y <= x
CmpVal(a,b) == LET D == {i \in 1..Len(a) : a[i] # b[i]} IN
               IF D = {} THEN "EQ"
               ELSE IF a[MaxOf(D)] < b[MaxOf(D)] THEN "LT" ELSE "GT"
CmpNat(x,y) == IF x < y THEN "LT" ELSE IF x > y THEN "GT" ELSE "EQ"
Cmp(a,b) == IF Len(a) # Len(b) THEN CmpNat(Len(a), Len(b))
            ELSE IF Weight(a) # Weight(b) THEN CmpNat(Weight(a), Weight(b))
            ELSE CmpVal(a,b)

\* the n-th (0-based) element of the enumeration of all sequences of length len:
\* the library enumerates by numeric value.
RECURSIVE NatBits(_,_)
NatBits(v, len) == IF len = 0 THEN <<>> ELSE <<v % 2>> \o NatBits(v \div 2, len-1)

\* ---------------------------------------------------------------- helpers
Ok(r, s, o)  == reg' = [reg EXCEPT ![r] = s] /\ out' = o /\ res' = "ok"
Obs(o)       == UNCHANGED reg /\ out' = o /\ res' = "ok"
Rej          == UNCHANGED reg /\ out' = NoOut /\ res' = "rej"
Val(s)       == [ok |-> TRUE,  s |-> s]
Bad          == [ok |-> FALSE, s |-> <<>>]
Put(r, x)    == IF x.ok THEN Ok(r, x.s, NoOut) ELSE Rej

\* list-of-booleans meaning of the value-producing operations; Bad = the call is rejected
NewF(word, len)    == IF len <= MaxLen /\ \A i \in len+1 .. Len(word) : word[i] = 0
                      THEN Val(Prefix(word, len)) ELSE Bad
NewRevF(word, len) == IF len <= MaxLen THEN Val(Reverse(Prefix(word, len))) ELSE Bad
ZerosF(n)          == IF n <= MaxLen THEN Val(Zeros(n)) ELSE Bad
OnesF(n)           == IF n <= MaxLen THEN Val(Ones(n)) ELSE Bad
FromIterF(bits)    == IF Len(bits) <= MaxLen THEN Val(bits) ELSE Bad
\* chars is a sequence over {0,1,2}; 2 stands for a character that is not a bit
ParseF(chars)      == IF Len(chars) <= MaxLen /\ \A i \in 1..Len(chars) : chars[i] \in Bit
                      THEN Val(chars) ELSE Bad
PushF(s, b)        == IF Len(s) < MaxLen THEN Val(Append(s, b)) ELSE Bad
AppendF(s, t)      == IF Len(s) + Len(t) <= MaxLen THEN Val(s \o t) ELSE Bad
InsertF(s, i, b)   == IF i <= Len(s) /\ Len(s) < MaxLen THEN Val(InsertAt0(s, i, b)) ELSE Bad
RemoveF(s, i)      == IF i < Len(s) THEN Val(RemoveAt0(s, i)) ELSE Bad
SetF(s, i, b)      == IF i < Len(s) THEN Val(SetAt0(s, i, b)) ELSE Bad
SubF(s, l)         == IF l <= Len(s) THEN Val(Prefix(s, l)) ELSE Bad

\* ---------------------------------------------------------------- actions
\* constructors (dst register r); word: WordLen bits, requires word < 2^len
New(r, word, len)    == Put(r, NewF(word, len))
NewRev(r, word, len) == Put(r, NewRevF(word, len))
Empty(r)             == Ok(r, <<>>, NoOut)
MkZeros(r, n)        == Put(r, ZerosF(n))
MkOnes(r, n)         == Put(r, OnesF(n))
FromIter(r, bits)    == Put(r, FromIterF(bits))
FromBit(r, b)        == Ok(r, <<b>>, NoOut)
Parse(r, chars)      == Put(r, ParseF(chars))
Copy(r, r2)          == Ok(r, reg[r2], NoOut)

\* mutators (in place on register r)
Push(r, b)         == Put(r, PushF(reg[r], b))
AppendReg(r, r2)   == Put(r, AppendF(reg[r], reg[r2]))
InsertBit(r, i, b) == Put(r, InsertF(reg[r], i, b))
RemoveBit(r, i)    == Put(r, RemoveF(reg[r], i))
SetBit(r, i, b)    == Put(r, SetF(reg[r], i, b))
Sub(r, r2, l)      == Put(r, SubF(reg[r2], l))
\* edit: a copy of r2 modified by a closure, stored in r (r2 itself is not changed)
EditF(s, kind, i, b) == CASE kind = "push"   -> PushF(s, b)
                          [] kind = "insert" -> InsertF(s, i, b)
                          [] kind = "remove" -> RemoveF(s, i)
                          [] kind = "set"    -> SetF(s, i, b)
Edit(r, r2, kind, i, b) == Put(r, EditF(reg[r2], kind, i, b))

\* observers
LenOf(r)     == Obs(Len(reg[r]))
IsEmpty(r)   == Obs(Len(reg[r]) = 0)
AsWord(r)    == Obs(reg[r] \o Zeros(WordLen - Len(reg[r])))  \* as_u64: the bits, zero-extended
WeightOf(r)  == Obs(Weight(reg[r]))
Iter(r)      == Obs(reg[r])
Display(r)   == Obs(reg[r])                                \* harness maps '0'/'1' back to 0/1
IndexAt(r,i) == IF i < Len(reg[r]) THEN Obs(reg[r][i+1]) ELSE Rej
IsSub(r, r2) == Obs(IsPre(reg[r], reg[r2]))
Compare(r,r2) == Obs(Cmp(reg[r], reg[r2]))
Equal(r, r2) == Obs(reg[r] = reg[r2])
\* first k elements of the enumeration of all sequences of length n (all of them if fewer)
Pow2(n)      == IF n = 0 THEN 1 ELSE 2^n
GenCount(n,k) == IF n < 20 /\ Pow2(n) < k THEN Pow2(n) ELSE k
Generate(n, k) == IF n <= MaxLen THEN Obs([j \in 1..GenCount(n,k) |-> NatBits(j-1, n)]) ELSE Rej

Init == reg = [r \in Regs |-> <<>>] /\ out = NoOut /\ res = "ok"
\* a fresh register file (start of a new history in a recorded trace)
Reset == reg' = [r \in Regs |-> <<>>] /\ out' = NoOut /\ res' = "ok"

\* ---------------------------------------------------------------- invariants
TypeOK   == /\ reg \in [Regs -> Seq(Bit)]
            /\ res \in {"ok", "rej"}
LenOK    == \A r \in Regs : Len(reg[r]) <= MaxLen

\* order axioms, evaluated on a finite set U of sequences
OrderAxioms(U) ==
    /\ \A a, b \in U : (Cmp(a,b) = "EQ") <=> (a = b)
    /\ \A a, b \in U : (Cmp(a,b) = "LT") <=> (Cmp(b,a) = "GT")
    /\ \A a, b, c \in U : (Cmp(a,b) = "LT" /\ Cmp(b,c) = "LT") => Cmp(a,c) = "LT"
=============================================================================
