------------------------------- MODULE PathEv -------------------------------
(* event -> action map for recorded histories of yui_link::Path.  Registers: "p" and "q"; a path arrives as
   {"edges": [...], "closed": bool}. *)
EXTENDS PathM
Step(e) ==
    IF e.res = "ok" THEN
        CASE e.op = "reset"       -> p' = Null /\ q' = Null
          [] e.op = "new_p"       -> NewP(e.edges, e.closed)
          [] e.op = "new_q"       -> NewQ(e.edges, e.closed)
          [] e.op = "swap"        -> Swap
          [] e.op = "len"         -> LenIs(e.out)
          [] e.op = "edges"       -> EdgesIs(e.out, e.closed)
          [] e.op = "contains"    -> ContainsIs(e.e, e.out)
          [] e.op = "min_edge"    -> MinEdgeIs(e.out)
          [] e.op = "ends"        -> EndsIs(e.out)
          [] e.op = "kind"        -> KindIs(e.arc, e.circ)
          [] e.op = "show"        -> ShownIs(e.out)
          [] e.op = "connectable" -> ConnectableIs(e.out, e.both)
          [] e.op = "unori_eq"    -> UnoriEqIs(e.out)
          [] e.op = "reduce"      -> Reduce(e.out)
          [] e.op = "connect"     -> Connect(e.out)
          [] e.op = "is_adj"      -> AdjIs(e.a, e.b, e.cross, e.out)
          [] OTHER -> FALSE
    ELSE IF e.res = "panic" THEN
        CASE e.op = "new_p"   -> NewPanics(e.edges)
          [] e.op = "new_q"   -> NewPanics(e.edges)
          [] e.op = "connect" -> ConnectPanics
          [] OTHER -> FALSE
    ELSE FALSE
\* the drivers keep the registers simple: a connect outside GlueOK would be a harness bug, not a verdict
DriverOK == (p = Null \/ Simple(p)) /\ (q = Null \/ Simple(q))
=============================================================================
