------------------------------ MODULE PolyAlg ------------------------------
(***************************************************************************)
(* C16.  Register machine over the free algebra R.b[x_1..x_n] (ordinary or *)
(* Laurent) or the free module R.b<generators> (Lc).  The value of a       *)
(* register is the *mathematical* element: a function from a finite set of *)
(* monomials (exponents) to non-zero coefficients (Rings.tla kind "P").    *)
(*                                                                         *)
(* Every public operation of yui::poly::PolyBase / yui::lc::Lc is one      *)
(* action.  What the implementation shows of the destination register      *)
(* after the call is a parameter o of the action (the "observation"):      *)
(*   o.terms   the *stored* term list exactly as the implementation        *)
(*             iterates it: <<stored exponent, coefficient, witness>>       *)
(*   o.nterms, o.is_zero, o.is_one, o.is_const, o.is_mono, o.ct            *)
(*   o.lead = <<stored exponent, coefficient>>, o.lead_deg                  *)
(*   o.eqs     result of == against every register of the file             *)
(* The action is enabled only if the stored list has no zero coefficient,  *)
(* no repeated monomial, no zero entry in a sparse multi-degree, canonical *)
(* coefficients, denotes exactly the mathematical result of the operation, *)
(* and every derived observation is that of the mathematical polynomial.   *)
(*                                                                         *)
(* Ring descriptor R = [k |-> "P", b |-> base ring, nv |-> #variables      *)
(* (0 = one variable, exponent is an integer), lau |-> negative exponents  *)
(* allowed (isize), sp |-> exponents are logged as the stored sparse       *)
(* multi-degree <<<<index, exponent>>, ...>>, lc |-> keys are generators    *)
(* of a free module (no monomial structure), hp |-> the type is HPoly      *)
(* (a single stored pair (degree, coefficient); the H... actions)].        *)
(***************************************************************************)
EXTENDS Polys, MonoOrd

CONSTANT NReg
VARIABLES R, reg, out
vars == <<R, reg, out>>
Regs == 0 .. NReg-1

MkRing(b, nv, lau, sp, lc) == [k |-> "P", b |-> b, nv |-> nv, lau |-> lau, sp |-> sp, lc |-> lc, hp |-> FALSE]
\* HPoly: homogeneous polynomials c x^d in one variable, stored as the pair (d, c)
MkRingH(b) == [k |-> "P", b |-> b, nv |-> 0, lau |-> FALSE, sp |-> FALSE, lc |-> FALSE, hp |-> TRUE]

\* ---------------------------------------------------------------- reading stored exponents
SpOK(x) == /\ \A j \in 1..Len(x) : x[j][1] \in 0..R.nv-1 /\ x[j][2] # 0         \* no stored zero exponent
           /\ \A j, k \in 1..Len(x) : j # k => x[j][1] # x[k][1]
SpDense(x) == [i \in 1..R.nv |-> LET S == {j \in 1..Len(x) : x[j][1] = i-1} IN
                                  IF S = {} THEN 0 ELSE x[CHOOSE j \in S : TRUE][2]]
ExpOf(x)  == IF R.sp THEN SpDense(x) ELSE x
ExpOK(x)  == /\ IF R.sp THEN SpOK(x) ELSE IF R.nv = 0 THEN x \in Int ELSE Len(x) = R.nv
             /\ R.lau \/ R.lc \/ ENonNeg(R.nv, ExpOf(x))

\* ---------------------------------------------------------------- reading a stored term list
TermsOK(ts) ==
    LET es == [i \in 1..Len(ts) |-> ExpOf(ts[i][1])] IN
    /\ \A i \in 1..Len(ts) : /\ ExpOK(ts[i][1])
                             /\ ~RIsZero(R.b, ts[i][2])                            \* no stored zero coefficient
                             /\ RCanonW(R.b, ts[i][2], ts[i][3])
    /\ \A i, j \in 1..Len(ts) : i # j => es[i] # es[j]
ValOf(ts) == LET es == [i \in 1..Len(ts) |-> ExpOf(ts[i][1])]
                 E  == {es[i] : i \in 1..Len(ts)}
             IN [e \in E |-> ts[CHOOSE i \in 1..Len(ts) : es[i] = e][2]]

\* ---------------------------------------------------------------- the observations of a value
LeadExp(v)  == IF DOMAIN v = {} THEN EZero(R.nv) ELSE MMaxOf("grlex", R.nv, DOMAIN v)
IsMono(v)   == Cardinality(DOMAIN v) = 1 /\ \A e \in DOMAIN v : RSame(R.b, v[e], ROne(R.b))

\* o is what the implementation shows of a register whose mathematical value is v, rf being the register file
Sees(o, v, rf) ==
    /\ TermsOK(o.terms)
    /\ RSame(R, ValOf(o.terms), v)
    /\ o.nterms = Cardinality(DOMAIN v) /\ o.nterms = Len(o.terms)
    /\ o.is_zero = (DOMAIN v = {})
    /\ \A j \in Regs : o.eqs[j+1] = RSame(R, v, rf[j])
    /\ o.is_mono = IsMono(v)
    /\ R.lc \/ ( /\ o.is_one = PIsOne(R, v)
                 /\ o.is_const = PIsConst(R, v)
                 /\ RSame(R.b, o.ct, PCoef(R, v, EZero(R.nv)))
                 /\ ExpOK(o.lead[1]) /\ ExpOf(o.lead[1]) = LeadExp(v)
                 /\ RSame(R.b, o.lead[2], PCoef(R, v, LeadExp(v)))
                 /\ ExpOK(o.lead_deg) /\ ExpOf(o.lead_deg) = LeadExp(v) )

\* the register d receives the value raw; o is the implementation's view of it afterwards
\* (guards are wrapped in Chk so that TLC evaluates them as values instead of splitting the action on
\* every disjunction inside them)
Chk(p) == (p = TRUE)
Put(d, raw, o) == LET v == ValOf(o.terms)  rf == [reg EXCEPT ![d] = v] IN
                  /\ Chk(Sees(o, raw, rf))
                  /\ reg' = rf /\ out' = "-" /\ UNCHANGED R
Observe(x)     == out' = x /\ UNCHANGED <<R, reg>>

\* the observation a correct implementation shows (used by the model checker and the generators; the
\* order of the term list is immaterial)
StoreOf(e)   == IF R.sp THEN LET s == SetToSeq({i \in 1..R.nv : e[i] # 0}) IN [j \in 1..Len(s) |-> <<s[j]-1, e[s[j]]>>]
                ELSE e
TermSeq(v)   == LET es == SetToSeq(DOMAIN v) IN [i \in 1..Len(es) |-> <<StoreOf(es[i]), v[es[i]], <<>> >>]
ObsOf(v, rf) == [terms |-> TermSeq(v), nterms |-> Cardinality(DOMAIN v), is_zero |-> (DOMAIN v = {}),
                 is_one |-> (~R.lc /\ PIsOne(R, v)), is_const |-> PIsConst(R, v), is_mono |-> IsMono(v),
                 ct |-> PCoef(R, v, EZero(R.nv)),
                 lead |-> <<StoreOf(LeadExp(v)), PCoef(R, v, LeadExp(v))>>, lead_deg |-> StoreOf(LeadExp(v)),
                 eqs |-> [j \in 1..NReg |-> RSame(R, v, rf[j-1])]]

\* ---------------------------------------------------------------- arguments
\* a raw term list given to a constructor: <<exponent (never sparse-invalid), coefficient>>
RawOK(ts)     == \A i \in 1..Len(ts) : ExpOK(ts[i][1])
RawOf(ts)     == [i \in 1..Len(ts) |-> <<ExpOf(ts[i][1]), ts[i][2]>>]

\* ---------------------------------------------------------------- actions: constructors
Reset(ring, os) == /\ R' = ring /\ reg' = [r \in Regs |-> PEmpty] /\ out' = "-"
                   /\ Chk(\A r \in Regs : LET o == os[r+1] IN
                        /\ o.terms = <<>> /\ o.nterms = 0 /\ o.is_zero
                        /\ \A j \in Regs : o.eqs[j+1])
Zero(d, o)          == Put(d, PEmpty, o)
One(d, o)           == Chk(~R.lc) /\ Put(d, ROne(R), o)
Const(d, c, o)      == Chk(~R.lc) /\ Put(d, PConst(R, c), o)                       \* from_const (c may be zero)
Variable(d, i, o)   == Chk(~R.lc /\ i \in 1..(IF R.nv = 0 THEN 1 ELSE R.nv)) /\ Put(d, PMono(R, EUnit(R.nv, i), ROne(R.b)), o)
Term(d, x, c, o)    == Chk(ExpOK(x)) /\ Put(d, PMono(R, ExpOf(x), c), o)            \* From<(X, R)> (c may be zero); From<X> with c = 1
FromTerms(d, ts, o) == Chk(RawOK(ts)) /\ Put(d, PFromTerms(R, RawOf(ts)), o)        \* from_iter: repeats and zeros allowed
Copy(d, x, o)       == Put(d, reg[x], o)                                       \* clone

\* ---------------------------------------------------------------- actions: module / ring operations
Add(d, x, y, o)     == Put(d, RAdd(R, reg[x], reg[y]), o)
Sub(d, x, y, o)     == Put(d, RSub(R, reg[x], reg[y]), o)
Neg(d, x, o)        == Put(d, RNeg(R, reg[x]), o)
Scale(d, x, c, o)   == Put(d, PScale(R, c, reg[x]), o)                         \* f * c, f *= c, map_coeffs(|a| a * c)
SumOf(d, xs, o)     == Put(d, FoldLeft(LAMBDA a, x : RAdd(R, a, reg[x]), PEmpty, xs), o)

\* the four branches of `*=` (rhs = 1; rhs constant; lhs constant; general) are separate actions so that
\* coverage shows each was taken; all of them must produce the product in the polynomial ring
MulBranch(a, b) == IF PIsOne(R, b) THEN "rhs_one" ELSE IF PIsConst(R, b) THEN "rhs_const"
                   ELSE IF PIsConst(R, a) THEN "lhs_const" ELSE "general"
MulWhen(br, d, x, y, o) == Chk(~R.lc /\ MulBranch(reg[x], reg[y]) = br) /\ Put(d, RMul(R, reg[x], reg[y]), o)
MulRhsOne(d, x, y, o)   == MulWhen("rhs_one", d, x, y, o)
MulRhsConst(d, x, y, o) == MulWhen("rhs_const", d, x, y, o)
MulLhsConst(d, x, y, o) == MulWhen("lhs_const", d, x, y, o)
MulGeneral(d, x, y, o)  == MulWhen("general", d, x, y, o)
Mul(d, x, y, o)     == MulRhsOne(d, x, y, o) \/ MulRhsConst(d, x, y, o) \/ MulLhsConst(d, x, y, o) \/ MulGeneral(d, x, y, o)
ProductOf(d, xs, o) == Chk(~R.lc) /\ Put(d, FoldLeft(LAMBDA a, x : RMul(R, a, reg[x]), ROne(R), xs), o)

Pow(d, x, n, o)     == Chk(~R.lc /\ n >= 0) /\ Put(d, PPow(R, reg[x], n), o)
\* inverse: Some(g) exactly for the units, and then f * g = 1; a negative power is a power of the inverse
Inv(d, x, some, o)  == /\ Chk(~R.lc /\ some = PIsUnit(R, reg[x], R.lau))
                       /\ IF some THEN LET g == ValOf(o.terms) IN
                                       /\ Chk(TermsOK(o.terms) /\ PIsOne(R, RMul(R, reg[x], g))) /\ Put(d, g, o)
                          ELSE Observe(some)
NegPow(d, x, n, o)  == /\ Chk(~R.lc /\ n > 0 /\ PIsUnit(R, reg[x], R.lau))
                       /\ LET g == ValOf(o.terms) IN
                          Chk(TermsOK(o.terms) /\ PIsOne(R, RMul(R, PPow(R, reg[x], n), g))) /\ Put(d, g, o)

\* ---------------------------------------------------------------- actions: free-module operations (Lc)
\* phi: list of <<key, image>> covering the support
FnOf(tab)           == [k \in {tab[i][1] : i \in 1..Len(tab)} |-> tab[CHOOSE i \in 1..Len(tab) : tab[i][1] = k][2]]
Covers(tab, v)      == DOMAIN v \subseteq {tab[i][1] : i \in 1..Len(tab)}
MapGens(d, x, phi, o)   == Chk(Covers(phi, reg[x])) /\ Put(d, PMapGens(R, reg[x], FnOf(phi)), o)
FilterGens(d, x, keep, o) == Put(d, PFilter(R, reg[x], {keep[i] : i \in 1..Len(keep)}), o)
\* F: list of <<key, raw term list>>
Apply(d, x, F, o)   == Chk(Covers(F, reg[x])) /\
                       Put(d, PApply(R, reg[x], [k \in DOMAIN FnOf(F) |-> PFromTerms(R, FnOf(F)[k])]), o)
KeyMap(km, a, b)    == CASE km = "add" -> a + b
                         [] km = "min" -> IF a < b THEN a ELSE b
                         [] km = "left" -> a
                         [] km = "zero" -> 0
Combine(d, x, y, km, o) == Chk(R.lc) /\ Put(d, PCombine(R, reg[x], reg[y], LAMBDA a, b : KeyMap(km, a, b)), o)

\* ---------------------------------------------------------------- actions: observers
\* evaluation is the ring homomorphism R.b[x] -> R.b fixed by the images of the variables
Eval(x, pt, v)      == /\ Chk(/\ ~R.lc /\ ~R.lau /\ Len(pt) = (IF R.nv = 0 THEN 1 ELSE R.nv)
                              /\ RSame(R.b, v, PEval(R, reg[x], IF R.nv = 0 THEN pt[1] ELSE pt)))
                       /\ Observe(v)
Coeff(x, e, v)      == Chk(ExpOK(e) /\ RSame(R.b, v, PCoef(R, reg[x], ExpOf(e)))) /\ Observe(v)
IsUnit(x, b)        == Chk(~R.lc /\ b = PIsUnit(R, reg[x], R.lau)) /\ Observe(b)
Look(x, o)          == Chk(Sees(o, reg[x], reg)) /\ Observe("-")
\* leading term with respect to the variable k (1-based): among the terms with positive k-exponent the
\* one with the largest k-exponent, ties broken by graded lex
LeadFor(x, k, some, t) ==
    LET S == {e \in DOMAIN reg[x] : e[k] > 0} IN
    /\ Chk(/\ ~R.lc /\ R.nv > 0 /\ k \in 1..R.nv /\ some = (S # {})
           /\ some => LET m == CHOOSE e \in S : \A g \in S : g[k] < e[k] \/ (g[k] = e[k] /\ MGrlex(R.nv, g, e) <= 0) IN
                      ExpOK(t[1]) /\ ExpOf(t[1]) = m /\ RSame(R.b, t[2], reg[x][m]))
    /\ Observe(some)

\* monomial operations and orders (exponents as stored)
MonoCmp(kind, a, b, c) == Chk(~R.lc /\ ExpOK(a) /\ ExpOK(b) /\ c = MCmp(kind, R.nv, ExpOf(a), ExpOf(b))) /\ Observe(c)
MonoMul(a, b, v)       == Chk(~R.lc /\ ExpOK(a) /\ ExpOK(b) /\ ExpOK(v) /\ ExpOf(v) = EAdd(R.nv, ExpOf(a), ExpOf(b))) /\ Observe("-")
\* division is issued only when the quotient is a monomial of the type
MonoDiv(a, b, v)       == /\ Chk(/\ ~R.lc /\ ExpOK(a) /\ ExpOK(b) /\ (R.lau \/ ELeq(R.nv, ExpOf(b), ExpOf(a)))
                                 /\ ExpOK(v) /\ ExpOf(v) = ESub(R.nv, ExpOf(a), ExpOf(b)))
                          /\ Observe("-")
MonoDivides(a, b, t)   == /\ Chk(/\ ~R.lc /\ ExpOK(a) /\ ExpOK(b)
                                 /\ t = (R.lau \/ ELeq(R.nv, ExpOf(a), ExpOf(b))))
                          /\ Observe(t)
MonoInv(a, some, v)    == /\ Chk(/\ ~R.lc /\ ExpOK(a) /\ some = (R.lau \/ ExpOf(a) = EZero(R.nv))
                                 /\ some => (ExpOK(v) /\ ExpOf(v) = ENeg(R.nv, ExpOf(a))))
                          /\ Observe(some)
MonoTotal(a, n)        == Chk(~R.lc /\ R.nv > 0 /\ ExpOK(a) /\ n = ETotal(R.nv, ExpOf(a))) /\ Observe(n)

\* ---------------------------------------------------------------- HPoly: homogeneous polynomials c x^d
\* o = [deg, coeff, is_zero, is_one, eqs]; the stored pair denotes c x^d (zero when c = 0, whatever d is)
HVal(o)         == PMono(R, o.deg, o.coeff)
HSees(o, v, rf) == /\ o.deg \in Nat /\ RCanonW(R.b, o.coeff, o.w)
                   /\ RSame(R, HVal(o), v)
                   /\ o.is_zero = (DOMAIN v = {}) /\ o.is_one = PIsOne(R, v)
                   /\ \A j \in Regs : o.eqs[j+1] = RSame(R, v, rf[j])
HPut(d, raw, o) == LET v == HVal(o)  rf == [reg EXCEPT ![d] = v] IN
                   /\ Chk(R.hp /\ HSees(o, raw, rf)) /\ reg' = rf /\ out' = "-" /\ UNCHANGED R
HReset(ring, os) == /\ R' = ring /\ reg' = [r \in Regs |-> PEmpty] /\ out' = "-"
                    /\ Chk(ring.hp /\ \A r \in Regs : os[r+1].is_zero /\ \A j \in Regs : os[r+1].eqs[j+1])
HNew(d, n, c, o)   == Chk(n \in Nat) /\ HPut(d, PMono(R, n, c), o)              \* new(deg, c), from_const, variable, zero, one
\* sums are defined when an operand is zero or the degrees agree (the library asserts it)
HomOK(a, b)        == DOMAIN a = {} \/ DOMAIN b = {} \/ DOMAIN a = DOMAIN b
HAdd(d, x, y, o)   == Chk(HomOK(reg[x], reg[y])) /\ HPut(d, RAdd(R, reg[x], reg[y]), o)
HSub(d, x, y, o)   == Chk(HomOK(reg[x], reg[y])) /\ HPut(d, RSub(R, reg[x], reg[y]), o)
HMul(d, x, y, o)   == HPut(d, RMul(R, reg[x], reg[y]), o)
HNeg(d, x, o)      == HPut(d, RNeg(R, reg[x]), o)
HScale(d, x, c, o) == HPut(d, PScale(R, c, reg[x]), o)
HInv(d, x, some, o) == /\ Chk(R.hp /\ some = PIsUnit(R, reg[x], FALSE))
                       /\ IF some THEN Chk(PIsOne(R, RMul(R, reg[x], HVal(o)))) /\ HPut(d, HVal(o), o) ELSE Observe(some)

Init == R = MkRing(RZ, 0, FALSE, FALSE, FALSE) /\ reg = [r \in Regs |-> PEmpty] /\ out = "-"

\* ---------------------------------------------------------------- invariants of the machine
\* no register ever holds a zero coefficient, hence structural equality of the stored maps (what the
\* library's derived == compares) is equality of polynomials, is_zero is emptiness and nterms the size of the support
CanonInv == \A r \in Regs : \A e \in DOMAIN reg[r] : ~RIsZero(R.b, reg[r][e])
EqInv    == \A x, y \in Regs : (R.b.k # "Q") => ((reg[x] = reg[y]) <=> RSame(R, reg[x], reg[y]))
ExpInv   == \A r \in Regs : \A e \in DOMAIN reg[r] : R.lau \/ R.lc \/ ENonNeg(R.nv, e)
=============================================================================
