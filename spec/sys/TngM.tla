-------------------------------- MODULE TngM --------------------------------
(***************************************************************************)
(* Extension (serves C01 / C19: the tangle complex builder keeps one Tng   *)
(* per vertex and glues resolved crossings into it).                       *)
(* yui_kh::kh::internal::v2::tng::{Tng, TngComp} as a state machine.       *)
(* Abstract state: `t`, the sequence of components (paths) in the order    *)
(* the library keeps them: arcs before circles, each group by least label. *)
(* A tangle is WELL FORMED when its components are simple and pairwise     *)
(* label-disjoint: it denotes a compact 1-manifold whose boundary points   *)
(* are the end labels of its arcs.  append_arc / connect glue further arcs *)
(* along shared end labels (possibly joining two components, possibly      *)
(* closing one up).  Two tangles are equal when they have the same         *)
(* components up to orientation (TngComp::eq is Path::unori_eq).           *)
(***************************************************************************)
EXTENDS PathOps

VARIABLE t

Labels(c)    == SetOf(c.edges)
Idx(T)       == 1..Len(T)
AllLabels(T) == UNION {Labels(T[k]) : k \in Idx(T)}
ArcEnds(T)   == UNION {EndSet(T[k]) : k \in {m \in Idx(T) : IsArc(T[m])}}
KeyLess(a, b) == \/ (~a.closed /\ b.closed)
                 \/ (a.closed = b.closed /\ MinOf(Labels(a)) < MinOf(Labels(b)))
Sorted(T)     == \A i \in 1..Len(T)-1 : ~KeyLess(T[i+1], T[i])
WellFormed(T) == /\ \A k \in Idx(T) : Simple(T[k])
                 /\ \A i, j \in Idx(T) : (i # j) => (Labels(T[i]) \cap Labels(T[j]) = {})
\* Tng equality: same components up to orientation, in the same (key) order
SameTng(A, B) == Len(A) = Len(B) /\ \A k \in Idx(A) : UnoriEq(A[k], B[k])
RECURSIVE SortSet(_)
SortSet(S) == IF S = {} THEN <<>>
              ELSE LET m == CHOOSE c \in S : \A d \in S : (d = c) \/ KeyLess(c, d) IN <<m>> \o SortSet(S \ {m})
SortT(T)   == SortSet({T[k] : k \in Idx(T)})            \* used on well-formed families only (keys are distinct there)
DropIdx(T, j) == [k \in 1..Len(T)-1 |-> IF k < j THEN T[k] ELSE T[k+1]]

\* ---- append_arc: the domain and the result
AppendOK(T, a) == /\ IsArc(a) /\ Simple(a) /\ WellFormed(T)
                  /\ (Labels(a) \cap AllLabels(T)) \subseteq (EndSet(a) \cap ArcEnds(T))
                  /\ \A k \in Idx(T) : Connectable(T[k], a) => GlueOK(T[k], a)
Touching(T, a)  == {k \in Idx(T) : Connectable(T[k], a)}
Appended(T, a) ==
    IF Touching(T, a) = {} THEN SortT(T \o <<a>>)
    ELSE LET i  == MinOf(Touching(T, a))
             c  == Glued(T[i], a)
             T1 == [T EXCEPT ![i] = c]
             J  == IF c.closed THEN {} ELSE {k \in Idx(T) : k # i /\ Connectable(T[k], c)} IN
         IF J = {} THEN SortT(T1)
         ELSE LET j == MinOf(J) IN SortT(DropIdx([T1 EXCEPT ![i] = Glued(c, T[j])], j))
\* ---- connect: every component of the other tangle, arcs through append_arc, circles as they are
RECURSIVE ConnectedFrom(_, _, _)
ConnectedFrom(T, O, k) == IF k > Len(O) THEN SortT(T)
                          ELSE IF O[k].closed THEN ConnectedFrom(T \o <<O[k]>>, O, k + 1)
                          ELSE ConnectedFrom(Appended(T, O[k]), O, k + 1)
RECURSIVE ConnectOKFrom(_, _, _)
ConnectOKFrom(T, O, k) == IF k > Len(O) THEN TRUE
                          ELSE IF O[k].closed THEN Simple(O[k]) /\ Labels(O[k]) \cap AllLabels(T) = {} /\ ConnectOKFrom(T \o <<O[k]>>, O, k + 1)
                          ELSE AppendOK(T, O[k]) /\ ConnectOKFrom(Appended(T, O[k]), O, k + 1)
\* ---- from_resolved: the two strands of a resolved crossing (V: 0-3 / 1-2, H: 0-1 / 2-3), glued when they meet
Strand(x, y)       == IF x = y THEN Mk(<<x>>, TRUE) ELSE Mk(<<x, y>>, FALSE)
StrandsOf(kind, e) == IF kind = "V" THEN <<Strand(e[1], e[4]), Strand(e[2], e[3])>> ELSE <<Strand(e[1], e[2]), Strand(e[3], e[4])>>
ResolvedOK(kind, e) == LET s == StrandsOf(kind, e) IN
                       IF Connectable(s[1], s[2]) THEN GlueOK(s[1], s[2]) ELSE WellFormed(s)
Resolved(kind, e)   == LET s == StrandsOf(kind, e) IN
                       IF Connectable(s[1], s[2]) THEN <<Glued(s[1], s[2])>> ELSE SortT(s)
\* ---- convert_edges by an injective relabelling F, re-sorted
Converted(T, F(_)) == SortT([k \in Idx(T) |-> Mk([m \in 1..Len(T[k].edges) |-> F(T[k].edges[m])], T[k].closed)])

\* ---- first index (0-based) of a component satisfying P, -1 = None
FirstIdx(T, P(_)) == LET S == {k \in Idx(T) : P(T[k])} IN IF S = {} THEN -1 ELSE MinOf(S) - 1

\* ================= actions (out = the component list the library shows afterwards) =================
Good(out, want) == Sorted(out) /\ SameTng(out, want)
Empty           == t' = <<>>
NewT(cs, out)   == WellFormed(cs) /\ Good(out, SortT(cs)) /\ t' = out
AppendArc(a, out)  == AppendOK(t, a) /\ Good(out, Appended(t, a)) /\ t' = out
AppendArcPanics(a) == a.closed /\ UNCHANGED t                       \* append_arc asserts an arc
ConnectT(o, out)   == ConnectOKFrom(t, o, 1) /\ Good(out, ConnectedFrom(t, o, 1)) /\ t' = out
RemoveAt(i, c, out) == i \in 0..Len(t)-1 /\ c = t[i+1] /\ out = DropIdx(t, i+1) /\ t' = out
RemoveAtPanics(i)  == i \notin 0..Len(t)-1 /\ UNCHANGED t
\* Tng::from_resolved builds a fresh tangle: a pure call as far as the register is concerned
FromResolved(kind, e, out) == ResolvedOK(kind, e) /\ Good(out, Resolved(kind, e)) /\ UNCHANGED t
ConvertEdges(mul, add, out) == Good(out, Converted(t, LAMBDA x : add + mul * x)) /\ t' = out
\* observers
CompsIs(out)     == out = t /\ UNCHANGED t
CountsIs(n, empty, closed, hascirc, euler) ==
    /\ n = Len(t) /\ empty = (Len(t) = 0)
    /\ closed = (\A k \in Idx(t) : t[k].closed) /\ hascirc = (\E k \in Idx(t) : t[k].closed)
    /\ euler = Cardinality({k \in Idx(t) : IsArc(t[k])}) /\ UNCHANGED t
EndPtsIs(out)    == SetOf(out) = ArcEnds(t) /\ Len(out) = Cardinality(ArcEnds(t)) /\ UNCHANGED t
CompIs(i, out)   == i \in 0..Len(t)-1 /\ out = t[i+1] /\ UNCHANGED t
CompPanics(i)    == i \notin 0..Len(t)-1 /\ UNCHANGED t
\* contains / index_of compare components up to orientation
IndexOfIs(c, has, idx) == /\ idx = FirstIdx(t, LAMBDA d : UnoriEq(d, c)) /\ has = (idx # -1) /\ UNCHANGED t
FindCircleIs(idx)      == idx = FirstIdx(t, LAMBDA d : d.closed) /\ UNCHANGED t
FindLabelIs(e, idx)    == idx = FirstIdx(t, LAMBDA d : e \in Labels(d)) /\ UNCHANGED t
FindConnIs(a, idx)     == idx = FirstIdx(t, LAMBDA d : Connectable(d, a)) /\ UNCHANGED t

Init == t = <<>>
\* the library's invariant on tangles built through these operations
TangleOK == WellFormed(t) /\ Sorted(t)
\* fully glued: no two arcs still share an end label
Merged(T) == \A i, j \in Idx(T) : (i # j) => ~Connectable(T[i], T[j])
=============================================================================
