------------------------------ MODULE KhIConeEv ------------------------------
(* Event view of KhICone.tla / SSIRelations.tla.  An event record {op, args.., res, d} selects the action;
   d is the data of the link object held by the InvLink after the call.
     KPre(e)  - the documented precondition of the call holds (the driver's obligation);
     KStep(e) - the event is the corresponding action.
   Complexes are reported as  cx = [lo, dims, mats]  and  hom = <<<<rank, <<torsion..>>>>, ..>>  (see KhICone.tla). *)
EXTENDS KhICone

B01(x) == IF x THEN 1 ELSE 0
IsBool(x) == x \in BOOLEAN
CxShape(e) == /\ Len(e.cx.dims) >= 1 /\ Len(e.cx.mats) = Len(e.cx.dims) - 1 /\ Len(e.hom) = Len(e.cx.dims)
              /\ \A i \in 1..Len(e.cx.dims) : e.cx.dims[i] \in Nat

KPre(e) ==
    CASE e.op = "iload"    -> SymValid(DiagramOf(e.pd, e.mir))
      [] e.op = "ireorder" -> Len(dg) > 0 /\ IsPermOf(e.pi, Len(dg))
      [] e.op \in {"imirror", "irotate"} -> Len(dg) > 0
      [] e.op \in {"khi", "kh"} -> Len(dg) > 0 /\ CfgOK(e.h, e.t, e.red)
      [] e.op \in {"khih", "khibi", "ssi"} -> Len(dg) > 0 /\ IsBool(e.red)
      [] OTHER -> TRUE

KStep(e) ==
    /\ e.res = "ok"
    /\ CASE e.op = "reset"    -> KReset
         [] e.op = "iload"    -> ILoad(e.pd, e.mir)
         [] e.op = "ireorder" -> IReorder(e.pi)
         [] e.op = "imirror"  -> IMirror
         [] e.op = "irotate"  -> IRotate
         [] e.op = "khi"      -> CxShape(e) /\ ObsKhI(e.h, e.t, e.red, e.cx, e.hom)
         [] e.op = "khih"     -> CxShape(e) /\ ObsKhIH(e.red, e.cx, e.hom)
         [] e.op = "kh"       -> CxShape(e) /\ ObsKh(e.h, e.t, e.red, e.cx, e.hom)
         [] e.op = "khibi"    -> ObsKhIBigraded(e.red, {<<e.tab[a][1], e.tab[a][2], e.tab[a][3]>> : a \in 1..Len(e.tab)})
         [] e.op = "ssi"      -> Len(e.pair) = 2 /\ ObsSSI(e.ring, e.red, <<e.pair[1], e.pair[2]>>)
         [] OTHER -> FALSE
=============================================================================
