------------------------------ MODULE EucOpsEv ------------------------------
EXTENDS EucOps
\* polynomials arrive as term lists [{e, c}, ...]
PolyOf(ts) == [e \in {ts[i].e : i \in 1..Len(ts)} |-> ts[CHOOSE i \in 1..Len(ts) : ts[i].e = e].c]
D(R, j) == IF R.k = "P" THEN PolyOf(j) ELSE j
Step(e) == e.res = "ok" /\ LET R == e.ring IN
    CASE e.op = "divrem"    -> DivRem(R, D(R,e.a), D(R,e.b), D(R,e.q), D(R,e.r))
      [] e.op = "divround"  -> DivRound(R, D(R,e.a), D(R,e.b), D(R,e.q))
      [] e.op = "gcd"       -> Gcd(R, D(R,e.a), D(R,e.b), D(R,e.d), D(R,e.xa), D(R,e.xb), D(R,e.d2))
      [] e.op = "gcdx"      -> Gcdx(R, D(R,e.a), D(R,e.b), D(R,e.d), D(R,e.s), D(R,e.t), D(R,e.xa), D(R,e.xb))
      [] e.op = "lcm"       -> Lcm(R, D(R,e.a), D(R,e.b), D(R,e.m), D(R,e.g))
      [] e.op = "unit"      -> Unit(R, D(R,e.a), e.isu, e.hasinv, D(R,e.inv))
      [] e.op = "normunit"  -> NormUnit(R, D(R,e.a), D(R,e.u), D(R,e.au))
      [] e.op = "normassoc" -> NormAssoc(R, D(R,e.a), D(R,e.v), D(R,e.na), D(R,e.nva), D(R,e.nna))
      [] OTHER -> FALSE
=============================================================================
