------------------------------- MODULE MatAlg -------------------------------
(***************************************************************************)
(* C13.  Matrix containers (sparse CSC matrices possibly holding explicit  *)
(* zeros, sparse vectors, dense matrices) denote ordinary matrices: every  *)
(* container operation is an action enabled iff the recorded result has    *)
(* exactly the entries the mathematical definition gives.  The composed    *)
(* coordinate transform `Trans` is a state machine whose abstract state is *)
(* the pair of dense products (F, B) of its factors.                       *)
(***************************************************************************)
EXTENDS Matrices

VARIABLES calls,   \* number of accepted container calls
          tr       \* abstract state of the transform under test
vars == <<calls, tr>>

Tick == calls' = calls + 1
Keep == UNCHANGED tr

\* 0-based library permutation (sequence of images) -> 1-based
P1(p) == [i \in 1..Len(p) |-> p[i] + 1]
E1(es) == [k \in 1..Len(es) |-> <<es[k][1] + 1, es[k][2] + 1, es[k][3]>>]
V1(es) == [k \in 1..Len(es) |-> <<es[k][1] + 1, 1, es[k][2]>>]
RowMajor(m, n, d) == Mat(m, n, LAMBDA i, j : d[(i - 1) * n + j])
RECURSIVE ConcatAll(_, _)
ConcatAll(m, cols) == IF cols = <<>> THEN [m |-> m, n |-> 0, a |-> [i \in 1..m |-> <<>>]]
                      ELSE MConcat(ConcatAll(m, SubSeq(cols, 1, Len(cols) - 1)), cols[Len(cols)])
RECURSIVE StackAll(_)
StackAll(vs) == IF vs = <<>> THEN [m |-> 0, n |-> 1, a |-> <<>>]
                ELSE MStack(StackAll(SubSeq(vs, 1, Len(vs) - 1)), vs[Len(vs)])

Is(R, res, expect) == MShapeOK(res) /\ MSame(R, res, expect) /\ Tick /\ Keep

\* ------------------------------------------------------------ constructors
FromEntries(R, m, n, es, res)   == Is(R, res, MFromEntries(R, m, n, E1(es)))
FromDenseData(R, m, n, d, res)  == Is(R, res, RowMajor(m, n, d))
FromColVecs(R, m, cols, res)    == Is(R, res, ConcatAll(m, cols))
VFromEntries(R, m, es, res)     == Is(R, res, MFromEntries(R, m, 1, V1(es)))
RowPerm(R, p, res)              == Is(R, res, MRowPerm(R, P1(p)))
ColPerm(R, p, res)              == Is(R, res, MColPerm(R, P1(p)))
Convert(R, a, res)              == Is(R, res, a)          \* sparse <-> dense, clone, into_mat ...
\* ------------------------------------------------------------ algebra
Add(R, a, b, res)   == a.m = b.m /\ a.n = b.n /\ Is(R, res, MAdd(R, a, b))
Sub(R, a, b, res)   == a.m = b.m /\ a.n = b.n /\ Is(R, res, MSub(R, a, b))
Mul(R, a, b, res)   == a.n = b.m /\ Is(R, res, MMul(R, a, b))
Neg(R, a, res)      == Is(R, res, MNeg(R, a))
Transpose(R, a, res) == Is(R, res, MTrans(a))
\* ------------------------------------------------------------ rearrangement
Permute(R, a, p, q, res) == IsPerm(P1(p), a.m) /\ IsPerm(P1(q), a.n) /\ Is(R, res, MPermute(a, P1(p), P1(q)))
Submat(R, a, i0, i1, j0, j1, res) == i0 <= i1 /\ i1 <= a.m /\ j0 <= j1 /\ j1 <= a.n /\ Is(R, res, MSubmat(a, i0, i1, j0, j1))
Divide4(R, a, k, l, res) ==
    /\ k <= a.m /\ l <= a.n
    /\ MSame(R, res[1], MSubmat(a, 0, k, 0, l))   /\ MSame(R, res[2], MSubmat(a, 0, k, l, a.n))
    /\ MSame(R, res[3], MSubmat(a, k, a.m, 0, l)) /\ MSame(R, res[4], MSubmat(a, k, a.m, l, a.n))
    /\ \A x \in 1..4 : MShapeOK(res[x])
    /\ Tick /\ Keep
CombineBlocks(R, bl, res) == Is(R, res, MBlocks(bl[1], bl[2], bl[3], bl[4]))
Concat(R, a, b, res)      == a.m = b.m /\ Is(R, res, MConcat(a, b))
Stack(R, a, b, res)       == a.n = b.n /\ Is(R, res, MStack(a, b))
StackVecs(R, vs, res)     == Is(R, res, StackAll(vs))
Split(R, a, at, res)      == /\ at <= a.m /\ MShapeOK(res[1]) /\ MShapeOK(res[2])
                             /\ MSame(R, res[1], MSubmat(a, 0, at, 0, a.n)) /\ MSame(R, res[2], MSubmat(a, at, a.m, 0, a.n))
                             /\ Tick /\ Keep
ColVec(R, a, j, res)      == j < a.n /\ Is(R, res, MCol(a, j + 1))
\* ------------------------------------------------------------ predicates
IsZeroQ(R, a, out)  == out = MIsZero(R, a) /\ Tick /\ Keep
IsIdQ(R, a, out)    == out = MIsId(R, a) /\ Tick /\ Keep
\* ------------------------------------------------------------ dense elementary operations
SwapRows(R, a, i, k, res)      == Is(R, res, MSwapRows(a, i + 1, k + 1))
SwapCols(R, a, j, k, res)      == Is(R, res, MSwapCols(a, j + 1, k + 1))
MulRow(R, a, i, x, res)        == Is(R, res, MMulRow(R, a, i + 1, x))
MulCol(R, a, j, x, res)        == Is(R, res, MMulCol(R, a, j + 1, x))
AddRowTo(R, a, i, k, x, res)   == i # k /\ Is(R, res, MAddRowTo(R, a, i + 1, k + 1, x))
AddColTo(R, a, j, k, x, res)   == j # k /\ Is(R, res, MAddColTo(R, a, j + 1, k + 1, x))
\* rows (i,j) <- [c1 c2; c3 c4] (row_i, row_j)
LeftElem(R, a, c, i, j, res)  == i # j /\ Is(R, res,
    Mat(a.m, a.n, LAMBDA r, s : IF r = i + 1 THEN RAdd(R, RMul(R, c[1], a.a[i+1][s]), RMul(R, c[2], a.a[j+1][s]))
                                ELSE IF r = j + 1 THEN RAdd(R, RMul(R, c[3], a.a[i+1][s]), RMul(R, c[4], a.a[j+1][s]))
                                ELSE a.a[r][s]))
RightElem(R, a, c, i, j, res) == i # j /\ Is(R, res,
    Mat(a.m, a.n, LAMBDA r, s : IF s = i + 1 THEN RAdd(R, RMul(R, a.a[r][i+1], c[1]), RMul(R, a.a[r][j+1], c[2]))
                                ELSE IF s = j + 1 THEN RAdd(R, RMul(R, a.a[r][i+1], c[3]), RMul(R, a.a[r][j+1], c[4]))
                                ELSE a.a[r][s]))

\* ------------------------------------------------------------ the Trans machine
TNew(R, n)        == tr' = [src |-> n, tgt |-> n, F |-> MId(R, n), B |-> MId(R, n), k |-> 0] /\ Tick
TAppend(R, f, b)  == /\ f.n = tr.tgt /\ b.m = tr.tgt /\ f.m = b.n
                     /\ tr' = [tr EXCEPT !.tgt = f.m, !.F = MMul(R, f, tr.F), !.B = MMul(R, tr.B, b), !.k = @ + 1] /\ Tick
TAppendPerm(R, p) == IsPerm(P1(p), tr.tgt) /\ TAppend(R, MRowPerm(R, P1(p)), MColPerm(R, P1(p)))
\* merge with another transform given by its own products
TMerge(R, o)      == /\ o.src = tr.tgt
                     /\ tr' = [tr EXCEPT !.tgt = o.tgt, !.F = MMul(R, o.F, tr.F), !.B = MMul(R, tr.B, o.B), !.k = @ + o.k] /\ Tick
TReduce           == tr' = [tr EXCEPT !.k = IF @ > 1 THEN 1 ELSE @] /\ Tick
\* restriction to the listed target coordinates (0-based indices)
TSub(R, idx)      == LET p == Len(idx)
                         f == Mat(p, tr.tgt, LAMBDA i, j : IF j = idx[i] + 1 THEN ROne(R) ELSE RZero(R))
                     IN TAppend(R, f, MTrans(f))
\* observations: src/tgt dims, the two matrices, images of vectors
TObserve(R, o) == /\ o.src = tr.src /\ o.tgt = tr.tgt /\ o.is_id = (tr.k = 0)
                  /\ MShapeOK(o.fmat) /\ MShapeOK(o.bmat)
                  /\ MSame(R, o.fmat, tr.F) /\ MSame(R, o.bmat, tr.B)
                  /\ MSame(R, o.fv, MMul(R, tr.F, o.v)) /\ MSame(R, o.bw, MMul(R, tr.B, o.w))
                  /\ Tick /\ Keep

Init == calls = 0 /\ tr = [src |-> 0, tgt |-> 0, F |-> MId(RI, 0), B |-> MId(RI, 0), k |-> 0]
=============================================================================
