------------------------------ MODULE KhHomology -----------------------------
(***************************************************************************)
(* C01.  Homology of the Khovanov cube complex (KhCube.tla), by the exact  *)
(* integer linear algebra of spec/lib/LinAlg.tla + SmithFast.tla:          *)
(*                                                                         *)
(*   over Z      H_i = Z^rank (+) Z/t1 (+) ...;   rank = n_i - rk d_{i-1}   *)
(*               - rk d_i,  torsion = the non-unit invariant factors of     *)
(*               d_{i-1}                                                   *)
(*   over Q      dimension = the rank over Z                               *)
(*   over F_p    dimension = n_i - rk_p d_{i-1} - rk_p d_i  (the matrices   *)
(*               of the cube over Z reduce mod p to those of the cube over *)
(*               F_p with h, t reduced mod p)                              *)
(*   bigraded    when h = t = 0 the complex splits by q-degree; the same   *)
(*               per block                                                 *)
(*                                                                         *)
(* A table row is a record; KhTable is what property C01 compares the      *)
(* library's answer with (up to isomorphism: torsion as a multiset of      *)
(* prime powers).                                                          *)
(***************************************************************************)
EXTENDS KhCube, TLC

LA == INSTANCE SmithFast

\* ---------------------------------------------------------------- elementary divisors (isomorphism type of a torsion group)
RECURSIVE SplitPrime(_, _, _)
SplitPrime(n, p, acc) == IF n % p = 0 THEN SplitPrime(n \div p, p, acc * p) ELSE <<acc, n>>
RECURSIVE PrimePowers(_, _)
PrimePowers(n, p) ==          \* the prime powers exactly dividing n (n >= 1), as a sequence; p = next candidate
    IF n = 1 THEN <<>>
    ELSE IF p * p > n THEN <<n>>
    ELSE IF n % p = 0 THEN LET sp == SplitPrime(n, p, 1) IN <<sp[1]>> \o PrimePowers(sp[2], p + 1)
    ELSE PrimePowers(n, p + 1)
\* the multiset of elementary divisors of Z/t1 + Z/t2 + ... as a sorted sequence (signs and units ignored)
ElemDivisors(ts) ==
    LET all == FoldLeft(LAMBDA acc, x : acc \o PrimePowers(LA!LAbs(x), 2), <<>>, SelectSeq(ts, LAMBDA x : LA!LAbs(x) > 1))
    IN  SortSeq(all, <)
SameTorsion(a, b) == ElemDivisors(a) = ElemDivisors(b)

\* ---------------------------------------------------------------- homology of a complex given by its matrices
\* ns: function on lo..hi, ns[w] = number of generators; M: function on (lo-1)..hi, M[w] = matrix from w to w+1
RowOf(ns, F, R2, R3, w) ==
    [n    |-> ns[w],
     rank |-> ns[w] - Len(F[w - 1]) - Len(F[w]),
     tors |-> SelectSeq(F[w - 1], LAMBDA d : d > 1),
     f2   |-> ns[w] - R2[w - 1] - R2[w],
     f3   |-> ns[w] - R3[w - 1] - R3[w]]
HomologyRows(lo, hi, ns, M) ==
    LET Dg == FF([w \in (lo - 1)..hi |-> LA!DiagOf(M[w])])
        F  == FF([w \in (lo - 1)..hi |-> LA!InvChain(Dg[w])])
        R2 == FF([w \in (lo - 1)..hi |-> LA!RankOfDiag(Dg[w], 2)])
        R3 == FF([w \in (lo - 1)..hi |-> LA!RankOfDiag(Dg[w], 3)])
    IN  FF([w \in lo..hi |-> RowOf(ns, F, R2, R3, w)])
DDZero(lo, hi, ns, M) == \A w \in lo..hi : LA!LIsZero(LA!LMul(M[w], M[w - 1], IF w - 1 < lo THEN 0 ELSE ns[w - 1]))

\* ---------------------------------------------------------------- Khovanov homology of a cube
KhMats(C, h, t) == FF([w \in -1..C.n |-> DMat(C, h, t, w)])
KhNs(C)         == FF([w \in 0..C.n |-> Len(C.gens[w])])
\* d o d = 0 (the cube anticommutes)
KhDDZero(C, h, t) == DDZero(0, C.n, KhNs(C), KhMats(C, h, t))
\* the table by homological degree: sequence of [i, n, rank, tors, f2, f3]
KhTableM(C, M) ==
    LET rows == HomologyRows(0, C.n, KhNs(C), M)
    IN  FS([k \in 1..(C.n + 1) |-> [i |-> (k - 1) - C.nneg] @@ rows[k - 1]])
KhTable(C, h, t) == KhTableM(C, KhMats(C, h, t))
\* the bigraded table (h = t = 0): the complex is the direct sum over q of the blocks on generators of q-degree q
KhBlockRows(C, M, q) ==
    LET ix  == FF([w \in -1..(C.n + 1) |-> QIdx(C, w, q)])
        Mq  == FF([w \in -1..C.n |-> SubMat(M[w], ix[w + 1], ix[w])])
        ns  == FF([w \in 0..C.n |-> Len(ix[w])])
    IN  HomologyRows(0, C.n, ns, Mq)
NonZeroRow(r) == r.rank > 0 \/ Len(r.tors) > 0 \/ r.f2 > 0 \/ r.f3 > 0
KhBiTableM(C, M) ==
    LET qs   == SetToSortSeq(QDegsAll(C), <)
        rows == FS([x \in 1..Len(qs) |-> KhBlockRows(C, M, qs[x])])
        all  == {<<w, x>> \in (0..C.n) \X (1..Len(qs)) : NonZeroRow(rows[x][w])}
        sq   == SetToSortSeq(all, LAMBDA a, b : a[1] < b[1] \/ (a[1] = b[1] /\ a[2] < b[2]))
    IN  FS([k \in 1..Len(sq) |-> [i |-> sq[k][1] - C.nneg, j |-> qs[sq[k][2]]] @@ rows[sq[k][2]][sq[k][1]]])
KhBiTable(C) == KhBiTableM(C, KhMats(C, 0, 0))
\* the total table recovered from the bigraded one (h = t = 0): ranks add up, torsion groups add up
BiSumAgrees(tab, bi) ==
    \A k \in 1..Len(tab) :
       LET R == {x \in 1..Len(bi) : bi[x].i = tab[k].i}
           sum(f(_)) == FoldLeft(LAMBDA acc, x : acc + f(bi[x]), 0, SetToSeq(R))
           tors == FoldLeft(LAMBDA acc, x : acc \o bi[x].tors, <<>>, SetToSeq(R))
       IN  /\ tab[k].rank = sum(LAMBDA r : r.rank)
           /\ tab[k].f2 = sum(LAMBDA r : r.f2)
           /\ tab[k].f3 = sum(LAMBDA r : r.f3)
           /\ SameTorsion(tab[k].tors, tors)
\* universal coefficients inside one table: dim_Fp = rank + #(p | torsion here) + #(p | torsion one degree up)
PCount(ts, p) == Cardinality({x \in 1..Len(ts) : ts[x] % p = 0})
UctAgrees(tab) ==
    \A k \in 1..Len(tab) :
       LET up == IF k < Len(tab) THEN tab[k + 1].tors ELSE <<>> IN
       /\ tab[k].f2 = tab[k].rank + PCount(tab[k].tors, 2) + PCount(up, 2)
       /\ tab[k].f3 = tab[k].rank + PCount(tab[k].tors, 3) + PCount(up, 3)
\* graded Euler characteristic of a bigraded table as a set of <<exponent, coefficient>> pairs (compare Jones.tla)
EulerPairs(bi) ==
    LET qs == {bi[x].j : x \in 1..Len(bi)}
        co(q) == FoldLeft(LAMBDA acc, x : acc + (IF bi[x].j = q THEN (IF bi[x].i % 2 = 0 THEN 1 ELSE -1) * bi[x].rank ELSE 0), 0, [x \in 1..Len(bi) |-> x])
    IN  {<<q, co(q)>> : q \in {q \in qs : co(q) # 0}}
\* ---------------------------------------------------------------- isomorphism types of tables
\* a table up to isomorphism: the non-zero groups only, torsion as elementary divisors (the size n of the chain group is
\* not an invariant and is dropped)
CanonRow(r)  == [rank |-> r.rank, ed |-> ElemDivisors(r.tors), f2 |-> r.f2, f3 |-> r.f3]
CanonTot(tab) == {<<tab[k].i, CanonRow(tab[k])>> : k \in {x \in 1..Len(tab) : NonZeroRow(tab[x])}}
CanonBi(bi)   == {<<bi[k].i, bi[k].j, CanonRow(bi[k])>> : k \in {x \in 1..Len(bi) : NonZeroRow(bi[x])}}
\* the table of the mirror image (h = t = 0, over Z): free part (i,j) -> (-i,-j), torsion (i,j) -> (1-i,-j);
\* the dimensions over F_p follow from universal coefficients
CbRank(S, i, j) == IF \E x \in S : x[1] = i /\ x[2] = j THEN (CHOOSE x \in S : x[1] = i /\ x[2] = j)[3].rank ELSE 0
CbEd(S, i, j)   == IF \E x \in S : x[1] = i /\ x[2] = j THEN (CHOOSE x \in S : x[1] = i /\ x[2] = j)[3].ed ELSE <<>>
DualBi(S) ==
    LET P == {<<-x[1], -x[2]>> : x \in {y \in S : y[3].rank > 0}} \cup {<<1 - x[1], -x[2]>> : x \in {y \in S : y[3].ed # <<>>}}
                \cup {<<-x[1], -x[2]>> : x \in {y \in S : y[3].ed # <<>>}}
        rk(p) == CbRank(S, -p[1], -p[2])
        ed(p) == CbEd(S, 1 - p[1], -p[2])
        edUp(p) == CbEd(S, -p[1], -p[2])                 \* the dual torsion one degree up: at (p.i + 1, p.j) it comes from (-p.i, -p.j)
        fp(p, q) == rk(p) + PCount(ed(p), q) + PCount(edUp(p), q)
    IN  {<<p[1], p[2], [rank |-> rk(p), ed |-> ed(p), f2 |-> fp(p, 2), f3 |-> fp(p, 3)]>> :
            p \in {x \in P : rk(x) > 0 \/ ed(x) # <<>> \/ fp(x, 2) > 0 \/ fp(x, 3) > 0}}
TotalRank(tab) == FoldLeft(LAMBDA acc, x : acc + tab[x].rank, 0, [x \in 1..Len(tab) |-> x])
=============================================================================
