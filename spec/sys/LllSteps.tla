------------------------------ MODULE LllSteps ------------------------------
(***************************************************************************)
(* C10, step level: the LLL working data of the implementation as a state  *)
(* machine over Z.  State: the basis B, the working index `step` and the   *)
(* implementation's bookkeeping det / lam.  One action per state change of *)
(* the code (setup, add_row_to, swap, next, back).  The invariant that     *)
(* makes LLL correct - det and lam ARE the integral Gram-Schmidt data of    *)
(* the current basis, defined by Gram determinants - is checked after      *)
(* every step; swaps happen only when the Lovasz test fails and strictly   *)
(* decrease the potential, advances only when it holds.                    *)
(***************************************************************************)
EXTENDS LLL

VARIABLES B, step, det, lam, pot
lvars == <<B, step, det, lam, pot>>

D(M, j) == IF j = 0 THEN BOne ELSE GramDet(RZ, M, j)
\* potential prod_j d_j as a sequence compared lexicographically is unnecessary: a swap at k changes only d_{k-1}
LovOK(M, k) ==    \* 1-based row k >= 2:  4 (d_{k-2} d_k + lam_{k,k-1}^2) >= 3 d_{k-1}^2
    BCmp(BMul(BN(4), BAdd(BMul(D(M, k-2), D(M, k)), BMul(Lam(RZ, M, k, k-1), Lam(RZ, M, k, k-1)))),
         BMul(BN(3), BMul(D(M, k-1), D(M, k-1)))) >= 0

\* the bookkeeping equals the Gram data of the basis
DataOK == /\ Len(det) = B.m /\ \A j \in 1..B.m : det[j] = D(B, j)
          /\ \A i \in 1..B.m : \A j \in 1..i-1 : lam[i][j] = Lam(RZ, B, i, j)
StepOK == B.m = 0 \/ (step >= 1 /\ step <= B.m)

Setup(M, d, l)         == B' = M /\ det' = d /\ lam' = l /\ step' = 1 /\ pot' = BZero
\* row k += r * row i   (0-based i < k)
AddRowTo(i, k, r, d, l) == /\ i < k /\ B' = MAddRowTo(RZ, B, i + 1, k + 1, r) /\ det' = d /\ lam' = l /\ UNCHANGED <<step, pot>>
\* swap rows k-1, k (0-based k = step): only when the Lovasz test fails; d_{k} (1-based index k) strictly decreases
Swap(k, d, l)          == /\ k = step /\ k >= 1 /\ ~LovOK(B, k + 1)
                          /\ B' = MSwapRows(B, k, k + 1) /\ det' = d /\ lam' = l
                          /\ BCmp(d[k], det[k]) < 0
                          /\ pot' = d[k] /\ UNCHANGED step
Next == /\ LovOK(B, step + 1) /\ step' = step + 1 /\ UNCHANGED <<B, det, lam, pot>>
Back == /\ step' = (IF step > 1 THEN step - 1 ELSE step) /\ UNCHANGED <<B, det, lam, pot>>

Init == B = [m |-> 0, n |-> 0, a |-> <<>>] /\ step = 1 /\ det = <<>> /\ lam = <<>> /\ pot = BZero
=============================================================================
