------------------------------- MODULE LinkEv -------------------------------
(* Event view of Link/Braid: an event record {op, args.., ans} selects the action.
   Pre(e)  - the documented precondition of the call holds (the driver's obligation);
   Step(e) - the event is the corresponding action of Link.tla / the closure contract of Braid.tla.
   Every event carries  res ("ok" | "panic")  and  d  (the data of the link object after the call). *)
EXTENDS Braid

FnOfPairs(ps) == [x \in {ps[k][1] : k \in 1..Len(ps)} |-> ps[CHOOSE k \in 1..Len(ps) : ps[k][1] = x][2]]
IsBits(s)     == \A k \in 1..Len(s) : s[k] \in {0, 1}

Pre(e) ==
    CASE e.op = "load"      -> Valid(FromPD(e.pd))
      [] e.op = "closure"   -> e.n >= 2 /\ IsWord(e.n, e.word) /\ NoFreeLoop(e.n, e.word)
      [] e.op = "renumber"  -> IsRenumbering(dg, FnOfPairs(e.f))
      [] e.op = "reorder"   -> IsPermOf(e.pi, Len(dg))
      [] e.op = "kink"      -> AllCrossings(dg) /\ e.x \in Edges(dg) /\ e.kind \in KinkKinds
      [] e.op = "disjoint"  -> AllCrossings(dg) /\ Valid(FromPD(e.pd))
      [] e.op = "connsum"   -> AllCrossings(dg) /\ Valid(FromPD(e.pd)) /\ e.x \in Edges(dg) /\ e.y \in Edges(FromPD(e.pd))
      [] e.op = "resolve"   -> AllCrossings(dg) /\ Len(e.s) = Len(dg) /\ IsBits(e.s)
      [] e.op = "resolve_at" -> e.k < CrossingNum(dg) /\ e.r \in {0, 1}
      [] e.op = "state"     -> AllCrossings(dg) /\ Len(e.s) = Len(dg) /\ IsBits(e.s)
      [] e.op \in {"signs", "writhe", "posneg", "seifert"} -> AllCrossings(dg)
      [] OTHER -> TRUE

Step(e) ==
    /\ e.res = "ok"
    /\ CASE e.op = "reset"      -> dg' = <<>> /\ wr' = 0 /\ nc' = 0 /\ out' = NoOut /\ res' = "ok"
         [] e.op = "load"       -> Load(e.pd)
         [] e.op = "closure"    -> /\ ClosureOK(e.n, e.word, FromPD(e.pd))
                                   /\ dg' = FromPD(e.pd)
                                   /\ wr' = ExpSum(e.word)
                                   /\ nc' = CycleCount(e.n, e.word)
                                   /\ out' = NoOut /\ res' = "ok"
         [] e.op = "mirror"     -> DoMirror
         [] e.op = "renumber"   -> DoRenumber(FnOfPairs(e.f))
         [] e.op = "reorder"    -> DoReorder(e.pi)
         [] e.op = "kink"       -> DoKink(e.x, e.kind)
         [] e.op = "disjoint"   -> DoDisjoint(e.pd)
         [] e.op = "connsum"    -> DoConnSum(e.x, e.pd, e.y)
         [] e.op = "resolve"    -> DoResolve(e.s)
         [] e.op = "resolve_at" -> DoResolveAt(e.k, e.r)
         [] e.op = "components" -> ObsComponents(e.ans)
         [] e.op = "is_knot"    -> ObsIsKnot(e.ans)
         [] e.op = "crossing_num" -> ObsCrossingNum(e.ans)
         [] e.op = "signs"      -> ObsSigns(e.ans)
         [] e.op = "writhe"     -> ObsWrithe(e.ans)
         [] e.op = "posneg"     -> ObsPosNeg(e.ans)
         [] e.op = "seifert"    -> ObsSeifert(e.ans)
         [] e.op = "state"      -> ObsState(e.s, e.ans)
         [] OTHER -> FALSE
=============================================================================
