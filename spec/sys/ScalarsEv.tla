----------------------------- MODULE ScalarsEv -----------------------------
EXTENDS Scalars
W(e) == e.w
Step(e) == e.res = "ok" /\
    CASE e.op = "reset"   -> Reset(e.ring, e.vals)
      [] e.op \in {"add", "sub", "mul"} -> Bin(e.op, e.d, e.x, e.y, e.v, e.w)
      [] e.op = "neg"     -> Neg(e.d, e.x, e.v, e.w)
      [] e.op = "zero"    -> Zero(e.d, e.v)
      [] e.op = "one"     -> One(e.d, e.v)
      [] e.op = "load"    -> Load(e.d, e.raw, e.v, e.w)
      [] e.op = "from_int" -> FromInt(e.d, e.n, e.v, e.w)
      [] e.op = "eq"      -> Eq(e.x, e.y, e.out)
      [] e.op = "is_zero" -> IsZero(e.x, e.out)
      [] e.op = "is_one"  -> IsOne(e.x, e.out)
      [] e.op = "cmp"     -> IF R.k = "Q" THEN Cmp(e.x, e.y, e.out) ELSE CmpZ(e.x, e.y, e.out)
      [] OTHER -> FALSE
=============================================================================
