------------------------------- MODULE CliEv -------------------------------
(* Event view of Cli: one recorded run of the real `ykh` binary = one event.
   {op:"invoke", cmd, ctype, cv (tokens), mirror, reduced, ic,            -- the abstract point
    exit, out, msg,                                                       -- the observable
    table: {cols, rows, cells:[{c,r,tok}], zeros},                        -- lexed stdout (only for a table)
    lib:   {res, ring, h, t, mirror, reduced, sym, cells:[{i,j,rank,tors}]}}  -- what the library returned when the
                                                                              harness called it directly
   An error point must be an error result; a table point must exit 0 with the right kind of table, the harness
   must have asked the library for exactly the ring / (h,t) / flags the options denote, and the printed cells
   must be exactly the library's non-zero groups at the same (i,j) (for the generator table of ckh where
   the simplified complex is not determined by the parameters - over Z, or with inhomogeneous (h,t) - a well-formed
   table of free groups with the library's Euler characteristic, per quantum degree where that is determined). *)
EXTENDS Cli

Step(e) ==
    /\ e.op = "invoke"
    /\ e.cmd \in Cmds /\ e.ctype \in CTypes /\ e.ic \in InputClasses
    /\ LET p  == Point(e.cmd, e.ctype, e.cv, e.mirror, e.reduced, e.ic)
           o  == OutcomeAt(p)
           ob == [exit |-> e.exit, out |-> e.out, msg |-> e.msg] IN
         /\ inv' = p /\ obs' = ob
         /\ IF o.class = "Error" THEN Conforms(o, ob) /\ fail' = FALSE
            ELSE /\ LET c == LibCall(e.cmd, e.ctype, e.cv, e.mirror, e.reduced, e.ic) IN
                      /\ e.lib.ring = c.ring /\ e.lib.h = c.h /\ e.lib.t = c.t
                      /\ e.lib.mirror = c.mirror /\ e.lib.reduced = c.reduced
                 /\ CASE e.lib.res = "ok" ->
                           \/ /\ Conforms(o, ob)
                              /\ fail' = FALSE
                              /\ e.lib.kind = o.class
                              /\ IF o.class = "GenTable"
                                 THEN GenMatches(GenMode(e.ctype, e.cv), e.table, e.lib)
                                 ELSE TableMatches(e.table, e.lib)
                           \* the binary ran out of the machine-integer range (how large the intermediate numbers get depends on
                           \* the elimination order, not on the parameters): an internal failure, to be reported as an error
                           \/ (e.overflow /\ Conforms(Err("internal"), ob) /\ fail' = TRUE)
                      \* the same happened to the harness' own library call: nothing to compare the table with
                      [] e.lib.res = "overflow" -> \/ (Conforms(o, ob) /\ fail' = FALSE)
                                                  \/ (Conforms(Err("internal"), ob) /\ fail' = TRUE)
                      [] e.lib.res = "panic" -> Conforms(Err("internal"), ob) /\ fail' = TRUE   \* the library itself fails here
                      [] OTHER -> FALSE
=============================================================================
