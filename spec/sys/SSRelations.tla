----------------------------- MODULE SSRelations ----------------------------
(***************************************************************************)
(* C06 (second half).  The s-type invariant ss_c of a knot as a function   *)
(* of the history of its diagram.                                          *)
(*                                                                         *)
(* The machine is Moves.tla plus the history variable ssv: for every       *)
(* parameter c observed so far (a key: "2", "3", "H2", "H3", "HQ") the     *)
(* integer the relations predict for the current diagram.                  *)
(*   isotopy, global reversal      the value is unchanged                  *)
(*   mirror                        the value is negated                    *)
(*   crossing change               a positive crossing made negative:      *)
(*                                   ss(K-) <= ss(K+) <= ss(K-) + 2        *)
(*                                 (read backwards for negative -> positive)*)
(*   reduced / unreduced           the same value                          *)
(* A call that panics is not a step (the routine is total on knots).       *)
(* For knot diagrams with at most AbsSS crossings that start a history or  *)
(* result from a crossing change (everything else is tied to those by the  *)
(* relations) the knot is identified by its Jones polynomial (the state    *)
(* sum of Jones.tla, which separates the knots up to five crossings and    *)
(* their mirrors) and the value must be the classical one (all slice-torus *)
(* invariants agree there).                                                *)
(***************************************************************************)
EXTENDS LeeCanon

CONSTANT AbsSS
VARIABLE ssv
svars == <<dg, wr, nc, out, res, bw, ssv>>

\* ---------------------------------------------------------------- literature values (standard sign: positive knots have s > 0)
K31 == <<<<1, 4, 2, 5>>, <<3, 6, 4, 1>>, <<5, 2, 6, 3>>>>                                                   \* left-handed trefoil
K41 == <<<<4, 2, 5, 1>>, <<8, 6, 1, 5>>, <<6, 3, 7, 4>>, <<2, 7, 3, 8>>>>
K51 == <<<<1, 6, 2, 7>>, <<3, 8, 4, 9>>, <<5, 10, 6, 1>>, <<7, 2, 8, 3>>, <<9, 4, 10, 5>>>>                 \* negative (2,5) torus knot
K52 == <<<<1, 4, 2, 5>>, <<3, 8, 4, 9>>, <<5, 10, 6, 1>>, <<9, 6, 10, 7>>, <<7, 2, 8, 3>>>>                 \* negative 5_2
LitKnots == {<<K31, -2>>, <<K41, 0>>, <<K51, -4>>, <<K52, -2>>}
LitTable == {<<Q0, 0>>} \cup {<<PNorm(Jones(FromPD(x[1]))), x[2]>> : x \in LitKnots}
                        \cup {<<PNorm(Jones(Mirror(FromPD(x[1])))), -x[2]>> : x \in LitKnots}
LitKnown(D) == \E x \in LitTable : x[1] = PNorm(Jones(D))
LitSS(D)    == (CHOOSE x \in LitTable : x[1] = PNorm(Jones(D)))[2]
AbsSSApplies(D) == Len(D) <= AbsSS /\ Len(D) > 0 /\ AllCrossings(D)

\* ---------------------------------------------------------------- the relations
\* old: value before the move, v: value after; xs: sign (before the move) of the crossing that is changed
Window(xs, old, v) == IF xs = 1 THEN v <= old /\ old <= v + 2          \* K+ -> K-
                                ELSE old <= v /\ v <= old + 2          \* K- -> K+
SSRel(class, xs, old, v) ==
    CASE class \in {"iso", "rev"} -> v = old
      [] class = "mirror"        -> v = -old
      [] class = "xch"           -> Window(xs, old, v)
      [] OTHER                   -> TRUE
SSKeys == {"2", "3", "H2", "H3", "HQ"}
\* ss: sequence of [c, red, ring, v, ok, ovf].  ring: "i64" | "big" (the same parameter over i64 / BigInt) | "poly".
\* ovf = TRUE: the call over i64 left the machine-integer envelope (arithmetic overflow); such an entry carries no claim,
\* but the same call over BigInt must then be present (the property is about Z).
SSPre(ss) == \A k \in 1..Len(ss) : /\ ss[k].c \in SSKeys /\ ss[k].red \in BOOLEAN /\ ss[k].ok \in BOOLEAN /\ ss[k].ovf \in BOOLEAN
                                   /\ ss[k].ring \in {"i64", "big", "poly"} /\ (ss[k].ovf => ss[k].ring = "i64" /\ ~ss[k].ok)
SSObs(ssAll, class, xs, D) ==
    /\ \A k \in 1..Len(ssAll) : ssAll[k].ovf => \E m \in 1..Len(ssAll) : ssAll[m].c = ssAll[k].c /\ ssAll[m].red = ssAll[k].red /\ ssAll[m].ring = "big"
    /\ \E ss \in {SelectSeq(ssAll, LAMBDA x : ~x.ovf)} :
       /\ \A k \in 1..Len(ss) : ss[k].ok                                                  \* no panic
       /\ \A k, m \in 1..Len(ss) : ss[k].c = ss[m].c => ss[k].v = ss[m].v                 \* reduced = unreduced, i64 = BigInt
       /\ \A k \in 1..Len(ss) : ss[k].c \in DOMAIN ssv => SSRel(class, xs, ssv[ss[k].c], ss[k].v)
       /\ (class \in {"new", "xch"} /\ AbsSSApplies(D) /\ Len(ss) > 0) => \E lit \in {IF LitKnown(D) THEN LitSS(D) ELSE 999} :
                                lit # 999 => \A k \in 1..Len(ss) : ss[k].v = lit
       /\ LET seen == {ss[k].c : k \in 1..Len(ss)}
              val(c) == ss[CHOOSE k \in 1..Len(ss) : ss[k].c = c].v
              carry == IF class \in {"iso", "rev", "mirror"} THEN DOMAIN ssv ELSE {}
          IN  ssv' = [c \in seen \cup carry |-> IF c \in seen THEN val(c) ELSE IF class = "mirror" THEN -ssv[c] ELSE ssv[c]]

SInit == MInit /\ ssv = [x \in {} |-> 0]
=============================================================================
