------------------------------- MODULE PathM -------------------------------
(***************************************************************************)
(* Extension (serves C18 / C01: link components, Seifert circles and the   *)
(* circles of a resolution are Paths; tangle components wrap a Path).      *)
(* yui_link::Path as a two-register machine.  A path is a record           *)
(*   [edges |-> sequence of edge labels, closed |-> BOOLEAN]               *)
(* and denotes, when its labels are pairwise distinct (SIMPLE), a simple   *)
(* path (arc) or a simple cycle (circle) in the graph whose vertices are   *)
(* the edge labels.  Arcs are unoriented, circles unoriented and unbased:  *)
(* that is what unori_eq decides.  The library builds only simple paths    *)
(* (an edge label is traversed once), and the observers are specified on   *)
(* those.                                                                  *)
(***************************************************************************)
EXTENDS PathOps

VARIABLES p, q          \* the two registers
pvars == <<p, q>>

\* ================= actions =================
NewP(es, c)     == Len(es) > 0 /\ p' = Mk(es, c) /\ UNCHANGED q
NewQ(es, c)     == Len(es) > 0 /\ q' = Mk(es, c) /\ UNCHANGED p
NewPanics(es)   == Len(es) = 0 /\ UNCHANGED pvars                  \* Path::new asserts a non-empty edge list
Swap            == p' = q /\ q' = p
\* observers of p (`out` recorded)
LenIs(out)        == out = Len(p.edges) /\ UNCHANGED pvars
EdgesIs(out, c)   == out = p.edges /\ c = p.closed /\ UNCHANGED pvars
ContainsIs(e, out) == out = (e \in SetOf(p.edges)) /\ UNCHANGED pvars
MinEdgeIs(out)    == out = MinOf(SetOf(p.edges)) /\ UNCHANGED pvars
\* ends(): Some((first, last)) for arcs, None for circles (out = <<>>)
EndsIs(out)       == out = (IF IsArc(p) THEN <<First(p), Last(p)>> ELSE <<>>) /\ UNCHANGED pvars
KindIs(arc, circ) == arc = IsArc(p) /\ circ = p.closed /\ UNCHANGED pvars
ShownIs(out)      == out = Shown(p) /\ UNCHANGED pvars
ConnectableIs(out, both) == out = Connectable(p, q) /\ both = BothEnds(p, q) /\ UNCHANGED pvars
UnoriEqIs(out)    == ((Simple(p) /\ Simple(q)) => out = UnoriEq(p, q)) /\ UNCHANGED pvars
\* mutators of p
Reduce(r)         == r = Reduced(p) /\ p' = r /\ UNCHANGED q
Connect(r)        == GlueOK(p, q) /\ ConnectResultOK(p, q, r) /\ p' = r /\ UNCHANGED q
ConnectPanics     == ~Connectable(p, q) /\ UNCHANGED pvars            \* connect asserts is_connectable
\* stateless
AdjIs(a, b, cross, out) == out = Adjacent(a, b, cross) /\ UNCHANGED pvars

Init == p = Null /\ q = Null
=============================================================================
