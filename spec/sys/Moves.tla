-------------------------------- MODULE Moves -------------------------------
(***************************************************************************)
(* C02 / C06.  The machine of diagram moves shared by KhTable.tla and      *)
(* SSRelations.tla.  State: the diagram dg of Link.tla with its ghosts     *)
(* wr, nc, and bw = <<strands, word>> when the isotopy class of dg is that *)
(* of the closure of a braid word (Jones.tla's variable; jp is not used).  *)
(*                                                                         *)
(* Isotopies (the class of the oriented link does not change):             *)
(*   word moves of Braid.tla / Jones.tla: conjugation and stabilisation    *)
(*     (Markov), insertion of sigma sigma^-1 (Reidemeister 2), the braid   *)
(*     relation (Reidemeister 3), far commutation;                         *)
(*   on the PD code: the four Reidemeister-1 kinks on any edge,            *)
(*     Reidemeister 2 across a face (one strand pushed over another),      *)
(*     renumbering of edges, reordering of crossings.                       *)
(* Global orientation reversal: every code <<a,b,c,d>> becomes <<c,d,a,b>>.*)
(* Mirror: every crossing switched.                                        *)
(* Crossing change (C06): the code of one crossing rotated so that the     *)
(*   former over-strand is the under-strand, directions kept; or the type  *)
(*   of the crossing toggled; or one letter of the braid word inverted.    *)
(* An event e (what the harness did) selects the action; MClass(e) says    *)
(* how the class of the link changes: "new", "iso", "rev", "mirror", "xch".*)
(***************************************************************************)
EXTENDS KhSmall

mvars == <<dg, wr, nc, out, res, bw>>

\* ---------------------------------------------------------------- new diagram operators
ReverseAll(D) == [i \in 1..Len(D) |-> [D[i] EXCEPT !.e = <<D[i].e[3], D[i].e[4], D[i].e[1], D[i].e[2]>>]]

\* crossing change at crossing k for the orientation with head set H (entry positions):
\* the 1-3 strand becomes the 0-2 strand, entered at its own entry position
ChangeCrossing(D, H, k) ==
    LET e == D[k].e
    IN  [D EXCEPT ![k].e = IF <<k, 3>> \in H THEN <<e[4], e[1], e[2], e[3]>> ELSE <<e[2], e[3], e[4], e[1]>>]
\* the same crossing change in the other encoding
ToggleCrossing(D, k) == [D EXCEPT ![k].t = MirrorType(D[k].t)]
\* the sign of crossing k when it is the same for every admissible orientation (always so for a knot), else 0
SignAt(D, k) == LET S == {sg[k] : sg \in AdmSigns(D)} IN IF Cardinality(S) = 1 THEN CHOOSE s \in S : TRUE ELSE 0

\* ---------------------------------------------------------------- Reidemeister 2 on the PD code
\* Two different edges x, y lying on the boundary of one face; a finger of x is pushed across y inside that
\* face (over y if over = TRUE, else under it).  H: head set (entry positions) of the orientation.
\* FaceF (Link.tla) walks round a face keeping it on the RIGHT of the direction of travel, the orbit through a
\* position p being the face to the right of the edge at p travelled away from p's crossing.  Hence for an edge
\* with head position hp and tail position tp = mate(hp): the face on its right is the orbit of tp, the face on
\* its left the orbit of hp.  sx, sy \in {"L", "R"} say on which side of x resp. y the common face lies.
\* After the move x runs x -> x1 -> x2 and y runs y -> y1 -> y2 (tails keep their labels); picture with x
\* horizontal running left to right, c1 the left and c2 the right new crossing:
\*   A (sx = L, sy = R): y above x, parallel        C (sx = R, sy = L): y below x, parallel
\*   B (sx = L, sy = L): y above x, antiparallel    D (sx = R, sy = R): y below x, antiparallel
R2Codes(x, x1, x2, y, y1, y2, sx, sy, over) ==
    IF over
    THEN CASE sx = "L" /\ sy = "R" -> <<<<y, x, y1, x1>>,  <<y1, x2, y2, x1>>>>
           [] sx = "L" /\ sy = "L" -> <<<<y1, x1, y2, x>>, <<y, x1, y1, x2>>>>
           [] sx = "R" /\ sy = "L" -> <<<<y, x1, y1, x>>,  <<y1, x1, y2, x2>>>>
           [] sx = "R" /\ sy = "R" -> <<<<y1, x, y2, x1>>, <<y, x2, y1, x1>>>>
    ELSE CASE sx = "L" /\ sy = "R" -> <<<<x, y1, x1, y>>,  <<x1, y1, x2, y2>>>>
           [] sx = "L" /\ sy = "L" -> <<<<x, y1, x1, y2>>, <<x1, y1, x2, y>>>>
           [] sx = "R" /\ sy = "L" -> <<<<x, y, x1, y1>>,  <<x1, y2, x2, y1>>>>
           [] sx = "R" /\ sy = "R" -> <<<<x, y2, x1, y1>>, <<x1, y, x2, y1>>>>
SidePos(D, H, x, s) == LET hp == CHOOSE p \in H : EdgeAt(D, p) = x IN IF s = "L" THEN hp ELSE MateF(D)[hp]
CanR2(D, H, x, sx, y, sy) ==
    /\ x \in Edges(D) /\ y \in Edges(D) /\ x # y /\ sx \in {"L", "R"} /\ sy \in {"L", "R"}
    /\ \E O \in Faces(D) : SidePos(D, H, x, sx) \in O /\ SidePos(D, H, y, sy) \in O
R2Move(D, H, x, sx, y, sy, over) ==
    LET hx == CHOOSE p \in H : EdgeAt(D, p) = x
        hy == CHOOSE p \in H : EdgeAt(D, p) = y
        m  == MaxEdge(D)
        cs == R2Codes(x, m + 1, m + 2, y, m + 3, m + 4, sx, sy, over)
    IN  Relabel(Relabel(D, hx, m + 2), hy, m + 4) \o <<[t |-> "X", e |-> cs[1]], [t |-> "X", e |-> cs[2]]>>

\* ---------------------------------------------------------------- actions on <<dg, wr, nc, out, res, bw>>
NegWord(w) == [k \in 1..Len(w) |-> -w[k]]
Fresh2(D, w, c, b) == dg' = D /\ wr' = w /\ nc' = c /\ out' = NoOut /\ res' = "ok" /\ bw' = b
MLoad(pd)          == Load(pd) /\ bw' = NoWord
MClosure(n, w, pd) == ClosureOK(n, w, FromPD(pd)) /\ Fresh2(FromPD(pd), ExpSum(w), CycleCount(n, w), <<n, w>>)
MWord(mv, n2, w2, pd) ==
    /\ bw[1] >= 2 /\ IsWordMove(mv, bw[1], bw[2], n2, w2)
    /\ ClosureOK(n2, w2, FromPD(pd))
    /\ Fresh2(FromPD(pd), ExpSum(w2), CycleCount(n2, w2), <<n2, w2>>)
MKink(x, kind)  == DoKink(x, kind) /\ UNCHANGED bw
MRenumber(f)    == DoRenumber(f) /\ UNCHANGED bw
MReorder(pi)    == DoReorder(pi) /\ UNCHANGED bw
MR2(x, sx, y, sy, over) == /\ AllCrossings(dg)
                           /\ \E H \in AdmHeadSets(dg) : CanR2(dg, H, x, sx, y, sy) /\ dg' = R2Move(dg, H, x, sx, y, sy, over)
                           /\ UNCHANGED <<wr, nc, bw>> /\ out' = NoOut /\ res' = "ok"
MReverse        == AllCrossings(dg) /\ Fresh2(ReverseAll(dg), wr, nc, NoWord)
MMirror         == DoMirror /\ bw' = IF bw[1] >= 2 THEN <<bw[1], NegWord(bw[2])>> ELSE NoWord
\* crossing changes (k: 1-based index of the crossing / letter)
MXChange(k)     == /\ AllCrossings(dg) /\ k \in 1..Len(dg) /\ SignAt(dg, k) # 0
                   /\ \E H \in AdmHeadSets(dg) : dg' = ChangeCrossing(dg, H, k)
                   /\ wr' = wr - 2 * SignAt(dg, k) /\ nc' = nc /\ out' = NoOut /\ res' = "ok" /\ bw' = NoWord
MXToggle(k)     == /\ AllCrossings(dg) /\ k \in 1..Len(dg) /\ SignAt(dg, k) # 0
                   /\ Fresh2(ToggleCrossing(dg, k), wr - 2 * SignAt(dg, k), nc, NoWord)
MXLetter(k, pd) == /\ bw[1] >= 2 /\ k \in 1..Len(bw[2])
                   /\ LET w2 == [bw[2] EXCEPT ![k] = -bw[2][k]] IN
                        /\ ClosureOK(bw[1], w2, FromPD(pd))
                        /\ Fresh2(FromPD(pd), ExpSum(w2), CycleCount(bw[1], w2), <<bw[1], w2>>)

\* ---------------------------------------------------------------- events
FnOfPairs(ps) == [x \in {ps[k][1] : k \in 1..Len(ps)} |-> ps[CHOOSE k \in 1..Len(ps) : ps[k][1] = x][2]]
MoveOps == {"load", "closure", "word", "kink", "r2", "renumber", "reorder", "reverse", "mirror", "xchange", "xtoggle", "xletter"}

\* the driver's obligations (a failure is a harness bug, not a verdict)
MPre(e) ==
    CASE e.op = "load"     -> Valid(FromPD(e.pd))
      [] e.op = "closure"  -> e.n >= 2 /\ IsWord(e.n, e.word) /\ NoFreeLoop(e.n, e.word)
      [] e.op = "word"     -> e.n >= 2 /\ IsWord(e.n, e.word) /\ NoFreeLoop(e.n, e.word)
                              /\ bw[1] >= 2 /\ IsWordMove(e.mv, bw[1], bw[2], e.n, e.word)
      [] e.op = "kink"     -> AllCrossings(dg) /\ e.x \in Edges(dg) /\ e.kind \in KinkKinds
      [] e.op = "r2"       -> /\ AllCrossings(dg)
                              /\ \E H \in AdmHeadSets(dg) : CanR2(dg, H, e.x, e.sx, e.y, e.sy)
      [] e.op = "renumber" -> IsRenumbering(dg, FnOfPairs(e.f))
      [] e.op = "reorder"  -> IsPermOf(e.pi, Len(dg))
      [] e.op = "reverse"  -> AllCrossings(dg) /\ Len(dg) > 0
      [] e.op \in {"xchange", "xtoggle"} -> AllCrossings(dg) /\ e.k \in 1..Len(dg) /\ SignAt(dg, e.k) # 0
      [] e.op = "xletter"  -> bw[1] >= 2 /\ e.k \in 1..Len(bw[2])
      [] OTHER -> TRUE

MStep(e) ==
    CASE e.op = "load"     -> MLoad(e.pd)
      [] e.op = "closure"  -> MClosure(e.n, e.word, e.pd)
      [] e.op = "word"     -> MWord(e.mv, e.n, e.word, e.pd)
      [] e.op = "kink"     -> MKink(e.x, e.kind)
      [] e.op = "r2"       -> MR2(e.x, e.sx, e.y, e.sy, e.over)
      [] e.op = "renumber" -> MRenumber(FnOfPairs(e.f))
      [] e.op = "reorder"  -> MReorder(e.pi)
      [] e.op = "reverse"  -> MReverse
      [] e.op = "mirror"   -> MMirror
      [] e.op = "xchange"  -> MXChange(e.k)
      [] e.op = "xtoggle"  -> MXToggle(e.k)
      [] e.op = "xletter"  -> MXLetter(e.k, e.pd)
      [] OTHER -> FALSE

MClass(e) ==
    CASE e.op \in {"load", "closure"} -> "new"
      [] e.op \in {"word", "kink", "r2", "renumber", "reorder"} -> "iso"
      [] e.op = "reverse"  -> "rev"
      [] e.op = "mirror"   -> "mirror"
      [] e.op \in {"xchange", "xtoggle", "xletter"} -> "xch"
      [] OTHER -> "none"
\* the sign (in the state before the event) of the crossing a crossing change switches
XSignOf(e) == IF e.op = "xletter" THEN SgnI(bw[2][e.k]) ELSE SignAt(dg, e.k)

MInit == LinkInit /\ bw = NoWord /\ jp = POne          \* jp (Jones.tla) is not used by these machines: it stays constant
MReset == dg' = <<>> /\ wr' = 0 /\ nc' = 0 /\ out' = NoOut /\ res' = "ok" /\ bw' = NoWord
=============================================================================
