------------------------------ MODULE TopSort ------------------------------
(***************************************************************************)
(* Extension (serves C11): topological sorting as used for the pivot       *)
(* result.  Input: a set of keys and for every key a list of successor     *)
(* vertices.  The routine must succeed exactly when every listed vertex is *)
(* a key and the graph is acyclic, and then return every key once, each    *)
(* key before all of its successors.                                       *)
(***************************************************************************)
EXTENDS Naturals, Sequences, FiniteSets
VARIABLE calls
EdgeSet(keys, succ) == UNION {{<<k, succ[k][x]>> : x \in 1..Len(succ[k])} : k \in keys}
Closed(keys, succ)  == \A e \in EdgeSet(keys, succ) : e[2] \in keys
RECURSIVE PeelV(_,_)
PeelV(S, E) == LET free == {v \in S : \A e \in E : ~(e[2] = v /\ e[1] \in S)} IN
               IF free = {} THEN S ELSE PeelV(S \ free, E)
AcyclicG(keys, succ) == PeelV(keys, EdgeSet(keys, succ)) = {}
Pos(order, v) == CHOOSE p \in 1..Len(order) : order[p] = v
OrderOK(keys, succ, order) ==
    /\ Len(order) = Cardinality(keys) /\ {order[p] : p \in 1..Len(order)} = keys
    /\ \A e \in EdgeSet(keys, succ) : Pos(order, e[1]) < Pos(order, e[2])
Sorted(keys, succ, ok, order) ==
    /\ ok = (Closed(keys, succ) /\ AcyclicG(keys, succ))
    /\ ok => OrderOK(keys, succ, order)
    /\ calls' = calls + 1
Init == calls = 0
=============================================================================
