-------------------------------- MODULE Jones -------------------------------
(***************************************************************************)
(* C04.  The unnormalised Jones polynomial from the Kauffman state sum on   *)
(* the PD code (definitions of Link.tla), and its relation to a Khovanov    *)
(* table.                                                                   *)
(*                                                                         *)
(*   J(D) = (-1)^{n-} q^{n+ - 2n-}  SUM_s (-q)^{|s|} (q + q^-1)^{circles(s)}  *)
(*   Euler(table) = SUM_{i,j} (-1)^i q^j rank(i,j)                          *)
(*                                                                         *)
(* Laurent polynomials are functions from a finite set of exponents to Int  *)
(* (zero coefficients allowed; PEq compares them as polynomials).           *)
(* The machine keeps, next to the diagram of Link.tla, the polynomial `jp`  *)
(* of the isotopy class: isotopy moves (Reidemeister-1 kinks, renumbering,  *)
(* reordering, braid relations, Markov moves on the braid word) must leave  *)
(* the implementation's polynomial equal to jp, mirroring must turn it into *)
(* jp(q^-1), and the Euler characteristic of every Khovanov table computed  *)
(* on the way must equal jp.  For diagrams with at most AbsN crossings the  *)
(* implementation's polynomial must moreover equal J(D) as defined here.    *)
(***************************************************************************)
EXTENDS Braid

CONSTANT AbsN      \* diagrams with at most this many crossings are checked against the state sum itself

\* ---------------------------------------------------------------- Laurent polynomials
Coef(p, k)   == IF k \in DOMAIN p THEN p[k] ELSE 0
PEq(p, r)    == \A k \in (DOMAIN p) \cup (DOMAIN r) : Coef(p, k) = Coef(r, k)
PNorm(p)     == [k \in {j \in DOMAIN p : p[j] # 0} |-> p[k]]
PAdd(p, r)   == [k \in (DOMAIN p) \cup (DOMAIN r) |-> Coef(p, k) + Coef(r, k)]
PScale(c, p) == [k \in DOMAIN p |-> c * p[k]]
PShift(p, d) == [k \in {j + d : j \in DOMAIN p} |-> p[k - d]]
PInv(p)      == [k \in {-j : j \in DOMAIN p} |-> p[-k]]                 \* q -> q^-1
SumOverSet(S, f) == LET q == SetToSeq(S) IN SumSeq([i \in 1..Len(q) |-> f[q[i]]])
PMul(p, r)   == [k \in {i + j : i \in DOMAIN p, j \in DOMAIN r} |->
                   SumOverSet({i \in DOMAIN p : (k - i) \in DOMAIN r}, [i \in DOMAIN p |-> p[i] * Coef(r, k - i)])]
POne         == [k \in {0} |-> 1]
PMono(k, c)  == [j \in {k} |-> c]
RECURSIVE PPow(_, _)
PPow(p, n)   == IF n = 0 THEN POne ELSE PMul(p, PPow(p, n - 1))
PSumSeq(ps)  == FoldLeft(PAdd, [k \in {} |-> 0], ps)
Q0           == [k \in {-1, 1} |-> 1]                                   \* q + q^-1
MinusOneTo(n) == IF n % 2 = 0 THEN 1 ELSE -1
PolyOfPairs(ps) == [k \in {ps[i][1] : i \in 1..Len(ps)} |-> ps[CHOOSE i \in 1..Len(ps) : ps[i][1] = k][2]]
PairsWellFormed(ps) == \A i, j \in 1..Len(ps) : ps[i][1] = ps[j][1] => i = j
PairsOfPoly(p)  == {<<k, p[k]>> : k \in {j \in DOMAIN p : p[j] # 0}}

\* ---------------------------------------------------------------- Kauffman state sum
\* (all entries of D are crossings, X or Xm)
Bracket(D) ==
    LET n     == Len(D)
        circ  == [s \in States(n) |-> Cardinality(CirclesOfState(D, s))]
        rs    == {circ[s] : s \in States(n)}
        pw    == [r \in rs |-> PPow(Q0, r)]
        cnt(w, r) == Cardinality({s \in States(n) : SumSeq(s) = w /\ circ[s] = r})
        terms == SetToSeq({<<w, r>> \in (0..n) \X rs : cnt(w, r) > 0})
    IN  PSumSeq([i \in 1..Len(terms) |->
                   LET w == terms[i][1]  r == terms[i][2]
                   IN  PScale(cnt(w, r) * MinusOneTo(w), PShift(pw[r], w))])
JonesWith(D, pn) == PScale(MinusOneTo(pn[2]), PShift(Bracket(D), pn[1] - 2 * pn[2]))
\* on the sphere the signed crossing numbers are determined (Link.tla, model-checked)
Jones(D) == IF AllResolved(D) THEN PPow(Q0, Cardinality(Components(D)))
            ELSE JonesWith(D, CHOOSE pn \in PosNegSet(D) : TRUE)

\* ---------------------------------------------------------------- Euler characteristic of a bigraded table
\* tab: sequence of <<i, j, rank>>
Euler(tab) == PSumSeq([k \in 1..Len(tab) |-> PMono(tab[k][2], MinusOneTo(tab[k][1]) * tab[k][3])])
TableWellFormed(tab) == \A k \in 1..Len(tab) : tab[k][3] >= 0

\* ---------------------------------------------------------------- the machine
VARIABLES jp,      \* the polynomial of the isotopy class of the current diagram (normalised)
          bw       \* <<strands, word>> if the current diagram is the closure of a braid word, else <<0, <<>>>>
jvars == <<dg, wr, nc, out, res, jp, bw>>
NoWord == <<0, <<>>>>

\* what is demanded of the implementation's polynomial p for diagram D
AbsOK(D, p) == (Len(D) <= AbsN /\ (AllCrossings(D) \/ AllResolved(D))) => PEq(p, Jones(D))

JInit == LinkInit /\ jp = POne /\ bw = NoWord

JLoad(pd, p)  == /\ Load(pd) /\ AbsOK(FromPD(pd), p)
                 /\ jp' = PNorm(p) /\ bw' = NoWord
JClosure(n, w, pd, p) ==
                 /\ ClosureOK(n, w, FromPD(pd))
                 /\ dg' = FromPD(pd) /\ wr' = ExpSum(w) /\ nc' = CycleCount(n, w) /\ out' = NoOut /\ res' = "ok"
                 /\ AbsOK(FromPD(pd), p)
                 /\ jp' = PNorm(p) /\ bw' = <<n, w>>
\* isotopies of the diagram: the polynomial must not change
JKeep(p)      == PEq(p, jp) /\ AbsOK(dg', p) /\ UNCHANGED jp
JKink(x, kind, p) == DoKink(x, kind) /\ JKeep(p) /\ bw' = NoWord
JRenumber(f, p)   == DoRenumber(f) /\ JKeep(p) /\ UNCHANGED bw
JReorder(pi, p)   == DoReorder(pi) /\ JKeep(p) /\ bw' = NoWord
\* mirror: q -> q^-1
JMirror(p)    == DoMirror /\ PEq(p, PInv(jp)) /\ AbsOK(dg', p) /\ jp' = PNorm(p) /\ bw' = NoWord
\* disjoint union with a second valid diagram whose polynomial the implementation reported as p2: product
JDisjoint(pd, p2, p) == /\ DoDisjoint(pd) /\ AbsOK(FromPD(pd), p2)
                        /\ PEq(p, PMul(jp, p2)) /\ AbsOK(dg', p)
                        /\ jp' = PNorm(p) /\ bw' = NoWord
\* moves on the braid word
IsWordMove(mv, n, w, n2, w2) ==
    CASE mv.kind = "conj"  -> n2 = n /\ w2 = Conj(w)
      [] mv.kind = "stab"  -> n2 = n + 1 /\ mv.s \in {1, -1} /\ w2 = Stabilise(n, w, mv.s)
      [] mv.kind = "pair"  -> n2 = n /\ mv.k \in 0..Len(w) /\ mv.g # 0 /\ AbsI(mv.g) < n /\ w2 = InsertPair(w, mv.k, mv.g)
      [] mv.kind = "comm"  -> n2 = n /\ CanCommute(w, mv.k) /\ w2 = Commute(w, mv.k)
      [] mv.kind = "braid" -> n2 = n /\ CanBraidRel(w, mv.k) /\ w2 = BraidRel(w, mv.k)
      [] OTHER -> FALSE
JWordMove(mv, n2, w2, pd, p) ==
                 /\ bw[1] >= 2 /\ IsWordMove(mv, bw[1], bw[2], n2, w2)
                 /\ ClosureOK(n2, w2, FromPD(pd))
                 /\ dg' = FromPD(pd) /\ wr' = ExpSum(w2) /\ nc' = CycleCount(n2, w2) /\ out' = NoOut /\ res' = "ok"
                 /\ PEq(p, jp) /\ AbsOK(FromPD(pd), p)
                 /\ UNCHANGED jp /\ bw' = <<n2, w2>>
\* observers
JObs(o)       == UNCHANGED <<dg, wr, nc, jp, bw>> /\ out' = o /\ res' = "ok"
JAgain(p)     == PEq(p, jp) /\ JObs(p)                       \* jones_polynomial called again on the same object
JEuler(tab)   == TableWellFormed(tab) /\ PEq(Euler(tab), jp) /\ JObs(tab)

\* invariant: jp is the polynomial of the current diagram whenever the state sum is affordable
JGhost == (Len(dg) <= AbsN /\ (AllCrossings(dg) \/ AllResolved(dg))) => PEq(jp, Jones(dg))
=============================================================================
