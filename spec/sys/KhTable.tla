------------------------------- MODULE KhTable ------------------------------
(***************************************************************************)
(* C02.  Bigraded Khovanov tables and what the moves of Moves.tla do to    *)
(* them.                                                                   *)
(*                                                                         *)
(* A recorded table is a sequence of rows <<i, j, rank, tors>> (tors: the  *)
(* torsion coefficients the library lists in bidegree (i,j)).  Tables are  *)
(* compared up to isomorphism of the groups: Norm(tab) keeps the free      *)
(* ranks per bidegree and, per bidegree, the multiset of prime-power       *)
(* orders of the torsion part (so Z/6 = Z/2 + Z/3, signs of the            *)
(* coefficients are immaterial).                                           *)
(*   SameTable(a, b)    a = b                                              *)
(*   MirrorDual(a, b)   free (i,j) -> (-i,-j), torsion (i,j) -> (1-i,-j)   *)
(* The machine is Moves.tla plus the history variable kt: for every slot   *)
(* <<ring, route, reduced>> observed so far the (normalised) table of the  *)
(* isotopy class of the current diagram.  A move that is an isotopy or the *)
(* global orientation reversal must leave every observed slot unchanged, a *)
(* mirror must dualise it; a slot seen for the first time is bound.        *)
(* Diagrams with at most AbsKh crossings are moreover compared with the    *)
(* definition (KhSmall.tla).                                               *)
(***************************************************************************)
EXTENDS Moves

CONSTANT AbsKh
VARIABLE kt
kvars == <<dg, wr, nc, out, res, bw, kt>>

\* ---------------------------------------------------------------- normal form of a table
RECURSIVE StripP(_, _, _)
StripP(m, p, acc) == IF m % p = 0 THEN StripP(m \div p, p, acc * p) ELSE <<m, acc>>
RECURSIVE PrimePowersFrom(_, _)
PrimePowersFrom(n, p) ==          \* n >= 1: the prime-power factors of n for primes >= p
    IF n = 1 THEN <<>>
    ELSE IF p * p > n THEN <<n>>
    ELSE IF n % p # 0 THEN PrimePowersFrom(n, p + 1)
    ELSE LET r == StripP(n, p, 1) IN <<r[2]>> \o PrimePowersFrom(r[1], p + 1)
PrimePowers(n) == PrimePowersFrom(AbsI(n), 2)
BagOfSeq(s) == [x \in {s[i] : i \in 1..Len(s)} |-> Cardinality({i \in 1..Len(s) : s[i] = x})]
TorsBag(tors) == BagOfSeq(FlattenSeq([k \in 1..Len(tors) |-> PrimePowers(tors[k])]))

RowsWellFormed(tab) ==
    /\ \A k \in 1..Len(tab) : /\ tab[k][3] >= 0
                              /\ \A m \in 1..Len(tab[k][4]) : AbsI(tab[k][4][m]) >= 2
    /\ \A k, m \in 1..Len(tab) : (tab[k][1] = tab[m][1] /\ tab[k][2] = tab[m][2]) => k = m
NormOfRowSet(R) == [free |-> {<<r[1], r[2], r[3]>> : r \in {r \in R : r[3] > 0}},
                    tors |-> {<<r[1], r[2], TorsBag(r[4])>> : r \in {r \in R : r[4] # <<>>}}]
Norm(tab) == NormOfRowSet({tab[k] : k \in 1..Len(tab)})

SameTable(a, b)  == a = b
Dual(a)          == [free |-> {<<-f[1], -f[2], f[3]>> : f \in a.free},
                     tors |-> {<<1 - x[1], -x[2], x[3]>> : x \in a.tors}]
MirrorDual(a, b) == b = Dual(a)
\* graded Euler characteristic of the free part (Jones.tla's polynomials)
EulerOfNorm(a) == LET q == SetToSeq(a.free) IN PSumSeq([k \in 1..Len(q) |-> PMono(q[k][2], MinusOneTo(q[k][1]) * q[k][3])])

\* ---------------------------------------------------------------- slots
Rings == {"Z", "Q", "F2", "F3"}
SlotOf(x) == <<x.ring, x.route, x.red>>
EmptyFn == [x \in {} |-> 0]
DualAll(f) == [s \in DOMAIN f |-> Dual(f[s])]
\* the definition-level table of a small diagram for a slot (reduced: base point on the least edge; for a knot
\* the reduced groups do not depend on it)
DefTable(D, slot) == NormOfRowSet(KhRows(D, slot[1], IF slot[3] THEN MinOfSet(Edges(D)) ELSE NoBase))
AbsApplies(D) == Len(D) <= AbsKh /\ Len(D) > 0 /\ AllCrossings(D)

\* ---------------------------------------------------------------- observation of tables
\* kh: sequence of [ring, route, red, tab]; exp: what the history predicts (slot -> normalised table);
\* D: the diagram the tables were computed for; abs: compare with the definition if D is small (done at the roots
\* of histories: what follows is tied to the root by the relations)
KhPre(kh, knot) == \A k \in 1..Len(kh) :
                      /\ kh[k].ring \in Rings /\ kh[k].route \in {0, 1} /\ kh[k].red \in BOOLEAN
                      /\ kh[k].red => knot
                      /\ \A m \in 1..Len(kh) : SlotOf(kh[k]) = SlotOf(kh[m]) => k = m
\* the definition's tables for the (ring, reduced) pairs occurring in kh: one cube per `reduced`, shared by the rings
DefTables(D, kh) ==
    Bind({<<kh[k].ring, kh[k].red>> : k \in 1..Len(kh)}, LAMBDA need :
    Bind(IF \E s \in need : ~s[2] THEN Cube(D, 0, 0, NoBase) ELSE <<>>, LAMBDA cubeU :
    Bind(IF \E s \in need : s[2] THEN Cube(D, 0, 0, MinOfSet(Edges(D))) ELSE <<>>, LAMBDA cubeR :
        TLCEval([s \in need |-> NormOfRowSet(KhRowsOfCube(IF s[2] THEN cubeR ELSE cubeU, s[1]))]))))
KhObs(kh, exp, D, abs) ==
    /\ \A k \in 1..Len(kh) :
          /\ RowsWellFormed(kh[k].tab)
          /\ (kh[k].ring # "Z") => \A m \in 1..Len(kh[k].tab) : kh[k].tab[m][4] = <<>>      \* a field has no torsion
          /\ SlotOf(kh[k]) \in DOMAIN exp => SameTable(Norm(kh[k].tab), exp[SlotOf(kh[k])])
    /\ (abs /\ AbsApplies(D)) => \E def \in {DefTables(D, kh)} :
                           \A k \in 1..Len(kh) : SameTable(Norm(kh[k].tab), def[<<kh[k].ring, kh[k].red>>])
    /\ kt' = [s \in (DOMAIN exp) \cup {SlotOf(kh[k]) : k \in 1..Len(kh)} |->
                 IF s \in DOMAIN exp THEN exp[s] ELSE Norm(kh[CHOOSE k \in 1..Len(kh) : SlotOf(kh[k]) = s].tab)]

\* what the history predicts after a move of the given class
Predicted(class) == CASE class \in {"iso", "rev"} -> kt
                      [] class = "mirror"        -> DualAll(kt)
                      [] OTHER                   -> EmptyFn

KInit == MInit /\ kt = EmptyFn

\* invariant (meaningful where the definition is affordable): the ghost is the table of the current diagram
KhGhost == AbsApplies(dg) => \A s \in DOMAIN kt : kt[s] = DefTable(dg, s)
=============================================================================
