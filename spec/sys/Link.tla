-------------------------------- MODULE Link --------------------------------
(***************************************************************************)
(* C18.  Link diagrams given by planar-diagram (PD) codes.                 *)
(*                                                                         *)
(* A diagram is a sequence of crossings [t |-> type, e |-> <<e0,e1,e2,e3>>]*)
(* (tuple index j+1 holds PD position j).  Positions 0,1,2,3 run counter-  *)
(* clockwise round the crossing; for type "X" the strand 0-2 is the under- *)
(* strand and it runs 0 -> 2; "Xm" is the same picture with the crossing   *)
(* switched (mirror); "H" / "V" are the two smoothings                     *)
(* (H joins 0-1 and 2-3, V joins 0-3 and 1-2).                             *)
(*                                                                         *)
(* Everything is defined from first principles:                            *)
(*   incidence         every edge label occurs exactly twice               *)
(*   strand-through    position j is joined to position Pass(t,j)          *)
(*   components        classes of the edge set under strand-through        *)
(*   orientation       a direction for every 1-3 strand such that every    *)
(*                     edge has one head and one tail (0-2 strands run 0->2)*)
(*   sign              X: +1 iff the 1-3 strand runs 3 -> 1                *)
(*   resolution        bit 0 joins (e0e1)(e2e3), bit 1 joins (e0e3)(e1e2)  *)
(*   circles           classes of the edge set under that identification   *)
(*   planarity         Euler characteristic of the rotation system         *)
(* The second half is the machine: one action per public operation of      *)
(* yui_link::Link / Braid::closure; observers are relational (the          *)
(* implementation's answer is a parameter) because components may be       *)
(* listed in any order and a component that never uses a 0-2 strand may be *)
(* oriented either way.                                                    *)
(***************************************************************************)
EXTENDS Integers, Sequences, FiniteSets, SequencesExt

\* ============================================================== generic helpers
SumSeq(s)  == FoldLeft(LAMBDA a, b : a + b, 0, s)
MaxOfSet(S) == CHOOSE x \in S : \A y \in S : y <= x
MinOfSet(S) == CHOOSE x \in S : \A y \in S : x <= y
Sym(R)     == R \cup {<<r[2], r[1]>> : r \in R}

\* classes of the equivalence relation generated on S by the pairs in R
RECURSIVE Grow(_, _)
Grow(C, R) == LET N == C \cup {r[2] : r \in {q \in R : q[1] \in C}}
              IN  IF N = C THEN C ELSE Grow(N, R)
RECURSIVE PartsRec(_, _)
PartsRec(S, R) == IF S = {} THEN {}
                  ELSE LET x == CHOOSE y \in S : TRUE
                           C == Grow({x}, R)
                       IN  {C} \cup PartsRec(S \ C, R)
Classes(S, R) == PartsRec(S, Sym(R))

\* orbits of a permutation f of the finite set S
OrbitOf(f, x) ==
    LET RECURSIVE Go(_, _)
        Go(y, acc) == IF y = x THEN acc ELSE Go(f[y], acc \cup {y})
    IN  Go(f[x], {x})
RECURSIVE PermOrbits(_, _)
PermOrbits(f, S) == IF S = {} THEN {}
                    ELSE LET x == CHOOSE y \in S : TRUE
                             O == OrbitOf(f, x)
                         IN  {O} \cup PermOrbits(f, S \ O)

\* ============================================================== diagrams
CTypes == {"X", "Xm", "V", "H"}
FromPD(pd)  == [i \in 1..Len(pd) |-> [t |-> "X", e |-> pd[i]]]
PDOf(D)     == [i \in 1..Len(D) |-> D[i].e]
Pos(D)      == (1..Len(D)) \X (0..3)
EdgeAt(D,p) == D[p[1]].e[p[2] + 1]
Edges(D)    == {EdgeAt(D, p) : p \in Pos(D)}
IsCrossing(c) == c.t \in {"X", "Xm"}
Unresolved(D) == {i \in 1..Len(D) : IsCrossing(D[i])}
CrossingNum(D) == Cardinality(Unresolved(D))
AllCrossings(D) == \A i \in 1..Len(D) : IsCrossing(D[i])
AllResolved(D)  == \A i \in 1..Len(D) : ~IsCrossing(D[i])

WellFormed(D) == \A i \in 1..Len(D) :
                    /\ D[i].t \in CTypes
                    /\ DOMAIN D[i].e = 1..4
                    /\ \A j \in 1..4 : D[i].e[j] \in Nat
IncidenceOK(D) == \A e \in Edges(D) : Cardinality({p \in Pos(D) : EdgeAt(D, p) = e}) = 2

\* the other end of the edge at position p (needs IncidenceOK)
MateF(D) == [p \in Pos(D) |-> CHOOSE q \in Pos(D) : q # p /\ EdgeAt(D, q) = EdgeAt(D, p)]

\* strand-through: the position joined to position j inside a crossing of type t
Pass(t, j) == CASE t \in {"X", "Xm"} -> (j + 2) % 4
                [] t = "V"           -> 3 - j
                [] t = "H"           -> (5 - j) % 4
Thru(D, p) == <<p[1], Pass(D[p[1]].t, p[2])>>
StrandRel(D) == {<<EdgeAt(D, p), EdgeAt(D, Thru(D, p))>> : p \in Pos(D)}

\* components = classes of edges under strand-through
Components(D) == Classes(Edges(D), StrandRel(D))

\* walking description: from an entry position go through the crossing and along the edge;
\* the result is the next entry position.  A permutation of Pos(D).
WalkF(D) == LET m == MateF(D) IN [p \in Pos(D) |-> m[Thru(D, p)]]
DirOrbits(D) == PermOrbits(WalkF(D), Pos(D))          \* directed walks, as sets of entry positions
EdgeSetOf(D, O) == {EdgeAt(D, p) : p \in O}

\* ============================================================== planarity
\* rotation system: next edge end counter-clockwise after crossing the edge
FaceF(D) == LET m == MateF(D) IN [p \in Pos(D) |-> <<m[p][1], (m[p][2] + 1) % 4>>]
Faces(D) == PermOrbits(FaceF(D), Pos(D))
GraphParts(D) == LET m == MateF(D) IN Classes(1..Len(D), {<<p[1], m[p][1]>> : p \in Pos(D)})
\* V - E + F = 2 per connected piece of the 4-valent graph  (V = n, E = 2n)
Planar(D) == Cardinality(Faces(D)) - Len(D) = 2 * Cardinality(GraphParts(D))

\* ============================================================== orientation and signs
\* (diagrams whose entries are all crossings)
\* first principles: o[i] = TRUE iff the 1-3 strand of crossing i runs 3 -> 1
Oris(D) == [1..Len(D) -> BOOLEAN]
IsHead(D, o, p) == CASE p[2] = 0 -> TRUE          \* the edge arrives here
                     [] p[2] = 2 -> FALSE
                     [] p[2] = 1 -> ~o[p[1]]
                     [] p[2] = 3 -> o[p[1]]
Admissible(D, o) == \A e \in Edges(D) :
                       Cardinality({p \in Pos(D) : EdgeAt(D, p) = e /\ IsHead(D, o, p)}) = 1
SignOf(D, o, i) == IF (D[i].t = "X") = o[i] THEN 1 ELSE -1
SignsOf(D, o)   == [i \in 1..Len(D) |-> SignOf(D, o, i)]
OriOfSigns(D, sg) == [i \in 1..Len(D) |-> (D[i].t = "X") = (sg[i] = 1)]

\* computed: a directed walk is admissible iff it never enters a crossing at position 2
AdmOrbit(O)  == \A p \in O : p[2] # 2
\* the admissible orientations as sets of entry positions (heads):
\* per component the admissible directed walks; forced if one, free if both
AdmHeadSets(D) ==
    LET orbs   == DirOrbits(D)
        comps  == {EdgeSetOf(D, O) : O \in orbs}
        adm(K) == {O \in orbs : EdgeSetOf(D, O) = K /\ AdmOrbit(O)}
        free   == {K \in comps : Cardinality(adm(K)) = 2}
        forced == UNION {adm(K) : K \in comps \ free}
        first(K)  == CHOOSE O \in adm(K) : \A O2 \in adm(K) : MinOfSet({p[1] * 4 + p[2] : p \in O}) <= MinOfSet({p[1] * 4 + p[2] : p \in O2})
        other(K)  == CHOOSE O \in adm(K) : O # first(K)
    IN  IF \E K \in comps : adm(K) = {} THEN {}
        ELSE {UNION (forced \cup {first(K) : K \in free \ T} \cup {other(K) : K \in T}) : T \in SUBSET free}
SignsOfHeads(D, H) == [i \in 1..Len(D) |-> IF (D[i].t = "X") = (<<i, 3>> \in H) THEN 1 ELSE -1]
AdmSigns(D)   == {SignsOfHeads(D, H) : H \in AdmHeadSets(D)}
Oriented(D)   == AdmHeadSets(D) # {}
\* the components on which the code does not fix a direction (they use 1-3 strands only)
FreeComponents(D) == {K \in Components(D) : \A p \in Pos(D) : EdgeAt(D, p) \in K => p[2] \in {1, 3}}

WritheOfSigns(sg) == SumSeq(sg)
PosNegOf(sg) == <<Cardinality({i \in DOMAIN sg : sg[i] = 1}), Cardinality({i \in DOMAIN sg : sg[i] = -1})>>
WritheSet(D)  == {WritheOfSigns(sg) : sg \in AdmSigns(D)}
PosNegSet(D)  == {PosNegOf(sg) : sg \in AdmSigns(D)}

\* a valid PD code: a real link diagram on the sphere with all crossings present
Valid(D) == WellFormed(D) /\ AllCrossings(D) /\ IncidenceOK(D) /\ Oriented(D) /\ Planar(D)

\* ============================================================== resolutions
ResType(t, r) == IF (t = "X") = (r = 0) THEN "H" ELSE "V"
RankIn(D, i)  == Cardinality({k \in Unresolved(D) : k <= i})
\* state s: one bit per unresolved crossing, in diagram order
Resolve(D, s) == [i \in 1..Len(D) |->
                    IF IsCrossing(D[i]) THEN [D[i] EXCEPT !.t = ResType(D[i].t, s[RankIn(D, i)])] ELSE D[i]]
ResolveAt(D, k, r) == LET i == CHOOSE i \in Unresolved(D) : RankIn(D, i) = k + 1
                      IN  [D EXCEPT ![i].t = ResType(D[i].t, r)]
\* first principles: the edge identification of a state
\* (X: 0 |-> (e0 e1)(e2 e3), 1 |-> (e0 e3)(e1 e2); the mirror crossing the other way round)
SmoothPairs(c, r) == IF (c.t = "X") = (r = 0)
                     THEN {<<c.e[1], c.e[2]>>, <<c.e[3], c.e[4]>>}
                     ELSE {<<c.e[1], c.e[4]>>, <<c.e[2], c.e[3]>>}
CirclesOfState(D, s) == Classes(Edges(D), UNION {SmoothPairs(D[i], s[i]) : i \in 1..Len(D)})
States(n) == [1..n -> {0, 1}]

\* Seifert (orientation preserving) smoothing
SeifertStateOf(sg) == [i \in DOMAIN sg |-> IF sg[i] = 1 THEN 0 ELSE 1]
SmoothPos(t, r) == IF (t = "X") = (r = 0) THEN {{0, 1}, {2, 3}} ELSE {{0, 3}, {1, 2}}
\* a state is coherent for the orientation with head set H iff each smoothing arc joins a head to a tail
Coherent(D, H, s) == \A i \in 1..Len(D) : \A pr \in SmoothPos(D[i].t, s[i]) :
                        Cardinality({j \in pr : <<i, j>> \in H}) = 1
SeifertCircleSets(D) == {CirclesOfState(D, SeifertStateOf(sg)) : sg \in AdmSigns(D)}

\* ============================================================== moves on diagrams
MirrorType(t) == CASE t = "X" -> "Xm" [] t = "Xm" -> "X" [] OTHER -> t
Mirror(D)     == [i \in 1..Len(D) |-> [D[i] EXCEPT !.t = MirrorType(D[i].t)]]
Renumber(D, f) == [i \in 1..Len(D) |-> [D[i] EXCEPT !.e = [j \in 1..4 |-> f[D[i].e[j]]]]]
Reorder(D, pi) == [i \in 1..Len(D) |-> D[pi[i]]]
IsPermOf(pi, n) == DOMAIN pi = 1..n /\ {pi[i] : i \in 1..n} = 1..n
IsRenumbering(D, f) == /\ Edges(D) \subseteq DOMAIN f
                       /\ \A a, b \in Edges(D) : f[a] = f[b] => a = b
                       /\ \A a \in Edges(D) : f[a] \in Nat
MaxEdge(D)  == IF Len(D) = 0 THEN 0 ELSE MaxOfSet(Edges(D))
ShiftBy(D, k) == [i \in 1..Len(D) |-> [D[i] EXCEPT !.e = [j \in 1..4 |-> D[i].e[j] + k]]]
Disjoint(D1, D2) == D1 \o ShiftBy(D2, MaxEdge(D1) + 1)

\* Reidemeister-1: a kink inserted on edge x, travelling in the direction of the head set H.
\* a = x keeps the tail end, c is the new label of the head end, b is the loop.
KinkKinds == {"u-", "u+", "o-", "o+"}
KinkCode(kind, a, b, c) == CASE kind = "u-" -> <<a, b, b, c>>     \* under first, negative
                             [] kind = "u+" -> <<a, c, b, b>>     \* under first, positive
                             [] kind = "o-" -> <<b, a, c, b>>     \* over first, negative
                             [] kind = "o+" -> <<b, b, c, a>>     \* over first, positive
KinkSign(kind) == IF kind \in {"u+", "o+"} THEN 1 ELSE -1
Relabel(D, p, c) == [D EXCEPT ![p[1]].e[p[2] + 1] = c]
Kink(D, H, x, kind) ==
    LET hd == CHOOSE p \in H : EdgeAt(D, p) = x
        b  == MaxEdge(D) + 1
        c  == MaxEdge(D) + 2
    IN  Append(Relabel(D, hd, c), [t |-> "X", e |-> KinkCode(kind, x, b, c)])

\* connected sum along edge x of D1 and edge y of D2 (orientations H1, H2)
ConnSum(D1, H1, x, D2, H2, y) ==
    LET k   == MaxEdge(D1) + 1
        E2  == ShiftBy(D2, k)
        h1  == CHOOSE p \in H1 : EdgeAt(D1, p) = x
        h2  == CHOOSE p \in H2 : EdgeAt(D2, p) = y
    IN  Relabel(D1, h1, y + k) \o Relabel(E2, h2, x)

\* ============================================================== the machine
VARIABLES dg,      \* the diagram held by the link object under observation
          wr,      \* ghost: the writhe predicted by the history of moves
          nc,      \* ghost: the number of components predicted by the history of moves
          out, res
lvars == <<dg, wr, nc, out, res>>
NoOut == "-"

\* --- constructors / moves (arguments: what the harness did; the new diagram is determined)
Fresh(D) == /\ dg' = D
            /\ wr' \in WritheSet(D)
            /\ nc' = Cardinality(Components(D))
            /\ out' = NoOut /\ res' = "ok"
Load(pd)       == Valid(FromPD(pd)) /\ Fresh(FromPD(pd))
DoMirror       == dg' = Mirror(dg) /\ wr' = -wr /\ nc' = nc /\ out' = NoOut /\ res' = "ok"
DoRenumber(f)  == IsRenumbering(dg, f) /\ dg' = Renumber(dg, f) /\ UNCHANGED <<wr, nc>> /\ out' = NoOut /\ res' = "ok"
DoReorder(pi)  == IsPermOf(pi, Len(dg)) /\ dg' = Reorder(dg, pi) /\ UNCHANGED <<wr, nc>> /\ out' = NoOut /\ res' = "ok"
DoKink(x, kind) == /\ AllCrossings(dg) /\ x \in Edges(dg) /\ kind \in KinkKinds
                   /\ \E H \in AdmHeadSets(dg) : dg' = Kink(dg, H, x, kind)
                   /\ wr' = wr + KinkSign(kind) /\ nc' = nc /\ out' = NoOut /\ res' = "ok"
DoDisjoint(pd) == /\ Valid(FromPD(pd)) /\ AllCrossings(dg)
                  /\ dg' = Disjoint(dg, FromPD(pd))
                  /\ \E w \in WritheSet(FromPD(pd)) : wr' = wr + w
                  /\ nc' = nc + Cardinality(Components(FromPD(pd)))
                  /\ out' = NoOut /\ res' = "ok"
DoConnSum(x, pd, y) ==
                  LET D2 == FromPD(pd) IN
                  /\ Valid(D2) /\ AllCrossings(dg) /\ x \in Edges(dg) /\ y \in Edges(D2)
                  /\ \E H1 \in AdmHeadSets(dg), H2 \in AdmHeadSets(D2) : dg' = ConnSum(dg, H1, x, D2, H2, y)
                  /\ \E w \in WritheSet(D2) : wr' = wr + w
                  /\ nc' = nc + Cardinality(Components(D2)) - 1
                  /\ out' = NoOut /\ res' = "ok"
\* resolved_by: every crossing replaced by the smoothing the state names
DoResolve(s)   == /\ AllCrossings(dg) /\ DOMAIN s = 1..Len(dg)
                  /\ dg' = Resolve(dg, s) /\ wr' = 0
                  /\ nc' = Cardinality(CirclesOfState(dg, s))
                  /\ out' = NoOut /\ res' = "ok"
DoResolveAt(k, r) == /\ k < CrossingNum(dg) /\ dg' = ResolveAt(dg, k, r)
                     /\ wr' = 0 /\ nc' = Cardinality(Components(dg'))
                     /\ out' = NoOut /\ res' = "ok"

\* --- observers (relational: `ans` is what the implementation returned)
Obs(o) == UNCHANGED <<dg, wr, nc>> /\ out' = o /\ res' = "ok"
\* components: ans = sequence of [edges |-> sequence of labels, closed |-> BOOLEAN]
ComponentsOK(D, ans) ==
    /\ \A k \in 1..Len(ans) : ans[k].closed /\ Len(ans[k].edges) > 0
    /\ SumSeq([k \in 1..Len(ans) |-> Len(ans[k].edges)]) = Cardinality(Edges(D))       \* each edge once in total
    /\ {{ans[k].edges[j] : j \in 1..Len(ans[k].edges)} : k \in 1..Len(ans)} = Components(D)
    /\ Len(ans) = Cardinality(Components(D))
ObsComponents(ans)  == ComponentsOK(dg, ans) /\ Len(ans) = nc /\ Obs(ans)
ObsIsKnot(ans)      == ans = (nc = 1) /\ Obs(ans)
ObsCrossingNum(ans) == ans = CrossingNum(dg) /\ Obs(ans)
\* signs: those of some admissible orientation
SignsOK(D, ans)     == /\ DOMAIN ans = 1..Len(D)
                       /\ \A i \in 1..Len(D) : ans[i] \in {1, -1}
                       /\ Admissible(D, OriOfSigns(D, ans))
ObsSigns(ans)       == AllCrossings(dg) /\ SignsOK(dg, ans) /\ ans \in AdmSigns(dg) /\ Obs(ans)
ObsWrithe(ans)      == AllCrossings(dg) /\ ans = wr /\ Obs(ans)
ObsPosNeg(ans)      == AllCrossings(dg) /\ <<ans[1], ans[2]>> \in PosNegSet(dg) /\ ans[1] - ans[2] = wr /\ Obs(ans)
\* Seifert: ans = [state |-> bits, circles |-> components of the smoothed diagram]
ObsSeifert(ans)     == /\ AllCrossings(dg)
                       /\ DOMAIN ans.state = 1..Len(dg)
                       /\ \E sg \in AdmSigns(dg) :
                            /\ ans.state = SeifertStateOf(sg)
                            /\ {{c.edges[j] : j \in 1..Len(c.edges)} : c \in {ans.circles[k] : k \in 1..Len(ans.circles)}}
                                 = CirclesOfState(dg, SeifertStateOf(sg))
                            /\ Len(ans.circles) = Cardinality(CirclesOfState(dg, SeifertStateOf(sg)))
                       /\ \A k \in 1..Len(ans.circles) : ans.circles[k].closed
                       /\ Obs(ans)
\* resolution of a state, observed without changing the object:
\* ans = [n |-> crossing number of the smoothed diagram, d |-> its data, comps |-> its components]
ObsState(s, ans)    == /\ AllCrossings(dg) /\ DOMAIN s = 1..Len(dg)
                       /\ ans.n = 0
                       /\ ans.d = Resolve(dg, s)
                       /\ ComponentsOK(Resolve(dg, s), ans.comps)
                       /\ Len(ans.comps) = Cardinality(CirclesOfState(dg, s))
                       /\ Obs(ans)

LinkInit == dg = <<>> /\ wr = 0 /\ nc = 0 /\ out = NoOut /\ res = "ok"

\* --- invariants: the ghosts predicted by the history agree with the definitions
GhostWrithe == (AllCrossings(dg) /\ Len(dg) > 0) => wr \in WritheSet(dg)
GhostComps  == nc = Cardinality(Components(dg))
DiagramOK   == WellFormed(dg) /\ IncidenceOK(dg) /\ Planar(dg) /\ (AllCrossings(dg) => Oriented(dg))
=============================================================================
