------------------------------ MODULE HomCalcEv ------------------------------
EXTENDS HomCalc
VARIABLES calls
Step(e) == e.res = "ok" /\ LET R == e.ring IN
    CASE e.op = "hom" -> HomOK(R, e.n, DM(R, e.d1), DM(R, e.d2), e.rank, DS(R, e.tors), e.withtr, DM(R, e.p), DM(R, e.q),
                               [k \in 1..Len(e.wit) |-> DS(R, e.wit[k])]) /\ calls' = calls + 1
      [] OTHER -> FALSE
Init == calls = 0
=============================================================================
