-------------------------------- MODULE Braid -------------------------------
(***************************************************************************)
(* C18.  Braid words and their closures.                                    *)
(* A word on n strands is a sequence of non-zero integers g, 1 <= |g| < n;  *)
(* g > 0 is the generator sigma_g (strands g, g+1 cross, all strands run    *)
(* downwards, crossing positive), g < 0 its inverse.                        *)
(* Closure(n, w) is the PD code obtained by stacking the crossings and      *)
(* joining bottom to top; it needs every strand to meet some crossing       *)
(* (no free loop).                                                          *)
(* The property: #components = #cycles of the permutation, #crossings =     *)
(* length, writhe = exponent sum.                                           *)
(***************************************************************************)
EXTENDS Link

AbsI(x) == IF x < 0 THEN -x ELSE x
IsWord(n, w) == \A k \in 1..Len(w) : w[k] # 0 /\ AbsI(w[k]) >= 1 /\ AbsI(w[k]) <= n - 1
NoFreeLoop(n, w) == \A i \in 1..n : \E k \in 1..Len(w) : AbsI(w[k]) \in {i - 1, i}
ExpSum(w) == SumSeq([k \in 1..Len(w) |-> IF w[k] > 0 THEN 1 ELSE -1])

\* the permutation: where the strand starting at top position i ends up
RECURSIVE PermAfter(_, _, _)
PermAfter(n, w, k) ==      \* position -> top position of the strand now at that position, after k letters
    IF k = 0 THEN [i \in 1..n |-> i]
    ELSE LET f == PermAfter(n, w, k - 1)
             g == AbsI(w[k])
         IN  [f EXCEPT ![g] = f[g + 1], ![g + 1] = f[g]]
BraidPerm(n, w) == PermAfter(n, w, Len(w))
CycleCount(n, w) == Cardinality(PermOrbits(BraidPerm(n, w), 1..n))

\* stacking: cur[i] = label of the edge hanging at position i; top edges are 0..n-1;
\* letter k creates labels n+2(k-1), n+2(k-1)+1 below the crossing
\*      a   b            positive: under strand a -> d, over strand b -> c  : <<a, c, d, b>>
\*       \ /             negative: under strand b -> c, over strand a -> d  : <<b, a, c, d>>
\*       / \
\*      c   d
RECURSIVE CurAfter(_, _, _)
CurAfter(n, w, k) ==
    IF k = 0 THEN [i \in 1..n |-> i - 1]
    ELSE LET f == CurAfter(n, w, k - 1)
             g == AbsI(w[k])
         IN  [f EXCEPT ![g] = n + 2 * (k - 1), ![g + 1] = n + 2 * (k - 1) + 1]
RawCode(n, w) == [k \in 1..Len(w) |->
                    LET f == CurAfter(n, w, k - 1)
                        g == AbsI(w[k])
                        a == f[g]
                        b == f[g + 1]
                        c == n + 2 * (k - 1)
                        d == c + 1
                    IN  IF w[k] > 0 THEN <<a, c, d, b>> ELSE <<b, a, c, d>>]
\* joining: the edge hanging at position i at the bottom is the top edge i-1
ClosureCode(n, w) ==
    LET bot == CurAfter(n, w, Len(w))
        glue(x) == IF \E i \in 1..n : bot[i] = x THEN (CHOOSE i \in 1..n : bot[i] = x) - 1 ELSE x
        raw == RawCode(n, w)
    IN  [k \in 1..Len(w) |-> [j \in 1..4 |-> glue(raw[k][j])]]
Closure(n, w) == FromPD(ClosureCode(n, w))

\* what the property claims about a diagram D said to be the closure of w
ClosureOK(n, w, D) ==
    /\ Valid(D)
    /\ Len(D) = Len(w)
    /\ Cardinality(Components(D)) = CycleCount(n, w)
    /\ ExpSum(w) \in WritheSet(D)

\* ---------------------------------------------------------------- word moves (used by C04)
\* every move yields a word whose closure is isotopic
Conj(w)           == IF Len(w) = 0 THEN w ELSE Tail(w) \o <<Head(w)>>            \* Markov I (cyclic shift)
Stabilise(n, w, s) == Append(w, s * n)                                            \* Markov II: n -> n+1 strands
InsertPair(w, k, g) == SubSeq(w, 1, k) \o <<g, -g>> \o SubSeq(w, k + 1, Len(w))   \* Reidemeister 2
\* far commutation at k (letters k, k+1)
CanCommute(w, k) == k >= 1 /\ k < Len(w) /\ AbsI(AbsI(w[k]) - AbsI(w[k + 1])) >= 2
Commute(w, k)    == [w EXCEPT ![k] = w[k + 1], ![k + 1] = w[k]]
\* braid relation at k (letters k, k+1, k+2):  a b a  ->  b a b  with |a - b| = 1, equal signs
\* and the mixed forms  a b a^-1 -> b^-1 a b
CanBraidRel(w, k) == /\ k >= 1 /\ k + 2 <= Len(w)
                     /\ AbsI(w[k]) = AbsI(w[k + 2]) /\ AbsI(AbsI(w[k]) - AbsI(w[k + 1])) = 1
                     /\ \/ (w[k] > 0) = (w[k + 1] > 0)
                        \/ (w[k + 1] > 0) = (w[k + 2] > 0)
SgnI(x) == IF x > 0 THEN 1 ELSE -1
BraidRel(w, k) == LET a == AbsI(w[k])  b == AbsI(w[k + 1])
                      s1 == SgnI(w[k])  s2 == SgnI(w[k + 1])  s3 == SgnI(w[k + 2])
                  IN  \* sigma_a^s1 sigma_b^s2 sigma_a^s3 = sigma_b^s3 sigma_a^s2 sigma_b^s1 (valid when s1=s2 or s2=s3)
                      [w EXCEPT ![k] = s3 * b, ![k + 1] = s2 * a, ![k + 2] = s1 * b]
=============================================================================
