------------------------------ MODULE KhBuilder ------------------------------
(***************************************************************************)
(* C01.  The abstract Bar-Natan builder: the state machine behind          *)
(* TngComplexBuilder.  Crossings are absorbed in ANY order; between and    *)
(* after the absorptions closed circles may be delooped and isomorphism    *)
(* edges eliminated, in ANY order.  The state is what is observable        *)
(* through the public accessors:                                           *)
(*                                                                         *)
(*   absorbed   the crossings absorbed so far (indices into dg, in order)  *)
(*   keys       the vertices: [st: one bit per absorbed crossing,          *)
(*              lab: labels (0 = 1, 1 = X) of the delooped circles,        *)
(*              circs: those circles (edge sets), in the same order]       *)
(*                                                                         *)
(* The tangle at a vertex is DERIVED from the diagram: the components of   *)
(* the partial resolution of the absorbed crossings; a component is a      *)
(* closed circle when both ends of all its edges are absorbed.             *)
(*                                                                         *)
(*   Begin(D, h, t, base)                                                  *)
(*   Append(x)       any crossing not yet absorbed: every vertex splits    *)
(*                   into its 0- and 1-smoothing                           *)
(*   Deloop(k, c)    c a closed, not yet delooped circle at k: k is        *)
(*                   replaced by k+X and k+1 (only k+X when c carries the  *)
(*                   base point, which may be delooped only once every     *)
(*                   crossing is absorbed and no free circle is left:      *)
(*                   arcs and free circles do not remember the base point) *)
(*   Eliminate(k,l)  l one step higher than k, same tangle (arc ends, number *)
(*                   of undelooped circles, base point on one of them or   *)
(*                   not); both vanish; when h = t = 0 the q-degrees agree *)
(*   Final(G, M)     everything absorbed and delooped: the generators are  *)
(*                   the keys, with the bidegrees of KhCube; the matrices  *)
(*                   M form a complex whose homology is that of the cube   *)
(*                   of resolutions (KhHomology.tla) - whatever the order  *)
(*                   of the steps was.                                     *)
(* Invariant (model-checked over all schedules on small diagrams): once    *)
(* all crossings are absorbed, the graded Euler characteristic of the keys *)
(* (an undelooped circle counting q + 1/q) is that of the cube.            *)
(***************************************************************************)
EXTENDS KhHomology

VARIABLE kb
bvars == <<dg, wr, nc, out, res, kb>>
KbIdle == [on |-> FALSE]

\* ---------------------------------------------------------------- derived tangles
KeyOf(st, lab, circs) == [st |-> st, lab |-> lab, circs |-> circs]
KeyId(k)  == <<k.st, k.lab>>
Weight(st) == SumSeq(st)
\* positions (m, j) of the absorbed crossings; label at a position
APos(ab)        == (1..Len(ab)) \X (1..4)
ALabel(D, ab, p) == D[ab[p[1]]].e[p[2]]
AEdges(D, ab)   == {ALabel(D, ab, p) : p \in APos(ab)}
EndCount(D, ab, e) == Cardinality({p \in APos(ab) : ALabel(D, ab, p) = e})
\* components of the partial resolution
TangleComps(D, ab, st) == Classes(AEdges(D, ab), UNION {SmoothPairs(D[ab[m]], st[m]) : m \in 1..Len(ab)})
IsClosedComp(D, ab, K) == \A e \in K : EndCount(D, ab, e) = 2
ClosedCircles(D, ab, st) == {K \in TangleComps(D, ab, st) : IsClosedComp(D, ab, K)}
\* the open arcs as their pairs of end labels (an arc whose two ends carry the same label: {e})
ArcEnds(D, ab, st) == {{e \in K : EndCount(D, ab, e) = 1} : K \in TangleComps(D, ab, st) \ ClosedCircles(D, ab, st)}
\* both at once (one component computation per partial state)
TangleAt(D, ab, st) == LET comps == TangleComps(D, ab, st)
                           cc == {K \in comps : IsClosedComp(D, ab, K)}
                       IN  [cc |-> cc, ar |-> {{e \in K : EndCount(D, ab, e) = 1} : K \in comps \ cc}]
\* kb.tg caches TangleAt for the partial states of the current vertices (the tangle depends on st only); TgOK states it
Undelooped(b, k) == b.tg[k.st].cc \ {k.circs[i] : i \in 1..Len(k.circs)}
ArcsOf(b, st)    == b.tg[st].ar
\* q-degree of a key relative to the shift of the diagram
QKey(k) == SumSeq([i \in 1..Len(k.lab) |-> IF k.lab[i] = 0 THEN 1 ELSE -1]) + Weight(k.st)

\* the graded Euler characteristic of the chain groups of the cube, without the shift n+ - 2n- (+1)
CubeEulerUnshifted(D, base) ==
    LET C == CubeOf(D, base)
        sh == C.npos - 2 * C.nneg + (IF base >= 0 THEN 1 ELSE 0)
        gs == UNION {{<<w, QDeg(C, C.gens[w][x]) - sh>> : x \in 1..Len(C.gens[w])} : w \in 0..C.n}
        cnt(w, q) == Cardinality({x \in 1..Len(C.gens[w]) : QDeg(C, C.gens[w][x]) - sh = q})
        qs == {g[2] : g \in gs}
        co(q) == FoldLeft(LAMBDA acc, w : acc + (IF w % 2 = 0 THEN 1 ELSE -1) * cnt(w, q), 0, [w \in 1..(C.n + 1) |-> w - 1])
    IN  {<<q, co(q)>> : q \in {x \in qs : co(x) # 0}}

\* ---------------------------------------------------------------- actions
Begin(D, h, t, base) ==
    /\ CubeOK(D) /\ AllCrossings(D) /\ (Len(D) = 0 \/ Valid(D))
    /\ base >= 0 => (t = 0 /\ base \in Edges(D))
    /\ dg' = D
    /\ kb' = [on |-> TRUE, h |-> h, t |-> t, base |-> base, absorbed |-> <<>>, keys |-> {KeyOf(<<>>, <<>>, <<>>)}, final |-> FALSE,
              tg |-> (<<>> :> [cc |-> {}, ar |-> {}]),
              euler |-> CubeEulerUnshifted(D, base)]          \* ghost: the Euler characteristic every schedule has to end with
    /\ UNCHANGED <<wr, nc, out, res>>

Append1(x) ==
    /\ kb.on /\ ~kb.final
    /\ x \in 1..Len(dg) /\ \A m \in 1..Len(kb.absorbed) : kb.absorbed[m] # x
    /\ kb' = [kb EXCEPT !.absorbed = Append(@, x),
                        !.keys = {KeyOf(Append(k.st, b), k.lab, k.circs) : k \in kb.keys, b \in {0, 1}},
                        !.tg = FF([st \in {Append(k.st, b) : k \in kb.keys, b \in {0, 1}} |-> TangleAt(dg, Append(kb.absorbed, x), st)])]
    /\ UNCHANGED lvars

\* circles through the base point are delooped last: when every crossing is absorbed and no vertex has a free circle
\* left (the library's finalize does the same; a cylinder between a based and a free circle is not an isomorphism of the
\* reduced theory although it looks like one)
BasedTurn == /\ Len(kb.absorbed) = Len(dg)
             /\ \A k \in kb.keys : \A c \in Undelooped(kb, k) : kb.base \in c
Deloop(id, c) ==
    /\ kb.on /\ ~kb.final
    /\ \E k \in kb.keys :
          /\ KeyId(k) = id
          /\ c \in Undelooped(kb, k)
          /\ kb.base \in c => BasedTurn                          \* the circle through the base point only at the very end
          /\ LET kx == KeyOf(k.st, Append(k.lab, 1), Append(k.circs, c))
                 k1 == KeyOf(k.st, Append(k.lab, 0), Append(k.circs, c))
             IN  kb' = [kb EXCEPT !.keys = (@ \ {k}) \cup (IF kb.base \in c THEN {kx} ELSE {kx, k1})]
    /\ UNCHANGED lvars

Eliminate(id1, id2) ==
    /\ kb.on /\ ~kb.final
    /\ \E k \in kb.keys, l \in kb.keys :
          /\ KeyId(k) = id1 /\ KeyId(l) = id2
          /\ Weight(l.st) = Weight(k.st) + 1
          /\ ArcsOf(kb, k.st) = ArcsOf(kb, l.st)
          /\ Cardinality(Undelooped(kb, k)) = Cardinality(Undelooped(kb, l))
          /\ (\E c \in Undelooped(kb, k) : kb.base \in c) = (\E c \in Undelooped(kb, l) : kb.base \in c)
          /\ (kb.h = 0 /\ kb.t = 0) => QKey(k) = QKey(l)
          /\ kb' = [kb EXCEPT !.keys = @ \ {k, l}]
    /\ UNCHANGED lvars

\* the final complex.  gens: per weight w = 0..n the sequence of [st, lab, h, q] in the order of the matrix columns;
\* mats: per w = 0..n-1 the matrix of d from weight w to w+1 (rows = gens[w+1], columns = gens[w]).
\* perm = the order in which the crossings were absorbed: st[m] is the bit of crossing absorbed[m].
FullyBuilt == /\ Len(kb.absorbed) = Len(dg)
              /\ \A k \in kb.keys : Undelooped(kb, k) = {}
LoggedNs(gens, n)  == [w \in 0..n |-> Len(gens[w + 1])]
LoggedMat(mats, gens, n, w) ==
    IF w < 0 THEN [r \in 1..Len(gens[1]) |-> <<>>]
    ELSE IF w >= n THEN <<>>
    ELSE mats[w + 1]
ShapeOK(mats, gens, n) ==
    /\ Len(gens) = n + 1 /\ Len(mats) = n
    /\ \A w \in 0..(n - 1) : /\ Len(mats[w + 1]) = Len(gens[w + 2])
                             /\ \A r \in 1..Len(mats[w + 1]) : Len(mats[w + 1][r]) = Len(gens[w + 1])
\* the table of the logged complex, by the same operators as for the cube
LoggedRows(mats, gens, n) ==
    HomologyRows(0, n, LoggedNs(gens, n), FF([w \in -1..n |-> LoggedMat(mats, gens, n, w)]))
LoggedTable(C, mats, gens) ==
    LET rows == LoggedRows(mats, gens, C.n) IN FS([k \in 1..(C.n + 1) |-> [i |-> (k - 1) - C.nneg] @@ rows[k - 1]])
LoggedBiTable(C, mats, gens) ==
    LET n   == C.n
        qs  == SetToSortSeq(UNION {{gens[w + 1][x].q : x \in 1..Len(gens[w + 1])} : w \in 0..n}, <)
        ixq(w, q) == IF w < 0 \/ w > n THEN <<>> ELSE SetToSortSeq({x \in 1..Len(gens[w + 1]) : gens[w + 1][x].q = q}, <)
        rowsq(q) == LET ix == FF([w \in -1..(n + 1) |-> ixq(w, q)])
                        Mq == FF([w \in -1..n |-> SubMat(LoggedMat(mats, gens, n, w), ix[w + 1], ix[w])])
                        ns == FF([w \in 0..n |-> Len(ix[w])])
                    IN  HomologyRows(0, n, ns, Mq)
        rows == FS([x \in 1..Len(qs) |-> rowsq(qs[x])])
        all  == {<<w, x>> \in (0..n) \X (1..Len(qs)) : NonZeroRow(rows[x][w])}
        sq   == SetToSeq(all)
    IN  FS([k \in 1..Len(sq) |-> [i |-> sq[k][1] - C.nneg, j |-> qs[sq[k][2]]] @@ rows[sq[k][2]][sq[k][1]]])
LoggedDDZero(mats, gens, n) ==
    \A w \in 1..(n - 1) : LA!LIsZero(LA!LMul(mats[w + 1], mats[w], Len(gens[w])))

Final(gens, mats) ==
    /\ kb.on /\ ~kb.final /\ FullyBuilt
    /\ LET n  == Len(dg)
           C  == CubeOf(dg, kb.base)
           sh == <<-C.nneg, C.npos - 2 * C.nneg + (IF kb.base >= 0 THEN 1 ELSE 0)>>
       IN  /\ ShapeOK(mats, gens, n)
           \* the generators are exactly the keys, each once, with the bidegrees of the definition
           /\ \A w \in 0..n :
                 /\ {<<gens[w + 1][x].st, gens[w + 1][x].lab>> : x \in 1..Len(gens[w + 1])} = {KeyId(k) : k \in {y \in kb.keys : Weight(y.st) = w}}
                 /\ Len(gens[w + 1]) = Cardinality({y \in kb.keys : Weight(y.st) = w})
                 /\ \A x \in 1..Len(gens[w + 1]) : LET g == gens[w + 1][x] IN
                       g.h = w + sh[1] /\ g.q = QKey([st |-> g.st, lab |-> g.lab]) + sh[2]
           /\ LoggedDDZero(mats, gens, n)
           /\ CanonTot(LoggedTable(C, mats, gens)) = CanonTot(KhTable(C, kb.h, kb.t))
           /\ (kb.h = 0 /\ kb.t = 0) => CanonBi(LoggedBiTable(C, mats, gens)) = CanonBi(KhBiTable(C))
    /\ kb' = [kb EXCEPT !.final = TRUE]
    /\ UNCHANGED lvars

KbInit == LinkInit /\ kb = KbIdle

\* ---------------------------------------------------------------- invariants
\* the keys are distinct as (st, lab) pairs; labels and delooped circles correspond; delooped circles are closed circles
KeysOK == kb.on =>
    /\ \A k1, k2 \in kb.keys : KeyId(k1) = KeyId(k2) => k1 = k2
    /\ \A k \in kb.keys :
          /\ Len(k.st) = Len(kb.absorbed) /\ Len(k.lab) = Len(k.circs)
          /\ \A i \in 1..Len(k.circs) : k.circs[i] \in kb.tg[k.st].cc
          /\ \A i, j \in 1..Len(k.circs) : i # j => k.circs[i] # k.circs[j]
          /\ kb.base >= 0 => \A i \in 1..Len(k.circs) : kb.base \in k.circs[i] => k.lab[i] = 1
TgOK == kb.on => \A k \in kb.keys : kb.tg[k.st] = TangleAt(dg, kb.absorbed, k.st)
\* graded Euler characteristic of the keys once everything is absorbed (h = t = 0 grading; it does not involve h, t):
\* sum over keys of (-1)^weight q^QKey (q + 1/q)^undelooped  (a based undelooped circle counts q^-1)
KeyEuler ==
    LET ks == SetToSeq(kb.keys)
        und(k) == Undelooped(kb, k)
        nb(k)  == Cardinality({c \in und(k) : kb.base \notin c})        \* free undelooped circles: factor q + 1/q
        bs(k)  == Cardinality({c \in und(k) : kb.base \in c})           \* based undelooped circle: factor 1/q
        \* expand (q + 1/q)^nb: exponents -nb, -nb+2, .., nb with binomial coefficients
        RECURSIVE Binom(_, _)
        Binom(a, b) == IF b = 0 \/ b = a THEN 1 ELSE Binom(a - 1, b - 1) + Binom(a - 1, b)
        terms(k) == {<<QKey(k) - bs(k) - nb(k) + 2 * j, (IF Weight(k.st) % 2 = 0 THEN 1 ELSE -1) * Binom(nb(k), j)>> : j \in 0..nb(k)}
        exps == UNION {{x[1] : x \in terms(ks[i])} : i \in 1..Len(ks)}
        co(e) == FoldLeft(LAMBDA acc, i : acc + FoldLeft(LAMBDA a2, x : a2 + (IF x[1] = e THEN x[2] ELSE 0), 0, SetToSeq(terms(ks[i]))), 0, [i \in 1..Len(ks) |-> i])
    IN  {<<e, co(e)>> : e \in {x \in exps : co(x) # 0}}
SumCo(S) == FoldLeft(LAMBDA acc, x : acc + x[2], 0, SetToSeq(S))
\* graded when h = t = 0 (eliminations keep q); otherwise only the ungraded characteristic is kept
EulerOK == (kb.on /\ Len(kb.absorbed) = Len(dg)) =>
              IF kb.h = 0 /\ kb.t = 0 THEN KeyEuler = kb.euler
              ELSE SumCo(KeyEuler) = SumCo(kb.euler)
=============================================================================
