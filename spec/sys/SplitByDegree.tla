---------------------------- MODULE SplitByDegree ---------------------------
(***************************************************************************)
(* C03, design model of "total homology first, bigraded table afterwards".  *)
(*                                                                         *)
(* One homological degree of a bigraded complex.  Its torsion is a direct   *)
(* sum of homogeneous cyclic summands (q, order).  The library computes the *)
(* homology of the TOTAL complex with a Smith normal form, which reports    *)
(* the invariant-factor decomposition d1 | d2 | ... of the whole torsion    *)
(* group (that is what C09 requires of it), and afterwards files every      *)
(* generator in the bidegree given by the least q-degree occurring in it    *)
(* (collect_gen_info in yui-khovanov/src/misc.rs).                          *)
(*                                                                         *)
(*   Normalize   merges the primary parts of the homogeneous summands into  *)
(*               the invariant factors: the r-th largest p-part of every    *)
(*               prime p goes into the r-th factor (ties in any order); the *)
(*               generator of a factor is the sum of the generators of its  *)
(*               parts, so its support is the set of their q-degrees.       *)
(*   Split       Mode = "min":     a generator is filed, with its full      *)
(*                                 order, under the least q of its support  *)
(*                                 (what the code does)                     *)
(*               Mode = "primary": every primary part is filed under its    *)
(*                                 own q (a repair)                         *)
(*   SplitAgrees the filed torsion of every q-degree is isomorphic to the   *)
(*               torsion of that bigraded piece.                            *)
(*                                                                         *)
(* With Mode = "min" TLC refutes SplitAgrees on {(q1,2),(q2,3)}: the two    *)
(* summands merge into one Z/6 which is filed under min(q1,q2).             *)
(***************************************************************************)
EXTENDS TorsionGroups, SequencesExt, FiniteSetsExt

CONSTANTS QDegs,          \* the q-degrees of the homological degree under consideration
          Orders,         \* the orders a homogeneous summand may have
          MaxSummands,
          Mode            \* "min" | "primary"

VARIABLES phase,          \* "raw" -> "normalized" -> "split"
          hom,            \* the homogeneous summands: sequence of <<q, order>> (the truth)
          gens,           \* after Normalize: sequence of [order, parts], parts a set of <<k, q, prime power>>
          filed           \* after Split: q |-> sequence of orders
svars == <<phase, hom, gens, filed>>

PrimeOf(pp) == SmallestFactor(pp)
\* the primary parts of the input, tagged by the index of the summand they come from
PartsOfPrime(p) == {x \in UNION {{<<k, hom[k][1], pp>> : pp \in PrimeParts(hom[k][2])} : k \in 1..Len(hom)} : PrimeOf(x[3]) = p}
PrimesHere == {PrimeOf(pp) : pp \in UNION {PrimeParts(hom[k][2]) : k \in 1..Len(hom)}}
\* the ways of listing the p-parts by non-increasing order
Listings(p) == LET S == PartsOfPrime(p)  n == Cardinality(S) IN
               {f \in [1..n -> S] : (\A a, b \in 1..n : a # b => f[a] # f[b]) /\ (\A a \in 1..(n - 1) : f[a][3] >= f[a + 1][3])}
ProductOf(S) == FoldSet(LAMBDA x, acc : x[3] * acc, 1, S)
MinQ(S) == CHOOSE q \in {x[2] : x \in S} : \A x \in S : q <= x[2]

\* sequences sorted by (q, order): the multiset of summands, without permutations
SortedInputs == UNION {{s \in [1..n -> QDegs \X Orders] :
                           \A a \in 1..(n - 1) : s[a][1] < s[a + 1][1] \/ (s[a][1] = s[a + 1][1] /\ s[a][2] <= s[a + 1][2])} : n \in 0..MaxSummands}

Init == /\ phase = "raw" /\ hom \in SortedInputs /\ gens = <<>> /\ filed = [q \in QDegs |-> <<>>]

Normalize ==
    /\ phase = "raw"
    /\ \E L \in [PrimesHere -> UNION {Listings(p) : p \in PrimesHere}] :
          /\ \A p \in PrimesHere : L[p] \in Listings(p)
          /\ LET r == IF PrimesHere = {} THEN 0 ELSE Max({Len(L[p]) : p \in PrimesHere})
                 parts(i) == {L[p][i] : p \in {p \in PrimesHere : i <= Len(L[p])}}
                 \* the largest factor first here; reported smallest first
             IN  gens' = [i \in 1..r |-> [order |-> ProductOf(parts(r + 1 - i)), parts |-> parts(r + 1 - i)]]
    /\ phase' = "normalized"
    /\ UNCHANGED <<hom, filed>>

Split ==
    /\ phase = "normalized"
    /\ IF Mode = "min"
       THEN filed' = [q \in QDegs |-> LET K == SetToSortSeq({i \in 1..Len(gens) : MinQ(gens[i].parts) = q}, <) IN
                                      [m \in 1..Len(K) |-> gens[K[m]].order]]
       ELSE filed' = [q \in QDegs |-> LET P == SetToSeq({x \in UNION {gens[i].parts : i \in 1..Len(gens)} : x[2] = q}) IN
                                      [m \in 1..Len(P) |-> P[m][3]]]
    /\ phase' = "split"
    /\ UNCHANGED <<hom, gens>>

Next == Normalize \/ Split
Spec == Init /\ [][Next]_svars

\* ---------------------------------------------------------------- invariants
TruthAt(q) == LET K == SetToSortSeq({k \in 1..Len(hom) : hom[k][1] = q}, <) IN [m \in 1..Len(K) |-> hom[K[m]][2]]
AllOrders(s) == [k \in 1..Len(s) |-> s[k][2]]

\* Normalize is a model of what a Smith normal form reports: a divisibility chain of the same group
NormalizeIsSmith ==
    phase # "raw" =>
       /\ IsChain([i \in 1..Len(gens) |-> gens[i].order])
       /\ IsoTors([i \in 1..Len(gens) |-> gens[i].order], AllOrders(hom))
       /\ \A i \in 1..Len(gens) : gens[i].order >= 2

\* the property of C03 for this homological degree
SplitAgrees == phase = "split" => \A q \in QDegs : IsoTors(filed[q], TruthAt(q))

\* the whole group is never lost, whatever the mode (only misplaced)
TotalKept == phase = "split" =>
    IsoTors(FoldLeft(LAMBDA acc, q : acc \o filed[q], <<>>, SetToSeq(QDegs)), AllOrders(hom))
=============================================================================
