------------------------------ MODULE PathOps ------------------------------
(***************************************************************************)
(* The pure operators on paths shared by PathM (yui_link::Path) and TngM   *)
(* (yui_kh Tng / TngComp).  A path is a record                             *)
(*   [edges |-> sequence of edge labels, closed |-> BOOLEAN];              *)
(* it is SIMPLE when its labels are pairwise distinct and then denotes a   *)
(* simple path (arc) or simple cycle (circle) on the labels.               *)
(***************************************************************************)
EXTENDS Integers, Sequences, FiniteSets, Chars

Null  == [edges |-> <<>>, closed |-> FALSE]        \* an unset register (a Path is never empty)

SetOf(s)   == {s[k] : k \in 1..Len(s)}
NoRep(s)   == \A i, j \in 1..Len(s) : (s[i] = s[j]) => (i = j)
Rev(s)     == [k \in 1..Len(s) |-> s[Len(s) + 1 - k]]
Rot(s, r)  == [k \in 1..Len(s) |-> s[((k - 1 + r) % Len(s)) + 1]]
MinOf(S)   == CHOOSE m \in S : \A x \in S : m <= x
Simple(a)  == Len(a.edges) > 0 /\ NoRep(a.edges)
IsArc(a)   == ~a.closed
First(a)   == a.edges[1]
Last(a)    == a.edges[Len(a.edges)]
EndSet(a)  == {First(a), Last(a)}
Mk(es, c)  == [edges |-> es, closed |-> c]

\* ---- the denotation: equality of unoriented arcs / unoriented unbased circles
UnoriEq(a, b) ==
    /\ a.closed = b.closed /\ Len(a.edges) = Len(b.edges)
    /\ IF a.closed THEN \E r \in 0..Len(a.edges)-1 : b.edges = Rot(a.edges, r) \/ b.edges = Rot(Rev(a.edges), r)
       ELSE b.edges = a.edges \/ b.edges = Rev(a.edges)

\* ---- is_connectable / is_connectable_bothends: arcs sharing an end label / both end labels
Connectable(a, b) == IsArc(a) /\ IsArc(b) /\ EndSet(a) \cap EndSet(b) # {}
BothEnds(a, b)    == IsArc(a) /\ IsArc(b) /\ (<<First(a), Last(a)>> = <<First(b), Last(b)>> \/ <<First(a), Last(a)>> = <<Last(b), First(b)>>)

\* ---- connect: glue two arcs along shared end labels.  The union is again a simple path / cycle exactly when the only
\* common labels are shared ends (GlueOK); two copies of a one-label arc are excluded (their union is not a cycle).
GlueOK(a, b) == /\ Simple(a) /\ Simple(b) /\ Connectable(a, b)
                /\ SetOf(a.edges) \cap SetOf(b.edges) \subseteq (EndSet(a) \cap EndSet(b))
                /\ ~(Len(a.edges) = 1 /\ Len(b.edges) = 1)
\* the glued sequence: `a` keeps its direction, `b` is attached at the matching end (turned around when needed)
Glued(a, b) ==
    LET es == a.edges  fs == b.edges
        raw == IF Last(a) = First(b) THEN es \o Tail(fs)
               ELSE IF Last(a) = Last(b) THEN es \o Tail(Rev(fs))
               ELSE IF First(a) = First(b) THEN Rev(Tail(fs)) \o es
               ELSE SubSeq(fs, 1, Len(fs) - 1) \o es
    IN  IF Len(raw) > 1 /\ raw[1] = raw[Len(raw)] THEN Mk(SubSeq(raw, 1, Len(raw) - 1), TRUE) ELSE Mk(raw, FALSE)
\* an arc result is determined (tests of the crate pin the direction); a cycle is determined up to rotation / reflection
ConnectResultOK(a, b, r) == IF Glued(a, b).closed THEN UnoriEq(r, Glued(a, b)) ELSE r = Glued(a, b)

\* ---- reduce: forget interior labels but keep the ends and the smallest label
Reduced(a) ==
    IF IsArc(a) /\ Len(a.edges) > 2 THEN
        LET inner == SetOf(SubSeq(a.edges, 2, Len(a.edges) - 1))
            low   == {e \in inner : e < First(a) /\ e < Last(a)} IN
        IF low # {} THEN Mk(<<First(a), MinOf(low), Last(a)>>, FALSE) ELSE Mk(<<First(a), Last(a)>>, FALSE)
    ELSE IF a.closed /\ Len(a.edges) > 1 THEN Mk(<<MinOf(SetOf(a.edges))>>, TRUE)
    ELSE a

\* ---- is_adj: two circles of one resolution (or two components) meet at a crossing.  cross = the 4 labels of every crossing
Adjacent(a, b, cross) == /\ SetOf(a.edges) # SetOf(b.edges)
                         /\ \E x \in SetOf(cross) : SetOf(x) \cap SetOf(a.edges) # {} /\ SetOf(x) \cap SetOf(b.edges) # {}

\* ---- Display:  [1-2-3]  for arcs,  U+26AA U+FE0E (1-2-3)  for circles
Shown(a) == LET body == JoinCodes([k \in 1..Len(a.edges) |-> DecCodes(a.edges[k])], <<45>>) IN
            IF a.closed THEN <<9898, 65038, 40>> \o body \o <<41>> ELSE <<91>> \o body \o <<93>>
=============================================================================
