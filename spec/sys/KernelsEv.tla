------------------------------ MODULE KernelsEv ------------------------------
EXTENDS Kernels
Step(e) == e.res = "ok" /\ LET R == e.ring IN
    CASE e.op = "solve"  -> Solve(R, e.t, e.a, e.y, e.x, e.left, e.id)
      [] e.op = "inv"    -> InvTriang(R, e.t, e.a, e.x, e.id)
      [] e.op = "schur"  -> Schur(R, e.t, e.m, e.r, e.s, e.x, e.tr, e.id)
      [] e.op = "dirsum" -> DirSum(R, e.a, e.z, e.p, e.q, e.blocks, e.zblocks)
      [] e.op = "newcase" -> calls' = calls /\ sig' = [x \in {} |-> 0]
      [] OTHER -> FALSE
=============================================================================
