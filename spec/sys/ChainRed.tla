------------------------------ MODULE ChainRed ------------------------------
(***************************************************************************)
(* C08.  Chain reduction as a state machine.  The state holds, per degree  *)
(* i of a cochain complex C[i] --d[i]--> C[i+1]:                           *)
(*    d0[i]   the original differential                                    *)
(*    mat[i]  the current (reduced) differential                            *)
(*    F[i], B[i]  the accumulated forward / backward maps between the       *)
(*            original C[i] and the current one (dense products)            *)
(*    v0[i], v[i]  tracked cycles of the original complex and their images *)
(* One action per call of the reducer; the post-state is a parameter (what  *)
(* the library produced) and the action is enabled iff it is again a       *)
(* homotopy-equivalent reduction of d0:                                    *)
(*    mat[i+1] mat[i] = 0,  F[i+1] d0[i] = mat[i] F[i],                    *)
(*    d0[i] B[i] = B[i+1] mat[i],  F[i] B[i] = I,                          *)
(*    same homology as d0 in every degree,  v[i] = F[i] v0[i].             *)
(* Which pivots were used is not constrained (every strategy, condition    *)
(* and thread schedule is admissible).                                     *)
(***************************************************************************)
EXTENDS HomCalc

VARIABLES R, lo, hi,     \* ring and degree range lo..hi  (mat[hi+1] is the zero map out of C[hi+1])
          d0, mat, F, B, v0, v
cvars == <<R, lo, hi, d0, mat, F, B, v0, v>>
Degs == lo..hi

Dim(m, i)  == m[i].n                      \* rank of C[i] in the complex with differentials m
ZeroInto(R0, n) == [m |-> 0, n |-> n, a |-> <<>>]

\* rank over the fraction field: integers by elimination, F_p by elimination mod p, otherwise (Q with fractions, Z[H], ...) by minors
RankC(A) == CASE R.k \in {"I", "Z"} -> RankZ(IntRows(R, A))
              [] R.k = "F" -> RankP(IntRows(R, A), R.p)
              [] R.k = "Q" -> RankZ(QRowsScaled(A))
              [] OTHER -> RankByMinors(R, A)
\* homology of the complex with differentials m at degree i (lo <= i <= hi+1): (rank, torsion) as far as the ring allows
HomAt(m, i) ==
    LET n == IF i <= hi THEN m[i].n ELSE m[hi].m
        din == IF i > lo THEN m[i-1] ELSE [m |-> n, n |-> 0, a |-> [r \in 1..n |-> <<>>]]
        dout == IF i <= hi THEN m[i] ELSE ZeroInto(R, n)
    IN <<n - RankC(din) - RankC(dout),
         IF R.k \in {"I", "Z"} THEN SortSeq(Torsion(IntRows(R, din)), <) ELSE <<>>>>

Complex(m)   == \A i \in lo..hi-1 : m[i+1].n = m[i].m /\ MIsZero(R, MMul(R, m[i+1], m[i]))
\* F[i]: C0[i] -> C[i], B[i]: C[i] -> C0[i], for i in lo..hi+1
MapsOK(m, f, b) ==
    /\ \A i \in lo..hi+1 : LET n0 == IF i <= hi THEN d0[i].n ELSE d0[hi].m
                               n1 == IF i <= hi THEN m[i].n ELSE m[hi].m IN
          /\ f[i].m = n1 /\ f[i].n = n0 /\ b[i].m = n0 /\ b[i].n = n1 /\ MShapeOK(f[i]) /\ MShapeOK(b[i])
          /\ MSame(R, MMul(R, f[i], b[i]), MId(R, n1))
    /\ \A i \in lo..hi : /\ MSame(R, MMul(R, f[i+1], d0[i]), MMul(R, m[i], f[i]))
                         /\ MSame(R, MMul(R, d0[i], b[i]), MMul(R, b[i+1], m[i]))
SameHomology(m) == \A i \in lo..hi+1 : HomAt(m, i) = HomAt(d0, i)
VecsOK(f, vv)   == \A i \in DOMAIN vv : \A k \in 1..Len(vv[i]) : MSame(R, vv[i][k], MMul(R, f[i], v0[i][k]))

\* a new complex under reduction (with the identity maps)
Start(ring, l, h, d, vecs) ==
    /\ R' = ring /\ lo' = l /\ hi' = h /\ d0' = d /\ mat' = d
    /\ F' = [i \in l..h+1 |-> MId(ring, IF i <= h THEN d[i].n ELSE d[h].m)]
    /\ B' = [i \in l..h+1 |-> MId(ring, IF i <= h THEN d[i].n ELSE d[h].m)]
    /\ v0' = vecs /\ v' = vecs
\* one call of the reducer (reduce_at_spec / reduce_at / reduce_all / reduce): the library's new state
Reduce(m2, f2, b2, vv2, withmaps) ==
    /\ Complex(m2) /\ \A i \in lo..hi : MShapeOK(m2[i])
    /\ \A i \in lo..hi+1 : (IF i <= hi THEN m2[i].n ELSE m2[hi].m) <= (IF i <= hi THEN mat[i].n ELSE mat[hi].m)   \* only shrinks
    /\ SameHomology(m2)
    /\ withmaps => (MapsOK(m2, f2, b2) /\ VecsOK(f2, vv2))
    /\ mat' = m2 /\ F' = f2 /\ B' = b2 /\ v' = vv2 /\ UNCHANGED <<R, lo, hi, d0, v0>>
\* terminal claim of a *deep* reduction: no unit entry is left anywhere
NoUnitLeft(m) == \A i \in lo..hi : \A r \in 1..m[i].m : \A c \in 1..m[i].n : ~RIsUnit(R, m[i].a[r][c])

Init == /\ R = RI /\ lo = 0 /\ hi = -1 /\ d0 = <<>> /\ mat = <<>> /\ F = <<>> /\ B = <<>> /\ v0 = <<>> /\ v = <<>>
=============================================================================
