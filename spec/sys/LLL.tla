--------------------------------- MODULE LLL ---------------------------------
(***************************************************************************)
(* C10.  Relational contracts of the LLL-based Hermite normal form and of  *)
(* LLL reduction over Z, Z[i], Z[w], stated from first principles: Gram     *)
(* determinants d_j and the integral Gram-Schmidt numerators lam[i,j] are  *)
(* *defined* as determinants of (Hermitian) Gram matrices, not by update   *)
(* formulas.                                                               *)
(***************************************************************************)
EXTENDS Matrices

RConj(R, x) == CASE R.k = "G" -> ZMk(x.a, BNeg(x.b))
                 [] R.k = "E" -> ZMk(BAdd(x.a, x.b), BNeg(x.b))
                 [] OTHER -> x
\* norm as an element of the base integers (TLC integer for "I", BigNum otherwise)
RNormInt(R, x) == CASE R.k = "I" -> x * x
                    [] R.k = "Z" -> BMul(x, x)
                    [] R.k = "G" -> GNorm(x)
                    [] R.k = "E" -> ENorm(x)
\* the rational-integer part of a ring element known to be rational
RInt(R, x) == IF R.k \in {"G", "E"} THEN x.a ELSE x
ILess(R, x, y)  == IF R.k = "I" THEN x < y ELSE BCmp(x, y) < 0
ILeq(R, x, y)   == IF R.k = "I" THEN x <= y ELSE BCmp(x, y) <= 0
IMul(R, x, y)   == IF R.k = "I" THEN x * y ELSE BMul(x, y)
IAdd(R, x, y)   == IF R.k = "I" THEN x + y ELSE BAdd(x, y)
IOf(R, n)       == IF R.k = "I" THEN n ELSE BN(n)

\* ------------------------------------------------------------ Hermite normal form
FirstNz(R, H, i) == LET S == {j \in 1..H.n : ~RIsZero(R, H.a[i][j])} IN IF S = {} THEN H.n + 1 ELSE Min(S)
HnfOK(R, H) ==
    /\ \A i \in 1..H.m-1 : \/ FirstNz(R, H, i) < FirstNz(R, H, i+1)                 \* echelon: pivots move right
                           \/ (FirstNz(R, H, i) = H.n + 1 /\ FirstNz(R, H, i+1) = H.n + 1)  \* zero rows last
    /\ \A i \in 1..H.m : LET j == FirstNz(R, H, i) IN j <= H.n =>
          /\ RIsNormalized(R, H.a[i][j])                                                \* normalised pivot
          /\ \A r \in 1..i-1 : ILess(R, RNormInt(R, H.a[r][j]), RNormInt(R, H.a[i][j]))   \* smaller norm above
\* everything that can be stated with the returned transforms
HnfTransOK(R, A, H, has, tp, tpi) ==
    /\ H.m = A.m /\ H.n = A.n /\ MShapeOK(H)
    /\ has[1] => MSame(R, H, MMul(R, tp, A))
    /\ has[2] => MSame(R, A, MMul(R, tpi, H))
    /\ (has[1] /\ has[2]) => MSame(R, MMul(R, tp, tpi), MId(R, A.m))
    /\ (A.m <= 4 /\ has[1]) => RIsUnit(R, MDet(R, tp))
    /\ (A.m <= 4 /\ has[2]) => RIsUnit(R, MDet(R, tpi))

\* ------------------------------------------------------------ LLL reducedness
Herm(R, B, i, k) == RSumSeq(R, [c \in 1..B.n |-> RMul(R, B.a[i][c], RConj(R, B.a[k][c]))])
\* d_j = det of the Gram matrix of the first j rows (d_0 = 1)
GramDet(R, B, j) == MDet(R, Mat(j, j, LAMBDA a, b : Herm(R, B, a, b)))
\* lam[i,j] = d_j * mu[i,j] = det of the Gram matrix of rows 1..j with its last row replaced by <b_i, b_k>
Lam(R, B, i, j) == MDet(R, Mat(j, j, LAMBDA a, b : IF a = j THEN Herm(R, B, i, b) ELSE Herm(R, B, a, b)))
Alpha(R) == IF R.k = "E" THEN <<2, 3>> ELSE <<3, 4>>
\* |mu|^2 bound guaranteed by nearest-element rounding: 1/4 (Z), 1/2 (Z[i]), 3/4 (Z[w])
SizeBound(R) == CASE R.k = "G" -> <<1, 2>> [] R.k = "E" -> <<3, 4>> [] OTHER -> <<1, 4>>
LLLReduced(R, B) ==
    LET d(j) == IF j = 0 THEN IOf(R, 1) ELSE RInt(R, GramDet(R, B, j)) IN
    /\ \A j \in 1..B.m : ~ILeq(R, d(j), IOf(R, 0))                      \* independent rows: positive Gram determinants
    /\ \A i \in 1..B.m : \A j \in 1..i-1 :                                \* size reduced: N(lam) <= bound * d_j^2
          ILeq(R, IMul(R, IOf(R, SizeBound(R)[2]), RNormInt(R, Lam(R, B, i, j))), IMul(R, IOf(R, SizeBound(R)[1]), IMul(R, d(j), d(j))))
    /\ \A k \in 2..B.m :                                                  \* Lovasz: q (d_{k-2} d_k + N(lam_{k,k-1})) >= p d_{k-1}^2
          ILeq(R, IMul(R, IOf(R, Alpha(R)[1]), IMul(R, d(k-1), d(k-1))),
                  IMul(R, IOf(R, Alpha(R)[2]), IAdd(R, IMul(R, d(k-2), d(k)), RNormInt(R, Lam(R, B, k, k-1)))))
LllOK(R, A, B, has, tp) ==
    /\ B.m = A.m /\ B.n = A.n /\ MShapeOK(B)
    /\ has => (MSame(R, B, MMul(R, tp, A)) /\ (A.m <= 4 => RIsUnit(R, MDet(R, tp))))
    /\ LLLReduced(R, B)
=============================================================================
