----------------------------- MODULE UnionFindM -----------------------------
(***************************************************************************)
(* Extension (serves C12, C18, C01): the union-find structure of yui as a  *)
(* state machine.  Abstract state: the partition `cls` of 0..n-1 (cls[i] = *)
(* the class of i as a set).  Actions: Extend(l), Union(i,j), and the       *)
(* observers IsSame, Root, Group whose recorded answers must agree with    *)
(* the partition: root(i) is a member of the class of i and is the same    *)
(* for all members; group() lists exactly the classes.                     *)
(***************************************************************************)
EXTENDS Naturals, Sequences, FiniteSets

VARIABLES n, cls
uvars == <<n, cls>>
Elems == 0..n-1
Classes == {cls[i] : i \in Elems}

New(m)      == n' = m /\ cls' = [i \in 0..m-1 |-> {i}]
Extend(l)   == n' = n + l /\ cls' = [i \in 0..n+l-1 |-> IF i < n THEN cls[i] ELSE {i}]
Union(i, j) == /\ i \in Elems /\ j \in Elems
               /\ LET u == cls[i] \cup cls[j] IN cls' = [k \in Elems |-> IF k \in u THEN u ELSE cls[k]]
               /\ UNCHANGED n
IsSame(i, j, out) == out = (cls[i] = cls[j]) /\ UNCHANGED uvars
\* roots: one representative per class, a member of it (roots is the recorded vector of root(i) for all i)
Roots(rs)   == /\ Len(rs) = n
               /\ \A i \in Elems : rs[i+1] \in cls[i]
               /\ \A i, j \in Elems : (cls[i] = cls[j]) <=> (rs[i+1] = rs[j+1])
               /\ UNCHANGED uvars
\* group(): the classes, each listed once, every element exactly once
Group(gs)   == /\ {{gs[k][x] : x \in 1..Len(gs[k])} : k \in 1..Len(gs)} = Classes
               /\ Len(gs) = Cardinality(Classes)
               /\ \A k \in 1..Len(gs) : Len(gs[k]) = Cardinality({gs[k][x] : x \in 1..Len(gs[k])})
               /\ UNCHANGED uvars
Init == n = 0 /\ cls = <<>>
\* the partition invariant
PartitionOK == /\ \A i \in Elems : i \in cls[i]
               /\ \A i, j \in Elems : (j \in cls[i]) => (cls[j] = cls[i])
=============================================================================
