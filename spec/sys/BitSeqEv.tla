------------------------------ MODULE BitSeqEv ------------------------------
(* Event view of BitSeq: an event record {op, args..} selects the action.  Shared by the
   trace validator (events recorded from the implementation) and the behaviour generator
   (events enumerated by TLC and replayed into the implementation). *)
EXTENDS BitSeq

Step(e) ==
    CASE e.op = "reset"     -> Reset
      [] e.op = "new"       -> New(e.r, e.word, e.len)
      [] e.op = "new_rev"   -> NewRev(e.r, e.word, e.len)
      [] e.op = "empty"     -> Empty(e.r)
      [] e.op = "zeros"     -> MkZeros(e.r, e.n)
      [] e.op = "ones"      -> MkOnes(e.r, e.n)
      [] e.op = "from_iter" -> FromIter(e.r, e.bits)
      [] e.op = "from_bit"  -> FromBit(e.r, e.b)
      [] e.op = "parse"     -> Parse(e.r, e.chars)
      [] e.op = "copy"      -> Copy(e.r, e.r2)
      [] e.op = "push"      -> Push(e.r, e.b)
      [] e.op = "append"    -> AppendReg(e.r, e.r2)
      [] e.op = "insert"    -> InsertBit(e.r, e.i, e.b)
      [] e.op = "remove"    -> RemoveBit(e.r, e.i)
      [] e.op = "set"       -> SetBit(e.r, e.i, e.b)
      [] e.op = "sub"       -> Sub(e.r, e.r2, e.l)
      [] e.op = "edit"      -> Edit(e.r, e.r2, e.kind, e.i, e.b)
      [] e.op = "len"       -> LenOf(e.r)
      [] e.op = "is_empty"  -> IsEmpty(e.r)
      [] e.op = "as_u64"    -> AsWord(e.r)
      [] e.op = "weight"    -> WeightOf(e.r)
      [] e.op = "iter"      -> Iter(e.r)
      [] e.op = "display"   -> Display(e.r)
      [] e.op = "index"     -> IndexAt(e.r, e.i)
      [] e.op = "is_sub"    -> IsSub(e.r, e.r2)
      [] e.op = "cmp"       -> Compare(e.r, e.r2)
      [] e.op = "eq"        -> Equal(e.r, e.r2)
      [] e.op = "generate"  -> Generate(e.n, e.k)

=============================================================================
