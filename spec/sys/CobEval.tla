------------------------------- MODULE CobEval -------------------------------
(***************************************************************************)
(* C01.  Evaluation of dotted cobordism components (Bar-Natan's local      *)
(* relations in the form used by yui_kh::kh::internal::v2::cob) as a       *)
(* rewriting machine.  A component is <<g, x, y>>: genus g, x dots X and   *)
(* y dots Y (Y = X - h, the second root), either closed or with a single   *)
(* boundary circle.  The state is a linear combination of components with  *)
(* coefficients in Z[H, T] (h = H, t = T symbolic).  Rules:                *)
(*                                                                         *)
(*   NeckCut   <<g, x, y>>, g > 0   ->  <<g-1, x+1, y>> + <<g-1, x, y+1>>  *)
(*   XY        x, y >= 1            ->  T <<g, x-1, y-1>>                  *)
(*   XX        x >= 2               ->  H <<g, x-1, y>> + T <<g, x-2, y>>  *)
(*   YY        y >= 2               -> -H <<g, x, y-1>> + T <<g, x, y-2>>  *)
(*   Sphere    closed <<0,1,0>>, <<0,0,1>> -> 1;   closed <<0,0,0>> -> 0   *)
(*                                                                         *)
(* Invariant: the value of the state -- the element                        *)
(* X^x Y^y (X + Y)^g of A = Z[H,T][X]/(X^2 - HX - T) (Frobenius.tla) for a  *)
(* component with boundary, its counit epsilon(..) for a closed one --     *)
(* never changes, whatever rule is applied where; every run terminates     *)
(* (the measure 3g + x + y decreases); a closed component ends as a        *)
(* scalar.  Normal forms are NOT unique as expressions (X and Y are both   *)
(* kept as dots and Y = X - H), only their value is.                       *)
(***************************************************************************)
EXTENDS Frobenius, TLC

VARIABLES cl,       \* TRUE: closed components
          terms,    \* function: component -> coefficient (polynomial in H, T; no zero coefficients)
          v0        \* the value of the initial component
cvars == <<cl, terms, v0>>

PR    == RP(RI, 2)
PH    == [e \in {<<1, 0>>} |-> 1]
PT    == [e \in {<<0, 1>>} |-> 1]
PC(c) == RFromInt(PR, c)
Unit  == <<-1, 0, 0>>                     \* the empty cobordism (a closed component evaluated to a scalar)

\* the element of A a component with boundary stands for
ElemOf(tm) == FMul(PR, PH, PT, FMul(PR, PH, PT, FPow(PR, PH, PT, FX(PR), tm[2]), FPow(PR, PH, PT, FY(PR, PH), tm[3])),
                   FPow(PR, PH, PT, FHandle(PR, PH), tm[1]))
ClosedValue(tm) == IF tm = Unit THEN ROne(PR) ELSE FEps(PR, ElemOf(tm))
\* value of a state: closed -> a polynomial, wrapped as <<p, 0>>; with boundary -> an element of A
ValueOf(c, f) ==
    FoldLeft(LAMBDA acc, tm : FAdd(PR, acc, IF c THEN FScalar(PR, RMul(PR, f[tm], ClosedValue(tm))) ELSE FScale(PR, f[tm], ElemOf(tm))),
             FZero(PR), SetToSeq(DOMAIN f))

\* ---------------------------------------------------------------- rewriting
AddTerm(f, tm, c) ==
    IF RIsZero(PR, c) THEN f
    ELSE IF tm \in DOMAIN f
         THEN LET s == RAdd(PR, f[tm], c) IN
              IF RIsZero(PR, s) THEN [x \in (DOMAIN f) \ {tm} |-> f[x]] ELSE [f EXCEPT ![tm] = s]
         ELSE f @@ (tm :> c)
Without(f, tm) == [x \in (DOMAIN f) \ {tm} |-> f[x]]
\* replace tm (coefficient c) by the combination rs = sequence of <<component, polynomial>>
Rewrite(f, tm, rs) ==
    FoldLeft(LAMBDA acc, r : AddTerm(acc, r[1], RMul(PR, f[tm], r[2])), Without(f, tm), rs)

\* the right-hand sides of the rules as data: sequence of <<component, coefficient>>
RhsNeckCut(tm) == <<<<<<tm[1] - 1, tm[2] + 1, tm[3]>>, PC(1)>>, <<<<tm[1] - 1, tm[2], tm[3] + 1>>, PC(1)>>>>
RhsXY(tm)      == <<<<<<tm[1], tm[2] - 1, tm[3] - 1>>, PT>>>>
RhsXX(tm)      == <<<<<<tm[1], tm[2] - 1, tm[3]>>, PH>>, <<<<tm[1], tm[2] - 2, tm[3]>>, PT>>>>
RhsYY(tm)      == <<<<<<tm[1], tm[2], tm[3] - 1>>, RNeg(PR, PH)>>, <<<<tm[1], tm[2], tm[3] - 2>>, PT>>>>
\* local soundness of one rule at one component (the inductive step of ValueInv): as elements of A
RhsValue(rs)   == FoldLeft(LAMBDA acc, r : FAdd(PR, acc, FScale(PR, r[2], ElemOf(r[1]))), FZero(PR), rs)
RuleSound(tm) ==
    /\ tm[1] > 0 => FSame(PR, ElemOf(tm), RhsValue(RhsNeckCut(tm)))
    /\ (tm[2] >= 1 /\ tm[3] >= 1) => FSame(PR, ElemOf(tm), RhsValue(RhsXY(tm)))
    /\ tm[2] >= 2 => FSame(PR, ElemOf(tm), RhsValue(RhsXX(tm)))
    /\ tm[3] >= 2 => FSame(PR, ElemOf(tm), RhsValue(RhsYY(tm)))

NeckCut(tm) == tm[1] > 0 /\ terms' = Rewrite(terms, tm, RhsNeckCut(tm))
RuleXY(tm)  == tm[2] >= 1 /\ tm[3] >= 1 /\ terms' = Rewrite(terms, tm, RhsXY(tm))
RuleXX(tm)  == tm[2] >= 2 /\ terms' = Rewrite(terms, tm, RhsXX(tm))
RuleYY(tm)  == tm[3] >= 2 /\ terms' = Rewrite(terms, tm, RhsYY(tm))
Sphere(tm)  == /\ cl /\ tm[1] = 0 /\ tm[2] + tm[3] <= 1
               /\ terms' = IF tm[2] + tm[3] = 1 THEN Rewrite(terms, tm, <<<<Unit, PC(1)>>>>) ELSE Without(terms, tm)
Rules(tm) == NeckCut(tm) \/ RuleXY(tm) \/ RuleXX(tm) \/ RuleYY(tm) \/ Sphere(tm)
Step ==
    /\ \E tm \in (DOMAIN terms) \ {Unit} : Rules(tm)
    /\ UNCHANGED <<cl, v0>>
\* rewriting steps on different components commute; StepLeft applies every applicable rule, but only to the largest
\* reducible component (a partial-order reduction of Step that reaches the same normal forms)
Reducible(c, tm) == tm # Unit /\ (tm[1] > 0 \/ tm[2] + tm[3] >= 2 \/ (c /\ tm[1] = 0))
Bigger(a, b) == a[1] > b[1] \/ (a[1] = b[1] /\ (a[2] > b[2] \/ (a[2] = b[2] /\ a[3] >= b[3])))
StepLeft ==
    /\ LET R == {tm \in DOMAIN terms : Reducible(cl, tm)} IN
          R # {} /\ Rules(CHOOSE tm \in R : \A o \in R : Bigger(tm, o))
    /\ UNCHANGED <<cl, v0>>

Start(c, g, x, y) ==
    /\ cl' = c
    /\ terms' = (<<g, x, y>> :> PC(1))
    /\ v0' = ValueOf(c, <<g, x, y>> :> PC(1))

\* ---------------------------------------------------------------- properties
ValueInv   == FSame(PR, ValueOf(cl, terms), v0)
\* the empty combination is the zero cobordism: then the initial value was zero
ZeroInv    == (DOMAIN terms = {}) => FSame(PR, v0, FZero(PR))
Measure(f) == FoldLeft(LAMBDA acc, tm : acc + (IF tm = Unit THEN 0 ELSE 3 * tm[1] + tm[2] + tm[3] + 1), 0, SetToSeq(DOMAIN f))
IsNormal(c, tm) == tm = Unit \/ (~c /\ tm[1] = 0 /\ tm[2] + tm[3] <= 1)
Terminal    == \A tm \in DOMAIN terms : IsNormal(cl, tm)
\* a terminal closed state is a scalar equal to the initial value; a terminal state with boundary is a combination of
\* the plain, X-dotted and Y-dotted disc with the initial value
TerminalOK  == Terminal =>
                 /\ cl => DOMAIN terms \subseteq {Unit}
                 /\ FSame(PR, ValueOf(cl, terms), v0)
\* every step lowers the maximal measure of a component: termination
MaxMeasure(f) == IF DOMAIN f = {} THEN 0 ELSE Max({IF tm = Unit THEN 0 ELSE 3 * tm[1] + tm[2] + tm[3] + 1 : tm \in DOMAIN f})

\* the normal form the library computes (its fixed rule order), as the reference for direction A:
\* closed: the polynomial epsilon(X^x Y^y (X+Y)^g); with boundary: the element of A as <<a, b>> = a + bX
ExpectedClosed(g, x, y) == ClosedValue(<<g, x, y>>)
ExpectedOpen(g, x, y)   == ElemOf(<<g, x, y>>)
PolyTriples(p) == {<<e[1], e[2], p[e]>> : e \in DOMAIN p}
=============================================================================
