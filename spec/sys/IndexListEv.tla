---------------------------- MODULE IndexListEv ----------------------------
(* event -> action map for recorded histories of yui::IndexList *)
EXTENDS IndexListM
Step(e) ==
    IF e.res = "ok" THEN
        CASE e.op = "reset"     -> New
          [] e.op = "new"       -> New
          [] e.op = "from_iter" -> FromIter(e.xs)
          [] e.op = "len"       -> LenIs(e.out)
          [] e.op = "is_empty"  -> IsEmptyIs(e.out)
          [] e.op = "contains"  -> ContainsIs(e.x, e.out)
          [] e.op = "index_of"  -> IndexOfIs(e.x, e.out)
          [] e.op = "iter"      -> IterIs(e.out)
          [] e.op = "index"     -> IndexIs(e.i, e.out)
          [] e.op = "into_iter" -> IntoIterIs(e.out)
          [] e.op = "eq"        -> EqIs(e.ys, e.out)
          [] OTHER -> FALSE
    ELSE IF e.res = "panic" THEN
        CASE e.op = "index" -> IndexPanics(e.i)
          [] e.op \in {"len", "is_empty", "contains", "index_of", "iter", "into_iter", "eq"} -> AnyPanics
          [] OTHER -> FALSE
    ELSE FALSE
=============================================================================
