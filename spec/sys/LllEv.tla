------------------------------- MODULE LllEv -------------------------------
EXTENDS LLL
VARIABLES calls, sig
Hnf(R, A, H, has, tp, tpi, id) ==
    /\ HnfTransOK(R, A, H, has, tp, tpi) /\ HnfOK(R, H)
    \* the Hermite form is unique: the same H whatever transforms were requested
    /\ IF id \in DOMAIN sig THEN MSame(R, sig[id], H) /\ UNCHANGED sig
       ELSE sig' = [x \in DOMAIN sig \cup {id} |-> IF x = id THEN H ELSE sig[x]]
    /\ calls' = calls + 1
Lll(R, A, B, has, tp) == LllOK(R, A, B, has, tp) /\ calls' = calls + 1 /\ UNCHANGED sig
Step(e) == e.res = "ok" /\ LET R == e.ring IN
    CASE e.op = "hnf" -> Hnf(R, e.a, e.h, e.has, e.p, e.pinv, e.id)
      [] e.op = "lll" -> Lll(R, e.a, e.b, e.has, e.p)
      [] e.op = "newcase" -> calls' = calls /\ sig' = [x \in {} |-> 0]
      [] OTHER -> FALSE
Init == calls = 0 /\ sig = [x \in {} |-> 0]
=============================================================================
