------------------------------- MODULE GridEv -------------------------------
(* event -> action map for recorded histories of yui_homology::Grid and the GridDeg types.
   Degrees arrive as JSON arrays of length 1..3; iter / into_iter as arrays of {i, e}; the entry map of `map`
   is x |-> a x + b. *)
EXTENDS GridM
Pure(cond) == cond /\ UNCHANGED gvars
Step(e) ==
    e.res = "ok" /\
    CASE e.op = "reset"        -> Default
      [] e.op = "default"      -> Default
      [] e.op = "generate"     -> Generate(e.supp, e.vals, e.dflt)
      [] e.op = "from_pairs"   -> FromPairs(e.supp, e.vals)
      [] e.op = "insert"       -> InsertAt(e.i, e.e)
      [] e.op = "remove"       -> RemoveAt(e.i, e.found, e.out)
      [] e.op = "get_mut_set"  -> GetMutSet(e.i, e.e, e.out)
      [] e.op = "get"          -> GetIs(e.i, e.out)
      [] e.op = "index"        -> GetIs(e.i, e.out)
      [] e.op = "get_default"  -> GetDefaultIs(e.out)
      [] e.op = "is_supported" -> IsSupportedIs(e.i, e.out)
      [] e.op = "support"      -> SupportIs(e.out)
      [] e.op = "iter"         -> IterIs(e.out)
      [] e.op = "into_iter"    -> IntoIterIs(e.out)
      [] e.op = "map"          -> MapBy(LAMBDA x : e.a * x + e.b)
      [] e.op = "truncated"    -> Truncated(e.lo, e.hi)
      [] e.op = "deg_add"      -> Pure(e.out = DegAdd(e.a, e.b))
      [] e.op = "deg_sub"      -> Pure(e.out = DegSub(e.a, e.b))
      [] e.op = "deg_zero"     -> Pure(e.out = DegZero(e.n) /\ e.default = DegZero(e.n))
      [] e.op = "deg_is_zero"  -> Pure(e.out = DegIsZero(e.a))
      [] e.op = "deg_cmp"      -> Pure(e.out = DegCmp(e.a, e.b) /\ e.eq = (e.a = e.b))
      [] e.op = "deg_show"     -> Pure(e.out = DegShow(e.a))
      [] e.op = "deg_tuple"    -> Pure(e.from = e.a /\ e.into = e.a)
      [] OTHER -> FALSE
=============================================================================
