------------------------------ MODULE MonoOrd ------------------------------
(***************************************************************************)
(* C16, monomial part.  A monomial in nv variables is its exponent: an     *)
(* integer (nv = 0, one variable) or an nv-tuple of integers (negative     *)
(* entries = Laurent monomials).  Multiplication adds exponents.           *)
(* Lex: the variable x_1 is the largest (x_1 > x_2 > ...): the first       *)
(* entry in which the exponents differ decides.  Graded lex: total degree  *)
(* first, lex breaks ties.  Comparison results are -1 / 0 / 1.             *)
(* The axioms below are what C16 claims of cmp_lex and cmp_grlex: total    *)
(* orders (reflexive on equal, antisymmetric, transitive, total) that are  *)
(* compatible with multiplication.                                         *)
(***************************************************************************)
EXTENDS Rings

ICmp(a, b) == IF a < b THEN -1 ELSE IF a > b THEN 1 ELSE 0

MLex(nv, e, f) ==
    IF nv = 0 THEN ICmp(e, f)
    ELSE LET D == {i \in 1..nv : e[i] # f[i]} IN
         IF D = {} THEN 0 ELSE LET m == CHOOSE i \in D : \A j \in D : i <= j IN ICmp(e[m], f[m])

MGrlex(nv, e, f) == LET c == ICmp(ETotal(nv, e), ETotal(nv, f)) IN IF c # 0 THEN c ELSE MLex(nv, e, f)

MCmp(kind, nv, e, f) == IF kind = "lex" THEN MLex(nv, e, f) ELSE MGrlex(nv, e, f)

\* the largest element of a non-empty finite set of monomials
MMaxOf(kind, nv, S) == CHOOSE e \in S : \A g \in S : MCmp(kind, nv, g, e) <= 0

\* ---------------------------------------------------------------- the claimed axioms, over a finite set S
TotalOrderOn(S, c(_,_)) ==
    /\ \A x \in S : c(x, x) = 0
    /\ \A x, y \in S : /\ c(x, y) \in {-1, 0, 1}
                       /\ c(x, y) = 0 - c(y, x)                          \* antisymmetric and total
                       /\ (c(x, y) = 0 <=> x = y)
    /\ \A x, y, z \in S : (c(x, y) <= 0 /\ c(y, z) <= 0) => c(x, z) <= 0   \* transitive

CompatibleOn(nv, S, c(_,_)) ==
    \A x, y, m \in S : c(EAdd(nv, x, m), EAdd(nv, y, m)) = c(x, y)

OrderAxioms(nv, S) ==
    /\ TotalOrderOn(S, LAMBDA x, y : MLex(nv, x, y))
    /\ TotalOrderOn(S, LAMBDA x, y : MGrlex(nv, x, y))
    /\ CompatibleOn(nv, S, LAMBDA x, y : MLex(nv, x, y))
    /\ CompatibleOn(nv, S, LAMBDA x, y : MGrlex(nv, x, y))
    \* graded: a larger total degree always wins
    /\ \A x, y \in S : ETotal(nv, x) < ETotal(nv, y) => MGrlex(nv, x, y) = -1
    \* on monomials without negative exponents 1 is the least element of both orders (admissible orders)
    /\ \A x \in S : (IF nv = 0 THEN x >= 0 ELSE \A i \in 1..nv : x[i] >= 0)
                      => MLex(nv, EZero(nv), x) <= 0 /\ MGrlex(nv, EZero(nv), x) <= 0
=============================================================================
