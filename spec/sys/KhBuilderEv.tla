----------------------------- MODULE KhBuilderEv -----------------------------
(* Event view of KhBuilder.tla.  One event per public call on a TngComplexBuilder driven with auto_deloop =
   auto_elim = false:
     kb_begin  {pd, h, t, base}            TngComplexBuilder::new(link, h, t, base point)
     kb_append {x}                         set_crossings([crossing x]); process_all()     (x = 1-based index into pd)
     kb_deloop {k: {st, lab}, circ}        deloop(key, r)  with circ the edge labels of component r
     kb_elim   {k: {st, lab}, l: {st, lab}} eliminate(k, l)
     kb_final  {gens, mats}                finalize(); into_kh_complex(): generators and matrices of the result
   Every event but the last carries `keys`: the vertices of complex() after the call, each {st, lab, circles, arcs}
   with the closed components / the end labels of the open components of its tangle; they must be exactly the keys and
   the derived tangles of the specification.  st: bits in absorption order; lab: 1 = X, 0 = 1, in delooping order. *)
EXTENDS KhBuilder

SetOfSeq(s) == {s[i] : i \in 1..Len(s)}
IdOfJ(j)    == <<j.st, j.lab>>
\* the logged vertices are the keys of the new state, with the tangles the specification derives
KeysLogged(vs) ==
    /\ Len(vs) = Cardinality(kb'.keys)
    /\ {IdOfJ(vs[i]) : i \in 1..Len(vs)} = {KeyId(k) : k \in kb'.keys}
    /\ \A i \in 1..Len(vs) : LET k == CHOOSE k \in kb'.keys : KeyId(k) = IdOfJ(vs[i]) IN
          /\ {SetOfSeq(vs[i].circles[x]) : x \in 1..Len(vs[i].circles)} = Undelooped(kb', k)
          /\ Len(vs[i].circles) = Cardinality(Undelooped(kb', k))
          /\ {SetOfSeq(vs[i].arcs[x]) : x \in 1..Len(vs[i].arcs)} = ArcsOf(kb', k.st)

KbPre(e) ==
    CASE e.op = "kb_begin"  -> LET D == FromPD(e.pd) IN (Len(D) = 0 \/ Valid(D)) /\ (e.base >= 0 => (e.t = 0 /\ e.base \in Edges(D)))
      [] e.op = "kb_append" -> kb.on /\ e.x \in 1..Len(dg) /\ \A m \in 1..Len(kb.absorbed) : kb.absorbed[m] # e.x
      [] OTHER -> TRUE

KbStep(e) ==
    /\ e.res = "ok"
    /\ CASE e.op = "kb_begin"  -> Begin(FromPD(e.pd), e.h, e.t, e.base) /\ KeysLogged(e.keys)
         [] e.op = "kb_append" -> Append1(e.x) /\ KeysLogged(e.keys)
         [] e.op = "kb_deloop" -> Deloop(IdOfJ(e.k), SetOfSeq(e.circ)) /\ KeysLogged(e.keys)
         [] e.op = "kb_elim"   -> Eliminate(IdOfJ(e.k), IdOfJ(e.l)) /\ KeysLogged(e.keys)
         [] e.op = "kb_final"  -> Final(e.gens, e.mats)
         [] OTHER -> FALSE
=============================================================================
