-------------------------------- MODULE UCTEv -------------------------------
(* Event view of UCT.tla.
     {"op":"link",  "name":.., "n":crossings, "comps":.., "res":"ok"}
     {"op":"table", "name":.., "ring":"Z64"|"Z128"|"ZBig"|"Q"|"F2"|"F3", "route":"total"|"pieces", "red":bool,
      "res":"ok"|"panic"|"overflow", "tab":[[i, j, rank, [orders...]], ...]}
   A panic of the library on a link is not a step of the specification. *)
EXTENDS UCT

KeyOf(e) == Key(e.ring, e.route, e.red)

\* res = "overflow": an i64 / i128 computation left the range of the type (the harness is built with overflow checks).
\* That is outside the machine-integer envelope the property speaks about: no table, no claim.
IsOverflow(e) == e.op = "table" /\ e.res = "overflow" /\ e.ring \in {"Z64", "Z128"}

\* what the driver promises (a failure here is a harness bug, not a verdict)
UPre(e) ==
    CASE e.op = "link"  -> TRUE
      [] e.op = "table" -> e.name = lk /\ (IsOverflow(e) \/ ReportPre(KeyOf(e)))
      [] OTHER -> FALSE

UStep(e) ==
    \/ /\ e.res = "ok"
       /\ CASE e.op = "link"  -> NewLink(e.name)
            [] e.op = "table" -> Report(KeyOf(e), e.tab)
            [] OTHER -> FALSE
    \/ IsOverflow(e) /\ UNCHANGED uvars

\* ---- diagnosis of a rejected event from the accepted prefix (the state is a function of the prefix)
LastLink(Rec, d) == CHOOSE m \in 1..d : Rec[m].op = "link" /\ \A m2 \in (m + 1)..d : Rec[m2].op # "link"
TabsBefore(Rec, d) ==
    LET s == LastLink(Rec, d)
        M == (s + 1)..(d - 1)
    IN  [k \in {KeyOf(Rec[m]) : m \in M} |-> TabFn(Rec[CHOOSE m \in M : KeyOf(Rec[m]) = k].tab)]
Why(Rec, d) ==
    LET e == Rec[d] IN
    IF e.op # "table" THEN {<<"op", {}>>}
    ELSE IF e.res # "ok" THEN {<<"panic", {}>>}
    ELSE IF ~WellFormed(e.ring, e.tab) THEN {<<"malformed", {}>>}
    ELSE Objections(TabsBefore(Rec, d), KeyOf(e), TabFn(e.tab))
=============================================================================
