--------------------------------- MODULE UCT --------------------------------
(***************************************************************************)
(* C03.  The bigraded Khovanov tables of ONE link over Z, Q, F2, F3 are     *)
(* mutually consistent.                                                     *)
(*                                                                         *)
(* A table is a sequence of cells <<i, j, rank, tors>> (homological degree *)
(* i, quantum degree j, free rank, sequence of torsion orders); bidegrees   *)
(* not listed are zero.  The machine holds the tables reported so far for   *)
(* the current link, indexed by                                             *)
(*      ring   in  Z64, Z128, ZBig (the three integer types), Q, F2, F3     *)
(*      route  in  "total"   homology of the whole complex, then split by   *)
(*                           the q-degree of the generators (into_bigraded) *)
(*                 "pieces"  homology of the bigraded pieces of the complex *)
(*      red    in  BOOLEAN   reduced / unreduced theory                     *)
(* and has one action, Report(key, T): the library reports table T for key. *)
(* Its guard is the property:                                               *)
(*                                                                         *)
(*  integer tables    every table over an integer type, through either      *)
(*                    route, is the same table: equal free ranks and        *)
(*                    isomorphic torsion groups in every bidegree           *)
(*  Q                 rank_Q(i,j) = rank_Z(i,j), no torsion                  *)
(*  F_p (p = 2, 3)    dim(i,j) = rank_Z(i,j) + #{orders at (i,j) divisible  *)
(*                    by p} + #{orders at (i+1,j) divisible by p}           *)
(*                    (universal coefficients: Tor of the torsion one       *)
(*                    homological degree up), no torsion                    *)
(*  F2, reduced       unreduced(i,j) = reduced(i,j-1) + reduced(i,j+1)      *)
(*                                                                         *)
(* The relations are evaluated against the reference table of the link:     *)
(* ring Z64 through the bigraded pieces, which the driver reports first.    *)
(* "Isomorphic torsion" is decided on the primary decomposition, so that    *)
(* Z/6 and Z/2 + Z/3 in ONE bidegree are the same group, while a Z/6 filed  *)
(* in one bidegree is not a Z/2 and a Z/3 in two different ones.            *)
(***************************************************************************)
EXTENDS TorsionGroups, TLC

ZRings  == {"Z64", "Z128", "ZBig"}
Fields  == {"Q", "F2", "F3"}
RingTags == ZRings \cup Fields
Routes  == {"total", "pieces"}
CharOf(ring) == CASE ring = "F2" -> 2 [] ring = "F3" -> 3 [] OTHER -> 0

Key(ring, route, red) == [ring |-> ring, route |-> route, red |-> red]
Keys     == {Key(r, q, b) : r \in RingTags, q \in Routes, b \in BOOLEAN}
RefKey(red) == Key("Z64", "pieces", red)

\* ------------------------------------------------------------------ tables
CellsOf(T)     == {<<T[k][1], T[k][2]>> : k \in 1..Len(T)}
CellAt(T, i, j) == LET K == {k \in 1..Len(T) : T[k][1] = i /\ T[k][2] = j}
                   IN  IF K = {} THEN <<i, j, 0, <<>>>> ELSE T[CHOOSE k \in K : TRUE]
RankAt(T, i, j) == CellAt(T, i, j)[3]
TorsAt(T, i, j) == CellAt(T, i, j)[4]
\* the function form (evaluated once per table)
TabFn(T) == [c \in CellsOf(T) |-> CellAt(T, c[1], c[2])]
FRank(F, i, j) == IF <<i, j>> \in DOMAIN F THEN F[<<i, j>>][3] ELSE 0
FTors(F, i, j) == IF <<i, j>> \in DOMAIN F THEN F[<<i, j>>][4] ELSE <<>>

IsOrder(x) == x \in Int /\ UAbs(x) >= 2          \* a torsion coefficient: non-zero, not a unit
WellFormed(ring, T) ==
    /\ \A k \in 1..Len(T) :
          /\ T[k][1] \in Int /\ T[k][2] \in Int
          /\ T[k][3] \in Nat
          /\ IF ring \in Fields THEN T[k][4] = <<>>               \* a vector space has no torsion
             ELSE \A m \in 1..Len(T[k][4]) : IsOrder(T[k][4][m])
    /\ \A k, m \in 1..Len(T) : (T[k][1] = T[m][1] /\ T[k][2] = T[m][2]) => k = m

\* ------------------------------------------------------------------ the relations (F, G: function forms)
Both(F, G) == DOMAIN F \cup DOMAIN G
\* where two tables differ as tables of abelian groups
DiffCells(F, G) == {c \in Both(F, G) : FRank(F, c[1], c[2]) # FRank(G, c[1], c[2])
                                       \/ ~IsoTors(FTors(F, c[1], c[2]), FTors(G, c[1], c[2]))}
\* rational ranks against integer ranks
RankDiffCells(F, Z) == {c \in Both(F, Z) : FRank(F, c[1], c[2]) # FRank(Z, c[1], c[2])}
\* universal coefficients: the dimension over F_p predicted by the integer table Z
UctDim(Z, p, i, j) == FRank(Z, i, j) + DivCount(FTors(Z, i, j), p) + DivCount(FTors(Z, i + 1, j), p)
UctCells(Z) == DOMAIN Z \cup {<<c[1] - 1, c[2]>> : c \in DOMAIN Z}
UctDiffCells(F, Z, p) == {c \in DOMAIN F \cup UctCells(Z) : FRank(F, c[1], c[2]) # UctDim(Z, p, c[1], c[2])}
\* over F2 the unreduced theory is the reduced one tensored with the homology of the unknot (q = -1, +1)
RedDiffCells(U, R) == {c \in DOMAIN U \cup {<<d[1], d[2] + s>> : d \in DOMAIN R, s \in {-1, 1}} :
                          FRank(U, c[1], c[2]) # FRank(R, c[1], c[2] - 1) + FRank(R, c[1], c[2] + 1)}

\* ------------------------------------------------------------------ the machine
VARIABLES lk,       \* the link under observation (a name; the relations do not depend on it)
          tabs      \* key |-> table (function form) reported for the current link
uvars == <<lk, tabs>>

NoTabs == [k \in {} |-> {}]
UInit  == lk = "" /\ tabs = NoTabs

NewLink(name) == lk' = name /\ tabs' = NoTabs

\* the reasons for which table F (function form) reported under key k contradicts what is already known;
\* each reason is <<relation, cells>>
Objections(ts, k, F) ==
    LET ref == ts[RefKey(k.red)]
        o1 == IF k.ring \in ZRings /\ k # RefKey(k.red) /\ DiffCells(F, ref) # {}
              THEN {<<IF k.route = "total" THEN "route" ELSE "inttype", DiffCells(F, ref)>>} ELSE {}
        o2 == IF k.ring = "Q" /\ RankDiffCells(F, ref) # {} THEN {<<"rankQ", RankDiffCells(F, ref)>>} ELSE {}
        o3 == IF k.ring \in {"F2", "F3"} /\ UctDiffCells(F, ref, CharOf(k.ring)) # {}
              THEN {<<"uct", UctDiffCells(F, ref, CharOf(k.ring))>>} ELSE {}
        o4 == IF k.ring = "F2"
              THEN {<<"f2red", IF k.red THEN RedDiffCells(ts[m], F) ELSE RedDiffCells(F, ts[m])>> :
                       m \in {m \in DOMAIN ts : m.ring = "F2" /\ m.red # k.red /\
                                 (IF k.red THEN RedDiffCells(ts[m], F) ELSE RedDiffCells(F, ts[m])) # {}}}
              ELSE {}
    IN  o1 \cup o2 \cup o3 \cup o4

\* the driver reports the reference first and every key once
ReportPre(k) == k \in Keys /\ k \notin DOMAIN tabs /\ (k = RefKey(k.red) \/ RefKey(k.red) \in DOMAIN tabs)

Report(k, T) ==
    /\ ReportPre(k)
    /\ WellFormed(k.ring, T)
    /\ Objections(tabs, k, TabFn(T)) = {}
    /\ tabs' = [m \in DOMAIN tabs \cup {k} |-> IF m = k THEN TabFn(T) ELSE tabs[m]]
    /\ UNCHANGED lk

\* invariant: everything held is pairwise consistent in the sense of the property (re-derived from scratch)
Coherent ==
    \A k \in DOMAIN tabs :
        LET rest == [m \in DOMAIN tabs \ {k} |-> tabs[m]]
        IN  k = RefKey(k.red) \/ Objections(rest, k, tabs[k]) = {}
=============================================================================
