------------------------------- MODULE KhSmall -------------------------------
(***************************************************************************)
(* C02 / C06.  Khovanov homology of a SMALL diagram straight from the      *)
(* definition (cube of resolutions over the Frobenius algebra              *)
(* A = Z[X]/(X^2 - hX - t)), used only as the definition-level reference   *)
(* against which the relations of KhTable.tla (invariance, mirror duality) *)
(* and of LeeCanon.tla (canonical cycles, rank 2^components) are           *)
(* model-checked, and against which recorded tables of diagrams with very  *)
(* few crossings are compared.  Built on Link.tla (states, circles, signs) *)
(* and LinAlg.tla (integer Smith form, ranks).                             *)
(*                                                                         *)
(*   generators at a state s : labellings of the circles of s by 1 / X     *)
(*                             (label 0 = 1, label 1 = X)                  *)
(*   h-degree  |s| - n-        q-degree  #1 - #X + |s| + n+ - 2n- (+1 red.) *)
(*   d = SUM over 0-bits k of s : (-1)^{#1-bits before k} (m or Delta)     *)
(*   m(1,1)=1  m(1,X)=m(X,1)=X  m(X,X)=hX+t                                *)
(*   Delta(1)=1(x)X+X(x)1-h 1(x)1     Delta(X)=X(x)X+t 1(x)1               *)
(*   reduced (t = 0): the circle through the base edge carries X           *)
(*                                                                         *)
(* TLC note: a LET definition or an operator argument may be re-evaluated  *)
(* at every use; every value that is used more than once is therefore      *)
(* bound through Bind (a bound variable of a set constructor holds an      *)
(* evaluated value) and every table is forced with TLCEval.                *)
(***************************************************************************)
EXTENDS Jones, TLC

LA == INSTANCE LinAlg

Bind(v, F(_)) == CHOOSE r \in {F(x) : x \in {v}} : TRUE      \* F(v) with v evaluated exactly once
NoBase == -1

FMul(h, t, x, y) == {r \in (IF x = 0 /\ y = 0 THEN {<<1, 0>>}
                            ELSE IF x + y = 1 THEN {<<1, 1>>}
                            ELSE {<<h, 1>>, <<t, 0>>}) : r[1] # 0}
FDelta(h, t, x) == {r \in (IF x = 0 THEN {<<1, 0, 1>>, <<1, 1, 0>>, <<-h, 0, 0>>}
                           ELSE {<<1, 1, 1>>, <<t, 0, 0>>}) : r[1] # 0}

\* images of the generator <<s, lab>> under d; circ: state |-> sequence of circles (an evaluated function)
OutOf(circ, n, h, t, s, lab) ==
    LET cs    == circ[s]
        old   == {cs[c] : c \in 1..Len(cs)}
        labOf(C) == lab[CHOOSE c \in 1..Len(cs) : cs[c] = C]
    IN  UNION {
          Bind(circ[[s EXCEPT ![k] = 1]], LAMBDA cs2 :
            LET s2   == [s EXCEPT ![k] = 1]
                sgn  == MinusOneTo(SumSeq([x \in 1..(k - 1) |-> s[x]]))
                new  == {cs2[c] : c \in 1..Len(cs2)}
                gone == old \ new
                born == new \ old
            IN  IF Cardinality(gone) = 2
                THEN LET c1  == CHOOSE C \in gone : TRUE
                         c2  == CHOOSE C \in gone : C # c1
                         tg  == CHOOSE C \in born : TRUE
                     IN  {<<sgn * r[1], <<s2, [c \in 1..Len(cs2) |-> IF cs2[c] = tg THEN r[2] ELSE labOf(cs2[c])]>>>>
                            : r \in FMul(h, t, labOf(c1), labOf(c2))}
                ELSE LET src == CHOOSE C \in gone : TRUE
                         b1  == CHOOSE C \in born : TRUE          \* Delta is cocommutative: the order is immaterial
                         b2  == CHOOSE C \in born : C # b1
                     IN  {<<sgn * r[1], <<s2, [c \in 1..Len(cs2) |-> IF cs2[c] = b1 THEN r[2]
                                                                    ELSE IF cs2[c] = b2 THEN r[3] ELSE labOf(cs2[c])]>>>>
                            : r \in FDelta(h, t, labOf(src))})
          : k \in {k \in 1..n : s[k] = 0}}

\* The cube of D (all entries crossings): a record of evaluated tables.
\*   gens  set of generators <<s, lab>>      hd, qd  degrees      out  g |-> set of <<coef, g2>>
Cube(D, h, t, base) ==
    Bind(TLCEval([s \in States(Len(D)) |-> SetToSeq(CirclesOfState(D, s))]), LAMBDA circ :
    Bind(IF Len(D) = 0 THEN <<0, 0>> ELSE CHOOSE pn \in PosNegSet(D) : TRUE, LAMBDA pn :
    Bind(UNION {{<<s, lab>> : lab \in {lab \in [1..Len(circ[s]) -> {0, 1}] :
                                        \A c \in 1..Len(circ[s]) : (base \in circ[s][c]) => lab[c] = 1}}
                : s \in States(Len(D))}, LAMBDA gens :
        [gens |-> gens,
         hd   |-> TLCEval([g \in gens |-> SumSeq(g[1]) - pn[2]]),
         qd   |-> TLCEval([g \in gens |-> (Len(g[2]) - 2 * SumSeq(g[2])) + SumSeq(g[1]) + pn[1] - 2 * pn[2] + (IF base = NoBase THEN 0 ELSE 1)]),
         out  |-> TLCEval([g \in gens |-> OutOf(circ, Len(D), h, t, g[1], g[2])]),
         circ |-> circ, pn |-> pn])))

\* matrix of d from the generators Gs (columns) to the generators Gt (rows), both sequences; dtab: the cube's table `out`
DMat(dtab, Gt, Gs) ==
    TLCEval([r \in 1..Len(Gt) |-> TLCEval([c \in 1..Len(Gs) |->
        LET E == {e \in dtab[Gs[c]] : e[2] = Gt[r]}
        IN  IF E = {} THEN 0 ELSE SumOverSet(E, [e \in E |-> e[1]])])])

\* d o d = 0 on the whole cube (every generator)
DDZeroAt(dtab, g) ==
    LET paths == UNION {{<<e1[1] * e2[1], e2[2], e1[2]>> : e2 \in dtab[e1[2]]} : e1 \in dtab[g]}
        tgts  == {p[2] : p \in paths}
    IN  \A x \in tgts : LET P == {p \in paths : p[2] = x} IN SumOverSet(P, [p \in P |-> p[1]]) = 0
DSquaredZero(cubeExpr) == \E cube \in {cubeExpr} : \A g \in cube.gens : DDZeroAt(cube.out, g)

\* ---------------------------------------------------------------- bigraded homology, h = t = 0
\* rows <<i, j, rank, tors>>; ring "Z": rank = free rank, tors = invariant factors > 1 of this bidegree;
\* "Q", "F2", "F3": rank = dimension, tors = <<>>
RingP(ring) == CASE ring = "F2" -> 2 [] ring = "F3" -> 3 [] OTHER -> 0
KhRowOf(dtab, G, b, ring) ==
    Bind(DMat(dtab, G[b], G[<<b[1] - 1, b[2]>>]), LAMBDA din :
    Bind(DMat(dtab, G[<<b[1] + 1, b[2]>>], G[b]), LAMBDA dout :
        IF RingP(ring) = 0
        THEN <<b[1], b[2], LA!HRank(Len(G[b]), din, dout), IF ring = "Z" THEN LA!HTors(din) ELSE <<>>>>
        ELSE <<b[1], b[2], LA!HDimP(Len(G[b]), din, dout, RingP(ring)), <<>>>>))
KhRowsOfCube(cubeExpr, ring) ==
    Bind(cubeExpr, LAMBDA cube :
    Bind({<<cube.hd[g], cube.qd[g]>> : g \in cube.gens}, LAMBDA bi :
    Bind(TLCEval([b \in bi \cup {<<b[1] - 1, b[2]>> : b \in bi} \cup {<<b[1] + 1, b[2]>> : b \in bi} |->
                    SetToSeq({g \in cube.gens : cube.hd[g] = b[1] /\ cube.qd[g] = b[2]})]), LAMBDA G :
        {r \in {KhRowOf(cube.out, G, b, ring) : b \in bi} : r[3] > 0 \/ r[4] # <<>>})))
KhRows(D, ring, base) == KhRowsOfCube(Cube(D, 0, 0, base), ring)

\* ---------------------------------------------------------------- total homology for any (h, t): rows <<i, rank, tors>> over Z
KhTotalRowOf(dtab, G, i) ==
    Bind(DMat(dtab, G[i], G[i - 1]), LAMBDA din :
    Bind(DMat(dtab, G[i + 1], G[i]), LAMBDA dout : <<i, LA!HRank(Len(G[i]), din, dout), LA!HTors(din)>>))
KhTotalOfCube(cubeExpr) ==
    Bind(cubeExpr, LAMBDA cube :
    Bind({cube.hd[g] : g \in cube.gens}, LAMBDA hs :
    Bind(TLCEval([i \in hs \cup {i - 1 : i \in hs} \cup {i + 1 : i \in hs} |-> SetToSeq({g \in cube.gens : cube.hd[g] = i})]), LAMBDA G :
        {KhTotalRowOf(cube.out, G, i) : i \in hs})))
KhTotal(D, h, t) == KhTotalOfCube(Cube(D, h, t, NoBase))
TotalRank(rows)  == SumOverSet(rows, [r \in rows |-> r[2]])
=============================================================================
