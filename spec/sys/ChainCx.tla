------------------------------- MODULE ChainCx ------------------------------
(***************************************************************************)
(* C05.  Every Khovanov complex the library returns is a graded chain       *)
(* complex over its coefficient ring, and building with polynomial          *)
(* parameters (H,T) commutes with specialisation to numbers (h,t).          *)
(*                                                                         *)
(* A complex is given the way the public API shows it:                      *)
(*    i0     least homological degree; position k stands for degree i0+k-1  *)
(*    g[k]   the generators of C_k: sequence of <<h-degree, q-degree>>      *)
(*    d[k]   d_matrix(i0+k-1) : C_k -> C_{k+1}, as [m, n, e] with e the      *)
(*           sequence of non-zero entries <<row y, column x, value>>;        *)
(*           d[last] maps into the zero module                               *)
(*    dz[k]  the same map obtained by applying d(i, .) to every generator    *)
(* Coefficient rings (tag |-> descriptor of Rings.tla):                      *)
(*    Z, Q, F2, F3            numbers                                        *)
(*    ZH, QH, F2H  R[H]       ZT  Z[T]       ZHT  Z[H,T]                      *)
(* with h in {"H", "0"} or a number, t in {"T", "0"} or a number.             *)
(*                                                                         *)
(* The machine keeps the polynomial complexes of the current link.  Its     *)
(* action Cx(tag, red, h, t, C) is enabled iff                               *)
(*   Shape        the matrices are composable and sized by the generators   *)
(*   Degree       d has degree +1: generators of C_k have h-degree i0+k-1,   *)
(*                d(x) lies in C_{k+1}, d_deg = 1                            *)
(*   SameMap      d_matrix and d(i, .) describe the same map                 *)
(*   DSquare      d[k+1] * d[k] = 0 over the ring                            *)
(*   Homogeneous  with deg H = -2, deg T = -4 every term c H^a T^b of entry  *)
(*                (y, x) has q(y) - q(x) - 2a - 4b = 0   (when h, t are the   *)
(*                graded parameters: variables or 0)                        *)
(*   Specialises  for numeric (h,t): every polynomial complex of the same    *)
(*                link and reducedness whose parameters cover (h,t), with    *)
(*                H := h, T := t substituted, has the same homology as C     *)
(*                (over Z: ranks and torsion up to isomorphism, from the     *)
(*                Smith normal form of LinAlg.tla; over Q, F2, F3: ranks).   *)
(***************************************************************************)
EXTENDS Decode, LinAlg, TorsionGroups, TLC

NumTags  == {"Z", "Q", "F2", "F3"}
PolyTags == {"ZH", "ZT", "ZHT", "QH", "F2H"}
RingOf(tag) == CASE tag = "Z"   -> RI
                 [] tag = "Q"   -> RQ
                 [] tag = "F2"  -> RF(2)
                 [] tag = "F3"  -> RF(3)
                 [] tag = "ZH"  -> RP(RI, 0)
                 [] tag = "ZT"  -> RP(RI, 0)
                 [] tag = "ZHT" -> RP(RI, 2)
                 [] tag = "QH"  -> RP(RQ, 0)
                 [] tag = "F2H" -> RP(RF(2), 0)
\* -(degree) of the monomial with exponent e:  deg H = -2, deg T = -4
Weight(tag, e) == CASE tag \in {"ZH", "QH", "F2H"} -> 2 * e
                    [] tag = "ZT"  -> 4 * e
                    [] tag = "ZHT" -> 2 * e[1] + 4 * e[2]
\* which parameters a ring admits
ParamsOK(tag, h, t) ==
    CASE tag \in {"ZH", "QH", "F2H"} -> h \in {"H", "0"} /\ t = "0"
      [] tag = "ZT"  -> h = "0" /\ t \in {"T", "0"}
      [] tag = "ZHT" -> h \in {"H", "0"} /\ t \in {"T", "0"}
      [] tag \in {"Z", "Q"} -> h \in Int /\ t \in Int
      [] tag = "F2"  -> h \in 0..1 /\ t \in 0..1
      [] tag = "F3"  -> h \in 0..2 /\ t \in 0..2
      [] OTHER -> FALSE
\* h and t are homogeneous elements of degrees -2 and -4 (or zero)
GradedParams(tag, h, t) == tag \in PolyTags \/ (h = 0 /\ t = 0)

\* ---------------------------------------------------------------- decoding (JSON form -> spec form)
DecEntries(tag, es) == [n \in 1..Len(es) |-> <<es[n][1], es[n][2], DV(RingOf(tag), es[n][3])>>]
\* TLC evaluates LET definitions and operator arguments by name, again at every use, and represents [x \in S |-> e]
\* lazily.  Values used more than once are therefore bound with Let (a bound variable holds a value) and sequences are
\* made explicit with ForceS.
ForceS(s) == s \o <<>>
Let(v, F(_)) == CHOOSE r \in {F(x) : x \in {v}} : TRUE
Dec(tag, c) == [i0 |-> c.i0, ddeg |-> c.ddeg, sup |-> c.sup, ranks |-> c.ranks, g |-> c.g,
                d  |-> ForceS([k \in 1..Len(c.d) |-> [m |-> c.d[k].m, n |-> c.d[k].n, e |-> ForceS(DecEntries(tag, c.d[k].e))]]),
                dzp |-> c.dzp,
                dz |-> ForceS([k \in 1..Len(c.dz) |-> ForceS(DecEntries(tag, c.dz[k]))])]

\* ---------------------------------------------------------------- the clauses
Len0(C) == Len(C.g)
Shape(C) ==
    /\ Len(C.d) = Len0(C) /\ Len(C.dz) = Len0(C) /\ Len(C.ranks) = Len0(C) /\ Len(C.dzp) = Len0(C)
    /\ Len0(C) >= 1
    /\ \A k \in 1..Len0(C) :
          /\ C.ranks[k] = Len(C.g[k])
          /\ C.d[k].n = Len(C.g[k])
          /\ C.d[k].m = (IF k < Len0(C) THEN Len(C.g[k + 1]) ELSE 0)
          /\ \A a \in 1..Len(C.d[k].e) : C.d[k].e[a][1] \in 1..C.d[k].m /\ C.d[k].e[a][2] \in 1..C.d[k].n
          /\ \A a, b \in 1..Len(C.d[k].e) : (C.d[k].e[a][1] = C.d[k].e[b][1] /\ C.d[k].e[a][2] = C.d[k].e[b][2]) => a = b
    /\ \A k \in 1..Len(C.sup) : C.sup[k] \in C.i0..(C.i0 + Len0(C) - 1)
Degree(C) ==
    /\ C.ddeg = 1
    /\ \A k \in 1..Len0(C) : \A x \in 1..Len(C.g[k]) : C.g[k][x][1] = C.i0 + k - 1
    /\ \A k \in 1..Len0(C) : \A a \in 1..Len(C.dz[k]) : C.dz[k][a][1] >= 1         \* row 0: d(x) has a term outside C_{k+1}

EntrySet(es) == {<<es[a][1], es[a][2]>> : a \in 1..Len(es)}
ValueAt(es, y, x) == es[CHOOSE a \in 1..Len(es) : es[a][1] = y /\ es[a][2] = x][3]
SameMap(R, C) ==
    \A k \in 1..Len0(C) : C.dzp[k] =>
        /\ EntrySet(C.dz[k]) = EntrySet(C.d[k].e)
        /\ \A a \in 1..Len(C.dz[k]) : RSame(R, C.dz[k][a][3], ValueAt(C.d[k].e, C.dz[k][a][1], C.dz[k][a][2]))

\* TLC evaluates LET definitions and operator arguments by name, again at every use; values that are used more than
\* once are therefore bound through a quantifier over a singleton set (a bound variable holds a value).
\* the product of two maps given by entry lists is zero
CompZero(R, D2, D1) ==
    \A P \in {{p \in (1..Len(D2)) \X (1..Len(D1)) : D2[p[1]][2] = D1[p[2]][1]}} :
      \A t \in {<<D2[p[1]][1], D1[p[2]][2]>> : p \in P} :
        \A Q \in {SetToSeq({p \in P : D2[p[1]][1] = t[1] /\ D1[p[2]][2] = t[2]})} :
           RIsZero(R, RSumSeq(R, [n \in 1..Len(Q) |-> RMul(R, D2[Q[n][1]][3], D1[Q[n][2]][3])]))
DSquareAt(R, C, k) == CompZero(R, C.d[k + 1].e, C.d[k].e)
DSquare(R, C) == \A k \in 1..(Len0(C) - 1) : DSquareAt(R, C, k)

QDeg(C, k, x) == C.g[k][x][2]
EntryHomogeneous(tag, v, dq) == IF tag \in PolyTags THEN \A e \in DOMAIN v : dq - Weight(tag, e) = 0 ELSE dq = 0
Homogeneous(tag, C) ==
    \A k \in 1..(Len0(C) - 1) : \A a \in 1..Len(C.d[k].e) :
        LET en == C.d[k].e[a] IN EntryHomogeneous(tag, en[3], QDeg(C, k + 1, en[1]) - QDeg(C, k, en[2]))

\* ---------------------------------------------------------------- specialisation and homology
\* a coefficient as a fraction <<n, d>> of TLC integers
Frac(B, c) == CASE B.k = "Q" -> <<BToInt(c.n), BToInt(c.d)>> [] OTHER -> <<c, 1>>
FAdd(x, y) == LET n == x[1] * y[2] + y[1] * x[2]  d == x[2] * y[2]  g == IGcd(n, d)
              IN  IF n = 0 THEN <<0, 1>> ELSE <<n \div g, d \div g>>
FScale(x, s) == <<x[1] * s, x[2]>>
MonoAt(tag, e, a, b) == CASE tag = "ZHT" -> IPow(a, e[1]) * IPow(b, e[2])
                          [] tag = "ZT"  -> IPow(b, e)
                          [] OTHER       -> IPow(a, e)
\* the value of entry v at H := a, T := b
EntryAt(tag, v, a, b) ==
    IF tag \in NumTags THEN Frac(RingOf(tag), v)
    ELSE LET es == SetToSeq(DOMAIN v) IN
         FoldLeft(LAMBDA acc, e : FAdd(acc, FScale(Frac(RingOf(tag).b, v[e]), MonoAt(tag, e, a, b))), <<0, 1>>, es)
ILcm(x, y) == (x \div IGcd(x, y)) * y
\* the integer matrix (a common multiple of the denominators cleared: rank and, for integer rings, everything is kept)
IntMatrixOf(D, fr, L) ==
    ForceS([i \in 1..D.m |-> ForceS([j \in 1..D.n |->
        LET K == {n \in 1..Len(D.e) : D.e[n][1] = i /\ D.e[n][2] = j}
        IN  IF K = {} THEN 0 ELSE LET n == CHOOSE n \in K : TRUE IN fr[n][1] * (L \div fr[n][2])])])
IntMatrixL(D, fr) ==
    CHOOSE M \in {IntMatrixOf(D, fr, L) : L \in {FoldLeft(LAMBDA acc, n : ILcm(acc, IAbs(fr[n][2])), 1, [n \in 1..Len(D.e) |-> n])}} : TRUE
IntMatrix(tag, D, a, b) ==
    CHOOSE M \in {IntMatrixL(D, fr) : fr \in {ForceS([n \in 1..Len(D.e) |-> EntryAt(tag, D.e[n][3], a, b)])}} : TRUE
IntMatrices(tag, C, a, b) == ForceS([k \in 1..Len0(C) |-> IntMatrix(tag, C.d[k], a, b)])

\* homology of the integer complex Ms (Ms[k] : C_k -> C_{k+1}) with ranks ns; "kind" selects what is compared
\* kind 0: over Z (rank, torsion orders); kind p > 1: dimension over F_p; kind 1: rank over Q
\* fs: invariant factors of every Ms[k] (kinds 0, 1) or <<>>; rp: ranks mod p (kind > 1) or <<>>
HomologyFrom(ns, fs, rp, kind) ==
    LET rk(k) == IF k = 0 THEN 0 ELSE IF kind > 1 THEN rp[k] ELSE Len(fs[k])
        tors(k) == IF kind = 0 /\ k >= 1 THEN SelectSeq(fs[k], LAMBDA x : x > 1) ELSE <<>>
    IN  ForceS([k \in 1..Len(ns) |-> <<ns[k] - rk(k - 1) - rk(k), tors(k - 1)>>])
HomologyOf(ns0, Ms0, kind) ==
    Let(ns0, LAMBDA ns : Let(Ms0, LAMBDA Ms :
        Let(IF kind \in {0, 1} THEN ForceS([k \in 1..Len(ns) |-> InvFactors(Ms[k])]) ELSE <<>>, LAMBDA fs :
        Let(IF kind > 1 THEN ForceS([k \in 1..Len(ns) |-> RankP(Ms[k], kind)]) ELSE <<>>, LAMBDA rp :
            HomologyFrom(ns, fs, rp, kind)))))
HAt(H, i0, i) == IF i - i0 + 1 \in DOMAIN H THEN H[i - i0 + 1] ELSE <<0, <<>>>>
SameHomologyF(H10, i01, H20, i02) ==
    \A H1 \in {H10}, H2 \in {H20} :
    \A i \in (i01..(i01 + Len(H1) - 1)) \cup (i02..(i02 + Len(H2) - 1)) :
        /\ HAt(H1, i01, i)[1] = HAt(H2, i02, i)[1]
        /\ IsoTors(HAt(H1, i01, i)[2], HAt(H2, i02, i)[2])
KindOf(tag) == CASE tag = "Z" -> 0 [] tag = "Q" -> 1 [] tag = "F2" -> 2 [] tag = "F3" -> 3
RanksOf(C) == ForceS([k \in 1..Len0(C) |-> Len(C.g[k])])

\* which polynomial rings specialise to which numeric ring
Comparable(ptag, ntag) == CASE ntag = "Z"  -> ptag \in {"ZH", "ZT", "ZHT"}
                            [] ntag = "Q"  -> ptag \in {"ZH", "ZT", "ZHT", "QH"}
                            [] ntag = "F2" -> ptag \in {"ZH", "ZT", "ZHT", "F2H"}
                            [] ntag = "F3" -> ptag \in {"ZH", "ZT", "ZHT"}
\* the parameters of P cover the point (h, t)
Covers(P, h, t) == (P.h = "0" => h = 0) /\ (P.t = "0" => t = 0)
SpecialisesTo(P, ntag, h, t, C) ==
    LET kind == KindOf(ntag) IN
    SameHomologyF(HomologyOf(RanksOf(P.C), IntMatrices(P.tag, P.C, h, t), kind), P.C.i0,
                  HomologyOf(RanksOf(C), IntMatrices(ntag, C, 0, 0), kind), C.i0)

\* ---------------------------------------------------------------- the machine
VARIABLES lk,        \* name of the current link
          polys      \* the polynomial complexes of the current link: sequence of [tag, red, h, t, C]
cvars == <<lk, polys>>

CInit == lk = "" /\ polys = <<>>
NewLink(name) == lk' = name /\ polys' = <<>>

Relevant(ps, tag, red, h, t) == {n \in 1..Len(ps) : ps[n].red = red /\ Comparable(ps[n].tag, tag) /\ Covers(ps[n], h, t)}

\* the clauses C fails, given the stored polynomial complexes ps
FailingB(ps, tag, red, h, t, C, R) ==
    IF ~Shape(C) THEN {<<"shape", "">>}
    ELSE   (IF Degree(C) THEN {} ELSE {<<"degree", "">>})
      \cup (IF SameMap(R, C) THEN {} ELSE {<<"samemap", "">>})
      \cup (IF DSquare(R, C) THEN {} ELSE {<<"dsquare", "">>})
      \cup (IF GradedParams(tag, h, t) /\ ~Homogeneous(tag, C) THEN {<<"homogeneous", "">>} ELSE {})
      \cup (IF tag \in NumTags /\ DSquare(R, C)
            THEN {<<"specialise", ps[n].tag>> : n \in {n \in Relevant(ps, tag, red, h, t) : ~SpecialisesTo(ps[n], tag, h, t, C)}}
            ELSE {})
Failing(ps, tag, red, h, t, C0) ==
    LET R == RingOf(tag) IN
    CHOOSE F \in {FailingB(ps, tag, red, h, t, C, R) : C \in {C0}} : TRUE

Cx(tag, red, h, t, C) ==
    /\ ParamsOK(tag, h, t)
    /\ Failing(polys, tag, red, h, t, C) = {}
    /\ polys' = IF tag \in PolyTags THEN Append(polys, [tag |-> tag, red |-> red, h |-> h, t |-> t, C |-> C]) ELSE polys
    /\ UNCHANGED lk
=============================================================================
