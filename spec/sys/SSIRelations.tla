---------------------------- MODULE SSIRelations ----------------------------
(***************************************************************************)
(* C19, second part.  The pair (s0, s1) of involutive s-type invariants    *)
(* (yui_kh::khi::ssi_invariants) of a strongly invertible knot diagram.    *)
(*                                                                         *)
(* The property states relations only:                                     *)
(*   - s0 <= s1 and s0 = s1 (mod 2);                                       *)
(*   - the pair does not depend on the order in which the crossings of the *)
(*     code are listed;                                                    *)
(*   - mirroring the diagram turns (s0, s1) into (-s1, -s0).               *)
(* The machine keeps, per observation key (coefficient ring, reduced?),    *)
(* the pair that the history of moves predicts for the current diagram;    *)
(* an observation is enabled iff it is well formed and equals the          *)
(* prediction when there is one.                                           *)
(***************************************************************************)
EXTENDS Integers, TLC

VARIABLE ss        \* partial function: key -> <<s0, s1>>

PairOK(p)     == p[1] <= p[2] /\ (p[2] - p[1]) % 2 = 0
MirrorPair(p) == <<-p[2], -p[1]>>

SInit    == ss = <<>>
SNew     == ss' = <<>>                                   \* another knot (or another symmetric numbering): no prediction
SReorder == UNCHANGED ss                                 \* crossings listed in another order
SMirror  == ss' = [k \in DOMAIN ss |-> MirrorPair(ss[k])]
SObserve(k, p) == /\ PairOK(p)
                  /\ (k \in DOMAIN ss => ss[k] = p)
                  /\ ss' = (k :> p) @@ ss

SSOK == \A k \in DOMAIN ss : PairOK(ss[k])
=============================================================================
