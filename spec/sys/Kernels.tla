------------------------------- MODULE Kernels -------------------------------
(***************************************************************************)
(* C12.  Sparse kernels as relational actions over exact rings: triangular *)
(* solve (right and left), triangular inverse, Schur complement with its   *)
(* four transfer maps, direct-sum decomposition.  Each action's parameters *)
(* contain the library's answer; the action is enabled iff the answer      *)
(* satisfies the defining equations.  `sig` keeps, per input id, the       *)
(* answer first seen, so that the same input solved on another thread pool *)
(* or a second time on the same pool must give the same value.             *)
(***************************************************************************)
EXTENDS Matrices

VARIABLES calls, sig
kvars == <<calls, sig>>

Tick == calls' = calls + 1
\* same value on one thread and on many, and on repeated calls
Same(R, id, ans) ==
    IF id \in DOMAIN sig THEN MSame(R, sig[id], ans) /\ UNCHANGED sig
    ELSE sig' = [x \in DOMAIN sig \cup {id} |-> IF x = id THEN ans ELSE sig[x]]

UnitDiag(R, A) == A.m = A.n /\ \A i \in 1..A.n : RIsUnit(R, A.a[i][i])
Triang(R, t, A) == IF t = "upper" THEN MIsUpper(R, A) ELSE MIsLower(R, A)

\* A X = Y   (left variant: X A = Y)
Solve(R, t, A, Y, X, left, id) ==
    /\ Triang(R, t, A) /\ UnitDiag(R, A)
    /\ MShapeOK(X)
    /\ IF left THEN MSame(R, MMul(R, X, A), Y) ELSE MSame(R, MMul(R, A, X), Y)
    /\ Same(R, id, X) /\ Tick
InvTriang(R, t, A, X, id) == Solve(R, t, A, MId(R, A.n), X, FALSE, id)

\* M = [A B; C D], A r x r unit triangular.  S = D - C A^-1 B; transfer maps as in the library's diagram
Schur(R, t, M, r, S, X, tr, id) ==
    LET m == M.m  n == M.n
        A == MSubmat(M, 0, r, 0, r)  B == MSubmat(M, 0, r, r, n)
        C == MSubmat(M, r, m, 0, r)  D == MSubmat(M, r, m, r, n)
    IN /\ r <= m /\ r <= n /\ Triang(R, t, A) /\ UnitDiag(R, A)
       /\ MShapeOK(S) /\ S.m = m - r /\ S.n = n - r
       \* X is the library's A^-1 B (certified by A X = B), S = D - C X
       /\ MSame(R, MMul(R, A, X), B)
       /\ MSame(R, S, MSub(R, D, MMul(R, C, X)))
       /\ tr.with =>
            /\ MSame(R, tr.fsrc, MConcat(MZero(R, n - r, r), MId(R, n - r)))              \* [0 1]
            /\ MSame(R, tr.bsrc, MStack(MNeg(R, X), MId(R, n - r)))                       \* [-A^-1 B; 1]
            /\ MSame(R, tr.btgt, MStack(MZero(R, r, m - r), MId(R, m - r)))               \* [0; 1]
            /\ tr.ftgt.m = m - r /\ tr.ftgt.n = m
            /\ MSame(R, MSubmat(tr.ftgt, 0, m - r, r, m), MId(R, m - r))                  \* [-C A^-1  1]
            /\ MIsZero(R, MSubmat(MMul(R, tr.ftgt, M), 0, m - r, 0, r))                   \*   kills [A; C]
            /\ MSame(R, MMul(R, MMul(R, tr.ftgt, M), tr.bsrc), S)                         \* F_tgt M B_src = S
            /\ MSame(R, MMul(R, tr.fsrc, tr.bsrc), MId(R, n - r))                         \* F B = 1
            /\ MSame(R, MMul(R, tr.ftgt, tr.btgt), MId(R, m - r))
       /\ Same(R, id, S) /\ Tick

\* ---- direct-sum decomposition.  Z is the 0/1 matrix of stored positions of the input.
\* bipartite connectivity of a stored pattern (rows 1..m, columns m+1..m+n)
RECURSIVE Grow(_,_)
Grow(Zp, S) == LET T == S \cup {Zp.m + j : j \in {j \in 1..Zp.n : \E i \in S \cap (1..Zp.m) : Zp.a[i][j] = 1}}
                              \cup {i \in 1..Zp.m : \E j \in 1..Zp.n : (Zp.m + j) \in S /\ Zp.a[i][j] = 1}
               IN IF T = S THEN S ELSE Grow(Zp, T)
Connected(Zp) == Zp.m >= 1 /\ Zp.n >= 1 /\ Grow(Zp, {1}) = 1 .. (Zp.m + Zp.n)
RECURSIVE BlockDiag(_,_)
BlockDiag(R, bs) == IF bs = <<>> THEN [m |-> 0, n |-> 0, a |-> <<>>]
                    ELSE LET H == BlockDiag(R, SubSeq(bs, 1, Len(bs) - 1))  L == bs[Len(bs)] IN
                         MBlocks(H, MZero(R, H.m, L.n), MZero(R, L.m, H.n), L)
Pad(R, A, m, n) == Mat(m, n, LAMBDA i, j : IF i <= A.m /\ j <= A.n THEN A.a[i][j] ELSE RZero(R))

DirSum(R, A, Z, p, q, blocks, zblocks) ==
    LET p1 == [i \in 1..Len(p) |-> p[i] + 1]  q1 == [i \in 1..Len(q) |-> q[i] + 1]
        PA == MPermute(A, p1, q1)
        BD == BlockDiag(R, blocks)
    IN /\ IsPerm(p1, A.m) /\ IsPerm(q1, A.n)
       /\ BD.m <= A.m /\ BD.n <= A.n
       /\ MSame(R, PA, Pad(R, BD, A.m, A.n))               \* exactly the block sum, then zero rows / columns
       \* when the input stores no explicit zeros: the stored pattern is carried along and no block splits further
       /\ (\A i \in 1..A.m : \A j \in 1..A.n : Z.a[i][j] = 1 => ~RIsZero(R, A.a[i][j])) =>
            /\ MPermute(Z, p1, q1) = Pad(RI, BlockDiag(RI, zblocks), A.m, A.n)
            /\ \A k \in 1..Len(zblocks) : (zblocks[k].m > 0 /\ zblocks[k].n > 0) => Connected(zblocks[k])
       /\ \A k \in 1..Len(zblocks) : zblocks[k].m = blocks[k].m /\ zblocks[k].n = blocks[k].n
       /\ Tick /\ UNCHANGED sig

Init == calls = 0 /\ sig = [x \in {} |-> 0]
=============================================================================
