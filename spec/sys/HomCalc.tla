------------------------------- MODULE HomCalc -------------------------------
(***************************************************************************)
(* C07.  Relational contract of the homology of C1 --d1--> C2 --d2--> C3   *)
(* over a Euclidean domain: reported (rank, tors, P, Q) with P the         *)
(* coordinate map C2 -> H and Q the generators H -> C2.                    *)
(*   rank = n - rank(d1) - rank(d2)       (ranks by the spec's own operator)*)
(*   tors = non-unit invariant factors of d1, up to units                  *)
(*   generators are cycles:          d2 Q = 0                              *)
(*   boundaries have zero coordinates: rows of P d1 are 0 on the free part *)
(*                                   and = 0 mod tors[k] on torsion row k  *)
(*   coordinates of generators are the standard basis: P Q = I             *)
(***************************************************************************)
EXTENDS SNF, Decode, LinAlg

\* integer view of a matrix whose entries are (small) integers of ring R
IntEntry(R, x) == CASE R.k = "I" -> x [] R.k = "Z" -> BToInt(x) [] R.k = "Q" -> BToInt(x.n) [] R.k = "F" -> x
IntRows(R, A) == [i \in 1..A.m |-> [j \in 1..A.n |-> IntEntry(R, A.a[i][j])]]
HasIntView(R) == R.k \in {"I", "Z", "Q", "F"}
\* rational matrices: every row is scaled by the lcm of its denominators (the rank does not change)
RECURSIVE LcmSeq(_)
LcmSeq(s) == IF s = <<>> THEN 1 ELSE LET x == Head(s)  r == LcmSeq(Tail(s)) IN (x * r) \div IGcd(x, r)
QRowsScaled(A) == [i \in 1..A.m |-> LET l == LcmSeq([j \in 1..A.n |-> BToInt(A.a[i][j].d)]) IN
                                      [j \in 1..A.n |-> BToInt(A.a[i][j].n) * (l \div BToInt(A.a[i][j].d))]]
\* rank of a matrix over (the fraction field of) R
RankR(R, A) == CASE R.k \in {"I", "Z"} -> RankZ(IntRows(R, A))
                 [] R.k = "Q" -> RankZ(QRowsScaled(A))
                 [] R.k = "F" -> RankP(IntRows(R, A), R.p)
                 [] OTHER -> RankByMinors(R, A)
\* a torsion coefficient list agrees with the spec's up to units / order (multisets of absolute values) - integers only
SortedAbs(s) == SortSeq([i \in 1..Len(s) |-> LAbs(s[i])], <)
TorsOK(R, d1, tors) ==
    /\ \A k \in 1..Len(tors) : ~RIsUnit(R, tors[k]) /\ ~RIsZero(R, tors[k])
    /\ (R.k \in {"I", "Z"}) => SortedAbs([k \in 1..Len(tors) |-> IntEntry(R, tors[k])]) = SortSeq(Torsion(IntRows(R, d1)), <)
    /\ (R.k \in {"Q", "F"}) => tors = <<>>

\* wit[k] is the row with (P d1)[r+k] = tors[k] * wit[k]
HomOK(R, n, d1, d2, rank, tors, withtr, P, Q, wit) ==
    LET t == Len(tors) IN
    /\ d1.m = n /\ d2.n = n
    /\ MIsZero(R, MMul(R, d2, d1))                      \* precondition of the routine
    /\ rank = n - RankR(R, d1) - RankR(R, d2)
    /\ TorsOK(R, d1, tors)
    /\ withtr =>
         /\ P.m = rank + t /\ P.n = n /\ Q.m = n /\ Q.n = rank + t /\ MShapeOK(P) /\ MShapeOK(Q)
         /\ MIsZero(R, MMul(R, d2, Q))
         /\ LET B == MMul(R, P, d1) IN
              /\ \A i \in 1..rank : \A j \in 1..B.n : RIsZero(R, B.a[i][j])
              /\ \A k \in 1..t : \A j \in 1..B.n : RSame(R, B.a[rank + k][j], RMul(R, tors[k], wit[k][j]))
         /\ MSame(R, MMul(R, P, Q), MId(R, rank + t))
=============================================================================
