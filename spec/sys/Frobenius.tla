------------------------------ MODULE Frobenius ------------------------------
(***************************************************************************)
(* C01.  The rank-two Frobenius algebra  A = R[X] / (X^2 - hX - t)  that    *)
(* Khovanov's construction applies to circles.                             *)
(*                                                                         *)
(* R is a ring descriptor of Rings.tla (RI: TLC integers; RP(RI, 2):        *)
(* polynomials in two variables, used with h = H, t = T).  An element      *)
(* a.1 + b.X of A is the pair <<a, b>>; an element of A (x) A is the        *)
(* function  [<<i, j>> |-> coefficient of e_i (x) e_j]  with e_0 = 1,        *)
(* e_1 = X.  Basis labels are 0 (for 1) and 1 (for X).                      *)
(*                                                                         *)
(*   m(1,1) = 1    m(1,X) = m(X,1) = X    m(X,X) = hX + t                   *)
(*   Delta(1) = 1(x)X + X(x)1 - h 1(x)1     Delta(X) = X(x)X + t 1(x)1          *)
(*   iota(1) = 1          epsilon(1) = 0, epsilon(X) = 1                    *)
(*                                                                         *)
(* The second root:  Y = X - h  (so that XY = t, X + Y = 2X - h is the       *)
(* handle operator m o Delta).                                              *)
(***************************************************************************)
EXTENDS Rings

FLabels == {0, 1}
FIdx == FLabels \X FLabels

\* ---------------------------------------------------------------- structure constants
\* m(e_a, e_b) as a sequence of <<label, coefficient>>
MulT(R, h, t, a, b) ==
    IF a = 0 THEN <<<<b, ROne(R)>>>>
    ELSE IF b = 0 THEN <<<<a, ROne(R)>>>>
    ELSE <<<<1, h>>, <<0, t>>>>
\* Delta(e_a) as a sequence of <<label, label, coefficient>>
ComulT(R, h, t, a) ==
    IF a = 0 THEN <<<<0, 1, ROne(R)>>, <<1, 0, ROne(R)>>, <<0, 0, RNeg(R, h)>>>>
    ELSE <<<<1, 1, ROne(R)>>, <<0, 0, t>>>>

\* ---------------------------------------------------------------- elements of A and A (x) A
FZero(R)      == <<RZero(R), RZero(R)>>
FOne(R)       == <<ROne(R), RZero(R)>>
FX(R)         == <<RZero(R), ROne(R)>>
FBasis(R, a)  == IF a = 0 THEN FOne(R) ELSE FX(R)
FScalar(R, c) == <<c, RZero(R)>>
FAdd(R, u, v) == <<RAdd(R, u[1], v[1]), RAdd(R, u[2], v[2])>>
FNeg(R, u)    == <<RNeg(R, u[1]), RNeg(R, u[2])>>
FScale(R, c, u) == <<RMul(R, c, u[1]), RMul(R, c, u[2])>>
FSame(R, u, v) == RSame(R, u[1], v[1]) /\ RSame(R, u[2], v[2])
\* (a + bX)(c + dX) = ac + bd t + (ad + bc + bd h) X
FMul(R, h, t, u, v) ==
    LET bd == RMul(R, u[2], v[2]) IN
    <<RAdd(R, RMul(R, u[1], v[1]), RMul(R, bd, t)),
      RAdd(R, RAdd(R, RMul(R, u[1], v[2]), RMul(R, u[2], v[1])), RMul(R, bd, h))>>
FEps(R, u)    == u[2]
FIota(R, c)   == FScalar(R, c)
FY(R, h)      == <<RNeg(R, h), ROne(R)>>                    \* Y = X - h
FHandle(R, h) == <<RNeg(R, h), RFromInt(R, 2)>>             \* X + Y = 2X - h
RECURSIVE FPow(_, _, _, _, _)
FPow(R, h, t, u, n) == IF n = 0 THEN FOne(R) ELSE FMul(R, h, t, u, FPow(R, h, t, u, n - 1))

\* the same multiplication computed from the structure constants (MC: equal to FMul)
FMulByTable(R, h, t, u, v) ==
    LET term(a, b) == LET c == RMul(R, u[a + 1], v[b + 1])
                          ts == MulT(R, h, t, a, b)
                      IN  FoldLeft(LAMBDA acc, x : FAdd(R, acc, FScale(R, RMul(R, c, x[2]), FBasis(R, x[1]))), FZero(R), ts)
    IN  FAdd(R, FAdd(R, term(0, 0), term(0, 1)), FAdd(R, term(1, 0), term(1, 1)))

TZero(R)      == [p \in FIdx |-> RZero(R)]
TAdd(R, x, y) == [p \in FIdx |-> RAdd(R, x[p], y[p])]
TScale(R, c, x) == [p \in FIdx |-> RMul(R, c, x[p])]
TSame(R, x, y) == \A p \in FIdx : RSame(R, x[p], y[p])
TPure(R, u, v) == [p \in FIdx |-> RMul(R, u[p[1] + 1], v[p[2] + 1])]        \* u (x) v
FComulBasis(R, h, t, a) ==
    FoldLeft(LAMBDA acc, x : [acc EXCEPT ![<<x[1], x[2]>>] = RAdd(R, @, x[3])], TZero(R), ComulT(R, h, t, a))
FComul(R, h, t, u) == TAdd(R, TScale(R, u[1], FComulBasis(R, h, t, 0)), TScale(R, u[2], FComulBasis(R, h, t, 1)))
\* m applied to a tensor; (eps (x) id), (id (x) eps); (m (x) id)(u (x) T), (id (x) m)(T (x) u)
TMul(R, h, t, x) ==
    LET term(p) == FScale(R, x[p], FMul(R, h, t, FBasis(R, p[1]), FBasis(R, p[2])))
    IN  FAdd(R, FAdd(R, term(<<0, 0>>), term(<<0, 1>>)), FAdd(R, term(<<1, 0>>), term(<<1, 1>>)))
TEpsLeft(R, x)  == <<x[<<1, 0>>], x[<<1, 1>>]>>
TEpsRight(R, x) == <<x[<<0, 1>>], x[<<1, 1>>]>>
\* u.T  = (m (x) id)(u (x) T) : multiply the left factor by u;  T.u : the right factor
TActLeft(R, h, t, u, x) ==
    LET col(j) == FMul(R, h, t, u, <<x[<<0, j>>], x[<<1, j>>]>>) IN
    [p \in FIdx |-> col(p[2])[p[1] + 1]]
TActRight(R, h, t, x, u) ==
    LET row(i) == FMul(R, h, t, <<x[<<i, 0>>], x[<<i, 1>>]>>, u) IN
    [p \in FIdx |-> row(p[1])[p[2] + 1]]

\* ---------------------------------------------------------------- the Frobenius-algebra laws (checked in MC_CobEval)
FrobeniusLaws(R, h, t, Elems) ==
    /\ \A u, v \in Elems :
          /\ FSame(R, FMul(R, h, t, u, v), FMul(R, h, t, v, u))                                  \* commutative
          /\ FSame(R, FMul(R, h, t, u, v), FMulByTable(R, h, t, u, v))                           \* table = closed formula
          /\ TSame(R, FComul(R, h, t, FMul(R, h, t, u, v)), TActLeft(R, h, t, u, FComul(R, h, t, v)))   \* Delta is A-linear (Frobenius law)
          /\ TSame(R, FComul(R, h, t, FMul(R, h, t, u, v)), TActRight(R, h, t, FComul(R, h, t, u), v))
          /\ \A w \in Elems : FSame(R, FMul(R, h, t, FMul(R, h, t, u, v), w), FMul(R, h, t, u, FMul(R, h, t, v, w)))
    /\ \A u \in Elems :
          /\ FSame(R, FMul(R, h, t, FOne(R), u), u)                                              \* unit
          /\ FSame(R, TEpsLeft(R, FComul(R, h, t, u)), u)                                        \* counit
          /\ FSame(R, TEpsRight(R, FComul(R, h, t, u)), u)
          /\ FSame(R, TMul(R, h, t, FComul(R, h, t, u)), FMul(R, h, t, FHandle(R, h), u))        \* m o Delta = (X + Y).
          /\ LET x == FComul(R, h, t, u) IN x[<<0, 1>>] = x[<<1, 0>>]                            \* cocommutative
    /\ FSame(R, FMul(R, h, t, FX(R), FX(R)), FAdd(R, FScale(R, h, FX(R)), FScalar(R, t)))        \* X^2 = hX + t
    /\ FSame(R, FMul(R, h, t, FX(R), FY(R, h)), FScalar(R, t))                                   \* XY = t
    /\ FSame(R, FMul(R, h, t, FY(R, h), FY(R, h)), FAdd(R, FScale(R, RNeg(R, h), FY(R, h)), FScalar(R, t)))   \* Y^2 = -hY + t
    /\ FSame(R, FAdd(R, FX(R), FY(R, h)), FHandle(R, h))
    /\ RSame(R, FEps(R, FOne(R)), RZero(R)) /\ RSame(R, FEps(R, FX(R)), ROne(R)) /\ RSame(R, FEps(R, FY(R, h)), ROne(R))
=============================================================================
