------------------------------ MODULE CliKhI ------------------------------
(***************************************************************************)
(* Extension of C20 (Cli.tla) to the sub-commands khi and ckhi of `ykh`:   *)
(* involutive Khovanov homology / complex of a strongly invertible knot.   *)
(*                                                                         *)
(* One invocation = one action, as in Cli.tla.  The abstract point is      *)
(*   (cmd, ctype, cv, mirror, reduced, fl, ic)                             *)
(* cmd in {khi, ckhi}; ctype the value of -t (the four of Cli.tla, the two *)
(* quadratic-integer types, or a word that is no type); cv the -c string   *)
(* as tokens (Cli.tla); fl the remaining options                           *)
(*   g  -g  list the generators of every non-zero group                    *)
(*   a  -a  list the canonical cycles (needs t = 0)                        *)
(*   s  -s  khi only: the s-type invariants read off the canonical classes *)
(*          (needs t = 0 and h neither zero nor a unit)                    *)
(*   d  -d  ckhi only: print the differential                              *)
(*   f  -f  "unicode" | "tex" | a word that is no format                   *)
(* and ic the class of the LINK argument.  Unlike kh/ckh the argument is   *)
(* either a name of the built-in table of strongly invertible knots or a   *)
(* PD code with the SYMMETRIC NUMBERING (labels 1..2n, the involution is   *)
(* e |-> ((2n + 1 - e) mod 2n) + 1, see KhICone.tla); nothing else - in    *)
(* particular no knot name outside the table and no file - is an input.    *)
(* The theory only exists in characteristic 2: -t F2 is the only type.     *)
(*                                                                         *)
(* Observable: exit class, stdout class (none / other / table2d / seq1d /  *)
(* tex), message?, and for a table the sections that follow it (number of  *)
(* generator lists, of canonical cycles, the printed s values, number of   *)
(* lines that are none of these).                                          *)
(***************************************************************************)
EXTENDS Cli, SSIRelations

ICmds    == {"khi", "ckhi"}
QuadTypes == {"Gauss", "Eisen"}
ICTypes  == CTypes \cup QuadTypes \cup {"bad"}
IFormats == {"unicode", "tex", "bad"}
Flags    == [g : BOOLEAN, a : BOOLEAN, s : BOOLEAN, d : BOOLEAN, f : IFormats]
NoFlags  == [g |-> FALSE, a |-> FALSE, s |-> FALSE, d |-> FALSE, f |-> "unicode"]

\* ------------------------------------------------------------ the LINK argument
\* classes that yield a diagram with its involution
ILoadable   == {"sinv",        \* a name of the built-in table
                "sympd"}       \* a PD code the loader accepts (see LoaderAccepts)
IUnloadable == {"noninv",      \* a knot or link of the ordinary catalogue that is not in the table (5_2, 8_19, L2a1)
                "unknown",     \* no name at all
                "file",        \* a path to a file with a PD code (an input of kh/ckh, not of khi/ckhi)
                "asympd",      \* a PD code with labels 1..2n on which the involution of the labels is not a symmetry
                "offpd",       \* a PD code whose labels are not 1..2n
                "empty",       \* []
                "badpd",       \* PD-shaped JSON in which a label does not occur exactly twice
                "garbage", "notpd"}   \* not JSON / JSON that is no PD code
IInputClasses == ILoadable \cup IUnloadable

\* --- PD codes: what the loader accepts (sequences of 4-tuples of positive integers)
PDPos(pd)    == (1..Len(pd)) \X (1..4)
PDLabels(pd) == {pd[p[1]][p[2]] : p \in PDPos(pd)}
TwiceEach(pd) == \A e \in PDLabels(pd) : Cardinality({p \in PDPos(pd) : pd[p[1]][p[2]] = e}) = 2
NumLabels(pd) == 2 * Len(pd)
SequentialPD(pd) == PDLabels(pd) = 1..NumLabels(pd)
InvLabel(N, e) == ((N + 1 - e) % N) + 1
XSet(x)      == {x[j] : j \in 1..4}
\* the involution of the labels carries every crossing onto a crossing, and no crossing is listed twice
ImageIsCrossing(pd, i) == \E j \in 1..Len(pd) : {InvLabel(NumLabels(pd), e) : e \in XSet(pd[i])} \subseteq XSet(pd[j])
DistinctX(pd) == \A i, j \in 1..Len(pd) : i # j => pd[i] # pd[j]
LoaderAccepts(pd) == /\ Len(pd) >= 1 /\ TwiceEach(pd) /\ SequentialPD(pd) /\ DistinctX(pd)
                     /\ \A i \in 1..Len(pd) : ImageIsCrossing(pd, i)
PDClass(pd) == IF Len(pd) = 0 THEN "empty"
               ELSE IF ~TwiceEach(pd) THEN "badpd"
               ELSE IF ~SequentialPD(pd) THEN "offpd"
               ELSE IF ~LoaderAccepts(pd) THEN "asympd"
               ELSE "sympd"

\* ------------------------------------------------------------ the decision table
ICmdRing(cmd) == IF cmd = "khi" THEN "kh" ELSE "ckh"        \* khi needs a Euclidean ring like kh; ckhi any ring like ckh
IsUnitIn(tok, ring) ==
    CASE tok.k = "int" -> IF Char(ring.base) = 0 THEN tok.v \in {1, -1} ELSE (tok.v % Char(ring.base)) # 0   \* (only used over F2)
      [] OTHER         -> FALSE
UsageError(cmd, ctype, fl) == fl.f = "bad" \/ ctype = "bad" \/ (fl.s /\ cmd # "khi") \/ (fl.d /\ cmd # "ckhi")

IClasses == Classes \cup {"Tex"}
IWhys    == Whys \cup {"usage", "char2", "alpha_t", "ssi_h"}

IOutcome(cmd, ctype, cv, mirror, reduced, fl, ic) ==
    IF UsageError(cmd, ctype, fl) THEN Err("usage")
    ELSE IF ctype \in QuadTypes THEN Err("unsupported")
    ELSE LET ring == RingOf(ctype, cv) IN
    IF ~Supported(ICmdRing(cmd), ring) THEN Err("unsupported")
    ELSE LET p == ParsePair(cv, ring) IN
    IF ~p.ok THEN Err("parse")
    ELSE IF PairFails(cv, ring) THEN Err("internal")
    ELSE IF ctype # "F2" THEN Err("char2")                                  \* characteristic 2 only
    ELSE IF reduced /\ ~IsZeroIn(p.t, ring) THEN Err("reduced_t")
    ELSE IF fl.a /\ ~IsZeroIn(p.t, ring) THEN Err("alpha_t")
    ELSE IF fl.s /\ (IsZeroIn(p.h, ring) \/ IsUnitIn(p.h, ring) \/ ~IsZeroIn(p.t, ring)) THEN Err("ssi_h")
    ELSE IF ic \notin ILoadable THEN Err("link")
    ELSE LET kind == IF cmd = "ckhi" THEN "GenTable"
                     ELSE IF Bigraded(cv, p, ring) THEN "Table2D" ELSE "Seq1D" IN
         \* -f tex only changes the (i,j) tables; the 1-D sequence is always printed in the unicode format
         [class |-> IF fl.f = "tex" /\ kind # "Seq1D" THEN "Tex" ELSE kind, kind |-> kind, why |-> "-"]

\* the library object behind a table point (what the cells have to be compared with)
IKind(cmd, ctype, cv) == LET ring == RingOf(ctype, cv) IN
                         IF cmd = "ckhi" THEN "GenTable"
                         ELSE IF Bigraded(cv, ParsePair(cv, ring), ring) THEN "Table2D" ELSE "Seq1D"

(* ckhi prints the generators of the complex built by the symmetric tangle builder: delooped and with the      *)
(* invertible entries eliminated.  Over F2 with (h,t) homogeneous for the quantum grading that is the minimal  *)
(* graded complex (unique up to isomorphism), compared cell by cell; otherwise only the Euler characteristic   *)
(* is determined - and that of a mapping cone of an endomorphism is zero.                                       *)
IGenMode(cv) == GenMode("F2", cv)

ILibCall(cmd, ctype, cv, mirror, reduced) == LibCall(ICmdRing(cmd), ctype, cv, mirror, reduced, "sinv")

\* ------------------------------------------------------------ observables
IOutClasses == OutClasses \cup {"tex"}
\* sections after the table: gens = number of generator lists, alpha = number of canonical cycles listed,
\* ssi = the printed s values in order, other = lines that belong to none of them
Extras    == [gens : Nat, alpha : Nat, ssi : Seq(Int), other : Nat]
NoExtra   == [gens |-> 0, alpha |-> 0, ssi |-> <<>>, other |-> 0]
IStdoutOf(class) == IF class = "Tex" THEN "tex" ELSE StdoutOf(class)

IConforms(o, ob) ==
    IF o.class = "Error" THEN ob.exit = "nonzero" /\ ob.out \in {"none", "other"} /\ ob.msg
    ELSE ob.exit = "zero" /\ ob.out = IStdoutOf(o.class)

(* What the sections are compared with (bound from the log): nz = number of degrees with a non-zero group in the   *)
(* printed table (-g lists each of them; for ckhi the complex itself is not always determined by the parameters), *)
(* ncyc = number of canonical cycles of the library's complex, knot?, pair = <<s0, s1>> (ssi_invariants) or <<>>. *)
SsiShape(printed, reduced, pair) ==
    LET r == IF reduced THEN 1 ELSE 2 IN
    /\ Len(printed) = 2 * r
    /\ \A k \in 1..r : printed[k] = pair[1] /\ printed[r + k] = pair[2]
\* -g lists the generators of every degree that has a non-zero group in the table just printed
PrintedDegrees(tab) == Cardinality({tab.cells[b].c : b \in 1..Len(tab.cells)})
ExtrasOK(fl, reduced, ex, lib) ==
    /\ ex.gens  = IF fl.g THEN lib.nz ELSE 0
    /\ ex.alpha = IF fl.a THEN lib.ncyc ELSE 0
    /\ (~fl.s => ex.ssi = <<>>)
    /\ (fl.s => Len(ex.ssi) = lib.ncyc)
    /\ (fl.s /\ lib.knot /\ Len(lib.pair) = 2 => SsiShape(ex.ssi, reduced, lib.pair) /\ PairOK(lib.pair))
    /\ (~fl.d => ex.other = 0)

\* ------------------------------------------------------------ state machine (variables of Cli.tla + ss)
ivars == <<inv, obs, fail, ss>>
IInit == Init /\ SInit

IPoint(cmd, ctype, cv, mirror, reduced, fl, ic) ==
    [cmd |-> cmd, ctype |-> ctype, cv |-> cv, mirror |-> mirror, reduced |-> reduced, fl |-> fl, ic |-> ic]
IOutcomeAt(p) == IOutcome(p.cmd, p.ctype, p.cv, p.mirror, p.reduced, p.fl, p.ic)
IObservables == [exit : ExitClasses, out : IOutClasses, msg : BOOLEAN]

IInvokeErr(p, ob)      == IOutcomeAt(p).class = "Error" /\ IConforms(IOutcomeAt(p), ob) /\ inv' = p /\ obs' = ob /\ fail' = FALSE /\ UNCHANGED ss
IInvokeTable(p, ob)    == IOutcomeAt(p).class # "Error" /\ IConforms(IOutcomeAt(p), ob) /\ inv' = p /\ obs' = ob /\ fail' = FALSE
IInvokeInternal(p, ob) == IOutcomeAt(p).class # "Error" /\ IConforms(Err("internal"), ob) /\ inv' = p /\ obs' = ob /\ fail' = TRUE /\ UNCHANGED ss

(* The pair printed by -s is a function of (input, ring, reduced, mirror?) and obeys SSIRelations across            *)
(* invocations: the same key gives the same pair; the mirrored key gives (-s1, -s0).  key = <<input, vars, red>>.   *)
SsiKey(id, rv, red, mir) == <<id, rv, red, mir>>
SsiObserve(id, rv, red, mir, pair) ==
    /\ SObserve(SsiKey(id, rv, red, mir), pair)
    /\ (SsiKey(id, rv, red, ~mir) \in DOMAIN ss => ss[SsiKey(id, rv, red, ~mir)] = MirrorPair(pair))

IErrorNeverTable == inv # NoInv /\ (IOutcomeAt(inv).class = "Error" \/ fail)
                      => obs.out \notin {"table2d", "seq1d", "tex"} /\ obs.exit = "nonzero" /\ obs.msg
ITableExitsZero  == inv # NoInv /\ IOutcomeAt(inv).class # "Error" /\ ~fail => obs.exit = "zero" /\ obs.out = IStdoutOf(IOutcomeAt(inv).class)
ITypeOK == /\ inv = NoInv \/ (inv.cmd \in ICmds /\ inv.ctype \in ICTypes /\ inv.ic \in IInputClasses /\ inv.fl \in Flags)
           /\ obs = NoObs \/ obs \in IObservables
           /\ fail \in BOOLEAN
=============================================================================
