------------------------------ MODULE GroupCols ------------------------------
(***************************************************************************)
(* C12, concurrent part: the column grouping of the direct-sum routine.    *)
(* One task per column pair (i,j), i<j; a task first *checks* under the    *)
(* mutex whether i and j are already in one class (and whether the columns *)
(* intersect), releases the mutex, and then - under the mutex again -      *)
(* *unions* the classes.  Check and Union are separate critical sections,  *)
(* so every interleaving of them is explored.  The union-find structure is *)
(* the parent array of the library: the larger root is linked under the    *)
(* smaller one.  The intersection graph is chosen in the initial state, so *)
(* one run covers every graph on N columns.                                 *)
(***************************************************************************)
EXTENDS Naturals, FiniteSets, Sequences

CONSTANTS N,         \* number of (non-empty) columns
          EdgePoolCodes \* codes 10*i+j of the pairs that may intersect; {} means every pair (cfg files cannot hold tuples)
VARIABLES parent, pc,
          Edges      \* the pairs i<j whose columns intersect (fixed along a behaviour)
gvars == <<parent, pc, Edges>>

Cols  == 1..N
Tasks == {<<i, j>> \in Cols \X Cols : i < j}

RECURSIVE Root(_,_)
Root(par, i) == IF par[i] = i THEN i ELSE Root(par, par[i])
SameClass(par, i, j) == Root(par, i) = Root(par, j)

EdgePool == IF EdgePoolCodes = {} THEN Tasks ELSE {t \in Tasks : (10 * t[1] + t[2]) \in EdgePoolCodes}
Init == parent = [i \in Cols |-> i] /\ pc = [t \in Tasks |-> "check"] /\ Edges \in SUBSET EdgePool

\* critical section 1: is_same + (lock released) intersection test
Check(t) == /\ pc[t] = "check"
            /\ pc' = [pc EXCEPT ![t] = IF ~SameClass(parent, t[1], t[2]) /\ t \in Edges THEN "union" ELSE "done"]
            /\ UNCHANGED <<parent, Edges>>
\* critical section 2: union(i, j) - a no-op when the classes were merged meanwhile
Union(t) == /\ pc[t] = "union"
            /\ LET ri == Root(parent, t[1])  rj == Root(parent, t[2]) IN
               parent' = IF ri = rj THEN parent
                         ELSE IF ri < rj THEN [parent EXCEPT ![rj] = ri] ELSE [parent EXCEPT ![ri] = rj]
            /\ pc' = [pc EXCEPT ![t] = "done"] /\ UNCHANGED Edges
Next == \E t \in Tasks : Check(t) \/ Union(t)
Spec == Init /\ [][Next]_gvars /\ WF_gvars(Next)

\* connected components of the intersection graph
RECURSIVE Comp(_)
Comp(S) == LET T == S \cup {j \in Cols : \E i \in S : <<i, j>> \in Edges \/ <<j, i>> \in Edges} IN IF T = S THEN S ELSE Comp(T)
Done == \A t \in Tasks : pc[t] = "done"

\* parent pointers never point upwards: the structure is a forest, Root terminates
Acyclic  == \A i \in Cols : parent[i] <= i
\* never merges columns of different components
Sound    == \A i, j \in Cols : SameClass(parent, i, j) => j \in Comp({i})
\* at the end the partition is exactly the components
Complete == Done => \A i, j \in Cols : (j \in Comp({i})) => SameClass(parent, i, j)
Terminates == <>Done
=============================================================================
