-------------------------------- MODULE TngEv --------------------------------
(* event -> action map for recorded histories of Tng.  Components arrive as {"edges": [...], "closed": bool}. *)
EXTENDS TngM
Step(e) ==
    IF e.res = "ok" THEN
        CASE e.op = "reset"         -> Empty
          [] e.op = "empty"         -> Empty
          [] e.op = "new"           -> NewT(e.comps, e.out)
          [] e.op = "append_arc"    -> AppendArc(e.arc, e.out)
          [] e.op = "connect"       -> ConnectT(e.other, e.out)
          [] e.op = "remove_at"     -> RemoveAt(e.i, e.comp, e.out)
          [] e.op = "from_resolved" -> FromResolved(e.kind, e.edges, e.out)
          [] e.op = "convert_edges" -> ConvertEdges(e.mul, e.add, e.out)
          [] e.op = "comps"         -> CompsIs(e.out)
          [] e.op = "counts"        -> CountsIs(e.n, e.empty, e.closed, e.hascirc, e.euler)
          [] e.op = "endpts"        -> EndPtsIs(e.out)
          [] e.op = "comp"          -> CompIs(e.i, e.out)
          [] e.op = "index_of"      -> IndexOfIs(e.c, e.has, e.out)
          [] e.op = "find_circle"   -> FindCircleIs(e.out)
          [] e.op = "find_label"    -> FindLabelIs(e.e, e.out)
          [] e.op = "find_conn"     -> FindConnIs(e.arc, e.out)
          [] OTHER -> FALSE
    ELSE IF e.res = "panic" THEN
        CASE e.op = "append_arc" -> AppendArcPanics(e.arc)
          [] e.op = "remove_at"  -> RemoveAtPanics(e.i)
          [] e.op = "comp"       -> CompPanics(e.i)
          [] OTHER -> FALSE
    ELSE FALSE
=============================================================================
