----------------------------- MODULE IndexListM -----------------------------
(***************************************************************************)
(* Extension (serves C07: homology summands keep their generators in an    *)
(* IndexList, matrices of chain maps are assembled through index_of).      *)
(* yui::IndexList as a state machine.  Abstract state: a finite sequence   *)
(* `lst` WITHOUT repetition, i.e. a bijection  0..n-1 <-> elements.        *)
(* `valid` is FALSE after from_iter was given a sequence with repeated     *)
(* elements: the type documents nothing for that case, so the observers    *)
(* are unconstrained there (what the implementation does is recorded in    *)
(* the evidence as an observation).                                        *)
(* Indices are 0-based like in the implementation; -1 encodes `None`.      *)
(***************************************************************************)
EXTENDS Integers, Sequences, FiniteSets

VARIABLES lst, valid
ivars == <<lst, valid>>

NoRep(s)   == \A i, j \in 1..Len(s) : (s[i] = s[j]) => (i = j)
ElemsOf(s) == {s[i] : i \in 1..Len(s)}
PosIn(s, x) == IF x \in ElemsOf(s) THEN (CHOOSE i \in 1..Len(s) : s[i] = x) - 1 ELSE -1

\* ---- constructors
New          == lst' = <<>> /\ valid' = TRUE
FromIter(xs) == lst' = xs /\ valid' = NoRep(xs)

\* ---- observers: `out` is the recorded answer
LenIs(out)        == (valid => out = Len(lst)) /\ UNCHANGED ivars
IsEmptyIs(out)    == (valid => out = (Len(lst) = 0)) /\ UNCHANGED ivars
ContainsIs(x, out) == (valid => out = (x \in ElemsOf(lst))) /\ UNCHANGED ivars
IndexOfIs(x, out) == (valid => out = PosIn(lst, x)) /\ UNCHANGED ivars
IterIs(out)       == (valid => out = lst) /\ UNCHANGED ivars
\* list[i]: defined exactly for 0 <= i < len; outside it panics (like a slice)
IndexIs(i, out)   == (valid => (i \in 0..Len(lst)-1 /\ out = lst[i+1])) /\ UNCHANGED ivars
IndexPanics(i)    == (valid => i \notin 0..Len(lst)-1) /\ UNCHANGED ivars
\* into_iter of a clone: the elements in index order
IntoIterIs(out)   == (valid => out = lst) /\ UNCHANGED ivars
\* == against a second list built from ys (without repetition): equal iff the sequences are equal
EqIs(ys, out)     == ((valid /\ NoRep(ys)) => out = (lst = ys)) /\ UNCHANGED ivars
\* a panic of an observer other than an out-of-range index is only explicable in the unconstrained case
AnyPanics         == ~valid /\ UNCHANGED ivars

Init == lst = <<>> /\ valid = TRUE

\* ---- the meaning: list <-> index lookup are mutually inverse
Bijection ==
    valid => /\ NoRep(lst)
             /\ Len(lst) = Cardinality(ElemsOf(lst))
             /\ \A i \in 1..Len(lst) : PosIn(lst, lst[i]) = i - 1
             /\ \A x \in ElemsOf(lst) : lst[PosIn(lst, x) + 1] = x
=============================================================================
