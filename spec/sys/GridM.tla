------------------------------- MODULE GridM -------------------------------
(***************************************************************************)
(* Extension (serves C07: chain complexes, their summands and homology are *)
(* Grid<I, _> objects; C03/C05 read bigraded tables off Grid2).            *)
(* yui_homology::Grid<I, E> and the degree types GridDeg (isize, isize2,   *)
(* isize3, usize, usize2, usize3) as a state machine.                      *)
(*                                                                         *)
(* A degree is a tuple of integers of length 1, 2 or 3.  Abstract state:   *)
(*   supp  - the support as listed (a sequence of degrees),                *)
(*   data  - the stored entries (a function from a finite set of degrees), *)
(*   dflt  - the value read at every other degree.                         *)
(* A grid denotes the function  I -> E,  i |-> data[i] or dflt.            *)
(* The state is REGULAR when supp lists exactly the stored degrees, once   *)
(* each.  generate / generate_with_default / FromIterator on distinct      *)
(* degrees, map and truncated produce regular grids; insert at a listed    *)
(* degree and get_mut keep regularity.  insert at an unlisted degree,      *)
(* remove, and constructors given repeated degrees leave the regular       *)
(* fragment: nothing documents what support / iter / into_iter show then,  *)
(* so only the function itself (get, index, get_default, is_supported)     *)
(* stays constrained there.                                                *)
(***************************************************************************)
EXTENDS Integers, Sequences, FiniteSets, TLC

VARIABLES supp, data, dflt
gvars == <<supp, data, dflt>>

SetOf(s)  == {s[k] : k \in 1..Len(s)}
NoRep(s)  == \A i, j \in 1..Len(s) : (s[i] = s[j]) => (i = j)
Regular   == NoRep(supp) /\ SetOf(supp) = DOMAIN data
\* the value table of a constructor call: `vals` runs parallel to the listed degrees; a repeated degree keeps its last value
LastAt(s, i)   == CHOOSE k \in 1..Len(s) : s[k] = i /\ \A m \in k+1..Len(s) : s[m] # i
Table(s, vals) == [i \in SetOf(s) |-> vals[LastAt(s, i)]]
ValueAt(i)     == IF i \in DOMAIN data THEN data[i] ELSE dflt

\* ---- constructors
Default                  == supp' = <<>> /\ data' = <<>> /\ dflt' = 0        \* E::default() = 0 for the integer entries used here
Generate(s, vals, d)     == Len(vals) = Len(s) /\ supp' = s /\ data' = Table(s, vals) /\ dflt' = d
FromPairs(s, vals)       == Generate(s, vals, 0)

\* ---- mutators
InsertAt(i, e) == /\ data' = [j \in (DOMAIN data) \cup {i} |-> IF j = i THEN e ELSE data[j]]
                  /\ UNCHANGED <<supp, dflt>>
\* remove(i) returns the stored entry (found = TRUE) or None
RemoveAt(i, found, out) == /\ found = (i \in DOMAIN data)
                           /\ found => out = data[i]
                           /\ data' = [j \in (DOMAIN data) \ {i} |-> data[j]]
                           /\ UNCHANGED <<supp, dflt>>
\* get_mut(i) followed by an assignment through the reference when it is Some
GetMutSet(i, e, found) == /\ found = (i \in DOMAIN data)
                          /\ data' = IF found THEN [data EXCEPT ![i] = e] ELSE data
                          /\ UNCHANGED <<supp, dflt>>

\* ---- the function a grid denotes (constrained in every state)
GetIs(i, out)         == out = ValueAt(i) /\ UNCHANGED gvars
GetDefaultIs(out)     == out = dflt /\ UNCHANGED gvars
IsSupportedIs(i, out) == out = (i \in DOMAIN data) /\ UNCHANGED gvars

\* ---- listing observers (constrained on regular grids)
IterSeq         == [k \in 1..Len(supp) |-> [i |-> supp[k], e |-> ValueAt(supp[k])]]
SupportIs(out)  == (Regular => out = supp) /\ UNCHANGED gvars
IterIs(out)     == (Regular => out = IterSeq) /\ UNCHANGED gvars
IntoIterIs(out) == (Regular => out = IterSeq) /\ UNCHANGED gvars

\* ---- derived grids (the drivers call these on regular grids only; F is the entry map)
MapBy(F(_))    == /\ Regular
                  /\ supp' = supp /\ data' = [i \in DOMAIN data |-> F(data[i])] /\ dflt' = F(dflt)
\* Grid1 only: degrees are 1-tuples, range lo..=hi
Truncated(lo, hi) == /\ Regular
                     /\ LET keep(i) == lo <= i[1] /\ i[1] <= hi IN
                        /\ supp' = SelectSeq(supp, keep)
                        /\ data' = [i \in {j \in DOMAIN data : keep(j)} |-> data[i]]
                     /\ dflt' = dflt

Init == supp = <<>> /\ data = <<>> /\ dflt = 0

\* ---- degree arithmetic of the GridDeg implementations (pure; stated as answer predicates)
DegAdd(a, b)  == [k \in 1..Len(a) |-> a[k] + b[k]]
DegSub(a, b)  == [k \in 1..Len(a) |-> a[k] - b[k]]
DegZero(n)    == [k \in 1..n |-> 0]
DegIsZero(a)  == \A k \in 1..Len(a) : a[k] = 0
\* derived Ord: lexicographic; -1 / 0 / 1
RECURSIVE LexCmp(_, _, _)
LexCmp(a, b, k) == IF k > Len(a) THEN 0 ELSE IF a[k] < b[k] THEN -1 ELSE IF a[k] > b[k] THEN 1 ELSE LexCmp(a, b, k + 1)
DegCmp(a, b)  == LexCmp(a, b, 1)
\* Display: "5" for a plain integer, "(1, -2)" / "(1, -2, 3)" for the tuple types
DegShow(a)    == IF Len(a) = 1 THEN ToString(a[1])
                 ELSE IF Len(a) = 2 THEN "(" \o ToString(a[1]) \o ", " \o ToString(a[2]) \o ")"
                 ELSE "(" \o ToString(a[1]) \o ", " \o ToString(a[2]) \o ", " \o ToString(a[3]) \o ")"
=============================================================================
