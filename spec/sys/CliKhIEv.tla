----------------------------- MODULE CliKhIEv -----------------------------
(* Event view of CliKhI: one recorded run of `ykh khi ...` / `ykh ckhi ...` = one event.
   {op:"invoke", cmd, ctype, cv, mirror, reduced, fl:{g,a,s,d,f}, ic,                   -- the abstract point
    inp:{kind:"name"|"pd"|"text", name, pd, haspd, cat}, input,                         -- the concrete LINK argument
    exit, out, msg,                                                                     -- the observable
    table:{cols, rows, cells:[{c,r,tok}], zeros},                                       -- lexed stdout (table part)
    extra:{gens, alpha, ssi:[..], other},                                               -- lexed stdout (sections after the table)
    lib:{res, kind, ring, h, t, mirror, reduced, sym, cells, nz, ncyc, knot, pair, code}}  -- the library's own answer
   The class of the argument is re-derived here from the concrete argument (PDClass on the code, the built-in table
   for names); an error point must be an error result; a table point must exit 0 with its kind of table, the
   harness must have asked the library for exactly the ring / (h,t) / flags / kind of object the options denote and
   for the table's own code, the printed cells must be the library's non-zero groups at the same (i,j) (Euler
   characteristic only where the generator table of ckhi is not determined by the parameters), the sections must be
   the ones the flags ask for, and the printed pair must obey SSIRelations across the runs of the trace. *)
EXTENDS CliKhI, KhITable

SinvNames == TableNames \ {"9_46"}

\* the class of the concrete argument
ClassOfEvent(e) ==
    CASE e.inp.kind = "name" -> IF e.inp.name \in SinvNames THEN "sinv" ELSE IF e.inp.cat THEN "noninv" ELSE "unknown"
      [] e.inp.kind = "pd"   -> IF e.inp.haspd THEN PDClass(e.inp.pd) ELSE "notpd"
      [] OTHER               -> e.ic
ClassOK(e) == /\ e.ic = ClassOfEvent(e)
              /\ (e.inp.kind = "text" => e.ic \in {"garbage", "notpd", "file"})

\* the code the library was run on is the code of the argument
CodeOK(e) == IF e.inp.kind = "name" THEN e.lib.code = CodeOf(e.inp.name) ELSE e.lib.code = e.inp.pd

CellsOK(e, o) ==
    IF o.kind = "GenTable" /\ IGenMode(e.cv) # "exact" THEN EulerMatches(e.table, e.lib)
    ELSE TableMatches(e.table, e.lib)

LibInfo(e) == [nz |-> PrintedDegrees(e.table), ncyc |-> e.lib.ncyc, knot |-> e.lib.knot, pair |-> e.lib.pair]

IStep(e) ==
    /\ e.op = "invoke"
    /\ e.cmd \in ICmds /\ e.ctype \in ICTypes /\ e.ic \in IInputClasses /\ e.fl \in Flags
    /\ ClassOK(e)
    /\ LET p  == IPoint(e.cmd, e.ctype, e.cv, e.mirror, e.reduced, e.fl, e.ic)
           o  == IOutcomeAt(p)
           ob == [exit |-> e.exit, out |-> e.out, msg |-> e.msg] IN
         /\ inv' = p /\ obs' = ob
         /\ IF o.class = "Error" THEN IConforms(o, ob) /\ fail' = FALSE /\ UNCHANGED ss
            ELSE /\ LET c == ILibCall(e.cmd, e.ctype, e.cv, e.mirror, e.reduced) IN
                      /\ e.lib.ring = c.ring /\ e.lib.h = c.h /\ e.lib.t = c.t
                      /\ e.lib.mirror = c.mirror /\ e.lib.reduced = c.reduced
                 /\ CASE e.lib.res = "ok" ->
                           /\ IConforms(o, ob)
                           /\ fail' = FALSE
                           /\ e.lib.kind = o.kind
                           /\ CodeOK(e)
                           /\ CellsOK(e, o)
                           /\ ExtrasOK(e.fl, e.reduced, e.extra, LibInfo(e))
                           /\ IF e.fl.s /\ e.lib.knot /\ Len(e.lib.pair) = 2
                              THEN SsiObserve(e.input, e.lib.ring.vars, e.reduced, e.mirror, <<e.lib.pair[1], e.lib.pair[2]>>)
                              ELSE UNCHANGED ss
                      [] e.lib.res = "panic" -> IConforms(Err("internal"), ob) /\ fail' = TRUE /\ UNCHANGED ss   \* the library itself fails here
                      [] OTHER -> FALSE
=============================================================================
