------------------------------ MODULE KhTableEv -----------------------------
(* Event view of KhTable.tla.  Every event carries res, d (data of the link object after the call) and
   kh: the tables the library computed for that object, a sequence of [ring, route, red, tab]
   (route 0: KhHomologyBigraded::new, route 1: KhComplexBigraded::new(..).homology()). *)
EXTENDS KhTable

KPre(e) == IF e.op \in MoveOps THEN MPre(e) /\ KhPre(e.kh, Cardinality(Components(e.d)) = 1)
           ELSE IF e.op = "again" THEN KhPre(e.kh, nc = 1)
           ELSE TRUE

KStep(e) ==
    /\ e.res = "ok"
    /\ UNCHANGED jp
    /\ CASE e.op = "reset"    -> MReset /\ kt' = EmptyFn
         [] e.op \in MoveOps  -> MStep(e) /\ KhObs(e.kh, Predicted(MClass(e)), e.d, MClass(e) = "new")
         [] e.op = "again"    -> UNCHANGED mvars /\ KhObs(e.kh, kt, dg, TRUE)      \* more slots of the same object
         [] OTHER -> FALSE
=============================================================================
