------------------------------- MODULE EucOps -------------------------------
(***************************************************************************)
(* C15.  Relational contracts of the Euclidean-domain operations.  Every   *)
(* library call is one action whose parameters are the arguments *and the  *)
(* answer the library gave*; the action is enabled exactly when the answer *)
(* satisfies the mathematical contract over the exact ring R (Rings.tla).  *)
(* `obs` records the last accepted call, `calls` counts them per kind.     *)
(***************************************************************************)
EXTENDS Rings

VARIABLES obs, calls
vars == <<obs, calls>>

Kinds == {"divrem", "divround", "gcd", "gcdx", "lcm", "unit", "normunit", "normassoc"}

\* x and y differ by a unit factor
Associates(R, x, y) ==
    CASE R.k \in {"I", "Z", "G", "E"} -> \E u \in RUnitSet(R) : RSame(R, RMul(R, x, u), y)
      [] R.k \in {"Q", "F"} -> RIsZero(R, x) <=> RIsZero(R, y)
      [] R.k = "P" -> IF RIsZero(R, x) \/ RIsZero(R, y) THEN RIsZero(R, x) /\ RIsZero(R, y)
                      ELSE /\ PDeg(R, x) = PDeg(R, y)
                           /\ RSame(R, RMul(R, x, PMono(R, 0, PLead(R, y))), RMul(R, y, PMono(R, 0, PLead(R, x))))

\* a = q*b + r with r = 0 or N(r) < N(b)                                  (b # 0)
DivRemOK(R, a, b, q, r) ==
    /\ ~RIsZero(R, b)
    /\ RSame(R, a, RAdd(R, RMul(R, q, b), r))
    /\ (RIsZero(R, r) \/ RNormLess(R, r, b))

\* nearest-integer quotient: 2|a - q b| <= |b|  (either neighbour on exact ties)   (integers)
DivRoundOK(R, a, b, q) ==
    /\ ~RIsZero(R, b)
    /\ CASE R.k = "I" -> 2 * IAbs(a - q * b) <= IAbs(b)
         [] R.k = "Z" -> BCmp(BMul(BN(2), BAbs(BSub(a, BMul(q, b)))), BAbs(b)) <= 0
         [] R.k \in {"G", "E"} -> LET r == RSub(R, a, RMul(R, q, b)) IN RIsZero(R, r) \/ RNormLess(R, r, b)

\* d | a and d | b (cofactors xa, xb given), d normalised; with gcdx additionally d = s a + t b,
\* which makes d *the* gcd.  d2 is the answer for the swapped arguments.
Divides(R, d, a, xa) == RSame(R, RMul(R, d, xa), a)
GcdOK(R, a, b, d, xa, xb, d2) ==
    /\ IF RIsZero(R, a) /\ RIsZero(R, b) THEN RIsZero(R, d)
       ELSE ~RIsZero(R, d) /\ Divides(R, d, a, xa) /\ Divides(R, d, b, xb)
    /\ RIsNormalized(R, d)
    /\ RSame(R, d, d2)
GcdxOK(R, a, b, d, s, t, xa, xb) ==
    /\ RSame(R, d, RAdd(R, RMul(R, s, a), RMul(R, t, b)))
    /\ IF RIsZero(R, a) /\ RIsZero(R, b) THEN RIsZero(R, d)
       ELSE ~RIsZero(R, d) /\ Divides(R, d, a, xa) /\ Divides(R, d, b, xb)
    /\ RIsNormalized(R, d)
\* lcm * gcd is an associate of a * b, lcm normalised                    (a, b not both zero)
LcmOK(R, a, b, m, g) ==
    /\ Associates(R, RMul(R, m, g), RMul(R, a, b))
    /\ RIsNormalized(R, m)
\* is_unit <=> an inverse is returned, a * inv = 1, and is_unit is the mathematical predicate
UnitOK(R, a, isu, hasinv, inv) ==
    /\ isu = hasinv
    /\ isu = RIsUnit(R, a)
    /\ hasinv => RSame(R, RMul(R, a, inv), ROne(R))
\* the normalising unit u is a unit and a*u is normalised
NormUnitOK(R, a, u, au) ==
    /\ RIsUnit(R, u)
    /\ RSame(R, au, RMul(R, a, u))
    /\ RIsNormalized(R, au)
\* constant on associates: for a unit v, normalised(v a) = normalised(a); and idempotent
NormAssocOK(R, a, v, na, nva, nna) ==
    /\ RIsUnit(R, v)
    /\ RSame(R, na, nva)
    /\ RSame(R, nna, na)

Count(k) == calls' = [calls EXCEPT ![k] = @ + 1]

DivRem(R, a, b, q, r)        == DivRemOK(R, a, b, q, r) /\ Count("divrem") /\ obs' = <<"divrem", a, b, q, r>>
DivRound(R, a, b, q)         == DivRoundOK(R, a, b, q) /\ Count("divround") /\ obs' = <<"divround", a, b, q>>
Gcd(R, a, b, d, xa, xb, d2)  == GcdOK(R, a, b, d, xa, xb, d2) /\ Count("gcd") /\ obs' = <<"gcd", a, b, d>>
Gcdx(R, a, b, d, s, t, xa, xb) == GcdxOK(R, a, b, d, s, t, xa, xb) /\ Count("gcdx") /\ obs' = <<"gcdx", a, b, d, s, t>>
Lcm(R, a, b, m, g)           == LcmOK(R, a, b, m, g) /\ Count("lcm") /\ obs' = <<"lcm", a, b, m>>
Unit(R, a, isu, hasinv, inv) == UnitOK(R, a, isu, hasinv, inv) /\ Count("unit") /\ obs' = <<"unit", a, isu>>
NormUnit(R, a, u, au)        == NormUnitOK(R, a, u, au) /\ Count("normunit") /\ obs' = <<"normunit", a, u>>
NormAssoc(R, a, v, na, nva, nna) == NormAssocOK(R, a, v, na, nva, nna) /\ Count("normassoc") /\ obs' = <<"normassoc", a, v>>

Init == obs = <<>> /\ calls = [k \in Kinds |-> 0]
=============================================================================
