--------------------------------- MODULE SNF ---------------------------------
(***************************************************************************)
(* C09.  Smith normal form.                                                *)
(*  (1) SnfSteps: the design - a state (T, P, Pi, Q, Qi) transformed by    *)
(*      elementary row / column operations (swap, unit multiple, adding a  *)
(*      multiple, a unimodular 2x2 block); every step keeps                *)
(*      T = P A Q, P Pi = I, Q Qi = I.                                     *)
(*  (2) the relational contract of a result: D diagonal, non-zero entries  *)
(*      first, normalised, each dividing the next, and the requested       *)
(*      transforms satisfy every equation that can be stated with them.    *)
(*      Since P and Q are invertible (certified by the inverses), such a D *)
(*      is *the* Smith form; on small integer matrices it is additionally  *)
(*      compared with the gcd-of-minors definition.                        *)
(***************************************************************************)
EXTENDS Matrices

\* ---------------------------------------------------------------- (2) result contract
MinDim(A) == IF A.m < A.n THEN A.m ELSE A.n
DiagSeq(D) == [i \in 1..MinDim(D) |-> D.a[i][i]]
\* non-zero entries first, normalised, d_i | d_{i+1} with the cofactors ch (d_{i+1} = d_i * ch[i] where d_i # 0)
DiagOK(R, D, ch) ==
    LET d == DiagSeq(D) IN
    /\ MIsDiag(R, D)
    /\ \A i \in 1..Len(d) : RIsNormalized(R, d[i])
    /\ \A i \in 1..Len(d)-1 : RIsZero(R, d[i]) => RIsZero(R, d[i+1])
    /\ \A i \in 1..Len(d)-1 : (~RIsZero(R, d[i+1])) => RSame(R, d[i+1], RMul(R, d[i], ch[i]))

\* every equation that can be stated with the transforms that were returned (has = flags)
TransOK(R, A, D, has, tp, tpi, tq, tqi) ==
    /\ has[1] => (tp.m = A.m /\ tp.n = A.m /\ MShapeOK(tp))
    /\ has[2] => (tpi.m = A.m /\ tpi.n = A.m /\ MShapeOK(tpi))
    /\ has[3] => (tq.m = A.n /\ tq.n = A.n /\ MShapeOK(tq))
    /\ has[4] => (tqi.m = A.n /\ tqi.n = A.n /\ MShapeOK(tqi))
    /\ (has[1] /\ has[3]) => MSame(R, D, MMul(R, MMul(R, tp, A), tq))
    /\ (has[1] /\ has[2]) => MSame(R, MMul(R, tp, tpi), MId(R, A.m))
    /\ (has[3] /\ has[4]) => MSame(R, MMul(R, tq, tqi), MId(R, A.n))
    /\ (has[2] /\ has[4]) => MSame(R, A, MMul(R, MMul(R, tpi, D), tqi))
    /\ (has[1] /\ has[4]) => MSame(R, MMul(R, tp, A), MMul(R, D, tqi))
    /\ (has[2] /\ has[3]) => MSame(R, MMul(R, A, tq), MMul(R, tpi, D))

\* gcd-of-minors definition on small integer matrices (ring "I")
Subsets(S, k) == {X \in SUBSET S : Cardinality(X) = k}
Pick(S, i) == LET s == SetToSortSeq(S, <) IN s[i]
MinorDet(A, rs, cs) == MDet(RI, Mat(Cardinality(rs), Cardinality(cs), LAMBDA i, j : A.a[Pick(rs, i)][Pick(cs, j)]))
RECURSIVE GcdSet(_)
GcdSet(S) == IF S = {} THEN 0 ELSE LET x == CHOOSE x \in S : TRUE IN IGcd(x, GcdSet(S \ {x}))
MinorGcd(A, k) == IF k = 0 THEN 1 ELSE GcdSet({MinorDet(A, rs, cs) : rs \in Subsets(1..A.m, k), cs \in Subsets(1..A.n, k)})
\* d_1 * ... * d_k = gcd of the k x k minors, for every k
MinorsOK(A, D) == LET d == DiagSeq(D) IN
    \A k \in 1..Len(d) : MinorGcd(A, k) = FoldLeft(LAMBDA x, y : x * y, 1, SubSeq(d, 1, k))
\* rank via minors over any ring: number of non-zero diagonal entries = largest k with a non-zero k-minor
RankByMinors(R, A) == LET K == {k \in 0..MinDim(A) : k = 0 \/ \E rs \in Subsets(1..A.m, k), cs \in Subsets(1..A.n, k) :
                                    ~RIsZero(R, MDet(R, Mat(k, k, LAMBDA i, j : A.a[Pick(rs, i)][Pick(cs, j)])))}
                      IN Max(K)
RankOf(R, D) == Cardinality({i \in 1..MinDim(D) : ~RIsZero(R, D.a[i][i])})
=============================================================================
