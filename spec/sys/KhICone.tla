------------------------------ MODULE KhICone ------------------------------
(***************************************************************************)
(* C19.  Involutive Khovanov homology of a strongly invertible knot        *)
(* diagram, from first principles.                                         *)
(*                                                                         *)
(* A diagram (Link.tla) with n crossings whose 2n edges are numbered       *)
(* 1..2n carries the involution  e |-> ((2n + 1 - e) mod 2n) + 1  on edge  *)
(* labels (it fixes 1 and n+1: the two points of the knot on the axis).    *)
(* The numbering is SYMMETRIC if that map is induced by a half turn about  *)
(* an axis in the projection plane: every crossing x has an image crossing *)
(* sigma(x) of the same type with the positions mapped by j |-> (k - j)    *)
(* mod 4, k in {1, 3} (the cyclic order is reversed and the under-strand   *)
(* goes to the over-strand).  Then                                         *)
(*     tau(state)[j]  = state[sigma(j)]                                    *)
(*     tau(circle)    = image of its edge set                              *)
(*     tau(labelling) = the same label on the image circle                 *)
(* is an involution of the cube of resolutions.  Over F2, with the         *)
(* Frobenius algebra A = F2[X]/(X^2 = hX + t), h,t in {0,1},               *)
(*     m(1,1)=1  m(1,X)=m(X,1)=X  m(X,X)=hX+t                              *)
(*     D(1)=1(x)X+X(x)1+h 1(x)1   D(X)=X(x)X+t 1(x)1                       *)
(* the cube complex C (KhCubeF2 below; reduced = circle through edge 1     *)
(* labelled X, needs t = 0) has tau as a chain map, and the involutive     *)
(* complex is the mapping cone of 1 + tau:                                 *)
(*     CKhI^k = B.C^k (+) Q.C^(k-1)                                        *)
(*     d(B x) = B dx + Q x + Q tau x          d(Q x) = Q dx                *)
(* KhIEval computes, by elimination mod 2, the dimension of the homology   *)
(* of C and of the cone in every homological degree (and per q-degree when *)
(* h = t = 0), together with the facts that make the definition sound      *)
(* (tau well defined, chain map, d.d = 0 on the cone, reduced part closed).*)
(*                                                                         *)
(* Second half: the machine.  State = the diagram (dg of Link.tla), the    *)
(* table kt of homology ranks already observed for it, and the pair table  *)
(* ss of SSIRelations.tla.  Observers are relational: the implementation's *)
(* answer (a chain complex given by its matrices, a rank table, a pair) is *)
(* a parameter, the action is enabled iff the answer satisfies C19.        *)
(***************************************************************************)
EXTENDS Link, SSIRelations, TLC

CONSTANT AbsN       \* diagrams with at most this many crossings are compared with the cone itself

LA == INSTANCE LinAlg

\* ============================================================== symmetric numbering
NumE(D)      == 2 * Len(D)
InvE(N, e)   == ((N + 1 - e) % N) + 1
XEdgeSet(c)  == {c.e[j] : j \in 1..4}
TauPos(k, j) == (k - j + 4) % 4
ImageAt(D, i, j, k) == \A p \in 0..3 : D[j].e[TauPos(k, p) + 1] = InvE(NumE(D), D[i].e[p + 1])
SigmaSet(D, i) == {j \in 1..Len(D) : D[j].t = D[i].t /\ \E k \in {1, 3} : ImageAt(D, i, j, k)}
\* what the loader of the library does: the first crossing containing all image edges
LoaderMatch(D, i) == {j \in 1..Len(D) : {InvE(NumE(D), e) : e \in XEdgeSet(D[i])} \subseteq XEdgeSet(D[j])}
Sigma(D)     == [i \in 1..Len(D) |-> CHOOSE j \in SigmaSet(D, i) : TRUE]
SameType(D)  == \A i \in 1..Len(D) : D[i].t = D[1].t

SymValid(D) ==
    /\ Len(D) >= 1 /\ Valid(D) /\ SameType(D)
    /\ Edges(D) = 1..NumE(D)
    /\ Cardinality(Components(D)) = 1
    /\ \A i \in 1..Len(D) : Cardinality(SigmaSet(D, i)) = 1 /\ LoaderMatch(D, i) = SigmaSet(D, i)
    /\ \A i \in 1..Len(D) : Sigma(D)[Sigma(D)[i]] = i

\* the other symmetric numbering of the same diagram: start from the second axis point
RotateMap(D) == [e \in 1..NumE(D) |-> ((e + Len(D) - 1) % NumE(D)) + 1]

\* ============================================================== rank over F2 of a sparse matrix
\* rows: a sequence of finite sets of integers (the positions of the ones)
XorSet(a, b) == (a \ b) \cup (b \ a)
LeastOf(r)    == CHOOSE x \in r : \A y \in r : x <= y
RECURSIVE ReduceRow(_, _)
ReduceRow(r, bas) == IF r = {} THEN r
                     ELSE LET p == LeastOf(r) IN
                          IF p \in DOMAIN bas THEN ReduceRow(XorSet(r, bas[p]), bas) ELSE r
AddRow(bas, r) == LET r2 == ReduceRow(r, bas) IN IF r2 = {} THEN bas ELSE (LeastOf(r2) :> r2) @@ bas
RankRows(rows) == Cardinality(DOMAIN FoldLeft(AddRow, <<>>, rows))
XorAll(rows)   == FoldLeft(XorSet, {}, rows)
\* the same matrix, dense, for the cross-check against LinAlg!RankP
DenseOf(rows, cols) == LET cq == SetToSeq(cols) IN
                       [i \in 1..Len(rows) |-> [j \in 1..Len(cq) |-> IF cq[j] \in rows[i] THEN 1 ELSE 0]]

\* ============================================================== the cube and the cone over F2
Bit(m, i)    == (m \div (2 ^ (i - 1))) % 2
Idx(k)       == [j \in 1..k |-> j]
BitsOf(m, n) == [i \in 1..n |-> Bit(m, i)]
WeightOf(m, n) == FoldLeft(LAMBDA a, i : a + Bit(m, i), 0, Idx(n))
OddCount(S)  == Cardinality(S) % 2 = 1

\* (TLCEval only forces TLC to build the tables once instead of re-evaluating them at every application.)
\* D: all crossings, SymValid; h in {0,1} (or 2 = the indeterminate H, for the field `cx` only), t in {0,1};
\* red: reduced at edge 1 (t = 0);
\* deep >= 1: also evaluate the soundness facts (tau is a chain map, d.d = 0 on cube and cone);
\* deep >= 2: also cross-check the sparse rank operator against LinAlg!RankP on every cone differential and
\*            return the cone as a complex in the observers' format (fields cx, hom)
KhIEval(D, h, t, red, deep) ==
    LET n     == Len(D)
        N     == 2 * n
        sg    == TLCEval(Sigma(D))
        pn    == CHOOSE p \in PosNegSet(D) : TRUE
        npos  == pn[1]
        nneg  == pn[2]
        NS    == 2 ^ n
        circ  == TLCEval([m \in 0..(NS - 1) |-> CirclesOfState(D, BitsOf(m, n))])
        cs    == TLCEval([m \in 0..(NS - 1) |-> SetToSeq(circ[m])])
        maxc  == MaxOfSet({Len(cs[m]) : m \in 0..(NS - 1)})
        W     == 2 ^ maxc
        OFF   == NS * W                            \* code of Q x = code of x + OFF
        wt    == TLCEval([m \in 0..(NS - 1) |-> WeightOf(m, n)])
        tauS  == TLCEval([m \in 0..(NS - 1) |-> FoldLeft(LAMBDA a, j : a + Bit(m, sg[j]) * (2 ^ (j - 1)), 0, Idx(n))])
        tauC(c)  == {InvE(N, e) : e \in c}
        base(m)  == CHOOSE c \in circ[m] : 1 \in c
        LabCode(m, XS) == FoldLeft(LAMBDA a, j : IF cs[m][j] \in XS THEN a + 2 ^ (j - 1) ELSE a, 0, Idx(Len(cs[m])))
        Code(m, XS)    == m * W + LabCode(m, XS)
        \* the component of the differential along crossing i (bit i of m is 0); every term carries the exponent
        \* of h it is multiplied with (0 or 1), so that the same text serves h = 0, h = 1 and the symbolic h = H
        Terms(m, XS, i) ==
            LET m2   == m + 2 ^ (i - 1)
                A    == circ[m] \ circ[m2]
                B    == circ[m2] \ circ[m]
                keep == XS \ A
            IN  IF Cardinality(A) = 2
                THEN LET k == Cardinality(A \cap XS) IN          \* merge: 1.1 = 1, 1.X = X, X.X = hX + t
                     CASE k = 0 -> {<<m2, keep, 0>>}
                       [] k = 1 -> {<<m2, keep \cup B, 0>>}
                       [] k = 2 -> {<<m2, keep \cup B, 1>>} \cup (IF t = 1 THEN {<<m2, keep, 0>>} ELSE {})
                ELSE IF A \cap XS = {}                            \* split: 1 -> 1(x)X + X(x)1 + h 1(x)1, X -> X(x)X + t 1(x)1
                     THEN {<<m2, keep \cup {b}, 0>> : b \in B} \cup {<<m2, keep, 1>>}
                     ELSE {<<m2, keep \cup B, 0>>} \cup (IF t = 1 THEN {<<m2, keep, 0>>} ELSE {})
        DRowH(m, XS) == UNION {Terms(m, XS, i) : i \in {i \in 1..n : Bit(m, i) = 0}}
        Live(e)      == e = 0 \/ h >= 1                         \* the term survives for this value of h
        TauG(m, XS)  == <<tauS[m], {tauC(c) : c \in XS}>>
        IsGen(m, XS) == XS \subseteq circ[m] /\ (red => base(m) \in XS)
        QDeg(m, XS)  == npos - 2 * nneg + wt[m] + Len(cs[m]) - 2 * Cardinality(XS) + (IF red THEN 1 ELSE 0)
        GenRec(m, XS) == [c  |-> Code(m, XS),
                          dh |-> {<<Code(y[1], y[2]), y[3]>> : y \in DRowH(m, XS)},
                          d  |-> {Code(y[1], y[2]) : y \in {y \in DRowH(m, XS) : Live(y[3])}},
                          tc |-> LET y == TauG(m, XS) IN Code(y[1], y[2]),
                          q  |-> QDeg(m, XS),
                          m  |-> m,
                          xs |-> XS]
        \* the generators at state m, indexed by their label code (so that a generator is found from its code)
        XSofLab(m, lab) == {cs[m][j] : j \in {j \in 1..Len(cs[m]) : Bit(lab, j) = 1}}
        T == TLCEval([m \in 0..(NS - 1) |->
                [lab \in {LabCode(m, XS) : XS \in {XS \in SUBSET circ[m] : red => base(m) \in XS}} |-> GenRec(m, XSofLab(m, lab))]])
        IsCode(c) == c >= 0 /\ c < OFF /\ (c % W) \in DOMAIN T[c \div W]
        RecOf(c)  == T[c \div W][c % W]
        \* generators by cube weight k = 0..n (index k+1)
        G == TLCEval([k1 \in 1..(n + 1) |->
                LET ms == SetToSeq({m \in 0..(NS - 1) : wt[m] = k1 - 1})
                    per == [a \in 1..Len(ms) |->
                              LET labs == SetToSeq(DOMAIN T[ms[a]])
                              IN [b \in 1..Len(labs) |-> T[ms[a]][labs[b]]]]
                IN FlattenSeq(per)])
        Gk(k)   == IF k >= 0 /\ k <= n THEN G[k + 1] ELSE <<>>
        dimC    == TLCEval([k1 \in 1..(n + 1) |-> Len(G[k1])])
        dimOf(k) == IF k >= 0 /\ k <= n THEN dimC[k + 1] ELSE 0
        \* ---- ordinary complex: one elimination per degree; the pivots of the echelon basis give the rank
        CubeRows(k) == LET g == Gk(k) IN [a \in 1..Len(g) |-> g[a].d]
        pivC    == TLCEval([k1 \in 1..(n + 1) |-> DOMAIN FoldLeft(AddRow, <<>>, CubeRows(k1 - 1))])
        pivCof(k) == IF k >= 0 /\ k <= n THEN pivC[k + 1] ELSE {}
        rkCof(k) == Cardinality(pivCof(k))
        kh      == [k1 \in 1..(n + 1) |-> dimC[k1] - rkCof(k1 - 1) - rkCof(k1 - 2)]
        \* ---- the cone of 1 + tau
        QPart(x) == IF x.tc = x.c THEN {} ELSE {x.c + OFF, x.tc + OFF}
        ConeRows(k) ==
            LET gb == Gk(k)  gq == Gk(k - 1) IN
            [a \in 1..Len(gb) |-> gb[a].d \cup QPart(gb[a])] \o [a \in 1..Len(gq) |-> {z + OFF : z \in gq[a].d}]
        pivI    == TLCEval([k1 \in 1..(n + 2) |-> DOMAIN FoldLeft(AddRow, <<>>, ConeRows(k1 - 1))])
        pivIof(k) == IF k >= 0 /\ k <= n + 1 THEN pivI[k + 1] ELSE {}
        rkIof(k) == Cardinality(pivIof(k))
        khi     == [k1 \in 1..(n + 2) |-> dimOf(k1 - 1) + dimOf(k1 - 2) - rkIof(k1 - 1) - rkIof(k1 - 2)]
        \* ---- bigraded ranks (meaningful when h = t = 0: the differentials preserve q, so rows of different
        \*      q-degree never meet during the elimination and the rank in q-degree q is the number of pivots of
        \*      that q-degree)
        PopCount(x) == FoldLeft(LAMBDA a, j : a + Bit(x, j), 0, Idx(maxc))
        QOfCode(z)  == LET c == IF z >= OFF THEN z - OFF ELSE z
                           m == c \div W
                       IN  npos - 2 * nneg + wt[m] + Len(cs[m]) - 2 * PopCount(c % W) + (IF red THEN 1 ELSE 0)
        qs      == UNION {{Gk(k)[a].q : a \in 1..Len(Gk(k))} : k \in 0..n}
        dimQ(k, q)  == Cardinality({a \in 1..Len(Gk(k)) : Gk(k)[a].q = q})
        rkCq(k, q)  == Cardinality({p \in pivCof(k) : QOfCode(p) = q})
        rkIq(k, q)  == Cardinality({p \in pivIof(k) : QOfCode(p) = q})
        khbi    == {r \in {<<k - nneg, q, dimQ(k, q) - rkCq(k, q) - rkCq(k - 1, q)>> : k \in 0..n, q \in qs} : r[3] > 0}
        khibi   == {r \in {<<k - nneg, q, dimQ(k, q) + dimQ(k - 1, q) - rkIq(k, q) - rkIq(k - 1, q)>> : k \in 0..(n + 1), q \in qs} : r[3] > 0}
        \* ---- soundness facts of the definition
        allG    == TLCEval(FlattenSeq(G))
        codes   == {allG[a].c : a \in 1..Len(allG)}
        tauOK   == /\ \A m \in 0..(NS - 1) : /\ tauS[tauS[m]] = m
                                             /\ {tauC(c) : c \in circ[m]} = circ[tauS[m]]
                                             /\ tauC(base(m)) = base(tauS[m])
                   /\ Len(allG) = Cardinality(codes)
        shapeOK == \A m \in 0..(NS - 1) : \A i \in {i \in 1..n : Bit(m, i) = 0} :
                      LET m2 == m + 2 ^ (i - 1)
                          a  == Cardinality(circ[m] \ circ[m2])
                          b  == Cardinality(circ[m2] \ circ[m])
                      IN  <<a, b>> \in {<<2, 1>>, <<1, 2>>}
        closedOK == \A a \in 1..Len(allG) : (\A y \in allG[a].d : IsCode(y)) /\ IsCode(allG[a].tc) /\ QOfCode(allG[a].c) = allG[a].q /\ RecOf(allG[a].c) = allG[a]
        qOK     == (h = 0 /\ t = 0) => \A a \in 1..Len(allG) : \A y \in allG[a].d : QOfCode(y) = allG[a].q
        tauInv  == \A c \in codes : RecOf(RecOf(c).tc).tc = c
        chainOK == \A c \in codes : {RecOf(y).tc : y \in RecOf(c).d} = RecOf(RecOf(c).tc).d
        cubeD2  == \A c \in codes : LET r == SetToSeq(RecOf(c).d) IN XorAll([a \in 1..Len(r) |-> RecOf(r[a]).d]) = {}
        coneRowOf(z) == IF z >= OFF THEN {y + OFF : y \in RecOf(z - OFF).d}
                        ELSE RecOf(z).d \cup QPart(RecOf(z))
        coneD2  == \A c \in codes : \A z \in {c, c + OFF} :
                      LET r == SetToSeq(coneRowOf(z)) IN XorAll([a \in 1..Len(r) |-> coneRowOf(r[a])]) = {}
        rankXC  == \A k \in 0..(n + 1) :
                      LET rows == ConeRows(k)
                          cols == UNION {rows[a] : a \in 1..Len(rows)}
                      IN  (Len(rows) > 0 /\ cols # {}) => RankRows(rows) = LA!RankP(DenseOf(rows, cols), 2)
        eulerTab == [a \in 1..Len(allG) |-> <<wt[allG[a].m] - nneg, allG[a].q, 1>>]
        \* ---- the cone as a complex in the format of the observers (h = 2: entries in F2[H], h standing for H)
        coneGens == TLCEval([k1 \in 1..(n + 2) |->
                        LET gb == Gk(k1 - 1)  gq == Gk(k1 - 2) IN
                        [a \in 1..Len(gb) |-> gb[a].c] \o [a \in 1..Len(gq) |-> gq[a].c + OFF]])
        posIn(k1, z) == (CHOOSE a \in 1..Len(coneGens[k1]) : coneGens[k1][a] = z) - 1
        taggedRow(z) == IF z >= OFF THEN {<<y[1] + OFF, y[2]>> : y \in RecOf(z - OFF).dh}
                        ELSE RecOf(z).dh \cup {<<y, 0>> : y \in QPart(RecOf(z))}
        coneCx  == [lo   |-> -nneg,
                    dims |-> [k1 \in 1..(n + 2) |-> Len(coneGens[k1])],
                    mats |-> [k1 \in 1..(n + 1) |->
                                SetToSeq(UNION {{<<posIn(k1 + 1, y[1]), a - 1, <<IF h = 2 THEN y[2] ELSE 0>>>> :
                                                    y \in {y \in taggedRow(coneGens[k1][a]) : Live(y[2])}} : a \in 1..Len(coneGens[k1])})]]
        coneHom == [k1 \in 1..(n + 2) |-> <<khi[k1], <<>>>>]
    IN  [n     |-> n,
         nneg  |-> nneg,
         npos  |-> npos,
         dims  |-> dimC,
         kh    |-> {r \in {<<k1 - 1 - nneg, kh[k1]>> : k1 \in 1..(n + 1)} : r[2] > 0},
         khi   |-> {r \in {<<k1 - 1 - nneg, khi[k1]>> : k1 \in 1..(n + 2)} : r[2] > 0},
         khbi  |-> IF h = 0 /\ t = 0 THEN khbi ELSE {},
         khibi |-> IF h = 0 /\ t = 0 THEN khibi ELSE {},
         sound |-> tauOK /\ shapeOK /\ closedOK /\ qOK,
         deep  |-> (deep >= 1 => tauInv /\ chainOK /\ cubeD2 /\ coneD2) /\ (deep >= 2 => rankXC),
         euler |-> IF deep >= 1 THEN eulerTab ELSE <<>>,
         cx    |-> IF deep >= 2 THEN coneCx ELSE <<>>,
         hom   |-> IF deep >= 2 THEN coneHom ELSE <<>>]

\* the same without the soundness facts (used by generators and trace validation)
KhIRanks(D, h, t, red) == KhIEval(D, h, t, red, 0)

\* ============================================================== chain complexes reported by the implementation
\* A complex is  [lo |-> least degree, dims |-> <<rank C^lo, ...>>, mats |-> <<entries of d^lo, ...>>]
\* with Len(mats) = Len(dims) - 1; d^i is (dims[i+1] x dims[i]), entries <<row, col, exps>> (0-based),
\* exps = the exponents of H with coefficient 1 (<<0>> is the constant 1 of F2).
PolyOf(exps)   == {exps[a] : a \in 1..Len(exps)}
PMulF2(p, r)   == {e \in {a + b : a \in p, b \in r} : OddCount({a \in p : (e - a) \in r})}
EntriesOK(cx)  == /\ Len(cx.dims) >= 1 /\ Len(cx.mats) = Len(cx.dims) - 1
                  /\ \A i \in 1..Len(cx.mats) : \A a \in 1..Len(cx.mats[i]) :
                        LET e == cx.mats[i][a] IN
                        /\ e[1] \in 0..(cx.dims[i + 1] - 1) /\ e[2] \in 0..(cx.dims[i] - 1)
                        /\ Len(e[3]) > 0 /\ Cardinality(PolyOf(e[3])) = Len(e[3])
                        /\ \A b \in 1..Len(cx.mats[i]) : (cx.mats[i][b][1] = e[1] /\ cx.mats[i][b][2] = e[2]) => a = b
\* column j of d^i as a function row -> polynomial (only the stored rows)
ColOf(m, j)    == LET S == {a \in 1..Len(m) : m[a][2] = j} IN
                  [r \in {m[a][1] : a \in S} |-> PolyOf(m[CHOOSE a \in S : m[a][1] = r][3])]
\* (d^{i+1} d^i) column j, row r2  =  XOR over r of  d^{i+1}[r2, r] * d^i[r, j]
DDZero(cx) == \A i \in 1..(Len(cx.mats) - 1) :
                LET m1 == cx.mats[i]  m2 == cx.mats[i + 1] IN
                \A j \in 0..(cx.dims[i] - 1) :
                   LET c1 == ColOf(m1, j)
                       hit == {a \in 1..Len(m2) : m2[a][2] \in DOMAIN c1}
                       rows2 == {m2[a][1] : a \in hit}
                   IN  \A r2 \in rows2 :
                         LET S == SetToSeq({a \in hit : m2[a][1] = r2}) IN
                         FoldLeft(LAMBDA acc, a : XorSet(acc, PMulF2(PolyOf(m2[a][3]), c1[m2[a][2]])), {}, S) = {}
\* specialisation H = c, c in {0,1}: the matrix over F2, column by column, as sets of rows
ValAt(p, c)    == IF c = 0 THEN 0 \in p ELSE OddCount(p)
SpecCols(cx, i, c) == [j1 \in 1..cx.dims[i] |->
                         {cx.mats[i][a][1] : a \in {a \in 1..Len(cx.mats[i]) : cx.mats[i][a][2] = j1 - 1 /\ ValAt(PolyOf(cx.mats[i][a][3]), c)}}]
SpecRank(cx, i, c) == IF i >= 1 /\ i <= Len(cx.mats) THEN RankRows(SpecCols(cx, i, c)) ELSE 0
\* dimension of the homology of the specialised complex, as the set of <<degree, dim>> with dim > 0
SpecHom(cx, c) == {r \in {<<cx.lo + i - 1, cx.dims[i] - SpecRank(cx, i, c) - SpecRank(cx, i - 1, c)>> : i \in 1..Len(cx.dims)} : r[2] > 0}
\* the reported homology: hom[i] = <<rank, <<torsion orders as exponent lists>>>> for degree lo + i - 1
HomWellFormed(cx, hom) == Len(hom) = Len(cx.dims) /\ \A i \in 1..Len(hom) : hom[i][1] >= 0 /\ \A a \in 1..Len(hom[i][2]) : Len(hom[i][2][a]) > 0
DivBy(p, c)    == ~ValAt(p, c)                      \* (H + c) divides p  iff  p(c) = 0
TorsCount(hom, i, c) == IF i >= 1 /\ i <= Len(hom) THEN Cardinality({a \in 1..Len(hom[i][2]) : DivBy(PolyOf(hom[i][2][a]), c)}) ELSE 0
\* universal coefficients at H = c:  dim H^i(C/(H+c)) = rank H^i + #{(H+c) | torsion of H^i} + #{(H+c) | torsion of H^(i+1)}
UctHom(cx, hom, c) == {r \in {<<cx.lo + i - 1, hom[i][1] + TorsCount(hom, i, c) + TorsCount(hom, i + 1, c)>> : i \in 1..Len(hom)} : r[2] > 0}
\* over the field F2 (no H): the reported ranks are the homology of the reported matrices
FieldHom(hom, lo) == {r \in {<<lo + i - 1, hom[i][1]>> : i \in 1..Len(hom)} : r[2] > 0}
NoTorsion(hom) == \A i \in 1..Len(hom) : Len(hom[i][2]) = 0
ConstEntries(cx) == \A i \in 1..Len(cx.mats) : \A a \in 1..Len(cx.mats[i]) : cx.mats[i][a][3] = <<0>>

\* ============================================================== the machine
VARIABLE kt     \* ranks already observed for the current diagram: key -> set of <<degree, rank>>
kvars == <<dg, wr, nc, out, res, kt, ss>>
EmptyFn == <<>>
Put(f, k, v) == (k :> v) @@ f

KInit == LinkInit /\ kt = EmptyFn /\ SInit

KQuiet == wr' = 0 /\ nc' = 1 /\ out' = NoOut /\ res' = "ok"
KReset == dg' = <<>> /\ wr' = 0 /\ nc' = 0 /\ out' = NoOut /\ res' = "ok" /\ kt' = EmptyFn /\ SNew
\* a code with the symmetric numbering handed to the loader (mir: the mirror image is taken afterwards)
DiagramOf(pd, mir) == IF mir THEN Mirror(FromPD(pd)) ELSE FromPD(pd)
ILoad(pd, mir) == /\ SymValid(DiagramOf(pd, mir))
                  /\ dg' = DiagramOf(pd, mir) /\ KQuiet /\ kt' = EmptyFn /\ SNew
\* the same diagram with its crossings listed in another order: everything observed so far stays true
IReorder(pi)   == /\ IsPermOf(pi, Len(dg)) /\ dg' = Reorder(dg, pi) /\ KQuiet /\ UNCHANGED kt /\ SReorder
IMirror        == /\ dg' = Mirror(dg) /\ KQuiet /\ kt' = EmptyFn /\ SMirror
\* the second symmetric numbering of the same diagram (base point on the other axis point): nothing is claimed across it
IRotate        == /\ dg' = Renumber(dg, RotateMap(dg)) /\ KQuiet /\ kt' = EmptyFn /\ SNew

KObs(o) == UNCHANGED <<dg, wr, nc, ss>> /\ out' = o /\ res' = "ok"
CfgOK(h, t, red) == h \in {0, 1} /\ t \in {0, 1} /\ (red => t = 0)
\* the observed table for key k must be the one already known; for small diagrams it must be the definition
\* (want is only evaluated when it is needed)
AgreeOK(k, tab, h, t, red, field) ==
    /\ (k \in DOMAIN kt => kt[k] = tab)
    /\ ((k \notin DOMAIN kt /\ Len(dg) <= AbsN) => tab = KhIRanks(dg, h, t, red)[field])

\* --- answers (state predicates: is this answer of the implementation compatible with C19 in the current state?)
\* a complex over F2 (h, t in {0,1}) with its reported homology
FieldCxOK(cx, hom) ==
    /\ EntriesOK(cx) /\ ConstEntries(cx) /\ HomWellFormed(cx, hom)
    /\ DDZero(cx)
    /\ NoTorsion(hom) /\ FieldHom(hom, cx.lo) = SpecHom(cx, 0)
\* involutive complex over F2: a chain complex, its homology is the reported one, the one observed before, and
\* (small diagrams) that of the mapping cone of 1 + tau
KhIAnswerOK(h, t, red, cx, hom) ==
    /\ CfgOK(h, t, red) /\ FieldCxOK(cx, hom)
    /\ AgreeOK(<<"khi", h, t, red>>, SpecHom(cx, 0), h, t, red, "khi")
\* involutive complex over F2[H] with (h, t) = (H, 0): a chain complex; its reported homology (rank, torsion) obeys
\* universal coefficients at H = 0 and H = 1; both specialisations have the homology of the direct builds
KhIHAnswerOK(red, cx, hom) ==
    /\ EntriesOK(cx) /\ HomWellFormed(cx, hom)
    /\ DDZero(cx)
    /\ \A c \in {0, 1} : UctHom(cx, hom, c) = SpecHom(cx, c)
    /\ \A c \in {0, 1} : AgreeOK(<<"khi", c, 0, red>>, SpecHom(cx, c), c, 0, red, "khi")
\* ordinary Khovanov homology over F2 of the underlying knot, by whichever route (symmetric builder without the
\* involutive part, ordinary builder): a chain complex, the same ranks by every route, the cube's ranks
KhAnswerOK(h, t, red, cx, hom) ==
    /\ CfgOK(h, t, red) /\ FieldCxOK(cx, hom)
    /\ AgreeOK(<<"kh", h, t, red>>, SpecHom(cx, 0), h, t, red, "kh")
\* bigraded involutive ranks for h = t = 0 (tab: set of <<i, j, rank>>): they refine the total ranks
SumRanks(tab, i) == LET q == SetToSeq({x \in tab : x[1] = i}) IN SumSeq([a \in 1..Len(q) |-> q[a][3]])
KhIBigradedOK(red, tab) ==
    /\ \A x \in tab : x[3] > 0
    /\ (<<"khi", 0, 0, red>> \in DOMAIN kt =>
          /\ \A r \in kt[<<"khi", 0, 0, red>>] : r[2] = SumRanks(tab, r[1])
          /\ \A x \in tab : \E r \in kt[<<"khi", 0, 0, red>>] : r[1] = x[1])
    /\ AgreeOK(<<"khibi", 0, 0, red>>, tab, 0, 0, red, "khibi")

\* --- observers (actions)
ObsKhI(h, t, red, cx, hom) == KhIAnswerOK(h, t, red, cx, hom) /\ kt' = Put(kt, <<"khi", h, t, red>>, SpecHom(cx, 0)) /\ KObs(hom)
ObsKhIH(red, cx, hom)      == /\ KhIHAnswerOK(red, cx, hom)
                              /\ kt' = Put(Put(kt, <<"khi", 0, 0, red>>, SpecHom(cx, 0)), <<"khi", 1, 0, red>>, SpecHom(cx, 1))
                              /\ KObs(hom)
ObsKh(h, t, red, cx, hom)  == KhAnswerOK(h, t, red, cx, hom) /\ kt' = Put(kt, <<"kh", h, t, red>>, SpecHom(cx, 0)) /\ KObs(hom)
ObsKhIBigraded(red, tab)   == KhIBigradedOK(red, tab) /\ kt' = Put(kt, <<"khibi", 0, 0, red>>, tab) /\ KObs(tab)
\* the pair of involutive s-type invariants
ObsSSI(ring, red, pair) ==
    /\ SObserve(<<ring, red>>, pair)
    /\ UNCHANGED <<dg, wr, nc, kt>> /\ out' = pair /\ res' = "ok"

\* invariants
KTypeOK == DOMAIN kt \subseteq ({"khi", "kh", "khibi"} \X {0, 1} \X {0, 1} \X BOOLEAN)
=============================================================================
