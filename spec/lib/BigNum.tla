------------------------------- MODULE BigNum -------------------------------
(***************************************************************************)
(* Exact integers of unbounded size for TLC (whose own integers are 32     *)
(* bit).  A number is a record [s |-> sign in {-1,0,1}, m |-> magnitude],  *)
(* the magnitude being a little-endian sequence of base-1000 limbs without *)
(* a leading (high) zero limb; zero is [s |-> 0, m |-> <<>>].  The          *)
(* representation is canonical, so TLA+ equality is numeric equality.       *)
(* The JSON form used in traces is {"s":..,"m":[..]}.                        *)
(***************************************************************************)
EXTENDS Integers, Sequences, SequencesExt

BASE == 1000

BZero == [s |-> 0, m |-> <<>>]

\* ------------------------------------------------------------ magnitudes
RECURSIVE MagOfNat(_)
MagOfNat(n) == IF n = 0 THEN <<>> ELSE <<n % BASE>> \o MagOfNat(n \div BASE)

Strip(m) ==      \* drop high zero limbs
    LET nz == {i \in 1..Len(m) : m[i] # 0} IN
    IF nz = {} THEN <<>> ELSE SubSeq(m, 1, CHOOSE i \in nz : \A j \in nz : j <= i)

Limb(m, i) == IF i <= Len(m) THEN m[i] ELSE 0

MagCmp(a, b) ==  \* -1, 0, 1
    IF Len(a) # Len(b) THEN (IF Len(a) < Len(b) THEN -1 ELSE 1)
    ELSE LET D == {i \in 1..Len(a) : a[i] # b[i]} IN
         IF D = {} THEN 0
         ELSE LET t == CHOOSE i \in D : \A j \in D : j <= i IN IF a[t] < b[t] THEN -1 ELSE 1

\* carry propagation over a sequence of (possibly large, non-negative) limbs
Carry(c) ==
    LET st == FoldLeft(LAMBDA acc, x : LET v == x + acc.carry IN
                                        [carry |-> v \div BASE, out |-> Append(acc.out, v % BASE)],
                       [carry |-> 0, out |-> <<>>], c)
    IN Strip(st.out \o MagOfNat(st.carry))

MagAdd(a, b) == LET n == IF Len(a) > Len(b) THEN Len(a) ELSE Len(b) IN
                Carry([i \in 1..n |-> Limb(a,i) + Limb(b,i)])

\* a >= b required
MagSub(a, b) ==
    LET st == FoldLeft(LAMBDA acc, i : LET v == a[i] - Limb(b,i) - acc.borrow IN
                                        IF v < 0 THEN [borrow |-> 1, out |-> Append(acc.out, v + BASE)]
                                                 ELSE [borrow |-> 0, out |-> Append(acc.out, v)],
                       [borrow |-> 0, out |-> <<>>], [i \in 1..Len(a) |-> i])
    IN Strip(st.out)

RECURSIVE ConvSum(_,_,_,_,_)
ConvSum(a, b, k, i, hi) == IF i > hi THEN 0 ELSE a[i] * b[k+1-i] + ConvSum(a, b, k, i+1, hi)

MagMul(a, b) ==
    IF a = <<>> \/ b = <<>> THEN <<>>
    ELSE LET la == Len(a)  lb == Len(b) IN
         Carry([k \in 1..(la+lb-1) |->
                  LET lo == IF k+1-lb > 1 THEN k+1-lb ELSE 1
                      hi == IF k < la THEN k ELSE la
                  IN ConvSum(a, b, k, lo, hi)])

\* ------------------------------------------------------------ signed numbers
BN(n)      == IF n = 0 THEN BZero ELSE IF n > 0 THEN [s |-> 1, m |-> MagOfNat(n)]
                                                ELSE [s |-> -1, m |-> MagOfNat(-n)]
BOne       == BN(1)
BIsCanon(x) == /\ x.s \in {-1, 0, 1}
               /\ \A i \in 1..Len(x.m) : x.m[i] \in 0..BASE-1
               /\ (x.s = 0) <=> (x.m = <<>>)
               /\ x.m # <<>> => x.m[Len(x.m)] # 0
BNeg(x)    == [s |-> -x.s, m |-> x.m]
BAbs(x)    == [s |-> IF x.s = 0 THEN 0 ELSE 1, m |-> x.m]
BSign(x)   == x.s
BIsZero(x) == x.s = 0
BAdd(x, y) ==
    IF x.s = 0 THEN y ELSE IF y.s = 0 THEN x
    ELSE IF x.s = y.s THEN [s |-> x.s, m |-> MagAdd(x.m, y.m)]
    ELSE LET c == MagCmp(x.m, y.m) IN
         IF c = 0 THEN BZero
         ELSE IF c > 0 THEN [s |-> x.s, m |-> MagSub(x.m, y.m)]
         ELSE [s |-> y.s, m |-> MagSub(y.m, x.m)]
BSub(x, y) == BAdd(x, BNeg(y))
BMul(x, y) == IF x.s = 0 \/ y.s = 0 THEN BZero ELSE [s |-> x.s * y.s, m |-> MagMul(x.m, y.m)]
BCmp(x, y) ==    \* -1, 0, 1
    IF x.s # y.s THEN (IF x.s < y.s THEN -1 ELSE 1)
    ELSE IF x.s = 0 THEN 0 ELSE x.s * MagCmp(x.m, y.m)
BLt(x, y)  == BCmp(x, y) < 0
BLe(x, y)  == BCmp(x, y) <= 0

\* value of a small BigNum as a TLC integer (only for numbers known to be small)
RECURSIVE MagToNat(_)
MagToNat(m) == IF m = <<>> THEN 0 ELSE m[1] + BASE * MagToNat(Tail(m))
BToInt(x)  == x.s * MagToNat(x.m)
BIsSmall(x) == Len(x.m) <= 3 /\ (Len(x.m) = 3 => x.m[3] < 2)
\* x mod p for a small positive TLC integer p (result in 0..p-1), by Horner over the limbs
RECURSIVE MagMod(_,_)
MagMod(m, p) == IF m = <<>> THEN 0 ELSE (m[1] + (BASE % p) * MagMod(Tail(m), p)) % p
BMod(x, p)  == LET r == MagMod(x.m, p) IN IF x.s >= 0 THEN r ELSE (p - r) % p
=============================================================================
