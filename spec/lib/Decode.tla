------------------------------- MODULE Decode -------------------------------
(* JSON forms -> spec values: polynomials arrive as term lists [{e, c}, ...], matrices of polynomials
   entrywise. *)
EXTENDS Matrices
PolyOfTerms(ts) == [e \in {ts[i].e : i \in 1..Len(ts)} |-> ts[CHOOSE i \in 1..Len(ts) : ts[i].e = e].c]
DV(R, j) == IF R.k = "P" THEN PolyOfTerms(j) ELSE j
DM(R, M) == IF R.k = "P" THEN Mat(M.m, M.n, LAMBDA i, k : PolyOfTerms(M.a[i][k])) ELSE M
DS(R, s) == [i \in 1..Len(s) |-> DV(R, s[i])]
=============================================================================
