------------------------------ MODULE Matrices ------------------------------
(***************************************************************************)
(* Ring-generic dense matrix algebra over Rings.tla.  A matrix is a record *)
(* [m |-> rows, n |-> cols, a |-> sequence of m rows, each a sequence of n *)
(* ring values]; zero-dimensional shapes are explicit in m and n.  A       *)
(* vector is an m x 1 matrix.  Indices in operators are 1-based; the       *)
(* 0-based indices of the library are shifted at the event boundary.       *)
(* Permutations are sequences p with p[i] the image of i (1-based).        *)
(***************************************************************************)
EXTENDS Rings

Mat(m, n, f(_,_)) == [m |-> m, n |-> n, a |-> [i \in 1..m |-> [j \in 1..n |-> f(i, j)]]]
MZero(R, m, n)  == Mat(m, n, LAMBDA i, j : RZero(R))
MId(R, n)       == Mat(n, n, LAMBDA i, j : IF i = j THEN ROne(R) ELSE RZero(R))
MShapeOK(A)     == /\ Len(A.a) = A.m /\ \A i \in 1..A.m : Len(A.a[i]) = A.n
MAt(A, i, j)    == A.a[i][j]

MAdd(R, A, B)   == Mat(A.m, A.n, LAMBDA i, j : RAdd(R, A.a[i][j], B.a[i][j]))
MSub(R, A, B)   == Mat(A.m, A.n, LAMBDA i, j : RSub(R, A.a[i][j], B.a[i][j]))
MNeg(R, A)      == Mat(A.m, A.n, LAMBDA i, j : RNeg(R, A.a[i][j]))
MScale(R, c, A) == Mat(A.m, A.n, LAMBDA i, j : RMul(R, c, A.a[i][j]))
MMul(R, A, B)   == Mat(A.m, B.n, LAMBDA i, j :
                       RSumSeq(R, [k \in 1..A.n |-> RMul(R, A.a[i][k], B.a[k][j])]))
MTrans(A)       == Mat(A.n, A.m, LAMBDA i, j : A.a[j][i])
MSame(R, A, B)  == /\ A.m = B.m /\ A.n = B.n
                   /\ \A i \in 1..A.m : \A j \in 1..A.n : RSame(R, A.a[i][j], B.a[i][j])
MIsZero(R, A)   == \A i \in 1..A.m : \A j \in 1..A.n : RIsZero(R, A.a[i][j])
MIsId(R, A)     == A.m = A.n /\ MSame(R, A, MId(R, A.n))
MCanon(R, A)    == \A i \in 1..A.m : \A j \in 1..A.n : RCanon(R, A.a[i][j])

\* rows i0+1..i1, columns j0+1..j1  (0-based half-open ranges of the library)
MSubmat(A, i0, i1, j0, j1) == Mat(i1 - i0, j1 - j0, LAMBDA i, j : A.a[i0 + i][j0 + j])
MConcat(A, B)   == Mat(A.m, A.n + B.n, LAMBDA i, j : IF j <= A.n THEN A.a[i][j] ELSE B.a[i][j - A.n])
MStack(A, B)    == Mat(A.m + B.m, A.n, LAMBDA i, j : IF i <= A.m THEN A.a[i][j] ELSE B.a[i - A.m][j])
MBlocks(A, B, C, D) == MStack(MConcat(A, B), MConcat(C, D))
MCol(A, j)      == Mat(A.m, 1, LAMBDA i, k : A.a[i][j])
MRow(A, i)      == Mat(1, A.n, LAMBDA k, j : A.a[i][j])

\* permutations: p[i] = image of i
IsPerm(p, n)    == Len(p) = n /\ {p[i] : i \in 1..n} = 1..n
PermInv(p)      == [k \in 1..Len(p) |-> CHOOSE i \in 1..Len(p) : p[i] = k]
\* result[p[i], q[j]] = A[i, j]
MPermute(A, p, q) == LET pi == PermInv(p)  qi == PermInv(q) IN Mat(A.m, A.n, LAMBDA i, j : A.a[pi[i]][qi[j]])
IdPerm(n)       == [i \in 1..n |-> i]
\* P e_i = e_{p[i]}
MRowPerm(R, p)  == Mat(Len(p), Len(p), LAMBDA i, j : IF i = p[j] THEN ROne(R) ELSE RZero(R))
MColPerm(R, p)  == Mat(Len(p), Len(p), LAMBDA i, j : IF j = p[i] THEN ROne(R) ELSE RZero(R))

\* matrix from a sequence of entries <<i, j, v>> (1-based, no repeated position)
MFromEntries(R, m, n, es) ==
    Mat(m, n, LAMBDA i, j : LET K == {k \in 1..Len(es) : es[k][1] = i /\ es[k][2] = j} IN
                            IF K = {} THEN RZero(R) ELSE es[CHOOSE k \in K : TRUE][3])
MDiag(R, m, n, d) == Mat(m, n, LAMBDA i, j : IF i = j /\ i <= Len(d) THEN d[i] ELSE RZero(R))
MIsDiag(R, A)   == \A i \in 1..A.m : \A j \in 1..A.n : i # j => RIsZero(R, A.a[i][j])

\* triangular shapes (square)
MIsUpper(R, A)  == A.m = A.n /\ \A i \in 1..A.m : \A j \in 1..A.n : i > j => RIsZero(R, A.a[i][j])
MIsLower(R, A)  == A.m = A.n /\ \A i \in 1..A.m : \A j \in 1..A.n : i < j => RIsZero(R, A.a[i][j])

\* elementary operations on dense matrices (used by SNF / LLL step machines)
MSwapRows(A, i, k)  == Mat(A.m, A.n, LAMBDA r, c : A.a[IF r = i THEN k ELSE IF r = k THEN i ELSE r][c])
MSwapCols(A, j, k)  == Mat(A.m, A.n, LAMBDA r, c : A.a[r][IF c = j THEN k ELSE IF c = k THEN j ELSE c])
MMulRow(R, A, i, x) == Mat(A.m, A.n, LAMBDA r, c : IF r = i THEN RMul(R, x, A.a[r][c]) ELSE A.a[r][c])
MMulCol(R, A, j, x) == Mat(A.m, A.n, LAMBDA r, c : IF c = j THEN RMul(R, A.a[r][c], x) ELSE A.a[r][c])
\* row k += x * row i
MAddRowTo(R, A, i, k, x) == Mat(A.m, A.n, LAMBDA r, c : IF r = k THEN RAdd(R, A.a[k][c], RMul(R, x, A.a[i][c])) ELSE A.a[r][c])
MAddColTo(R, A, j, k, x) == Mat(A.m, A.n, LAMBDA r, c : IF c = k THEN RAdd(R, A.a[r][k], RMul(R, A.a[r][j], x)) ELSE A.a[r][c])

\* fraction-free rank over an integral domain given by elimination on the field of fractions is
\* provided by spec/lib/LinAlg.tla; small determinants here
RECURSIVE MDet(_,_)
MDet(R, A) == IF A.n = 0 THEN ROne(R)
              ELSE RSumSeq(R, [j \in 1..A.n |->
                     LET minor == Mat(A.n - 1, A.n - 1, LAMBDA r, c : A.a[r + 1][IF c < j THEN c ELSE c + 1])
                         t == RMul(R, A.a[1][j], MDet(R, minor))
                     IN IF j % 2 = 1 THEN t ELSE RNeg(R, t)])
=============================================================================
