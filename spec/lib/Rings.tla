-------------------------------- MODULE Rings --------------------------------
(***************************************************************************)
(* Ring-generic exact arithmetic by tagged dispatch.  A ring descriptor R  *)
(* is a record with field k:                                               *)
(*   "I"  TLC integers (small values only; used for exhaustive configs)    *)
(*   "Z"  integers as BigNum                                                *)
(*   "Q"  rationals, a value is [n |-> BigNum, d |-> BigNum], d # 0          *)
(*   "F"  prime field F_p, R.p the prime, a value is an integer 0..p-1      *)
(*   "G"  Gaussian integers a + b i      value [a |-> BigNum, b |-> BigNum] *)
(*   "E"  Eisenstein integers a + b w, w^2 = w - 1                          *)
(*   "P"  polynomials over R.b in R.nv variables (nv = 0: one variable,     *)
(*        exponents are integers; nv >= 1: exponents are nv-tuples of       *)
(*        integers; negative exponents = Laurent).  A value is a function   *)
(*        from a finite set of exponents to coefficients.                   *)
(* Operations return *a* representative of the result; RSame decides       *)
(* whether two representatives denote the same element and RCanon whether  *)
(* a representative is the canonical one the library must store.           *)
(***************************************************************************)
EXTENDS BigNum, FiniteSets, FiniteSetsExt

RZ == [k |-> "Z"]
RQ == [k |-> "Q"]
RI == [k |-> "I"]
RG == [k |-> "G"]
RE == [k |-> "E"]
RF(p) == [k |-> "F", p |-> p]
RP(b, nv) == [k |-> "P", b |-> b, nv |-> nv]

\* ---------------------------------------------------------------- small native helpers
IAbs(x) == IF x < 0 THEN -x ELSE x
RECURSIVE IGcdN(_,_)
IGcdN(a, b) == IF b = 0 THEN a ELSE IGcdN(b, a % b)
IGcd(a, b)  == IGcdN(IAbs(a), IAbs(b))
IMod(x, p) == IF p < 1000000000 THEN ((x % p) + p) % p ELSE x % p     \* x % p is already in 0..p-1; the second form cannot overflow
\* arithmetic mod p on canonical residues 0..p-1 that never leaves TLC's 32-bit integers (moduli up to 2^31 - 1)
AddM(x, y, p) == IF x >= p - y THEN x - (p - y) ELSE x + y
RECURSIVE MulM(_,_,_)
MulM(x, y, p) == IF y = 0 THEN 0
                 ELSE LET h == MulM(x, y \div 2, p)
                          d == AddM(h, h, p)
                      IN IF y % 2 = 1 THEN AddM(d, x, p) ELSE d
RECURSIVE MagModM(_,_)
MagModM(m, p) == IF m = <<>> THEN 0 ELSE AddM(m[1] % p, MulM(BASE % p, MagModM(Tail(m), p), p), p)
BModM(x, p)  == LET r == MagModM(x.m, p) IN IF x.s >= 0 THEN r ELSE (p - r) % p
BigP(p) == p >= 2000000          \* from here on MagMod / (x + y) % p could overflow: use the -M forms
RECURSIVE IPow(_,_)
IPow(x, n) == IF n = 0 THEN 1 ELSE x * IPow(x, n-1)

\* ---------------------------------------------------------------- Q
QMk(n, d)  == [n |-> n, d |-> d]
QAddR(x,y) == QMk(BAdd(BMul(x.n, y.d), BMul(y.n, x.d)), BMul(x.d, y.d))
QNegR(x)   == QMk(BNeg(x.n), x.d)
QMulR(x,y) == QMk(BMul(x.n, y.n), BMul(x.d, y.d))
QSame(x,y) == BMul(x.n, y.d) = BMul(y.n, x.d)
QSign(x)   == x.n.s * x.d.s
QCmp(x,y)  == BSub(BMul(x.n, y.d), BMul(y.n, x.d)).s * x.d.s * y.d.s     \* -1 / 0 / 1
\* canonical: positive denominator, lowest terms.  w = <<s,t>> is a Bezout witness
\* s*n + t*d = 1 (needed for big numbers); with w = <<>> the gcd is computed natively.
QCanonW(x, w) ==
    /\ BIsCanon(x.n) /\ BIsCanon(x.d) /\ x.d.s = 1
    /\ IF w # <<>> THEN BAdd(BMul(w[1], x.n), BMul(w[2], x.d)) = BOne
       ELSE BIsSmall(x.n) /\ BIsSmall(x.d) /\ IGcd(BToInt(x.n), BToInt(x.d)) = 1
\* the canonical representative, computable for small values only
QCanonOf(x) == LET n == BToInt(x.n)  d == BToInt(x.d)  g == IGcd(n, d)  sg == IF d < 0 THEN -1 ELSE 1
               IN QMk(BN(sg * (n \div g)), BN(sg * (d \div g)))
QOfInts(n, d) == QMk(BN(n), BN(d))

\* ---------------------------------------------------------------- quadratic integers
ZMk(a, b)  == [a |-> a, b |-> b]
GMul(x, y) == ZMk(BSub(BMul(x.a, y.a), BMul(x.b, y.b)), BAdd(BMul(x.a, y.b), BMul(x.b, y.a)))
\* w^2 = w - 1:  (a + bw)(c + dw) = (ac - bd) + (ad + bc + bd) w
EMul(x, y) == ZMk(BSub(BMul(x.a, y.a), BMul(x.b, y.b)),
                  BAdd(BAdd(BMul(x.a, y.b), BMul(x.b, y.a)), BMul(x.b, y.b)))
GNorm(x)   == BAdd(BMul(x.a, x.a), BMul(x.b, x.b))
ENorm(x)   == BAdd(BAdd(BMul(x.a, x.a), BMul(x.a, x.b)), BMul(x.b, x.b))
ZAdd(x, y) == ZMk(BAdd(x.a, y.a), BAdd(x.b, y.b))
ZNeg(x)    == ZMk(BNeg(x.a), BNeg(x.b))
ZOf(a, b)  == ZMk(BN(a), BN(b))
GUnits     == {ZOf(1,0), ZOf(-1,0), ZOf(0,1), ZOf(0,-1)}
EUnits     == {ZOf(1,0), ZOf(-1,0), ZOf(0,1), ZOf(0,-1), ZOf(1,-1), ZOf(-1,1)}

\* ---------------------------------------------------------------- exponents
EZero(nv)    == IF nv = 0 THEN 0 ELSE [i \in 1..nv |-> 0]
EAdd(nv,e,f) == IF nv = 0 THEN e + f ELSE [i \in 1..nv |-> e[i] + f[i]]
ESub(nv,e,f) == IF nv = 0 THEN e - f ELSE [i \in 1..nv |-> e[i] - f[i]]
ETotal(nv,e) == IF nv = 0 THEN e ELSE FoldLeft(LAMBDA a, b : a + b, 0, e)

\* ---------------------------------------------------------------- generic dispatch
RECURSIVE RZero(_), ROne(_), RAdd(_,_,_), RNeg(_,_), RMul(_,_,_), RIsZero(_,_), RSame(_,_,_),
          RCanonW(_,_,_), RFromInt(_,_)

PEmpty == [e \in {} |-> 0]
PCoef(R, f, e) == IF e \in DOMAIN f THEN f[e] ELSE RZero(R.b)
PClean(R, E, f) == LET K == {e \in E : ~RIsZero(R.b, PCoef(R, f, e))} IN [e \in K |-> f[e]]
PMono(R, e, c) == IF RIsZero(R.b, c) THEN PEmpty ELSE [x \in {e} |-> c]

RSumSeq(R, s) == FoldLeft(LAMBDA a, b : RAdd(R, a, b), RZero(R), s)

RZero(R) == CASE R.k = "I" -> 0
              [] R.k = "Z" -> BZero
              [] R.k = "Q" -> QMk(BZero, BOne)
              [] R.k = "F" -> 0
              [] R.k \in {"G", "E"} -> ZMk(BZero, BZero)
              [] R.k = "P" -> PEmpty

ROne(R)  == CASE R.k = "I" -> 1
              [] R.k = "Z" -> BOne
              [] R.k = "Q" -> QMk(BOne, BOne)
              [] R.k = "F" -> 1 % R.p
              [] R.k \in {"G", "E"} -> ZMk(BOne, BZero)
              [] R.k = "P" -> [e \in {EZero(R.nv)} |-> ROne(R.b)]

RFromInt(R, n) ==
           CASE R.k = "I" -> n
             [] R.k = "Z" -> BN(n)
             [] R.k = "Q" -> QMk(BN(n), BOne)
             [] R.k = "F" -> IMod(n, R.p)
             [] R.k \in {"G", "E"} -> ZMk(BN(n), BZero)
             [] R.k = "P" -> PMono(R, EZero(R.nv), RFromInt(R.b, n))

\* the image of an integer given as BigNum
RFromBig(R, n) ==
           CASE R.k = "I" -> BToInt(n)
             [] R.k = "Z" -> n
             [] R.k = "Q" -> QMk(n, BOne)
             [] R.k = "F" -> IF BigP(R.p) THEN BModM(n, R.p) ELSE BMod(n, R.p)
             [] R.k \in {"G", "E"} -> ZMk(n, BZero)

RIsZero(R, x) ==
           CASE R.k = "I" -> x = 0
             [] R.k = "Z" -> x.s = 0
             [] R.k = "Q" -> x.n.s = 0
             [] R.k = "F" -> x = 0
             [] R.k \in {"G", "E"} -> x.a.s = 0 /\ x.b.s = 0
             [] R.k = "P" -> \A e \in DOMAIN x : RIsZero(R.b, x[e])

RAdd(R, x, y) ==
           CASE R.k = "I" -> x + y
             [] R.k = "Z" -> BAdd(x, y)
             [] R.k = "Q" -> QAddR(x, y)
             [] R.k = "F" -> IF BigP(R.p) THEN AddM(x, y, R.p) ELSE (x + y) % R.p
             [] R.k \in {"G", "E"} -> ZAdd(x, y)
             [] R.k = "P" -> LET E == DOMAIN x \cup DOMAIN y
                                 s == [e \in E |-> RAdd(R.b, PCoef(R, x, e), PCoef(R, y, e))]
                             IN PClean(R, E, s)

RNeg(R, x) ==
           CASE R.k = "I" -> -x
             [] R.k = "Z" -> BNeg(x)
             [] R.k = "Q" -> QNegR(x)
             [] R.k = "F" -> (R.p - x) % R.p
             [] R.k \in {"G", "E"} -> ZNeg(x)
             [] R.k = "P" -> [e \in DOMAIN x |-> RNeg(R.b, x[e])]

RMul(R, x, y) ==
           CASE R.k = "I" -> x * y
             [] R.k = "Z" -> BMul(x, y)
             [] R.k = "Q" -> QMulR(x, y)
             [] R.k = "F" -> IF R.p < 46341 THEN (x * y) % R.p
                             ELSE IF BigP(R.p) THEN MulM(x, y, R.p)     \* double-and-add, never above 2^31 - 1
                             ELSE BMod(BMul(BN(x), BN(y)), R.p)        \* primes up to 2*10^6: the product exceeds TLC's integers
             [] R.k = "G" -> GMul(x, y)
             [] R.k = "E" -> EMul(x, y)
             [] R.k = "P" ->
                  \* coefficient of e = sum over the d in supp(x) with e - d in supp(y) of x[d] * y[e-d]
                  LET Dx == DOMAIN x
                      Dy == DOMAIN y
                      E  == {EAdd(R.nv, p[1], p[2]) : p \in Dx \X Dy}
                      s  == [e \in E |->
                              RSumSeq(R.b, LET ds == SetToSeq({d \in Dx : ESub(R.nv, e, d) \in Dy})
                                           IN [i \in 1..Len(ds) |-> RMul(R.b, x[ds[i]], y[ESub(R.nv, e, ds[i])])])]
                  IN PClean(R, E, s)

RSub(R, x, y) == RAdd(R, x, RNeg(R, y))

\* same ring element (representatives may differ only for Q and for polynomial coefficients in Q)
RSame(R, x, y) ==
           CASE R.k = "Q" -> QSame(x, y)
             [] R.k = "P" -> LET E == DOMAIN x \cup DOMAIN y IN
                             \A e \in E : RSame(R.b, PCoef(R, x, e), PCoef(R, y, e))
             [] OTHER -> x = y

\* x is the representative the library must store; w is a witness (<<>> = none)
RCanonW(R, x, w) ==
           CASE R.k = "I" -> TRUE
             [] R.k = "Z" -> BIsCanon(x)
             [] R.k = "Q" -> QCanonW(x, w)
             [] R.k = "F" -> x \in 0 .. R.p-1
             [] R.k \in {"G", "E"} -> BIsCanon(x.a) /\ BIsCanon(x.b)
             [] R.k = "P" -> \A e \in DOMAIN x : ~RIsZero(R.b, x[e]) /\ RCanonW(R.b, x[e], <<>>)
RCanon(R, x) == RCanonW(R, x, <<>>)

RECURSIVE RPow(_,_,_)
RPow(R, x, n) == IF n = 0 THEN ROne(R) ELSE RMul(R, x, RPow(R, x, n-1))

\* ---------------------------------------------------------------- Euclidean structure
IsField(R)  == R.k \in {"Q", "F"}
PDeg(R, f)  == IF DOMAIN f = {} THEN -1 ELSE Max({e : e \in DOMAIN f})   \* one variable; -1 for 0
PLead(R, f) == f[PDeg(R, f)]

\* Euclidean norm of r strictly smaller than that of b (b # 0, r # 0)
RNormLess(R, r, b) ==
           CASE R.k = "I" -> IAbs(r) < IAbs(b)
             [] R.k = "Z" -> BCmp(BAbs(r), BAbs(b)) < 0
             [] R.k = "G" -> BCmp(GNorm(r), GNorm(b)) < 0
             [] R.k = "E" -> BCmp(ENorm(r), ENorm(b)) < 0
             [] R.k = "P" -> PDeg(R, r) < PDeg(R, b)
             [] OTHER -> FALSE                                 \* fields: the remainder must be zero

\* the mathematical unit predicate
RIsUnit(R, x) ==
           CASE R.k = "I" -> x \in {1, -1}
             [] R.k = "Z" -> BAbs(x) = BOne
             [] R.k = "Q" -> x.n.s # 0
             [] R.k = "F" -> x # 0
             [] R.k = "G" -> GNorm(x) = BOne
             [] R.k = "E" -> ENorm(x) = BOne
             [] R.k = "P" -> /\ DOMAIN x = {EZero(R.nv)}           \* coefficient field assumed
                             /\ ~RIsZero(R.b, x[EZero(R.nv)])

\* x is its own normalised associate
RIsNormalized(R, x) ==
           CASE R.k = "I" -> x >= 0
             [] R.k = "Z" -> x.s >= 0
             [] R.k = "Q" -> x.n.s = 0 \/ QSame(x, QMk(BOne, BOne))
             [] R.k = "F" -> x \in {0, 1 % R.p}
             [] R.k = "G" -> (x.a.s = 0 /\ x.b.s = 0) \/ (x.a.s = 1 /\ x.b.s >= 0)
             [] R.k = "E" -> (x.a.s = 0 /\ x.b.s = 0) \/ (x.a.s = 1 /\ x.b.s >= 0)
             [] R.k = "P" -> IF RIsZero(R, x) THEN TRUE ELSE RSame(R.b, PLead(R, x), ROne(R.b))

\* the finite unit groups (for rings where it is finite and small)
RUnitSet(R) ==
           CASE R.k = "I" -> {1, -1}
             [] R.k = "Z" -> {BN(1), BN(-1)}
             [] R.k = "G" -> GUnits
             [] R.k = "E" -> EUnits
             [] R.k = "F" -> 1 .. R.p-1
=============================================================================
