------------------------------ MODULE SmithFast ------------------------------
(***************************************************************************)
(* Diagonalisation of integer matrices by unimodular row and column        *)
(* operations, written so that TLC evaluates it in time polynomial in the  *)
(* size of the matrix: TLC keeps  [i \in S |-> e]  as an unevaluated        *)
(* closure and re-evaluates e at every application, so every row built     *)
(* here is forced into an explicit tuple (FS).  The operators of           *)
(* LinAlg.tla are the reference on small matrices (MC_SmithFast checks     *)
(* FastInvFactors = InvFactors and FastRankP = RankP on complete small     *)
(* domains); they are not usable beyond about 4 x 4.                       *)
(*                                                                         *)
(*   DiagOf(A)   the non-zero entries a_1, .., a_r (positive) of a diagonal *)
(*               matrix P A Q, P and Q unimodular.  Then                   *)
(*               rank_Q A = r,  coker A = Z^(m-r) + sum Z/a_k,             *)
(*               rank_{F_p} A = #{k : p does not divide a_k}.              *)
(*   pivots +-1 are taken first (sparse matrices with entries 0, +-1: the  *)
(*   cost per pivot is (rows meeting the pivot column) x (columns)).       *)
(***************************************************************************)
EXTENDS LinAlg

FS(s) == s \o <<>>                       \* force a sequence into an explicit tuple

IsUnitEntry(x) == x = 1 \/ x = -1
RowIsZero(r)   == \A c \in 1..Len(r) : r[c] = 0
RowHasUnit(r)  == \E c \in 1..Len(r) : IsUnitEntry(r[c])

\* row := row - q * r
SubRow(row, q, r) == IF q = 0 THEN row ELSE FS([c \in 1..Len(row) |-> row[c] - q * r[c]])
\* clear column j of `row` with the pivot row r, r[j] = +-1
ElimRow(row, r, j) == SubRow(row, row[j] * r[j], r)
\* one Euclidean step of `row` against the pivot row r at column j (any pivot r[j] # 0)
ReduceRow(row, r, j) == SubRow(row, QuoT(row[j], r[j]), r)
DropZeroRows(rows) == SelectSeq(rows, LAMBDA x : ~RowIsZero(x))

\* ---------------------------------------------------------------- phase 1: unit pivots
RECURSIVE UElim(_, _, _)
\* todo: rows still to be looked at; kept: non-zero rows without a unit entry when they were looked at; u: unit pivots so far
UElim(todo, kept, u) ==
    IF Len(todo) = 0
    THEN IF \E i \in 1..Len(kept) : RowHasUnit(kept[i]) THEN UElim(kept, <<>>, u)      \* an update created a unit: once more
         ELSE [u |-> u, rest |-> kept]
    ELSE LET r == todo[1] IN
         IF RowIsZero(r) THEN UElim(Tail(todo), kept, u)
         ELSE IF ~RowHasUnit(r) THEN UElim(Tail(todo), Append(kept, r), u)
         ELSE LET j == CHOOSE c \in 1..Len(r) : IsUnitEntry(r[c])
              IN  UElim(FS([i \in 1..(Len(todo) - 1) |-> ElimRow(todo[i + 1], r, j)]),
                        DropZeroRows(FS([i \in 1..Len(kept) |-> ElimRow(kept[i], r, j)])),
                        u + 1)
\* drop the columns that are zero in every row
Compress(A) ==
    IF Len(A) = 0 THEN A
    ELSE LET cs == SetToSortSeq({c \in 1..Len(A[1]) : \E i \in 1..Len(A) : A[i][c] # 0}, <)
         IN  FS([i \in 1..Len(A) |-> FS([k \in 1..Len(cs) |-> A[i][cs[k]]])])

\* ---------------------------------------------------------------- phase 2: general pivots (matrix without zero rows)
\* position of a non-zero entry of least absolute value
MinEntry(rows) ==
    LET best(acc, i) ==       \* acc = <<abs value, row, column>> or <<0, 0, 0>>
            FoldLeft(LAMBDA a, c : IF rows[i][c] # 0 /\ (a[1] = 0 \/ LAbs(rows[i][c]) < a[1]) THEN <<LAbs(rows[i][c]), i, c>> ELSE a,
                     acc, [c \in 1..Len(rows[i]) |-> c])
    IN  FoldLeft(best, <<0, 0, 0>>, [i \in 1..Len(rows) |-> i])
RECURSIVE GElim(_, _)
GElim(rows, acc) ==
    IF Len(rows) = 0 THEN acc
    ELSE LET mn == MinEntry(rows)
             i  == mn[2]
             j  == mn[3]
             r  == rows[i]
             a  == r[j]
             others == FS([k \in 1..(Len(rows) - 1) |-> ReduceRow(rows[IF k < i THEN k ELSE k + 1], r, j)])
         IN  IF \E k \in 1..Len(others) : others[k][j] # 0
             THEN GElim(DropZeroRows(<<r>> \o others), acc)                 \* a smaller entry appeared in column j
             ELSE LET r2 == FS([c \in 1..Len(r) |-> IF c = j THEN a ELSE r[c] - QuoT(r[c], a) * a])   \* column operations with column j
                  IN  IF \E c \in 1..Len(r2) : c # j /\ r2[c] # 0
                      THEN GElim(<<r2>> \o DropZeroRows(others), acc)       \* a smaller entry appeared in the pivot row
                      ELSE GElim(DropZeroRows(others), Append(acc, LAbs(a)))   \* the pivot is isolated

\* ---------------------------------------------------------------- results
ForceMat(A) == FS([i \in 1..Len(A) |-> FS(A[i])])
DiagOf(A) == LET e == UElim(ForceMat(A), <<>>, 0) IN FS([k \in 1..e.u |-> 1]) \o GElim(Compress(e.rest), <<>>)

RECURSIVE GcdL(_, _)
GcdL(a, b) == IF b = 0 THEN a ELSE GcdL(b, a % b)
\* the divisibility chain d_1 | d_2 | ... with the same cokernel as diag(ds)  (all ds positive)
RECURSIVE ChainFrom(_, _, _)
ChainFrom(ds, i, j) ==
    IF i >= Len(ds) THEN ds
    ELSE IF j > Len(ds) THEN ChainFrom(ds, i + 1, i + 2)
    ELSE LET g == GcdL(ds[i], ds[j]) IN ChainFrom([ds EXCEPT ![i] = g, ![j] = (ds[i] \div g) * ds[j]], i, j + 1)
InvChain(ds) == ChainFrom(ds, 1, 2)

FastInvFactors(A) == InvChain(DiagOf(A))
RankOfDiag(ds, p) == Cardinality({k \in 1..Len(ds) : ds[k] % p # 0})
FastRankP(A, p)   == RankOfDiag(DiagOf(A), p)
=============================================================================
