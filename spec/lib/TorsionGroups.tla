---------------------------- MODULE TorsionGroups ----------------------------
(***************************************************************************)
(* Finite abelian groups given as sequences of orders of cyclic summands   *)
(* (small TLC integers): comparison up to isomorphism through the primary  *)
(* decomposition, invariant factors, p-ranks.                               *)
(***************************************************************************)
EXTENDS Integers, Sequences, FiniteSets

UAbs(x) == IF x < 0 THEN -x ELSE x
SmallestFactor(n) == CHOOSE p \in 2..n : n % p = 0 /\ \A q \in 2..(p - 1) : n % q # 0
RECURSIVE StripPower(_, _)
StripPower(n, p) == IF n % p = 0 THEN StripPower(n \div p, p) ELSE n
RECURSIVE PrimeParts(_)                    \* n >= 1 |-> the set of prime powers p^e exactly dividing n
PrimeParts(n) == IF n = 1 THEN {}
                 ELSE LET p == SmallestFactor(n)
                          m == StripPower(n, p)
                      IN  {n \div m} \cup PrimeParts(m)
\* the primary decomposition of Z/t1 + ... + Z/tk as a bag: prime power |-> multiplicity
Primary(tors) == LET PP == [k \in 1..Len(tors) |-> PrimeParts(UAbs(tors[k]))]
                     S  == UNION {PP[k] : k \in 1..Len(tors)}
                 IN  [x \in S |-> Cardinality({k \in 1..Len(tors) : x \in PP[k]})]
IsoTors(t1, t2) == Primary(t1) = Primary(t2)
\* the number of cyclic summands whose order is divisible by p = dim of (torsion (x) F_p); it does not depend
\* on how the group is cut into cyclic pieces
DivCount(tors, p) == Cardinality({k \in 1..Len(tors) : tors[k] % p = 0})

\* divisibility chain d1 | d2 | ... (the form a Smith normal form reports)
IsChain(ds) == \A k \in 1..(Len(ds) - 1) : ds[k + 1] % ds[k] = 0
=============================================================================
